(* C05, second part: type preservation (subst_typed) and, with it, the substitution lemma for every
   operator except Pow (and array values), and the interpretation lemma.
   Uses the well-formedness predicate [okt] of the C01 development (proofs/SimplifierSemBase_proofs.v:
   arities the constructors guarantee, constants in range, inhabited sorts) with its lemmas
   [okt_sound] (a well-typed okt term denotes a value of its sort) and [bv_width_ok] (the structural
   width FNode.bv_width() computes is the width of the term's sort). *)
From Coq Require Import List ZArith Bool String Reals Lia Lra.
From Coq Require Import ClassicalDescription.
From PySMT.core Require Import Syntax SyntaxLemmas PyPrims Types Sem.
From PySMT.models Require Import TypeChecker Oracles Ctors Simplifier Substituter.
From PySMT.proofs Require Import Sets_proofs TypeChecker_proofs Coincidence Simplifier_proofs
     SimplifierSemBase_proofs SimplifierSemArr_proofs Substituter_proofs.
Import ListNotations.
Open Scope bool_scope.

(* ------------------------------------------------------------------ vocabulary *)
(* operators covered: all but Pow; array values when [arr] is set (then no key of the map may be
   an index constant: symbol keys never are) *)
Section Arr.
Variable arr : bool.
Definition tnode (o : op) : bool := match o with OPow => false | OArrayValue _ => arr | _ => true end.
Fixpoint tfrag (t : term) : bool :=
  match t with T o args => tnode o && (fix all (l : list term) : bool := match l with [] => true | x :: r => tfrag x && all r end) args end.
Lemma tfrag_args o args : tfrag (T o args) = true -> tnode o = true /\ Forall (fun a => tfrag a = true) args.
Proof.
  cbn [tfrag]. rewrite andb_true_iff. intros [H1 H2]. split; auto.
  induction args as [|x r IH]; constructor; apply andb_true_iff in H2; [tauto | apply IH; tauto].
Qed.
Definition no_const_keys (s : smap) : Prop := forall k v, In (k, v) s -> key_const k = false.
Definition arr_safe (s : smap) : Prop := arr = true -> no_const_keys s.
Lemma arr_safe_drop vs s : arr_safe s -> arr_safe (drop_bound vs s).
Proof. intros H Ha k v Hin. apply drop_bound_In in Hin. eapply H; eauto. Qed.
Lemma sym_keys_no_const s : sym_keys s -> no_const_keys s.
Proof. intros H k v Hin. destruct (H k v Hin) as (n & ty & ->). reflexivity. Qed.

(* type-correct map: every replacement is well-formed and has the sort of its key *)
Definition map_ok (s : smap) : Prop := forall k v, In (k, v) s -> okt v = true /\ tc v = tc k.
Lemma map_ok_drop vs s : map_ok s -> map_ok (drop_bound vs s).
Proof. intros H k v Hin. apply drop_bound_In in Hin. auto. Qed.

Definition crel (a a' : term) : Prop := okt a' = true /\ tc a' = tc a /\ (arr = true -> key_const a = true -> a' = a).

Lemma Forall2_imp {A B} (P Q : A -> B -> Prop) : (forall a b, P a b -> Q a b) ->
  forall l l', Forall2 P l l' -> Forall2 Q l l'.
Proof. intros H l l' F. induction F; constructor; auto. Qed.
Lemma tcs_eq args args' : Forall2 (fun a a' => tc a' = tc a) args args' -> tcs args' = tcs args.
Proof. induction 1 as [|a a' r r' Ha Hr IH]; cbn; [reflexivity|]. now rewrite Ha, IH. Qed.
Lemma crel_tcs args args' : Forall2 crel args args' -> tcs args' = tcs args.
Proof. intros H. apply tcs_eq. eapply Forall2_imp; [|exact H]. intros a a' (_ & E & _); exact E. Qed.
Lemma crel_okt args args' : Forall2 crel args args' -> Forall (fun a => okt a = true) args'.
Proof. induction 1 as [|a a' r r' (H & _) _ IH]; constructor; auto. Qed.
Lemma crel_tc o args args' : Forall2 crel args args' -> tc (T o args') = tc (T o args).
Proof. intros H. now rewrite !tc_tcs, (crel_tcs _ _ H). Qed.

Lemma tcs_nil_inv l : tcs l = Some [] -> l = [].
Proof. destruct l as [|x r]; [reflexivity|]. cbn. destruct (tc x); [|discriminate]. destruct (tcs r); discriminate. Qed.
Lemma tcs_length : forall l tys, tcs l = Some tys -> List.length tys = List.length l.
Proof.
  induction l as [|x r IH]; intros tys; cbn; [intros [= <-]; reflexivity|].
  destruct (tc x); [|discriminate]. destruct (tcs r) eqn:E; [|discriminate]. intros [= <-]. cbn. now rewrite (IH _ eq_refl).
Qed.

(* ------------------------------------------------------------------ bit-vector width payloads *)
Lemma bv_first_width k w a rest ty : k <> BConcat -> k <> BComp -> okt a = true ->
  tc (T (OBV k w) (a :: rest)) = Some ty -> bv_width a = w.
Proof.
  intros H1 H2 Oa Htc. destruct (tc_inv _ _ _ Htc) as (tys & Hs & Hr).
  cbn [tcs] in Hs. destruct (tc a) as [ta|] eqn:Ta; [|discriminate]. destruct (tcs rest); [|discriminate].
  injection Hs as <-.
  assert (E : ty_eqb ta (TBV w) = true).
  { destruct k; try congruence; cbn in Hr; destruct (ty_eqb ta (TBV w)); auto; discriminate. }
  apply ty_eqb_eq in E. subst ta. now apply bv_width_ok.
Qed.
Lemma bv_concat_width w a b ty : okt a = true -> okt b = true ->
  tc (T (OBV BConcat w) [a; b]) = Some ty -> (bv_width a + bv_width b = w)%Z.
Proof.
  intros Oa Ob Htc. destruct (tc_inv _ _ _ Htc) as (tys & Hs & Hr).
  cbn [tcs] in Hs. destruct (tc a) as [ta|] eqn:Ta; [|discriminate]. destruct (tc b) as [tb|] eqn:Tb; [|discriminate].
  injection Hs as <-. cbn in Hr. destruct ta; try discriminate. destruct tb; try discriminate.
  destruct (Z.eqb_spec (w0 + w1) w); [|discriminate].
  rewrite (bv_width_ok a w0 Oa Ta), (bv_width_ok b w1 Ob Tb). assumption.
Qed.
(* the single BV operand of extract / rotate / extend *)
Lemma bv_unary_arg o a ty : match o with OBVExtract _ _ _ | OBVRol _ _ | OBVRor _ _ | OBVZext _ _ | OBVSext _ _ => True | _ => False end ->
  okt a = true -> tc (T o [a]) = Some ty -> exists x, tc a = Some (TBV x) /\ bv_width a = x.
Proof.
  intros Ho Oa Htc. destruct (tc_inv _ _ _ Htc) as (tys & Hs & Hr).
  cbn [tcs] in Hs. destruct (tc a) as [ta|] eqn:Ta; [|discriminate]. injection Hs as <-.
  destruct o; try contradiction; cbn in Hr; destruct ta; try discriminate;
    try solve [repeat (match type of Hr with context [if ?c then _ else _] => destruct c end); discriminate];
    (eexists; split; [reflexivity|]); now apply bv_width_ok.
Qed.

(* ------------------------------------------------------------------ node conditions survive the substitution of the children *)
Lemma Forall2_len {A B} (R : A -> B -> Prop) l l' : Forall2 R l l' -> List.length l' = List.length l.
Proof. induction 1; cbn; congruence. Qed.

(* array values: after the substitution only the part of the canonical form that does not
   mention the assigned VALUES is needed (indexes constant and strictly increasing): Array()
   re-establishes the rest by dropping the pairs whose value is the default *)
Definition anode_ok (o : op) (args : list term) : bool :=
  match o, args with
  | OArrayValue it, d :: rest => arr_keys_ok it d rest
  | _, _ => ok_node o args
  end.

Lemma pairs_keys_same : forall rest rest', Forall2 crel rest rest' -> arr = true ->
  forallb (fun kv => key_const (fst kv)) (pairs_of rest) = true ->
  map fst (pairs_of rest') = map fst (pairs_of rest).
Proof.
  fix IHf 1. intros rest rest' H Ha Hk. destruct rest as [|k [|v r]].
  - inversion H; subst. reflexivity.
  - inversion H as [|? k' ? r' _ Hr]; subst. inversion Hr; subst. reflexivity.
  - inversion H as [|? k' ? r1 Ck Hr]; subst. inversion Hr as [|? v' ? r2 _ Hr2]; subst.
    cbn [pairs_of map fst forallb] in *. apply andb_true_iff in Hk. destruct Hk as [Hk1 Hk2].
    destruct Ck as (_ & _ & Ck). rewrite (Ck Ha Hk1). f_equal. now apply IHf.
Qed.
Lemma keys_sorted_fst : forall l l', map fst l = map fst l' -> keys_sorted l = keys_sorted l'.
Proof.
  induction l as [|p r IH]; intros [|p' r'] H; try discriminate; [reflexivity|]. cbn in H. injection H as H1 H2.
  cbn [keys_sorted]. rewrite (IH r' H2), H1. f_equal.
  clear - H2. revert r' H2. induction r as [|q r IHr]; intros [|q' r'] H2; try discriminate; [reflexivity|].
  cbn in H2. injection H2 as E1 E2. cbn [forallb]. rewrite E1. f_equal. now apply IHr.
Qed.
Lemma forallb_fst (P : term -> bool) : forall (l l' : list (term * term)), map fst l = map fst l' ->
  forallb (fun kv => P (fst kv)) l = forallb (fun kv => P (fst kv)) l'.
Proof.
  induction l as [|p r IH]; intros [|p' r'] H; try discriminate; [reflexivity|]. cbn in H. injection H as H1 H2.
  cbn [forallb]. now rewrite H1, (IH r' H2).
Qed.

Lemma ok_node_transfer o args args' ty :
  tnode o = true -> ok_node o args = true -> Forall (fun a => okt a = true) args ->
  Forall2 crel args args' -> tc (T o args) = Some ty -> anode_ok o args' = true.
Proof.
  intros Ht Hk Fo Hc Htc. pose proof (Forall2_len _ _ _ Hc) as Hl.
  destruct o; try discriminate Ht; cbn [anode_ok ok_node] in *; rewrite ?Hl; auto.
  3:{ (* array value *)
    destruct args as [|d rest]; [discriminate Hk|]. inversion Hc as [|? d' ? rest' (Od' & Td' & _) Hr]; subst.
    unfold arr_node_ok in Hk. apply andb_true_iff in Hk. destruct Hk as [Hk _].
    unfold arr_keys_ok in *. rewrite !andb_true_iff in Hk. destruct Hk as [[[[H1 H2] H3] H4] H5].
    pose proof (pairs_keys_same rest rest' Hr Ht H4) as Ek.
    rewrite H1, Td', H2, (Forall2_len _ _ _ Hr), H3. cbn [andb].
    rewrite (forallb_fst key_const _ _ Ek), H4, (keys_sorted_fst _ _ Ek), H5. reflexivity. }
  - (* zext *) destruct args as [|a [|? ?]]; try discriminate Hk. inversion Hc as [|? a' ? ? (Oa' & Ta' & _) Hr]; subst. inversion Hr; subst.
    inversion Fo; subst. destruct (bv_unary_arg (OBVZext w k) a ty Logic.I H1 Htc) as (x & Tx & Bx).
    rewrite Tx in Ta'. now rewrite (bv_width_ok a' x Oa' Ta'), <- Bx.
  - (* sext *) destruct args as [|a [|? ?]]; try discriminate Hk. inversion Hc as [|? a' ? ? (Oa' & Ta' & _) Hr]; subst. inversion Hr; subst.
    inversion Fo; subst. destruct (bv_unary_arg (OBVSext w k) a ty Logic.I H1 Htc) as (x & Tx & Bx).
    rewrite Tx in Ta'. now rewrite (bv_width_ok a' x Oa' Ta'), <- Bx.
Qed.

(* operators whose constructor returns the node itself *)
Definition same_op (o : op) : bool :=
  match o with
  | OAnd | OOr | OPlus | OTimes | ONot | ORealC _ _ | ODiv | OToReal | OPow | OArrayValue _
  | OForall _ | OExists _ => false
  | _ => true
  end.

Ltac args4 args := destruct args as [|?a [|?b [|?c [|?d ?rest]]]].

Lemma rebuild_same o args ty :
  same_op o = true -> ok_node o args = true -> Forall (fun a => okt a = true) args ->
  tc (T o args) = Some ty -> rebuild o args = Some (T o args).
Proof.
  intros Hs Hk Fo Htc.
  destruct o; try discriminate Hs.
  all: try solve [args4 args; cbn in Hk |- *; try discriminate; reflexivity].
  all: try solve [destruct (tc_inv _ _ _ Htc) as (tys & Hts & Hr); cbn in Hr; destruct tys; try discriminate;
                  apply tcs_nil_inv in Hts; subst args; reflexivity].
  - (* function *) cbn [rebuild]. unfold mk_function. cbn [ok_node] in Hk.
    destruct t; try discriminate Hk. apply andb_true_iff in Hk. destruct Hk as [_ Hk].
    destruct (tc_inv _ _ _ Htc) as (tys & Hts & Hr). cbn in Hr.
    destruct (tys_eqb tys ps) eqn:E; [|discriminate]. apply tys_eqb_eq in E. subst tys.
    rewrite (tcs_length _ _ Hts), Nat.eqb_refl. destruct args; [discriminate Hk | reflexivity].
  - (* bv constant *) destruct (tc_inv _ _ _ Htc) as (tys & Hts & Hr); cbn in Hr; destruct tys; try discriminate.
    apply tcs_nil_inv in Hts; subst args. cbn [rebuild]. unfold mk_bv. cbn in Hk. rewrite !andb_true_iff in Hk.
    destruct Hk as [[_ H1] H2]. apply Z.leb_le in H1. apply Z.ltb_lt in H2.
    destruct (Z.ltb_spec v 0); [lia|]. destruct (Z.leb_spec (2 ^ w) v); [lia|]. reflexivity.
  - (* bv operators *)
    cbn [ok_node] in Hk. apply andb_true_iff in Hk. destruct Hk as [_ Hk].
    destruct k; args4 args; cbn in Hk; try discriminate Hk; cbn [rebuild is_bvun];
      unfold mk_bvun, mk_bvop, mk_bvconcat, mk_bvcomp; inversion Fo; subst;
      try (match goal with
           | |- Some (T (OBV ?k (bv_width ?x)) (?x :: ?r)) = _ =>
               assert (bv_width x = w) as -> by (apply (bv_first_width k w x r ty); [discriminate | discriminate | assumption | exact Htc]);
               reflexivity
           end).
    + inversion H2; subst. now rewrite (bv_concat_width w a b ty H1 H3 Htc).
    + apply Z.eqb_eq in Hk. now subst.
  - (* extract *) cbn [ok_node] in Hk. args4 args; cbn in Hk; try discriminate Hk.
    assert (Hse : (0 <= s <= e)%Z) by (rewrite !andb_true_iff, !Z.leb_le in Hk; intuition lia).
    inversion Fo; subst. cbn [rebuild]. unfold mk_bvextract.
    destruct (tc_inv _ _ _ Htc) as (tys & Hts & Hr). cbn [tcs] in Hts. destruct (tc a) as [ta|] eqn:Ta; [|discriminate].
    injection Hts as <-. cbn in Hr. destruct ta; try discriminate.
    destruct ((s >=? w0)%Z || (e >=? w0)%Z) eqn:E1; [discriminate|]. destruct (w0 <? w)%Z eqn:E2; [discriminate|].
    destruct (Z.eqb_spec w (e - s + 1)); [|discriminate]. cbn [negb] in Hr.
    apply orb_false_iff in E1. destruct E1 as [E1a E1b].
    rewrite (bv_width_ok a w0 H1 Ta).
    destruct (Z.ltb_spec e s); [lia|]. destruct (Z.ltb_spec s 0); [lia|]. cbn [orb].
    destruct (Z.ltb_spec w0 (e - s + 1)); [lia|]. now subst w.
  - (* rol *) cbn [ok_node] in Hk. args4 args; cbn in Hk; try discriminate Hk. inversion Fo; subst.
    destruct (bv_unary_arg (OBVRol w k) a ty Logic.I H1 Htc) as (x & Tx & Bx).
    cbn [rebuild]. unfold mk_bvrol. rewrite Bx.
    destruct (tc_inv _ _ _ Htc) as (tys & Hts & Hr). cbn [tcs] in Hts. rewrite Tx in Hts. injection Hts as <-.
    cbn in Hr. destruct (_ || _); [discriminate|]. destruct (Z.eqb_spec w x); [now subst | discriminate].
  - (* ror *) cbn [ok_node] in Hk. args4 args; cbn in Hk; try discriminate Hk. inversion Fo; subst.
    destruct (bv_unary_arg (OBVRor w k) a ty Logic.I H1 Htc) as (x & Tx & Bx).
    cbn [rebuild]. unfold mk_bvror. rewrite Bx.
    destruct (tc_inv _ _ _ Htc) as (tys & Hts & Hr). cbn [tcs] in Hts. rewrite Tx in Hts. injection Hts as <-.
    cbn in Hr. destruct (_ || _); [discriminate|]. destruct (Z.eqb_spec w x); [now subst | discriminate].
  - (* zext *) cbn [ok_node] in Hk. args4 args; try discriminate Hk. apply Z.eqb_eq in Hk.
    cbn [rebuild]. unfold mk_bvzext. now rewrite <- Hk.
  - (* sext *) cbn [ok_node] in Hk. args4 args; try discriminate Hk. apply Z.eqb_eq in Hk.
    cbn [rebuild]. unfold mk_bvsext. now rewrite <- Hk.
  - (* strings *) cbn [ok_node] in Hk. destruct k; cbn [rebuild]; unfold mk_strconcat, SimplifierSemBase_proofs.str_arity in *;
      args4 args; cbn in Hk |- *; try discriminate Hk; reflexivity.
Qed.

(* ------------------------------------------------------------------ every constructor preserves sort, well-formedness and value *)
Lemma mk_real_facts n d : d <> 0%Z ->
  okt (mk_real (n, d)) = true /\ tc (mk_real (n, d)) = Some TReal /\ top (mk_real (n, d)) <> ONot /\
  forall I, eval I (mk_real (n, d)) = VReal (Q2R' n d).
Proof.
  intros Hd. unfold mk_real. cbn [fst snd]. pose proof (fr_norm_pos n d Hd) as P.
  pose proof (fr_norm_gcd n d Hd) as G.
  pose proof (Substituter_proofs.Q2R_norm n d) as Q.
  destruct (fr_norm n d) as [n' d']. cbn [fst snd] in *. apply Z.ltb_lt in P. apply Z.eqb_eq in G.
  repeat split; try (cbn; now rewrite ?P, ?G); try discriminate. intros I. cbn. now rewrite Q.
Qed.

Lemma okt_bool_val I t : wfi I -> okt t = true -> tc t = Some TBool -> VBool (vbool (eval I t)) = eval I t.
Proof. intros Hwf Ho Ht. apply vbool_eta, has_ty_bool. now apply okt_sound. Qed.

Lemma tc1 o a ty : tc (T o [a]) = Some ty -> exists ta, tc a = Some ta /\ tc_rule o [ta] = Some ty.
Proof.
  intros H. destruct (tc_inv _ _ _ H) as (tys & Hs & Hr). cbn [tcs] in Hs.
  destruct (tc a) as [ta|]; [|discriminate]. injection Hs as <-. eauto.
Qed.
Lemma tc2 o a b ty : tc (T o [a; b]) = Some ty -> exists ta tb, tc a = Some ta /\ tc b = Some tb /\ tc_rule o [ta; tb] = Some ty.
Proof.
  intros H. destruct (tc_inv _ _ _ H) as (tys & Hs & Hr). cbn [tcs] in Hs.
  destruct (tc a) as [ta|]; [|discriminate]. destruct (tc b) as [tb|]; [|discriminate]. injection Hs as <-. eauto.
Qed.

Lemma ttt1 ta tin tout ty : type_to_type [ta] tin tout = Some ty -> ta = tin /\ ty = tout.
Proof.
  unfold type_to_type. cbn. destruct (ty_eqb ta tin) eqn:E; [|discriminate]. apply ty_eqb_eq in E. intros [= <-]. auto.
Qed.
Lemma arith1 ta ty :
  match type_to_type [ta] TReal TReal with Some t0 => Some t0 | None => type_to_type [ta] TInt TInt end = Some ty -> ty = ta.
Proof.
  unfold type_to_type. cbn. destruct ta; cbn; try discriminate; intros [= <-]; reflexivity.
Qed.

Definition rb_res (o : op) (args : list term) (ty : Syntax.ty) (r : term) : Prop :=
  okt r = true /\ tc r = Some ty /\ forall I, wfi I -> eval I r = eval I (T o args).

Lemma rb_same o args ty : ok_node o args = true -> Forall (fun a => okt a = true) args ->
  tc (T o args) = Some ty -> rb_res o args ty (T o args).
Proof. intros Hk Fo Htc. split; [now apply okt_intro|]. split; auto. Qed.

Lemma rebuild_ok o args ty r :
  tnode o = true -> is_quant o = None -> anode_ok o args = true -> Forall (fun a => okt a = true) args ->
  tc (T o args) = Some ty -> rebuild o args = Some r -> rb_res o args ty r.
Proof.
  intros Ht Hq Hk Fo Htc Hr.
  destruct (same_op o) eqn:Hs.
  { assert (Hk' : ok_node o args = true) by (destruct o; try discriminate Hs; exact Hk).
    rewrite (rebuild_same o args ty Hs Hk' Fo Htc) in Hr. injection Hr as <-. now apply rb_same. }
  destruct o; try discriminate Hs; try discriminate Ht; try discriminate Hq; cbn [anode_ok] in Hk.
  - (* and *) cbn [rebuild] in Hr. injection Hr as <-. unfold mk_and.
    destruct args as [|x [|y l]]; [| |now apply rb_same].
    + split; [reflexivity|]. split; [|reflexivity]. destruct (tc_inv _ _ _ Htc) as (tys & Hts & Hr).
      cbn in Hts. injection Hts as <-. cbn in Hr. now rewrite <- Hr.
    + destruct (tc1 _ _ _ Htc) as (ta & Ta & Hr). apply ttt1 in Hr. destruct Hr as [-> ->]. inversion Fo; subst.
      split; auto. split; auto. intros I Hwf. cbn [eval map op_sem forallb]. rewrite andb_true_r. symmetry. now apply okt_bool_val.
  - (* or *) cbn [rebuild] in Hr. injection Hr as <-. unfold mk_or.
    destruct args as [|x [|y l]]; [| |now apply rb_same].
    + split; [reflexivity|]. split; [|reflexivity]. destruct (tc_inv _ _ _ Htc) as (tys & Hts & Hr).
      cbn in Hts. injection Hts as <-. cbn in Hr. now rewrite <- Hr.
    + destruct (tc1 _ _ _ Htc) as (ta & Ta & Hr). apply ttt1 in Hr. destruct Hr as [-> ->]. inversion Fo; subst.
      split; auto. split; auto. intros I Hwf. cbn [eval map op_sem existsb]. rewrite orb_false_r. symmetry. now apply okt_bool_val.
  - (* not *) cbn [ok_node] in Hk. destruct args as [|a [|? ?]]; try discriminate Hk.
    cbn [rebuild] in Hr. injection Hr as <-. unfold mk_not.
    destruct (tc1 _ _ _ Htc) as (ta & Ta & Hr). apply ttt1 in Hr. destruct Hr as [-> ->]. inversion Fo; subst.
    destruct (is_not a) eqn:Hn; [|now apply rb_same].
    destruct a as [oa la]. unfold is_not in Hn. cbn [top] in Hn. destruct oa; try discriminate Hn.
    pose proof (okt_node _ _ H1) as Hka. cbn [ok_node] in Hka. destruct la as [|y [|? ?]]; try discriminate Hka.
    pose proof (okt_args _ _ H1) as Fy. inversion Fy; subst.
    destruct (tc1 _ _ _ Ta) as (ty' & Ty & Hr). apply ttt1 in Hr. destruct Hr as [-> _].
    unfold arg. cbn [targs nth]. split; auto. split; auto. intros I Hwf.
    cbn [eval map op_sem]. cbn [vbool]. rewrite negb_involutive. symmetry. now apply okt_bool_val.
  - (* real constant *) destruct (tc_inv _ _ _ Htc) as (tys & Hts & Hrr). cbn in Hrr. destruct tys; [|discriminate].
    apply tcs_nil_inv in Hts. subst args. injection Hrr as <-. cbn [rebuild] in Hr. injection Hr as <-.
    cbn [ok_node] in Hk. apply andb_true_iff in Hk. destruct Hk as [Hk _]. apply Z.ltb_lt in Hk. assert (Hd : den <> 0%Z) by lia.
    destruct (mk_real_facts num den Hd) as (A & B & _ & C). split; auto.
  - (* plus *) cbn [rebuild] in Hr. unfold mk_plus in Hr. destruct args as [|x [|y l]]; [discriminate| |injection Hr as <-; now apply rb_same].
    injection Hr as <-. destruct (tc1 _ _ _ Htc) as (ta & Ta & Hr). cbn [tc_rule] in Hr. apply arith1 in Hr. subst ty.
    inversion Fo; subst. split; auto.
  - (* times *) cbn [rebuild] in Hr. unfold mk_times in Hr. destruct args as [|x [|y l]]; [discriminate| |injection Hr as <-; now apply rb_same].
    injection Hr as <-. destruct (tc1 _ _ _ Htc) as (ta & Ta & Hr). cbn [tc_rule] in Hr. apply arith1 in Hr. subst ty.
    inversion Fo; subst. split; auto.
  - (* toreal *) cbn [ok_node] in Hk. destruct args as [|a [|? ?]]; try discriminate Hk.
    destruct (tc1 _ _ _ Htc) as (ta & Ta & Hrr). apply ttt1 in Hrr. destruct Hrr as [-> ->]. inversion Fo; subst.
    cbn [rebuild] in Hr. unfold mk_toreal in Hr. rewrite Ta in Hr.
    destruct a as [oa la]. cbn [top] in Hr.
    destruct (match oa with OIntC _ => true | _ => false end) eqn:Hic.
    + destruct oa; try discriminate Hic. injection Hr as <-.
      assert (la = []).
      { destruct (tc_inv _ _ _ Ta) as (tys' & Hs' & Hr'). cbn in Hr'. destruct tys'; [|discriminate]. now apply tcs_nil_inv in Hs'. }
      subst la. assert (Hone : 1%Z <> 0%Z) by lia.
      destruct (mk_real_facts z 1 Hone) as (A & B & _ & C). split; auto. split; auto.
      intros I _. rewrite C. cbn. f_equal. unfold Q2R'. field.
    + assert (r = T OToReal [T oa la]) by (destruct oa; try discriminate Hic; now injection Hr as <-).
      subst r. apply rb_same; auto.
  - (* array value: Array() re-establishes the canonical form (SimplifierSemArr_proofs) *)
    destruct args as [|d rest]; [discriminate Hr|]. cbn [rebuild] in Hr.
    split; [|split].
    + destruct (r_array_value_sound I0 wfi_I0 it d rest ty r Hk Fo Htc Hr) as (A & _). exact A.
    + destruct (r_array_value_sound I0 wfi_I0 it d rest ty r Hk Fo Htc Hr) as (_ & B & _). exact B.
    + intros I HwfI. destruct (r_array_value_sound I HwfI it d rest ty r Hk Fo Htc Hr) as (_ & _ & C). exact C.
  - (* div *) cbn [ok_node] in Hk. destruct args as [|a [|b [|? ?]]]; try discriminate Hk.
    cbn [rebuild] in Hr. inversion Fo as [|? ? Oa Fo']; subst. inversion Fo' as [|? ? Ob _]; subst.
    destruct (tc2 _ _ _ _ Htc) as (ta & tb & Ta & Tb & Hrr).
    assert (Hplain : r = T ODiv [a; b] -> rb_res ODiv [a; b] ty r) by (intros ->; now apply rb_same).
    unfold mk_div in Hr. destruct (is_zero b) eqn:Hz; [injection Hr as <-; auto|].
    destruct b as [ob bargs]. cbn [top] in Hr.
    destruct (match ob with ORealC _ _ => true | _ => false end) eqn:Hrc.
    2:{ apply Hplain. destruct ob; try discriminate Hrc; now injection Hr as <-. }
    destruct ob; try discriminate Hrc.
    assert (Hnum : num <> 0%Z). { unfold is_zero in Hz. cbn [top] in Hz. now apply Z.eqb_neq. }
    assert (bargs = []).
    { destruct (tc_inv _ _ _ Tb) as (tys' & Hs' & Hr'). cbn in Hr'. destruct tys'; [|discriminate]. now apply tcs_nil_inv in Hs'. }
    subst bargs. cbn in Tb. injection Tb as <-.
    assert (Hden : (0 < den)%Z). { apply okt_node in Ob. cbn in Ob. apply andb_true_iff in Ob. destruct Ob as [Ob _]. now apply Z.ltb_lt. }
    assert (Hmk : mk_div a (T (ORealC num den) []) = Some r).
    { unfold mk_div. rewrite Hz. cbn [top]. exact Hr. }
    unfold fr_div in Hr. cbn [fst snd] in Hr. rewrite (proj2 (Z.eqb_neq num 0) Hnum) in Hr. rewrite !Z.mul_1_l in Hr.
    unfold mk_times in Hr. injection Hr as <-.
    assert (Hinv : snd (fr_norm den num) <> 0%Z) by (pose proof (fr_norm_pos den num Hnum); lia).
    destruct (fr_norm den num) as [ni di] eqn:En. cbn [snd] in Hinv.
    destruct (mk_real_facts ni di Hinv) as (A & B & _ & _).
    assert (ta = TReal /\ ty = TReal).
    { cbn in Hrr. unfold type_to_type in Hrr. cbn in Hrr. destruct ta; cbn in Hrr; try discriminate. split; [reflexivity | now inversion Hrr]. }
    destruct H as [-> ->].
    split; [apply okt_intro; [reflexivity | repeat constructor; auto]|].
    split; [rewrite tc_tcs; cbn [tcs]; now rewrite Ta, B|].
    intros I _. apply (mk_div_sem I a (T (ORealC num den) []) _); auto.
    intros n0 d0 l0 [= <- <- <-]. split; auto. lia.
Qed.

(* ------------------------------------------------------------------ subst_typed *)
Lemma children_crel (f : term -> option term) : forall args tys args',
  Forall (fun a => forall ty a', okt a = true -> tfrag a = true -> tc a = Some ty -> f a = Some a' ->
                                 okt a' = true /\ tc a' = Some ty /\ (arr = true -> key_const a = true -> a' = a)) args ->
  Forall (fun a => okt a = true) args -> Forall (fun a => tfrag a = true) args ->
  Forall2 (fun a t => tc a = Some t) args tys ->
  Forall2 (fun a b => f a = Some b) args args' -> Forall2 crel args args'.
Proof.
  intros args tys args' IH Fo Ff Ft Ea. revert tys Ft. induction Ea as [|a a' r r' Ha Hr IHr]; intros tys Ft; constructor.
  - inversion IH; inversion Fo; inversion Ff; inversion Ft; subst.
    destruct (H1 _ _ H5 H9 H13 Ha) as (A & B & C). split; auto. split; [congruence | auto].
  - inversion IH; inversion Fo; inversion Ff; inversion Ft; subst. eapply IHr; eauto.
Qed.

Lemma quant_typed fa vs b b' ty r :
  crel b b' -> okt (T (quant_op fa vs) [b]) = true -> tc (T (quant_op fa vs) [b]) = Some ty ->
  checked (Some (mk_quant fa vs b')) = Some r ->
  okt r = true /\ tc r = Some ty /\ (vs <> [] -> r = T (quant_op fa vs) [b']) /\ (vs = [] -> r = b') /\
  tc b = Some TBool /\ ty = TBool.
Proof.
  intros (Ob' & Tb' & _) Ho Htc Hr. apply checked_Some in Hr. injection Hr as <-.
  destruct (tc1 _ _ _ Htc) as (tb & Tb & Hrr).
  assert (tb = TBool /\ ty = TBool).
  { destruct fa; cbn in Hrr; destruct (ty_eqb tb TBool) eqn:E; try discriminate; apply ty_eqb_eq in E; split; auto; now inversion Hrr. }
  destruct H as [-> ->]. pose proof (okt_node _ _ Ho) as Hk.
  destruct vs as [|v0 vs'].
  - destruct fa; cbn [mk_quant mk_forall mk_exists]; repeat split; auto; try congruence.
  - assert (E : mk_quant fa (v0 :: vs') b' = T (quant_op fa (v0 :: vs')) [b']) by (destruct fa; reflexivity).
    rewrite E. split; [apply okt_intro; [destruct fa; exact Hk | repeat constructor; auto]|].
    split; [rewrite tc_tcs; cbn [tcs]; rewrite Tb', Tb; destruct fa; reflexivity|].
    repeat split; auto. intros H; discriminate.
Qed.

Lemma is_quant_op o fa vs : is_quant o = Some (fa, vs) -> o = quant_op fa vs.
Proof. destruct o; try discriminate; intros [= <- <-]; reflexivity. Qed.

(* type-correct maps (symbol OR compound keys) preserve the sort and the well-formedness:
   most-general substitution *)
Lemma rebuild_key_const o args r : key_const (T o args) = true -> ok_node o args = true ->
  rebuild o args = Some r -> r = T o args.
Proof.
  intros Hkc Hk Hr. destruct o; try discriminate Hkc; destruct args; try discriminate Hkc; cbn in Hr; try (now injection Hr as <-).
  { (* a Real constant in lowest terms is its own normal form *)
    cbn in Hkc. apply andb_true_iff in Hkc. destruct Hkc as [D G]. apply Z.ltb_lt in D. apply Z.eqb_eq in G.
    unfold mk_real in Hr. cbn [fst snd] in Hr. rewrite (fr_norm_lowest num den D G) in Hr. now injection Hr as <-. }
  unfold mk_bv in Hr. destruct (v <? 0)%Z; [discriminate|]. destruct (2 ^ w <=? v)%Z; [discriminate|]. now injection Hr as <-.
Qed.
Lemma key_const_not_quant o args : key_const (T o args) = true -> is_quant o = None /\ args = [].
Proof. destruct o; try discriminate; destruct args; try discriminate; auto. Qed.

Definition tres (t t' : term) (ty : Syntax.ty) : Prop :=
  okt t' = true /\ tc t' = Some ty /\ (arr = true -> key_const t = true -> t' = t).

Theorem subst_typed_mgs : forall t s ty t',
  map_ok s -> arr_safe s -> okt t = true -> tfrag t = true -> tc t = Some ty ->
  subst_mgs_i [] s t = Some t' -> tres t t' ty.
Proof.
  induction t as [o args IH] using term_ind'. intros s ty t' Hm Has Ho Hf Htc Hs.
  destruct (lookup s (T o args)) as [v|] eqn:L.
  { pose proof (mgs_key _ _ _ _ _ Hs L). subst t'. destruct (Hm _ _ (lookup_In _ _ _ L)) as [A B]. split; auto. split; [congruence|].
    intros Ha Hkc. rewrite (Has Ha _ _ (lookup_In _ _ _ L)) in Hkc. discriminate. }
  pose proof (okt_args _ _ Ho) as Fo. destruct (tfrag_args _ _ Hf) as [Hto Ff].
  destruct (tc_inv _ _ _ Htc) as (tys & Hts & Hrule). pose proof (tcs_Forall2 _ _ Hts) as Ft.
  cbn [subst_mgs_i] in Hs. destruct (is_quant o) as [[fa vs]|] eqn:Hq.
  - apply is_quant_op in Hq. subst o. destruct args as [|b [|? ?]]; try discriminate.
    destruct (subst_mgs_i [] (drop_bound vs s) b) as [b'|] eqn:Eb; [|discriminate]. rewrite L in Hs.
    inversion IH as [|? ? IHb _]; inversion Fo as [|? ? Ob _]; inversion Ff as [|? ? Fb _]; inversion Ft as [|? tb ? ? Tb _]; subst.
    assert (Cb : crel b b').
    { destruct (IHb (drop_bound vs s) tb b' (map_ok_drop _ _ Hm) (arr_safe_drop _ _ Has) Ob Fb Tb Eb) as (A & B & C). split; auto. split; [congruence | auto]. }
    destruct (quant_typed fa vs b b' ty t' Cb Ho Htc Hs) as (A & B & _). split; auto. split; auto.
    intros _ Hkc. destruct fa; discriminate Hkc.
  - destruct (omap (subst_mgs_i [] s) args) as [args'|] eqn:Ea; [|discriminate]. apply omap_Forall2 in Ea.
    rewrite L, rebuild_fn_nil in Hs. apply checked_Some in Hs.
    assert (Hc : Forall2 crel args args').
    { eapply (children_crel (subst_mgs_i [] s)); eauto. rewrite Forall_forall in IH |- *. intros a Ha ty0 a' O F Tc S. eapply IH; eauto. }
    destruct (rebuild_ok o args' ty t' Hto Hq (ok_node_transfer o args args' ty Hto (okt_node _ _ Ho) Fo Hc Htc)
                (crel_okt _ _ Hc) (eq_trans (crel_tc o _ _ Hc) Htc) Hs) as (A & B & _). split; auto. split; auto.
    intros _ Hkc. destruct (key_const_not_quant _ _ Hkc) as [_ ->]. inversion Hc; subst.
    exact (rebuild_key_const o [] t' Hkc (okt_node _ _ Ho) Hs).
Qed.

(* most-specific substitution *)
Theorem subst_typed_mss : forall t s ty t',
  map_ok s -> arr_safe s -> okt t = true -> tfrag t = true -> tc t = Some ty ->
  subst_mss_i [] s t = Some t' -> tres t t' ty.
Proof.
  induction t as [o args IH] using term_ind'. intros s ty t' Hm Has Ho Hf Htc Hs.
  pose proof (okt_args _ _ Ho) as Fo. destruct (tfrag_args _ _ Hf) as [Hto Ff].
  destruct (tc_inv _ _ _ Htc) as (tys & Hts & Hrule). pose proof (tcs_Forall2 _ _ Hts) as Ft.
  assert (Hra : forall r0, okt r0 = true -> tc r0 = Some ty -> (arr = true -> key_const (T o args) = true -> r0 = T o args) ->
                           replace_after s (Some r0) = Some t' -> tres (T o args) t' ty).
  { intros r0 A B C Hr. cbn [replace_after] in Hr. destruct (lookup s r0) as [v|] eqn:L; injection Hr as <-; [|split; auto].
    destruct (Hm _ _ (lookup_In _ _ _ L)) as [A' B']. split; auto. split; [congruence|].
    intros Ha Hkc. rewrite (C Ha Hkc) in L. rewrite (Has Ha _ _ (lookup_In _ _ _ L)) in Hkc. discriminate. }
  cbn [subst_mss_i] in Hs. destruct (is_quant o) as [[fa vs]|] eqn:Hq.
  - apply is_quant_op in Hq. subst o. destruct args as [|b [|? ?]]; try discriminate.
    destruct (subst_mss_i [] (drop_bound vs s) b) as [b'|] eqn:Eb; [|discriminate].
    inversion IH as [|? ? IHb _]; inversion Fo as [|? ? Ob _]; inversion Ff as [|? ? Fb _]; inversion Ft as [|? tb ? ? Tb _]; subst.
    assert (Cb : crel b b').
    { destruct (IHb (drop_bound vs s) tb b' (map_ok_drop _ _ Hm) (arr_safe_drop _ _ Has) Ob Fb Tb Eb) as (A & B & C). split; auto. split; [congruence | auto]. }
    destruct (checked (Some (mk_quant fa vs b'))) as [r0|] eqn:C; [|discriminate].
    destruct (quant_typed fa vs b b' ty r0 Cb Ho Htc C) as (A & B & _). apply (Hra r0 A B); auto.
    intros _ Hkc. destruct fa; discriminate Hkc.
  - destruct (omap (subst_mss_i [] s) args) as [args'|] eqn:Ea; [|discriminate]. apply omap_Forall2 in Ea.
    rewrite rebuild_fn_nil in Hs.
    assert (Hc : Forall2 crel args args').
    { eapply (children_crel (subst_mss_i [] s)); eauto. rewrite Forall_forall in IH |- *. intros a Ha ty0 a' O F Tc S. eapply IH; eauto. }
    destruct (checked (rebuild o args')) as [r0|] eqn:C; [|discriminate]. apply checked_Some in C.
    destruct (rebuild_ok o args' ty r0 Hto Hq (ok_node_transfer o args args' ty Hto (okt_node _ _ Ho) Fo Hc Htc)
                (crel_okt _ _ Hc) (eq_trans (crel_tc o _ _ Hc) Htc) C) as (A & B & _). apply (Hra r0 A B); auto.
    intros _ Hkc. destruct (key_const_not_quant _ _ Hkc) as [_ ->]. inversion Hc; subst.
    exact (rebuild_key_const o [] r0 Hkc (okt_node _ _ Ho) C).
Qed.

(* ------------------------------------------------------------------ the substitution lemma, every operator but Pow / array values *)
Definition sem2_stmt (t : term) : Prop :=
  forall s I ty t', sym_keys s -> map_ok s -> okt t = true -> tfrag t = true -> tc t = Some ty ->
                    no_capture s t -> wfi I -> subst_mgs_i [] s t = Some t' -> eval I t' = eval (upd I s) t.

Lemma children_sem s I : sym_keys s -> map_ok s -> wfi I -> forall args tys args',
  Forall sem2_stmt args -> Forall (fun a => okt a = true) args -> Forall (fun a => tfrag a = true) args ->
  Forall2 (fun a t => tc a = Some t) args tys -> Forall (no_capture s) args ->
  Forall2 (fun a b => subst_mgs_i [] s a = Some b) args args' ->
  map (eval I) args' = map (eval (upd I s)) args.
Proof.
  intros Hk Hm Hwf args tys args' IH Fo Ff Ft Fc Ea. revert tys Ft.
  induction Ea as [|a a' r r' Ha Hr IHr]; intros tys Ft; [reflexivity|].
  inversion IH as [|? ? IHa IHr']; inversion Fo as [|? ? Oa Or]; inversion Ff as [|? ? Fa Fr];
    inversion Ft as [|? ta ? tr Ta Tr]; inversion Fc as [|? ? Ca Cr]; subst.
  cbn [map]. rewrite (IHa s I ta a' Hk Hm Oa Fa Ta Ca Hwf Ha). f_equal. eapply IHr; eauto.
Qed.

Lemma vals_ok_nil xs : vals_ok xs [] <-> xs = [].
Proof. destruct xs; cbn; split; auto; try contradiction; discriminate. Qed.

Theorem subst_mgs_sem2 : forall t, sem2_stmt t.
Proof.
  induction t as [o args IH] using term_ind'. intros s I ty t' Hk Hm Ho Hf Htc Hc Hwf Hs.
  pose proof (okt_args _ _ Ho) as Fo. destruct (tfrag_args _ _ Hf) as [Hto Ff].
  destruct (tc_inv _ _ _ Htc) as (tys & Hts & Hrule). pose proof (tcs_Forall2 _ _ Hts) as Ft.
  pose proof Hs as Hs0. cbn [subst_mgs_i] in Hs. destruct (is_quant o) as [[fa vs]|] eqn:Hq.
  - (* quantifier *)
    pose proof (is_quant_op _ _ _ Hq) as Eo. subst o. destruct args as [|b [|? ?]]; try discriminate.
    destruct (subst_mgs_i [] (drop_bound vs s) b) as [b'|] eqn:Eb; [|discriminate].
    assert (L : lookup s (T (quant_op fa vs) [b]) = None).
    { destruct (lookup s (T (quant_op fa vs) [b])) eqn:L; auto. destruct (lookup_sym_keys _ _ _ Hk L) as (n & ty0 & E). inversion E. }
    rewrite L in Hs.
    inversion IH as [|? ? IHb _]; inversion Fo as [|? ? Ob _]; inversion Ff as [|? ? Fb _]; inversion Ft as [|? tb ? ? Tb _]; subst.
    assert (Has : arr_safe s) by (intros _; now apply sym_keys_no_const).
    destruct (subst_typed_mgs b (drop_bound vs s) tb b' (map_ok_drop _ _ Hm) (arr_safe_drop _ _ Has) Ob Fb Tb Eb) as (Ob' & Tb' & Kb').
    assert (Cb : crel b b') by (split; auto; split; [congruence | auto]).
    destruct (quant_typed fa vs b b' ty t' Cb Ho Htc Hs) as (_ & _ & R1 & R2 & TbB & ->).
    cbn [no_capture] in Hc. rewrite Hq in Hc. destruct Hc as [Hcap Hcb].
    assert (E : forall xs, vals_ok xs vs -> eval (Sem.bind I vs xs) b' = eval (Sem.bind (upd I s) vs xs) b).
    { intros xs Hok.
      rewrite (IHb (drop_bound vs s) (Sem.bind I vs xs) tb b' (sym_keys_drop _ _ Hk) (map_ok_drop _ _ Hm) Ob Fb Tb Hcb
                   (wf_bind' _ _ _ Hwf Hok) Eb).
      apply coincidence_gen.
      eapply agree_weaken; [| |apply (upd_bind_agree s vs xs I b Hok Hcap)]; cbn; auto. }
    destruct vs as [|v0 vs'].
    + (* empty prefix: the constructor returns the body *)
      rewrite (R2 eq_refl). specialize (E [] Logic.I). cbn [Sem.bind] in E.
      assert (Hb : VBool (vbool (eval I b')) = eval I b') by (apply okt_bool_val; auto; congruence).
      destruct fa; cbn [quant_op eval].
      * rewrite <- Hb. f_equal.
        destruct (excluded_middle_informative (forall xs, vals_ok xs [] -> eval (Sem.bind (upd I s) [] xs) b = VBool true)) as [P|P].
        -- specialize (P [] Logic.I). cbn [Sem.bind] in P. rewrite <- E in P. rewrite P. reflexivity.
        -- destruct (vbool (eval I b')) eqn:V; auto. exfalso. apply P. intros xs Hx. apply vals_ok_nil in Hx. subst xs.
           cbn [Sem.bind]. rewrite <- E, <- Hb. reflexivity.
      * rewrite <- Hb. f_equal.
        destruct (excluded_middle_informative (exists xs, vals_ok xs [] /\ eval (Sem.bind (upd I s) [] xs) b = VBool true)) as [P|P].
        -- destruct P as (xs & Hx & P). apply vals_ok_nil in Hx. subst xs. cbn [Sem.bind] in P. rewrite <- E in P. rewrite P. reflexivity.
        -- destruct (vbool (eval I b')) eqn:V; auto. exfalso. apply P. exists []. split; [exact Logic.I|].
           cbn [Sem.bind]. rewrite <- E, <- Hb. reflexivity.
    + rewrite R1 by discriminate.
      destruct fa; cbn [quant_op eval]; f_equal; apply emi_iff.
      * split; intros G xs Hok; [rewrite <- E | rewrite E]; auto.
      * split; intros (xs & Hok & G); exists xs; split; auto; [rewrite <- E | rewrite E]; auto.
  - (* other operators *)
    destruct (omap (subst_mgs_i [] s) args) as [args'|] eqn:Ea; [|discriminate]. apply omap_Forall2 in Ea.
    destruct (lookup s (T o args)) as [v|] eqn:L.
    + injection Hs as <-. destruct (lookup_sym_keys _ _ _ Hk L) as (n & ty0 & E). inversion E; subst.
      cbn [eval upd isym]. unfold TSym. now rewrite L.
    + rewrite rebuild_fn_nil in Hs. apply checked_Some in Hs.
      assert (Hcr : Forall2 crel args args').
      { eapply (children_crel (subst_mgs_i [] s)); eauto. apply Forall_forall. intros a _ ty0 a' O F Tc S.
        eapply subst_typed_mgs; eauto. intros _. now apply sym_keys_no_const. }
      pose proof (children_sem s I Hk Hm Hwf args tys args' IH Fo Ff Ft (no_capture_args _ _ _ Hq Hc) Ea) as Hmap.
      destruct (rebuild_ok o args' ty t' Hto Hq (ok_node_transfer o args args' ty Hto (okt_node _ _ Ho) Fo Hcr Htc)
                  (crel_okt _ _ Hcr) (eq_trans (crel_tc o _ _ Hcr) Htc) Hs) as (_ & _ & Ev).
      rewrite (Ev I Hwf).
      destruct (is_sym_op o) eqn:Hsy.
      * destruct o; try discriminate Hsy. cbn in Hrule. destruct tys; [|discriminate]. apply tcs_nil_inv in Hts. subst args.
        inversion Ea; subst. cbn [eval upd isym]. unfold TSym in L |- *. now rewrite L.
      * apply eval_nonbinder; auto. intros n ty0 ->. discriminate Hsy.
Qed.

Theorem subst_lemma_typed_partial : forall s t I ty t',
  sym_keys s -> map_ok s -> okt t = true -> tfrag t = true -> tc t = Some ty ->
  no_capture s t -> wf_interp I -> subst_mgs s t = Some t' -> eval I t' = eval (upd I s) t.
Proof.
  intros s t I ty t' H1 H2 H3 H4 H5 H6 H7 H8.
  exact (subst_mgs_sem2 t s I ty t' H1 H2 H3 H4 H5 H6 (proj1 (wf_interp_wfi I) H7) H8).
Qed.

(* ================================================================== function interpretations *)
(* I with every interpreted function symbol f := fun vs => value of the body with the formal
   parameters bound to vs (applications with a wrong number of arguments keep I's function) *)
Definition with_interp (I : interp) (p : imap) : interp :=
  {| isym := isym I;
     ifun := fun n ty vs =>
               match ilookup p (n, ty) with
               | Some fi => if Nat.eqb (List.length vs) (List.length (fi_params fi))
                            then eval (Sem.bind I (fi_params fi) vs) (fi_body fi)
                            else ifun I n ty vs
               | None => ifun I n ty vs
               end;
     rdiv0 := rdiv0 I; idiv0 := idiv0 I |}.

(* an interpretation as FunctionInterpretation documents it: formal parameters of the function's
   parameter sorts, a body of the result sort that is closed except for the parameters
   (function names included); the body may contain quantifiers *)
Definition fi_ok (f : var) (fi : finterp) : Prop :=
  exists ps r, snd f = TFun ps r /\ map snd (fi_params fi) = ps /\
    okt (fi_body fi) = true /\ tfrag (fi_body fi) = true /\ tc (fi_body fi) = Some r /\
    (forall v, In v (fv (fi_body fi)) -> In v (fi_params fi)) /\ fnames (fi_body fi) = [].
Definition interps_ok (p : imap) : Prop := forall f fi, ilookup p f = Some fi -> fi_ok f fi.

(* the proviso for interpretations: at every call site of an interpreted symbol, no bound variable
   of the body captures a free symbol of an actual parameter (the actual parameters as they are
   plugged in, i.e. after the interpretation of the applications inside them) - the analogue of
   no_capture for the map formals -> actuals *)
Fixpoint icap (p : imap) (t : term) {struct t} : Prop :=
  match t with
  | T o args =>
      match is_quant o with
      | Some _ => match args with [b] => icap p b | _ => True end
      | None =>
          (fix all (l : list term) : Prop := match l with [] => True | a :: r => icap p a /\ all r end) args /\
          match o with
          | OFunction n fty =>
              match ilookup p (n, fty) with
              | Some fi => forall args', omap (subst_mgs_i p []) args = Some args' ->
                                         no_capture (bind_params (fi_params fi) args') (fi_body fi)
              | None => True
              end
          | _ => True
          end
      end
  end.
Lemma icap_args p o args : is_quant o = None -> icap p (T o args) -> Forall (icap p) args.
Proof.
  intros Hq. cbn [icap]. rewrite Hq. intros [H _]. induction args as [|x r IH]; constructor; [tauto | apply IH; tauto].
Qed.

Lemma mgs0_eq : forall t s, mgs0 s t = subst_mgs_i [] s t.
Proof.
  induction t as [o args IH] using term_ind'. intros s. cbn [mgs0 subst_mgs_i].
  destruct (is_quant o) as [[fa vs]|].
  - destruct args as [|b [|? ?]]; auto. inversion IH; subst. now rewrite H1.
  - assert (E : omap (mgs0 s) args = omap (subst_mgs_i [] s) args).
    { apply omap_ext_Forall. rewrite Forall_forall in IH |- *. intros a Ha. now apply IH. }
    rewrite E. destruct (omap (subst_mgs_i [] s) args); auto. now rewrite rebuild_fn_nil.
Qed.

Lemma no_capture_qf s : forall t, is_qf t = true -> no_capture s t.
Proof.
  induction t as [o args IH] using term_ind'. intros H.
  assert (Hq : is_quant o = None /\ forallb is_qf args = true).
  { destruct o; cbn in H; try discriminate; split; auto. }
  destruct Hq as [Hq Ha]. cbn [no_capture]. rewrite Hq. rewrite forallb_forall in Ha.
  revert IH Ha. clear. induction args as [|x r IHr]; intros IH Ha; [exact Logic.I|].
  inversion IH; subst. split; [apply H1; apply Ha; now left | apply IHr; auto; intros y Hy; apply Ha; now right].
Qed.

Lemma lookup_app' m l k : lookup (m ++ l) k = match lookup m k with Some v => Some v | None => lookup l k end.
Proof.
  unfold lookup. induction m as [|[k' v'] r IH]; cbn [app assoc_get]; [reflexivity|].
  destruct (term_eqb k k'); auto.
Qed.

(* dict(zip(formals, actuals)) read through [lookup] = binding the formals in order *)
Lemma bind_lookup I0 : forall ps acts I n ty,
  isym (Sem.bind I ps (map (eval I0) acts)) n ty =
  match lookup (rev (combine (map (fun v => TSym (fst v) (snd v)) ps) acts)) (TSym n ty) with
  | Some a => eval I0 a
  | None => isym I n ty
  end.
Proof.
  induction ps as [|p ps IH]; intros acts I n ty; [reflexivity|].
  destruct acts as [|a acts]; [reflexivity|]. cbn [map combine rev Sem.bind].
  rewrite IH, lookup_app'. destruct (lookup (rev (combine (map (fun v => TSym (fst v) (snd v)) ps) acts)) (TSym n ty)); auto.
  unfold lookup. cbn [assoc_get bind1 isym].
  destruct (String.eqb n (fst p) && ty_eqb ty (snd p)) eqn:E.
  - apply andb_true_iff in E. destruct E as [E1 E2]. apply String.eqb_eq in E1. apply ty_eqb_eq in E2. subst.
    now rewrite (proj2 (term_eqb_eq _ _) eq_refl).
  - destruct (term_eqb (TSym n ty) (TSym (fst p) (snd p))) eqn:E'; auto.
    apply term_eqb_eq in E'. injection E' as -> ->. now rewrite String.eqb_refl, ty_eqb_refl in E.
Qed.

Lemma bind_isym_ext : forall vs xs J J', (forall n ty, isym J n ty = isym J' n ty) ->
  forall n ty, isym (Sem.bind J vs xs) n ty = isym (Sem.bind J' vs xs) n ty.
Proof.
  induction vs as [|v vs IH]; intros xs J J' H n ty; destruct xs as [|x xs]; cbn [Sem.bind]; auto.
  apply IH. intros n0 ty0. cbn. now rewrite H.
Qed.

Lemma bind_isym_in_len : forall vs xs J J' n ty, List.length xs = List.length vs -> In (n, ty) vs ->
  isym (Sem.bind J vs xs) n ty = isym (Sem.bind J' vs xs) n ty.
Proof.
  induction vs as [|v vs IH]; intros xs J J' n ty Hl Hin; [contradiction|].
  destruct xs as [|x xs]; [discriminate|]. injection Hl as Hl. cbn [Sem.bind].
  destruct (in_dec (fun a b => sumbool_of_bool_var a b) (n, ty) vs) as [Hi|Hni].
  - apply IH; auto.
  - rewrite !bind_isym_out by auto. destruct Hin as [->|]; [|contradiction]. cbn.
    now rewrite String.eqb_refl, ty_eqb_refl.
Qed.

(* the interpreted functions do not depend on the symbols of I: bodies are closed *)
Lemma with_interp_bind p I vs xs t : interps_ok p ->
  eval (with_interp (Sem.bind I vs xs) p) t = eval (Sem.bind (with_interp I p) vs xs) t.
Proof.
  intros Hp. apply coincidence_gen. split; [|split; [|split]].
  - cbn. now rewrite !bind_rdiv0.
  - cbn. now rewrite !bind_idiv0.
  - intros n ty _. cbn [with_interp isym]. apply bind_isym_ext. reflexivity.
  - intros n ty _. rewrite bind_ifun. cbn [with_interp ifun]. rewrite bind_ifun.
    apply FunctionalExtensionality.functional_extensionality. intros a.
    destruct (ilookup p (n, ty)) as [fi|] eqn:L; auto.
    destruct (Nat.eqb (List.length a) (List.length (fi_params fi))) eqn:El; auto. apply Nat.eqb_eq in El.
    destruct (Hp _ _ L) as (ps & r & _ & _ & _ & _ & _ & Hcl & Hfn).
    apply coincidence_gen. split; [|split; [|split]].
    + now rewrite !bind_rdiv0.
    + now rewrite !bind_idiv0.
    + intros m tm Hm. apply bind_isym_in_len; auto.
    + intros m tm Hm. rewrite Hfn in Hm. contradiction.
Qed.

Lemma quant_sem fa vs b b' (I J : interp) t' :
  (vs <> [] -> t' = T (quant_op fa vs) [b']) -> (vs = [] -> t' = b') ->
  VBool (vbool (eval I b')) = eval I b' ->
  (forall xs, vals_ok xs vs -> eval (Sem.bind I vs xs) b' = eval (Sem.bind J vs xs) b) ->
  eval I t' = eval J (T (quant_op fa vs) [b]).
Proof.
  intros R1 R2 Hb E. destruct vs as [|v0 vs'].
  - rewrite (R2 eq_refl). specialize (E [] Logic.I). cbn [Sem.bind] in E.
    destruct fa; cbn [quant_op eval]; rewrite <- Hb; f_equal.
    + destruct (excluded_middle_informative (forall xs, vals_ok xs [] -> eval (Sem.bind J [] xs) b = VBool true)) as [P|P].
      * specialize (P [] Logic.I). cbn [Sem.bind] in P. rewrite <- E in P. rewrite P. reflexivity.
      * destruct (vbool (eval I b')) eqn:V; auto. exfalso. apply P. intros xs Hx. apply vals_ok_nil in Hx. subst xs.
        cbn [Sem.bind]. rewrite <- E, <- Hb. reflexivity.
    + destruct (excluded_middle_informative (exists xs, vals_ok xs [] /\ eval (Sem.bind J [] xs) b = VBool true)) as [P|P].
      * destruct P as (xs & Hx & P). apply vals_ok_nil in Hx. subst xs. cbn [Sem.bind] in P. rewrite <- E in P. rewrite P. reflexivity.
      * destruct (vbool (eval I b')) eqn:V; auto. exfalso. apply P. exists []. split; [exact Logic.I|].
        cbn [Sem.bind]. rewrite <- E, <- Hb. reflexivity.
  - rewrite R1 by discriminate. destruct fa; cbn [quant_op eval]; f_equal; apply emi_iff.
    + split; intros G xs Hok; [rewrite <- E | rewrite E]; auto.
    + split; intros (xs & Hok & G); exists xs; split; auto; [rewrite <- E | rewrite E]; auto.
Qed.

Lemma rebuild_fn_cases f p o args :
  (exists n fty fi, o = OFunction n fty /\ ilookup p (n, fty) = Some fi /\ rebuild_fn f p o args = interpret f fi args) \/
  ((forall n fty, o = OFunction n fty -> ilookup p (n, fty) = None) /\ rebuild_fn f p o args = checked (rebuild o args)).
Proof.
  destruct o; try (right; split; [intros; discriminate | reflexivity]).
  cbn [rebuild_fn]. destruct (ilookup p (n, t)) as [fi|] eqn:L.
  - left. exists n, t, fi. auto.
  - right. split; auto. intros n0 fty0 [= <- <-]. exact L.
Qed.

(* congruence of evaluation across the interpretation of functions *)
Lemma eval_congr_wi p I o args args' :
  is_quant o = None -> (forall n fty, o = OFunction n fty -> ilookup p (n, fty) = None) ->
  map (eval I) args' = map (eval (with_interp I p)) args ->
  eval I (T o args') = eval (with_interp I p) (T o args).
Proof.
  intros Hq Hf Hm.
  assert (A : agree (fun _ => False) (fun _ => False) I (with_interp I p)) by (repeat split; auto; contradiction).
  destruct o; cbn [eval]; try discriminate; try (rewrite Hm; apply (op_sem_agree _ _ _ _ _ _ A)).
  - reflexivity.
  - rewrite Hm. cbn [with_interp ifun]. now rewrite (Hf n t eq_refl).
Qed.

Definition ires (p : imap) (t t' : term) (ty : Syntax.ty) : Prop :=
  okt t' = true /\ tc t' = Some ty /\ (arr = true -> key_const t = true -> t' = t) /\
  forall I, wfi I -> eval I t' = eval (with_interp I p) t.
Definition interp_stmt (t : term) : Prop :=
  forall p ty t', interps_ok p -> icap p t -> okt t = true -> tfrag t = true -> tc t = Some ty ->
                  subst_mgs_i p [] t = Some t' -> ires p t t' ty.

Lemma children_ires p : interps_ok p -> forall args tys args',
  Forall interp_stmt args -> Forall (icap p) args -> Forall (fun a => okt a = true) args -> Forall (fun a => tfrag a = true) args ->
  Forall2 (fun a t => tc a = Some t) args tys ->
  Forall2 (fun a b => subst_mgs_i p [] a = Some b) args args' ->
  Forall2 (fun a' t => okt a' = true /\ tc a' = Some t) args' tys /\
  Forall2 crel args args' /\
  forall I, wfi I -> map (eval I) args' = map (eval (with_interp I p)) args.
Proof.
  intros Hp args tys args' IH Fi Fo Ff Ft Ea. revert tys Ft.
  induction Ea as [|a a' r r' Ha Hr IHr]; intros tys Ft.
  - inversion Ft; subst. repeat split; constructor.
  - inversion IH as [|? ? IHa IHr']; inversion Fi as [|? ? Ia Ir]; inversion Fo as [|? ? Oa Or]; inversion Ff as [|? ? Fa Fr];
      inversion Ft as [|? ta ? tr Ta Tr]; subst.
    destruct (IHa p ta a' Hp Ia Oa Fa Ta Ha) as (A & B & K & C).
    destruct (IHr IHr' Ir Or Fr tr Tr) as (D & E & F). split; [|split].
    + constructor; auto.
    + constructor; auto. split; auto. split; [congruence | auto].
    + intros I Hwf. cbn [map]. now rewrite (C I Hwf), (F I Hwf).
Qed.

Lemma In_combine_F2 {A B} (R : A -> B -> Prop) (f : A -> term) : forall (ps : list A) (acts : list B) k v,
  Forall2 R ps acts -> In (k, v) (combine (map f ps) acts) -> exists p0, k = f p0 /\ R p0 v.
Proof.
  intros ps acts k v H. induction H as [|p0 a ps' acts' Hr _ IH]; cbn; [contradiction|].
  intros [[= <- <-]|Hin]; eauto.
Qed.

Theorem interp_sem : forall t, interp_stmt t.
Proof.
  induction t as [o args IH] using term_ind'. intros p ty t' Hp Hic Ho Hf Htc Hs.
  pose proof (okt_args _ _ Ho) as Fo. destruct (tfrag_args _ _ Hf) as [Hto Ff].
  destruct (tc_inv _ _ _ Htc) as (tys & Hts & Hrule). pose proof (tcs_Forall2 _ _ Hts) as Ft.
  cbn [subst_mgs_i] in Hs. destruct (is_quant o) as [[fa vs]|] eqn:Hq.
  - (* quantifier *)
    pose proof (is_quant_op _ _ _ Hq) as Eo. subst o. destruct args as [|b [|? ?]]; try discriminate.
    cbn [icap] in Hic. rewrite Hq in Hic.
    change (drop_bound vs []) with (@nil (term * term)) in Hs.
    destruct (subst_mgs_i p [] b) as [b'|] eqn:Eb; [|discriminate].
    change (lookup [] (T (quant_op fa vs) [b])) with (@None term) in Hs.
    inversion IH as [|? ? IHb _]; inversion Fo as [|? ? Ob _]; inversion Ff as [|? ? Fb _]; inversion Ft as [|? tb ? ? Tb _]; subst.
    destruct (IHb p tb b' Hp Hic Ob Fb Tb Eb) as (Ob' & Tb' & Kb' & Evb).
    assert (Cb : crel b b') by (split; auto; split; [congruence | auto]).
    destruct (quant_typed fa vs b b' ty t' Cb Ho Htc Hs) as (A & B & R1 & R2 & TbB & ->).
    split; auto. split; auto. split; [intros _ Hkc; destruct fa; discriminate Hkc|]. intros I Hwf.
    apply (quant_sem fa vs b b' I (with_interp I p) t' R1 R2).
    + apply okt_bool_val; auto. congruence.
    + intros xs Hok. rewrite (Evb (Sem.bind I vs xs) (wf_bind' _ _ _ Hwf Hok)). now apply with_interp_bind.
  - destruct (omap (subst_mgs_i p []) args) as [args'|] eqn:Ea; [|discriminate]. pose proof Ea as Ea0. apply omap_Forall2 in Ea.
    change (lookup [] (T o args)) with (@None term) in Hs.
    destruct (children_ires p Hp args tys args' IH (icap_args p o args Hq Hic) Fo Ff Ft Ea) as (Fa' & Hcr & Hmap).
    destruct (rebuild_fn_cases mgs0 p o args') as [(n & fty & fi & -> & Li & Er)|[Hno Er]]; rewrite Er in Hs.
    + (* an interpreted function: the body with the formals replaced by the (substituted) actuals *)
      destruct (Hp _ _ Li) as (ps & r0 & Efty & Eps & Obd & Fbd & Tbd & Hcl & Hfn). cbn [snd] in Efty. subst fty.
      assert (Hnc : no_capture (bind_params (fi_params fi) args') (fi_body fi)).
      { cbn [icap] in Hic. rewrite Hq in Hic. destruct Hic as [_ Hic]. rewrite Li in Hic. now apply Hic. }
      cbn in Hrule. destruct (tys_eqb tys ps) eqn:Et; [|discriminate]. apply tys_eqb_eq in Et. subst tys. injection Hrule as <-.
      unfold interpret in Hs. destruct (Nat.eqb (List.length args') (List.length (fi_params fi))) eqn:El; [|discriminate].
      apply Nat.eqb_eq in El. rewrite mgs0_eq in Hs.
      set (sg := bind_params (fi_params fi) args') in *.
      assert (HF2 : Forall2 (fun (pv : var) a' => okt a' = true /\ tc a' = Some (snd pv)) (fi_params fi) args').
      { rewrite <- Eps in Fa'. clear - Fa'. remember (fi_params fi) as pl. clear Heqpl. revert pl Fa'.
        induction args' as [|a' r IHr]; intros pl H; destruct pl as [|pv pl]; inversion H; subst; constructor; auto. }
      assert (Hkeys : sym_keys sg).
      { intros k v Hin. unfold sg, bind_params in Hin. apply in_rev in Hin.
        destruct (In_combine_F2 _ (fun v0 : var => TSym (fst v0) (snd v0)) _ _ _ _ HF2 Hin) as (pv & -> & _). eauto. }
      assert (Hmok : map_ok sg).
      { intros k v Hin. unfold sg, bind_params in Hin. apply in_rev in Hin.
        destruct (In_combine_F2 _ (fun v0 : var => TSym (fst v0) (snd v0)) _ _ _ _ HF2 Hin) as (pv & -> & Ov & Tv). split; auto. }
      destruct (subst_typed_mgs _ sg r0 t' Hmok (fun _ => sym_keys_no_const _ Hkeys) Obd Fbd Tbd Hs) as (A & B & _).
      split; auto. split; auto. split; [intros _ Hkc; discriminate Hkc|]. intros I Hwf.
      rewrite (subst_mgs_sem2 _ sg I r0 t' Hkeys Hmok Obd Fbd Tbd Hnc Hwf Hs).
      cbn [eval with_interp ifun]. rewrite Li, map_length.
      rewrite <- (Forall2_len _ _ _ Hcr), El, Nat.eqb_refl. rewrite <- (Hmap I Hwf).
      apply coincidence_gen. split; [|split; [|split]].
      * cbn. now rewrite bind_rdiv0.
      * cbn. now rewrite bind_idiv0.
      * intros m tm _. cbn [upd isym]. unfold sg, bind_params. now rewrite bind_lookup.
      * intros m tm Hm. rewrite Hfn in Hm. contradiction.
    + apply checked_Some in Hs.
      destruct (rebuild_ok o args' ty t' Hto Hq (ok_node_transfer o args args' ty Hto (okt_node _ _ Ho) Fo Hcr Htc)
                  (crel_okt _ _ Hcr) (eq_trans (crel_tc o _ _ Hcr) Htc) Hs) as (A & B & Ev).
      split; auto. split; auto. split.
      { intros _ Hkc. destruct (key_const_not_quant _ _ Hkc) as [_ ->]. inversion Hcr; subst.
        exact (rebuild_key_const o [] t' Hkc (okt_node _ _ Ho) Hs). }
      intros I Hwf. rewrite (Ev I Hwf). apply eval_congr_wi; auto.
Qed.

(* interp_lemma: substituting interpretations = evaluating with the interpreted functions *)
Theorem interp_lemma_partial : forall p t ty t' I,
  interps_ok p -> icap p t -> okt t = true -> tfrag t = true -> tc t = Some ty -> wf_interp I ->
  subst_interp p t = Some t' ->
  tc t' = Some ty /\ eval I t' = eval (with_interp I p) t.
Proof.
  intros p t ty t' I Hp Hic Ho Hf Htc Hwf Hs.
  destruct (interp_sem t p ty t' Hp Hic Ho Hf Htc Hs) as (_ & B & _ & C). split; auto.

  apply C. now apply wf_interp_wfi.
Qed.

(* quantifier-free bodies never capture *)
Lemma icap_of_qf p : (forall f fi, ilookup p f = Some fi -> is_qf (fi_body fi) = true) -> forall t, icap p t.
Proof.
  intros Hq. induction t as [o args IH] using term_ind'. cbn [icap]. destruct (is_quant o) as [[fa vs]|].
  - destruct args as [|b [|? ?]]; auto. now inversion IH.
  - split.
    + clear - IH. induction IH; cbn; auto.
    + destruct o; auto. destruct (ilookup p (n, t)) as [fi|] eqn:L; auto. intros args' _. apply no_capture_qf. eauto.
Qed.

End Arr.

(* ================================================================== the two instances *)
(* no Pow, no array value: any keys *)            Definition tfrag0 := tfrag false.
(* no Pow (array values allowed): no key is an index constant - symbol keys never are *)
Definition afrag := tfrag true.

Theorem subst_typed_mgs0 : forall t s ty t',
  map_ok s -> okt t = true -> tfrag0 t = true -> tc t = Some ty ->
  subst_mgs_i [] s t = Some t' -> okt t' = true /\ tc t' = Some ty.
Proof.
  intros t s ty t' Hm Ho Hf Htc Hs.
  destruct (subst_typed_mgs false t s ty t' Hm (fun H => False_ind _ (Bool.diff_false_true H)) Ho Hf Htc Hs) as (A & B & _). auto.
Qed.
Theorem subst_typed_mss0 : forall t s ty t',
  map_ok s -> okt t = true -> tfrag0 t = true -> tc t = Some ty ->
  subst_mss_i [] s t = Some t' -> okt t' = true /\ tc t' = Some ty.
Proof.
  intros t s ty t' Hm Ho Hf Htc Hs.
  destruct (subst_typed_mss false t s ty t' Hm (fun H => False_ind _ (Bool.diff_false_true H)) Ho Hf Htc Hs) as (A & B & _). auto.
Qed.
Theorem subst_typed_mgs_arr : forall t s ty t',
  map_ok s -> no_const_keys s -> okt t = true -> afrag t = true -> tc t = Some ty ->
  subst_mgs_i [] s t = Some t' -> okt t' = true /\ tc t' = Some ty.
Proof.
  intros t s ty t' Hm Hn Ho Hf Htc Hs.
  destruct (subst_typed_mgs true t s ty t' Hm (fun _ => Hn) Ho Hf Htc Hs) as (A & B & _). auto.
Qed.
Theorem subst_typed_mss_arr : forall t s ty t',
  map_ok s -> no_const_keys s -> okt t = true -> afrag t = true -> tc t = Some ty ->
  subst_mss_i [] s t = Some t' -> okt t' = true /\ tc t' = Some ty.
Proof.
  intros t s ty t' Hm Hn Ho Hf Htc Hs.
  destruct (subst_typed_mss true t s ty t' Hm (fun _ => Hn) Ho Hf Htc Hs) as (A & B & _). auto.
Qed.

(* the substitution lemma for every operator except Pow *)
Theorem subst_lemma_all_but_pow : forall s t I ty t',
  sym_keys s -> map_ok s -> okt t = true -> afrag t = true -> tc t = Some ty ->
  no_capture s t -> wf_interp I -> subst_mgs s t = Some t' -> eval I t' = eval (upd I s) t.
Proof. exact (subst_lemma_typed_partial true). Qed.

(* interpretations whose bodies may contain quantifiers, under the capture-freeness proviso icap *)
Theorem interp_lemma_capture_free : forall p t ty t' I,
  interps_ok true p -> icap p t -> okt t = true -> afrag t = true -> tc t = Some ty -> wf_interp I ->
  subst_interp p t = Some t' ->
  tc t' = Some ty /\ eval I t' = eval (with_interp I p) t.
Proof. exact (interp_lemma_partial true). Qed.
(* quantifier-free bodies: the proviso holds *)
Definition bodies_qf (p : imap) : Prop := forall f fi, ilookup p f = Some fi -> is_qf (fi_body fi) = true.
Theorem interp_lemma_all_but_pow : forall p t ty t' I,
  interps_ok true p -> bodies_qf p -> okt t = true -> afrag t = true -> tc t = Some ty -> wf_interp I ->
  subst_interp p t = Some t' ->
  tc t' = Some ty /\ eval I t' = eval (with_interp I p) t.
Proof. intros p t ty t' I Hp Hq. apply interp_lemma_capture_free; auto. now apply icap_of_qf. Qed.

(* ------------------------------------------------------------------ examples: the hypotheses are satisfiable *)
Definition e2_x := TSym "x" TInt. Definition e2_y := TSym "y" TInt. Definition e2_z := TSym "z" TInt.
Definition e2_r := TSym "r" TReal. Definition e2_b := TSym "b" TBool. Definition e2_c := TSym "c" TBool.
Definition e2_u := TSym "u" (TBV 4). Definition e2_w := TSym "w" (TBV 8). Definition e2_v := TSym "v" (TBV 8).
(* (forall y. to_real(x) + r <= to_real(y) | !b)  &  zext4(u) <u rol3(w) *)
Definition e2_t : term :=
  T OAnd [T (OForall [("y"%string, TInt)]) [T OOr [T OLe [T OPlus [T OToReal [e2_x]; e2_r]; T OToReal [e2_y]]; T ONot [e2_b]]];
          T (OBVRel BUlt) [T (OBVZext 8 4) [e2_u]; T (OBVRol 8 3) [e2_w]]].
Definition e2_s : smap := [(e2_x, T OPlus [e2_z; TIntC 1]); (e2_b, T ONot [e2_c]); (e2_u, TBVC 9 4); (e2_w, e2_v)].
Definition e2_res : term :=
  T OAnd [T (OForall [("y"%string, TInt)]) [T OOr [T OLe [T OPlus [T OToReal [T OPlus [e2_z; TIntC 1]]; e2_r]; T OToReal [e2_y]]; e2_c]];
          T (OBVRel BUlt) [T (OBVZext 8 4) [TBVC 9 4]; T (OBVRol 8 3) [e2_v]]].

Example subst_lemma_typed_example :
  sym_keys e2_s /\ map_ok e2_s /\ okt e2_t = true /\ afrag e2_t = true /\ tc e2_t = Some TBool /\
  no_capture e2_s e2_t /\ subst_mgs e2_s e2_t = Some e2_res /\ subst_mss e2_s e2_t = Some e2_res.
Proof.
  split; [|split; [|split; [|split; [|split; [|split; [|split]]]]]]; try (vm_compute; reflexivity).
  - intros k v [[= <- <-]|[[= <- <-]|[[= <- <-]|[[= <- <-]|[]]]]]; do 2 eexists; reflexivity.
  - intros k v [[= <- <-]|[[= <- <-]|[[= <- <-]|[[= <- <-]|[]]]]]; split; vm_compute; reflexivity.
  - cbn. repeat split; auto.
    intros k v [[= <- <-]|[[= <- <-]|[[= <- <-]|[[= <- <-]|[]]]]] _ x [<-|[]]; cbn; intuition congruence.
Qed.

(* a compound key: zext4(u) is replaced as a whole (MGS) although u is a key too *)
Definition e3_t : term := T (OBV BAdd 8) [T (OBVZext 8 4) [e2_u]; e2_w].
Definition e3_s : smap := [(T (OBVZext 8 4) [e2_u], T (OBV BMul 8) [e2_w; e2_w]); (e2_u, TBVC 3 4)].
Example subst_typed_example :
  map_ok e3_s /\ okt e3_t = true /\ afrag e3_t = true /\ tc e3_t = Some (TBV 8) /\
  subst_mgs e3_s e3_t = Some (T (OBV BAdd 8) [T (OBV BMul 8) [e2_w; e2_w]; e2_w]) /\
  subst_mss e3_s e3_t = Some (T (OBV BAdd 8) [T (OBVZext 8 4) [TBVC 3 4]; e2_w]).
Proof.
  repeat split; try (vm_compute; reflexivity).
  all: destruct H as [[= <- <-]|[[= <- <-]|[]]]; vm_compute; reflexivity.
Qed.

(* example: f(a, b) := a + b * 2 in (forall y. f(y, f(x, 1)) <= g(y)) *)
Definition e4_fty := TFun [TInt; TInt] TInt.
Definition e4_gty := TFun [TInt] TInt.
Definition e4_fi : finterp :=
  {| fi_params := [("a"%string, TInt); ("b"%string, TInt)];
     fi_body := T OPlus [TSym "a" TInt; T OTimes [TSym "b" TInt; TIntC 2]] |}.
Definition e4_p : imap := [(("f"%string, e4_fty), e4_fi)].
Definition e4_t : term :=
  T (OForall [("y"%string, TInt)])
    [T OLe [T (OFunction "f" e4_fty) [e2_y; T (OFunction "f" e4_fty) [e2_x; TIntC 1]];
            T (OFunction "g" e4_gty) [e2_y]]].
Definition e4_res : term :=
  T (OForall [("y"%string, TInt)])
    [T OLe [T OPlus [e2_y; T OTimes [T OPlus [e2_x; T OTimes [TIntC 1; TIntC 2]]; TIntC 2]];
            T (OFunction "g" e4_gty) [e2_y]]].

Example interp_lemma_example :
  interps_ok true e4_p /\ bodies_qf e4_p /\ okt e4_t = true /\ afrag e4_t = true /\ tc e4_t = Some TBool /\
  subst_interp e4_p e4_t = Some e4_res.
Proof.
  split; [|split; [|repeat split; vm_compute; reflexivity]].
  2:{ intros f fi H. unfold e4_p in H. cbn [ilookup] in H.
      destruct (var_eqb f ("f"%string, e4_fty)); [|discriminate]. injection H as <-. reflexivity. }
  intros f fi H. unfold e4_p in H. cbn [ilookup] in H.
  destruct (var_eqb f ("f"%string, e4_fty)) eqn:E; [|discriminate]. injection H as <-.
  apply var_eqb_eq in E. subst f.
  exists [TInt; TInt], TInt. repeat split; try (vm_compute; reflexivity).
  intros v Hv. vm_compute in Hv. cbn. tauto.
Qed.

(* array value: select(Array(default x, {1 -> y, 2 -> z}), i) = 0 with y := x (the pair becomes
   default-valued and is dropped by Array()), i := 1, z := z + 1 *)
Definition e5_i := TSym "i" TInt.
Definition e5_t : term :=
  T OEquals [T OSelect [T (OArrayValue TInt) [e2_x; TIntC 1; e2_y; TIntC 2; e2_z]; e5_i]; TIntC 0].
Definition e5_s : smap := [(e2_y, e2_x); (e5_i, TIntC 1); (e2_z, T OPlus [e2_z; TIntC 1])].
Definition e5_res : term :=
  T OEquals [T OSelect [T (OArrayValue TInt) [e2_x; TIntC 2; T OPlus [e2_z; TIntC 1]]; TIntC 1]; TIntC 0].
Example subst_lemma_array_example :
  sym_keys e5_s /\ map_ok e5_s /\ okt e5_t = true /\ afrag e5_t = true /\ tc e5_t = Some TBool /\
  no_capture e5_s e5_t /\ subst_mgs e5_s e5_t = Some e5_res.
Proof.
  split; [|split; [|split; [|split; [|split; [|split]]]]]; try (vm_compute; reflexivity).
  - intros k v [[= <- <-]|[[= <- <-]|[[= <- <-]|[]]]]; do 2 eexists; reflexivity.
  - intros k v [[= <- <-]|[[= <- <-]|[[= <- <-]|[]]]]; split; vm_compute; reflexivity.
  - cbn. repeat split; auto.
Qed.

(* ================================================================== compound keys: congruence
   Replacing sub-terms by terms that denote the same value does not change the value - also under
   quantifiers, for the keys that survive the binder (none of their free symbols is bound). *)
Definition eq_keys (I : interp) (s : smap) : Prop := forall k v, In (k, v) s -> eval I k = eval I v.
(* proviso, every surviving entry counts: no free symbol of its replacement is bound *)
Fixpoint no_capture_all (s : smap) (t : term) {struct t} : Prop :=
  match t with
  | T o args =>
      match is_quant o with
      | Some (_, vs) =>
          match args with
          | [b] => (forall k v, In (k, v) (drop_bound vs s) -> forall x, In x vs -> ~ In x (fv v))
                   /\ no_capture_all (drop_bound vs s) b
          | _ => True
          end
      | None => (fix all (l : list term) : Prop :=
                   match l with [] => True | a :: r => no_capture_all s a /\ all r end) args
      end
  end.
Lemma no_capture_all_args s o args : is_quant o = None -> no_capture_all s (T o args) -> Forall (no_capture_all s) args.
Proof.
  intros Hq. cbn [no_capture_all]. rewrite Hq. induction args as [|x r IH]; intros H; constructor; [tauto | apply IH; tauto].
Qed.

Lemma eval_bind_out I vs xs t : (forall x, In x vs -> ~ In x (fv t)) -> eval (Sem.bind I vs xs) t = eval I t.
Proof.
  intros H. apply coincidence_gen. split; [|split; [|split]].
  - apply bind_rdiv0. - apply bind_idiv0.
  - intros n ty Hin. apply bind_isym_out. intros Hv. exact (H _ Hv Hin).
  - intros n ty _. now rewrite bind_ifun.
Qed.

Lemma eq_keys_bind I s vs xs :
  eq_keys I s -> (forall k v, In (k, v) (drop_bound vs s) -> forall x, In x vs -> ~ In x (fv v)) ->
  eq_keys (Sem.bind I vs xs) (drop_bound vs s).
Proof.
  intros He Hc k v Hin. rewrite (eval_bind_out I vs xs v (Hc k v Hin)).
  pose proof Hin as Hin'. unfold drop_bound in Hin'. apply filter_In in Hin'. destruct Hin' as [Hs Hk]. cbn [fst] in Hk.
  rewrite (eval_bind_out I vs xs k).
  - now apply He.
  - intros x Hx Hf. unfold key_survives in Hk. rewrite forallb_forall in Hk. specialize (Hk x Hf).
    apply negb_true_iff in Hk. apply (mem_In var_eqb var_eqb_eq) in Hx. congruence.
Qed.

Section Congr.
Variable arr : bool.
Definition congr_stmt (t : term) : Prop :=
  forall s I ty t', map_ok s -> arr_safe arr s -> okt t = true -> tfrag arr t = true -> tc t = Some ty ->
                    no_capture_all s t -> wfi I -> eq_keys I s -> subst_mgs_i [] s t = Some t' -> eval I t' = eval I t.

Lemma children_congr s I : map_ok s -> arr_safe arr s -> wfi I -> eq_keys I s -> forall args tys args',
  Forall congr_stmt args -> Forall (fun a => okt a = true) args -> Forall (fun a => tfrag arr a = true) args ->
  Forall2 (fun a t => tc a = Some t) args tys -> Forall (no_capture_all s) args ->
  Forall2 (fun a b => subst_mgs_i [] s a = Some b) args args' ->
  map (eval I) args' = map (eval I) args.
Proof.
  intros Hm Has Hwf He args tys args' IH Fo Ff Ft Fc Ea. revert tys Ft.
  induction Ea as [|a a' r r' Ha Hr IHr]; intros tys Ft; [reflexivity|].
  inversion IH as [|? ? IHa IHr']; inversion Fo as [|? ? Oa Or]; inversion Ff as [|? ? Fa Fr];
    inversion Ft as [|? ta ? tr Ta Tr]; inversion Fc as [|? ? Ca Cr]; subst.
  cbn [map]. rewrite (IHa s I ta a' Hm Has Oa Fa Ta Ca Hwf He Ha). f_equal. eapply IHr; eauto.
Qed.

Theorem subst_congr : forall t, congr_stmt t.
Proof.
  induction t as [o args IH] using term_ind'. intros s I ty t' Hm Has Ho Hf Htc Hc Hwf He Hs.
  destruct (lookup s (T o args)) as [v|] eqn:L.
  { pose proof (mgs_key _ _ _ _ _ Hs L). subst t'. symmetry. apply He. now apply lookup_In. }
  pose proof (okt_args _ _ Ho) as Fo. destruct (tfrag_args arr _ _ Hf) as [Hto Ff].
  destruct (tc_inv _ _ _ Htc) as (tys & Hts & Hrule). pose proof (tcs_Forall2 _ _ Hts) as Ft.
  cbn [subst_mgs_i] in Hs. destruct (is_quant o) as [[fa vs]|] eqn:Hq.
  - pose proof (is_quant_op _ _ _ Hq) as Eo. subst o. destruct args as [|b [|? ?]]; try discriminate.
    destruct (subst_mgs_i [] (drop_bound vs s) b) as [b'|] eqn:Eb; [|discriminate]. rewrite L in Hs.
    inversion IH as [|? ? IHb _]; inversion Fo as [|? ? Ob _]; inversion Ff as [|? ? Fb _]; inversion Ft as [|? tb ? ? Tb _]; subst.
    destruct (subst_typed_mgs arr b (drop_bound vs s) tb b' (map_ok_drop _ _ Hm) (arr_safe_drop arr _ _ Has) Ob Fb Tb Eb) as (Ob' & Tb' & Kb').
    assert (Cb : crel arr b b') by (split; auto; split; [congruence | auto]).
    destruct (quant_typed arr fa vs b b' ty t' Cb Ho Htc Hs) as (_ & _ & R1 & R2 & TbB & ->).
    cbn [no_capture_all] in Hc. rewrite Hq in Hc. destruct Hc as [Hcap Hcb].
    apply (quant_sem fa vs b b' I I t' R1 R2).
    + apply okt_bool_val; auto. congruence.
    + intros xs Hok. apply (IHb (drop_bound vs s) (Sem.bind I vs xs) tb b' (map_ok_drop _ _ Hm) (arr_safe_drop arr _ _ Has) Ob Fb Tb Hcb
                               (wf_bind' _ _ _ Hwf Hok)); auto. now apply eq_keys_bind.
  - destruct (omap (subst_mgs_i [] s) args) as [args'|] eqn:Ea; [|discriminate]. apply omap_Forall2 in Ea.
    rewrite L, rebuild_fn_nil in Hs. apply checked_Some in Hs.
    assert (Hcr : Forall2 (crel arr) args args').
    { eapply (children_crel arr (subst_mgs_i [] s)); eauto. apply Forall_forall. intros a _ ty0 a' O F Tc S.
      eapply subst_typed_mgs; eauto. }
    pose proof (children_congr s I Hm Has Hwf He args tys args' IH Fo Ff Ft (no_capture_all_args _ _ _ Hq Hc) Ea) as Hmap.
    destruct (rebuild_ok arr o args' ty t' Hto Hq (ok_node_transfer arr o args args' ty Hto (okt_node _ _ Ho) Fo Hcr Htc)
                (crel_okt arr _ _ Hcr) (eq_trans (crel_tc arr o _ _ Hcr) Htc) Hs) as (_ & _ & Ev).
    rewrite (Ev I Hwf).
    destruct (is_sym_op o) eqn:Hsy.
    + destruct o; try discriminate Hsy. cbn in Hrule. destruct tys; [|discriminate]. apply tcs_nil_inv in Hts. subst args.
      inversion Ea; subst. reflexivity.
    + apply eval_nonbinder; auto. intros n ty0 ->. discriminate Hsy.
Qed.
End Congr.

(* compound keys, every operator except Pow, quantifiers included *)
Theorem subst_congruence_partial : forall s t I ty t',
  map_ok s -> no_const_keys s -> okt t = true -> afrag t = true -> tc t = Some ty ->
  no_capture_all s t -> wf_interp I -> eq_keys I s -> subst_mgs s t = Some t' -> eval I t' = eval I t.
Proof.
  intros s t I ty t' Hm Hn Ho Hf Htc Hc Hwf He Hs.
  exact (subst_congr true t s I ty t' Hm (fun _ => Hn) Ho Hf Htc Hc (proj1 (wf_interp_wfi I) Hwf) He Hs).
Qed.

(* example: the compound key x + 1 survives the binder of y and is replaced under it;
   I gives x = 2 and w = 3, so the key and its replacement denote the same value *)
Definition e6_I : interp :=
  {| isym := fun n t => if String.eqb n "x" && ty_eqb t TInt then VInt 2
                        else if String.eqb n "w" && ty_eqb t TInt then VInt 3 else default_val t;
     ifun := fun _ t _ => match t with TFun _ r => default_val r | _ => VBool false end;
     rdiv0 := fun r => r; idiv0 := fun z => z |}.
Lemma e6_wf : wf_interp e6_I.
Proof.
  split.
  - intros n t Ht. cbn.
    destruct (String.eqb n "x" && ty_eqb t TInt) eqn:E1.
    { apply andb_true_iff in E1. destruct E1 as [_ E1]. apply ty_eqb_eq in E1. subst t. exact Logic.I. }
    destruct (String.eqb n "w" && ty_eqb t TInt) eqn:E2.
    { apply andb_true_iff in E2. destruct E2 as [_ E2]. apply ty_eqb_eq in E2. subst t. exact Logic.I. }
    now apply default_val_has_ty.
  - intros n ps r args Hr. cbn. now apply default_val_has_ty.
Qed.
Definition e6_k : term := T OPlus [e2_x; TIntC 1].
Definition e6_w : term := TSym "w" TInt.
Definition e6_t : term :=
  T (OForall [("y"%string, TInt)]) [T OAnd [T OLe [e6_k; e2_y]; T OEquals [e6_k; e2_z]]].
Definition e6_s : smap := [(e6_k, e6_w)].
Example subst_congruence_example :
  map_ok e6_s /\ no_const_keys e6_s /\ okt e6_t = true /\ afrag e6_t = true /\ tc e6_t = Some TBool /\
  no_capture_all e6_s e6_t /\ wf_interp e6_I /\ eq_keys e6_I e6_s /\
  subst_mgs e6_s e6_t = Some (T (OForall [("y"%string, TInt)]) [T OAnd [T OLe [e6_w; e2_y]; T OEquals [e6_w; e2_z]]]).
Proof.
  split; [|split; [|split; [|split; [|split; [|split; [|split; [|split]]]]]]].
  - intros k v [[= <- <-]|[]]. split; vm_compute; reflexivity.
  - intros k v [[= <- <-]|[]]. reflexivity.
  - vm_compute; reflexivity.
  - vm_compute; reflexivity.
  - vm_compute; reflexivity.
  - cbn. repeat split; auto. intros k v [[= <- <-]|[]] x [<-|[]]. cbn. intuition congruence.
  - exact e6_wf.
  - intros k v [[= <- <-]|[]]. cbn. reflexivity.
  - vm_compute; reflexivity.
Qed.

(* ================================================================== MSS: exact characterisation
   With symbol keys, the most-specific strategy differs from the most-general one exactly where
   the node REBUILT from the substituted children is itself a key (the constructor normalised it
   onto a key symbol: not(not y) -> y, 1-ary And/Or/Plus/Times, an empty quantifier prefix) and
   that key is not mapped to itself.  [mss_ok s t] checks this at every node of t, computably
   (it runs the substitution on the sub-terms). *)
Definition mss_node_ok (s : smap) (orig : term) (rebuilt : option term) : bool :=
  match lookup s orig with
  | Some _ => true                       (* a key: both strategies return its replacement *)
  | None => match rebuilt with
            | Some r => match lookup s r with Some v => term_eqb v r | None => true end
            | None => true
            end
  end.
Fixpoint mss_ok (s : smap) (t : term) {struct t} : bool :=
  match t with
  | T o args =>
      match is_quant o with
      | Some (fa, vs) =>
          match args with
          | [b] => mss_ok (drop_bound vs s) b &&
                   mss_node_ok s t (match subst_mss_i [] (drop_bound vs s) b with
                                    | Some b' => checked (Some (mk_quant fa vs b')) | None => None end)
          | _ => true
          end
      | None =>
          (fix all (l : list term) : bool := match l with [] => true | x :: r => mss_ok s x && all r end) args &&
          mss_node_ok s t (match omap (subst_mss_i [] s) args with
                           | Some args' => checked (rebuild o args') | None => None end)
      end
  end.

Lemma mss_ok_args s o args : is_quant o = None -> mss_ok s (T o args) = true ->
  Forall (fun a => mss_ok s a = true) args.
Proof.
  intros Hq. cbn [mss_ok]. rewrite Hq. rewrite andb_true_iff. intros [H _].
  induction args as [|x r IH]; constructor; apply andb_true_iff in H; [tauto | apply IH; tauto].
Qed.

Lemma sym_key_shape s o args v : sym_keys s -> lookup s (T o args) = Some v -> exists n ty, o = OSymbol n ty /\ args = [].
Proof. intros Hk L. destruct (lookup_sym_keys _ _ _ Hk L) as (n & ty & E). inversion E; subst. eauto. Qed.

Lemma mss_symbol_key s n ty v : lookup s (TSym n ty) = Some v -> subst_mss_i [] s (TSym n ty) = Some v.
Proof.
  intros L. unfold TSym in *. cbn [subst_mss_i is_quant omap rebuild_fn rebuild checked TSym tc tc_rule replace_after].
  unfold TSym. now rewrite L.
Qed.

(* sufficiency: under mss_ok the two strategies return the same term (symbol keys; no typing,
   no fragment restriction, every operator) *)
Theorem mss_ok_coincide : forall t s, sym_keys s -> mss_ok s t = true -> subst_mss s t = subst_mgs s t.
Proof.
  unfold subst_mss, subst_mgs.
  induction t as [o args IH] using term_ind'. intros s Hk Hok.
  destruct (lookup s (T o args)) as [v|] eqn:L.
  { destruct (sym_key_shape _ _ _ _ Hk L) as (n & ty & -> & ->).
    change (T (OSymbol n ty) []) with (TSym n ty) in *. rewrite (mss_symbol_key s n ty v L).
    unfold TSym in *. cbn [subst_mgs_i is_quant omap]. now rewrite L. }
  cbn [subst_mss_i subst_mgs_i]. destruct (is_quant o) as [[fa vs]|] eqn:Hq.
  - destruct args as [|b [|? ?]]; try reflexivity.
    cbn [mss_ok] in Hok. rewrite Hq in Hok. apply andb_true_iff in Hok. destruct Hok as [Hb Hn].
    inversion IH as [|? ? IHb _]; subst.
    rewrite <- (IHb (drop_bound vs s) (sym_keys_drop _ _ Hk) Hb).
    destruct (subst_mss_i [] (drop_bound vs s) b) as [b'|]; [|reflexivity]. rewrite L.
    unfold mss_node_ok in Hn. rewrite L in Hn.
    destruct (checked (Some (mk_quant fa vs b'))) as [r|]; [|reflexivity]. cbn [replace_after].
    destruct (lookup s r) as [v|]; [|reflexivity]. apply term_eqb_eq in Hn. now subst.
  - pose proof (mss_ok_args s o args Hq Hok) as Fa.
    cbn [mss_ok] in Hok. rewrite Hq in Hok. apply andb_true_iff in Hok. destruct Hok as [_ Hn].
    assert (E : omap (subst_mss_i [] s) args = omap (subst_mgs_i [] s) args).
    { apply omap_ext_Forall. rewrite Forall_forall in IH, Fa |- *. intros a Ha. apply IH; auto. }
    rewrite <- E. destruct (omap (subst_mss_i [] s) args) as [args'|]; [|reflexivity]. rewrite L.
    unfold mss_node_ok in Hn. rewrite L in Hn.
    destruct (rebuild_fn mgs0 [] o args') as [r|] eqn:R.
    + rewrite rebuild_fn_nil in R. rewrite R in Hn. cbn [replace_after].
      destruct (lookup s r) as [v|]; [|reflexivity]. apply term_eqb_eq in Hn. now subst.
    + reflexivity.
Qed.

(* tightness: at the first node where the condition fails the two strategies differ *)
Theorem mss_ok_tight : forall o args s,
  sym_keys s -> is_quant o = None -> Forall (fun a => mss_ok s a = true) args ->
  mss_ok s (T o args) = false -> subst_mss s (T o args) <> subst_mgs s (T o args).
Proof.
  intros o args s Hk Hq Fa Hbad. unfold subst_mss, subst_mgs.
  cbn [mss_ok] in Hbad. rewrite Hq in Hbad.
  assert (Hall : (fix all (l : list term) : bool := match l with [] => true | x :: r => mss_ok s x && all r end) args = true).
  { clear - Fa. induction Fa as [|x r Hx _ IHf]; [reflexivity|]. now rewrite Hx, IHf. }
  rewrite Hall in Hbad. cbn [andb] in Hbad. unfold mss_node_ok in Hbad.
  destruct (lookup s (T o args)) eqn:L; [discriminate|].
  assert (E : omap (subst_mss_i [] s) args = omap (subst_mgs_i [] s) args).
  { apply omap_ext_Forall. rewrite Forall_forall in Fa |- *. intros a Ha. apply (mss_ok_coincide a s Hk (Fa a Ha)). }
  cbn [subst_mss_i subst_mgs_i]. rewrite Hq, <- E.
  destruct (omap (subst_mss_i [] s) args) as [args'|]; [|discriminate]. rewrite L, rebuild_fn_nil.
  destruct (checked (rebuild o args')) as [r|]; [|discriminate]. cbn [replace_after].
  destruct (lookup s r) as [v|]; [|discriminate]. intros [= ->]. now rewrite (proj2 (term_eqb_eq r r) eq_refl) in Hbad.
Qed.

(* the substitution lemma for the most-specific strategy, every operator except Pow *)
Theorem subst_lemma_mss_ok : forall s t I ty t',
  sym_keys s -> map_ok s -> okt t = true -> afrag t = true -> tc t = Some ty ->
  no_capture s t -> wf_interp I -> mss_ok s t = true ->
  subst_mss s t = Some t' -> eval I t' = eval (upd I s) t.
Proof.
  intros s t I ty t' Hk Hm Ho Hf Htc Hc Hwf Hok Hs. rewrite (mss_ok_coincide t s Hk Hok) in Hs.
  eapply subst_lemma_all_but_pow; eauto.
Qed.

(* mss_ok is implied by the earlier side condition (no replacement term is a negation, formula in
   the fragment frag of Substituter_proofs) *)
Lemma mss_ok_of_no_neg : forall t s, sym_keys s -> no_neg_values s -> frag t = true -> mss_ok s t = true.
Proof.
  induction t as [o args IH] using term_ind'. intros s Hk Hv Hf.
  pose proof (mgs_mss_sym_partial (T o args) s Hk Hv Hf) as Eq. unfold subst_mgs, subst_mss in Eq.
  pose proof (frag_args _ _ Hf) as Fa.
  cbn [mss_ok]. cbn [subst_mgs_i subst_mss_i] in Eq. destruct (is_quant o) as [[fa vs]|] eqn:Hq.
  - destruct args as [|b [|? ?]]; try reflexivity.
    inversion IH as [|? ? IHb _]; inversion Fa as [|? ? Fb _]; subst.
    rewrite (IHb (drop_bound vs s) (sym_keys_drop _ _ Hk) (no_neg_drop _ _ Hv) Fb). cbn [andb].
    pose proof (mgs_mss_sym_partial b (drop_bound vs s) (sym_keys_drop _ _ Hk) (no_neg_drop _ _ Hv) Fb) as Eb.
    unfold subst_mgs, subst_mss in Eb. rewrite Eb in Eq.
    unfold mss_node_ok. destruct (lookup s (T o [b])) eqn:L; [reflexivity|].
    destruct (subst_mss_i [] (drop_bound vs s) b) as [b'|]; [|reflexivity].
    destruct (checked (Some (mk_quant fa vs b'))) as [r|]; [|reflexivity]. cbn [replace_after] in Eq.
    destruct (lookup s r) as [v|]; [|reflexivity]. injection Eq as <-. apply term_eqb_eq. reflexivity.
  - assert (Hall : (fix all (l : list term) : bool := match l with [] => true | x :: r => mss_ok s x && all r end) args = true).
    { clear - IH Fa Hk Hv. induction args as [|x r IHr]; [reflexivity|]. inversion IH; inversion Fa; subst.
      rewrite H1 by auto. now apply IHr. }
    rewrite Hall. cbn [andb].
    assert (E : omap (subst_mgs_i [] s) args = omap (subst_mss_i [] s) args).
    { apply omap_ext_Forall. rewrite Forall_forall in Fa |- *. intros a Ha. apply (mgs_mss_sym_partial a s Hk Hv (Fa a Ha)). }
    rewrite E in Eq. unfold mss_node_ok. destruct (lookup s (T o args)) eqn:L; [reflexivity|].
    destruct (omap (subst_mss_i [] s) args) as [args'|]; [|reflexivity]. rewrite rebuild_fn_nil in Eq.
    destruct (checked (rebuild o args')) as [r|]; [|reflexivity]. cbn [replace_after] in Eq.
    destruct (lookup s r) as [v|]; [|reflexivity]. injection Eq as <-. apply term_eqb_eq. reflexivity.
Qed.

(* the condition cannot be dropped: Not(b) with b := Not(b) (the open finding) satisfies every
   other hypothesis of subst_lemma_mss_ok and violates the conclusion *)
Definition e7_I : interp :=
  {| isym := fun n t => if String.eqb n "b" && ty_eqb t TBool then VBool true else default_val t;
     ifun := fun _ t _ => match t with TFun _ r => default_val r | _ => VBool false end;
     rdiv0 := fun r => r; idiv0 := fun z => z |}.
Lemma e7_wf : wf_interp e7_I.
Proof.
  split.
  - intros n t Ht. cbn. destruct (String.eqb n "b" && ty_eqb t TBool) eqn:E1.
    { apply andb_true_iff in E1. destruct E1 as [_ E1]. apply ty_eqb_eq in E1. subst t. exact Logic.I. }
    now apply default_val_has_ty.
  - intros n ps r args Hr. cbn. now apply default_val_has_ty.
Qed.
Theorem mss_ok_needed :
  sym_keys mssw_s /\ map_ok mssw_s /\ okt mssw_t = true /\ afrag mssw_t = true /\ tc mssw_t = Some TBool /\
  no_capture mssw_s mssw_t /\ wf_interp e7_I /\ mss_ok mssw_s mssw_t = false /\
  subst_mss mssw_s mssw_t = Some (T ONot [ex_b]) /\ eval e7_I (T ONot [ex_b]) <> eval (upd e7_I mssw_s) mssw_t.
Proof.
  destruct mssw_facts as (A & _ & _ & D & _ & _ & _ & E).
  split; [exact A|]. split; [intros k v [[= <- <-]|[]]; split; reflexivity|].
  split; [reflexivity|]. split; [reflexivity|]. split; [reflexivity|]. split; [exact D|].
  split; [exact e7_wf|]. split; [vm_compute; reflexivity|]. split; [exact E|].
  cbn. discriminate.
Qed.

(* example with a QUANTIFIED body: even(a) := exists u. u + u = a *)
Definition e8_ety := TFun [TInt] TBool.
Definition e8_u := TSym "u" TInt.
Definition e8_fi : finterp :=
  {| fi_params := [("a"%string, TInt)];
     fi_body := T (OExists [("u"%string, TInt)]) [T OEquals [T OPlus [e8_u; e8_u]; TSym "a" TInt]] |}.
Definition e8_p : imap := [(("even"%string, e8_ety), e8_fi)].
Definition e8_even (a : term) : term := T (OFunction "even" e8_ety) [a].
Definition e8_t : term :=
  T OAnd [e8_even (T OPlus [e2_x; TIntC 1]);
          T (OForall [("y"%string, TInt)]) [T OOr [e8_even e2_y; e8_even (T OPlus [e2_y; TIntC 1])]]].
Definition e8_body (a : term) : term := T (OExists [("u"%string, TInt)]) [T OEquals [T OPlus [e8_u; e8_u]; a]].
Definition e8_res : term :=
  T OAnd [e8_body (T OPlus [e2_x; TIntC 1]);
          T (OForall [("y"%string, TInt)]) [T OOr [e8_body e2_y; e8_body (T OPlus [e2_y; TIntC 1])]]].

Lemma e8_interps_ok : interps_ok true e8_p.
Proof.
  intros f fi H. unfold e8_p in H. cbn [ilookup] in H.
  destruct (var_eqb f ("even"%string, e8_ety)) eqn:E; [|discriminate]. injection H as <-.
  apply var_eqb_eq in E. subst f.
  exists [TInt], TBool. repeat split; try (vm_compute; reflexivity).
  intros v Hv. vm_compute in Hv. cbn. tauto.
Qed.

Ltac e8_site := let E := fresh "E" in intros ? E; vm_compute in E; injection E as <-; cbn; split; auto;
                intros ? ? [[= <- <-]|[]] _ ? [<-|[]]; cbn; intuition congruence.

Example interp_lemma_quantified_body_example :
  interps_ok true e8_p /\ icap e8_p e8_t /\ okt e8_t = true /\ afrag e8_t = true /\ tc e8_t = Some TBool /\
  subst_interp e8_p e8_t = Some e8_res /\
  (* the proviso is violated when the actual parameter mentions the bound variable of the body *)
  ~ icap e8_p (e8_even e8_u).
Proof.
  split; [exact e8_interps_ok|]. split; [|split; [|split; [|split; [|split]]]]; try (vm_compute; reflexivity).
  - cbn [icap e8_t e8_even is_quant ilookup e8_p var_eqb fst snd].
    cbn. repeat match goal with |- _ /\ _ => split end; auto; e8_site.
  - cbn. intros [_ H]. specialize (H [e8_u] eq_refl). cbn in H. destruct H as [H _].
    apply (H (TSym "a" TInt) e8_u (or_introl eq_refl)) with (x := ("u"%string, TInt)); cbn; auto.
    intros w [<-|[]]. cbn. auto.
Qed.

(* ================================================================== okt = "built through the manager"
   Closure: whatever the modelled constructors return from okt arguments (and create_node's type
   check accepts) is okt again, provided the PAYLOAD is what Python can pass: sorts of symbols /
   function results / bound variables inhabited (positive BV widths), Real constants with a
   positive denominator (fractions.Fraction), BV constants of positive width, function
   applications with at least one argument, array values with well-sorted, canonically ordered
   index constants (what the dict of Array() and the model's order give).  Pow is excluded (okt
   only admits the exponents Sem.vpow defines). *)
Definition payload_ok (o : op) (args : list term) : bool :=
  match o with
  | OSymbol _ t => inhb t
  | OFunction _ (TFun _ r) => inhb r && negb (Nat.eqb (List.length args) 0)
  | OFunction _ _ => false
  | ORealC _ d => (0 <? d)%Z
  | OBVC _ w => (0 <? w)%Z
  | OPow => false
  | OForall vs | OExists vs => forallb (fun v => inhb (snd v)) vs
  | OArrayValue it => match args with
                      | d :: rest => arr_keys_ok it d rest && match tc (T o args) with Some _ => true | None => false end
                      | [] => false
                      end
  | _ => true
  end.

Lemma bv_pos a w : okt a = true -> tc a = Some (TBV w) -> (0 < w)%Z.
Proof. intros O Tc. pose proof (okt_inhb a _ O Tc) as H. cbn in H. now apply Z.ltb_lt. Qed.

Lemma okt2 o a b : ok_node o [a; b] = true -> okt a = true -> okt b = true -> okt (T o [a; b]) = true.
Proof. intros. apply okt_intro; auto. Qed.
Lemma okt1 o a : ok_node o [a] = true -> okt a = true -> okt (T o [a]) = true.
Proof. intros. apply okt_intro; auto. Qed.

Lemma forallb_okt l : Forall (fun a => okt a = true) l -> forallb okt l = true.
Proof. intros H. apply forallb_forall. now apply Forall_forall. Qed.

Lemma bv_first_ty k w a rest ty : k <> BConcat -> k <> BComp ->
  tc (T (OBV k w) (a :: rest)) = Some ty -> tc a = Some (TBV w).
Proof.
  intros H1 H2 Htc. destruct (tc_inv _ _ _ Htc) as (tys & Hs & Hr).
  cbn [tcs] in Hs. destruct (tc a) as [ta|] eqn:Ta; [|discriminate]. destruct (tcs rest); [|discriminate].
  injection Hs as <-.
  assert (E : ty_eqb ta (TBV w) = true).
  { destruct k; try congruence; cbn in Hr; destruct (ty_eqb ta (TBV w)); auto; discriminate. }
  apply ty_eqb_eq in E. now subst.
Qed.
Lemma bv_node_pos k w a rest ty : k <> BConcat -> k <> BComp -> okt a = true ->
  tc (T (OBV k w) (a :: rest)) = Some ty -> (0 <? w)%Z = true.
Proof. intros H1 H2 Oa Htc. apply Z.ltb_lt. eapply bv_pos; eauto. eapply bv_first_ty; eauto. Qed.
Lemma bv_concat_pos w a b ty : okt a = true -> okt b = true ->
  tc (T (OBV BConcat w) [a; b]) = Some ty -> (0 <? w)%Z = true.
Proof.
  intros Oa Ob Htc. destruct (tc2 _ _ _ _ Htc) as (ta & tb & Ta & Tb & Hr). cbn in Hr.
  destruct ta; try discriminate. destruct tb; try discriminate. destruct (Z.eqb_spec (w0 + w1) w); [|discriminate].
  pose proof (bv_pos a w0 Oa Ta). pose proof (bv_pos b w1 Ob Tb). apply Z.ltb_lt. lia.
Qed.

Theorem ctor_okt : forall o args r,
  is_quant o = None -> payload_ok o args = true -> Forall (fun a => okt a = true) args ->
  checked (rebuild o args) = Some r -> okt r = true.
Proof.
  intros o args r Hq Hp Fo Hc. pose proof Hc as Hc0. apply checked_Some in Hc.
  assert (Htc : exists ty, tc r = Some ty).
  { unfold checked in Hc0. rewrite Hc in Hc0. destruct (tc r) eqn:E; [eauto | discriminate]. }
  destruct Htc as [ty Htc]. pose proof (forallb_okt _ Fo) as Fb.
  destruct o; try discriminate Hq; try discriminate Hp; cbn [rebuild] in Hc.
  - (* and *) injection Hc as <-. unfold mk_and. destruct args as [|x [|y l]]; [reflexivity | now inversion Fo |].
    rewrite okt_unfold. exact Fb.
  - (* or *) injection Hc as <-. unfold mk_or. destruct args as [|x [|y l]]; [reflexivity | now inversion Fo |].
    rewrite okt_unfold. exact Fb.
  - (* not *) destruct args as [|a [|? ?]]; try discriminate. injection Hc as <-. inversion Fo as [|? ? Oa _]; subst.
    unfold mk_not. destruct (is_not a) eqn:Hn; [|now apply okt1].
    destruct a as [oa la]. unfold is_not in Hn. cbn [top] in Hn. destruct oa; try discriminate Hn.
    pose proof (okt_node _ _ Oa) as Hk. cbn [ok_node] in Hk. destruct la as [|y [|? ?]]; try discriminate Hk.
    pose proof (okt_args _ _ Oa) as Fy. now inversion Fy.
  - destruct args as [|a [|b [|? ?]]]; try discriminate. injection Hc as <-. inversion Fo as [|? ? Oa F']; inversion F'; subst. now apply okt2.
  - destruct args as [|a [|b [|? ?]]]; try discriminate. injection Hc as <-. inversion Fo as [|? ? Oa F']; inversion F'; subst. now apply okt2.
  - (* symbol *) destruct args; try discriminate. injection Hc as <-. cbn in Hp |- *. now rewrite Hp.
  - (* function *) unfold mk_function in Hc. cbn [payload_ok] in Hp. destruct t; try discriminate Hp. apply andb_true_iff in Hp. destruct Hp as [Hr Hl].
    destruct args as [|a l]; [cbn in Hl; discriminate Hl|]. clear Hl.
    match type of Hc with (if ?c then _ else _) = _ => destruct c; [|discriminate] end. injection Hc as <-.
    rewrite okt_unfold. cbn [ok_node]. rewrite Hr. cbn [andb negb Nat.eqb List.length]. exact Fb.
  - (* real constant *) destruct args; try discriminate. injection Hc as <-. cbn in Hp. apply Z.ltb_lt in Hp.
    assert (Hd : den <> 0%Z) by lia. now destruct (mk_real_facts num den Hd).
  - destruct args; try discriminate. now injection Hc as <-.
  - destruct args; try discriminate. now injection Hc as <-.
  - destruct args; try discriminate. now injection Hc as <-.
  - (* plus *) unfold mk_plus in Hc. destruct args as [|x [|y l]]; [discriminate | injection Hc as <-; now inversion Fo |].
    injection Hc as <-. rewrite okt_unfold. exact Fb.
  - destruct args as [|a [|b [|? ?]]]; try discriminate. injection Hc as <-. inversion Fo as [|? ? Oa F']; inversion F'; subst. now apply okt2.
  - (* times *) unfold mk_times in Hc. destruct args as [|x [|y l]]; [discriminate | injection Hc as <-; now inversion Fo |].
    injection Hc as <-. rewrite okt_unfold. exact Fb.
  - destruct args as [|a [|b [|? ?]]]; try discriminate. injection Hc as <-. inversion Fo as [|? ? Oa F']; inversion F'; subst. now apply okt2.
  - destruct args as [|a [|b [|? ?]]]; try discriminate. injection Hc as <-. inversion Fo as [|? ? Oa F']; inversion F'; subst. now apply okt2.
  - destruct args as [|a [|b [|? ?]]]; try discriminate. injection Hc as <-. inversion Fo as [|? ? Oa F']; inversion F'; subst. now apply okt2.
  - (* ite *) destruct args as [|c [|a [|b [|? ?]]]]; try discriminate. injection Hc as <-. apply (okt_intro OIte [c; a; b]); [reflexivity | exact Fo].
  - (* toreal *) destruct args as [|a [|? ?]]; try discriminate. inversion Fo as [|? ? Oa _]; subst.
    unfold mk_toreal in Hc. destruct (tc a) as [[]|] eqn:Ta; try discriminate.
    + destruct a as [oa la]. cbn [top] in Hc.
      destruct (match oa with OIntC _ => true | _ => false end) eqn:Hic.
      * destruct oa; try discriminate Hic. injection Hc as <-. assert (H1 : 1%Z <> 0%Z) by lia. now destruct (mk_real_facts z 1 H1).
      * assert (r = T OToReal [T oa la]) by (destruct oa; try discriminate Hic; now injection Hc as <-). subst r. now apply okt1.
    + now injection Hc as <-.
  - (* bv constant *) destruct args; try discriminate. unfold mk_bv in Hc.
    destruct (v <? 0)%Z eqn:E1; [discriminate|]. destruct (2 ^ w <=? v)%Z eqn:E2; [discriminate|]. injection Hc as <-.
    cbn. cbn in Hp. rewrite Hp. apply Z.ltb_ge in E1. apply Z.leb_gt in E2.
    apply Z.leb_le in E1. apply Z.ltb_lt in E2. now rewrite E1, E2.
  - (* bv operators *)
    destruct k; destruct args as [|a [|b [|? ?]]]; cbn [is_bvun] in Hc; try discriminate; injection Hc as <-;
      inversion Fo as [|? ? Oa F']; subst; try (inversion F' as [|? ? Ob _]; subst);
      unfold mk_bvun, mk_bvop, mk_bvconcat, mk_bvcomp in *;
      try (apply okt_intro; [|exact Fo]; cbn [ok_node]; cbn [List.length Nat.eqb];
           first [ match type of Htc with tc (T (OBV ?k0 ?w0) _) = _ =>
                     let H := fresh in
                     assert (H : (0 <? w0)%Z = true) by (eapply (bv_node_pos k0 w0); [discriminate | discriminate | exact Oa | exact Htc]);
                     rewrite H; reflexivity end
                 | rewrite (bv_concat_pos _ _ _ ty Oa Ob Htc); reflexivity
                 | reflexivity ]).
  - destruct args as [|a [|b [|? ?]]]; try discriminate. injection Hc as <-. inversion Fo as [|? ? Oa F']; inversion F'; subst. now apply okt2.
  - (* extract *) destruct args as [|a [|? ?]]; try discriminate. inversion Fo as [|? ? Oa _]; subst. unfold mk_bvextract in Hc.
    destruct ((e <? s)%Z || (s <? 0)%Z) eqn:E1; [discriminate|]. destruct (bv_width a <? e - s + 1)%Z; [discriminate|].
    injection Hc as <-. apply orb_false_iff in E1. destruct E1 as [E1 E2]. apply Z.ltb_ge in E1. apply Z.ltb_ge in E2.
    apply okt1; auto. cbn. apply Z.leb_le in E1. apply Z.leb_le in E2. now rewrite E1, E2.
  - (* rol *) destruct args as [|a [|? ?]]; try discriminate. inversion Fo as [|? ? Oa _]; subst. injection Hc as <-.
    unfold mk_bvrol in *. apply okt1; auto. cbn.
    destruct (tc1 _ _ _ Htc) as (ta & Ta & Hr). cbn in Hr. destruct ta; try (destruct (_ || _); discriminate).
    destruct (_ || _); [discriminate|]. destruct (Z.eqb_spec (bv_width a) w0); [|discriminate].
    apply Z.ltb_lt. rewrite e. eapply bv_pos; eauto.
  - (* ror *) destruct args as [|a [|? ?]]; try discriminate. inversion Fo as [|? ? Oa _]; subst. injection Hc as <-.
    unfold mk_bvror in *. apply okt1; auto. cbn.
    destruct (tc1 _ _ _ Htc) as (ta & Ta & Hr). cbn in Hr. destruct ta; try (destruct (_ || _); discriminate).
    destruct (_ || _); [discriminate|]. destruct (Z.eqb_spec (bv_width a) w0); [|discriminate].
    apply Z.ltb_lt. rewrite e. eapply bv_pos; eauto.
  - (* zext *) destruct args as [|a [|? ?]]; try discriminate. inversion Fo as [|? ? Oa _]; subst. injection Hc as <-.
    apply okt1; auto. cbn. apply Z.eqb_refl.
  - (* sext *) destruct args as [|a [|? ?]]; try discriminate. inversion Fo as [|? ? Oa _]; subst. injection Hc as <-.
    apply okt1; auto. cbn. apply Z.eqb_refl.
  - (* strings *) destruct k; unfold mk_strconcat in Hc;
      try (destruct (Nat.eqb (List.length args) _) eqn:El; [|discriminate]; injection Hc as <-;
           apply okt_intro; [|exact Fo]; cbn [ok_node]; unfold SimplifierSemBase_proofs.str_arity; exact El).
    destruct args as [|x [|y l]]; try discriminate. injection Hc as <-. apply okt_intro; [reflexivity | exact Fo].
  - destruct args as [|a [|b [|? ?]]]; try discriminate. injection Hc as <-. inversion Fo as [|? ? Oa F']; inversion F'; subst. now apply okt2.
  - (* store *) destruct args as [|a [|b [|c [|? ?]]]]; try discriminate. injection Hc as <-. apply (okt_intro OStore [a; b; c]); [reflexivity | exact Fo].
  - (* array value *) destruct args as [|d rest]; [discriminate Hp|]. cbn [payload_ok] in Hp. apply andb_true_iff in Hp. destruct Hp as [Hk Ht].
    destruct (tc (T (OArrayValue it) (d :: rest))) as [ty0|] eqn:Ta; [|discriminate].
    now destruct (r_array_value_sound I0 wfi_I0 it d rest ty0 r Hk Fo Ta Hc) as (A & _).
  - (* div *) destruct args as [|a [|b [|? ?]]]; try discriminate. inversion Fo as [|? ? Oa F']; inversion F' as [|? ? Ob _]; subst.
    unfold mk_div in Hc. destruct (is_zero b) eqn:Hz; [injection Hc as <-; now apply okt2|].
    destruct b as [ob bargs]. cbn [top] in Hc.
    destruct (match ob with ORealC _ _ => true | _ => false end) eqn:Hrc.
    2:{ assert (r = T ODiv [a; T ob bargs]) by (destruct ob; try discriminate Hrc; now injection Hc as <-). subst r. now apply okt2. }
    destruct ob; try discriminate Hrc.
    assert (Hnum : num <> 0%Z). { unfold is_zero in Hz. cbn [top] in Hz. now apply Z.eqb_neq. }
    unfold fr_div in Hc. cbn [fst snd] in Hc. rewrite (proj2 (Z.eqb_neq num 0) Hnum) in Hc. rewrite !Z.mul_1_l in Hc.
    unfold mk_times in Hc. injection Hc as <-.
    assert (Hinv : snd (fr_norm den num) <> 0%Z) by (pose proof (fr_norm_pos den num Hnum); lia).
    destruct (fr_norm den num) as [ni di]. cbn [snd] in Hinv. destruct (mk_real_facts ni di Hinv) as (A & _).
    apply okt2; auto.
  - (* bv2nat *) destruct args as [|a [|? ?]]; try discriminate. injection Hc as <-. inversion Fo; subst. now apply okt1.
Qed.

(* ... and for the quantifier constructors *)
Theorem quant_okt : forall fa vs b r,
  forallb (fun v => inhb (snd v)) vs = true -> okt b = true ->
  checked (Some (mk_quant fa vs b)) = Some r -> okt r = true.
Proof.
  intros fa vs b r Hv Ob Hc. apply checked_Some in Hc. injection Hc as <-.
  destruct vs as [|v0 vs']; [destruct fa; exact Ob|].
  destruct fa; cbn [mk_quant mk_forall mk_exists]; apply okt1; auto; cbn [ok_node List.length Nat.eqb andb]; exact Hv.
Qed.
