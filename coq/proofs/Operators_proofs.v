(* What core/Syntax.v and the hand models assume about pysmt/operators.py, proved against the
   table REGENERATED from the source on every run (gen/Operators.v):
   - the node types are numbered 0..65 without gaps or repetitions, every one has a name;
   - every constructor of Syntax.v's [op] stands for exactly one node type ([nt_of_op] is a total,
     irredundant match - Coq rejects the generated file otherwise) and every node type except
     ALGEBRAIC_CONSTANT has an [op] (witness [rep]);
   - the named groups partition the node types the way the models' case analyses assume;
   - the models' own classification predicates ARE the translated groups. *)
From Coq Require Import List NArith String Bool ZArith.
From PySMT.core Require Import Syntax.
From PySMT.gen Require Import Operators.
Import ListNotations.
Open Scope bool_scope.

Ltac split_kind :=
  match goal with
  | k : bvop |- _ => destruct k
  | k : bvrel |- _ => destruct k
  | k : strop |- _ => destruct k
  end.
Ltac by_op o := destruct o; try reflexivity; split_kind; reflexivity.

Lemma all_node_types_complete : forall n, In n all_node_types.
Proof. intro n. destruct n; vm_compute; tauto. Qed.

Lemma node_type_case (P : node_type -> Prop) : Forall P all_node_types -> forall n, P n.
Proof. intros H n. rewrite Forall_forall in H. apply H, all_node_types_complete. Qed.

(* ids are the positions 0, 1, 2, ...: no gap, no repetition *)
Theorem nt_ids_are_positions :
  map nt_id all_node_types = map N.of_nat (seq 0 (List.length all_node_types)).
Proof. vm_compute. reflexivity. Qed.

Theorem nt_id_injective : forall a b, nt_id a = nt_id b -> a = b.
Proof. intros a b. destruct a; destruct b; vm_compute; intro H; try reflexivity; discriminate H. Qed.

Theorem nt_eqb_eq : forall a b, nt_eqb a b = true <-> a = b.
Proof.
  intros a b. unfold nt_eqb. rewrite N.eqb_eq. split; [apply nt_id_injective | now intros ->].
Qed.

Theorem nt_name_injective : forall a b, nt_name a = nt_name b -> a = b.
Proof.
  intros a b H.
  assert (K : forallb (fun p => Bool.eqb (String.eqb (nt_name (fst p)) (nt_name (snd p))) (nt_eqb (fst p) (snd p)))
                      (list_prod all_node_types all_node_types) = true) by (vm_compute; reflexivity).
  rewrite forallb_forall in K.
  specialize (K (a, b) (in_prod _ _ _ _ (all_node_types_complete a) (all_node_types_complete b))).
  cbn [fst snd] in K. rewrite H, String.eqb_refl in K. apply nt_eqb_eq.
  destruct (nt_eqb a b); [reflexivity | discriminate K].
Qed.

(* every node type that Syntax.v models has an operator; ALGEBRAIC_CONSTANT is the only one left out *)
Definition rep (n : node_type) : option op :=
  match n with
  | NT_FORALL => Some (OForall []) | NT_EXISTS => Some (OExists [])
  | NT_AND => Some OAnd | NT_OR => Some OOr | NT_NOT => Some ONot | NT_IMPLIES => Some OImplies | NT_IFF => Some OIff
  | NT_SYMBOL => Some (OSymbol "" TBool) | NT_FUNCTION => Some (OFunction "" TBool)
  | NT_REAL_CONSTANT => Some (ORealC 0 1) | NT_BOOL_CONSTANT => Some (OBoolC true) | NT_INT_CONSTANT => Some (OIntC 0)
  | NT_STR_CONSTANT => Some (OStrC []) | NT_PLUS => Some OPlus | NT_MINUS => Some OMinus | NT_TIMES => Some OTimes
  | NT_LE => Some OLe | NT_LT => Some OLt | NT_EQUALS => Some OEquals | NT_ITE => Some OIte | NT_TOREAL => Some OToReal
  | NT_BV_CONSTANT => Some (OBVC 0 1)
  | NT_BV_NOT => Some (OBV BNot 1) | NT_BV_AND => Some (OBV BAnd 1) | NT_BV_OR => Some (OBV BOr 1) | NT_BV_XOR => Some (OBV BXor 1)
  | NT_BV_CONCAT => Some (OBV BConcat 1) | NT_BV_EXTRACT => Some (OBVExtract 1 0 0)
  | NT_BV_ULT => Some (OBVRel BUlt) | NT_BV_ULE => Some (OBVRel BUle)
  | NT_BV_NEG => Some (OBV BNeg 1) | NT_BV_ADD => Some (OBV BAdd 1) | NT_BV_SUB => Some (OBV BSub 1) | NT_BV_MUL => Some (OBV BMul 1)
  | NT_BV_UDIV => Some (OBV BUdiv 1) | NT_BV_UREM => Some (OBV BUrem 1) | NT_BV_LSHL => Some (OBV BLshl 1) | NT_BV_LSHR => Some (OBV BLshr 1)
  | NT_BV_ROL => Some (OBVRol 1 0) | NT_BV_ROR => Some (OBVRor 1 0) | NT_BV_ZEXT => Some (OBVZext 1 0) | NT_BV_SEXT => Some (OBVSext 1 0)
  | NT_BV_SLT => Some (OBVRel BSlt) | NT_BV_SLE => Some (OBVRel BSle) | NT_BV_COMP => Some (OBV BComp 1)
  | NT_BV_SDIV => Some (OBV BSdiv 1) | NT_BV_SREM => Some (OBV BSrem 1) | NT_BV_ASHR => Some (OBV BAshr 1)
  | NT_STR_LENGTH => Some (OStr SLength) | NT_STR_CONCAT => Some (OStr SConcat) | NT_STR_CONTAINS => Some (OStr SContains)
  | NT_STR_INDEXOF => Some (OStr SIndexOf) | NT_STR_REPLACE => Some (OStr SReplace) | NT_STR_SUBSTR => Some (OStr SSubstr)
  | NT_STR_PREFIXOF => Some (OStr SPrefixOf) | NT_STR_SUFFIXOF => Some (OStr SSuffixOf) | NT_STR_TO_INT => Some (OStr SToInt)
  | NT_INT_TO_STR => Some (OStr SFromInt) | NT_STR_CHARAT => Some (OStr SCharAt)
  | NT_ARRAY_SELECT => Some OSelect | NT_ARRAY_STORE => Some OStore | NT_ARRAY_VALUE => Some (OArrayValue TBool)
  | NT_DIV => Some ODiv | NT_POW => Some OPow | NT_ALGEBRAIC_CONSTANT => None | NT_BV_TONATURAL => Some OBVToNat
  end.

Theorem nt_of_op_covers : forall n,
  match rep n with Some o => nt_of_op o = n /\ nt_modelled n = true | None => nt_modelled n = false end.
Proof. apply node_type_case. vm_compute. repeat constructor. Qed.

Theorem only_algebraic_constant_unmodelled : forall n, nt_modelled n = false <-> n = NT_ALGEBRAIC_CONSTANT.
Proof. intro n. destruct n; vm_compute; split; intro H; try reflexivity; discriminate H. Qed.

Theorem nt_of_op_modelled : forall o, nt_modelled (nt_of_op o) = true.
Proof. intro o. by_op o. Qed.

(* ---- the groups partition the node types (the asserts of operators.py, re-proved on the translated lists) *)
Definition disjoint (a b : list node_type) : bool := forallb (fun x => negb (nt_in b x)) a.
Definition covers (gs : list (list node_type)) : bool :=
  forallb (fun n => existsb (fun g => nt_in g n) gs) all_node_types.

Theorem groups_cover :
  covers [G_BOOL_OPERATORS; G_THEORY_OPERATORS; G_RELATIONS; G_CONSTANTS; [NT_SYMBOL; NT_FUNCTION; NT_ITE]] = true.
Proof. vm_compute. reflexivity. Qed.

Theorem groups_disjoint :
  disjoint G_BOOL_OPERATORS G_THEORY_OPERATORS = true /\ disjoint G_BOOL_OPERATORS G_RELATIONS = true /\
  disjoint G_BOOL_OPERATORS G_CONSTANTS = true /\ disjoint G_THEORY_OPERATORS G_RELATIONS = true /\
  disjoint G_THEORY_OPERATORS G_CONSTANTS = true /\ disjoint G_RELATIONS G_CONSTANTS = true /\
  disjoint [NT_SYMBOL; NT_FUNCTION; NT_ITE] (G_BOOL_OPERATORS ++ G_THEORY_OPERATORS ++ G_RELATIONS ++ G_CONSTANTS) = true.
Proof. vm_compute. repeat split. Qed.

Definition same_set (a b : list node_type) : bool := forallb (nt_in b) a && forallb (nt_in a) b.

Theorem groups_composition :
  same_set G_BOOL_OPERATORS (G_QUANTIFIERS ++ G_BOOL_CONNECTIVES) = true /\
  same_set G_RELATIONS (NT_EQUALS :: G_BV_RELATIONS ++ G_IRA_RELATIONS ++ G_STR_RELATIONS) = true /\
  same_set G_THEORY_OPERATORS (G_IRA_OPERATORS ++ G_BV_OPERATORS ++ G_ARRAY_OPERATORS ++ G_STR_OPERATORS) = true.
Proof. vm_compute. repeat split. Qed.

(* ---- classification predicates of core/Syntax.v are the translated groups (those of the models: Dispatch_*_proofs) *)

Theorem is_const_is_CONSTANTS : forall o args, is_const (T o args) = nt_in G_CONSTANTS (nt_of_op o).
Proof. intros o args. unfold is_const. cbn [top]. by_op o. Qed.

(* the bit-vector constructors of Syntax.v split the way BV_OPERATORS / BV_RELATIONS do *)
Theorem OBV_is_BV_OPERATORS : forall k w, nt_in G_BV_OPERATORS (nt_of_op (OBV k w)) = true.
Proof. intros k w. destruct k; reflexivity. Qed.
Theorem OBVRel_is_BV_RELATIONS : forall k, nt_in G_BV_RELATIONS (nt_of_op (OBVRel k)) = true.
Proof. intros k. destruct k; reflexivity. Qed.
Theorem OStr_is_STR : forall k, nt_in (G_STR_OPERATORS ++ G_STR_RELATIONS) (nt_of_op (OStr k)) = true.
Proof. intros k. destruct k; reflexivity. Qed.
