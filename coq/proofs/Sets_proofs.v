(* list-as-set helpers of models/Oracles.v *)
From Coq Require Import List Bool.
From PySMT.models Require Import Oracles.
Import ListNotations.

Section SetLemmas.
  Context {A : Type} (eqb : A -> A -> bool).
  Hypothesis eqb_eq : forall a b, eqb a b = true <-> a = b.

  Lemma mem_In x l : mem eqb x l = true <-> In x l.
  Proof.
    unfold mem. rewrite existsb_exists. split.
    - intros (y & Hy & E). apply eqb_eq in E. now subst.
    - intros H. exists x. split; auto. now apply eqb_eq.
  Qed.
  Lemma add_In x y l : In y (add eqb x l) <-> y = x \/ In y l.
  Proof.
    unfold add. destruct (mem eqb x l) eqn:E.
    - apply mem_In in E. split; auto. intros [->|]; auto.
    - rewrite in_app_iff. cbn. intuition (subst; auto).
  Qed.
  Lemma union_In x a b : In x (union eqb a b) <-> In x a \/ In x b.
  Proof.
    unfold union. revert a. induction b as [|y b IH]; intros a; cbn; [tauto|].
    rewrite IH, add_In. intuition (subst; auto).
  Qed.
  Lemma unions_In x ls : In x (unions eqb ls) <-> exists l, In l ls /\ In x l.
  Proof.
    unfold unions.
    assert (G : forall acc, In x (fold_left (union eqb) ls acc) <-> In x acc \/ exists l, In l ls /\ In x l).
    { induction ls as [|l ls IH]; intros acc; cbn.
      - split; auto. intros [|(l & [] & _)]; auto.
      - rewrite IH, union_In. split.
        + intros [[|]|(l' & ? & ?)]; eauto.
        + intros [|(l' & [<-|] & ?)]; eauto. }
    rewrite G. cbn. split; [intros [[]|]; auto | auto].
  Qed.
  Lemma diff_In x a b : In x (diff eqb a b) <-> In x a /\ ~ In x b.
  Proof.
    unfold diff. rewrite filter_In, negb_true_iff. split; intros [H1 H2]; split; auto.
    - intros H. apply mem_In in H. congruence.
    - destruct (mem eqb x b) eqn:E; auto. apply mem_In in E. contradiction.
  Qed.
  Lemma dedupe_In x l : In x (dedupe eqb l) <-> In x l.
  Proof. unfold dedupe. rewrite union_In. cbn. tauto. Qed.
  Lemma subset_spec a b : subset eqb a b = true <-> incl a b.
  Proof.
    unfold subset. rewrite forallb_forall. split; intros H x Hx; [apply mem_In | apply mem_In]; auto.
  Qed.
End SetLemmas.
