(* Proofs about the executable model of the simplifier (models/Simplifier.v).  Syntactic facts
   only: no semantic domain is used here. *)
From Coq Require Import List ZArith Bool String Lia.
From PySMT.core Require Import Syntax PyPrims.
From PySMT.models Require Import TypeChecker Oracles Ctors Simplifier.
Import ListNotations.
Open Scope bool_scope.

(* constants are fixed points, for every order oracle *)
Lemma simplify_constant : forall ora o, 
  match o with OBoolC _ | OIntC _ | ORealC _ _ | OBVC _ _ | OStrC _ => True | _ => False end ->
  simplify_opt ora (T o []) = Some (T o []).
Proof.
  intros ora o H. destruct o; try contradiction; reflexivity.
Qed.
