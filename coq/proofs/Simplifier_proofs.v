(* Proofs about the executable model of the simplifier (models/Simplifier.v).  Syntactic facts
   only: no semantic domain is used here.  Everything holds for EVERY order oracle. *)
From Coq Require Import List ZArith Bool String Lia.
From PySMT.core Require Import Syntax SyntaxLemmas PyPrims.
From PySMT.models Require Import TypeChecker Oracles Ctors Simplifier.
From PySMT.proofs Require Import Sets_proofs.
Import ListNotations.
Open Scope bool_scope.

(* ------------------------------------------------------------------ constants are fixed points *)
Lemma simplify_constant : forall ora o,
  match o with OBoolC _ | OIntC _ | ORealC _ _ | OBVC _ _ | OStrC _ => True | _ => False end ->
  simplify_opt ora (T o []) = Some (T o []).
Proof.
  intros ora o H. destruct o; try contradiction; reflexivity.
Qed.

(* ------------------------------------------------------------------ free symbols: basics *)
(* [sub S t]: every free symbol of t is in S *)
Definition sub (S : list var) (t : term) : Prop := incl (fv t) S.

(* operators whose free symbols are exactly those of their arguments *)
Definition transparent (o : op) : bool :=
  match o with
  | OSymbol _ _ | OFunction _ _ | OForall _ | OExists _
  | OBoolC _ | OIntC _ | ORealC _ _ | OBVC _ _ | OStrC _ => false
  | _ => true
  end.

Lemma In_unions_fv v xs : In v (unions var_eqb (map fv xs)) <-> exists a, In a xs /\ In v (fv a).
Proof.
  rewrite (unions_In var_eqb var_eqb_eq). split.
  - intros (l & Hl & Hv). apply in_map_iff in Hl. destruct Hl as (a & <- & Ha). eauto.
  - intros (a & Ha & Hv). exists (fv a). split; auto. now apply in_map.
Qed.

Lemma fv_transparent o xs : transparent o = true -> fv (T o xs) = unions var_eqb (map fv xs).
Proof. destruct o; cbn; try discriminate; reflexivity. Qed.

Lemma sub_node S o xs : transparent o = true -> (sub S (T o xs) <-> Forall (sub S) xs).
Proof.
  intros Ho. unfold sub. rewrite (fv_transparent _ _ Ho). rewrite Forall_forall. split.
  - intros H a Ha v Hv. apply H. apply In_unions_fv. eauto.
  - intros H v Hv. apply In_unions_fv in Hv. destruct Hv as (a & Ha & Hv). exact (H a Ha v Hv).
Qed.

Lemma sub_node_intro S o xs : transparent o = true -> Forall (sub S) xs -> sub S (T o xs).
Proof. intros Ho H. now apply sub_node. Qed.
Lemma sub_node_elim S o xs : transparent o = true -> sub S (T o xs) -> Forall (sub S) xs.
Proof. intros Ho H. now apply (sub_node S o xs Ho). Qed.

Lemma sub_closed S o xs :
  match o with OBoolC _ | OIntC _ | ORealC _ _ | OBVC _ _ | OStrC _ => True | _ => False end ->
  sub S (T o xs).
Proof. destruct o; try contradiction; intros _ x Hx; cbn in Hx; contradiction. Qed.

Lemma sub_arg S a i : transparent (top a) = true -> sub S a -> sub S (arg a i).
Proof.
  destruct a as [o xs]. cbn [top]. intros Ho H. unfold arg. cbn [targs].
  pose proof (sub_node_elim S o xs Ho H) as F. rewrite Forall_forall in F.
  destruct (nth_in_or_default i xs (T o xs)) as [Hin | ->]; auto.
Qed.

#[export] Hint Resolve sub_node_intro sub_closed : subdb.

(* constants built by the constructors *)
Lemma sub_mk_bool S b : sub S (mk_bool b). Proof. now apply sub_closed. Qed.
Lemma sub_mk_int S z : sub S (mk_int z). Proof. now apply sub_closed. Qed.
Lemma sub_mk_real S f : sub S (mk_real f).
Proof. unfold mk_real. destruct (fr_norm (fst f) (snd f)). now apply sub_closed. Qed.
Lemma sub_mk_string S s : sub S (mk_string s). Proof. now apply sub_closed. Qed.
Lemma sub_TTrue S : sub S TTrue. Proof. now apply sub_closed. Qed.
Lemma sub_TFalse S : sub S TFalse. Proof. now apply sub_closed. Qed.
Lemma sub_mk_bv S v w r : mk_bv v w = Some r -> sub S r.
Proof.
  unfold mk_bv. destruct (v <? 0)%Z; [discriminate|]. destruct (2 ^ w <=? v)%Z; [discriminate|].
  intros H; inversion H. now apply sub_closed.
Qed.
Lemma sub_mk_bvzero S w r : mk_bvzero w = Some r -> sub S r.
Proof. apply sub_mk_bv. Qed.
Lemma sub_mk_bv_bits S bits w r : mk_bv_bits bits w = Some r -> sub S r.
Proof.
  unfold mk_bv_bits. destruct (int_of_bits bits); [|discriminate].
  destruct w as [w'|]; [destruct (w' =? zlen bits)%Z; [|discriminate]|]; apply sub_mk_bv.
Qed.
#[export] Hint Resolve sub_mk_bool sub_mk_int sub_mk_real sub_mk_string sub_TTrue sub_TFalse : subdb.
#[export] Hint Immediate sub_mk_bv sub_mk_bvzero sub_mk_bv_bits : subdb.

(* ------------------------------------------------------------------ tactics *)
Ltac sub_tac :=
  repeat match goal with
         | H : sub ?S ?t |- sub ?S ?t => exact H
         | |- sub _ (T _ _) => apply sub_node_intro; [reflexivity | ]
         | H : Forall ?P ?l |- Forall ?P ?l => exact H
         | |- Forall _ (_ :: _) => constructor
         | |- Forall _ [] => constructor
         end; eauto with subdb.

Ltac destr_in H :=
  match type of H with
  | context [match ?x with _ => _ end] => destruct x eqn:?
  end.
(* case analysis on every match / if of a hypothesis [rule ... = Some r] *)
Ltac crush H :=
  repeat (destr_in H; try discriminate H);
  try discriminate H;
  try match type of H with Some _ = Some _ => inversion H; subst; clear H end.

(* ------------------------------------------------------------------ constructors *)
Lemma is_not_top a : is_not a = true -> top a = ONot.
Proof. unfold is_not. destruct (top a); try discriminate; auto. Qed.
Lemma is_and_top a : is_and a = true -> top a = OAnd.
Proof. unfold is_and. destruct (top a); try discriminate; auto. Qed.
Lemma is_or_top a : is_or a = true -> top a = OOr.
Proof. unfold is_or. destruct (top a); try discriminate; auto. Qed.
Lemma is_minus_top a : is_minus a = true -> top a = OMinus.
Proof. unfold is_minus. destruct (top a); try discriminate; auto. Qed.

Lemma sub_targs S a : transparent (top a) = true -> sub S a -> Forall (sub S) (targs a).
Proof. destruct a as [o xs]. cbn. apply sub_node_elim. Qed.

Lemma sub_mk_not S a : sub S a -> sub S (mk_not a).
Proof.
  intros H. unfold mk_not. destruct (is_not a) eqn:E.
  - apply sub_arg; auto. now rewrite (is_not_top _ E).
  - sub_tac.
Qed.
Lemma sub_mk_and S l : Forall (sub S) l -> sub S (mk_and l).
Proof.
  intros H. unfold mk_and. destruct l as [|x [|y r]]; [sub_tac | now inversion H | now apply sub_node_intro].
Qed.
Lemma sub_mk_or S l : Forall (sub S) l -> sub S (mk_or l).
Proof.
  intros H. unfold mk_or. destruct l as [|x [|y r]]; [sub_tac | now inversion H | now apply sub_node_intro].
Qed.
Lemma sub_mk_plus S l r : mk_plus l = Some r -> Forall (sub S) l -> sub S r.
Proof.
  unfold mk_plus. destruct l as [|x [|y t]]; intros E H; inversion E; subst; [now inversion H | now apply sub_node_intro].
Qed.
Lemma sub_mk_times S l r : mk_times l = Some r -> Forall (sub S) l -> sub S r.
Proof.
  unfold mk_times. destruct l as [|x [|y t]]; intros E H; inversion E; subst; [now inversion H | now apply sub_node_intro].
Qed.
Lemma sub_mk_bin S (f : term -> term -> term) a b :
  (exists o, transparent o = true /\ forall a b, f a b = T o [a; b]) -> sub S a -> sub S b -> sub S (f a b).
Proof. intros (o & Ho & E) Ha Hb. rewrite E. apply sub_node_intro; auto. Qed.
Lemma sub_mk_div S a b r : mk_div a b = Some r -> sub S a -> sub S b -> sub S r.
Proof.
  unfold mk_div. intros E Ha Hb. crush E; try sub_tac.
  eapply sub_mk_times; eauto. sub_tac.
Qed.
Lemma sub_mk_pow S a b r : mk_pow a b = Some r -> sub S a -> sub S b -> sub S r.
Proof. unfold mk_pow. intros E Ha Hb. crush E; sub_tac. Qed.
Lemma sub_mk_toreal S a r : mk_toreal a = Some r -> sub S a -> sub S r.
Proof. unfold mk_toreal. intros E Ha. crush E; sub_tac. Qed.
Lemma sub_mk_bvextract S a s e r : mk_bvextract a s e = Some r -> sub S a -> sub S r.
Proof. unfold mk_bvextract. intros E Ha. crush E; sub_tac. Qed.
Lemma sub_mk_strconcat S l r : mk_strconcat l = Some r -> Forall (sub S) l -> sub S r.
Proof. unfold mk_strconcat. intros E H. crush E; sub_tac. Qed.
Lemma sub_mk_strop S k l : Forall (sub S) l -> sub S (mk_strop k l).
Proof. intros H. unfold mk_strop. sub_tac. Qed.

#[export] Hint Resolve sub_mk_not sub_mk_and sub_mk_or sub_mk_strop : subdb.
#[export] Hint Extern 1 (sub _ (mk_implies _ _)) => unfold mk_implies; sub_tac : subdb.
#[export] Hint Extern 1 (sub _ (mk_iff _ _)) => unfold mk_iff; sub_tac : subdb.
#[export] Hint Extern 1 (sub _ (mk_equals _ _)) => unfold mk_equals; sub_tac : subdb.
#[export] Hint Extern 1 (sub _ (mk_ite _ _ _)) => unfold mk_ite; sub_tac : subdb.
#[export] Hint Extern 1 (sub _ (mk_le _ _)) => unfold mk_le; sub_tac : subdb.
#[export] Hint Extern 1 (sub _ (mk_lt _ _)) => unfold mk_lt; sub_tac : subdb.
#[export] Hint Extern 1 (sub _ (mk_minus _ _)) => unfold mk_minus; sub_tac : subdb.
#[export] Hint Extern 1 (sub _ (mk_bvop _ _ _)) => unfold mk_bvop; sub_tac : subdb.
#[export] Hint Extern 1 (sub _ (mk_bvun _ _)) => unfold mk_bvun; sub_tac : subdb.
#[export] Hint Extern 1 (sub _ (mk_bvconcat _ _)) => unfold mk_bvconcat; sub_tac : subdb.
#[export] Hint Extern 1 (sub _ (mk_bvcomp _ _)) => unfold mk_bvcomp; sub_tac : subdb.
#[export] Hint Extern 1 (sub _ (mk_bvrel _ _ _)) => unfold mk_bvrel; sub_tac : subdb.
#[export] Hint Extern 1 (sub _ (mk_bvrol _ _)) => unfold mk_bvrol; sub_tac : subdb.
#[export] Hint Extern 1 (sub _ (mk_bvror _ _)) => unfold mk_bvror; sub_tac : subdb.
#[export] Hint Extern 1 (sub _ (mk_bvzext _ _)) => unfold mk_bvzext; sub_tac : subdb.
#[export] Hint Extern 1 (sub _ (mk_bvsext _ _)) => unfold mk_bvsext; sub_tac : subdb.
#[export] Hint Extern 1 (sub _ (mk_select _ _)) => unfold mk_select; sub_tac : subdb.
#[export] Hint Extern 1 (sub _ (mk_store _ _ _)) => unfold mk_store; sub_tac : subdb.
#[export] Hint Immediate sub_mk_bvextract sub_mk_toreal : subdb.

(* ------------------------------------------------------------------ Boolean rules *)
Lemma sub_r_not S a : sub S a -> sub S (r_not a).
Proof.
  intros H. unfold r_not. destruct (top a) eqn:E; auto with subdb.
  apply sub_arg; auto. now rewrite E.
Qed.
#[export] Hint Resolve sub_r_not : subdb.

Lemma Forall_add S s acc : sub S s -> Forall (sub S) acc -> Forall (sub S) (add term_eqb s acc).
Proof.
  intros Hs Ha. unfold add. destruct (mem term_eqb s acc); auto.
  apply Forall_app. split; auto.
Qed.
Lemma sub_add_lits S ls : forall acc l, Forall (sub S) ls -> Forall (sub S) acc ->
  add_lits ls acc = Some l -> Forall (sub S) l.
Proof.
  induction ls as [|s r IH]; intros acc l Hls Hacc E; cbn in E.
  - now inversion E; subst.
  - inversion Hls; subst. destruct (mem term_eqb (r_not s) acc); [discriminate|].
    apply (IH (add term_eqb s acc) l); auto. now apply Forall_add.
Qed.
Lemma sub_nary_loop S skip absorb flat :
  (forall a, flat a = true -> transparent (top a) = true) ->
  forall args acc l, Forall (sub S) args -> Forall (sub S) acc ->
  nary_loop skip absorb flat args acc = Some l -> Forall (sub S) l.
Proof.
  intros Hflat. induction args as [|a r IH]; intros acc l Hargs Hacc E; cbn in E.
  - now inversion E; subst.
  - inversion Hargs; subst. destruct (skip a); [eauto|]. destruct (absorb a); [discriminate|].
    destruct (add_lits (if flat a then targs a else [a]) acc) as [acc'|] eqn:E2; [|discriminate].
    apply (IH acc' l); auto. eapply sub_add_lits; [| exact Hacc | exact E2].
    destruct (flat a) eqn:F; [apply sub_targs; auto | auto].
Qed.

(* permutations found by perm_eqb *)
Lemma remove_first_spec {A} (eqb : A -> A -> bool) (Heq : forall a b, eqb a b = true -> a = b) x :
  forall l l', remove_first eqb x l = Some l' ->
  In x l /\ incl l' l /\ (forall z, In z l -> z = x \/ In z l').
Proof.
  induction l as [|y r IH]; intros l' E; cbn in E; [discriminate|].
  destruct (eqb x y) eqn:Exy.
  - inversion E; subst. apply Heq in Exy. subst. repeat split; cbn; auto.
    + intros z Hz. cbn. auto.
    + intros z [<-|Hz]; auto.
  - destruct (remove_first eqb x r) as [r'|] eqn:E2; [|discriminate]. inversion E; subst.
    destruct (IH _ eq_refl) as (H1 & H2 & H3). repeat split; cbn; auto.
    + intros z [<-|Hz]; cbn; auto.
    + intros z [<-|Hz]; cbn; auto. destruct (H3 z Hz); auto.
Qed.
Lemma perm_eqb_incl {A} (eqb : A -> A -> bool) (Heq : forall a b, eqb a b = true -> a = b) :
  forall l1 l2, perm_eqb eqb l1 l2 = true -> incl l1 l2 /\ incl l2 l1.
Proof.
  induction l1 as [|x r IH]; intros l2 E; cbn in E.
  - destruct l2; [|discriminate]. split; intros z Hz; auto.
  - destruct (remove_first eqb x l2) as [l2'|] eqn:E2; [|discriminate].
    destruct (remove_first_spec eqb Heq x _ _ E2) as (H1 & H2 & H3).
    destruct (IH _ E) as (I1 & I2). split.
    + intros z [<-|Hz]; auto.
    + intros z Hz. destruct (H3 z Hz) as [->|Hz']; cbn; auto.
Qed.
Lemma term_eqb_sound a b : term_eqb a b = true -> a = b.
Proof. apply term_eqb_eq. Qed.
Lemma terms_eqb_sound l1 l2 : list_eqb term_eqb l1 l2 = true -> l1 = l2.
Proof. apply list_eqb_eq. apply Forall_forall. intros x _ y. apply term_eqb_eq. Qed.
Lemma var_eqb_sound a b : var_eqb a b = true -> a = b.
Proof. apply var_eqb_eq. Qed.

Lemma sub_same_upto_order S r r' : same_upto_order r r' = true -> sub S r -> sub S r'.
Proof.
  destruct r as [o l], r' as [o' l']. unfold same_upto_order. intros E H.
  destruct o; try discriminate; destruct o'; try discriminate.
  - (* Forall *)
    apply andb_true_iff in E. destruct E as [Ev El].
    apply terms_eqb_sound in El. subst l'.
    destruct (perm_eqb_incl var_eqb var_eqb_sound _ _ Ev) as (I1 & I2).
    intros x Hx. apply H. cbn [fv] in *.
    apply (diff_In var_eqb var_eqb_eq) in Hx. destruct Hx as [Hx Hn].
    apply (diff_In var_eqb var_eqb_eq). split; auto.
  - apply andb_true_iff in E. destruct E as [Ev El].
    apply terms_eqb_sound in El. subst l'.
    destruct (perm_eqb_incl var_eqb var_eqb_sound _ _ Ev) as (I1 & I2).
    intros x Hx. apply H. cbn [fv] in *.
    apply (diff_In var_eqb var_eqb_eq) in Hx. destruct Hx as [Hx Hn].
    apply (diff_In var_eqb var_eqb_eq). split; auto.
  - destruct (perm_eqb_incl term_eqb term_eqb_sound _ _ E) as (I1 & I2).
    apply sub_node_intro; auto. apply sub_node_elim in H; auto.
    rewrite Forall_forall in *. auto.
  - destruct (perm_eqb_incl term_eqb term_eqb_sound _ _ E) as (I1 & I2).
    apply sub_node_intro; auto. apply sub_node_elim in H; auto.
    rewrite Forall_forall in *. auto.
  - destruct (perm_eqb_incl term_eqb term_eqb_sound _ _ E) as (I1 & I2).
    apply sub_node_intro; auto. apply sub_node_elim in H; auto.
    rewrite Forall_forall in *. auto.
Qed.
Lemma sub_reorder S ora o args r : sub S r -> sub S (reorder ora o args r).
Proof.
  intros H. unfold reorder. destruct (ora o args) as [r'|]; auto.
  destruct (same_upto_order r r') eqn:E; auto. eapply sub_same_upto_order; eauto.
Qed.
#[export] Hint Resolve sub_reorder : subdb.

Lemma sub_same_pair S args a : same_pair args = Some a -> Forall (sub S) args -> sub S a.
Proof.
  unfold same_pair. destruct args as [|x [|y [|z t]]]; try discriminate.
  destruct (term_eqb x y); [|discriminate]. intros E H. inversion E; subst. now inversion H.
Qed.
Lemma sub_r_and S ora args : Forall (sub S) args -> sub S (r_and ora args).
Proof.
  intros H. unfold r_and. destruct (same_pair args) eqn:E; [eapply sub_same_pair; eauto|].
  destruct (nary_loop is_true is_false is_and args []) eqn:E2; auto with subdb.
  apply sub_reorder. apply sub_mk_and. eapply sub_nary_loop; [| exact H | constructor | exact E2].
  intros a Ha. now rewrite (is_and_top _ Ha).
Qed.
Lemma sub_r_or S ora args : Forall (sub S) args -> sub S (r_or ora args).
Proof.
  intros H. unfold r_or. destruct (same_pair args) eqn:E; [eapply sub_same_pair; eauto|].
  destruct (nary_loop is_false is_true is_or args []) eqn:E2; auto with subdb.
  apply sub_reorder. apply sub_mk_or. eapply sub_nary_loop; [| exact H | constructor | exact E2].
  intros a Ha. now rewrite (is_or_top _ Ha).
Qed.
Lemma sub_r_iff S a b : sub S a -> sub S b -> sub S (r_iff a b).
Proof. intros Ha Hb. unfold r_iff. destruct (top a); destruct (top b); try destruct b0; try destruct b1; try destruct (term_eqb a b); auto with subdb. Qed.
Lemma sub_r_implies S a b : sub S a -> sub S b -> sub S (r_implies a b).
Proof. intros Ha Hb. unfold r_implies. destruct (top a); destruct (top b); try destruct b0; try destruct b1; try destruct (term_eqb a b); auto with subdb. Qed.
Lemma sub_r_equals S a b r : r_equals a b = Some r -> sub S a -> sub S b -> sub S r.
Proof. unfold r_equals. intros E Ha Hb. crush E; auto with subdb. Qed.
Lemma sub_r_ite S c a b : sub S c -> sub S a -> sub S b -> sub S (r_ite c a b).
Proof. intros Hc Ha Hb. unfold r_ite. destruct (term_eqb a b); auto. destruct (top c); try destruct b0; auto with subdb. Qed.
Lemma sub_num_cmp S f a b r : num_cmp f a b = Some r -> sub S r.
Proof. unfold num_cmp. intros E. crush E; auto with subdb. Qed.
Lemma sub_r_le S a b r : r_le a b = Some r -> sub S a -> sub S b -> sub S r.
Proof.
  unfold r_le. intros E Ha Hb.
  destruct (is_constant a && is_constant b); [eapply sub_num_cmp; eauto|].
  destruct (is_zero a && is_minus b) eqn:E1.
  - apply andb_true_iff in E1. destruct E1 as [_ Em]. inversion E; subst.
    unfold mk_le. sub_tac; apply sub_arg; auto; now rewrite (is_minus_top _ Em).
  - destruct (is_zero b && is_minus b) eqn:E2.
    + apply andb_true_iff in E2. destruct E2 as [_ Em]. inversion E; subst.
      unfold mk_le. sub_tac; apply sub_arg; auto; now rewrite (is_minus_top _ Em).
    + inversion E; subst. auto with subdb.
Qed.
Lemma sub_r_lt S a b r : r_lt a b = Some r -> sub S a -> sub S b -> sub S r.
Proof.
  unfold r_lt. intros E Ha Hb. destruct (is_constant a && is_constant b); [eapply sub_num_cmp; eauto|].
  inversion E; subst; auto with subdb.
Qed.

(* ------------------------------------------------------------------ arithmetic rules *)
Lemma sub_const_of_type S ty v c : const_of_type ty v = Some c -> sub S c.
Proof. unfold const_of_type. intros E. crush E; auto with subdb. Qed.
#[export] Hint Immediate sub_const_of_type : subdb.

Definition PS (S : list var) (st : pstate) : Prop :=
  Forall (sub S) (to_sum st) /\ Forall (sub S) (to_sub st).
Lemma PS_sum S st x : PS S st -> sub S x -> PS S (p_sum st x).
Proof. intros [H1 H2] Hx. split; cbn; auto. apply Forall_app; auto. Qed.
Lemma PS_sub S st x : PS S st -> sub S x -> PS S (p_sub st x).
Proof. intros [H1 H2] Hx. split; cbn; auto. apply Forall_app; auto. Qed.
Lemma PS_err S st : PS S st -> PS S (p_err st).
Proof. intros [H1 H2]. split; cbn; auto. Qed.
Lemma Forall_removelast {A} (P : A -> Prop) l : Forall P l -> Forall P (removelast l).
Proof.
  induction 1 as [|x r Hx Hr IH]; cbn; auto. destruct r; auto.
Qed.

Lemma sub_plus_walk S ttype : forall x st, sub S x -> PS S st -> PS S (plus_walk ttype x st).
Proof.
  induction x as [o xs IH] using term_ind'. intros st Hx Hst.
  cbn [plus_walk]. destruct (is_constant (T o xs)).
  { destruct (num_value (T o xs)); [destruct Hst; split; cbn; auto | now apply PS_err]. }
  destruct o; try (apply PS_sum; auto; fail).
  - (* Plus *)
    pose proof (sub_node_elim S OPlus xs eq_refl Hx) as Hxs. clear Hx.
    revert st Hst. induction xs as [|y r IHr]; intros st Hst; auto.
    inversion IH; subst. inversion Hxs; subst. apply H1; auto.
  - (* Minus *)
    pose proof (sub_node_elim S OMinus xs eq_refl Hx) as Hxs.
    destruct xs as [|a [|b r]]; try (now apply PS_err).
    inversion Hxs; subst. inversion H2; subst. apply PS_sub; auto. apply PS_sum; auto.
  - (* Times *)
    pose proof (sub_node_elim S OTimes xs eq_refl Hx) as Hxs.
    destruct (last_opt xs) as [c|]; [|apply PS_sum; auto].
    destruct (is_constant c); [|apply PS_sum; auto].
    destruct (num_value c) as [cv|]; [|now apply PS_err].
    destruct (fr_ltb cv (0%Z, 1%Z)); [|apply PS_sum; auto].
    destruct (fr_eqb cv ((-1)%Z, 1%Z)).
    + destruct (mk_times (removelast xs)) eqn:E; [|now apply PS_err].
      apply PS_sub; auto. eapply sub_mk_times; eauto. now apply Forall_removelast.
    + destruct (const_of_type ttype (fr_neg cv)) eqn:Ec; [|now apply PS_err].
      destruct (mk_times (removelast xs ++ [t])) eqn:E; [|now apply PS_err].
      apply PS_sub; auto. eapply sub_mk_times; eauto. apply Forall_app. split.
      * now apply Forall_removelast.
      * constructor; eauto with subdb.
Qed.

Lemma sub_r_plus S args r : r_plus args = Some r -> Forall (sub S) args -> sub S r.
Proof.
  unfold r_plus. destruct args as [|a0 rest]; [discriminate|]. intros E Hargs.
  set (ttype := tc a0) in *.
  set (st := fold_right (plus_walk ttype) _ (a0 :: rest)) in *.
  assert (Hst : PS S st).
  { subst st. generalize (a0 :: rest) Hargs. induction l as [|x l IH]; intros Hl; cbn.
    - split; constructor.
    - inversion Hl; subst. apply sub_plus_walk; auto. }
  destruct Hst as [Hsum Hsub]. clearbody st.
  destruct (perr st); [discriminate|]. unfold bind in E.
  destruct (const_of_type ttype (cadd st)) as [constant|] eqn:Ec; [|discriminate].
  assert (Hc : sub S constant) by eauto with subdb.
  assert (Hts : Forall (sub S) (if is_zero constant then to_sum st else to_sum st ++ [constant])).
  { destruct (is_zero constant); auto. apply Forall_app; auto. }
  destruct (to_sum st) as [|s1 sr] eqn:Es; destruct (to_sub st) as [|b1 br] eqn:Eb.
  - inversion E; subst; auto.
  - destruct (mk_plus (b1 :: br)) as [sb|] eqn:Esb; [|discriminate].
    assert (Hsb : sub S sb) by (eapply sub_mk_plus; eauto).
    destruct (if is_zero constant then [] else [] ++ [constant]) eqn:Ets.
    + destruct (const_of_type ttype ((-1)%Z, 1%Z)) eqn:Em; [|discriminate].
      eapply sub_mk_times; eauto. sub_tac.
    + destruct (mk_plus (t :: l)) eqn:Ep; [|discriminate]. inversion E; subst.
      unfold mk_minus. sub_tac. eapply sub_mk_plus; eauto.
  - eapply sub_mk_plus; eauto.
  - destruct (mk_plus (b1 :: br)) as [sb|] eqn:Esb; [|discriminate].
    assert (Hsb : sub S sb) by (eapply sub_mk_plus; eauto).
    destruct (if is_zero constant then s1 :: sr else (s1 :: sr) ++ [constant]) eqn:Ets.
    + destruct (const_of_type ttype ((-1)%Z, 1%Z)) eqn:Em; [|discriminate].
      eapply sub_mk_times; eauto. sub_tac.
    + destruct (mk_plus (t :: l)) eqn:Ep; [|discriminate]. inversion E; subst.
      unfold mk_minus. sub_tac. eapply sub_mk_plus; eauto.
Qed.

Lemma sub_times_walk S : forall x st, sub S x -> Forall (sub S) (t_args st) ->
  Forall (sub S) (t_args (times_walk x st)).
Proof.
  induction x as [o xs IH] using term_ind'. intros st Hx Hst.
  cbn [times_walk]. destruct (is_constant (T o xs)).
  { destruct (is_zero (T o xs)); cbn; auto. destruct (num_value (T o xs)); cbn; auto. }
  destruct o; try (cbn; apply Forall_app; split; auto; fail).
  pose proof (sub_node_elim S OTimes xs eq_refl Hx) as Hxs. clear Hx.
  revert st Hst. induction xs as [|y r IHr]; intros st Hst; auto.
  inversion IH; subst. inversion Hxs; subst. apply H1; auto.
Qed.
Lemma sub_r_times S ora args r : r_times ora args = Some r -> Forall (sub S) args -> sub S r.
Proof.
  unfold r_times. destruct args as [|a0 rest]; [discriminate|]. intros E Hargs.
  set (ttype := tc a0) in *.
  set (st := fold_right times_walk _ (a0 :: rest)) in *.
  assert (Hst : Forall (sub S) (t_args st)).
  { subst st. generalize (a0 :: rest) Hargs. induction l as [|x l IH]; intros Hl; cbn.
    - constructor.
    - inversion Hl; subst. apply sub_times_walk; auto. }
  clearbody st.
  destruct (tzero st); [eauto with subdb|]. destruct (terr st); [discriminate|].
  unfold bind in E. destruct (const_of_type ttype (cmul st)) as [const|] eqn:Ec; [|discriminate].
  assert (Hc : sub S const) by eauto with subdb.
  destruct (is_zero const); [inversion E; subst; auto|].
  destruct (t_args st) as [|t1 tr] eqn:Et; [inversion E; subst; auto|].
  destruct (mk_times (if is_one const then t1 :: tr else (t1 :: tr) ++ [const])) eqn:Em; [|discriminate].
  inversion E; subst. apply sub_reorder. eapply sub_mk_times; eauto.
  destruct (is_one const); auto. apply Forall_app; auto.
Qed.

Lemma sub_r_pow S a e r : r_pow a e = Some r -> sub S a -> sub S e -> sub S r.
Proof.
  unfold r_pow, bind. intros E Ha He.
  destruct (num_value a); [|eapply sub_mk_pow; eauto].
  destruct (constant_value e) as [[p| |]|]; try discriminate.
  destruct (negb (fst f =? 0)%Z || fr_leb (0%Z, 1%Z) p); [|eapply sub_mk_pow; eauto].
  crush E; auto with subdb.
Qed.
Lemma sub_r_minus S a b r : r_minus a b = Some r -> sub S a -> sub S b -> sub S r.
Proof.
  unfold r_minus. intros E Ha Hb.
  destruct (top a); destruct (top b); crush E; auto with subdb.
Qed.
Lemma sub_r_toreal S a r : r_toreal a = Some r -> sub S a -> sub S r.
Proof. unfold r_toreal. intros E Ha. crush E; eauto with subdb. Qed.
Lemma sub_r_div S a b r : r_div a b = Some r -> sub S a -> sub S b -> sub S r.
Proof.
  unfold r_div, bind. intros E Ha Hb.
  destruct (is_constant a && is_constant b && negb (is_zero b)).
  { crush E; auto with subdb. }
  destruct (is_constant a && is_zero a); [inversion E; subst; auto|].
  destruct (is_constant b && is_one b); [inversion E; subst; auto|].
  eapply sub_mk_div; eauto.
Qed.

(* ------------------------------------------------------------------ bit-vector rules *)
Ltac bv_rule E := unfold bind in E; crush E; eauto with subdb.

Lemma sub_r_bv_and S w a b r : r_bv_and w a b = Some r -> sub S a -> sub S b -> sub S r.
Proof. unfold r_bv_and. intros E Ha Hb. bv_rule E. Qed.
Lemma sub_r_bv_not S w a r : r_bv_not w a = Some r -> sub S a -> sub S r.
Proof. unfold r_bv_not. intros E Ha. bv_rule E. Qed.
Lemma sub_r_bv_neg S w a r : r_bv_neg w a = Some r -> sub S a -> sub S r.
Proof. unfold r_bv_neg. intros E Ha. bv_rule E. Qed.
Lemma sub_r_bv_or S w a b r : r_bv_or w a b = Some r -> sub S a -> sub S b -> sub S r.
Proof. unfold r_bv_or. intros E Ha Hb. bv_rule E. Qed.
Lemma sub_r_bv_xor S w a b r : r_bv_xor w a b = Some r -> sub S a -> sub S b -> sub S r.
Proof. unfold r_bv_xor. intros E Ha Hb. bv_rule E. Qed.
Lemma sub_r_bv_add S w a b r : r_bv_add w a b = Some r -> sub S a -> sub S b -> sub S r.
Proof. unfold r_bv_add. intros E Ha Hb. bv_rule E. Qed.
Lemma sub_r_bv_mul S w a b r : r_bv_mul w a b = Some r -> sub S a -> sub S b -> sub S r.
Proof. unfold r_bv_mul. intros E Ha Hb. bv_rule E. Qed.
Lemma sub_r_bv_udiv S w a b r : r_bv_udiv w a b = Some r -> sub S a -> sub S b -> sub S r.
Proof. unfold r_bv_udiv. intros E Ha Hb. bv_rule E. Qed.
Lemma sub_r_bv_urem S w a b r : r_bv_urem w a b = Some r -> sub S a -> sub S b -> sub S r.
Proof. unfold r_bv_urem. intros E Ha Hb. bv_rule E. Qed.
Lemma sub_r_bv_ult S a b r : r_bv_ult a b = Some r -> sub S a -> sub S b -> sub S r.
Proof. unfold r_bv_ult. intros E Ha Hb. bv_rule E. Qed.
Lemma sub_r_bv_ule S a b r : r_bv_ule a b = Some r -> sub S a -> sub S b -> sub S r.
Proof. unfold r_bv_ule. intros E Ha Hb. bv_rule E. Qed.
Lemma sub_r_bv_extract S s e a r : r_bv_extract s e a = Some r -> sub S a -> sub S r.
Proof. unfold r_bv_extract. intros E Ha. bv_rule E. Qed.
Lemma sub_r_bv_ror S k a r : r_bv_ror k a = Some r -> sub S a -> sub S r.
Proof. unfold r_bv_ror. intros E Ha. bv_rule E. Qed.
Lemma sub_r_bv_rol S k a r : r_bv_rol k a = Some r -> sub S a -> sub S r.
Proof. unfold r_bv_rol. intros E Ha. bv_rule E. Qed.
Lemma sub_r_bv_sext S w k a r : r_bv_sext w k a = Some r -> sub S a -> sub S r.
Proof. unfold r_bv_sext. intros E Ha. bv_rule E. Qed.
Lemma sub_r_bv_zext S w k a r : r_bv_zext w k a = Some r -> sub S a -> sub S r.
Proof. unfold r_bv_zext. intros E Ha. bv_rule E. Qed.
Lemma sub_r_bv_concat S a b r : r_bv_concat a b = Some r -> sub S a -> sub S b -> sub S r.
Proof. unfold r_bv_concat. intros E Ha Hb. destruct (top a); destruct (top b); bv_rule E. Qed.
Lemma sub_r_bv_shift S k sh a b r : r_bv_shift k sh a b = Some r -> sub S a -> sub S b -> sub S r.
Proof. unfold r_bv_shift. intros E Ha Hb. bv_rule E. Qed.
Lemma sub_r_bv_sub S w a b r : r_bv_sub w a b = Some r -> sub S a -> sub S b -> sub S r.
Proof.
  unfold r_bv_sub. intros E Ha Hb.
  destruct (bv_value b) as [rhs|].
  - destruct (rhs =? 0)%Z; [inversion E; subst; auto|].
    destruct (bv_value a); [eauto with subdb|].
    destruct (term_eqb a b); [eauto with subdb | inversion E; subst; auto with subdb].
  - destruct (term_eqb a b); [eauto with subdb | inversion E; subst; auto with subdb].
Qed.
Lemma sub_r_bv_scmp S k f refl a b r : r_bv_scmp k f refl a b = Some r -> sub S a -> sub S b -> sub S r.
Proof. unfold r_bv_scmp. intros E Ha Hb. bv_rule E. Qed.
Lemma sub_r_bv_comp S a b r : r_bv_comp a b = Some r -> sub S a -> sub S b -> sub S r.
Proof. unfold r_bv_comp. intros E Ha Hb. bv_rule E. Qed.
Lemma sub_neg_c S a r : neg_c a = Some r -> sub S a -> sub S r.
Proof. unfold neg_c. apply sub_r_bv_neg. Qed.
#[export] Hint Immediate sub_neg_c sub_r_bv_udiv sub_r_bv_urem sub_r_bv_neg : subdb.
Ltac fwd :=
  repeat match goal with
         | H : neg_c ?a = Some ?r, Ha : sub ?S ?a |- _ =>
             lazymatch goal with _ : sub S r |- _ => fail | _ => pose proof (sub_neg_c S a r H Ha) end
         | H : r_bv_udiv ?w ?a ?b = Some ?r, Ha : sub ?S ?a, Hb : sub ?S ?b |- _ =>
             lazymatch goal with _ : sub S r |- _ => fail | _ => pose proof (sub_r_bv_udiv S w a b r H Ha Hb) end
         | H : r_bv_urem ?w ?a ?b = Some ?r, Ha : sub ?S ?a, Hb : sub ?S ?b |- _ =>
             lazymatch goal with _ : sub S r |- _ => fail | _ => pose proof (sub_r_bv_urem S w a b r H Ha Hb) end
         | H : Some ?a = Some ?r, Ha : sub ?S ?a |- _ =>
             lazymatch goal with _ : sub S r |- _ => fail | _ => (assert (sub S r) by (inversion H; subst; exact Ha)) end
         end.
Lemma sub_r_bv_sdiv S a b r : r_bv_sdiv a b = Some r -> sub S a -> sub S b -> sub S r.
Proof.
  unfold r_bv_sdiv, bind. intros E Ha Hb.
  destruct (bv_signed_value a); [|inversion E; subst; auto with subdb].
  destruct (bv_signed_value b); [|inversion E; subst; auto with subdb].
  repeat (destr_in E; try discriminate E); fwd; auto.
Qed.
Lemma sub_r_bv_srem S a b r : r_bv_srem a b = Some r -> sub S a -> sub S b -> sub S r.
Proof.
  unfold r_bv_srem, bind. intros E Ha Hb.
  destruct (bv_signed_value a) as [sa|]; [|inversion E; subst; auto with subdb].
  destruct (bv_signed_value b) as [sb|]; [|inversion E; subst; auto with subdb].
  destruct (sa <? 0)%Z; destruct (sb <? 0)%Z;
    repeat (destr_in E; try discriminate E); fwd; auto.
Qed.
Lemma sub_r_bv_ashr S w a b r : r_bv_ashr w a b = Some r -> sub S a -> sub S b -> sub S r.
Proof.
  unfold r_bv_ashr, bind, r_bv_lshr. intros E Ha Hb.
  destruct (bv_signed_value a); [|inversion E; subst; auto with subdb].
  destruct (bv_value b); [|inversion E; subst; auto with subdb].
  destruct (r_bv_shift BLshr py_shr a b) eqn:Es; [|discriminate].
  assert (sub S t) by (eapply sub_r_bv_shift; eauto).
  crush E; eauto with subdb.
Qed.
Lemma sub_r_bv_tonatural S a r : r_bv_tonatural a = Some r -> sub S a -> sub S r.
Proof. unfold r_bv_tonatural. intros E Ha. crush E; auto with subdb; sub_tac. Qed.

(* ------------------------------------------------------------------ string rules *)
Lemma sub_r_str S k args r : r_str k args = Some r -> Forall (sub S) args -> sub S r.
Proof.
  unfold r_str, bind. intros E H.
  destruct k; crush E; auto with subdb; try (eapply sub_mk_strconcat; eauto).
Qed.

(* ------------------------------------------------------------------ array rules *)
Definition PP (S : list var) (l : list (term * term)) : Prop :=
  Forall (fun kv => sub S (fst kv) /\ sub S (snd kv)) l.
Lemma PP_pairs_of S : forall l, Forall (sub S) l -> PP S (pairs_of l).
Proof.
  fix IH 1. intros [|k [|v r]] H; cbn; try constructor.
  - inversion H; subst. inversion H3; subst. cbn. auto.
  - inversion H; subst. inversion H3; subst. apply IH; auto.
Qed.
Lemma PP_assoc_set S k v : sub S k -> sub S v -> forall l, PP S l -> PP S (assoc_set k v l).
Proof.
  intros Hk Hv. induction l as [|[k' v'] r IH]; intros H; cbn.
  - constructor; cbn; auto.
  - inversion H; subst. destruct (term_eqb k k'); constructor; cbn; auto.
    exact (IH H3).
Qed.
Lemma PP_dict_of_pairs S l : PP S l -> PP S (dict_of_pairs l).
Proof.
  unfold dict_of_pairs. assert (G : forall acc, PP S acc -> PP S l ->
    PP S (fold_left (fun acc kv => assoc_set (fst kv) (snd kv) acc) l acc)).
  { induction l as [|kv r IH]; intros acc Ha Hl; cbn; auto.
    inversion Hl; subst. destruct H1. apply IH; auto. apply PP_assoc_set; auto. }
  intros H. apply G; auto. constructor.
Qed.
Lemma PP_assoc_get S k : forall l v, PP S l -> assoc_get k l = Some v -> sub S v.
Proof.
  induction l as [|[k' v'] r IH]; intros v H E; cbn in E; [discriminate|].
  inversion H; subst. destruct (term_eqb k k'); [inversion E; subst; cbn in *; tauto | eauto].
Qed.
Lemma PP_insert S kv : (sub S (fst kv) /\ sub S (snd kv)) -> forall l, PP S l -> PP S (insert_assign kv l).
Proof.
  intros Hkv. induction l as [|kv' r IH]; intros H; cbn.
  - constructor; auto.
  - inversion H; subst. destruct (lex_ltb _ _); constructor; auto.
    exact (IH H3).
Qed.
Lemma PP_sort S l : PP S l -> PP S (sort_assign l).
Proof.
  unfold sort_assign. induction 1 as [|kv r Hkv Hr IH]; cbn; [constructor|]. now apply PP_insert.
Qed.
Lemma PP_filter S f l : PP S l -> PP S (filter f l).
Proof.
  induction 1 as [|kv r Hkv Hr IH]; cbn; [constructor|]. destruct (f kv); auto. constructor; auto.
Qed.
Lemma PP_flatten S l : PP S l -> Forall (sub S) (flatten_assign l).
Proof.
  induction 1 as [|[k v] r Hkv Hr IH]; cbn; [constructor|]. cbn in Hkv. destruct Hkv. auto.
Qed.
Lemma sub_mk_array S it d asg r : mk_array it d asg = Some r -> sub S d -> PP S asg -> sub S r.
Proof.
  unfold mk_array. intros E Hd Ha. destruct (forallb _ asg); [|discriminate]. inversion E; subst.
  apply sub_node_intro; auto. constructor; auto.
  apply PP_flatten, PP_sort, PP_filter. exact Ha.
Qed.
Lemma is_array_value_top a : is_array_value a = true -> transparent (top a) = true.
Proof. unfold is_array_value. destruct (top a); try discriminate; auto. Qed.
Lemma sub_r_select S a i r : r_select a i = Some r -> sub S a -> sub S i -> sub S r.
Proof.
  unfold r_select. intros E Ha Hi. destruct (is_array_value a && is_constant i) eqn:C.
  - apply andb_true_iff in C. destruct C as [C _].
    pose proof (sub_targs S a (is_array_value_top _ C) Ha) as Hx.
    destruct (targs a) as [|d rest]; [discriminate|]. inversion Hx; subst. inversion E; subst.
    destruct (assoc_get i (pairs_of rest)) eqn:G; auto.
    eapply PP_assoc_get; eauto. now apply PP_pairs_of.
  - inversion E; subst. auto with subdb.
Qed.
Lemma sub_r_store S a i v r : r_store a i v = Some r -> sub S a -> sub S i -> sub S v -> sub S r.
Proof.
  unfold r_store. intros E Ha Hi Hv. destruct a as [o xs].
  destruct xs as [|d rest]; destruct o; try (inversion E; subst; auto with subdb; fail).
  destruct (is_constant i); [|inversion E; subst; auto with subdb].
  pose proof (sub_node_elim S (OArrayValue it) (d :: rest) eq_refl Ha) as Hx. inversion Hx; subst.
  eapply sub_mk_array; eauto. apply PP_assoc_set; auto. apply PP_dict_of_pairs. now apply PP_pairs_of.
Qed.
Lemma sub_r_array_value S it args r : r_array_value it args = Some r -> Forall (sub S) args -> sub S r.
Proof.
  unfold r_array_value. intros E H. destruct args as [|d rest]; [discriminate|]. inversion H; subst.
  eapply sub_mk_array; eauto. apply PP_dict_of_pairs. now apply PP_pairs_of.
Qed.

(* ------------------------------------------------------------------ all transparent operators *)
Lemma sub_rule_transparent S ora o args r : transparent o = true ->
  rule ora o args = Some r -> Forall (sub S) args -> sub S r.
Proof.
  intros Ho E H.
  destruct o; try discriminate Ho; cbn [rule] in E; unfold un, bin, tern in E.
  - inversion E; subst. now apply sub_r_and.
  - inversion E; subst. now apply sub_r_or.
  - destruct args as [|a [|? ?]]; try discriminate. inversion E; subst. inversion H; subst. auto with subdb.
  - destruct args as [|a [|b [|? ?]]]; try discriminate. inversion E; subst.
    inversion H; subst. inversion H3; subst. now apply sub_r_implies.
  - destruct args as [|a [|b [|? ?]]]; try discriminate. inversion E; subst.
    inversion H; subst. inversion H3; subst. now apply sub_r_iff.
  - now apply (sub_r_plus S args r).
  - destruct args as [|a [|b [|? ?]]]; try discriminate.
    inversion H; subst. inversion H3; subst. eapply sub_r_minus; eauto.
  - eapply sub_r_times; eauto.
  - destruct args as [|a [|b [|? ?]]]; try discriminate.
    inversion H; subst. inversion H3; subst. eapply sub_r_le; eauto.
  - destruct args as [|a [|b [|? ?]]]; try discriminate.
    inversion H; subst. inversion H3; subst. eapply sub_r_lt; eauto.
  - destruct args as [|a [|b [|? ?]]]; try discriminate.
    inversion H; subst. inversion H3; subst. eapply sub_r_equals; eauto.
  - destruct args as [|a [|b [|c [|? ?]]]]; try discriminate. inversion E; subst.
    inversion H; subst. inversion H3; subst. inversion H5; subst. now apply sub_r_ite.
  - destruct args as [|a [|? ?]]; try discriminate. inversion H; subst. eapply sub_r_toreal; eauto.
  - (* OBV *)
    destruct k;
      try (destruct args as [|a [|b [|? ?]]]; try discriminate;
           inversion H; subst; try (inversion H3; subst)); 
      try (destruct args as [|a [|b ?]]; try discriminate;
           inversion H; subst; try (inversion H3; subst));
      try (destruct args as [|a ?]; try discriminate; inversion H; subst);
      eauto using sub_r_bv_and, sub_r_bv_not, sub_r_bv_neg, sub_r_bv_or, sub_r_bv_xor, sub_r_bv_add,
        sub_r_bv_mul, sub_r_bv_udiv, sub_r_bv_urem, sub_r_bv_concat, sub_r_bv_shift, sub_r_bv_sub,
        sub_r_bv_comp, sub_r_bv_sdiv, sub_r_bv_srem, sub_r_bv_ashr.
  - (* OBVRel *)
    destruct k; destruct args as [|a [|b ?]]; try discriminate;
      inversion H; subst; inversion H3; subst;
      eauto using sub_r_bv_ult, sub_r_bv_ule, sub_r_bv_scmp.
  - destruct args as [|a ?]; try discriminate. inversion H; subst. eapply sub_r_bv_extract; eauto.
  - destruct args as [|a ?]; try discriminate. inversion H; subst. eapply sub_r_bv_rol; eauto.
  - destruct args as [|a ?]; try discriminate. inversion H; subst. eapply sub_r_bv_ror; eauto.
  - destruct args as [|a ?]; try discriminate. inversion H; subst. eapply sub_r_bv_zext; eauto.
  - destruct args as [|a ?]; try discriminate. inversion H; subst. eapply sub_r_bv_sext; eauto.
  - eapply sub_r_str; eauto.
  - destruct args as [|a [|b [|? ?]]]; try discriminate.
    inversion H; subst. inversion H3; subst. eapply sub_r_select; eauto.
  - destruct args as [|a [|b [|c [|? ?]]]]; try discriminate.
    inversion H; subst. inversion H3; subst. inversion H5; subst. eapply sub_r_store; eauto.
  - eapply sub_r_array_value; eauto.
  - destruct args as [|a [|b ?]]; try discriminate.
    inversion H; subst. inversion H3; subst. eapply sub_r_div; eauto.
  - destruct args as [|a [|b ?]]; try discriminate.
    inversion H; subst. inversion H3; subst. eapply sub_r_pow; eauto.
  - destruct args as [|a ?]; try discriminate. inversion H; subst. eapply sub_r_bv_tonatural; eauto.
Qed.

(* ------------------------------------------------------------------ quantifiers *)
Lemma sub_r_quant_forall S ora vs b :
  (forall x, In x (fv b) -> ~ In x vs -> In x S) ->
  sub S (r_quant ora (OForall vs) mk_forall vs b).
Proof.
  intros H. unfold r_quant.
  set (varset := filter (fun v => mem var_eqb v (fv b)) (dedupe var_eqb vs)).
  assert (Hvs : forall x, In x vs -> In x (fv b) -> In x varset).
  { intros x Hx Hb. apply filter_In. split.
    - now apply (dedupe_In var_eqb var_eqb_eq).
    - now apply (mem_In var_eqb var_eqb_eq). }
  destruct varset as [|v0 vr] eqn:Ev.
  - intros x Hx. apply H; auto. intros Hin. exact (Hvs x Hin Hx).
  - apply sub_reorder. unfold mk_forall. intros x Hx. cbn [fv] in Hx.
    apply (diff_In var_eqb var_eqb_eq) in Hx. destruct Hx as [Hx Hn].
    apply In_unions_fv in Hx. destruct Hx as (a & [<-|[]] & Hx).
    apply H; auto.
Qed.
Lemma sub_r_quant_exists S ora vs b :
  (forall x, In x (fv b) -> ~ In x vs -> In x S) ->
  sub S (r_quant ora (OExists vs) mk_exists vs b).
Proof.
  intros H. unfold r_quant.
  set (varset := filter (fun v => mem var_eqb v (fv b)) (dedupe var_eqb vs)).
  assert (Hvs : forall x, In x vs -> In x (fv b) -> In x varset).
  { intros x Hx Hb. apply filter_In. split.
    - now apply (dedupe_In var_eqb var_eqb_eq).
    - now apply (mem_In var_eqb var_eqb_eq). }
  destruct varset as [|v0 vr] eqn:Ev.
  - intros x Hx. apply H; auto. intros Hin. exact (Hvs x Hin Hx).
  - apply sub_reorder. unfold mk_exists. intros x Hx. cbn [fv] in Hx.
    apply (diff_In var_eqb var_eqb_eq) in Hx. destruct Hx as [Hx Hn].
    apply In_unions_fv in Hx. destruct Hx as (a & [<-|[]] & Hx).
    apply H; auto.
Qed.

(* ------------------------------------------------------------------ the whole simplifier *)
Lemma simp_rule_rule ora o args r : simp_rule ora o args = Some r -> rule ora o args = Some r.
Proof.
  unfold simp_rule, bind. destruct (rule ora o args) as [r'|]; [|discriminate].
  destruct (tc r'); [|discriminate]. auto.
Qed.

Fixpoint map_opt {A B} (f : A -> option B) (l : list A) : option (list B) :=
  match l with
  | [] => Some []
  | x :: r => match f x, map_opt f r with Some a, Some b => Some (a :: b) | _, _ => None end
  end.
Lemma simplify_opt_unfold ora o args :
  simplify_opt ora (T o args) =
  match map_opt (simplify_opt ora) args with Some args' => simp_rule ora o args' | None => None end.
Proof.
  cbn [simplify_opt].
  replace ((fix go (l : list term) : option (list term) :=
              match l with
              | [] => Some []
              | x :: r => match simplify_opt ora x, go r with
                          | Some a, Some b => Some (a :: b)
                          | _, _ => None
                          end
              end) args) with (map_opt (simplify_opt ora) args); auto.
  induction args as [|x r IH]; cbn; auto. now rewrite IH.
Qed.
Lemma map_opt_Forall2 {A B} (f : A -> option B) : forall l l', map_opt f l = Some l' ->
  Forall2 (fun a b => f a = Some b) l l'.
Proof.
  induction l as [|x r IH]; intros l' E; cbn in E.
  - inversion E; constructor.
  - destruct (f x) eqn:Ex; [|discriminate]. destruct (map_opt f r) eqn:Er; [|discriminate].
    inversion E; subst. constructor; auto.
Qed.

(* For every order oracle: the result of the model mentions only symbols that are free in the
   input (function names count as symbols, as in FreeVarsOracle). *)
Theorem simplify_no_new_symbols : forall ora t r,
  simplify_opt ora t = Some r -> incl (fv r) (fv t).
Proof.
  intros ora. induction t as [o args IH] using term_ind'. intros r E.
  rewrite simplify_opt_unfold in E.
  destruct (map_opt (simplify_opt ora) args) as [args'|] eqn:Em; [|discriminate].
  apply simp_rule_rule in E.
  pose proof (map_opt_Forall2 _ _ _ Em) as F2.
  assert (Hargs : forall S, (forall a, In a args -> incl (fv a) S) -> Forall (sub S) args').
  { intros S HS. clear E Em. induction F2 as [|a a' l l' Ha Hl IHl]; constructor.
    - pose proof (Forall_inv IH) as IHa. intros x Hx. apply (HS a); [cbn; auto|]. exact (IHa a' Ha x Hx).
    - apply IHl; [exact (Forall_inv_tail IH)|]. intros b Hb. apply HS. cbn; auto. }
  destruct (transparent o) eqn:Ho.
  - change (sub (fv (T o args)) r). eapply sub_rule_transparent; eauto.
    apply Hargs. intros a Ha x Hx. rewrite (fv_transparent _ _ Ho). apply In_unions_fv. eauto.
  - destruct o; try discriminate Ho; cbn [rule] in E.
    + (* Forall *)
      unfold un in E. destruct args' as [|b [|? ?]]; try discriminate. inversion E; subst.
      change (sub (fv (T (OForall vs) args)) (r_quant ora (OForall vs) mk_forall vs b)).
      apply sub_r_quant_forall. intros x Hx Hn.
      inversion F2 as [|a0 b0 l0 l0' Hab Hrest]; subst. inversion Hrest; subst.
      pose proof (Forall_inv IH) as IHa.
      cbn [fv]. apply (diff_In var_eqb var_eqb_eq). split; auto.
      apply In_unions_fv. exists a0. split; [cbn; auto|]. exact (IHa b Hab x Hx).
    + (* Exists *)
      unfold un in E. destruct args' as [|b [|? ?]]; try discriminate. inversion E; subst.
      change (sub (fv (T (OExists vs) args)) (r_quant ora (OExists vs) mk_exists vs b)).
      apply sub_r_quant_exists. intros x Hx Hn.
      inversion F2 as [|a0 b0 l0 l0' Hab Hrest]; subst. inversion Hrest; subst.
      pose proof (Forall_inv IH) as IHa.
      cbn [fv]. apply (diff_In var_eqb var_eqb_eq). split; auto.
      apply In_unions_fv. exists a0. split; [cbn; auto|]. exact (IHa b Hab x Hx).
    + (* Symbol *) inversion E; subst. intros x Hx. exact Hx.
    + (* Function *)
      unfold mk_function in E. destruct args' as [|a' r'].
      * inversion E; subst. intros x Hx. cbn in Hx. destruct Hx as [<-|[]].
        cbn [fv]. apply (union_In var_eqb var_eqb_eq). left. cbn; auto.
      * destruct t; try discriminate. destruct (Nat.eqb _ _); [|discriminate]. inversion E; subst.
        intros x Hx. cbn [fv] in *. apply (union_In var_eqb var_eqb_eq) in Hx.
        apply (union_In var_eqb var_eqb_eq). destruct Hx as [Hx|Hx]; auto. right.
        apply In_unions_fv in Hx. destruct Hx as (a & Ha & Hx).
        assert (HF : Forall (sub (unions var_eqb (map fv args))) (a' :: r')).
        { apply Hargs. intros b Hb y Hy. apply In_unions_fv. eauto. }
        rewrite Forall_forall in HF. exact (HF a Ha x Hx).
    + inversion E; subst. intros x Hx. cbn in Hx. contradiction.
    + inversion E; subst. intros x Hx. cbn in Hx. contradiction.
    + inversion E; subst. intros x Hx. cbn in Hx. contradiction.
    + inversion E; subst. intros x Hx. cbn in Hx. contradiction.
    + inversion E; subst. intros x Hx. cbn in Hx. contradiction.
Qed.

Corollary simplify_with_no_new_symbols : forall ora t, incl (fv (simplify_with ora t)) (fv t).
Proof.
  intros ora t. unfold simplify_with. destruct (simplify_opt ora t) eqn:E.
  - eapply simplify_no_new_symbols; eauto.
  - apply incl_refl.
Qed.

