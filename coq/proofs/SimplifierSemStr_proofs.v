(* C01, semantic clause: strings.  The string rules of models/Simplifier.v (r_str) against
   core/Sem.v's string functions (slen ssub sprefix sfind sindexof sreplace sto_int sfrom_int
   ssuffix scontains). *)
From Coq Require Import List ZArith Bool String Reals Lia Lra Permutation.
From Coq Require Import ClassicalDescription FunctionalExtensionality.
From PySMT.core Require Import Syntax SyntaxLemmas PyPrims PyPrimsLemmas Types Sem.
From PySMT.models Require Import TypeChecker Oracles Ctors Simplifier.
From PySMT.proofs Require Import Sets_proofs TypeChecker_proofs Coincidence Simplifier_proofs.
From PySMT.proofs Require Import SimplifierSemBase_proofs.
Import ListNotations.
Open Scope bool_scope.
Open Scope Z_scope.

(* ================================================================== Python's str methods and Sem.v *)
Lemma prefix_sprefix : forall p s, prefix_eqb p s = sprefix p s.
Proof. reflexivity. Qed.
Lemma find_sfind t : forall s i, find_from t s i = sfind t s i.
Proof. reflexivity. Qed.
Lemma zlen_slen (s : list Z) : zlen s = slen s.
Proof. reflexivity. Qed.

Lemma py_slice_sub (s : list Z) i n : 0 <= i -> 0 < n -> py_slice s (Some i) (Some (i + n)) = ssub s i n.
Proof.
  intros Hi Hn. unfold py_slice, ssub, norm_idx. rewrite zlen_slen. set (L := slen s).
  assert (HL : L = Z.of_nat (List.length s)) by reflexivity.
  rewrite (proj2 (Z.ltb_ge i 0)) by lia. rewrite (proj2 (Z.ltb_ge (i + n) 0)) by lia. rewrite (proj2 (Z.leb_gt n 0)) by lia.
  cbn [orb]. rewrite orb_false_r.
  destruct (Z.leb_spec L i) as [Hle|Hlt].
  - destruct (Z.ltb_spec L i); destruct (Z.ltb_spec L (i + n)); try lia;
      match goal with |- (if ?c then _ else _) = _ => destruct c eqn:E; auto; apply Z.ltb_lt in E; lia end.
  - rewrite (proj2 (Z.ltb_ge L i)) by lia. destruct (Z.ltb_spec L (i + n)).
    + rewrite (proj2 (Z.ltb_lt i L)) by lia. rewrite !firstn_all2; auto; rewrite skipn_length; lia.
    + rewrite (proj2 (Z.ltb_lt i (i + n))) by lia. f_equal. lia.
Qed.

Lemma sfind_range t : forall s i, sfind t s i = -1 \/ (i <= sfind t s i <= i + slen s).
Proof.
  induction s as [|c s IH]; intros i; cbn [sfind].
  - destruct (sprefix t []); [right; unfold slen; cbn; lia | left; reflexivity].
  - destruct (sprefix t (c :: s)); [right; unfold slen; cbn [List.length]; lia|].
    destruct (IH (i + 1)) as [->|H]; [left; reflexivity | right]. unfold slen in *. cbn [List.length]. lia.
Qed.
(* s.replace(t, t', 1): the first occurrence *)
Lemma py_replace1_spec t t' : forall s,
  py_replace1 s t t' = (let p := sfind t s 0 in
                        if p <? 0 then s else firstn (Z.to_nat p) s ++ t' ++ skipn (Z.to_nat p + List.length t) s).
Proof.
  assert (G : forall s i, 0 <= i -> py_replace1 s t t' =
             (let p := sfind t s i in
              if p <? 0 then s else firstn (Z.to_nat (p - i)) s ++ t' ++ skipn (Z.to_nat (p - i) + List.length t) s)).
  { induction s as [|c s IH]; intros i Hi; cbn [py_replace1 sfind]; rewrite prefix_sprefix.
    - destruct (sprefix t []); cbn zeta.
      + rewrite (proj2 (Z.ltb_ge i 0)) by lia. rewrite Z.sub_diag. reflexivity.
      + reflexivity.
    - destruct (sprefix t (c :: s)); cbn zeta.
      + rewrite (proj2 (Z.ltb_ge i 0)) by lia. rewrite Z.sub_diag. reflexivity.
      + rewrite (IH (i + 1)) by lia. cbn zeta. destruct (sfind_range t s (i + 1)) as [E|R].
        * rewrite E. reflexivity.
        * rewrite (proj2 (Z.ltb_ge (sfind t s (i + 1)) 0)) by lia.
          replace (Z.to_nat (sfind t s (i + 1) - i)) with (S (Z.to_nat (sfind t s (i + 1) - (i + 1)))) by lia. reflexivity. }
  intros s. rewrite (G s 0) by lia. cbn zeta. now rewrite Z.sub_0_r.
Qed.

(* int() of a non-empty string of decimal digits *)
Lemma is_digit_not_space c : PyPrims.is_digit c = true -> is_space c = false.
Proof.
  unfold PyPrims.is_digit, is_space. intros H. apply andb_true_iff in H. destruct H as [H1 H2]. apply Z.leb_le in H1, H2.
  rewrite (proj2 (Z.leb_gt c 13)) by lia. rewrite andb_false_r.
  rewrite (proj2 (Z.eqb_neq c 32)), (proj2 (Z.eqb_neq c 133)), (proj2 (Z.eqb_neq c 160)) by lia. reflexivity.
Qed.
Lemma drop_space_digits s : s <> [] -> forallb PyPrims.is_digit s = true -> drop_space s = s.
Proof. destruct s as [|c r]; [congruence|]. cbn. intros _ H. apply andb_true_iff in H. destruct H as [H _]. now rewrite (is_digit_not_space c H). Qed.
Lemma py_strip_digits s : forallb PyPrims.is_digit s = true -> py_strip s = s.
Proof.
  intros H. destruct s as [|c r]; [reflexivity|]. unfold py_strip. rewrite (drop_space_digits (c :: r)) by (try discriminate; auto).
  rewrite drop_space_digits; [apply rev_involutive | |].
  - intros E. apply (f_equal (@List.length Z)) in E. rewrite rev_length in E. discriminate.
  - rewrite forallb_forall in *. intros x Hx. apply H. now apply in_rev.
Qed.
Lemma parse_digits_all : forall s acc b cnt, forallb PyPrims.is_digit s = true -> (s <> [] \/ b = true) ->
  parse_digits s acc b cnt = Some (fold_left (fun a c => a * 10 + (c - 48)) s acc, cnt + slen s).
Proof.
  induction s as [|c r IH]; intros acc b cnt H Hb; cbn [parse_digits fold_left].
  - destruct Hb as [Hb| ->]; [congruence|]. unfold slen. cbn. now rewrite Z.add_0_r.
  - cbn in H. apply andb_true_iff in H. destruct H as [Hc Hr]. rewrite Hc. rewrite IH; auto. f_equal. f_equal. unfold slen. cbn [List.length]. lia.
Qed.
Lemma py_int_of_str_digits s : s <> [] -> forallb PyPrims.is_digit s = true ->
  py_int_of_str s = if max_str_digits <? slen s then None else Some (sto_int s).
Proof.
  intros Hne H. unfold py_int_of_str. rewrite py_strip_digits by auto.
  destruct s as [|c r]; [congruence|].
  assert (Hc : PyPrims.is_digit c = true) by (cbn in H; apply andb_true_iff in H; tauto).
  assert (c <> 45 /\ c <> 43) as [H45 H43].
  { unfold PyPrims.is_digit in Hc. apply andb_true_iff in Hc. destruct Hc as [H1 H2]. apply Z.leb_le in H1, H2. lia. }
  assert (Hbody : (let (neg, body) := match c :: r with 45 :: r0 => (true, r0) | 43 :: r0 => (false, r0) | _ => (false, c :: r) end in
            match parse_digits body 0 false 0 with
            | Some (v, cnt) => if max_str_digits <? cnt then None else Some (if neg then - v else v)
            | None => None end) =
           match parse_digits (c :: r) 0 false 0 with
            | Some (v, cnt) => if max_str_digits <? cnt then None else Some v
            | None => None end).
  { destruct c as [|p|p]; try reflexivity. do 6 (destruct p as [p|p|]; try reflexivity); congruence. }
  rewrite Hbody. rewrite parse_digits_all by (auto; left; discriminate). rewrite Z.add_0_l.
  unfold sto_int. replace Sem.is_digit with PyPrims.is_digit by reflexivity. now rewrite H.
Qed.

(* ================================================================== str(int): the decimal digits *)
Definition p10 (k : nat) : Z := 10 ^ Z.of_nat k.
Lemma p10_S k : p10 (S k) = 10 * p10 k.
Proof. unfold p10. rewrite Nat2Z.inj_succ, Z.pow_succ_r by lia. reflexivity. Qed.
Lemma p10_pos k : 0 < p10 k.
Proof. unfold p10. apply Z.pow_pos_nonneg; lia. Qed.
Lemma p10_add a b : p10 (a + b) = p10 a * p10 b.
Proof. unfold p10. rewrite Nat2Z.inj_add, Z.pow_add_r by lia. reflexivity. Qed.
Lemma p10_mono a b : (a <= b)%nat -> p10 a <= p10 b.
Proof. intros H. unfold p10. apply Z.pow_le_mono_r; lia. Qed.

Lemma digits_fuel_S : forall f v acc, (1 <= f)%nat -> 0 <= v < p10 f ->
  PyPrims.digits_fuel f v acc = PyPrims.digits_fuel (S f) v acc.
Proof.
  induction f as [|f IH]; intros v acc Hf Hv; [lia|]. cbn [PyPrims.digits_fuel].
  destruct (Z.ltb_spec v 10); [reflexivity|]. rewrite p10_S in Hv.
  assert (Hq : 0 <= v / 10 < p10 f) by (split; [apply Z.div_pos; lia | apply Z.div_lt_upper_bound; lia]).
  assert (1 <= f)%nat. { destruct f; [|lia]. unfold p10 in Hq. cbn in Hq. assert (1 <= v / 10) by (apply Z.div_le_lower_bound; lia). lia. }
  apply IH; auto.
Qed.
Lemma digits_fuel_irrel f g v acc : (1 <= f)%nat -> (f <= g)%nat -> 0 <= v < p10 f ->
  PyPrims.digits_fuel f v acc = PyPrims.digits_fuel g v acc.
Proof.
  intros Hf Hg Hv. induction Hg as [|g Hg IH]; [reflexivity|]. rewrite IH. apply digits_fuel_S; [lia|].
  split; [lia|]. apply Z.lt_le_trans with (p10 f); [lia | now apply p10_mono].
Qed.
Lemma digits_peel : forall k F v acc, p10 k <= v ->
  PyPrims.digits_fuel (k + F) v acc = PyPrims.digits_fuel F (v / p10 k) (digits_pad k (v mod p10 k) acc).
Proof.
  induction k as [|k IH]; intros F v acc Hv.
  - unfold p10. cbn. now rewrite Z.div_1_r.
  - rewrite p10_S in *. pose proof (p10_pos k) as Hp. cbn [Nat.add PyPrims.digits_fuel digits_pad].
    rewrite (proj2 (Z.ltb_ge v 10)) by lia.
    assert (Hq : p10 k <= v / 10) by (apply Z.div_le_lower_bound; lia).
    rewrite (IH F (v / 10) _ Hq). rewrite Z.div_div by lia.
    rewrite (Z.rem_mul_r v 10 (p10 k)) by lia.
    replace ((v mod 10 + 10 * ((v / 10) mod p10 k)) / 10) with ((v / 10) mod p10 k).
    2:{ rewrite Z.add_comm, Z.mul_comm, Z.div_add_l by lia. rewrite (Z.div_small (v mod 10)) by (apply Z.mod_pos_bound; lia). lia. }
    replace ((v mod 10 + 10 * ((v / 10) mod p10 k)) mod 10) with (v mod 10).
    2:{ replace (v mod 10 + 10 * ((v / 10) mod p10 k)) with (v mod 10 + ((v / 10) mod p10 k) * 10) by lia.
        rewrite Z.mod_add by lia. now rewrite Z.mod_mod by lia. }
    reflexivity.
Qed.
Lemma digits_big_spec : forall f v acc F, (1 <= f)%nat -> (1 <= F)%nat -> 0 <= v < p10 (16 * f) -> v < p10 F ->
  digits_big f v acc = PyPrims.digits_fuel F v acc.
Proof.
  induction f as [|f IH]; intros v acc F Hf HF Hv HvF; [lia|]. cbn [digits_big].
  change 10000000000000000 with (p10 16).
  destruct (Z.ltb_spec v (p10 16)) as [Hlt|Hge].
  - destruct (Nat.le_ge_cases 17 F).
    + apply digits_fuel_irrel; try lia. split; [lia|]. apply Z.lt_le_trans with (p10 16); auto. apply p10_mono. lia.
    + symmetry. apply digits_fuel_irrel; try lia.
  - destruct (Z.div_eucl v (p10 16)) as [q r] eqn:E.
    assert (Eq : q = v / p10 16) by (unfold Z.div; now rewrite E).
    assert (Er : r = v mod p10 16) by (unfold Z.modulo; now rewrite E). subst q r.
    pose proof (p10_pos 16) as Hp.
    assert (Hq1 : 1 <= v / p10 16) by (apply Z.div_le_lower_bound; lia).
    assert (Hf' : (1 <= f)%nat).
    { destruct f; [|lia]. exfalso. replace (16 * 1)%nat with 16%nat in Hv by lia. lia. }
    rewrite (IH _ _ F) ; auto.
    + rewrite (digits_fuel_irrel F (16 + F) v acc) by (try lia). now rewrite digits_peel.
    + split; [lia|]. apply Z.div_lt_upper_bound; [lia|]. rewrite <- p10_add. replace (16 + 16 * f)%nat with (16 * S f)%nat by lia. lia.
    + apply Z.le_lt_trans with v; [|lia]. apply Z.div_le_upper_bound; nia.
Qed.
Lemma pow2_le_p10 k : 2 ^ Z.of_nat k <= p10 k.
Proof. unfold p10. apply Z.pow_le_mono_l. lia. Qed.
Lemma lt_p10_log2 v : 0 <= v -> v < p10 (S (Z.to_nat (Z.log2 v))).
Proof.
  intros Hv. destruct (Z.eq_dec v 0) as [->|Hn]; [cbn; unfold p10; cbn; lia|].
  apply Z.lt_le_trans with (2 ^ Z.of_nat (S (Z.to_nat (Z.log2 v)))); [|apply pow2_le_p10].
  rewrite Nat2Z.inj_succ, Z2Nat.id by apply Z.log2_nonneg. apply Z.log2_spec. lia.
Qed.
Lemma lt_p10_big v : 0 <= v -> v < p10 (16 * S (Z.to_nat (Z.log2 v / 53))).
Proof.
  intros Hv. destruct (Z.eq_dec v 0) as [->|Hn]; [apply p10_pos|].
  set (m := Z.log2 v / 53). assert (Hm : 0 <= m) by (apply Z.div_pos; [apply Z.log2_nonneg | lia]).
  apply Z.lt_le_trans with (2 ^ (53 * (m + 1))).
  - apply Z.lt_le_trans with (2 ^ Z.succ (Z.log2 v)); [apply Z.log2_spec; lia|]. apply Z.pow_le_mono_r; [lia|].
    pose proof (Z.mod_pos_bound (Z.log2 v) 53 ltac:(lia)). pose proof (Z.div_mod (Z.log2 v) 53 ltac:(lia)). unfold m. lia.
  - unfold p10. replace (Z.of_nat (16 * S (Z.to_nat m))) with (16 * (m + 1)) by lia.
    rewrite !Z.pow_mul_r by lia. apply Z.pow_le_mono_l. cbn. lia.
Qed.
Lemma py_str_of_int_some n ds : 0 <= n -> py_str_of_int n = Some ds ->
  ds = digits_big (S (Z.to_nat (Z.log2 n / 53))) n [].
Proof.
  intros Hn. unfold py_str_of_int. rewrite Z.abs_eq by lia. rewrite (proj2 (Z.ltb_ge n 0)) by lia. cbv zeta.
  destruct (max_str_digits <? _); congruence.
Qed.
Lemma py_str_of_int_spec n ds : 0 <= n -> py_str_of_int n = Some ds -> ds = sfrom_int n.
Proof.
  intros Hn E. rewrite (py_str_of_int_some n ds Hn E).
  unfold sfrom_int. rewrite (proj2 (Z.ltb_ge n 0)) by lia.
  change Sem.digits_fuel with PyPrims.digits_fuel.
  apply digits_big_spec; try lia.
  - split; [lia|]. now apply lt_p10_big.
  - now apply lt_p10_log2.
Qed.
Close Scope Z_scope.

(* ================================================================== the string rules *)
Lemma str_const a t v : tc a = Some t -> str_value a = Some v -> a = TStrC v.
Proof.
  destruct a as [o l]. unfold str_value. cbn [top]. intros Tc H. destruct o; try discriminate. inversion H; subst.
  now rewrite (const_no_args _ _ _ Tc Logic.I).
Qed.
Lemma int_const a t z : tc a = Some t -> top a = OIntC z -> a = TIntC z.
Proof. destruct a as [o l]. cbn [top]. intros Tc ->. now rewrite (const_no_args _ _ _ Tc Logic.I). Qed.
Lemma concat_fold : forall (rest : list (list Z)) s,
  fold_left (fun acc v => match v with VStr x => acc ++ x | _ => acc end) (map VStr rest) s = s ++ List.concat rest.
Proof.
  induction rest as [|x r IH]; intros s; cbn; [now rewrite app_nil_r|]. now rewrite IH, app_assoc.
Qed.

Section StrRules.
Variable I : interp.
Hypothesis Hwf : wfi I.
Notation res_ok := (res_ok I).

Lemma eval_strc v : eval I (TStrC v) = VStr v. Proof. reflexivity. Qed.
Lemma eval_intc z : eval I (TIntC z) = VInt z. Proof. reflexivity. Qed.

Lemma all_string_constants : forall args tys, Forall2 (fun a t => tc a = Some t) args tys ->
  forallb is_string_constant args = true ->
  exists vs, args = map TStrC vs /\
    map (fun x => match str_value x with Some v => v | None => [] end) args = vs.
Proof.
  induction 1 as [|a t r tr Ha Hr IH]; intros H; [exists []; auto|]. cbn in H. apply andb_true_iff in H. destruct H as [Hc H].
  destruct (IH H) as (vs & -> & E). unfold is_string_constant in Hc. destruct (top a) eqn:Et; try discriminate.
  assert (Sv : str_value a = Some s) by (unfold str_value; now rewrite Et).
  pose proof (str_const a t s Ha Sv) as ->. exists (s :: vs). cbn. split; [reflexivity|]. f_equal. exact E.
Qed.

Lemma r_str_sound k args ty r : okt (T (OStr k) args) = true -> tc (T (OStr k) args) = Some ty ->
  r_str k args = Some r -> res_ok r ty (eval I (T (OStr k) args)).
Proof.
  intros Hok Htc E.
  pose proof (okt_args _ _ Hok) as Fa. pose proof (okt_node _ _ Hok) as Hn. cbn [ok_node] in Hn.
  destruct (tc_inv _ _ _ Htc) as (tys & Ht & Hr). pose proof (tcs_Forall2 _ _ Ht) as F2.
  assert (Hid : res_ok (T (OStr k) args) ty (eval I (T (OStr k) args))) by (repeat split; auto).
  assert (Hty : ty = TStr \/ ty = TInt \/ ty = TBool) by (eapply str_rule_out; eauto).
  destruct k; cbn [str_arity] in Hn.
  - (* length *)
    destruct args as [|s [|? ?]]; try discriminate. cbn [r_str] in E.
    inversion F2 as [|? ts ? ? Hs F2']; subst. inversion F2'; subst.
    destruct (str_value s) as [v|] eqn:Sv; [|inversion E; subst; exact Hid].
    pose proof (str_const s ts v Hs Sv) as ->. inversion E; subst r. cbn in Htc. inversion Htc; subst ty.
    repeat split.
  - (* concat *)
    cbn [r_str] in E. destruct (forallb is_string_constant args) eqn:C.
    + destruct (all_string_constants args tys F2 C) as (vs & -> & Ev). rewrite Ev in E. inversion E; subst r.
      cbn in Hr. apply ttt_out in Hr. subst ty. repeat split.
      rewrite eval_plain by reflexivity. rewrite map_map. cbn [op_sem strop_sem].
      destruct vs as [|v0 vs]; [discriminate Hn|]. cbn [map]. unfold mk_string. rewrite !eval_strc.
      replace (map (fun x => eval I (TStrC x)) vs) with (map VStr vs) by (apply map_ext; intros; reflexivity).
      now rewrite concat_fold.
    + unfold mk_strconcat in E. destruct args as [|a [|b rest]]; try discriminate E. inversion E; subst. exact Hid.
  - (* contains *)
    destruct args as [|s [|t [|? ?]]]; try discriminate. cbn [r_str] in E.
    inversion F2 as [|? ts ? ? Hs F2']; subst. inversion F2' as [|? tt ? ? Ht' F2'']; subst. inversion F2''; subst.
    destruct (str_value s) as [sv|] eqn:Sv; [|inversion E; subst; exact Hid].
    destruct (str_value t) as [tv|] eqn:Tv; [|inversion E; subst; exact Hid].
    pose proof (str_const s ts sv Hs Sv) as ->. pose proof (str_const t tt tv Ht' Tv) as ->. inversion E; subst r.
    cbn in Htc. inversion Htc; subst ty. repeat split.
  - (* indexof *)
    destruct args as [|s [|t [|i [|? ?]]]]; try discriminate. cbn [r_str] in E.
    inversion F2 as [|? ts ? ? Hs F2']; subst. inversion F2' as [|? tt ? ? Ht' F2'']; subst.
    inversion F2'' as [|? ti ? ? Hi F3]; subst. inversion F3; subst.
    destruct (str_value s) as [sv|] eqn:Sv; [|inversion E; subst; exact Hid].
    destruct (str_value t) as [tv|] eqn:Tv; [|inversion E; subst; exact Hid].
    destruct (top i) eqn:Ti; try (inversion E; subst; exact Hid).
    pose proof (str_const s ts sv Hs Sv) as ->. pose proof (str_const t tt tv Ht' Tv) as ->.
    pose proof (int_const i ti z Hi Ti) as ->. inversion E; subst r.
    cbn in Htc. inversion Htc; subst ty. repeat split.
    rewrite eval_plain by reflexivity. cbn [map op_sem strop_sem]. unfold mk_int. rewrite !eval_strc, !eval_intc. f_equal.
    unfold sindexof, py_find. rewrite zlen_slen.
    destruct (Z.leb_spec 0 z); destruct (Z.leb_spec z (slen sv)); destruct (Z.ltb_spec z 0); destruct (Z.ltb_spec (slen sv) z); try lia; reflexivity.
  - (* replace *)
    destruct args as [|s [|t1 [|t2 [|? ?]]]]; try discriminate. cbn [r_str] in E.
    inversion F2 as [|? ts ? ? Hs F2']; subst. inversion F2' as [|? tt ? ? Ht' F2'']; subst.
    inversion F2'' as [|? tu ? ? Hu F3]; subst. inversion F3; subst.
    destruct (str_value s) as [sv|] eqn:Sv; [|inversion E; subst; exact Hid].
    destruct (str_value t1) as [v1|] eqn:Tv; [|inversion E; subst; exact Hid].
    destruct (str_value t2) as [v2|] eqn:Uv; [|inversion E; subst; exact Hid].
    pose proof (str_const s ts sv Hs Sv) as ->. pose proof (str_const t1 tt v1 Ht' Tv) as ->. pose proof (str_const t2 tu v2 Hu Uv) as ->.
    inversion E; subst r. cbn in Htc. inversion Htc; subst ty. repeat split.
    rewrite eval_plain by reflexivity. cbn [map op_sem strop_sem]. unfold mk_string. rewrite !eval_strc. f_equal.
    apply py_replace1_spec.
  - (* substr *)
    destruct args as [|s [|i [|j [|? ?]]]]; try discriminate. cbn [r_str] in E.
    inversion F2 as [|? ts ? ? Hs F2']; subst. inversion F2' as [|? ti ? ? Hi F2'']; subst.
    inversion F2'' as [|? tj ? ? Hj F3]; subst. inversion F3; subst.
    destruct (str_value s) as [sv|] eqn:Sv; [|inversion E; subst; exact Hid].
    destruct (top i) eqn:Ti; try (inversion E; subst; exact Hid).
    destruct (top j) eqn:Tj; try (inversion E; subst; exact Hid).
    pose proof (str_const s ts sv Hs Sv) as ->. pose proof (int_const i ti z Hi Ti) as ->. pose proof (int_const j tj z0 Hj Tj) as ->.
    inversion E; subst r. cbn in Htc. inversion Htc; subst ty. repeat split.
    rewrite eval_plain by reflexivity. cbn [map op_sem strop_sem]. unfold mk_string. rewrite !eval_strc, !eval_intc. f_equal.
    destruct (Z.leb_spec 0 z); destruct (Z.ltb_spec 0 z0); cbn [andb].
    + now apply py_slice_sub.
    + unfold ssub. rewrite (proj2 (Z.leb_le z0 0)) by lia. now rewrite !orb_true_r.
    + unfold ssub. now rewrite (proj2 (Z.ltb_lt z 0)) by lia.
    + unfold ssub. now rewrite (proj2 (Z.ltb_lt z 0)) by lia.
  - (* prefixof *)
    destruct args as [|s [|t [|? ?]]]; try discriminate. cbn [r_str] in E.
    inversion F2 as [|? ts ? ? Hs F2']; subst. inversion F2' as [|? tt ? ? Ht' F2'']; subst. inversion F2''; subst.
    destruct (str_value s) as [sv|] eqn:Sv; [|inversion E; subst; exact Hid].
    destruct (str_value t) as [tv|] eqn:Tv; [|inversion E; subst; exact Hid].
    pose proof (str_const s ts sv Hs Sv) as ->. pose proof (str_const t tt tv Ht' Tv) as ->. inversion E; subst r.
    cbn in Htc. inversion Htc; subst ty. repeat split.
  - (* suffixof *)
    destruct args as [|s [|t [|? ?]]]; try discriminate. cbn [r_str] in E.
    inversion F2 as [|? ts ? ? Hs F2']; subst. inversion F2' as [|? tt ? ? Ht' F2'']; subst. inversion F2''; subst.
    destruct (str_value s) as [sv|] eqn:Sv; [|inversion E; subst; exact Hid].
    destruct (str_value t) as [tv|] eqn:Tv; [|inversion E; subst; exact Hid].
    pose proof (str_const s ts sv Hs Sv) as ->. pose proof (str_const t tt tv Ht' Tv) as ->. inversion E; subst r.
    cbn in Htc. inversion Htc; subst ty. repeat split.
  - (* to_int *)
    destruct args as [|s [|? ?]]; try discriminate. cbn [r_str] in E.
    inversion F2 as [|? ts ? ? Hs F2']; subst. inversion F2'; subst.
    destruct (str_value s) as [sv|] eqn:Sv; [|inversion E; subst; exact Hid].
    pose proof (str_const s ts sv Hs Sv) as ->. cbn in Htc. inversion Htc; subst ty.
    assert (Hev : eval I (T (OStr SToInt) [TStrC sv]) = VInt (sto_int sv)) by reflexivity.
    destruct ((zlen sv =? 0)%Z || negb (forallb PyPrims.is_digit sv)) eqn:C.
    + inversion E; subst r. repeat split. rewrite Hev. unfold mk_int. rewrite eval_intc. f_equal.
      unfold sto_int. apply orb_true_iff in C. destruct C as [C|C].
      * destruct sv; [reflexivity | discriminate C].
      * destruct sv; [reflexivity|]. apply negb_true_iff in C. change Sem.is_digit with PyPrims.is_digit. now rewrite C.
    + apply orb_false_iff in C. destruct C as [C1 C2]. apply negb_false_iff in C2.
      assert (Hne : sv <> []) by (intros ->; discriminate C1).
      rewrite (py_int_of_str_digits sv Hne C2) in E. destruct (max_str_digits <? slen sv)%Z; inversion E; subst r.
      * exact Hid.
      * repeat split.
  - (* from_int *)
    destruct args as [|i [|? ?]]; try discriminate. cbn [r_str] in E.
    inversion F2 as [|? ti ? ? Hi F2']; subst. inversion F2'; subst.
    destruct (top i) eqn:Ti; try (inversion E; subst; exact Hid).
    pose proof (int_const i ti z Hi Ti) as ->. cbn in Htc. inversion Htc; subst ty.
    assert (Hev : eval I (T (OStr SFromInt) [TIntC z]) = VStr (sfrom_int z)) by reflexivity.
    destruct (Z.ltb_spec z 0).
    + inversion E; subst r. repeat split. rewrite Hev. unfold mk_string. rewrite eval_strc. f_equal.
      unfold sfrom_int. now rewrite (proj2 (Z.ltb_lt z 0)) by lia.
    + destruct (py_str_of_int z) as [ds|] eqn:Ed; inversion E; subst r; [|exact Hid].
      repeat split. rewrite Hev. unfold mk_string. rewrite eval_strc. f_equal. now apply py_str_of_int_spec.
  - (* charat *)
    destruct args as [|s [|i [|? ?]]]; try discriminate. cbn [r_str] in E.
    inversion F2 as [|? ts ? ? Hs F2']; subst. inversion F2' as [|? ti ? ? Hi F2'']; subst. inversion F2''; subst.
    destruct (str_value s) as [sv|] eqn:Sv; [|inversion E; subst; exact Hid].
    destruct (top i) eqn:Ti; try (inversion E; subst; exact Hid).
    pose proof (str_const s ts sv Hs Sv) as ->. pose proof (int_const i ti z Hi Ti) as ->.
    inversion E; subst r. cbn in Htc. inversion Htc; subst ty. repeat split.
    rewrite eval_plain by reflexivity. cbn [map op_sem strop_sem]. unfold mk_string. rewrite !eval_strc, !eval_intc. f_equal.
    destruct (Z.leb_spec 0 z).
    + now apply py_slice_sub.
    + unfold ssub. now rewrite (proj2 (Z.ltb_lt z 0)) by lia.
Qed.
End StrRules.
