(* get_types(custom_only=True) = the non-built-in members of the closed set of sorts: a user sort
   that occurs only inside a built-in composite sort (index / element of an array sort, at any
   depth) is reported. *)
From Coq Require Import List ZArith Bool String.
From PySMT.core Require Import Syntax.
From PySMT.models Require Import Oracles OraclesCustom.
From PySMT.proofs Require Import Oracles_proofs.
Import ListNotations.

Theorem get_types_custom_def : forall t s,
  In s (get_types_custom t) <->
  (exists u, sort_occurs u t /\ In s (subtypes u)) /\ is_base_type s = false.
Proof.
  intros t s. unfold get_types_custom. rewrite filter_In, get_types_def.
  rewrite negb_true_iff. reflexivity.
Qed.

(* the two views are consistent: custom_only = default filtered *)
Theorem get_types_custom_filter : forall t s,
  In s (get_types_custom t) <-> In s (get_types t) /\ is_base_type s = false.
Proof.
  intros t s. unfold get_types_custom. rewrite filter_In, negb_true_iff. reflexivity.
Qed.

(* every component sort of a reported array sort is looked into: a user sort below an array sort
   of a symbol is reported although no symbol has that sort (the shape seeded change C12-D hides) *)
Lemma subtypes_refl : forall u, In u (subtypes u).
Proof. destruct u; cbn; auto. Qed.

Theorem custom_sort_inside_array_reported : forall n i e s args,
  In s (subtypes i) \/ In s (subtypes e) -> is_base_type s = false ->
  In s (get_types_custom (T (OSymbol n (TArr i e)) args)).
Proof.
  intros n i e s args Hs Hb. apply get_types_custom_def. split; [|exact Hb].
  exists (TArr i e). split.
  - apply SortHere. cbn. auto.
  - cbn [subtypes]. right. apply in_or_app. exact Hs.
Qed.

Example custom_sort_inside_array_reported_ex :
  get_types_custom (T OEquals [T (OSymbol "a" (TArr (TUser "S" []) TInt)) [];
                               T (OSymbol "b" (TArr (TUser "S" []) TInt)) []])
  = [TUser "S" []].
Proof. vm_compute. reflexivity. Qed.
