(* C11, Ackermannization part, for the REPAIRED code (build/fixes/C11_ackermann_nested.diff):
   [ack_shape] - the result of do_ackermannization contains no function application, for every
   formula and every state reachable from a new Ackermannizer (invariant [Inv]).
   The semantic clauses (ack_complete, ack_sound) are NOT proved: they are covered by the
   correspondence with models/Ackermann.v and by the refeval search oracle of harness/c11.py. *)
From Coq Require Import List ZArith Bool String.
From PySMT.core Require Import Syntax SyntaxLemmas.
From PySMT.models Require Import Oracles Cnf Ackermann.
From PySMT.proofs Require Import Sets_proofs.
Import ListNotations.
Open Scope bool_scope.

Lemma has_app_node o args : has_app (T o args) = false <->
  (forall n ty, o <> OFunction n ty) /\ forall a, In a args -> has_app a = false.
Proof.
  assert (G : existsb has_app args = false <-> forall a, In a args -> has_app a = false).
  { split.
    - intros E a Ha. destruct (has_app a) eqn:X; auto.
      assert (Y : existsb has_app args = true) by (apply existsb_exists; eauto). congruence.
    - intros H. destruct (existsb has_app args) eqn:E; auto. apply existsb_exists in E.
      destruct E as (a & Ha & Hx). rewrite (H a Ha) in Hx. discriminate. }
  destruct o; cbn [has_app];
    try (rewrite G; split; [intros H; split; [intros; discriminate | exact H] | intros [_ H]; exact H]).
  split; [discriminate|]. intros [H _]. exfalso. eapply H; reflexivity.
Qed.

Lemma assoc_t_In t l c : assoc_t t l = Some c -> In (t, c) l.
Proof.
  induction l as [|[g d] r IH]; cbn; [discriminate|]. destruct (term_eqb t g) eqn:E; auto.
  apply term_eqb_eq in E. subst. intros [= ->]. auto.
Qed.
Lemma assoc_t_app_l t l D c : assoc_t t l = Some c -> assoc_t t (l ++ D) = Some c.
Proof. induction l as [|[g d] r IH]; cbn; [discriminate|]. destruct (term_eqb t g); auto. Qed.
Lemma assoc_t_app_r t l c : assoc_t t l = None -> assoc_t t (l ++ [(t, c)]) = Some c.
Proof.
  induction l as [|[g d] r IH]; cbn.
  - assert (E : term_eqb t t = true) by now apply term_eqb_eq. now rewrite E.
  - destruct (term_eqb t g); [discriminate|auto].
Qed.

Lemma tuple_eqb_eq a b : tuple_eqb a b = true <-> a = b.
Proof. apply list_eqb_eq. apply Forall_forall. intros x _ y. apply term_eqb_eq. Qed.

Lemma In_add_args fn args fs g opts o : In (g, opts) (add_args fn args fs) -> In o opts ->
  (exists opts', In (g, opts') fs /\ In o opts') \/ (g = fn /\ o = args).
Proof.
  induction fs as [|[h ho] r IH]; cbn.
  - intros [[= <- <-]|[]] [<-|[]]. auto.
  - destruct (var_eqb fn h) eqn:E.
    + apply var_eqb_eq in E. subst h. intros [[= <- <-]|Hin] Ho.
      * apply (add_In tuple_eqb tuple_eqb_eq) in Ho. destruct Ho as [->|Ho]; [auto | left; eauto].
      * left. eauto.
    + intros [[= <- <-]|Hin] Ho; [left; eauto|].
      destruct (IH Hin Ho) as [(opts' & A & B)|?]; [left; eauto | auto].
Qed.

(* what every state reachable from a new Ackermannizer satisfies *)
Definition Inv (st : astate) : Prop :=
  (forall g c, In (g, c) (terms st) -> has_app c = false) /\
  (forall fn opts o, In (fn, opts) (funs st) -> In o opts ->
                     exists c, assoc_t (T (OFunction (fst fn) (snd fn)) o) (terms st) = Some c).

Lemma Inv_init guess names : Inv (init_astate guess names).
Proof. split; cbn; intros; contradiction. Qed.

Definition StepOk (t : term) : Prop :=
  forall st, Inv st -> Inv (snd (ack_walk t st)) /\ has_app (fst (ack_walk t st)) = false.

Lemma ack_list_ok l : Forall StepOk l ->
  forall st, Inv st -> Inv (snd (ack_list ack_walk l st)) /\
                       forall a, In a (fst (ack_list ack_walk l st)) -> has_app a = false.
Proof.
  induction 1 as [|x l Hx Hl IH]; intros st Hi; cbn [ack_list].
  - split; auto. intros a [].
  - destruct (IH st Hi) as [I1 A1]. destruct (ack_list ack_walk l st) as [rs st1]. cbn [fst snd] in *.
    destruct (Hx st1 I1) as [I2 A2]. destruct (ack_walk x st1) as [x' st2]. cbn [fst snd] in *.
    split; auto. intros a [<-|Ha]; auto.
Qed.

Theorem ack_walk_ok : forall t, StepOk t.
Proof.
  induction t as [o args IH] using term_ind'. intros st Hi.
  assert (U : ack_walk (T o args) st =
              let (nargs, st1) := ack_list ack_walk args st in
              match o with
              | OFunction n fty =>
                  match assoc_t (T o args) (terms st1) with
                  | Some c => (c, st1)
                  | None =>
                      let (nm, m') := new_fresh "ack" (amgr st1) in
                      let c := TSym nm (ret_type fty) in
                      (c, {| amgr := m'; terms := terms st1 ++ [(T o args, c)];
                             funs := add_args (n, fty) args (funs st1) |})
                  end
              | _ => (T o nargs, st1)
              end) by reflexivity.
  rewrite U. clear U.
  destruct (ack_list_ok args IH st Hi) as [I1 A1]. destruct (ack_list ack_walk args st) as [nargs st1].
  cbn [fst snd] in *.
  assert (GEN : (forall n ty, o <> OFunction n ty) -> Inv st1 /\ has_app (T o nargs) = false).
  { intros Hne. split; auto. apply has_app_node. split; auto. }
  destruct o; try (cbn [fst snd]; apply GEN; intros; discriminate).
  clear GEN. destruct (assoc_t (T (OFunction n t) args) (terms st1)) as [c|] eqn:E.
  - cbn [fst snd]. split; auto. destruct I1 as [T1 _]. eapply T1. eapply assoc_t_In; eauto.
  - destruct (new_fresh "ack" (amgr st1)) as [nm m']. cbn [fst snd]. split; [|reflexivity].
    destruct I1 as [T1 F1]. split; cbn [terms funs].
    + intros g c Hin. apply in_app_or in Hin. destruct Hin as [Hin|[[= <- <-]|[]]]; [eauto | reflexivity].
    + intros fn opts o Hin Ho. destruct (In_add_args _ _ _ _ _ _ Hin Ho) as [(opts' & A & B)|[-> ->]].
      * destruct (F1 fn opts' o A B) as (c & Hc). exists c. now apply assoc_t_app_l.
      * cbn [fst snd]. eexists. now apply assoc_t_app_r.
Qed.

Lemma has_app_mk_and l : (forall a, In a l -> has_app a = false) -> has_app (mk_and l) = false.
Proof.
  intros H. destruct l as [|x [|y r]]; cbn [mk_and]; [reflexivity | apply H; now left |].
  apply has_app_node. split; [intros; discriminate | exact H].
Qed.
Lemma has_app_eq_or_iff a b : has_app a = false -> has_app b = false -> has_app (eq_or_iff a b) = false.
Proof.
  intros Ha Hb. unfold eq_or_iff.
  destruct (TypeChecker.tc a) as [[]|]; apply has_app_node; (split; [intros; discriminate|]);
    intros x [<-|[<-|[]]]; auto.
Qed.

Lemma implication_ok st fn o1 o2 : Inv st -> (forall opts, In (fn, opts) (funs st) -> True) ->
  (exists c, assoc_t (T (OFunction (fst fn) (snd fn)) o1) (terms st) = Some c) ->
  (exists c, assoc_t (T (OFunction (fst fn) (snd fn)) o2) (terms st) = Some c) ->
  has_app (implication st fn o1 o2) = false.
Proof.
  intros Hi _ (c1 & H1) (c2 & H2). unfold implication. apply has_app_node. split; [intros; discriminate|].
  intros x [<-|[<-|[]]].
  - apply has_app_mk_and. intros a Ha. apply (proj1 (dedupe_In term_eqb term_eqb_eq _ _)) in Ha.
    apply in_map_iff in Ha. destruct Ha as ([p q] & <- & _). cbn [fst snd]. unfold sub.
    apply has_app_eq_or_iff; apply ack_walk_ok; auto.
  - destruct Hi as [T1 _]. unfold repl. cbn [is_app]. rewrite H1, H2.
    apply has_app_eq_or_iff; [eapply T1 | eapply T1]; eapply assoc_t_In; eauto.
Qed.

Lemma In_pairs {A} (l : list A) x y : In (x, y) (pairs l) -> In x l /\ In y l.
Proof.
  induction l as [|z r IH]; cbn; [intros []|]. intros H. apply in_app_or in H. destruct H as [H|H].
  - apply in_map_iff in H. destruct H as (w & [= <- <-] & Hw). auto.
  - destruct (IH H). auto.
Qed.

(* C11, shape: no uninterpreted-function application is left *)
Theorem ack_shape_inv f st : Inv st -> has_app (fst (ackermannize f st)) = false.
Proof.
  intros Hi. unfold ackermannize. destruct (ack_walk_ok f st Hi) as [I1 A1].
  destruct (ack_walk f st) as [sb st']. cbn [fst snd] in *.
  assert (HI : forall a, In a (implications st') -> has_app a = false).
  { intros a Ha. unfold implications in Ha. apply (proj1 (dedupe_In term_eqb term_eqb_eq _ _)) in Ha.
    apply in_flat_map in Ha. destruct Ha as ([fn opts] & He & Hm). cbn [fst snd] in Hm.
    apply in_map_iff in Hm. destruct Hm as ([o1 o2] & <- & Hp). cbn [fst snd].
    destruct (In_pairs _ _ _ Hp) as [P1 P2]. destruct I1 as [T1 F1].
    apply implication_ok; [split; auto | auto | eapply F1; eauto | eapply F1; eauto]. }
  destruct (implications st') as [|i r] eqn:E; cbn [fst]; auto.
  apply has_app_node. split; [intros; discriminate|]. intros x [<-|[<-|[]]]; auto.
  apply has_app_mk_and. exact HI.
Qed.
Theorem ack_shape f guess names : has_app (fst (ackermannize f (init_astate guess names))) = false.
Proof. apply ack_shape_inv, Inv_init. Qed.

(* ---- regression: the witness that refuted the shape clause before the repair ---- *)
Definition f_ii : ty := TFun [TInt] TInt.
Definition fx : term := T (OFunction "f" f_ii) [TSym "x" TInt].
(* f(f(x) + 1) = x *)
Definition ack_wit : term :=
  T OEquals [T (OFunction "f" f_ii) [T OPlus [fx; TIntC 1]]; TSym "x" TInt].
Definition ack_wit_st : astate := init_astate 0 ["x"; "f"]%string.
(* ((x = ack0 + 1) -> ack0 = ack1) & (ack1 = x)     (was: (x = f(x) + 1) -> ...) *)
Example ack_wit_result :
  fst (ackermannize ack_wit ack_wit_st) =
  T OAnd [T OImplies [T OEquals [TSym "x" TInt; T OPlus [TSym "ack0" TInt; TIntC 1]];
                      T OEquals [TSym "ack0" TInt; TSym "ack1" TInt]];
          T OEquals [TSym "ack1" TInt; TSym "x" TInt]].
Proof. vm_compute. reflexivity. Qed.
Example ack_wit_not_flat : ack_flat ack_wit = false.
Proof. reflexivity. Qed.
