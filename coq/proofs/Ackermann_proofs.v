(* C11, Ackermannization part, for the REPAIRED code (build/fixes/C11_ackermann_nested.diff):
   [ack_shape] - the result of do_ackermannization contains no function application, for every
   formula and every state reachable from a new Ackermannizer (invariant [Inv]).
   The semantic clauses (ack_complete, ack_sound) are NOT proved: they are covered by the
   correspondence with models/Ackermann.v and by the refeval search oracle of harness/c11.py. *)
From Coq Require Import List ZArith Bool String ClassicalDescription.
From PySMT.core Require Import Syntax SyntaxLemmas Sem.
From PySMT.models Require Import TypeChecker Oracles Cnf Ackermann.
From PySMT.proofs Require Import Sets_proofs TypeChecker_proofs Coincidence Cnf_proofs SimplifierSemBase_proofs.
Import ListNotations.
Open Scope bool_scope.

Lemma has_app_node o args : has_app (T o args) = false <->
  (forall n ty, o <> OFunction n ty) /\ forall a, In a args -> has_app a = false.
Proof.
  assert (G : existsb has_app args = false <-> forall a, In a args -> has_app a = false).
  { split.
    - intros E a Ha. destruct (has_app a) eqn:X; auto.
      assert (Y : existsb has_app args = true) by (apply existsb_exists; eauto). congruence.
    - intros H. destruct (existsb has_app args) eqn:E; auto. apply existsb_exists in E.
      destruct E as (a & Ha & Hx). rewrite (H a Ha) in Hx. discriminate. }
  destruct o; cbn [has_app];
    try (rewrite G; split; [intros H; split; [intros; discriminate | exact H] | intros [_ H]; exact H]).
  split; [discriminate|]. intros [H _]. exfalso. eapply H; reflexivity.
Qed.

Lemma assoc_t_In t l c : assoc_t t l = Some c -> In (t, c) l.
Proof.
  induction l as [|[g d] r IH]; cbn; [discriminate|]. destruct (term_eqb t g) eqn:E; auto.
  apply term_eqb_eq in E. subst. intros [= ->]. auto.
Qed.
Lemma assoc_t_app_l t l D c : assoc_t t l = Some c -> assoc_t t (l ++ D) = Some c.
Proof. induction l as [|[g d] r IH]; cbn; [discriminate|]. destruct (term_eqb t g); auto. Qed.
Lemma assoc_t_app_r t l c : assoc_t t l = None -> assoc_t t (l ++ [(t, c)]) = Some c.
Proof.
  induction l as [|[g d] r IH]; cbn.
  - assert (E : term_eqb t t = true) by now apply term_eqb_eq. now rewrite E.
  - destruct (term_eqb t g); [discriminate|auto].
Qed.

Lemma tuple_eqb_eq a b : tuple_eqb a b = true <-> a = b.
Proof. apply list_eqb_eq. apply Forall_forall. intros x _ y. apply term_eqb_eq. Qed.

Lemma In_add_args fn args fs g opts o : In (g, opts) (add_args fn args fs) -> In o opts ->
  (exists opts', In (g, opts') fs /\ In o opts') \/ (g = fn /\ o = args).
Proof.
  induction fs as [|[h ho] r IH]; cbn.
  - intros [[= <- <-]|[]] [<-|[]]. auto.
  - destruct (var_eqb fn h) eqn:E.
    + apply var_eqb_eq in E. subst h. intros [[= <- <-]|Hin] Ho.
      * apply (add_In tuple_eqb tuple_eqb_eq) in Ho. destruct Ho as [->|Ho]; [auto | left; eauto].
      * left. eauto.
    + intros [[= <- <-]|Hin] Ho; [left; eauto|].
      destruct (IH Hin Ho) as [(opts' & A & B)|?]; [left; eauto | auto].
Qed.

(* what every state reachable from a new Ackermannizer satisfies *)
Definition Inv (st : astate) : Prop :=
  (forall g c, In (g, c) (terms st) -> has_app c = false) /\
  (forall fn opts o, In (fn, opts) (funs st) -> In o opts ->
                     exists c, assoc_t (T (OFunction (fst fn) (snd fn)) o) (terms st) = Some c).

Lemma Inv_init guess names : Inv (init_astate guess names).
Proof. split; cbn; intros; contradiction. Qed.

Definition StepOk (t : term) : Prop :=
  forall st, Inv st -> Inv (snd (ack_walk t st)) /\ has_app (fst (ack_walk t st)) = false.

Lemma ack_list_ok l : Forall StepOk l ->
  forall st, Inv st -> Inv (snd (ack_list ack_walk l st)) /\
                       forall a, In a (fst (ack_list ack_walk l st)) -> has_app a = false.
Proof.
  induction 1 as [|x l Hx Hl IH]; intros st Hi; cbn [ack_list].
  - split; auto. intros a [].
  - destruct (IH st Hi) as [I1 A1]. destruct (ack_list ack_walk l st) as [rs st1]. cbn [fst snd] in *.
    destruct (Hx st1 I1) as [I2 A2]. destruct (ack_walk x st1) as [x' st2]. cbn [fst snd] in *.
    split; auto. intros a [<-|Ha]; auto.
Qed.

Theorem ack_walk_ok : forall t, StepOk t.
Proof.
  induction t as [o args IH] using term_ind'. intros st Hi.
  assert (U : ack_walk (T o args) st =
              let (nargs, st1) := ack_list ack_walk args st in
              match o with
              | OFunction n fty =>
                  match assoc_t (T o args) (terms st1) with
                  | Some c => (c, st1)
                  | None =>
                      let (nm, m') := new_fresh "ack" (amgr st1) in
                      let c := TSym nm (ret_type fty) in
                      (c, {| amgr := m'; terms := terms st1 ++ [(T o args, c)];
                             funs := add_args (n, fty) args (funs st1) |})
                  end
              | _ => (T o nargs, st1)
              end) by reflexivity.
  rewrite U. clear U.
  destruct (ack_list_ok args IH st Hi) as [I1 A1]. destruct (ack_list ack_walk args st) as [nargs st1].
  cbn [fst snd] in *.
  assert (GEN : (forall n ty, o <> OFunction n ty) -> Inv st1 /\ has_app (T o nargs) = false).
  { intros Hne. split; auto. apply has_app_node. split; auto. }
  destruct o; try (cbn [fst snd]; apply GEN; intros; discriminate).
  clear GEN. destruct (assoc_t (T (OFunction n t) args) (terms st1)) as [c|] eqn:E.
  - cbn [fst snd]. split; auto. destruct I1 as [T1 _]. eapply T1. eapply assoc_t_In; eauto.
  - destruct (new_fresh "ack" (amgr st1)) as [nm m']. cbn [fst snd]. split; [|reflexivity].
    destruct I1 as [T1 F1]. split; cbn [terms funs].
    + intros g c Hin. apply in_app_or in Hin. destruct Hin as [Hin|[[= <- <-]|[]]]; [eauto | reflexivity].
    + intros fn opts o Hin Ho. destruct (In_add_args _ _ _ _ _ _ Hin Ho) as [(opts' & A & B)|[-> ->]].
      * destruct (F1 fn opts' o A B) as (c & Hc). exists c. now apply assoc_t_app_l.
      * cbn [fst snd]. eexists. now apply assoc_t_app_r.
Qed.

Lemma has_app_mk_and l : (forall a, In a l -> has_app a = false) -> has_app (mk_and l) = false.
Proof.
  intros H. destruct l as [|x [|y r]]; cbn [mk_and]; [reflexivity | apply H; now left |].
  apply has_app_node. split; [intros; discriminate | exact H].
Qed.
Lemma has_app_eq_or_iff a b : has_app a = false -> has_app b = false -> has_app (eq_or_iff a b) = false.
Proof.
  intros Ha Hb. unfold eq_or_iff.
  destruct (TypeChecker.tc a) as [[]|]; apply has_app_node; (split; [intros; discriminate|]);
    intros x [<-|[<-|[]]]; auto.
Qed.

Lemma implication_ok st fn o1 o2 : Inv st -> (forall opts, In (fn, opts) (funs st) -> True) ->
  (exists c, assoc_t (T (OFunction (fst fn) (snd fn)) o1) (terms st) = Some c) ->
  (exists c, assoc_t (T (OFunction (fst fn) (snd fn)) o2) (terms st) = Some c) ->
  has_app (implication st fn o1 o2) = false.
Proof.
  intros Hi _ (c1 & H1) (c2 & H2). unfold implication. apply has_app_node. split; [intros; discriminate|].
  intros x [<-|[<-|[]]].
  - apply has_app_mk_and. intros a Ha. apply (proj1 (dedupe_In term_eqb term_eqb_eq _ _)) in Ha.
    apply in_map_iff in Ha. destruct Ha as ([p q] & <- & _). cbn [fst snd]. unfold sub.
    apply has_app_eq_or_iff; apply ack_walk_ok; auto.
  - destruct Hi as [T1 _]. unfold repl. cbn [is_app]. rewrite H1, H2.
    apply has_app_eq_or_iff; [eapply T1 | eapply T1]; eapply assoc_t_In; eauto.
Qed.

Lemma In_pairs {A} (l : list A) x y : In (x, y) (pairs l) -> In x l /\ In y l.
Proof.
  induction l as [|z r IH]; cbn; [intros []|]. intros H. apply in_app_or in H. destruct H as [H|H].
  - apply in_map_iff in H. destruct H as (w & [= <- <-] & Hw). auto.
  - destruct (IH H). auto.
Qed.

(* C11, shape: no uninterpreted-function application is left *)
Theorem ack_shape_inv f st : Inv st -> has_app (fst (ackermannize f st)) = false.
Proof.
  intros Hi. unfold ackermannize. destruct (ack_walk_ok f st Hi) as [I1 A1].
  destruct (ack_walk f st) as [sb st']. cbn [fst snd] in *.
  assert (HI : forall a, In a (implications st') -> has_app a = false).
  { intros a Ha. unfold implications in Ha. apply (proj1 (dedupe_In term_eqb term_eqb_eq _ _)) in Ha.
    apply in_flat_map in Ha. destruct Ha as ([fn opts] & He & Hm). cbn [fst snd] in Hm.
    apply in_map_iff in Hm. destruct Hm as ([o1 o2] & <- & Hp). cbn [fst snd].
    destruct (In_pairs _ _ _ Hp) as [P1 P2]. destruct I1 as [T1 F1].
    apply implication_ok; [split; auto | auto | eapply F1; eauto | eapply F1; eauto]. }
  destruct (implications st') as [|i r] eqn:E; cbn [fst]; auto.
  apply has_app_node. split; [intros; discriminate|]. intros x [<-|[<-|[]]]; auto.
  apply has_app_mk_and. exact HI.
Qed.
Theorem ack_shape f guess names : has_app (fst (ackermannize f (init_astate guess names))) = false.
Proof. apply ack_shape_inv, Inv_init. Qed.

(* ---- regression: the witness that refuted the shape clause before the repair ---- *)
Definition f_ii : ty := TFun [TInt] TInt.
Definition fx : term := T (OFunction "f" f_ii) [TSym "x" TInt].
(* f(f(x) + 1) = x *)
Definition ack_wit : term :=
  T OEquals [T (OFunction "f" f_ii) [T OPlus [fx; TIntC 1]]; TSym "x" TInt].
Definition ack_wit_st : astate := init_astate 0 ["x"; "f"]%string.
(* ((x = ack0 + 1) -> ack0 = ack1) & (ack1 = x)     (was: (x = f(x) + 1) -> ...) *)
Example ack_wit_result :
  fst (ackermannize ack_wit ack_wit_st) =
  T OAnd [T OImplies [T OEquals [TSym "x" TInt; T OPlus [TSym "ack0" TInt; TIntC 1]];
                      T OEquals [TSym "ack0" TInt; TSym "ack1" TInt]];
          T OEquals [TSym "ack1" TInt; TSym "x" TInt]].
Proof. vm_compute. reflexivity. Qed.
Example ack_wit_not_flat : ack_flat ack_wit = false.
Proof. reflexivity. Qed.

(* ================================================================= semantics: ack_complete, ack_sound *)
(* the rewriting as a pure function of the final table _terms_dict *)
Fixpoint psub (tab : list (term * term)) (t : term) : term :=
  match t with
  | T o args =>
      match o with
      | OFunction _ _ => match assoc_t t tab with Some c => c | None => T o (map (psub tab) args) end
      | _ => T o (map (psub tab) args)
      end
  end.
Definition is_some {A} (o : option A) : bool := match o with Some _ => true | None => false end.
(* every application under t (nested ones included) has its constant *)
Fixpoint covered (tab : list (term * term)) (t : term) : bool :=
  match t with
  | T o args => forallb (covered tab) args &&
                match o with OFunction _ _ => is_some (assoc_t t tab) | _ => true end
  end.
Definition cname (c : term) : string := match c with T (OSymbol n _) _ => n | _ => EmptyString end.
Fixpoint opts_of (fn : var) (fs : list (var * list (list term))) : list (list term) :=
  match fs with
  | [] => []
  | (g, opts) :: r => if var_eqb fn g then opts else opts_of fn r
  end.

Lemma covered_mono tab D : forall t, covered tab t = true ->
  covered (tab ++ D) t = true /\ psub (tab ++ D) t = psub tab t.
Proof.
  induction t as [o args IH] using term_ind'. intros H. cbn [covered] in H. apply andb_true_iff in H.
  destruct H as [Ha Ho]. rewrite forallb_forall in Ha. rewrite Forall_forall in IH.
  assert (A1 : forallb (covered (tab ++ D)) args = true).
  { apply forallb_forall. intros x Hx. apply IH; auto. }
  assert (A2 : map (psub (tab ++ D)) args = map (psub tab) args).
  { apply map_ext_in. intros x Hx. apply IH; auto. }
  cbn [covered psub]. rewrite A1, A2. destruct o; auto.
  destruct (assoc_t (T (OFunction n t) args) tab) as [c|] eqn:E; [|discriminate].
  rewrite (assoc_t_app_l _ _ D _ E). auto.
Qed.

Lemma opts_of_add_same fn args fs : In args (opts_of fn (add_args fn args fs)).
Proof.
  induction fs as [|[g opts] r IH]; cbn.
  - rewrite (proj2 (var_eqb_eq fn fn) eq_refl). now left.
  - destruct (var_eqb fn g) eqn:E; cbn; rewrite E; auto.
    apply (add_In tuple_eqb tuple_eqb_eq). now left.
Qed.
Lemma opts_of_add_mono fn' fn args fs o : In o (opts_of fn' fs) -> In o (opts_of fn' (add_args fn args fs)).
Proof.
  induction fs as [|[g opts] r IH]; cbn; [intros []|].
  destruct (var_eqb fn g) eqn:E; cbn; destruct (var_eqb fn' g) eqn:E'; auto.
  intros H. apply (add_In tuple_eqb tuple_eqb_eq). now right.
Qed.
Lemma opts_of_In fn fs o : In o (opts_of fn fs) -> exists opts, In (fn, opts) fs /\ In o opts.
Proof.
  induction fs as [|[g opts] r IH]; cbn; [intros []|].
  destruct (var_eqb fn g) eqn:E.
  - apply var_eqb_eq in E. subst. eauto.
  - intros H. destruct (IH H) as (opts' & A & B). eauto.
Qed.

Section AckInv.
  Variable Q : term -> Prop.                 (* a subterm-closed property of the input *)
  Hypothesis Qsub : forall o args, Q (T o args) -> Forall Q args.
  Variable names0 : list string.             (* the manager's symbol names at the start *)

  Record Inv2 (st : astate) : Prop := {
    i_keys : forall app c, In (app, c) (terms st) ->
             exists n fty args nm, app = T (OFunction n fty) args /\ c = TSym nm (ret_type fty) /\
               ~ In nm names0 /\ Q app /\ Forall (fun a => covered (terms st) a = true) args /\
               In args (opts_of (n, fty) (funs st));
    i_nodup : NoDup (map (fun p => cname (snd p)) (terms st));
    i_names : forall app c, In (app, c) (terms st) -> In (cname c) (mnames (amgr st));
    i_mono : incl names0 (mnames (amgr st));
    i_funs : forall fn opts o, In (fn, opts) (funs st) -> In o opts ->
             exists c, assoc_t (T (OFunction (fst fn) (snd fn)) o) (terms st) = Some c
  }.

  Definition WalkOk (t : term) : Prop := forall st, Inv2 st ->
    Inv2 (snd (ack_walk t st)) /\ (exists D, terms (snd (ack_walk t st)) = terms st ++ D) /\
    covered (terms (snd (ack_walk t st))) t = true /\
    fst (ack_walk t st) = psub (terms (snd (ack_walk t st))) t.

  Lemma ack_list_walk l : Forall WalkOk l -> forall st, Inv2 st ->
    Inv2 (snd (ack_list ack_walk l st)) /\ (exists D, terms (snd (ack_list ack_walk l st)) = terms st ++ D) /\
    forallb (covered (terms (snd (ack_list ack_walk l st)))) l = true /\
    fst (ack_list ack_walk l st) = map (psub (terms (snd (ack_list ack_walk l st)))) l.
  Proof.
    induction 1 as [|x l Hx Hl IH]; intros st Hi; cbn [ack_list].
    - split; [exact Hi|]. split; [exists []; now rewrite app_nil_r|]. split; reflexivity.
    - destruct (IH st Hi) as (I1 & (D1 & E1) & C1 & R1). destruct (ack_list ack_walk l st) as [rs st1].
      cbn [fst snd] in *. destruct (Hx st1 I1) as (I2 & (D2 & E2) & C2 & R2).
      destruct (ack_walk x st1) as [x' st2]. cbn [fst snd] in *.
      split; auto. split; [exists (D1 ++ D2); now rewrite E2, E1, app_assoc|].
      assert (M : forall a, In a l -> covered (terms st2) a = true /\ psub (terms st2) a = psub (terms st1) a).
      { intros a Ha. rewrite E2. apply covered_mono. rewrite forallb_forall in C1. auto. }
      split.
      + cbn [forallb]. rewrite C2. apply forallb_forall. intros a Ha. apply M, Ha.
      + cbn [map]. rewrite R2, R1. f_equal. apply map_ext_in. intros a Ha. symmetry. apply M, Ha.
  Qed.

  Theorem ack_walk_spec : forall t, Q t -> WalkOk t.
  Proof.
    induction t as [o args IH] using term_ind'. intros Hq st Hi.
    assert (U : ack_walk (T o args) st =
                let (nargs, st1) := ack_list ack_walk args st in
                match o with
                | OFunction n fty =>
                    match assoc_t (T o args) (terms st1) with
                    | Some c => (c, st1)
                    | None =>
                        let (nm, m') := new_fresh "ack" (amgr st1) in
                        let c := TSym nm (ret_type fty) in
                        (c, {| amgr := m'; terms := terms st1 ++ [(T o args, c)];
                               funs := add_args (n, fty) args (funs st1) |})
                    end
                | _ => (T o nargs, st1)
                end) by reflexivity.
    rewrite U. clear U.
    assert (IH' : Forall WalkOk args).
    { pose proof (Qsub _ _ Hq) as Hqa. rewrite Forall_forall in IH, Hqa |- *. auto. }
    destruct (ack_list_walk args IH' st Hi) as (I1 & (D1 & E1) & C1 & R1).
    destruct (ack_list ack_walk args st) as [nargs st1]. cbn [fst snd] in *.
    assert (GEN : (forall n ty, o <> OFunction n ty) ->
                  Inv2 st1 /\ (exists D, terms st1 = terms st ++ D) /\ covered (terms st1) (T o args) = true /\
                  T o nargs = psub (terms st1) (T o args)).
    { intros Hne. split; auto. split; [eauto|]. split.
      - cbn [covered]. rewrite C1. destruct o; auto. exfalso. eapply Hne; eauto.
      - rewrite R1. destruct o; auto. exfalso. eapply Hne; eauto. }
    destruct o; try (cbn [fst snd]; apply GEN; intros; discriminate).
    clear GEN. destruct (assoc_t (T (OFunction n t) args) (terms st1)) as [c|] eqn:E.
    - cbn [fst snd]. split; auto. split; [eauto|]. split.
      + cbn [covered]. now rewrite C1, E.
      + cbn [psub]. now rewrite E.
    - destruct (new_fresh "ack" (amgr st1)) as [nm m'] eqn:F. cbn [fst snd terms].
      apply new_fresh_spec in F. destruct F as [Hfresh Hnames].
      set (tab2 := terms st1 ++ [(T (OFunction n t) args, TSym nm (ret_type t))]).
      assert (A2 : assoc_t (T (OFunction n t) args) tab2 = Some (TSym nm (ret_type t))) by (now apply assoc_t_app_r).
      assert (M : forall a, covered (terms st1) a = true -> covered tab2 a = true) by (intros a Ha; now apply covered_mono).
      split; [|split; [exists (D1 ++ [(T (OFunction n t) args, TSym nm (ret_type t))]); unfold tab2; now rewrite E1, app_assoc|split]].
      + destruct I1 as [K1 N1 Nm1 Mo1 F1]. constructor; cbn [terms funs amgr]; fold tab2.
        * intros app c Hin. apply in_app_or in Hin. destruct Hin as [Hin|[[= <- <-]|[]]].
          -- destruct (K1 app c Hin) as (n0 & fty & args0 & nm0 & -> & -> & Hn0 & Hq0 & Hc0 & Ho0).
             exists n0, fty, args0, nm0.
             split; [reflexivity|]. split; [reflexivity|]. split; [exact Hn0|]. split; [exact Hq0|]. split.
             ++ rewrite Forall_forall in Hc0 |- *. auto.
             ++ now apply opts_of_add_mono.
          -- exists n, t, args, nm.
             split; [reflexivity|]. split; [reflexivity|]. split; [|split; [exact Hq|split]].
             ++ intros Hn. apply Hfresh. now apply Mo1.
             ++ apply Forall_forall. intros a Ha. apply M. rewrite forallb_forall in C1. auto.
             ++ apply opts_of_add_same.
        * unfold tab2. rewrite map_app. cbn. apply NoDup_snoc; auto. intros Hin. apply Hfresh.
          apply in_map_iff in Hin. destruct Hin as ([app c] & <- & Hin). eapply Nm1; eauto.
        * intros app c Hin. rewrite Hnames. apply in_or_app. apply in_app_or in Hin.
          destruct Hin as [Hin|[[= <- <-]|[]]]; [left; eauto | right; now left].
        * rewrite Hnames. apply incl_appl. exact Mo1.
        * intros fn opts o Hin Ho. destruct (In_add_args _ _ _ _ _ _ Hin Ho) as [(opts' & A & B)|[-> ->]].
          -- destruct (F1 fn opts' o A B) as (c & Hc). exists c. now apply assoc_t_app_l.
          -- cbn [fst snd]. eexists. exact A2.
      + cbn [covered]. rewrite A2. cbn. rewrite andb_true_r. apply forallb_forall. intros a Ha. apply M.
        rewrite forallb_forall in C1. auto.
      + cbn [psub]. now rewrite A2.
  Qed.

  (* walking again a term whose applications all have their constant changes nothing *)
  Lemma rewalk : forall t st, covered (terms st) t = true -> ack_walk t st = (psub (terms st) t, st).
  Proof.
    induction t as [o args IH] using term_ind'. intros st H. cbn [covered] in H. apply andb_true_iff in H.
    destruct H as [Ha Ho].
    assert (L : ack_list ack_walk args st = (map (psub (terms st)) args, st)).
    { clear Ho. induction args as [|x r IHr]; cbn [ack_list map]; auto.
      cbn [forallb] in Ha. apply andb_true_iff in Ha. destruct Ha as [Hx Hr].
      inversion IH as [|? ? IHx IHrest]; subst. rewrite (IHr IHrest Hr), (IHx st Hx). reflexivity. }
    assert (U : ack_walk (T o args) st =
                let (nargs, st1) := ack_list ack_walk args st in
                match o with
                | OFunction n fty =>
                    match assoc_t (T o args) (terms st1) with
                    | Some c => (c, st1)
                    | None =>
                        let (nm, m') := new_fresh "ack" (amgr st1) in
                        let c := TSym nm (ret_type fty) in
                        (c, {| amgr := m'; terms := terms st1 ++ [(T o args, c)];
                               funs := add_args (n, fty) args (funs st1) |})
                    end
                | _ => (T o nargs, st1)
                end) by reflexivity.
    rewrite U, L. destruct o; auto. cbn [psub].
    destruct (assoc_t (T (OFunction n t) args) (terms st)); [reflexivity|discriminate].
  Qed.
End AckInv.

(* ------------------------------------------------------------------ small semantic facts *)
Lemma tv_equals J a b : tv J (T OEquals [a; b]) = veqb (eval J a) (eval J b).
Proof. reflexivity. Qed.
Lemma eq_or_iff_of_eq J a b : eval J a = eval J b -> tv J (eq_or_iff a b) = true.
Proof.
  intros H. unfold eq_or_iff. destruct (tc a) as [[]|]; rewrite ?tv_iff, ?tv_equals; unfold tv;
    rewrite H; auto using eqb_reflx, veqb_refl.
Qed.
Lemma eq_or_iff_eq J a b : tv J (eq_or_iff a b) = true ->
  (tc a = Some TBool -> is_vbool (eval J a) /\ is_vbool (eval J b)) -> eval J a = eval J b.
Proof.
  unfold eq_or_iff. intros H Hb. destruct (tc a) as [[]|]; try (rewrite tv_equals in H; now apply veqb_true).
  rewrite tv_iff in H. apply eqb_prop in H. destruct (Hb eq_refl) as [(x & Hx) (y & Hy)].
  unfold tv in H. rewrite Hx, Hy in *. cbn in H. now subst.
Qed.

Lemma eval_node_plain I I' o args args' : plain_op o = true -> rdiv0 I = rdiv0 I' -> idiv0 I = idiv0 I' ->
  map (eval I) args = map (eval I') args' -> eval I (T o args) = eval I' (T o args').
Proof.
  intros Hp A B E. rewrite !eval_plain by exact Hp. rewrite E.
  apply (op_sem_agree (fun _ => False) (fun _ => False)). repeat split; auto; intros ? ? [].
Qed.

Fixpoint symnames (t : term) : list string :=
  match t with
  | T (OSymbol n _) args => n :: flat_map symnames args
  | T _ args => flat_map symnames args
  end.
Lemma symnames_arg o args a : In a args -> incl (symnames a) (symnames (T o args)).
Proof.
  intros Ha n Hn. assert (In n (flat_map symnames args)) by (apply in_flat_map; eauto).
  destruct o; cbn; auto.
Qed.
Lemma is_qf_args o args : is_qf (T o args) = true -> forallb is_qf args = true.
Proof. destruct o; cbn; auto; discriminate. Qed.

Lemma pairs_In {A} (l : list A) x y : In x l -> In y l -> x <> y -> In (x, y) (pairs l) \/ In (y, x) (pairs l).
Proof.
  induction l as [|z r IH]; cbn; [intros []|]. intros [->|Hx] [->|Hy] Hne.
  - contradiction.
  - left. apply in_or_app. left. now apply in_map.
  - right. apply in_or_app. left. now apply in_map.
  - destruct (IH Hx Hy Hne); [left|right]; apply in_or_app; auto.
Qed.
Lemma opts_of_entry fn fs o : In o (opts_of fn fs) -> In (fn, opts_of fn fs) fs.
Proof.
  induction fs as [|[g opts] r IH]; cbn; [intros []|].
  destruct (var_eqb fn g) eqn:E.
  - apply var_eqb_eq in E. subst. auto.
  - auto.
Qed.
Lemma In_implications st fn opts o1 o2 : In (fn, opts) (funs st) -> In (o1, o2) (pairs opts) ->
  In (implication st fn o1 o2) (implications st).
Proof.
  intros He Hp. unfold implications. apply (dedupe_In term_eqb term_eqb_eq). apply in_flat_map.
  exists (fn, opts). split; auto. cbn [fst snd]. apply in_map_iff. exists (o1, o2). auto.
Qed.
Lemma map_eq_combine {A B} (g : A -> B) : forall l1 l2, map g l1 = map g l2 ->
  forall a b, In (a, b) (combine l1 l2) -> g a = g b.
Proof.
  induction l1 as [|x r IH]; intros [|y r2] E a b Hin; cbn in *; try contradiction; try discriminate.
  injection E as E1 E2. destruct Hin as [[= <- <-]|Hin]; eauto.
Qed.
Lemma tv_mk_and_true J l : tv J (mk_and l) = true <-> forall a, In a l -> tv J a = true.
Proof. rewrite tv_mk_and. apply forallb_forall. Qed.

(* the initial state of a new Ackermannizer satisfies the invariant *)
Lemma Inv2_init0 (Q : term -> Prop) names0 guess names : incl names0 names -> Inv2 Q names0 (init_astate guess names).
Proof. intros H. constructor; cbn; try (intros; contradiction); [constructor | exact H]. Qed.
Lemma Inv2_init (Q : term -> Prop) guess names : Inv2 Q names (init_astate guess names).
Proof. apply Inv2_init0, incl_refl. Qed.

(* a call from any state satisfying the invariant (a reused object) *)
Lemma call_spec (Q : term -> Prop) (Qsub : forall o args, Q (T o args) -> Forall Q args) names0 f st : Q f -> Inv2 Q names0 st ->
  let r := ack_walk f st in
  Inv2 Q names0 (snd r) /\ covered (terms (snd r)) f = true /\ fst r = psub (terms (snd r)) f.
Proof.
  intros Hq Hi. destruct (ack_walk_spec Q Qsub names0 f Hq _ Hi) as (A & _ & B & C). auto.
Qed.

Lemma run_spec (Q : term -> Prop) (Qsub : forall o args, Q (T o args) -> Forall Q args) f guess names : Q f ->
  let r := ack_walk f (init_astate guess names) in
  Inv2 Q names (snd r) /\ covered (terms (snd r)) f = true /\ fst r = psub (terms (snd r)) f.
Proof.
  intros Hq. destruct (ack_walk_spec Q Qsub names f Hq _ (Inv2_init Q guess names)) as (A & _ & B & C). auto.
Qed.

(* ================================================================= ack_sound *)
Section Sound.
  Variable J : interp.
  Variable tab : list (term * term).

  (* the first recorded application of (n, fty) whose (rewritten) arguments have the values vs *)
  Fixpoint ffind (n : string) (fty : ty) (vs : list value) (l : list (term * term)) : option term :=
    match l with
    | [] => None
    | (app, _) :: r =>
        match app with
        | T (OFunction n' fty') args =>
            if String.eqb n n' && ty_eqb fty fty'
            then if excluded_middle_informative (map (eval J) (map (psub tab) args) = vs)
                 then Some app else ffind n fty vs r
            else ffind n fty vs r
        | _ => ffind n fty vs r
        end
    end.
  (* J with the eliminated functions read off the constants; elsewhere J's own functions *)
  Definition funI : interp :=
    {| isym := isym J;
       ifun := fun n fty vs =>
                 match ffind n fty vs tab with
                 | Some app => match assoc_t app tab with Some c => eval J c | None => ifun J n fty vs end
                 | None => ifun J n fty vs
                 end;
       rdiv0 := rdiv0 J; idiv0 := idiv0 J |}.

  Lemma ffind_some n fty vs : forall l app, ffind n fty vs l = Some app ->
    (exists c, In (app, c) l) /\ exists args, app = T (OFunction n fty) args /\ map (eval J) (map (psub tab) args) = vs.
  Proof.
    induction l as [|[a c] r IH]; cbn; [discriminate|]. intros app H.
    assert (G : ffind n fty vs r = Some app -> (exists c0, (a, c) = (app, c0) \/ In (app, c0) r) /\
                exists args, app = T (OFunction n fty) args /\ map (eval J) (map (psub tab) args) = vs).
    { intros H'. destruct (IH _ H') as ((c0 & Hc0) & Hr). split; eauto. }
    destruct a as [o args]. destruct o; auto.
    destruct (String.eqb n n0 && ty_eqb fty t) eqn:E; auto.
    destruct (excluded_middle_informative (map (eval J) (map (psub tab) args) = vs)) as [Ev|]; auto.
    injection H as <-. apply andb_true_iff in E. destruct E as [E1 E2].
    apply String.eqb_eq in E1. apply ty_eqb_eq in E2. subst. split; eauto.
  Qed.
  Lemma ffind_exists n fty args c : forall l, In (T (OFunction n fty) args, c) l ->
    exists app, ffind n fty (map (eval J) (map (psub tab) args)) l = Some app.
  Proof.
    induction l as [|[a c0] r IH]; cbn; [intros []|]. intros [E|Hin].
    - injection E as -> ->. rewrite String.eqb_refl, ty_eqb_refl. cbn.
      destruct (excluded_middle_informative _) as [|Hn]; [eauto | contradiction].
    - destruct (IH Hin) as (app & Ha). destruct a as [o args0]. destruct o; eauto.
      destruct (String.eqb n n0 && ty_eqb fty t); eauto.
      destruct (excluded_middle_informative _); eauto.
  Qed.

  Variable st : astate.
  Hypothesis Htab : tab = terms st.
  Variable names0 : list string.
  Hypothesis Hinv : Inv2 (fun t => is_qf t = true) names0 st.
  Hypothesis Hwf : wfi J.
  Hypothesis Himps : forall a, In a (implications st) -> tv J a = true.

  Lemma const_is_bool c : (exists app, In (app, c) tab) -> tc c = Some TBool -> is_vbool (eval J c).
  Proof.
    intros (app & Hin) Ht. rewrite Htab in Hin.
    destruct (i_keys _ _ _ Hinv app c Hin) as (n & fty & args & nm & _ & -> & _).
    cbn in Ht. injection Ht as Ht. rewrite Ht. apply has_ty_bool. cbn [eval TSym]. apply (wf_isym J nm TBool Hwf eq_refl).
  Qed.

  Lemma sub_psub a : covered tab a = true -> sub st a = psub tab a.
  Proof. intros H. unfold sub. rewrite Htab in *. now rewrite rewalk. Qed.

  (* two recorded applications of the same function with equal argument values have constants
     of equal value: this is what the consistency implications say *)
  Lemma consistent n fty args1 args2 c1 c2 :
    assoc_t (T (OFunction n fty) args1) tab = Some c1 -> assoc_t (T (OFunction n fty) args2) tab = Some c2 ->
    map (eval J) (map (psub tab) args1) = map (eval J) (map (psub tab) args2) ->
    eval J c1 = eval J c2.
  Proof.
    intros A1 A2 Ev.
    destruct (tuple_eqb args1 args2) eqn:Et.
    { apply tuple_eqb_eq in Et. subst. rewrite A1 in A2. now injection A2 as ->. }
    assert (Hne : args1 <> args2) by (intros ->; rewrite (proj2 (tuple_eqb_eq args2 args2) eq_refl) in Et; discriminate).
    pose proof (assoc_t_In _ _ _ A1) as In1. pose proof (assoc_t_In _ _ _ A2) as In2. rewrite Htab in In1, In2.
    destruct (i_keys _ _ _ Hinv _ _ In1) as (n1 & f1 & a1 & nm1 & E1 & -> & _ & _ & Cov1 & O1).
    destruct (i_keys _ _ _ Hinv _ _ In2) as (n2 & f2 & a2 & nm2 & E2 & -> & _ & _ & Cov2 & O2).
    injection E1 as <- <- <-. injection E2 as <- <- <-.
    pose proof (opts_of_entry _ _ _ O1) as He.
    assert (IMP : forall x y cx cy, In x (opts_of (n, fty) (funs st)) -> In y (opts_of (n, fty) (funs st)) ->
              In (x, y) (pairs (opts_of (n, fty) (funs st))) ->
              assoc_t (T (OFunction n fty) x) tab = Some cx -> assoc_t (T (OFunction n fty) y) tab = Some cy ->
              Forall (fun a => covered tab a = true) x -> Forall (fun a => covered tab a = true) y ->
              map (eval J) (map (psub tab) x) = map (eval J) (map (psub tab) y) ->
              tv J (eq_or_iff cx cy) = true).
    { intros x y cx cy Hx Hy Hp Ax Ay Cx Cy Exy.
      pose proof (Himps _ (In_implications st (n, fty) _ x y He Hp)) as Hi.
      unfold implication in Hi. cbn [fst snd] in Hi. rewrite tv_implies in Hi.
      unfold repl in Hi. cbn [is_app] in Hi. rewrite <- Htab, Ax, Ay in Hi.
      assert (Hant : tv J (mk_and (dedupe term_eqb (map (fun p => eq_or_iff (sub st (fst p)) (sub st (snd p))) (combine x y)))) = true).
      { apply tv_mk_and_true. intros e He'. apply (proj1 (dedupe_In term_eqb term_eqb_eq _ _)) in He'.
        apply in_map_iff in He'. destruct He' as ([p q] & <- & Hpq). cbn [fst snd].
        rewrite Forall_forall in Cx, Cy.
        rewrite (sub_psub p (Cx p (in_combine_l _ _ _ _ Hpq))), (sub_psub q (Cy q (in_combine_r _ _ _ _ Hpq))).
        apply eq_or_iff_of_eq. rewrite !map_map in Exy. exact (map_eq_combine _ _ _ Exy _ _ Hpq). }
      rewrite Hant in Hi. exact Hi. }
    rewrite <- Htab in Cov1, Cov2.
    destruct (pairs_In _ _ _ O1 O2 Hne) as [Hp|Hp].
    - pose proof (IMP _ _ _ _ O1 O2 Hp A1 A2 Cov1 Cov2 Ev) as Hc. apply (eq_or_iff_eq _ _ _ Hc).
      intros Ht. split; apply const_is_bool; eauto using assoc_t_In.
    - pose proof (IMP _ _ _ _ O2 O1 Hp A2 A1 Cov2 Cov1 (eq_sym Ev)) as Hc. symmetry. apply (eq_or_iff_eq _ _ _ Hc).
      intros Ht. split; apply const_is_bool; eauto using assoc_t_In.
  Qed.

  Theorem funI_eval : forall t, covered tab t = true -> is_qf t = true -> eval funI t = eval J (psub tab t).
  Proof.
    induction t as [o args IH] using term_ind'. intros Hc Hq.
    cbn [covered] in Hc. apply andb_true_iff in Hc. destruct Hc as [Ha Ho].
    pose proof (is_qf_args _ _ Hq) as Hqa.
    assert (Hargs : map (eval funI) args = map (eval J) (map (psub tab) args)).
    { rewrite map_map. apply map_ext_in. intros a Hin. rewrite Forall_forall in IH.
      rewrite forallb_forall in Ha, Hqa. auto. }
    destruct (plain_op o) eqn:Hp.
    - assert (E : psub tab (T o args) = T o (map (psub tab) args)) by (destruct o; try discriminate; reflexivity).
      rewrite E. apply eval_node_plain; auto.
    - destruct o; try discriminate.
      + reflexivity.
      + (* application *)
        destruct (assoc_t (T (OFunction n t) args) tab) as [c|] eqn:A; [|discriminate].
        cbn [psub]. rewrite A. cbn [eval]. rewrite Hargs. cbn [ifun funI].
        pose proof (assoc_t_In _ _ _ A) as Hin.
        destruct (ffind_exists n t args c tab Hin) as (app & Hf). rewrite Hf.
        destruct (ffind_some _ _ _ _ _ Hf) as ((c0 & Hin0) & args' & -> & Ev).
        rewrite Htab in Hin0.
        destruct (i_keys _ _ _ Hinv _ _ Hin0) as (n1 & f1 & a1 & nm1 & E1 & _ & _ & _ & _ & O1).
        injection E1 as <- <- <-.
        destruct (opts_of_In _ _ _ O1) as (opts & He & Ho1).
        destruct (i_funs _ _ _ Hinv _ _ _ He Ho1) as (c' & Ac'). cbn [fst snd] in Ac'. rewrite <- Htab in Ac'.
        rewrite Ac'. exact (consistent n t args' args c' c Ac' A Ev).
  Qed.
End Sound.

Lemma qf_sub o args : is_qf (T o args) = true -> Forall (fun t => is_qf t = true) args.
Proof. intros H. apply Forall_forall. apply forallb_forall. exact (is_qf_args o args H). Qed.

(* what holding under J says about the two shapes of the result *)
Lemma ack_result_holds J f st0 :
  holds J (fst (ackermannize f st0)) ->
  holds J (fst (ack_walk f st0)) /\ forall a, In a (implications (snd (ack_walk f st0))) -> tv J a = true.
Proof.
  unfold ackermannize. destruct (ack_walk f st0) as [sb st']. cbn [fst snd].
  destruct (implications st') as [|i r] eqn:E; cbn [fst].
  - intros H. split; [exact H | intros a []].
  - intros H. apply holds_tv in H. rewrite tv_and in H. cbn [forallb] in H.
    apply andb_true_iff in H. destruct H as [H1 H2]. apply andb_true_iff in H2. destruct H2 as [H2 _].
    split; [now apply holds_tv|]. now apply tv_mk_and_true.
Qed.

(* C11, soundness of Ackermannization: an interpretation J (well-sorted: [wfi], i.e. wf_interp)
   satisfying the result yields one that satisfies the input, differing from J only in the
   interpretation of function symbols *)
Theorem ack_sound_reuse f st names0 J : Inv2 (fun t => is_qf t = true) names0 st -> is_qf f = true -> wfi J ->
  holds J (fst (ackermannize f st)) ->
  exists I, isym I = isym J /\ rdiv0 I = rdiv0 J /\ idiv0 I = idiv0 J /\ holds I f.
Proof.
  intros Hi Hq Hwf H. destruct (ack_result_holds _ _ _ H) as [Hsb Himps].
  destruct (call_spec (fun t => is_qf t = true) qf_sub names0 f st Hq Hi) as (Hinv & Hcov & Hres).
  set (st' := snd (ack_walk f st)) in *.
  exists (funI J (terms st')). repeat split.
  unfold holds. rewrite (funI_eval J (terms st') st' eq_refl names0 Hinv Hwf Himps f Hcov Hq).
  rewrite <- Hres. exact Hsb.
Qed.
Theorem ack_sound f guess names J : is_qf f = true -> wfi J ->
  holds J (fst (ackermannize f (init_astate guess names))) ->
  exists I, isym I = isym J /\ rdiv0 I = rdiv0 J /\ idiv0 I = idiv0 J /\ holds I f.
Proof. apply (ack_sound_reuse f (init_astate guess names) names J), Inv2_init. Qed.

(* ================================================================= ack_complete *)
Section Complete.
  Variable I : interp.
  Variable tab : list (term * term).

  (* the application whose constant is the symbol (n, ty) *)
  Fixpoint cfind (n : string) (ty : ty) (l : list (term * term)) : option term :=
    match l with
    | [] => None
    | (app, c) :: r => if term_eqb c (TSym n ty) then Some app else cfind n ty r
    end.
  (* I with every fresh constant c_app := the value of app under I *)
  Definition extI : interp :=
    {| isym := fun n ty => match cfind n ty tab with Some app => eval I app | None => isym I n ty end;
       ifun := ifun I; rdiv0 := rdiv0 I; idiv0 := idiv0 I |}.

  Lemma cfind_In n ty : forall l app, cfind n ty l = Some app -> In (app, TSym n ty) l.
  Proof.
    induction l as [|[a c] r IH]; cbn; [discriminate|]. intros app.
    destruct (term_eqb c (TSym n ty)) eqn:E; auto. apply term_eqb_eq in E. subst. intros [= ->]. auto.
  Qed.
  Lemma cfind_unique n ty : forall l app, NoDup (map (fun p => cname (snd p)) l) -> In (app, TSym n ty) l ->
    cfind n ty l = Some app.
  Proof.
    induction l as [|[a c] r IH]; cbn; [intros ? _ []|]. intros app Hnd Hin.
    inversion Hnd as [|? ? Hnot Hnd']; subst.
    destruct (term_eqb c (TSym n ty)) eqn:E.
    - apply term_eqb_eq in E. subst. destruct Hin as [[= -> ]|Hin]; auto.
      exfalso. apply Hnot. apply in_map_iff. exists (app, TSym n ty). auto.
    - destruct Hin as [[= -> ->]|Hin]; auto.
      rewrite (proj2 (term_eqb_eq _ _) eq_refl) in E. discriminate.
  Qed.

  Variable st : astate.
  Hypothesis Htab : tab = terms st.
  Variable names0 : list string.
  Definition Qc (t : term) : Prop :=
    is_qf t = true /\ okt t = true /\ (exists ty, tc t = Some ty) /\ incl (symnames t) names0.
  Hypothesis Hinv : Inv2 Qc names0 st.
  Hypothesis Hwf : wfi I.

  Lemma Qc_sub o args : Qc (T o args) -> Forall Qc args.
  Proof.
    intros (Hq & Hok & (ty & Ht) & Hs). apply Forall_forall. intros a Ha. split; [|split; [|split]].
    - pose proof (is_qf_args _ _ Hq) as H. rewrite forallb_forall in H. auto.
    - pose proof (okt_args _ _ Hok) as H. rewrite Forall_forall in H. auto.
    - destruct (tc_inv _ _ _ Ht) as (tys & Htys & _). apply tcs_Forall2 in Htys.
      destruct (Forall2_In_l _ _ _ _ Htys Ha) as (t0 & _ & H0). eauto.
    - intros n Hn. apply Hs. eapply symnames_arg; eauto.
  Qed.

  Lemma fresh_not_sym n ty app : cfind n ty tab = Some app -> ~ In n names0.
  Proof.
    intros H. apply cfind_In in H. rewrite Htab in H.
    destruct (i_keys _ _ _ Hinv _ _ H) as (n1 & f1 & a1 & nm & _ & E & Hn & _). injection E as <- _. exact Hn.
  Qed.

  Theorem extI_eval : forall t, covered tab t = true -> is_qf t = true -> incl (symnames t) names0 ->
    eval extI (psub tab t) = eval I t.
  Proof.
    induction t as [o args IH] using term_ind'. intros Hc Hq Hs.
    cbn [covered] in Hc. apply andb_true_iff in Hc. destruct Hc as [Ha Ho].
    pose proof (is_qf_args _ _ Hq) as Hqa.
    assert (Hargs : map (eval extI) (map (psub tab) args) = map (eval I) args).
    { rewrite map_map. apply map_ext_in. intros a Hin. rewrite Forall_forall in IH.
      rewrite forallb_forall in Ha, Hqa. apply IH; auto. intros n Hn. apply Hs. eapply symnames_arg; eauto. }
    destruct (plain_op o) eqn:Hp.
    - assert (E : psub tab (T o args) = T o (map (psub tab) args)) by (destruct o; try discriminate; reflexivity).
      rewrite E. apply eval_node_plain; auto.
    - destruct o; try discriminate.
      + (* symbol *)
        cbn [psub eval]. cbn [isym extI]. destruct (cfind n t tab) as [app|] eqn:E; auto.
        exfalso. apply (fresh_not_sym _ _ _ E). apply Hs. cbn. now left.
      + (* application *)
        destruct (assoc_t (T (OFunction n t) args) tab) as [c|] eqn:A; [|discriminate].
        cbn [psub]. rewrite A. pose proof (assoc_t_In _ _ _ A) as Hin. rewrite Htab in Hin.
        destruct (i_keys _ _ _ Hinv _ _ Hin) as (n1 & f1 & a1 & nm & _ & -> & _).
        cbn [eval TSym]. cbn [isym extI].
        rewrite (cfind_unique nm (ret_type f1) tab (T (OFunction n t) args)); auto.
        * rewrite Htab. apply (i_nodup _ _ _ Hinv).
        * now rewrite Htab.
  Qed.

  Lemma tc_psub : forall t ty, tc t = Some ty -> (forall app c, In (app, c) tab -> Qc app) -> tc (psub tab t) = Some ty.
  Proof.
    induction t as [o args IH] using term_ind'. intros ty Ht HQ.
    destruct (tc_inv _ _ _ Ht) as (tys & Htys & Hr).
    assert (Hargs : tcs (map (psub tab) args) = Some tys).
    { apply Forall2_tcs. apply tcs_Forall2 in Htys. clear - IH Htys HQ.
      induction Htys as [|a t0 r tr Ha Hr IHr]; cbn; constructor.
      - inversion IH; subst. auto.
      - inversion IH; subst. auto. }
    assert (G : tc (T o (map (psub tab) args)) = Some ty) by (rewrite tc_tcs, Hargs; exact Hr).
    destruct o; try exact G. cbn [psub].
    destruct (assoc_t (T (OFunction n t) args) tab) as [c|] eqn:A; [|exact G].
    pose proof (assoc_t_In _ _ _ A) as Hin. rewrite Htab in Hin.
    destruct (i_keys _ _ _ Hinv _ _ Hin) as (n1 & f1 & a1 & nm & E & -> & _). injection E as <- <- <-.
    cbn. f_equal. cbn in Hr. destruct t; try discriminate. destruct (tys_eqb tys ps); [|discriminate].
    now injection Hr as <-.
  Qed.

  Lemma sub_psub_c a : covered tab a = true -> sub st a = psub tab a.
  Proof. intros H. unfold sub. rewrite Htab in *. now rewrite rewalk. Qed.

  Lemma args_same_types (R : term -> ty -> Prop) : forall o1 o2 ps, Forall2 R o1 ps -> Forall2 R o2 ps ->
    forall a b, In (a, b) (combine o1 o2) -> exists p, R a p /\ R b p.
  Proof.
    induction o1 as [|x r IH]; intros o2 ps H1 H2 a b Hin; [destruct Hin|].
    destruct o2 as [|y r2]; [destruct Hin|]. inversion H1; subst. inversion H2; subst.
    destruct Hin as [[= <- <-]|Hin]; eauto.
  Qed.
  Lemma map_eq_pointwise {A B C} (g : A -> B) (R : A -> C -> Prop) : forall l1 l2 ps, Forall2 R l1 ps -> Forall2 R l2 ps ->
    (forall a b, In (a, b) (combine l1 l2) -> g a = g b) -> map g l1 = map g l2.
  Proof.
    induction l1 as [|x r IH]; intros l2 ps H1 H2 Hp; inversion H1; subst; inversion H2; subst; auto.
    cbn. f_equal; [apply Hp; now left | eapply IH; eauto]. intros a b Hin. apply Hp. now right.
  Qed.

  (* the consistency implications hold under the witness *)
  Lemma implication_holds fn opts o1 o2 : In (fn, opts) (funs st) -> In o1 opts -> In o2 opts ->
    tv extI (implication st fn o1 o2) = true.
  Proof.
    intros He H1 H2.
    destruct (i_funs _ _ _ Hinv _ _ _ He H1) as (c1 & A1). destruct (i_funs _ _ _ Hinv _ _ _ He H2) as (c2 & A2).
    destruct fn as [n fty]. cbn [fst snd] in *.
    pose proof (assoc_t_In _ _ _ A1) as In1. pose proof (assoc_t_In _ _ _ A2) as In2.
    destruct (i_keys _ _ _ Hinv _ _ In1) as (n1 & f1 & a1 & nm1 & E1 & _ & _ & Q1 & Cov1 & _).
    destruct (i_keys _ _ _ Hinv _ _ In2) as (n2 & f2 & a2 & nm2 & E2 & _ & _ & Q2 & Cov2 & _).
    injection E1 as <- <- <-. injection E2 as <- <- <-.
    rewrite <- Htab in A1, A2, Cov1, Cov2.
    unfold implication. cbn [fst snd]. rewrite tv_implies. unfold repl. cbn [is_app]. rewrite <- Htab, A1, A2.
    destruct (tv extI (mk_and _)) eqn:Hant; [|reflexivity]. cbn [implb].
    apply eq_or_iff_of_eq.
    (* value of a constant = value of its application *)
    assert (EV : forall args c, assoc_t (T (OFunction n fty) args) tab = Some c -> Qc (T (OFunction n fty) args) ->
                 Forall (fun a => covered tab a = true) args -> eval extI c = eval I (T (OFunction n fty) args)).
    { intros args c A (Hq & _ & _ & Hs) Cov.
      assert (Hc : covered tab (T (OFunction n fty) args) = true).
      { cbn [covered]. rewrite A. cbn. rewrite andb_true_r. apply forallb_forall. now apply Forall_forall. }
      pose proof (extI_eval _ Hc Hq Hs) as H. cbn [psub] in H. now rewrite A in H. }
    rewrite (EV _ _ A1 Q1 Cov1), (EV _ _ A2 Q2 Cov2). cbn [eval]. f_equal.
    (* equal argument values *)
    pose proof (Qc_sub _ _ Q1) as Qa1. pose proof (Qc_sub _ _ Q2) as Qa2.
    destruct Q1 as (_ & _ & (ty1 & T1) & _). destruct Q2 as (_ & _ & (ty2 & T2) & _).
    destruct (tc_inv _ _ _ T1) as (tys1 & Ht1 & Hr1). destruct (tc_inv _ _ _ T2) as (tys2 & Ht2 & Hr2).
    cbn in Hr1, Hr2. destruct fty as [| | | | | |ps r|]; try discriminate.
    destruct (tys_eqb tys1 ps) eqn:P1; [|discriminate]. destruct (tys_eqb tys2 ps) eqn:P2; [|discriminate].
    apply tys_eqb_eq in P1. apply tys_eqb_eq in P2. subst tys1 tys2.
    apply tcs_Forall2 in Ht1. apply tcs_Forall2 in Ht2.
    apply (map_eq_pointwise (eval I) _ o1 o2 ps Ht1 Ht2). intros a b Hab.
    pose proof (in_combine_l _ _ _ _ Hab) as Ha. pose proof (in_combine_r _ _ _ _ Hab) as Hb.
    rewrite Forall_forall in Qa1, Qa2, Cov1, Cov2.
    destruct (Qa1 a Ha) as (Hqa & Hoka & _ & Hsa). destruct (Qa2 b Hb) as (Hqb & Hokb & _ & Hsb).
    rewrite <- (extI_eval a (Cov1 a Ha) Hqa Hsa), <- (extI_eval b (Cov2 b Hb) Hqb Hsb).
    assert (Hconj : tv extI (eq_or_iff (psub tab a) (psub tab b)) = true).
    { rewrite tv_mk_and_true in Hant. apply Hant. apply (dedupe_In term_eqb term_eqb_eq).
      apply in_map_iff. exists (a, b). cbn [fst snd]. split; auto.
      now rewrite (sub_psub_c a (Cov1 a Ha)), (sub_psub_c b (Cov2 b Hb)). }
    apply (eq_or_iff_eq _ _ _ Hconj). intros Htb.
    destruct (args_same_types _ _ _ _ Ht1 Ht2 a b Hab) as (p & Pa & Pb).
    assert (HQ : forall app c, In (app, c) tab -> Qc app).
    { intros app c Hin. rewrite Htab in Hin. destruct (i_keys _ _ _ Hinv _ _ Hin) as (? & ? & ? & ? & _ & _ & _ & HQ & _). exact HQ. }
    rewrite (tc_psub a p Pa HQ) in Htb. injection Htb as ->.
    rewrite (extI_eval a (Cov1 a Ha) Hqa Hsa), (extI_eval b (Cov2 b Hb) Hqb Hsb).
    split; apply okt_bool; auto.
  Qed.
End Complete.

(* the names of the constants introduced by a run *)
Definition ack_constants (st : astate) : list string := map (fun p => cname (snd p)) (terms st).

(* C11, completeness of Ackermannization.  Typing side conditions: f is quantifier-free, in the
   fragment [okt] of SimplifierSemBase_proofs.v (arities, inhabited sorts, canonical array
   values) and well-typed ([tc f = Some ty]); I is well-sorted ([wfi], equivalent to
   Sem.wf_interp); the manager knows f's symbols.  They are used for one thing only: an
   argument of sort Bool is compared with <->, which identifies values only if they are Booleans. *)
Theorem ack_complete_reuse f st names I : Inv2 (Qc names) names st ->
  is_qf f = true -> okt f = true -> (exists ty, tc f = Some ty) -> incl (symnames f) names -> wfi I ->
  holds I f ->
  let r := ackermannize f st in
  exists I', agrees_off (ack_constants (snd r)) I I' /\ holds I' (fst r) /\
             (forall n, In n (ack_constants (snd r)) -> ~ In n names).
Proof.
  intros Hi Hq Hok Hty Hs Hwf Hf.
  assert (HQ : Qc names f) by (split; [|split; [|split]]; auto).
  destruct (call_spec (Qc names) (Qc_sub names) names f st HQ Hi) as (Hinv & Hcov & Hres).
  unfold ackermannize. destruct (ack_walk f st) as [sb st'] eqn:W. cbn [fst snd] in *.
  assert (R : snd (match implications st' with [] => (sb, st') | t :: l => (T OAnd [mk_and (t :: l); sb], st') end) = st')
    by (destruct (implications st'); reflexivity).
  cbn zeta. rewrite R. exists (extI I (terms st')). split; [|split].
  - repeat split; auto. intros n ty Hn. cbn. destruct (cfind n ty (terms st')) as [app|] eqn:E; auto.
    exfalso. apply Hn. apply cfind_In in E. unfold ack_constants. apply in_map_iff. exists (app, TSym n ty). auto.
  - assert (Hsb : tv (extI I (terms st')) sb = true).
    { unfold tv. rewrite Hres, (extI_eval I (terms st') st' eq_refl names Hinv f Hcov Hq Hs). now rewrite Hf. }
    destruct (implications st') as [|i r] eqn:E; cbn [fst]; apply holds_tv; auto.
    rewrite tv_and. cbn [forallb]. rewrite Hsb, andb_true_r. apply tv_mk_and_true.
    intros a Ha. rewrite <- E in Ha. unfold implications in Ha.
    apply (proj1 (dedupe_In term_eqb term_eqb_eq _ _)) in Ha. apply in_flat_map in Ha.
    destruct Ha as ([fn opts] & He & Hm). cbn [fst snd] in Hm. apply in_map_iff in Hm.
    destruct Hm as ([o1 o2] & <- & Hp). cbn [fst snd]. destruct (In_pairs _ _ _ Hp) as [P1 P2].
    exact (implication_holds I (terms st') st' eq_refl names Hinv Hwf fn opts o1 o2 He P1 P2).
  - intros n Hn. unfold ack_constants in Hn. apply in_map_iff in Hn. destruct Hn as ([app c] & <- & Hin).
    destruct (i_keys _ _ _ Hinv _ _ Hin) as (? & ? & ? & nm & _ & -> & Hnm & _). exact Hnm.
Qed.
Theorem ack_complete f guess names I :
  is_qf f = true -> okt f = true -> (exists ty, tc f = Some ty) -> incl (symnames f) names -> wfi I ->
  holds I f ->
  let r := ackermannize f (init_astate guess names) in
  exists I', agrees_off (ack_constants (snd r)) I I' /\ holds I' (fst r) /\
             (forall n, In n (ack_constants (snd r)) -> ~ In n names).
Proof. apply (ack_complete_reuse f (init_astate guess names) names I), Inv2_init. Qed.


(* the hypotheses are satisfiable by a formula with nested applications:
   f(f(x) + 1) = x  under  f := fun _ => 0, x := 0 *)
Definition I_zero : interp :=
  {| isym := fun _ t => default_val t; ifun := fun _ t _ => match t with TFun _ r => default_val r | _ => VBool false end;
     rdiv0 := fun r => r; idiv0 := fun z => z |}.
Example ack_hypotheses :
  is_qf ack_wit = true /\ okt ack_wit = true /\ tc ack_wit = Some TBool /\
  incl (symnames ack_wit) ["x"; "f"]%string /\ holds I_zero ack_wit.
Proof.
  split; [reflexivity|]. split; [vm_compute; reflexivity|]. split; [vm_compute; reflexivity|]. split.
  - intros n Hn. vm_compute in Hn. destruct Hn as [<-|[<-|[]]]; cbn; auto.
  - unfold holds. cbn. unfold veqb. destruct (excluded_middle_informative _) as [|Hn]; [reflexivity|].
    exfalso. apply Hn. reflexivity.
Qed.
Example ack_hypotheses_wf : wf_interp I_zero.
Proof. split; cbn; intros; now apply default_val_has_ty. Qed.

(* the same two theorems with Sem.wf_interp *)
Corollary ack_complete_wf f guess names I :
  is_qf f = true -> okt f = true -> (exists ty, tc f = Some ty) -> incl (symnames f) names -> wf_interp I ->
  holds I f ->
  let r := ackermannize f (init_astate guess names) in
  exists I', agrees_off (ack_constants (snd r)) I I' /\ holds I' (fst r) /\
             (forall n, In n (ack_constants (snd r)) -> ~ In n names).
Proof. intros Hq Hok Hty Hs Hwf. apply ack_complete; auto. now apply wf_interp_wfi. Qed.
Corollary ack_sound_wf f guess names J : is_qf f = true -> wf_interp J ->
  holds J (fst (ackermannize f (init_astate guess names))) ->
  exists I, isym I = isym J /\ rdiv0 I = rdiv0 J /\ idiv0 I = idiv0 J /\ holds I f.
Proof. intros Hq Hwf. apply ack_sound; auto. now apply wf_interp_wfi. Qed.

(* ================================================================= reused objects: histories *)
(* Any sequence of do_ackermannization calls on ONE Ackermannizer (its _terms_dict / _funs_to_args
   persist), the manager possibly gaining symbols between the calls.  Every call of a history
   satisfies the single-call theorems: the implications about applications met in EARLIER
   formulas that a later result also contains are consequences of functional consistency, and
   their constants are otherwise unconstrained. *)
Lemma ackermannize_state f st : snd (ackermannize f st) = snd (ack_walk f st).
Proof. unfold ackermannize. destruct (ack_walk f st) as [sb st']. destruct (implications st'); reflexivity. Qed.

Section History.
  Variable Q : term -> Prop.
  Hypothesis Qsub : forall o args, Q (T o args) -> Forall Q args.
  Variable names0 : list string.       (* symbol names known when the object is created *)

  Inductive ack_hist : astate -> Prop :=
  | ah_new guess names : incl names0 names -> ack_hist (init_astate guess names)
  | ah_call st f : ack_hist st -> Q f -> ack_hist (snd (ackermannize f st))
  | ah_mgr st m' : ack_hist st -> incl (mnames (amgr st)) (mnames m') ->
                   ack_hist {| amgr := m'; terms := terms st; funs := funs st |}.

  Theorem ack_hist_inv st : ack_hist st -> Inv2 Q names0 st.
  Proof.
    induction 1 as [guess names Hn | st f _ IH Hq | st m' _ IH Hm].
    - now apply Inv2_init0.
    - rewrite ackermannize_state. apply (call_spec Q Qsub names0 f st Hq IH).
    - destruct IH as [K N Nm Mo F]. constructor; cbn [terms funs amgr]; auto.
      + intros app c Hin. apply Hm. eauto.
      + eapply incl_tran; eauto.
  Qed.
End History.

Theorem ack_sound_history names0 st f J :
  ack_hist (fun t => is_qf t = true) names0 st -> is_qf f = true -> wf_interp J ->
  holds J (fst (ackermannize f st)) ->
  exists I, isym I = isym J /\ rdiv0 I = rdiv0 J /\ idiv0 I = idiv0 J /\ holds I f.
Proof.
  intros Hh Hq Hwf. apply (ack_sound_reuse f st names0 J); auto.
  - exact (ack_hist_inv _ qf_sub names0 st Hh).
  - now apply wf_interp_wfi.
Qed.

(* every formula of the history is quantifier-free, in the fragment, well-typed and over symbols
   known when the object was created ([Qc names0]) *)
Theorem ack_complete_history names0 st f I :
  ack_hist (Qc names0) names0 st ->
  is_qf f = true -> okt f = true -> (exists ty, tc f = Some ty) -> incl (symnames f) names0 -> wf_interp I ->
  holds I f ->
  let r := ackermannize f st in
  exists I', agrees_off (ack_constants (snd r)) I I' /\ holds I' (fst r) /\
             (forall n, In n (ack_constants (snd r)) -> ~ In n names0).
Proof.
  intros Hh Hq Hok Hty Hs Hwf. apply (ack_complete_reuse f st names0 I); auto.
  - exact (ack_hist_inv _ (Qc_sub names0) names0 st Hh).
  - now apply wf_interp_wfi.
Qed.

(* a three-call history: f(x) = x ; !(f(y) = x) ; x = y & f(x) != f(y) *)
Definition fy : term := T (OFunction "f" f_ii) [TSym "y" TInt].
Definition h1 : term := T OEquals [fx; TSym "x" TInt].
Definition h2 : term := T ONot [T OEquals [fy; TSym "x" TInt]].
Definition h3 : term := T OAnd [T OEquals [TSym "x" TInt; TSym "y" TInt]; T ONot [T OEquals [fx; fy]]].
Definition hist3 : astate :=
  snd (ackermannize h2 (snd (ackermannize h1 (init_astate 0 ["x"; "y"; "f"]%string)))).
Example hist3_ok :
  ack_hist (fun t => is_qf t = true) ["x"; "y"; "f"]%string hist3 /\
  fst (ackermannize h3 hist3) =
  T OAnd [T OImplies [T OEquals [TSym "x" TInt; TSym "y" TInt]; T OEquals [TSym "ack0" TInt; TSym "ack1" TInt]]; 
          T OAnd [T OEquals [TSym "x" TInt; TSym "y" TInt]; T ONot [T OEquals [TSym "ack0" TInt; TSym "ack1" TInt]]]].
Proof.
  split.
  - unfold hist3. apply ah_call; [apply ah_call; [apply ah_new, incl_refl | reflexivity] | reflexivity].
  - vm_compute. reflexivity.
Qed.
