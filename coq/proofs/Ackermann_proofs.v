(* C11, Ackermannization part: what is PROVED about models/Ackermann.v is only the refutation of
   the shape clause (by computation on the faithful model) and two closed examples; the
   semantic clauses (ack_complete, ack_sound) and the shape clause for flat inputs are covered
   by the correspondence and by the refeval search oracle of harness/c11.py, not by proof. *)
From Coq Require Import List ZArith Bool String.
From PySMT.core Require Import Syntax.
From PySMT.models Require Import Cnf Ackermann.
Import ListNotations.
Open Scope bool_scope.

Definition f_ii : ty := TFun [TInt] TInt.
Definition fx : term := T (OFunction "f" f_ii) [TSym "x" TInt].
(* f(f(x) + 1) = x *)
Definition ack_wit : term :=
  T OEquals [T (OFunction "f" f_ii) [T OPlus [fx; TIntC 1]]; TSym "x" TInt].
Definition ack_wit_st : astate := init_astate 0 ["x"; "f"]%string.

(* the result ((x = f(x) + 1) -> ack0 = ack1) & (ack1 = x) still contains the application f(x) *)
Theorem ack_shape_refuted :
  exists f st, has_app (fst (ackermannize f st)) = true.
Proof. exists ack_wit, ack_wit_st. vm_compute. reflexivity. Qed.

Example ack_wit_result :
  fst (ackermannize ack_wit ack_wit_st) =
  T OAnd [T OImplies [T OEquals [TSym "x" TInt; T OPlus [fx; TIntC 1]];
                      T OEquals [TSym "ack0" TInt; TSym "ack1" TInt]];
          T OEquals [TSym "ack1" TInt; TSym "x" TInt]].
Proof. vm_compute. reflexivity. Qed.
Example ack_wit_not_flat : ack_flat ack_wit = false.
Proof. reflexivity. Qed.

(* a flat input with nested applications: f(f(x)) = x /\ f(x) = 3 *)
Definition ack_flat_ex : term :=
  T OAnd [T OEquals [T (OFunction "f" f_ii) [fx]; TSym "x" TInt]; T OEquals [fx; TIntC 3]].
Example ack_flat_ex_ok :
  ack_flat ack_flat_ex = true /\ has_app (fst (ackermannize ack_flat_ex ack_wit_st)) = false.
Proof. split; vm_compute; reflexivity. Qed.
