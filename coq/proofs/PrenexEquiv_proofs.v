(* C10, prenex normal form, semantic clause: the model of PrenexNormalizer preserves the truth
   value of every formula whose quantifiers occur in Boolean positions only, under every
   well-sorted interpretation, for every fresh-name counter above the names of the input. *)
From Coq Require Import List ZArith Bool String Reals Lia DecimalString DecimalNat.
From Coq Require Import Classical_Prop.
From PySMT.core Require Import Syntax SyntaxLemmas Sem.
From PySMT.models Require Import Oracles C10Local Prenex.
From PySMT.proofs Require Import Sets_proofs Coincidence C10Local_proofs Subst_proofs PrenexSem_proofs Prenex_proofs.
Import ListNotations.
Open Scope bool_scope.
Open Scope list_scope.

(* ---------------------------------------------------------------- fresh names *)
Lemma decimal_inj a b : decimal a = decimal b -> a = b.
Proof.
  unfold decimal. intros H. apply (f_equal NilEmpty.uint_of_string) in H. rewrite !NilEmpty.usu in H.
  injection H as H. apply (f_equal Nat.of_uint) in H. now rewrite !Unsigned.of_to in H.
Qed.
Lemma fresh_name_inj a b : fresh_name a = fresh_name b -> a = b.
Proof. unfold fresh_name. cbn. intros H. injection H as H. now apply decimal_inj. Qed.

Definition nbelow (n : nat) (x : var) : Prop := forall k, n <= k -> fst x <> fresh_name k.
Lemma nbelow_mono n n' x : n <= n' -> nbelow n x -> nbelow n' x.
Proof. intros H Hx k Hk. apply Hx. lia. Qed.

Lemma fresh_for_spec : forall vs n n' sub, fresh_for n vs = (n', sub) ->
  n' = n + List.length vs /\ map fst sub = vs /\
  (forall k f, In (k, f) sub -> snd f = snd k /\ exists j, n <= j < n' /\ fst f = fresh_name j) /\
  NoDup (map snd sub).
Proof.
  induction vs as [|v vs IH]; intros n n' sub E; cbn in E.
  - injection E as <- <-. split; [cbn; lia|]. split; [reflexivity|]. split; [intros k f []|constructor].
  - destruct (fresh_for (S n) vs) as [n1 s] eqn:Ef. injection E as <- <-.
    destruct (IH _ _ _ Ef) as (A & B & C & D). split; [cbn; lia|]. split; [cbn; now rewrite B|]. split.
    + intros k f [H|H].
      * injection H as <- <-. split; [reflexivity|]. exists n. cbn. split; [lia | reflexivity].
      * destruct (C _ _ H) as (T1 & j & Hj & Ej). split; auto. exists j. split; [lia | exact Ej].
    + cbn. constructor; auto. intros Hin. apply in_map_iff in Hin. destruct Hin as ([k f] & Ef' & Hin). cbn in Ef'. subst f.
      destruct (C _ _ Hin) as (_ & j & Hj & Ej). cbn in Ej. apply fresh_name_inj in Ej. lia.
Qed.

(* ---------------------------------------------------------------- small list facts *)
Lemma bvL_app L1 L2 : bvL (L1 ++ L2) = bvL L1 ++ bvL L2.
Proof. unfold bvL. apply flat_map_app. Qed.
Lemma bvL_flat (args : list pres) : bvL (flat_map fst args) = flat_map (fun r => bvL (fst r)) args.
Proof. induction args as [|r args IH]; cbn; auto. now rewrite bvL_app, IH. Qed.
Lemma bvL_cons q L : bvL (q :: L) = snd q ++ bvL L.
Proof. reflexivity. Qed.

Lemma NoDup_map_inj_on (r : var -> var) l : (forall x y, In x l -> In y l -> r x = r y -> x = y) -> NoDup l -> NoDup (map r l).
Proof.
  induction l as [|a l IH]; intros Hi Hn; cbn; [constructor|]. inversion Hn as [|? ? Ha Hl]; subst. constructor.
  - intros Hin. apply in_map_iff in Hin. destruct Hin as (b & Eb & Hb). apply Hi in Eb; [subst; auto | now right | now left].
  - apply IH; auto. intros x y Hx Hy. apply Hi; now right.
Qed.
Lemma map_id_on {A} (f : A -> A) l : (forall x, In x l -> f x = x) -> map f l = l.
Proof. induction l as [|a l IH]; intros H; cbn; auto. rewrite H, IH; auto; [intros; apply H; now right | now left]. Qed.
Lemma mapL_id r L : (forall x, In x (bvL L) -> r x = x) -> mapL r L = L.
Proof.
  induction L as [|[ex vs] L IH]; intros H; [reflexivity|].
  change (mapL r ((ex, vs) :: L)) with ((ex, map r vs) :: mapL r L). rewrite IH.
  - rewrite map_id_on; auto. intros x Hx. apply H. rewrite bvL_cons. apply in_or_app. now left.
  - intros x Hx. apply H. rewrite bvL_cons. apply in_or_app. now right.
Qed.
Lemma mapL_app r L1 L2 : mapL r (L1 ++ L2) = mapL r L1 ++ mapL r L2.
Proof. unfold mapL. apply map_app. Qed.

Lemma NoDup_app_inv {A} (l1 l2 : list A) : NoDup (l1 ++ l2) -> NoDup l1 /\ NoDup l2 /\ (forall x, In x l1 -> ~ In x l2).
Proof.
  induction l1 as [|a l1 IH]; cbn; intros H; [repeat split; auto; constructor|].
  inversion H as [|? ? Ha Hl]; subst. destruct (IH Hl) as (A1 & A2 & A3). repeat split; auto.
  - constructor; auto. intros Hin. apply Ha. apply in_or_app. now left.
  - intros x [<-|Hx]; [intros Hin; apply Ha; apply in_or_app; now right | now apply A3].
Qed.
Lemma NoDup_app_intro {A} (l1 l2 : list A) : NoDup l1 -> NoDup l2 -> (forall x, In x l1 -> ~ In x l2) -> NoDup (l1 ++ l2).
Proof.
  induction l1 as [|a l1 IH]; cbn; intros H1 H2 H3; auto. inversion H1 as [|? ? Ha Hl]; subst. constructor.
  - intros Hin. apply in_app_or in Hin. destruct Hin as [Hin|Hin]; [auto | apply (H3 a); auto].
  - apply IH; auto.
Qed.

(* ---------------------------------------------------------------- what a walk result must satisfy *)
Record valid (fvs : list var) (Sem : interp -> Prop) (n : nat) (r : pres) : Prop := {
  v_sem : forall K, wf_interp K -> (closed_of r K <-> Sem K);
  v_sup : resp (fun J => holds J (snd r)) (fun x => In x fvs \/ In x (bvL (fst r)));
  v_nd : NoDup (bvL (fst r));
  v_dis : disjoint (bvL (fst r)) fvs;
  v_nb : forall x, In x (bvL (fst r)) -> nbelow n x;
  v_qf : is_qf (snd r) = true;
  v_nm : normal (snd r) = true;
  v_fo : Forall (fun v => fo_ok (snd v)) (bvL (fst r)) }.

Lemma valid_mono fvs Sem n n' r : n <= n' -> valid fvs Sem n r -> valid fvs Sem n' r.
Proof. intros H [A B C D E F G I]. constructor; auto. intros x Hx. eapply nbelow_mono; eauto. Qed.
Lemma valid_sem fvs Sem Sem' n r : (forall K, wf_interp K -> (Sem K <-> Sem' K)) -> valid fvs Sem n r -> valid fvs Sem' n r.
Proof. intros H [A B C D E F G I]. constructor; auto. intros K HK. rewrite A; auto. Qed.
Lemma valid_fvs fvs fvs' Sem n r : (forall x, In x fvs <-> In x fvs') -> valid fvs Sem n r -> valid fvs' Sem n r.
Proof.
  intros H [A B C D E F G I]. constructor; auto.
  - eapply resp_weaken; [|exact B]. intros v [Hv|Hv]; [left; now apply H | now right].
  - intros x Hx Hf. apply (D x Hx). now apply H.
Qed.

(* ---------------------------------------------------------------- one renaming step *)
Lemma sub_facts n needs n1 sub (vs : list var) :
  fresh_for n needs = (n1, sub) -> incl needs vs ->
  (forall x, In x vs -> nbelow n x) ->
  n <= n1 /\ NoDup (map snd sub) /\ (forall k f, In (k, f) sub -> snd f = snd k) /\
  (forall x, In x (map fst sub) -> In x vs) /\
  (forall f, In f (map snd sub) -> nbelow n1 f /\ ~ nbelow n f) /\
  (forall x, nbelow n x -> ~ In x (map snd sub)).
Proof.
  intros Ef Hi Hvs. destruct (fresh_for_spec _ _ _ _ Ef) as (A & B & C & D). repeat split; auto.
  - lia.
  - intros k f H. apply (C _ _ H).
  - rewrite B. auto.
  - apply in_map_iff in H. destruct H as ([k g] & <- & Hin). destruct (C _ _ Hin) as (_ & j & Hj & Ej). cbn [snd].
    intros k' Hk' E. rewrite Ej in E. apply fresh_name_inj in E. lia.
  - apply in_map_iff in H. destruct H as ([k g] & <- & Hin). destruct (C _ _ Hin) as (_ & j & Hj & Ej). cbn [snd].
    intros Hb. apply (Hb j); [lia | exact Ej].
  - intros x Hx Hin. apply in_map_iff in Hin. destruct Hin as ([k g] & <- & Hin). destruct (C _ _ Hin) as (_ & j & Hj & Ej).
    apply (Hx j); [lia | exact Ej].
Qed.

Lemma rename_quants_spec : forall subL n Rv m U n' Rv' L' m',
  rename_quants n Rv subL m = (n', Rv', L', m') ->
  NoDup (bvL subL) ->
  (forall x, In x (bvL subL) \/ In x U \/ In x Rv -> nbelow n x) ->
  is_qf m = true -> normal m = true ->
  Forall (fun v => fo_ok (snd v)) (bvL subL) ->
  resp (fun J => holds J m) (fun x => In x U \/ In x (bvL subL)) ->
  disjoint (bvL subL) U ->
  n <= n' /\
  (forall done K, wf_interp K -> NoDup (bvL (done ++ subL)) -> (forall x, In x (bvL done) -> nbelow n x) ->
     (qs (done ++ L') (fun J => holds J m') K <-> qs (done ++ subL) (fun J => holds J m) K)) /\
  (forall x, In x (bvL L') -> ~ In x Rv) /\
  (forall x, In x Rv' <-> In x Rv \/ In x (bvL L')) /\
  NoDup (bvL L') /\
  resp (fun J => holds J m') (fun x => In x U \/ In x (bvL L')) /\
  (forall x, In x (bvL L') -> nbelow n' x) /\
  is_qf m' = true /\ normal m' = true /\
  Forall (fun v => fo_ok (snd v)) (bvL L') /\
  disjoint (bvL L') U.
Proof.
  induction subL as [|[q vs] rest IH]; intros n Rv m U n' Rv' L' m' E Hnd Hnb Hq Hn Hfo Hsup Hdis; cbn [rename_quants] in E.
  - injection E as <- <- <- <-.
    split; [lia|]. split; [intros; reflexivity|]. split; [intros x []|]. split; [intros x; cbn; tauto|].
    split; [constructor|]. split; [exact Hsup|]. split; [intros x []|]. split; [exact Hq|]. split; [exact Hn|].
    split; [constructor | intros x []].
  - set (needs := filter (fun v => mem var_eqb v Rv) vs) in *.
    destruct (fresh_for n needs) as [n1 sub] eqn:Ef.
    set (r := rn_var sub) in *. set (vs' := map r vs) in *.
    set (m1 := match needs with [] => m | _ => vsubst (sub_terms sub) m end) in *.
    destruct (rename_quants n1 (union var_eqb Rv vs') rest m1) as [[[n2 Rv2] restL] m2] eqn:Er.
    injection E as <- <- <- <-.
    rewrite bvL_cons in Hnd, Hnb, Hfo, Hsup, Hdis. cbn [snd] in *.
    destruct (NoDup_app_inv _ _ Hnd) as (Nvs & Nrest & Dvr).
    assert (Hneeds : incl needs vs) by (intros x Hx; apply filter_In in Hx; tauto).
    destruct (sub_facts n needs n1 sub vs Ef Hneeds) as (Hle & SN & STy & SK & SF & SNF).
    { intros x Hx. apply Hnb. left. apply in_or_app. now left. }
    pose proof (rn_var_ty sub STy) as Rty. pose proof (rn_var_inj sub SN) as Rinj. fold r in Rty, Rinj.
    assert (Rid : forall x, ~ In x vs -> r x = x).
    { intros x Hx. unfold r. apply rn_var_notin. intros Hk. apply Hx. now apply SK. }
    assert (Rcase : forall v, In v vs -> (r v = v /\ ~ In v Rv) \/ In (r v) (map snd sub)).
    { intros v Hv. unfold r. destruct (in_dec (fun a b => sumbool_of_bool_var a b) v (map fst sub)) as [Hk|Hk].
      - right. apply rn_var_in in Hk. apply in_map_iff. exists (v, rn_var sub v). auto.
      - left. split; [now apply rn_var_notin|]. intros HR. apply Hk.
        destruct (fresh_for_spec _ _ _ _ Ef) as (_ & B & _). rewrite B. unfold needs. apply filter_In. split; auto.
        now apply (mem_In var_eqb var_eqb_eq). }
    (* facts about the renamed matrix, in both cases *)
    assert (M1 : is_qf m1 = true /\ normal m1 = true /\
                 (forall K, wf_interp K -> (holds K m1 <-> holds (rn r K) m))).
    { unfold m1. destruct needs as [|a nd] eqn:En.
      - cbn in Ef. injection Ef as <- <-. split; [exact Hq|]. split; [exact Hn|]. intros K HK. unfold holds.
        replace (eval (rn r K) m) with (eval K m); [reflexivity|]. apply eval_ext. repeat split; auto.
      - split; [|split].
        + apply vsubst_qf; auto. apply sym_range_qf.
        + apply vsubst_normal; auto. intros v t Hl. clear - Hl. unfold sub_terms in Hl.
          induction sub as [|[k [fn fty]] s IHs]; [discriminate|]. cbn [map vlookup fst snd] in Hl.
          destruct (var_eqb k v); [injection Hl as <-; reflexivity | auto].
        + intros K HK. now apply (holds_vsubst_rn sub). }
    destruct M1 as (Q1 & N1 & Sem1).
    (* the not-fresh set *)
    assert (HS : forall x, nbelow n x -> ~ In x (map snd sub)) by exact SNF.
    assert (Nvs' : NoDup vs').
    { unfold vs'. apply NoDup_map_inj_on; auto. intros x y Hx Hy. apply Rinj; apply HS; apply Hnb; left; apply in_or_app; now left. }
    assert (Dvs'rest : forall x, In x vs' -> ~ In x (bvL rest)).
    { intros x Hx Hr. unfold vs' in Hx. apply in_map_iff in Hx. destruct Hx as (v & <- & Hv).
      destruct (Rcase v Hv) as [[Ev _]|Hf]; [rewrite Ev in Hr; exact (Dvr v Hv Hr)|].
      apply (HS (r v)); auto. apply Hnb. left. apply in_or_app. now right. }
    assert (Dvs'U : forall x, In x vs' -> ~ In x U).
    { intros x Hx HU. unfold vs' in Hx. apply in_map_iff in Hx. destruct Hx as (v & <- & Hv).
      destruct (Rcase v Hv) as [[Ev _]|Hf]; [rewrite Ev in HU; apply (Hdis v); auto; apply in_or_app; now left|].
      apply (HS (r v)); auto. }
    assert (Nbvs' : forall x, In x vs' -> nbelow n1 x).
    { intros x Hx. unfold vs' in Hx. apply in_map_iff in Hx. destruct Hx as (v & <- & Hv).
      destruct (Rcase v Hv) as [[Ev _]|Hf]; [rewrite Ev; eapply nbelow_mono; [exact Hle|]; apply Hnb; left; apply in_or_app; now left|].
      now apply SF. }
    (* induction hypothesis on the rest *)
    destruct (IH n1 (union var_eqb Rv vs') m1 (U ++ vs') n2 Rv2 restL m2 Er) as (I1 & I2 & I3 & I4 & I5 & I6 & I7 & I8 & I9 & I10 & I11); auto.
    { intros x [Hx|[Hx|Hx]].
      - eapply nbelow_mono; [exact Hle|]. apply Hnb. left. apply in_or_app. now right.
      - apply in_app_or in Hx. destruct Hx as [Hx|Hx]; [eapply nbelow_mono; [exact Hle|]; apply Hnb; auto | now apply Nbvs'].
      - apply (union_In var_eqb var_eqb_eq) in Hx. destruct Hx as [Hx|Hx]; [eapply nbelow_mono; [exact Hle|]; apply Hnb; auto | now apply Nbvs']. }
    { apply Forall_app in Hfo. tauto. }
    { eapply resp_iff; [intros K HK; symmetry; apply (Sem1 K HK)|].
      apply (resp_rn sub STy (fun J => holds J m) (fun x => In x U \/ In x (vs ++ bvL rest))
                     (fun x => In x (U ++ vs') \/ In x (bvL rest)) Hsup).
      intros x [Hx|Hx].
      - left. apply in_or_app. left. fold r. rewrite Rid; auto. intros Hv. apply (Hdis x); auto. apply in_or_app. now left.
      - apply in_app_or in Hx. destruct Hx as [Hx|Hx].
        + left. apply in_or_app. right. unfold vs'. now apply in_map.
        + right. fold r. rewrite Rid; auto. intros Hv. exact (Dvr x Hv Hx). }
    { intros x Hx Hu. apply in_app_or in Hu. destruct Hu as [Hu|Hu].
      - apply (Hdis x); auto. apply in_or_app. now right.
      - exact (Dvs'rest x Hu Hx). }
    split; [|split; [|split; [|split; [split|split; [|split; [|split; [|split; [|split; [|split]]]]]]]]].
    + lia.
    + (* semantics *)
      intros done K HK Hnd' Hdn.
      replace (done ++ (q, vs') :: restL) with ((done ++ [(q, vs')]) ++ restL) by (now rewrite <- app_assoc).
      rewrite bvL_app, bvL_cons in Hnd'. cbn [snd] in Hnd'.
      destruct (NoDup_app_inv _ _ Hnd') as (Nd & _ & Ddone).
      rewrite I2; auto.
      * rewrite <- app_assoc. cbn [app].
        (* one alpha step on the whole current prefix *)
        assert (EL : mapL r (done ++ (q, vs) :: rest) = done ++ (q, vs') :: rest).
        { rewrite mapL_app. cbn [mapL map fst snd]. fold (mapL r rest). rewrite !mapL_id; auto.
          - intros x Hx. apply Rid. intros Hv. exact (Dvr x Hv Hx).
          - intros x Hx. apply Rid. intros Hv. apply (Ddone x Hx). apply in_or_app. now left. }
        rewrite <- EL.
        transitivity (qs (mapL r (done ++ (q, vs) :: rest)) (fun J => holds (rn r J) m) K).
        { apply qs_ext_wf; auto. }
        rewrite (qs_rn r (fun x => ~ In x (map snd sub)) Rinj Rty _ (fun J => holds J m) K); auto.
        -- apply (qs_resp (done ++ (q, vs) :: rest) _ (fun x => In x U)); auto; [| apply wf_rn; auto |].
           ++ eapply resp_weaken; [|exact Hsup]. intros v [Hv|Hv]; auto. right. rewrite bvL_app, bvL_cons. apply in_or_app. now right.
           ++ repeat split; auto. intros a t Hin. cbn [rn isym]. rewrite Rid; auto. intros Hv. apply (Hdis (a, t)); auto. apply in_or_app. now left.
        -- eapply resp_weaken; [|exact Hsup]. intros v [Hv|Hv]; apply HS; apply Hnb; auto.
        -- intros v Hv. rewrite bvL_app, bvL_cons in Hv. cbn [snd] in Hv. apply in_app_or in Hv. apply HS.
           destruct Hv as [Hv|Hv]; [now apply Hdn | apply Hnb; now left].
      * rewrite <- app_assoc. cbn [app]. rewrite bvL_app, bvL_cons. cbn [snd].
        apply NoDup_app_intro; auto.
        -- apply NoDup_app_intro; auto.
        -- intros x Hx Hin. apply in_app_or in Hin. destruct Hin as [Hin|Hin].
           ++ unfold vs' in Hin. apply in_map_iff in Hin. destruct Hin as (v & Ev & Hv).
              destruct (Rcase v Hv) as [[Ev' _]|Hf].
              ** rewrite Ev' in Ev. subst v. apply (Ddone x Hx). apply in_or_app. now left.
              ** rewrite Ev in Hf. apply (HS x); auto.
           ++ apply (Ddone x Hx). apply in_or_app. now right.
      * intros x Hx. rewrite bvL_app in Hx. apply in_app_or in Hx. destruct Hx as [Hx|Hx].
        -- eapply nbelow_mono; [exact Hle | now apply Hdn].
        -- cbn in Hx. rewrite app_nil_r in Hx. now apply Nbvs'.
    + (* not reserved *)
      intros x Hx. rewrite bvL_cons in Hx. cbn [snd] in Hx. apply in_app_or in Hx. destruct Hx as [Hx|Hx].
      * unfold vs' in Hx. apply in_map_iff in Hx. destruct Hx as (v & <- & Hv).
        destruct (Rcase v Hv) as [[Ev Hr]|Hf]; [now rewrite Ev|].
        intros HR. apply (HS (r v)); auto.
      * intros HR. apply (I3 x Hx). apply (union_In var_eqb var_eqb_eq). now left.
    + intros Hx. apply I4 in Hx. rewrite bvL_cons. cbn [snd]. rewrite in_app_iff.
      destruct Hx as [Hx|Hx]; auto. apply (union_In var_eqb var_eqb_eq) in Hx. tauto.
    + intros Hx. apply I4. rewrite bvL_cons in Hx. cbn [snd] in Hx. rewrite in_app_iff in Hx.
      rewrite (union_In var_eqb var_eqb_eq). tauto.
    + rewrite bvL_cons. cbn [snd]. apply NoDup_app_intro; auto.
      intros x Hx Hr. apply (I11 x Hr). apply in_or_app. now right.
    + eapply resp_weaken; [|exact I6]. intros v. rewrite bvL_cons. cbn [snd]. rewrite !in_app_iff. tauto.
    + intros x Hx. rewrite bvL_cons in Hx. cbn [snd] in Hx. apply in_app_or in Hx. destruct Hx as [Hx|Hx]; auto.
      eapply nbelow_mono; [exact I1 | now apply Nbvs'].
    + exact I8.
    + exact I9.
    + rewrite bvL_cons. cbn [snd]. apply Forall_app. split; auto.
      unfold vs'. apply Forall_forall. intros x Hx. apply in_map_iff in Hx. destruct Hx as (v & <- & Hv).
      rewrite Rty. apply Forall_app in Hfo. destruct Hfo as [Hfo _]. rewrite Forall_forall in Hfo. now apply Hfo.
    + intros x Hx. rewrite bvL_cons in Hx. cbn [snd] in Hx. apply in_app_or in Hx. destruct Hx as [Hx|Hx]; auto.
      intros Hu. apply (I11 x Hx). apply in_or_app. now left.
Qed.

(* ---------------------------------------------------------------- walk_conj_disj *)
Definition spec := (list var * (interp -> Prop))%type.
Definition valid_sp (n : nat) (sp : spec) (r : pres) : Prop := valid (fst sp) (snd sp) n r.

Lemma closed_resp fvs Sem n r : valid fvs Sem n r -> resp (closed_of r) (fun x => In x fvs).
Proof. intros V. unfold closed_of. apply qs_resp. apply (v_sup _ _ _ _ V). Qed.

Lemma Forall2_imp {A B} (P Q : A -> B -> Prop) la lb : (forall a b, P a b -> Q a b) -> Forall2 P la lb -> Forall2 Q la lb.
Proof. intros H F. induction F; constructor; auto. Qed.

Lemma cd_args_spec : forall args specs n Rv n' L ms,
  cd_args n Rv args = (n', L, ms) ->
  Forall2 (valid_sp n) specs args ->
  (forall sp x, In sp specs -> In x (fst sp) -> In x Rv) ->
  (forall x, In x Rv -> nbelow n x) ->
  n <= n' /\
  exists args', L = flat_map fst args' /\ ms = map snd args' /\
    Forall2 (valid_sp n') specs args' /\
    disjoint (bvL (flat_map fst args')) Rv /\ NoDup (bvL (flat_map fst args')) /\
    (forall x, In x (bvL (flat_map fst args')) -> nbelow n' x).
Proof.
  induction args as [|[subL subm] rest IH]; intros specs n Rv n' L ms E HV Hsub Hnb; cbn [cd_args] in E.
  - injection E as <- <- <-. inversion HV; subst. split; [lia|]. exists []. repeat split; auto; try constructor; intros x [].
  - destruct (rename_quants n Rv subL subm) as [[[n1 Rv1] L1] m1] eqn:Er.
    destruct (cd_args n1 Rv1 rest) as [[n2 L2] ms2] eqn:Ec. injection E as <- <- <-.
    inversion HV as [|sp r0 specs' rest0 V1 HVr]; subst.
    destruct V1 as [A B C D Eb F G I]. cbn [fst snd] in *.
    destruct (rename_quants_spec subL n Rv subm (fst sp) n1 Rv1 L1 m1 Er) as (O1 & O2 & O3 & O4 & O5 & O6 & O7 & O8 & O9 & O10 & O11); auto.
    { intros x [Hx|[Hx|Hx]]; auto. apply Hnb. apply (Hsub sp); auto. now left. }
    destruct (IH specs' n1 Rv1 n2 L2 ms2 Ec) as (I1 & args' & -> & -> & IV & ID & IN & INb).
    { eapply Forall2_imp; [|exact HVr]. intros sp' r' Vr. unfold valid_sp in *. eapply valid_mono; eauto. }
    { intros sp' x Hs Hx. apply O4. left. apply (Hsub sp'); auto. now right. }
    { intros x Hx. apply O4 in Hx. destruct Hx as [Hx|Hx]; [eapply nbelow_mono; [exact O1|]; auto | auto]. }
    split; [lia|]. exists ((L1, m1) :: args'). cbn [flat_map map fst snd]. repeat split; auto.
    + constructor; auto. unfold valid_sp. apply (valid_mono _ _ n1); auto. constructor; cbn [fst snd]; auto.
      intros K HK. unfold closed_of. cbn [fst snd]. rewrite <- (A K HK). unfold closed_of. cbn [fst snd].
      apply (O2 [] K HK); auto. intros x [].
    + intros x Hx. rewrite bvL_app in Hx. apply in_app_or in Hx. destruct Hx as [Hx|Hx]; auto.
      intros HR. apply (ID x Hx). apply O4. now left.
    + rewrite bvL_app. apply NoDup_app_intro; auto. intros x Hx Hr. apply (ID x Hr). apply O4. now right.
    + intros x Hx. rewrite bvL_app in Hx. apply in_app_or in Hx. destruct Hx as [Hx|Hx]; auto.
      eapply nbelow_mono; [exact I1 | auto].
Qed.

Lemma mergeable_of : forall specs args' n Rv,
  Forall2 (valid_sp n) specs args' ->
  (forall sp x, In sp specs -> In x (fst sp) -> In x Rv) ->
  disjoint (bvL (flat_map fst args')) Rv -> NoDup (bvL (flat_map fst args')) ->
  mergeable args'.
Proof.
  induction 1 as [|sp r specs rest V HF IH]; intros Hsub Hd Hn; cbn; auto.
  cbn [flat_map] in Hd, Hn. rewrite bvL_app in Hd, Hn. destruct (NoDup_app_inv _ _ Hn) as (N1 & N2 & D12).
  split; [|split].
  - (* the other matrices do not read the variables bound by this prefix *)
    clear IH. assert (Hr : forall r', In r' rest -> exists sp', In sp' specs /\ valid_sp n sp' r').
    { clear - HF. induction HF as [|s' r' ss rr Vs _ IHf]; intros r0 Hin; [destruct Hin|]. destruct Hin as [Hin|Hin]; [subst; exists s'; split; [now left | auto]|].
      destruct (IHf r0 Hin) as (s0 & Hs0 & Vs0). exists s0. split; [now right | auto]. }
    apply Forall_forall. intros r' Hr'. destruct (Hr r' Hr') as (sp' & Hsp' & V').
    apply (resp_indep _ (fst sp' ++ bvL (fst r'))).
    + eapply resp_weaken; [|apply (v_sup _ _ _ _ V')]. intros v. rewrite in_app_iff. tauto.
    + intros x Hx Hu. apply in_app_or in Hu. destruct Hu as [Hu|Hu].
      * apply (Hd x); [apply in_or_app; now left|]. apply (Hsub sp'); auto. now right.
      * apply (D12 x Hx). rewrite bvL_flat. apply in_flat_map. exists r'. auto.
  - apply (resp_indep _ (fst sp)); [apply (closed_resp _ _ _ _ V)|].
    intros x Hx Hu. apply (Hd x); [apply in_or_app; now right|]. apply (Hsub sp); auto. now left.
  - apply (IH); auto.
    + intros sp' x Hs Hx. apply (Hsub sp'); auto. now right.
    + intros x Hx. apply Hd. apply in_or_app. now right.
Qed.

Lemma holds_mk_and K ms : holds K (mk_and ms) <-> big and True (map (fun m => holds K m) ms).
Proof.
  rewrite holds_tv, tv_mk_and. induction ms as [|m ms IH]; cbn; [tauto|]. rewrite andb_true_iff, IH, holds_tv. tauto.
Qed.
Lemma holds_mk_or K ms : holds K (mk_or ms) <-> big or False (map (fun m => holds K m) ms).
Proof.
  rewrite holds_tv, tv_mk_or. induction ms as [|m ms IH]; cbn; [split; [discriminate | tauto]|]. rewrite orb_true_iff, IH, holds_tv. tauto.
Qed.

Definition sem_cn (is_and : bool) (specs : list spec) (K : interp) : Prop :=
  if is_and then big and True (map (fun sp => snd sp K) specs) else big or False (map (fun sp => snd sp K) specs).

Lemma big_map_ext {A} cn u (f g : A -> Prop) l :
  (forall A0 A' B B', (A0 <-> A') -> (B <-> B') -> (cn A0 B <-> cn A' B')) ->
  (forall x, In x l -> (f x <-> g x)) -> (big cn u (map f l) <-> big cn u (map g l)).
Proof.
  intros Hc H. induction l as [|a l IH]; cbn; [reflexivity|]. apply Hc; [apply H; now left | apply IH; intros; apply H; now right].
Qed.
Lemma big_Forall2 {A B} cn u (f : A -> Prop) (g : B -> Prop) la lb :
  (forall A0 A' B0 B', (A0 <-> A') -> (B0 <-> B') -> (cn A0 B0 <-> cn A' B')) ->
  Forall2 (fun a b => f a <-> g b) la lb -> (big cn u (map f la) <-> big cn u (map g lb)).
Proof. intros Hc H. induction H; cbn; [reflexivity | now apply Hc]. Qed.

Lemma conj_disj_valid is_and fvs n args specs n' r :
  conj_disj is_and fvs n args = (n', r) ->
  Forall2 (valid_sp n) specs args ->
  (forall x, In x fvs <-> exists sp, In sp specs /\ In x (fst sp)) ->
  (forall x, In x fvs -> nbelow n x) ->
  n <= n' /\ valid fvs (sem_cn is_and specs) n' r.
Proof.
  unfold conj_disj. destruct (cd_args n fvs args) as [[n1 L] ms] eqn:E. intros H HV Hf Hnb. injection H as <- <-.
  destruct (cd_args_spec args specs n fvs n1 L ms E HV) as (I1 & args' & -> & -> & IV & ID & IN & INb); auto.
  { intros sp x Hs Hx. apply Hf. eauto. }
  split; auto.
  assert (Hsub : forall sp x, In sp specs -> In x (fst sp) -> In x fvs) by (intros sp x Hs Hx; apply Hf; eauto).
  pose proof (mergeable_of specs args' n1 fvs IV Hsub ID IN) as HM.
  assert (Hfo : Forall (fun v => fo_ok (snd v)) (bvL (flat_map fst args'))).
  { clear - IV. induction IV as [|sp r ss rr V _ IHf]; cbn; [constructor|]. rewrite bvL_app. apply Forall_app. split; auto. apply (v_fo _ _ _ _ V). }
  assert (Hsup : Forall (fun r' => resp (fun J => holds J (snd r')) (fun x => In x fvs \/ In x (bvL (flat_map fst args')))) args').
  { clear - IV Hsub. assert (G : forall r', In r' args' -> exists sp, In sp specs /\ valid_sp n1 sp r').
    { induction IV as [|s' r' ss rr Vs _ IHf]; intros r0 Hin; [destruct Hin|]. destruct Hin as [Hin|Hin]; [subst; exists s'; split; [now left | auto]|].
      destruct (IHf (fun sp x Hs => Hsub sp x (or_intror Hs)) r0 Hin) as (s0 & Hs0 & Vs0). exists s0. split; [now right | auto]. }
    apply Forall_forall. intros r' Hr'. destruct (G r' Hr') as (sp & Hs & V). eapply resp_weaken; [|apply (v_sup _ _ _ _ V)].
    intros v [Hv|Hv]; [left; eapply Hsub; eauto|]. right. rewrite bvL_flat. apply in_flat_map. exists r'. auto. }
  assert (Hqf : forallb is_qf (map snd args') = true /\ forallb normal (map snd args') = true).
  { clear - IV. induction IV as [|sp r ss rr V _ [IH1 IH2]]; [split; reflexivity|].
    split; cbn [map forallb]; apply andb_true_iff; split; auto; [apply (v_qf _ _ _ _ V) | apply (v_nm _ _ _ _ V)]. }
  destruct Hqf as [Hq Hn].
  constructor; cbn [fst snd]; auto.
  - (* semantics *)
    intros K HK. unfold closed_of. cbn [fst snd]. unfold sem_cn. destruct is_and.
    + assert (Eq : forall J, holds J (mk_and (map snd args')) <-> big and True (map (fun r => holds J (snd r)) args')) by (intros J; rewrite holds_mk_and, map_map; reflexivity).
      rewrite (qs_ext _ _ _ Eq K).
      rewrite (qs_merge_and args' K HK Hfo HM).
      symmetry. apply big_Forall2; [apply and_iff2|]. clear - IV HK. induction IV as [|sp r ss rr V _ IHf]; constructor; auto.
      symmetry. apply (v_sem _ _ _ _ V K HK).
    + assert (Eq : forall J, holds J (mk_or (map snd args')) <-> big or False (map (fun r => holds J (snd r)) args')) by (intros J; rewrite holds_mk_or, map_map; reflexivity).
      rewrite (qs_ext _ _ _ Eq K).
      rewrite (qs_merge_or args' K HK Hfo HM).
      symmetry. apply big_Forall2; [apply or_iff2|]. clear - IV HK. induction IV as [|sp r ss rr V _ IHf]; constructor; auto.
      symmetry. apply (v_sem _ _ _ _ V K HK).
  - (* support *)
    intros K K' HK HK' Ag.
    assert (Em : forall m, In m (map snd args') -> (holds K m <-> holds K' m)).
    { intros m Hm. apply in_map_iff in Hm. destruct Hm as (r' & <- & Hr'). rewrite Forall_forall in Hsup. apply (Hsup r' Hr'); auto. }
    destruct is_and.
    + rewrite !holds_mk_and. apply big_map_ext; [apply and_iff2 | exact Em].
    + rewrite !holds_mk_or. apply big_map_ext; [apply or_iff2 | exact Em].
  - destruct is_and; [now apply is_qf_mk_and | now apply is_qf_mk_or].
  - destruct is_and; [now apply normal_mk_and | now apply normal_mk_or].
Qed.

(* ---------------------------------------------------------------- walk_not *)
Lemma bvL_invert L : bvL (invert L) = bvL L.
Proof. induction L as [|q L IH]; [reflexivity|]. change (invert (q :: L)) with ((negb (fst q), snd q) :: invert L). rewrite !bvL_cons. cbn [snd]. now rewrite IH. Qed.

Lemma holds_mk_not K m : holds K (mk_not m) <-> ~ holds K m.
Proof. rewrite !holds_tv, tv_mk_not. destruct (tv K m); cbn; split; intros H; try discriminate; try tauto; try (intros H'; discriminate); try (exfalso; now apply H). Qed.

Lemma valid_not fvs Sem n r : valid fvs Sem n r -> valid fvs (fun K => ~ Sem K) n (p_not r).
Proof.
  intros [A B C D E F G I]. destruct r as [L m]. unfold p_not. cbn [fst snd] in *.
  constructor; cbn [fst snd]; rewrite ?bvL_invert; auto.
  - intros K HK. unfold closed_of. cbn [fst snd]. rewrite (qs_ext _ _ _ (fun J => holds_mk_not J m) K), qs_not.
    unfold closed_of in A. cbn [fst snd] in A. now rewrite (A K HK).
  - intros K K' HK HK' Ag. rewrite !holds_mk_not. now rewrite (B K K' HK HK' Ag).
  - now apply is_qf_mk_not.
  - now apply normal_mk_not.
Qed.

(* ---------------------------------------------------------------- walk_quantifier *)
Lemma isym_bind_map : forall vs (g : var -> value) K n ty,
  isym (bind K vs (map g vs)) n ty = if mem var_eqb (n, ty) vs then g (n, ty) else isym K n ty.
Proof.
  induction vs as [|v vs IH]; intros g K n ty; cbn [bind map]; auto.
  rewrite IH. cbn [mem existsb]. fold (mem var_eqb (n, ty) vs).
  destruct (mem var_eqb (n, ty) vs); [now rewrite orb_true_r|]. rewrite orb_false_r, isym_bind1'.
  destruct (var_eqb (n, ty) v) eqn:E; auto. apply var_eqb_iff in E. now subst.
Qed.
Lemma vals_ok_map_g (g : var -> value) B : (forall v, In v B -> has_ty (g v) (snd v)) -> vals_ok (map g B) B.
Proof. induction B as [|v B IH]; intros H; cbn; auto. split; [apply H; now left | apply IH; intros; apply H; now right]. Qed.

Lemma bind_transfer K A B (F : list var) xs : wf_interp K -> vals_ok xs A ->
  Forall (fun v => fo_ok (snd v)) B -> (forall x, In x F -> (In x A <-> In x B)) ->
  exists ys, vals_ok ys B /\ agS (fun x => In x F) (bind K A xs) (bind K B ys).
Proof.
  intros HK Hok HfB HF.
  set (g := fun v : var => if mem var_eqb v A then isym (bind K A xs) (fst v) (snd v) else default_val (snd v)).
  exists (map g B). split.
  - apply vals_ok_map_g. intros v Hv. rewrite Forall_forall in HfB. unfold g. destruct (mem var_eqb v A).
    + destruct (wf_bind A xs K HK Hok) as [W _]. apply W. now apply HfB.
    + apply default_val_has_ty. now apply HfB.
  - destruct (bind_other A xs K) as (A1 & A2 & A3). destruct (bind_other B (map g B) K) as (B1 & B2 & B3).
    split; [congruence|]. split; [congruence|]. split.
    + intros n t Hin. rewrite isym_bind_map. destruct (mem var_eqb (n, t) B) eqn:MB.
      * apply (mem_In var_eqb var_eqb_eq) in MB. apply (HF _ Hin) in MB. apply (mem_In var_eqb var_eqb_eq) in MB.
        unfold g. now rewrite MB.
      * apply bind_isym_notin. intros HA. apply (HF _ Hin) in HA. apply (mem_In var_eqb var_eqb_eq) in HA. congruence.
    + intros n t _. now rewrite A1, B1.
Qed.

Lemma step_transfer ex A B phi (F : list var) K : wf_interp K -> resp phi (fun x => In x F) ->
  Forall (fun v => fo_ok (snd v)) A -> Forall (fun v => fo_ok (snd v)) B ->
  (forall x, In x F -> (In x A <-> In x B)) ->
  (step (ex, A) phi K <-> step (ex, B) phi K).
Proof.
  intros HK Hp HA HB HF.
  assert (T1 : forall xs, vals_ok xs A -> exists ys, vals_ok ys B /\ (phi (bind K A xs) <-> phi (bind K B ys))).
  { intros xs Hok. destruct (bind_transfer K A B F xs HK Hok HB HF) as (ys & Hy & Ag). exists ys. split; auto.
    apply Hp; auto using wf_bind. }
  assert (T2 : forall ys, vals_ok ys B -> exists xs, vals_ok xs A /\ (phi (bind K A xs) <-> phi (bind K B ys))).
  { intros ys Hok. destruct (bind_transfer K B A F ys HK Hok HA) as (xs & Hx & Ag); [intros x Hx; symmetry; now apply HF|].
    exists xs. split; auto. symmetry. apply Hp; auto using wf_bind. }
  unfold step. cbn [fst snd]. destruct ex.
  - split; [intros (xs & Hok & P); destruct (T1 xs Hok) as (ys & Hy & E); exists ys; split; auto; now apply E
           | intros (ys & Hok & P); destruct (T2 ys Hok) as (xs & Hx & E); exists xs; split; auto; now apply E].
  - split; [intros P ys Hok; destruct (T2 ys Hok) as (xs & Hx & E); apply E; auto
           | intros P xs Hok; destruct (T1 xs Hok) as (ys & Hy & E); apply E; auto].
Qed.

Lemma step_nil ex phi K : step (ex, []) phi K <-> phi K.
Proof.
  unfold step. cbn [fst snd]. destruct ex.
  - split; [intros (xs & Hok & P); destruct xs; [exact P | contradiction] | intros P; exists []; split; [exact Logic.I | exact P]].
  - split; [intros P; apply (P []); exact Logic.I | intros P xs Hok; destruct xs; [exact P | contradiction]].
Qed.

Lemma NoDup_add (x : var) l : NoDup l -> NoDup (add var_eqb x l).
Proof.
  intros H. unfold add. destruct (mem var_eqb x l) eqn:E; auto.
  apply NoDup_app_intro; auto; [constructor; [intros []|constructor]|].
  intros y Hy [<-|[]]. apply (mem_In var_eqb var_eqb_eq) in Hy. congruence.
Qed.
Lemma NoDup_dedupe (l : list var) : NoDup (dedupe var_eqb l).
Proof.
  unfold dedupe, union. assert (G : forall acc, NoDup acc -> NoDup (fold_left (fun a x => add var_eqb x a) l acc)).
  { induction l as [|x l IH]; intros acc H; cbn; auto. apply IH. now apply NoDup_add. }
  apply G. constructor.
Qed.

Definition qop (ex : bool) (vs : list var) : op := if ex then OExists vs else OForall vs.
Lemma fv_qop ex vs b x : In x (fv (T (qop ex vs) [b])) <-> In x (fv b) /\ ~ In x vs.
Proof.
  destruct ex; cbn [qop]; rewrite ?fv_exists, ?fv_forall, (diff_In var_eqb var_eqb_eq), (unions_In var_eqb var_eqb_eq); cbn [map].
  - split; [intros ((l & [<-|[]] & H) & N); auto | intros [H N]; split; auto; exists (fv b); split; [now left | auto]].
  - split; [intros ((l & [<-|[]] & H) & N); auto | intros [H N]; split; auto; exists (fv b); split; [now left | auto]].
Qed.
Lemma holds_qop ex vs b K : holds K (T (qop ex vs) [b]) <-> step (ex, vs) (fun J => holds J b) K.
Proof.
  unfold step. cbn [fst snd]. destruct ex; cbn [qop]; rewrite holds_tv.
  - rewrite tv_exists_true. split; intros (xs & Hok & H); exists xs; split; auto; now apply holds_tv.
  - rewrite tv_forall_true. split; intros H xs Hok; apply holds_tv; auto.
Qed.

Lemma valid_quant ex vs b n rb : valid (fv b) (fun K => holds K b) n rb ->
  Forall (fun v => fo_ok (snd v)) vs -> (forall x, In x vs -> nbelow n x) ->
  valid (fv (T (qop ex vs) [b])) (fun K => holds K (T (qop ex vs) [b])) n (p_quant ex vs rb).
Proof.
  intros [A B C D E F G I] Hfo Hnb. destruct rb as [Lb mb]. cbn [fst snd] in *.
  unfold p_quant. cbn [fst snd]. fold (bvL Lb).
  set (nq := dedupe var_eqb (diff var_eqb vs (bvL Lb))).
  assert (Hnq : forall x, In x nq <-> In x vs /\ ~ In x (bvL Lb)).
  { intros x. unfold nq. now rewrite (dedupe_In var_eqb var_eqb_eq), (diff_In var_eqb var_eqb_eq). }
  assert (Nnq : NoDup nq) by apply NoDup_dedupe.
  assert (Fnq : Forall (fun v => fo_ok (snd v)) nq).
  { apply Forall_forall. intros v Hv. apply Hnq in Hv. rewrite Forall_forall in Hfo. apply Hfo. tauto. }
  assert (HF : forall x, In x (fv b) -> (In x vs <-> In x nq)).
  { intros x Hx. rewrite Hnq. split; [intros Hv; split; auto; intros Hb; exact (D x Hb Hx) | tauto]. }
  assert (Hsem : forall K, wf_interp K -> (step (ex, nq) (closed_of (Lb, mb)) K <-> holds K (T (qop ex vs) [b]))).
  { intros K HK. rewrite holds_qop.
    rewrite (step_transfer ex vs nq (fun J => holds J b) (fv b) K HK (holds_resp b) Hfo Fnq HF).
    apply (step_ext_W wf_interp); auto. intros; now apply wf_bind. }
  assert (Hsup : resp (fun J => holds J mb) (fun x => In x (fv (T (qop ex vs) [b])) \/ In x (bvL Lb ++ nq))).
  { eapply resp_weaken; [|exact B]. intros v [Hv|Hv]; [|right; apply in_or_app; now left].
    destruct (in_dec (fun a b => sumbool_of_bool_var a b) v vs) as [Hin|Hin].
    - right. apply in_or_app. destruct (in_dec (fun a b => sumbool_of_bool_var a b) v (bvL Lb)); [now left|]. right. apply Hnq. tauto.
    - left. apply fv_qop. tauto. }
  assert (Hdis : disjoint (bvL Lb ++ nq) (fv (T (qop ex vs) [b]))).
  { intros x Hx Hf. apply fv_qop in Hf. destruct Hf as [Hf Nv]. apply in_app_or in Hx. destruct Hx as [Hx|Hx]; [exact (D x Hx Hf)|].
    apply Hnq in Hx. tauto. }
  destruct nq as [|a nq'] eqn:En.
  - (* every variable is shadowed *)
    constructor; cbn [fst snd]; auto.
    + intros K HK. rewrite <- (Hsem K HK). now rewrite step_nil.
    + eapply resp_weaken; [|exact Hsup]. intros v. rewrite app_nil_r. tauto.
    + intros x Hx. apply Hdis. apply in_or_app. now left.
  - rewrite <- En in *. clear En. constructor; cbn [fst snd]; rewrite ?bvL_app; cbn [bvL flat_map snd]; rewrite ?app_nil_r; auto.
    + intros K HK. unfold closed_of. cbn [fst snd]. rewrite qs_app. cbn [qs]. apply (Hsem K HK).
    + apply NoDup_app_intro; auto. intros x Hx Hn. apply Hnq in Hn. tauto.
    + intros x Hx. apply in_app_or in Hx. destruct Hx as [Hx|Hx]; auto. apply Hnb. apply Hnq in Hx. tauto.
    + apply Forall_app. split; auto.
Qed.

(* ---------------------------------------------------------------- implies / iff / ite *)
Lemma fv_mk_not a x : In x (fv (mk_not a)) <-> In x (fv a).
Proof.
  assert (G : forall u, In x (fv (T ONot [u])) <-> In x (fv u)).
  { intros u. cbn [fv]. rewrite (unions_In var_eqb var_eqb_eq). cbn [map].
    split; [intros (l & [<-|[]] & H); auto | intros H; exists (fv u); split; [now left | auto]]. }
  destruct a as [o args]. destruct o; try apply G. destruct args as [|y [|z r]]; try apply G.
  cbn [mk_not]. symmetry. apply G.
Qed.
Lemma fv_nary o l x : (o = OAnd \/ o = OOr \/ o = OImplies) -> (In x (fv (T o l)) <-> exists a, In a l /\ In x (fv a)).
Proof.
  intros Ho. assert (E : fv (T o l) = unions var_eqb (map fv l)) by (destruct Ho as [->|[->| ->]]; reflexivity).
  rewrite E, (unions_In var_eqb var_eqb_eq). split.
  - intros (s & Hs & Hx). apply in_map_iff in Hs. destruct Hs as (a & <- & Ha). eauto.
  - intros (a & Ha & Hx). exists (fv a). split; auto. now apply in_map.
Qed.

Lemma implies_valid n a b fa fb (Sa Sb : interp -> Prop) ra rb n' r :
  p_implies n a b ra rb = (n', r) -> valid fa Sa n ra -> valid fb Sb n rb ->
  (forall x, In x fa <-> In x (fv a)) -> (forall x, In x fb <-> In x (fv b)) ->
  (forall x, In x fa \/ In x fb -> nbelow n x) ->
  n <= n' /\ valid (fa ++ fb) (fun K => Sa K -> Sb K) n' r.
Proof.
  unfold p_implies. intros E Va Vb Ha Hb Hnb.
  destruct (conj_disj_valid false _ n _ [(fa, fun K => ~ Sa K); (fb, Sb)] n' r E) as (Hle & V).
  - constructor; [apply valid_not; exact Va | constructor; [exact Vb | constructor]].
  - intros x. rewrite fv_nary by auto. split.
    + intros (t & [<-|[<-|[]]] & Hx); [apply (proj1 (fv_mk_not _ _)) in Hx; exists (fa, fun K => ~ Sa K); split; [cbn; auto | cbn [fst]; apply Ha; exact Hx]
                                       | exists (fb, Sb); split; [cbn; auto | cbn [fst]; apply Hb; exact Hx]].
    + intros (sp & [<-|[<-|[]]] & Hx); cbn in Hx; [exists (mk_not a); split; [now left | apply (proj2 (fv_mk_not _ _)); apply Ha; exact Hx]
                                                   | exists b; split; [right; now left | now apply Hb]].
  - intros x Hx. rewrite fv_nary in Hx by auto. destruct Hx as (t & [<-|[<-|[]]] & Hx); apply Hnb;
      [left; apply Ha; apply (proj1 (fv_mk_not _ _)) in Hx; exact Hx | right; now apply Hb].
  - split; auto. eapply valid_fvs; [|eapply valid_sem; [|exact V]].
    + intros x. rewrite fv_nary by auto. rewrite in_app_iff. split.
      * intros (t & [<-|[<-|[]]] & Hx); [left; apply Ha; apply (proj1 (fv_mk_not _ _)) in Hx; exact Hx | right; now apply Hb].
      * intros [Hx|Hx]; [exists (mk_not a); split; [now left | apply (proj2 (fv_mk_not _ _)); apply Ha; exact Hx] | exists b; split; [right; now left | now apply Hb]].
    + intros K HK. unfold sem_cn. cbn. destruct (classic (Sa K)); tauto.
Qed.

Lemma fv_implies a b x : In x (fv (T OImplies [a; b])) <-> In x (fv a) \/ In x (fv b).
Proof.
  rewrite fv_nary by auto. split; [intros (t & [<-|[<-|[]]] & Hx); auto | intros [H|H]; [exists a | exists b]; cbn; auto].
Qed.

Lemma and2_valid n fvs (t1 t2 : term) f1 f2 (S1 S2 : interp -> Prop) r1 r2 n' r :
  conj_disj true (fv (T OAnd [t1; t2])) n [r1; r2] = (n', r) -> valid f1 S1 n r1 -> valid f2 S2 n r2 ->
  (forall x, In x f1 <-> In x (fv t1)) -> (forall x, In x f2 <-> In x (fv t2)) ->
  (forall x, In x f1 \/ In x f2 -> nbelow n x) ->
  (forall x, In x fvs <-> In x f1 \/ In x f2) ->
  n <= n' /\ valid fvs (fun K => S1 K /\ S2 K) n' r.
Proof.
  intros E V1 V2 H1 H2 Hnb Hf.
  destruct (conj_disj_valid true _ n _ [(f1, S1); (f2, S2)] n' r E) as (Hle & V).
  - constructor; [exact V1 | constructor; [exact V2 | constructor]].
  - intros x. rewrite fv_nary by auto. split.
    + intros (t & [<-|[<-|[]]] & Hx); [exists (f1, S1); split; [cbn; auto | cbn [fst]; apply H1; exact Hx] | exists (f2, S2); split; [cbn; auto | cbn [fst]; apply H2; exact Hx]].
    + intros (sp & [<-|[<-|[]]] & Hx); cbn in Hx; [exists t1; split; [now left | now apply H1] | exists t2; split; [right; now left | now apply H2]].
  - intros x Hx. rewrite fv_nary in Hx by auto. destruct Hx as (t & [<-|[<-|[]]] & Hx); apply Hnb; [left; now apply H1 | right; now apply H2].
  - split; auto. eapply valid_fvs; [|eapply valid_sem; [|exact V]].
    + intros x. rewrite fv_nary by auto. rewrite Hf. split.
      * intros (t & [<-|[<-|[]]] & Hx); [left; now apply H1 | right; now apply H2].
      * intros [Hx|Hx]; [exists t1; split; [now left | now apply H1] | exists t2; split; [right; now left | now apply H2]].
    + intros K HK. unfold sem_cn. cbn. tauto.
Qed.

Lemma iff_valid n a b ra rb n' r :
  p_iff n a b ra rb = (n', r) -> valid (fv a) (fun K => holds K a) n ra -> valid (fv b) (fun K => holds K b) n rb ->
  (forall x, In x (fv a) \/ In x (fv b) -> nbelow n x) ->
  n <= n' /\ valid (fv (T OIff [a; b])) (fun K => holds K (T OIff [a; b])) n' r.
Proof.
  unfold p_iff. intros E Va Vb Hnb.
  destruct (p_implies n a b ra rb) as [n1 r1] eqn:E1. destruct (p_implies n1 b a rb ra) as [n2 r2] eqn:E2.
  destruct (implies_valid _ _ _ _ _ _ _ _ _ _ _ E1 Va Vb (fun x => iff_refl _) (fun x => iff_refl _) Hnb) as (L1 & V1).
  destruct (implies_valid n1 b a (fv b) (fv a) (fun K => holds K b) (fun K => holds K a) rb ra n2 r2 E2) as (L2 & V2); auto.
  { eapply valid_mono; eauto. } { eapply valid_mono; eauto. } { reflexivity. } { reflexivity. }
  { intros x Hx. eapply nbelow_mono; [exact L1|]. apply Hnb. tauto. }
  destruct (and2_valid n2 (fv (T OIff [a; b])) (T OImplies [a; b]) (T OImplies [b; a]) _ _ _ _ r1 r2 n' r E
              (valid_mono _ _ _ _ _ L2 V1) V2) as (L3 & V3).
  - intros x. rewrite fv_implies, in_app_iff. tauto.
  - intros x. rewrite fv_implies, in_app_iff. tauto.
  - intros x Hx. eapply nbelow_mono; [|apply (Hnb x)]; [lia|]. rewrite !in_app_iff in Hx. tauto.
  - intros x. rewrite !in_app_iff. change (fv (T OIff [a; b])) with (unions var_eqb (map fv [a; b])).
    rewrite (unions_In var_eqb var_eqb_eq). cbn [map]. split.
    + intros (l & [<-|[<-|[]]] & H); tauto.
    + intros [[H|H]|[H|H]]; [exists (fv a) | exists (fv b) | exists (fv b) | exists (fv a)]; cbn; auto.
  - split; [lia|]. eapply valid_sem; [|exact V3]. intros K HK. cbn beta. rewrite (holds_tv K (T OIff [a; b])), tv_iff, !holds_tv.
    destruct (tv K a), (tv K b); cbn; split; try tauto; try discriminate; intros [H1 H2]; try (now apply H1); try (now apply H2); auto.
Qed.

Lemma ite_valid n i t e ri rt re n' r :
  p_ite n i t e ri rt re = (n', r) ->
  valid (fv i) (fun K => holds K i) n ri -> valid (fv t) (fun K => holds K t) n rt -> valid (fv e) (fun K => holds K e) n re ->
  (forall x, In x (fv i) \/ In x (fv t) \/ In x (fv e) -> nbelow n x) ->
  n <= n' /\ valid (fv (T OIte [i; t; e])) (fun K => holds K (T OIte [i; t; e])) n' r.
Proof.
  unfold p_ite. intros E Vi Vt Ve Hnb.
  destruct (p_implies n i t ri rt) as [n1 r1] eqn:E1. destruct (p_implies n1 (mk_not i) e (p_not ri) re) as [n2 r2] eqn:E2.
  destruct (implies_valid _ _ _ _ _ _ _ _ _ _ _ E1 Vi Vt (fun x => iff_refl _) (fun x => iff_refl _)) as (L1 & V1).
  { intros x Hx. apply Hnb. tauto. }
  destruct (implies_valid n1 (mk_not i) e (fv i) (fv e) (fun K => ~ holds K i) (fun K => holds K e) (p_not ri) re n2 r2 E2) as (L2 & V2); auto.
  { apply valid_not. eapply valid_mono; eauto. } { eapply valid_mono; eauto. }
  { intros x. symmetry. apply fv_mk_not. } { reflexivity. }
  { intros x Hx. eapply nbelow_mono; [exact L1|]. apply Hnb. tauto. }
  destruct (and2_valid n2 (fv (T OIte [i; t; e])) (T OImplies [i; t]) (T OImplies [mk_not i; e]) _ _ _ _ r1 r2 n' r E
              (valid_mono _ _ _ _ _ L2 V1) V2) as (L3 & V3).
  - intros x. rewrite fv_implies, in_app_iff. tauto.
  - intros x. rewrite fv_implies, in_app_iff, fv_mk_not. tauto.
  - intros x Hx. eapply nbelow_mono; [|apply (Hnb x)]; [lia|]. rewrite !in_app_iff in Hx. tauto.
  - intros x. rewrite !in_app_iff. change (fv (T OIte [i; t; e])) with (unions var_eqb (map fv [i; t; e])).
    rewrite (unions_In var_eqb var_eqb_eq). cbn [map]. split.
    + intros (l & [<-|[<-|[<-|[]]]] & H); tauto.
    + intros [[H|H]|[H|H]]; [exists (fv i) | exists (fv t) | exists (fv i) | exists (fv e)]; cbn; auto.
  - split; [lia|]. eapply valid_sem; [|exact V3]. intros K HK. cbn beta. rewrite (holds_tv K (T OIte [i; t; e])), tv_ite, !holds_tv.
    destruct (tv K i), (tv K t), (tv K e); cbn; split; try tauto; try discriminate; intros [H1 H2];
      try (now apply H1); try (now apply H2); try (apply H2; discriminate); auto.
Qed.

(* ---------------------------------------------------------------- the walk *)
Fixpoint avars (t : term) : list var :=
  match t with
  | T o args =>
      (match o with OSymbol n ty | OFunction n ty => [(n, ty)] | OForall vs | OExists vs => vs | _ => [] end)
        ++ flat_map avars args
  end.
Fixpoint binders_ok (t : term) : Prop :=
  match t with
  | T o args =>
      (match o with OForall vs | OExists vs => Forall (fun v => fo_ok (snd v)) vs | _ => True end) /\
      (fix all (l : list term) : Prop := match l with [] => True | x :: r => binders_ok x /\ all r end) args
  end.
Lemma binders_ok_args o args : binders_ok (T o args) -> Forall binders_ok args.
Proof. intros [_ H]. induction args as [|x r IH]; constructor; destruct H; auto. Qed.

Lemma avars_arg o args a x : In a args -> In x (avars a) -> In x (avars (T o args)).
Proof. intros Ha Hx. cbn [avars]. apply in_or_app. right. apply in_flat_map. eauto. Qed.

Lemma fv_avars : forall t x, In x (fv t) -> In x (avars t).
Proof.
  induction t as [o args IH] using term_ind'. intros x Hx.
  assert (Hrec : In x (unions var_eqb (map fv args)) -> In x (avars (T o args))).
  { intros H. apply (unions_In var_eqb var_eqb_eq) in H. destruct H as (l & Hl & H). apply in_map_iff in Hl.
    destruct Hl as (a & <- & Ha). apply (avars_arg o args a); auto. rewrite Forall_forall in IH. auto. }
  destruct o; cbn [fv] in Hx; auto; try contradiction.
  - apply (diff_In var_eqb var_eqb_eq) in Hx. tauto.
  - apply (diff_In var_eqb var_eqb_eq) in Hx. tauto.
  - destruct Hx as [<-|[]]. cbn. now left.
  - apply (union_In var_eqb var_eqb_eq) in Hx. destruct Hx as [[<-|[]]|Hx]; [cbn; now left | auto].
Qed.

Definition spec_of (t : term) : spec := (fv t, fun K => holds K t).

Lemma pws_with_valid f : forall l n n' rs,
  Forall (fun x => forall n n' r, (forall v, In v (avars x) -> nbelow n v) -> f x n = (n', Some r) ->
                                  n <= n' /\ valid (fv x) (fun K => holds K x) n' r) l ->
  (forall x v, In x l -> In v (avars x) -> nbelow n v) ->
  pws_with f l n = (n', Some rs) -> n <= n' /\ Forall2 (valid_sp n') (map spec_of l) rs.
Proof.
  induction l as [|x l IH]; intros n n' rs H Hnb E; cbn in E.
  - injection E as <- <-. split; [lia | constructor].
  - destruct (f x n) as [n1 rx] eqn:Ex. fold (pws_with f) in E. destruct (pws_with f l n1) as [n2 rr] eqn:Er.
    inversion H as [|? ? Hx Hl]; subst. destruct rx as [a|]; [|discriminate]. destruct rr as [b|]; [|discriminate].
    injection E as <- <-. destruct (Hx n n1 a) as (L1 & V1); auto. { intros v Hv. apply (Hnb x); auto. now left. }
    destruct (IH n1 n2 b Hl) as (L2 & V2); auto.
    { intros y v Hy Hv. eapply nbelow_mono; [exact L1|]. apply (Hnb y); auto. now right. }
    split; [lia|]. cbn [map]. constructor; auto. unfold valid_sp, spec_of. cbn [fst snd]. eapply valid_mono; eauto.
Qed.

Lemma sem_and_list K l : big and True (map (fun sp : spec => snd sp K) (map spec_of l)) <-> holds K (T OAnd l).
Proof.
  rewrite holds_tv, tv_and. induction l as [|a l IH]; cbn; [tauto|]. rewrite andb_true_iff, IH, holds_tv. tauto.
Qed.
Lemma sem_or_list K l : big or False (map (fun sp : spec => snd sp K) (map spec_of l)) <-> holds K (T OOr l).
Proof.
  rewrite holds_tv, tv_or. induction l as [|a l IH]; cbn; [split; [tauto | discriminate]|]. rewrite orb_true_iff, IH, holds_tv. tauto.
Qed.
Lemma fvs_list o l x : (o = OAnd \/ o = OOr \/ o = OImplies) ->
  (In x (fv (T o l)) <-> exists sp, In sp (map spec_of l) /\ In x (fst sp)).
Proof.
  intros Ho. rewrite fv_nary by auto. split.
  - intros (a & Ha & Hx). exists (spec_of a). split; [now apply in_map | exact Hx].
  - intros (sp & Hs & Hx). apply in_map_iff in Hs. destruct Hs as (a & <- & Ha). eauto.
Qed.

Theorem pw_valid : forall t n n' r,
  pq_frag t = true -> normal t = true -> binders_ok t -> (forall v, In v (avars t) -> nbelow n v) ->
  pw t n = (n', Some r) -> n <= n' /\ valid (fv t) (fun K => holds K t) n' r.
Proof.
  induction t as [o args IH] using term_ind'. intros n n' r Hf Hn Hb Hnb E.
  pose proof Hn as Hn0. cbn [normal] in Hn. apply andb_true_iff in Hn. destruct Hn as [_ Hna].
  pose proof (binders_ok_args _ _ Hb) as Hba.
  assert (Atom : pq_frag (T o args) = is_atom_bool o && forallb is_qf args ->
                 pw (T o args) n = (n, if is_atom_bool o then Some (@nil (bool * list var), T o args) else None) ->
                 n <= n' /\ valid (fv (T o args)) (fun K => holds K (T o args)) n' r).
  { intros Hp E0. rewrite E0 in E. rewrite Hp in Hf. apply andb_true_iff in Hf. destruct Hf as [Ha Hq]. rewrite Ha in E.
    injection E as <- <-. split; [lia|]. constructor; cbn [fst snd].
    - intros K HK. reflexivity.
    - eapply resp_weaken; [|apply holds_resp]. tauto.
    - constructor.
    - intros x [].
    - intros x [].
    - now apply atom_qf.
    - exact Hn0.
    - constructor. }
  assert (IH' : forall a, In a args -> pq_frag a = true -> forall n n' r, (forall v, In v (avars a) -> nbelow n v) ->
                  pw a n = (n', Some r) -> n <= n' /\ valid (fv a) (fun K => holds K a) n' r).
  { rewrite Forall_forall in IH, Hba. rewrite forallb_forall in Hna. intros a Ha Hfa k k' r0 Hv E0. apply IH; auto. }
  assert (Hav : forall a v, In a args -> In v (avars a) -> nbelow n v).
  { intros a v Ha Hv. apply Hnb. eapply avars_arg; eauto. }
  destruct o; try (apply Atom; reflexivity).
  - (* forall *) destruct args as [|b [|c l]]; try (apply Atom; reflexivity).
    cbn in Hf. cbn [pw] in E. destruct (pw b n) as [n1 rb] eqn:Eb. destruct rb as [rb|]; cbn in E; [|discriminate].
    injection E as <- <-. destruct (IH' b (or_introl eq_refl) Hf n n1 rb) as (L1 & V1); auto. { intros v Hv. apply (Hav b); auto. now left. }
    split; auto. apply (valid_quant false vs b n1 rb V1); [apply Hb|].
    intros x Hx. eapply nbelow_mono; [exact L1|]. apply Hnb. cbn. apply in_or_app. now left.
  - destruct args as [|b [|c l]]; try (apply Atom; reflexivity).
    cbn in Hf. cbn [pw] in E. destruct (pw b n) as [n1 rb] eqn:Eb. destruct rb as [rb|]; cbn in E; [|discriminate].
    injection E as <- <-. destruct (IH' b (or_introl eq_refl) Hf n n1 rb) as (L1 & V1); auto. { intros v Hv. apply (Hav b); auto. now left. }
    split; auto. apply (valid_quant true vs b n1 rb V1); [apply Hb|].
    intros x Hx. eapply nbelow_mono; [exact L1|]. apply Hnb. cbn. apply in_or_app. now left.
  - (* and *) cbn in Hf. rewrite forallb_forall in Hf. cbn [pw] in E.
    destruct (pws_with (fun x k => pw x k) args n) as [n1 rs] eqn:Es. destruct rs as [rs|]; [|discriminate].
    destruct (conj_disj true (fv (T OAnd args)) n1 rs) as [n2 r2] eqn:Ec. injection E as <- <-.
    destruct (pws_with_valid (fun x k => pw x k) args n n1 rs) as (L1 & V1); auto.
    { apply Forall_forall. intros x Hx k k' r0 Hv E0. apply IH'; auto. }
    destruct (conj_disj_valid true _ n1 rs (map spec_of args) n2 r2 Ec V1) as (L2 & V2).
    + intros x. apply fvs_list. auto.
    + intros x Hx. eapply nbelow_mono; [exact L1|]. apply Hnb. now apply fv_avars.
    + split; [lia|]. eapply valid_sem; [|exact V2]. intros K HK. apply sem_and_list.
  - (* or *) cbn in Hf. rewrite forallb_forall in Hf. cbn [pw] in E.
    destruct (pws_with (fun x k => pw x k) args n) as [n1 rs] eqn:Es. destruct rs as [rs|]; [|discriminate].
    destruct (conj_disj false (fv (T OOr args)) n1 rs) as [n2 r2] eqn:Ec. injection E as <- <-.
    destruct (pws_with_valid (fun x k => pw x k) args n n1 rs) as (L1 & V1); auto.
    { apply Forall_forall. intros x Hx k k' r0 Hv E0. apply IH'; auto. }
    destruct (conj_disj_valid false _ n1 rs (map spec_of args) n2 r2 Ec V1) as (L2 & V2).
    + intros x. apply fvs_list. auto.
    + intros x Hx. eapply nbelow_mono; [exact L1|]. apply Hnb. now apply fv_avars.
    + split; [lia|]. eapply valid_sem; [|exact V2]. intros K HK. apply sem_or_list.
  - (* not *) destruct args as [|a [|c l]]; try (apply Atom; reflexivity).
    cbn in Hf. cbn [pw] in E. destruct (pw a n) as [n1 ra] eqn:Ea. destruct ra as [ra|]; cbn in E; [|discriminate].
    injection E as <- <-. destruct (IH' a (or_introl eq_refl) Hf n n1 ra) as (L1 & V1); auto. { intros v Hv. apply (Hav a); auto. now left. }
    split; auto. apply valid_not in V1. eapply valid_fvs; [|eapply valid_sem; [|exact V1]].
    + intros x. cbn [fv]. rewrite (unions_In var_eqb var_eqb_eq). cbn [map].
      split; [intros H; exists (fv a); split; [now left | auto] | intros (l0 & [<-|[]] & H); auto].
    + intros K HK. cbn beta. rewrite (holds_tv K (T ONot [a])), tv_not, holds_tv. destruct (tv K a); cbn; split; intros H; try tauto; try discriminate; try (intros H'; discriminate); try (exfalso; now apply H).
  - (* implies *) destruct args as [|a [|b [|c l]]]; try (apply Atom; reflexivity).
    cbn in Hf. apply andb_true_iff in Hf. destruct Hf as [Hfa Hfb]. cbn [pw] in E.
    destruct (pw a n) as [n1 ra] eqn:Ea. destruct (pw b n1) as [n2 rb] eqn:Eb.
    destruct ra as [ra|]; [|destruct rb; discriminate]. destruct rb as [rb|]; [|discriminate].
    destruct (p_implies n2 a b ra rb) as [n3 r3] eqn:Ei. injection E as <- <-.
    destruct (IH' a (or_introl eq_refl) Hfa n n1 ra) as (L1 & V1); auto. { intros v Hv. apply (Hav a); auto. now left. }
    destruct (IH' b (or_intror (or_introl eq_refl)) Hfb n1 n2 rb) as (L2 & V2); auto.
    { intros v Hv. eapply nbelow_mono; [exact L1|]. apply (Hav b); auto. right. now left. }
    destruct (implies_valid n2 a b (fv a) (fv b) (fun K => holds K a) (fun K => holds K b) ra rb n3 r3 Ei) as (L3 & V3); auto.
    { eapply valid_mono; eauto. } { reflexivity. } { reflexivity. }
    { intros x Hx. eapply nbelow_mono; [|apply (Hnb x)]; [lia|]. destruct Hx as [Hx|Hx]; apply fv_avars in Hx;
        [eapply (avars_arg _ _ a); eauto; now left | eapply (avars_arg _ _ b); eauto; right; now left]. }
    split; [lia|]. eapply valid_fvs; [|eapply valid_sem; [|exact V3]].
    + intros x. rewrite fv_implies, in_app_iff. tauto.
    + intros K HK. cbn beta. rewrite (holds_tv K (T OImplies [a; b])), tv_implies, !holds_tv.
      destruct (tv K a), (tv K b); cbn; split; intros H; try tauto; try discriminate; try (now apply H); try (intros H'; discriminate).
  - (* iff *) destruct args as [|a [|b [|c l]]]; try (apply Atom; reflexivity).
    cbn in Hf. apply andb_true_iff in Hf. destruct Hf as [Hfa Hfb]. cbn [pw] in E.
    destruct (pw a n) as [n1 ra] eqn:Ea. destruct (pw b n1) as [n2 rb] eqn:Eb.
    destruct ra as [ra|]; [|destruct rb; discriminate]. destruct rb as [rb|]; [|discriminate].
    destruct (p_iff n2 a b ra rb) as [n3 r3] eqn:Ei. injection E as <- <-.
    destruct (IH' a (or_introl eq_refl) Hfa n n1 ra) as (L1 & V1); auto. { intros v Hv. apply (Hav a); auto. now left. }
    destruct (IH' b (or_intror (or_introl eq_refl)) Hfb n1 n2 rb) as (L2 & V2); auto.
    { intros v Hv. eapply nbelow_mono; [exact L1|]. apply (Hav b); auto. right. now left. }
    destruct (iff_valid n2 a b ra rb n3 r3 Ei) as (L3 & V3); auto.
    { eapply valid_mono; eauto. }
    { intros x Hx. eapply nbelow_mono; [|apply (Hnb x)]; [lia|]. destruct Hx as [Hx|Hx]; apply fv_avars in Hx;
        [eapply (avars_arg _ _ a); eauto; now left | eapply (avars_arg _ _ b); eauto; right; now left]. }
    split; [lia | exact V3].
  - (* ite *) destruct args as [|i [|th [|el [|d l]]]]; try (apply Atom; reflexivity).
    cbn in Hf. apply andb_true_iff in Hf. destruct Hf as [Hf Hfe]. apply andb_true_iff in Hf. destruct Hf as [Hfi Hft].
    cbn [pw] in E.
    destruct (pw i n) as [n1 ri] eqn:Ei. destruct (pw th n1) as [n2 rt] eqn:Et. destruct (pw el n2) as [n3 re] eqn:Ee.
    destruct ri as [ri|]; [|destruct rt, re; discriminate]. destruct rt as [rt|]; [|destruct re; discriminate].
    destruct re as [re|]; [|discriminate].
    destruct (p_ite n3 i th el ri rt re) as [n4 r4] eqn:Ep. injection E as <- <-.
    destruct (IH' i (or_introl eq_refl) Hfi n n1 ri) as (L1 & V1); auto. { intros v Hv. apply (Hav i); auto. now left. }
    destruct (IH' th (or_intror (or_introl eq_refl)) Hft n1 n2 rt) as (L2 & V2); auto.
    { intros v Hv. eapply nbelow_mono; [exact L1|]. apply (Hav th); auto. right. now left. }
    destruct (IH' el (or_intror (or_intror (or_introl eq_refl))) Hfe n2 n3 re) as (L3 & V3); auto.
    { intros v Hv. eapply nbelow_mono; [|apply (Hav el)]; auto; [lia|]. right. right. now left. }
    destruct (ite_valid n3 i th el ri rt re n4 r4 Ep) as (L4 & V4); auto.
    { eapply valid_mono; [|exact V1]. lia. } { eapply valid_mono; [|exact V2]. lia. }
    { intros x Hx. eapply nbelow_mono; [|apply (Hnb x)]; [lia|]. destruct Hx as [Hx|[Hx|Hx]]; apply fv_avars in Hx;
        [eapply (avars_arg _ _ i); eauto; now left | eapply (avars_arg _ _ th); eauto; right; now left
         | eapply (avars_arg _ _ el); eauto; right; right; now left]. }
    split; [lia | exact V4].
Qed.

(* C10, prenex, semantic clause *)
Theorem prenex_equiv : forall n t r,
  pq_frag t = true -> normal t = true -> binders_ok t -> (forall v, In v (avars t) -> nbelow n v) ->
  prenex n t = Some r -> forall I, wf_interp I -> (holds I r <-> holds I t).
Proof.
  intros n t r Hf Hn Hb Hnb E I HI. unfold prenex in E. destruct (pw t n) as [n' [[L m]|]] eqn:Ep; cbn in E; [|discriminate].
  injection E as <-. destruct (pw_valid t n n' (L, m) Hf Hn Hb Hnb Ep) as (_ & V).
  rewrite holds_normalize. apply (v_sem _ _ _ _ V I HI).
Qed.

Open Scope string_scope.
Example prenex_equiv_example :
  let x := ("x", TBV 2) in
  let p := T (OBVRel BUlt) [TSym "x" (TBV 2); TSym "y" (TBV 2)] in
  let t := T OAnd [p; T (OExists [x]) [T ONot [p]]] in
  pq_frag t = true /\ normal t = true /\ binders_ok t /\ (forall v, In v (avars t) -> nbelow 0 v).
Proof.
  cbn zeta. split; [reflexivity|]. split; [reflexivity|]. split.
  - cbn. repeat split; auto. constructor; [cbn; lia | constructor].
  - intros v Hv k _ E. cbn in Hv. unfold fresh_name in E.
    repeat (destruct Hv as [<-|Hv]; [cbn in E; discriminate|]). contradiction.
Qed.
