(* Semantic toolkit for the prenex proof: quantifier prefixes as predicate transformers ([qs]),
   duality, moving a prefix over And / Or, merging the prefixes of several operands, and
   renaming of bound variables. *)
From Coq Require Import List ZArith Bool String Reals Lia.
From Coq Require Import Classical_Prop Classical_Pred_Type.
From PySMT.core Require Import Syntax SyntaxLemmas Sem.
From PySMT.models Require Import Oracles C10Local Prenex.
From PySMT.proofs Require Import Sets_proofs Coincidence C10Local_proofs Subst_proofs.
Import ListNotations.
Open Scope bool_scope.

Definition bvL (L : qpref) : list var := flat_map snd L.

Definition step (q : bool * list var) (phi : interp -> Prop) (J : interp) : Prop :=
  if fst q then exists xs, vals_ok xs (snd q) /\ phi (bind J (snd q) xs)
  else forall xs, vals_ok xs (snd q) -> phi (bind J (snd q) xs).
Fixpoint qs (L : qpref) (phi : interp -> Prop) : interp -> Prop :=
  match L with [] => phi | q :: L' => qs L' (step q phi) end.

Lemma qs_app L1 L2 phi : qs (L1 ++ L2) phi = qs L2 (qs L1 phi).
Proof. revert phi. induction L1 as [|q L1 IH]; intros phi; cbn; auto. Qed.

(* ---------------------------------------------------------------- extensionality *)
Section Ext.
  Variable W : interp -> Prop.
  Hypothesis W_bind : forall J vs xs, W J -> vals_ok xs vs -> W (bind J vs xs).

  Lemma step_ext_W q phi psi : (forall J, W J -> (phi J <-> psi J)) -> forall J, W J -> (step q phi J <-> step q psi J).
  Proof.
    intros H J HJ. unfold step. destruct (fst q).
    - split; intros (xs & Hok & P); exists xs; split; auto; apply (H _ (W_bind _ _ _ HJ Hok)); auto.
    - split; intros P xs Hok; apply (H _ (W_bind _ _ _ HJ Hok)); auto.
  Qed.
  Lemma qs_ext_W L : forall phi psi, (forall J, W J -> (phi J <-> psi J)) -> forall J, W J -> (qs L phi J <-> qs L psi J).
  Proof.
    induction L as [|q L IH]; intros phi psi H J HJ; cbn; auto.
    apply IH; auto. intros K HK. now apply step_ext_W.
  Qed.
End Ext.

Lemma qs_ext L phi psi : (forall J, phi J <-> psi J) -> forall J, qs L phi J <-> qs L psi J.
Proof. intros H J. apply (qs_ext_W (fun _ => True)); auto. Qed.
Lemma step_ext q phi psi : (forall J, phi J <-> psi J) -> forall J, step q phi J <-> step q psi J.
Proof. intros H J. apply (step_ext_W (fun _ => True)); auto. Qed.
Lemma qs_ext_wf L phi psi : (forall J, wf_interp J -> (phi J <-> psi J)) -> forall J, wf_interp J -> (qs L phi J <-> qs L psi J).
Proof. apply qs_ext_W. intros. now apply wf_bind. Qed.

(* ---------------------------------------------------------------- prefixes of terms *)
Definition wrapq (q : bool * list var) (m : term) : term :=
  if fst q then mk_exists (snd q) m else mk_forall (snd q) m.
Lemma normalize_cons q L m : normalize (q :: L) m = normalize L (wrapq q m).
Proof. reflexivity. Qed.

Lemma holds_wrapq q m J : holds J (wrapq q m) <-> step q (fun K => holds K m) J.
Proof.
  unfold wrapq, step. destruct (fst q).
  - rewrite holds_tv, tv_mk_exists_true. split; intros (xs & Hok & H); exists xs; split; auto; now apply holds_tv.
  - rewrite holds_tv, tv_mk_forall_true. split; intros H xs Hok; apply holds_tv; auto.
Qed.
Lemma holds_normalize : forall L m J, holds J (normalize L m) <-> qs L (fun K => holds K m) J.
Proof.
  induction L as [|q L IH]; intros m J; [reflexivity|].
  rewrite normalize_cons, IH. cbn [qs]. apply qs_ext. intros K. apply holds_wrapq.
Qed.

(* ---------------------------------------------------------------- duality *)
Lemma step_not q phi J : step (negb (fst q), snd q) (fun K => ~ phi K) J <-> ~ step q phi J.
Proof.
  unfold step. cbn [fst snd]. destruct (fst q); cbn [negb].
  - split.
    + intros H (xs & Hok & P). exact (H xs Hok P).
    + intros H xs Hok P. apply H. eauto.
  - split.
    + intros (xs & Hok & P) H. exact (P (H xs Hok)).
    + intros H. apply not_all_ex_not in H. destruct H as (xs & H). apply imply_to_and in H. exists xs. exact H.
Qed.
Lemma qs_not : forall L phi J, qs (invert L) (fun K => ~ phi K) J <-> ~ qs L phi J.
Proof.
  induction L as [|q L IH]; intros phi J; [reflexivity|].
  cbn [invert map qs]. rewrite <- IH. apply qs_ext. intros K. apply step_not.
Qed.

(* ---------------------------------------------------------------- support and independence
   (all statements are about well-sorted interpretations, which binding preserves) *)
Definition agS (S : var -> Prop) (K K' : interp) : Prop := agree S (fun _ => True) K K'.
Definition resp (phi : interp -> Prop) (S : var -> Prop) : Prop :=
  forall K K', wf_interp K -> wf_interp K' -> agS S K K' -> (phi K <-> phi K').
Definition indep (psi : interp -> Prop) (V : list var) : Prop :=
  forall K vs xs, wf_interp K -> incl vs V -> vals_ok xs vs -> (psi (bind K vs xs) <-> psi K).

Lemma agS_refl S K : agS S K K.
Proof. repeat split; auto. Qed.
Lemma agS_trans S K1 K2 K3 : agS S K1 K2 -> agS S K2 K3 -> agS S K1 K3.
Proof.
  intros (A & B & C & D) (A' & B' & C' & D'). repeat split; try congruence.
  - intros n t H. rewrite C, C'; auto.
  - intros n t H. rewrite D, D'; auto.
Qed.
Lemma agS_weaken (S S' : var -> Prop) K K' : (forall v, S' v -> S v) -> agS S K K' -> agS S' K K'.
Proof. intros H (A & B & C & D). repeat split; auto. Qed.

Lemma bind_isym_notin : forall vs xs J n ty, ~ In (n, ty) vs -> isym (bind J vs xs) n ty = isym J n ty.
Proof.
  induction vs as [|v vs IH]; intros xs J n ty Hn; destruct xs as [|x xs]; cbn [bind]; auto.
  rewrite IH by (intros H; apply Hn; now right). cbn.
  destruct (String.eqb n (fst v) && ty_eqb ty (snd v)) eqn:E; auto.
  apply andb_true_iff in E. destruct E as [E1 E2]. apply String.eqb_eq in E1. apply ty_eqb_eq in E2.
  exfalso. apply Hn. left. destruct v; cbn in *; subst; reflexivity.
Qed.
Lemma bind_other : forall vs xs J, ifun (bind J vs xs) = ifun J /\ rdiv0 (bind J vs xs) = rdiv0 J /\ idiv0 (bind J vs xs) = idiv0 J.
Proof.
  induction vs as [|v vs IH]; intros [|x xs] J; cbn [bind]; auto.
  destruct (IH xs (bind1 J v x)) as (A & B & C). rewrite A, B, C. auto.
Qed.

Definition disjoint (a b : list var) : Prop := forall x, In x a -> ~ In x b.

Lemma resp_indep psi (U V : list var) : resp psi (fun x => In x U) -> disjoint V U -> indep psi V.
Proof.
  intros Hr D K vs xs HK Hi Hok. apply Hr; auto; [now apply wf_bind|].
  destruct (bind_other vs xs K) as (A & B & C). repeat split; auto.
  - intros n t Hin. apply bind_isym_notin. intros H. apply (D (n, t)); auto.
  - intros n t _. now rewrite A.
Qed.
Lemma resp_weaken phi (S S' : var -> Prop) : (forall v, S v -> S' v) -> resp phi S -> resp phi S'.
Proof. intros H Hp K K' HK HK' A. apply Hp; auto. eapply agS_weaken; eauto. Qed.
Lemma resp_iff phi psi S : (forall K, wf_interp K -> (phi K <-> psi K)) -> resp phi S -> resp psi S.
Proof. intros H Hp K K' HK HK' A. rewrite <- !H; auto. Qed.
Lemma holds_resp m : resp (fun K => holds K m) (fun v => In v (fv m)).
Proof.
  intros K K' _ _ (A & B & C & D). unfold holds. replace (eval K' m) with (eval K m); [reflexivity|].
  apply coincidence_gen. repeat split; auto.
Qed.

Lemma vals_default vs : Forall (fun v => fo_ok (snd v)) vs -> exists xs, vals_ok xs vs.
Proof.
  induction 1 as [|v vs Hv _ (xs & IH)]; [exists []; exact Logic.I|].
  exists (default_val (snd v) :: xs). split; auto. now apply default_val_has_ty.
Qed.

(* binding enlarges the set on which two interpretations agree *)
Lemma bind_agS_grow (P : var -> Prop) vs xs K K' : vals_ok xs vs -> agS P K K' ->
  agS (fun u => P u \/ In u vs) (bind K vs xs) (bind K' vs xs).
Proof. intros Hok H. unfold agS. eapply agree_weaken; [| |apply (bind_agree vs xs _ _ _ _ Hok H)]; cbn; auto. Qed.

Lemma step_resp_grow ex vs phi (P : var -> Prop) :
  resp phi (fun u => P u \/ In u vs) -> resp (step (ex, vs) phi) P.
Proof.
  intros H K K' HK HK' A. unfold step. cbn [fst snd]. destruct ex.
  - split; intros (xs & Hok & Q); exists xs; split; auto.
    + apply (H (bind K vs xs) (bind K' vs xs)); auto using wf_bind. now apply bind_agS_grow.
    + apply (H (bind K vs xs) (bind K' vs xs)); auto using wf_bind. now apply bind_agS_grow.
  - split; intros Q xs Hok.
    + apply (H (bind K vs xs) (bind K' vs xs)); auto using wf_bind. now apply bind_agS_grow.
    + apply (H (bind K vs xs) (bind K' vs xs)); auto using wf_bind. now apply bind_agS_grow.
Qed.
Lemma qs_resp : forall L phi (P : var -> Prop), resp phi (fun u => P u \/ In u (bvL L)) -> resp (qs L phi) P.
Proof.
  induction L as [|[ex vs] L IH]; intros phi P H.
  - eapply resp_weaken; [|exact H]. cbn. tauto.
  - cbn [qs]. apply IH. apply step_resp_grow. eapply resp_weaken; [|exact H].
    intros v. unfold bvL. cbn [flat_map snd]. rewrite in_app_iff. tauto.
Qed.

(* ---------------------------------------------------------------- moving a prefix over a connective *)
Section Conn.
  Variable cn : Prop -> Prop -> Prop.
  Hypothesis cn_iff : forall A A' B B', (A <-> A') -> (B <-> B') -> (cn A B <-> cn A' B').
  Hypothesis cn_comm : forall A B, cn A B <-> cn B A.
  Hypothesis pull1 : forall (q : bool * list var) (phi : interp -> Prop) (B : Prop) K,
    (exists xs, vals_ok xs (snd q)) ->
    (step q (fun J => cn (phi J) B) K <-> cn (step q phi K) B).

  Lemma step_pull q phi psi K : wf_interp K -> Forall (fun v => fo_ok (snd v)) (snd q) -> indep psi (snd q) ->
    (step q (fun J => cn (phi J) (psi J)) K <-> cn (step q phi K) (psi K)).
  Proof.
    intros HK Hs Hi. transitivity (step q (fun J => cn (phi J) (psi K)) K); [|apply pull1; now apply vals_default].
    destruct q as [ex vs]. cbn [fst snd] in *.
    assert (E : forall xs, vals_ok xs vs ->
                (cn (phi (bind K vs xs)) (psi (bind K vs xs)) <-> cn (phi (bind K vs xs)) (psi K))).
    { intros xs Hok. apply cn_iff; [reflexivity | apply (Hi K vs xs HK (incl_refl _) Hok)]. }
    unfold step. cbn [fst snd]. destruct ex.
    - split; intros (xs & Hok & P); exists xs; split; auto; apply (E xs Hok); exact P.
    - split; intros P xs Hok; apply (E xs Hok); auto.
  Qed.

  Lemma indep_incl psi V V' : incl V' V -> indep psi V -> indep psi V'.
  Proof. intros H Hi K vs xs HK Hv Hok. apply Hi; auto. eapply incl_tran; eauto. Qed.

  Lemma qs_pull : forall L phi psi J, wf_interp J -> Forall (fun v => fo_ok (snd v)) (bvL L) -> indep psi (bvL L) ->
    (qs L (fun K => cn (phi K) (psi K)) J <-> cn (qs L phi J) (psi J)).
  Proof.
    induction L as [|q L IH]; intros phi psi J HJ Hs Hi; [reflexivity|].
    cbn [qs]. unfold bvL in Hs, Hi. cbn [flat_map] in Hs, Hi. apply Forall_app in Hs. destruct Hs as [Hs1 Hs2].
    rewrite <- IH; auto; [|eapply indep_incl; [|exact Hi]; apply incl_appr, incl_refl].
    apply qs_ext_wf; auto. intros K HK. apply step_pull; auto. eapply indep_incl; [|exact Hi]. apply incl_appl, incl_refl.
  Qed.
  Lemma qs_pull_l L phi psi J : wf_interp J -> Forall (fun v => fo_ok (snd v)) (bvL L) -> indep psi (bvL L) ->
    (qs L (fun K => cn (psi K) (phi K)) J <-> cn (psi J) (qs L phi J)).
  Proof.
    intros HJ Hs Hi. rewrite cn_comm, <- qs_pull; auto. apply qs_ext. intros K. apply cn_comm.
  Qed.

  (* n-ary *)
  Variable u : Prop.
  Definition big (l : list Prop) : Prop := fold_right cn u l.

  Lemma big_ext l l' : Forall2 iff l l' -> (big l <-> big l').
  Proof. induction 1; cbn; [reflexivity | now apply cn_iff]. Qed.

  Definition closed_of (r : pres) : interp -> Prop := qs (fst r) (fun K => holds K (snd r)).

  Fixpoint mergeable (args : list pres) : Prop :=
    match args with
    | [] => True
    | r :: rest =>
        Forall (fun r' => indep (fun K => holds K (snd r')) (bvL (fst r))) rest /\
        indep (closed_of r) (bvL (flat_map fst rest)) /\
        mergeable rest
    end.

  Lemma big_indep (rest : list pres) V :
    Forall (fun r' => indep (fun K => holds K (snd r')) V) rest ->
    indep (fun K => big (map (fun r => holds K (snd r)) rest)) V.
  Proof.
    intros H K vs xs HK Hv Hok. apply big_ext. induction H as [|r rest Hr _ IH]; cbn; constructor; auto;
      try apply (Hr K vs xs HK Hv Hok).
  Qed.

  Lemma qs_merge : forall (args : list pres) J, wf_interp J ->
    Forall (fun v => fo_ok (snd v)) (bvL (flat_map fst args)) -> mergeable args ->
    (qs (flat_map fst args) (fun K => big (map (fun r => holds K (snd r)) args)) J <->
     big (map (fun r => closed_of r J) args)).
  Proof.
    induction args as [|[L m] rest IH]; intros J HJ Hs Hm; [reflexivity|].
    cbn [flat_map map fst snd]. destruct Hm as (C1 & C2 & Hm).
    unfold bvL in Hs. cbn [flat_map fst] in Hs. rewrite flat_map_app in Hs. apply Forall_app in Hs. destruct Hs as [Hs1 Hs2].
    rewrite qs_app. cbn [big fold_right]. fold (big (map (fun r => closed_of r J) rest)).
    assert (E1 : forall K, wf_interp K ->
                   (qs L (fun K0 => cn (holds K0 m) (big (map (fun r => holds K0 (snd r)) rest))) K <->
                    cn (closed_of (L, m) K) (big (map (fun r => holds K (snd r)) rest)))).
    { intros K HK. apply (qs_pull L (fun K0 => holds K0 m) (fun K0 => big (map (fun r => holds K0 (snd r)) rest))); auto.
      now apply big_indep. }
    rewrite (qs_ext_wf _ _ _ E1 J HJ).
    rewrite (qs_pull_l (flat_map fst rest) (fun K => big (map (fun r => holds K (snd r)) rest)) (closed_of (L, m))); auto.
    apply cn_iff; [reflexivity | apply IH; auto].
  Qed.
End Conn.

(* the two instances *)
Lemma pull1_and q phi (B : Prop) K : (exists xs, vals_ok xs (snd q)) ->
  (step q (fun J => phi J /\ B) K <-> step q phi K /\ B).
Proof.
  intros (xs0 & Hok0). unfold step. destruct (fst q).
  - split; [intros (xs & Hok & P & b); split; eauto | intros ((xs & Hok & P) & b); eauto].
  - split; [intros H; split; [intros xs Hok; apply (H xs Hok) | apply (H xs0 Hok0)] | intros [H b] xs Hok; split; auto].
Qed.
Lemma pull1_or q phi (B : Prop) K : (exists xs, vals_ok xs (snd q)) ->
  (step q (fun J => phi J \/ B) K <-> step q phi K \/ B).
Proof.
  intros (xs0 & Hok0). unfold step. destruct (fst q).
  - split; [intros (xs & Hok & [P|b]); eauto | intros [(xs & Hok & P)|b]; eauto].
  - split.
    + intros H. destruct (classic B) as [b|nb]; auto. left. intros xs Hok. destruct (H xs Hok); tauto.
    + intros [H|b] xs Hok; auto.
Qed.
Lemma and_iff2 (A A' B B' : Prop) : (A <-> A') -> (B <-> B') -> (A /\ B <-> A' /\ B').
Proof. tauto. Qed.
Lemma or_iff2 (A A' B B' : Prop) : (A <-> A') -> (B <-> B') -> (A \/ B <-> A' \/ B').
Proof. tauto. Qed.
Definition qs_merge_and := qs_merge and and_iff2 and_comm pull1_and True.
Definition qs_merge_or := qs_merge or or_iff2 or_comm pull1_or False.

(* ---------------------------------------------------------------- renaming of bound variables *)
Definition rn (r : var -> var) (K : interp) : interp :=
  {| isym := fun n ty => isym K (fst (r (n, ty))) (snd (r (n, ty)));
     ifun := ifun K; rdiv0 := rdiv0 K; idiv0 := idiv0 K |}.

Definition inj_on (r : var -> var) (S : var -> Prop) : Prop :=
  forall x y, S x -> S y -> r x = r y -> x = y.
Definition ty_pres (r : var -> var) : Prop := forall v, snd (r v) = snd v.

Lemma wf_rn r K : ty_pres r -> wf_interp K -> wf_interp (rn r K).
Proof.
  intros Ht [H1 H2]. split; [|exact H2]. intros n t Hf. cbn [rn isym].
  pose proof (Ht (n, t)) as E. cbn [snd] in E. destruct (r (n, t)) as [n' t']. cbn [fst snd] in *. subst t'. now apply H1.
Qed.

Lemma isym_bind1' K v a n t : isym (bind1 K v a) n t = if var_eqb (n, t) v then a else isym K n t.
Proof. reflexivity. Qed.
Lemma bind1_agS S K K' v a : agS S K K' -> agS S (bind1 K v a) (bind1 K' v a).
Proof.
  intros (A & B & C & D). repeat split; auto. intros n t H. rewrite !isym_bind1'. destruct (var_eqb (n, t) v); auto.
Qed.
Lemma bind_agS S : forall vs xs K K', agS S K K' -> agS S (bind K vs xs) (bind K' vs xs).
Proof.
  induction vs as [|v vs IH]; intros [|x xs] K K' H; cbn [bind]; auto. apply IH. now apply bind1_agS.
Qed.
Lemma var_eqb_iff a b : var_eqb a b = true <-> a = b.
Proof. apply var_eqb_eq. Qed.

Lemma rn_bind r S : inj_on r S -> forall vs xs K, (forall v, In v vs -> S v) ->
  agS S (rn r (bind K (map r vs) xs)) (bind (rn r K) vs xs).
Proof.
  intros Hinj. induction vs as [|v vs IH]; intros xs K Hvs; [apply agS_refl|].
  destruct xs as [|a xs]; [apply agS_refl|]. cbn [map bind].
  eapply agS_trans; [apply IH; intros u Hu; apply Hvs; now right|].
  apply bind_agS. repeat split; auto.
  intros n t Hs. cbn [rn isym]. rewrite !isym_bind1'. cbn [rn isym].
  destruct (var_eqb (n, t) v) eqn:E1.
  - apply var_eqb_iff in E1. subst v. replace (fst (r (n, t)), snd (r (n, t))) with (r (n, t)) by (destruct (r (n, t)); reflexivity).
    now rewrite (proj2 (var_eqb_iff _ _) eq_refl).
  - destruct (var_eqb (fst (r (n, t)), snd (r (n, t))) (r v)) eqn:E2; auto.
    apply var_eqb_iff in E2. replace (fst (r (n, t)), snd (r (n, t))) with (r (n, t)) in E2 by (destruct (r (n, t)); reflexivity).
    apply Hinj in E2; auto; [|apply Hvs; now left]. subst v. rewrite (proj2 (var_eqb_iff _ _) eq_refl) in E1. discriminate.
Qed.

Lemma vals_ok_map r : ty_pres r -> forall vs xs, vals_ok xs (map r vs) <-> vals_ok xs vs.
Proof.
  intros Hr. induction vs as [|v vs IH]; intros [|x xs]; cbn; try tauto. rewrite Hr, IH. tauto.
Qed.

Definition mapL (r : var -> var) (L : qpref) : qpref := map (fun q => (fst q, map r (snd q))) L.

(* phi "reads through r" *)
Lemma step_rn r (S : var -> Prop) q phi K : inj_on r S -> ty_pres r -> wf_interp K ->
  resp phi S -> (forall v, In v (snd q) -> S v) ->
  (step (fst q, map r (snd q)) (fun J => phi (rn r J)) K <-> step q phi (rn r K)).
Proof.
  intros Hi Ht HK Hp Hv. unfold step. cbn [fst snd].
  assert (E : forall xs, vals_ok xs (snd q) -> (phi (rn r (bind K (map r (snd q)) xs)) <-> phi (bind (rn r K) (snd q) xs))).
  { intros xs Hok. apply Hp; [apply wf_rn; auto; apply wf_bind; auto; now apply (vals_ok_map r Ht) | apply wf_bind; auto; now apply wf_rn |].
    now apply rn_bind. }
  destruct (fst q).
  - split; intros (xs & Hok & P); exists xs.
    + pose proof (proj1 (vals_ok_map r Ht _ _) Hok) as Hok'. split; auto. now apply E.
    + split; [exact (proj2 (vals_ok_map r Ht _ _) Hok)|]. now apply E.
  - split; intros P xs Hok.
    + apply E; auto. apply P. exact (proj2 (vals_ok_map r Ht _ _) Hok).
    + pose proof (proj1 (vals_ok_map r Ht _ _) Hok) as Hok'. apply E; auto.
Qed.

Lemma step_resp q phi S : resp phi S -> resp (step q phi) S.
Proof.
  intros H K K' HK HK' A. unfold step. destruct (fst q).
  - split; intros (xs & Hok & P); exists xs; split; auto.
    + apply (H (bind K (snd q) xs) (bind K' (snd q) xs)); auto using wf_bind. now apply bind_agS.
    + apply (H (bind K (snd q) xs) (bind K' (snd q) xs)); auto using wf_bind. now apply bind_agS.
  - split; intros P xs Hok.
    + apply (H (bind K (snd q) xs) (bind K' (snd q) xs)); auto using wf_bind. now apply bind_agS.
    + apply (H (bind K (snd q) xs) (bind K' (snd q) xs)); auto using wf_bind. now apply bind_agS.
Qed.

Lemma qs_rn r (S : var -> Prop) : inj_on r S -> ty_pres r -> forall L phi K, wf_interp K -> resp phi S ->
  (forall v, In v (bvL L) -> S v) ->
  (qs (mapL r L) (fun J => phi (rn r J)) K <-> qs L phi (rn r K)).
Proof.
  intros Hi Ht. induction L as [|q L IH]; intros phi K HK Hp Hv; [reflexivity|].
  cbn [mapL map qs]. fold (mapL r L).
  rewrite <- IH; auto; [|now apply step_resp|intros v Hin; apply Hv; unfold bvL; cbn; apply in_or_app; now right].
  apply qs_ext_wf; auto. intros J HJ. apply (step_rn r S); auto. intros v Hin. apply Hv. unfold bvL. cbn. apply in_or_app. now left.
Qed.

(* the substitution list of one renaming step *)
Lemma rn_var_notin sub x : ~ In x (map fst sub) -> rn_var sub x = x.
Proof.
  induction sub as [|[k f] sub IH]; intros H; cbn; auto.
  destruct (var_eqb k x) eqn:E; [apply var_eqb_iff in E; subst; exfalso; apply H; now left|].
  apply IH. intros Hin. apply H. now right.
Qed.
Lemma rn_var_in sub x : In x (map fst sub) -> In (x, rn_var sub x) sub.
Proof.
  induction sub as [|[k f] sub IH]; intros H; [contradiction|]. cbn.
  destruct (var_eqb k x) eqn:E; [apply var_eqb_iff in E; subst; now left|].
  right. apply IH. destruct H as [H|H]; auto. cbn in H. subst. rewrite (proj2 (var_eqb_iff _ _) eq_refl) in E. discriminate.
Qed.
Lemma NoDup_snd_inj (sub : list (var * var)) x y f : NoDup (map snd sub) -> In (x, f) sub -> In (y, f) sub -> x = y.
Proof.
  induction sub as [|[k g] sub IH]; intros Hn Hx Hy; [contradiction|].
  cbn in Hn. inversion Hn as [|? ? Hg Hn']; subst.
  destruct Hx as [Hx|Hx], Hy as [Hy|Hy].
  - congruence.
  - injection Hx as -> ->. exfalso. apply Hg. apply in_map_iff. exists (y, f). auto.
  - injection Hy as -> ->. exfalso. apply Hg. apply in_map_iff. exists (x, f). auto.
  - auto.
Qed.

Section OneRenaming.
  Variable sub : list (var * var).
  Hypothesis Hnd : NoDup (map snd sub).
  Hypothesis Hty : forall k f, In (k, f) sub -> snd f = snd k.
  Let r := rn_var sub.
  Let S := fun x : var => ~ In x (map snd sub).

  Lemma rn_var_ty : ty_pres r.
  Proof.
    intros v. unfold r. destruct (in_dec (fun a b => sumbool_of_bool_var a b) v (map fst sub)) as [H|H].
    - apply rn_var_in in H. apply Hty in H. exact H.
    - now rewrite rn_var_notin.
  Qed.
  Lemma rn_var_inj : inj_on r S.
  Proof.
    intros x y Sx Sy E. unfold r in *.
    destruct (in_dec (fun a b => sumbool_of_bool_var a b) x (map fst sub)) as [Hx|Hx];
      destruct (in_dec (fun a b => sumbool_of_bool_var a b) y (map fst sub)) as [Hy|Hy].
    - apply rn_var_in in Hx, Hy. rewrite E in Hx. eapply NoDup_snd_inj; eauto.
    - apply rn_var_in in Hx. rewrite (rn_var_notin sub y Hy) in E. exfalso. apply Sy. rewrite <- E.
      apply in_map_iff. exists (x, rn_var sub x). auto.
    - apply rn_var_in in Hy. rewrite (rn_var_notin sub x Hx) in E. exfalso. apply Sx. rewrite E.
      apply in_map_iff. exists (y, rn_var sub y). auto.
    - now rewrite !rn_var_notin in E.
  Qed.

  Lemma ov_sub_ext K : ext_eq (ov K (sub_terms sub)) (rn r K).
  Proof.
    repeat split; auto. intros n t. cbn [ov rn isym]. unfold r. clear.
    induction sub as [|[k f] s IH]; cbn; auto.
    destruct (var_eqb k (n, t)); auto.
  Qed.

  Lemma sub_terms_nnb : range_ok nnb (sub_terms sub).
  Proof.
    clear. induction sub as [|[k [fn fty]] s IH]; intros v t E; [discriminate|].
    unfold sub_terms in *. cbn [map vlookup fst snd] in E. destruct (var_eqb k v); [injection E as <-; reflexivity | eapply IH; eauto].
  Qed.

  Lemma holds_vsubst_rn m K : wf_interp K -> is_qf m = true -> normal m = true ->
    (holds K (vsubst (sub_terms sub) m) <-> holds (rn r K) m).
  Proof.
    intros HK Hq Hn. unfold holds. rewrite vsubst_eval_gen; auto; [|apply sub_terms_nnb].
    now rewrite (eval_ext _ _ m (ov_sub_ext K)).
  Qed.

  (* support of the renamed matrix *)
  Lemma resp_rn phi (U U' : var -> Prop) : resp phi U -> (forall x, U x -> U' (r x)) ->
    resp (fun K => phi (rn r K)) U'.
  Proof.
    intros Hp HU K K' HK HK' (A & B & C & D). apply Hp; [apply wf_rn; auto; apply rn_var_ty | apply wf_rn; auto; apply rn_var_ty |].
    repeat split; auto. intros n t Hx. cbn [rn isym]. pose proof (HU _ Hx) as Hr. destruct (r (n, t)) as [n' t']. apply C. exact Hr.
  Qed.

  (* renaming the matrix and the whole prefix by r does not change the meaning *)
  Lemma alpha_step L m K (T : var -> Prop) : wf_interp K -> is_qf m = true -> normal m = true ->
    (forall v, In v (bvL L) -> S v) ->
    resp (fun J => holds J m) (fun x => T x \/ In x (bvL L)) -> (forall v, T v -> S v) ->
    (forall v, T v -> r v = v) ->
    (qs (mapL r L) (fun J => holds J (vsubst (sub_terms sub) m)) K <-> qs L (fun J => holds J m) K).
  Proof.
    intros HK Hq Hn HL Hm HT Hid.
    transitivity (qs (mapL r L) (fun J => holds (rn r J) m) K).
    { apply qs_ext_wf; auto. intros J HJ. now apply holds_vsubst_rn. }
    rewrite (qs_rn r S rn_var_inj rn_var_ty L (fun J => holds J m) K); auto.
    - apply (qs_resp L _ T Hm); auto; [apply wf_rn; auto; apply rn_var_ty|].
      repeat split; auto. intros n t Hin. cbn [rn isym]. now rewrite (Hid _ Hin).
    - eapply resp_weaken; [|exact Hm]. intros v [Hv|Hv]; auto.
  Qed.
End OneRenaming.
