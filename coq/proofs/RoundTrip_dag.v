(* C09: the round trip through the DAG printer (SmtDagPrinter) BY INDUCTION, for the terms of the
   inductive fragment [rt] of proofs/RoundTrip_ind.v.

   print_dag t = (let ((.def_0 e0)) (let ((.def_1 e1)) ... key))  where every e_k is the text of ONE
   node whose arguments are let-names or inline texts (constants, symbols).

   Reader side: [let_reads] - a single-binding let over a reserved name n is read as its body is
   read with n bound to the value of the bound text; before and after, n has no binding (that is the
   stack clause of RoundTrip_ind.invR: a reserved name is never cached as a literal).
   Printer side: [visit_ok] - the walk of the DAG printer keeps the invariant [WInv]: there is a
   list LT of (let-name, term) such that every bound text is read as its term under the lets before
   it, and every memoised text is read as its term under LT and under every later extension of LT.
   The two are composed by [wrap_reads] (the chain of lets, oldest outermost) into
   [dag_reads] / [roundtrip_dag_partial].  The machine lemma for let (Reader_proofs.machine_let)
   carries the result from the recursive reading [elab] to the stack machine get_expr. *)
From Coq Require Import List ZArith Bool String Ascii Lia.
From PySMT.core Require Import Syntax SyntaxLemmas SmtStd.
From PySMT.models Require Import TypeChecker Oracles Ctors SmtLex SmtParser SmtPrinter RoundTrip.
From PySMT.proofs Require Import SmtLex_proofs Reader_proofs RoundTrip_ind.
From PySMT.proofs Require SmtPrinter_proofs.
Import ListNotations.
Open Scope string_scope.
Open Scope list_scope.

(* ------------------------------------------------------------------------- a let over a reserved name *)
Definition let1 (n : string) (e body : sexp) : sexp :=
  SList [Atom "let"; SList [SList [Atom n; e]]; body].

Lemma reserved_not_paren n : reserved n -> is_paren n = false.
Proof. intros H. apply reserved_first in H. destruct H as [r ->]. reflexivity. Qed.

Lemma let1_simple n e body : is_paren n = false -> simpleb e = true -> simpleb body = true ->
  simpleb (let1 n e body) = true.
Proof.
  intros Hp He Hb. unfold let1. cbn [simpleb]. change (let_head "let") with true. change (is_paren "let") with false.
  cbn [negb andb forallb]. now rewrite Hp, He, Hb.
Qed.

Lemma invR_defs D s : invR D s -> defs s = [].
Proof. intros [(H & _) _]. exact H. Qed.

(* entering: the name gets exactly one binding *)
Lemma invR_bind D n v s s' : invR D s -> alookup n D = None -> reserved n ->
  defs s' = defs s -> logic_ia s' = logic_ia s ->
  (forall k, stack_of k s' = if String.eqb k n then [v] else stack_of k s) ->
  invR ((n, v) :: D) s'.
Proof.
  intros [(Hd & Hl & H3 & H4) Hr] HD Hn Ed El Hst.
  assert (Hd' : defs s' = []) by congruence.
  assert (Hget : forall k, cache_get k s' = if String.eqb k n then Some v else cache_get k s).
  { intros k. rewrite (cache_get_stack s' k Hd'), (cache_get_stack s k Hd), Hst. destruct (k =? n); reflexivity. }
  split; [split; [exact Hd' | split; [congruence | split]] |].
  - intros k it Hk. rewrite Hget. cbn [alookup] in Hk. destruct (k =? n); [exact Hk | now apply H3].
  - intros k w Hk. rewrite Hget in Hk. cbn [alookup]. destruct (k =? n); [left; exact Hk | now apply H4].
  - intros k Hk. rewrite Hst. cbn [alookup]. destruct (k =? n); [reflexivity | now apply Hr].
Qed.
(* leaving: the binding is gone *)
Lemma invR_unbind D n v s s' : invR ((n, v) :: D) s -> alookup n D = None ->
  defs s' = defs s -> logic_ia s' = logic_ia s ->
  (forall k, stack_of k s' = if String.eqb k n then [] else stack_of k s) ->
  invR D s'.
Proof.
  intros [(Hd & Hl & H3 & H4) Hr] HD Ed El Hst.
  assert (Hd' : defs s' = []) by congruence.
  assert (Hget : forall k, cache_get k s' = if String.eqb k n then None else cache_get k s).
  { intros k. rewrite (cache_get_stack s' k Hd'), (cache_get_stack s k Hd), Hst. destruct (k =? n); reflexivity. }
  split; [split; [exact Hd' | split; [congruence | split]] |].
  - intros k it Hk. rewrite Hget. destruct (k =? n) eqn:E.
    + apply String.eqb_eq in E. subst k. congruence.
    + apply H3. cbn [alookup]. now rewrite E.
  - intros k w Hk. rewrite Hget in Hk. destruct (k =? n) eqn:E; [discriminate|].
    specialize (H4 k w Hk). cbn [alookup] in H4. now rewrite E in H4.
  - intros k Hk. rewrite Hst. destruct (k =? n) eqn:E.
    + apply String.eqb_eq in E. subst k. now rewrite HD.
    + specialize (Hr k Hk). cbn [alookup] in Hr. now rewrite E in Hr.
Qed.

Lemma let1_toks n e body rest :
  flatten (let1 n e body) ++ rest =
  "(" :: "let" :: "(" :: "(" :: n :: flatten e ++ ")" :: ")" :: flatten body ++ ")" :: rest.
Proof. unfold let1. cbn [flatten flat_map app]. repeat (rewrite <- ?app_assoc; cbn [app]). reflexivity. Qed.

Theorem let_reads D n e tau body t :
  reserved n -> alookup n D = None -> simpleb e = true -> simpleb body = true ->
  reads_as D e tau -> reads_as ((n, ITerm tau) :: D) body t ->
  reads_as D (let1 n e body) t.
Proof.
  intros Hr HD Hse Hsb He Hb s rest Hi Ht.
  pose proof (reserved_not_paren n Hr) as Hp.
  pose proof (let1_simple n e body Hp Hse Hsb) as Hsim.
  assert (Hweak : exists s', elab (let1 n e body) s = ROk (ITerm t) s' /\ invR D s');
    [|destruct Hweak as (s' & Hel & Hi'); exists s'; split; [exact Hel | split; [exact Hi' | exact (elab_toks _ _ _ _ _ Hsim Hel Ht)]]].
  rewrite let1_toks in Ht.
  pose proof (toks_pop1 _ _ _ (toks_pop1 _ _ _ (toks_pop1 _ _ _ (toks_pop1 _ _ _ (toks_pop1 s _ _ Ht))))) as T5.
  unfold let1. rewrite (elab_let "let" _ [] body s eq_refl).
  cbn [elab_bindings elab_bindings_with].
  (* the bound text *)
  destruct (He (pop1 (pop1 (pop1 (pop1 (pop1 s))))) _ Hi T5) as (sb2 & Ee & I2 & T2). rewrite Ee. cbn [bind]. cbv zeta.
  assert (Hearly : let_early n [] sb2 = true).
  { unfold let_early. cbn [map str_in existsb negb andb].
    rewrite (cache_get_stack sb2 n (invR_defs D sb2 I2)). destruct I2 as [_ I2r]. rewrite (I2r n Hr), HD. reflexivity. }
  rewrite Hearly. cbn [aset].
  (* the end of the binding list: let_finish *)
  set (sb3 := cache_bind n (ITerm tau) sb2).
  assert (S3 : forall k, stack_of k (pop1 (pop1 sb3)) = if String.eqb k n then [ITerm tau] else stack_of k sb2).
  { intros k. change (stack_of k (pop1 (pop1 sb3))) with (stack_of k sb3). unfold sb3. rewrite stack_of_bind.
    destruct (k =? n); [|reflexivity]. destruct I2 as [_ I2r]. now rewrite (I2r n Hr), HD. }
  cbn [let_finish str_in existsb]. rewrite String.eqb_refl. cbn [orb].
  pose proof (S3 n) as S3n. rewrite String.eqb_refl in S3n.
  destruct (cache_unbind_stack n _ _ _ S3n) as (s6 & Eu & D6 & L6 & T6 & S6).
  rewrite Eu. cbn [bind map fst].
  set (sb := cache_bind n (ITerm tau) s6).
  assert (Ib : invR ((n, ITerm tau) :: D) sb).
  { apply (invR_bind D n (ITerm tau) sb2 sb I2 HD Hr).
    - unfold sb. cbn [defs cache_bind set_keys]. exact D6.
    - unfold sb. cbn [logic_ia cache_bind set_keys]. exact L6.
    - intros k. unfold sb. rewrite stack_of_bind, !S6. destruct (k =? n) eqn:E; [rewrite String.eqb_refl; reflexivity|].
      rewrite S3, E. reflexivity. }
  assert (Tb : toks sb = flatten body ++ ")" :: rest).
  { unfold sb. cbn [toks cache_bind set_keys]. rewrite T6.
    assert (T3 : toks sb3 = ")" :: ")" :: flatten body ++ ")" :: rest) by exact T2.
    exact (toks_pop1 _ _ _ (toks_pop1 _ _ _ T3)). }
  (* the body and the exit *)
  destruct (Hb sb _ Ib Tb) as (s7 & Eb & I7 & T7). rewrite Eb. cbn [bind call unbind_all].
  assert (S7 : stack_of n (pop1 s7) = [ITerm tau]).
  { destruct I7 as [_ I7r]. change (stack_of n (pop1 s7)) with (stack_of n s7). rewrite (I7r n Hr). cbn [alookup].
    now rewrite String.eqb_refl. }
  destruct (cache_unbind_stack n _ _ _ S7) as (s8 & Eu8 & D8 & L8 & _ & S8).
  rewrite Eu8. cbn [bind]. exists s8. split; [reflexivity|].
  apply (invR_unbind D n (ITerm tau) s7 s8 I7 HD D8 L8). exact S8.
Qed.

Lemma atom_reads D n t : alookup n D = Some (ITerm t) -> reads_as D (Atom n) t.
Proof.
  intros HD s rest Hi Ht. cbn [flatten app] in Ht. exists (pop1 s). cbn [elab].
  split; [exact (atom_declaredR D n _ (pop1 s) Hi HD) | split; [exact Hi | exact (toks_pop1 _ _ _ Ht)]].
Qed.

(* ------------------------------------------------------------------------- the walk of the DAG printer *)
Lemma memo_has_cons t' t s m : memo_has t' m = true -> memo_has t' ((t, s) :: m) = true.
Proof. unfold memo_has. cbn [memo_get]. destruct (term_eqb t' t); auto. Qed.
Lemma memo_has_get t m : memo_has t m = true -> exists s, memo_get t m = Some s.
Proof. unfold memo_has. destruct (memo_get t m); [eauto | discriminate]. Qed.
Lemma memo_has_same t s m : memo_has t ((t, s) :: m) = true.
Proof. unfold memo_has. cbn [memo_get]. now rewrite (proj2 (term_eqb_eq t t) eq_refl). Qed.

Section Walk.
  Variable names : list string.
  Variable D0 : list (string * item).
  Hypothesis HD0 : forall k, ~ In (def_name k) names -> alookup (def_name k) D0 = None.

  Definition Dmap (LT : list (string * term)) : list (string * item) :=
    map (fun nt => (fst nt, ITerm (snd nt))) LT.
  Definition fresh_names (LT : list (string * term)) : Prop :=
    NoDup (map fst LT) /\ forall n, In n (map fst LT) -> reserved n /\ alookup n D0 = None.
  Definition ext (LT LT' : list (string * term)) : Prop :=
    (exists more, LT' = more ++ LT) /\ fresh_names LT'.

  Lemma alookup_Dmap_out LT k : ~ In k (map fst LT) -> alookup k (Dmap LT ++ D0) = alookup k D0.
  Proof.
    induction LT as [|[n t] r IH]; intros H; [reflexivity|]. cbn [Dmap map app alookup fst snd].
    destruct (k =? n) eqn:E.
    - apply String.eqb_eq in E. subst k. exfalso. apply H. now left.
    - apply IH. intros Hin. apply H. now right.
  Qed.
  Lemma alookup_Dmap_in LT n t : NoDup (map fst LT) -> In (n, t) LT ->
    alookup n (Dmap LT ++ D0) = Some (ITerm t).
  Proof.
    induction LT as [|[m u] r IH]; intros Hnd Hin; [contradiction|]. cbn [Dmap map app alookup fst snd].
    cbn [map fst] in Hnd. inversion Hnd as [|? ? Hm Hr]; subst.
    destruct Hin as [E|Hin].
    - inversion E; subst. now rewrite String.eqb_refl.
    - destruct (n =? m) eqn:E.
      + apply String.eqb_eq in E. subst m. exfalso. apply Hm. apply in_map_iff. exists (n, t). now split.
      + now apply IH.
  Qed.
  Lemma alookup_ext_some LT k v : fresh_names LT -> alookup k D0 = Some v -> alookup k (Dmap LT ++ D0) = Some v.
  Proof.
    intros [_ Hf] Hk. rewrite alookup_Dmap_out; [exact Hk|]. intros Hin. destruct (Hf k Hin) as [_ Hn]. congruence.
  Qed.
  Lemma alookup_ext_lit LT k : fresh_names LT -> ~ reserved k -> alookup k D0 = None -> alookup k (Dmap LT ++ D0) = None.
  Proof.
    intros [_ Hf] Hnr Hk. rewrite alookup_Dmap_out; [exact Hk|]. intros Hin. destruct (Hf k Hin) as [Hr _]. exact (Hnr Hr).
  Qed.

  (* the local condition of a node does not see the let-names *)
  Lemma node_ok_ext LT o args : fresh_names LT -> node_ok D0 o args -> node_ok (Dmap LT ++ D0) o args.
  Proof.
    intros HF. unfold node_ok. destruct (is_leaf_op o) eqn:Hleaf.
    - intros [-> Hl]. split; [reflexivity|]. destruct o; try discriminate Hleaf; cbn [leaf_ok] in *; try contradiction.
      + destruct Hl as (Hq & Hp & HD). split; [exact Hq|]. split; [exact Hp|]. now apply alookup_ext_some.
      + unfold real_leaf_ok in *. cbv zeta in *. destruct Hl as (Hpa & HDa & Hra & Hdiv & Hneg & Hpos).
        split; [exact Hpa|]. split; [apply alookup_ext_lit; [exact HF | apply dec0_not_reserved | exact HDa]|].
        split; [exact Hra|]. split; [|split; assumption].
        intros Hd. destruct (Hdiv Hd) as (Hpb & HDb & Hrb & Hop). split; [exact Hpb|].
        split; [apply alookup_ext_lit; [exact HF | apply dec0_not_reserved | exact HDb]|]. split; assumption.
      + now apply alookup_ext_some.
      + apply alookup_ext_lit; [exact HF | apply dec_not_reserved | exact Hl].
      + unfold bv_leaf_ok in *. destruct Hl as (HD & Hr). split; [|exact Hr].
        apply alookup_ext_lit; [exact HF | apply bv_not_reserved | exact HD].
    - intros [(Hp & Hl & h & Hh & Hparen & Hcase) | Hidx]; [left | right; exact Hidx].
      split; [exact Hp|]. split; [exact Hl|]. exists h. split; [exact Hh|]. split; [exact Hparen|].
      destruct Hcase as [Hop | (n & fty & Ho & Htab & HD & Hf & Hc)]; [left; exact Hop | right].
      exists n, fty. split; [exact Ho|]. split; [exact Htab|]. split; [now apply alookup_ext_some|]. split; assumption.
  Qed.

  (* ---- the invariant of the walk ---- *)
  Inductive lets_ok : list (string * sexp) -> list (string * term) -> Prop :=
  | lo_nil : lets_ok [] []
  | lo_cons n e tau lets LT :
      lets_ok lets LT -> reads_as (Dmap LT ++ D0) e tau -> simpleb e = true ->
      lets_ok ((n, e) :: lets) ((n, tau) :: LT).

  Definition memo_ok (LT : list (string * term)) (m : list (term * sexp)) : Prop :=
    forall t' x, memo_get t' m = Some x ->
      simpleb x = true /\ forall LT', ext LT LT' -> reads_as (Dmap LT' ++ D0) x t'.

  Definition WInv (st : dst) : Prop :=
    exists LT, lets_ok (d_lets st) LT /\ fresh_names LT /\ memo_ok LT (d_memo st) /\
               forall n, In n (map fst LT) -> exists k, n = def_name k /\ (k < d_seed st)%nat.

  Definition texts_of (st : dst) (args : list term) : list sexp :=
    map (fun c => match memo_get c (d_memo st) with Some r => r | None => Atom "?" end) args.

  Lemma ext_refl LT : fresh_names LT -> ext LT LT.
  Proof. intros H. split; [exists []; reflexivity | exact H]. Qed.

  (* the text of a node whose arguments are memoised *)
  Lemma node_text_reads st LT o args :
    memo_ok LT (d_memo st) -> node_ok D0 o args ->
    Forall (fun a => memo_has a (d_memo st) = true) args ->
    simpleb (term_sexp (T o args) (texts_of st args)) = true /\
    forall LT', ext LT LT' -> reads_as (Dmap LT' ++ D0) (term_sexp (T o args) (texts_of st args)) (T o args).
  Proof.
    intros HM Hn Hargs.
    assert (Hs : Forall (fun x => simpleb x = true) (texts_of st args)).
    { unfold texts_of. clear Hn. induction Hargs as [|a r Ha _ IH]; cbn [map]; constructor; [|exact IH].
      destruct (memo_has_get _ _ Ha) as [x Hx]. rewrite Hx. exact (proj1 (HM a x Hx)). }
    split.
    - apply (node_simple D0 o args _ Hn Hs). unfold texts_of. now rewrite map_length.
    - intros LT' Hext. apply node_reads; [apply node_ok_ext; [exact (proj2 Hext) | exact Hn] | | exact Hs].
      unfold texts_of. clear Hn Hs. induction Hargs as [|a r Ha _ IH]; cbn [map]; constructor; [|exact IH].
      destruct (memo_has_get _ _ Ha) as [x Hx]. rewrite Hx. exact (proj2 (HM a x Hx) LT' Hext).
  Qed.

  Definition mono (st st' : dst) : Prop :=
    forall t', memo_has t' (d_memo st) = true -> memo_has t' (d_memo st') = true.
  Definition post (st st' : dst) (t : term) : Prop :=
    WInv st' /\ memo_has t (d_memo st') = true /\ mono st st'.

  Lemma winv_inline st o args :
    WInv st -> node_ok D0 o args -> Forall (fun a => memo_has a (d_memo st) = true) args ->
    WInv {| d_memo := (T o args, term_sexp (T o args) (texts_of st args)) :: d_memo st;
            d_seed := d_seed st; d_lets := d_lets st |}.
  Proof.
    intros (LT & HL & HF & HM & HS) Hn Hargs. exists LT. cbn [d_memo d_seed d_lets].
    split; [exact HL|]. split; [exact HF|]. split; [|exact HS].
    intros t' x Hget. cbn [memo_get] in Hget. destruct (term_eqb t' (T o args)) eqn:E; [|now apply HM].
    injection Hget as <-. apply term_eqb_eq in E. subst t'. exact (node_text_reads st LT o args HM Hn Hargs).
  Qed.

  Lemma winv_add_let st o args :
    WInv st -> node_ok D0 o args -> Forall (fun a => memo_has a (d_memo st) = true) args ->
    WInv (add_let names st (T o args) (term_sexp (T o args) (texts_of st args))).
  Proof.
    intros (LT & HL & HF & HM & HS) Hn Hargs. unfold add_let.
    pose proof (SmtPrinter_proofs.new_symbol_fresh names (d_seed st)) as Hnew.
    destruct (new_symbol names (d_seed st)) as [sym seed']. destruct Hnew as (k & -> & -> & Hk & Hfresh).
    destruct (node_text_reads st LT o args HM Hn Hargs) as [Hsim Hreads].
    assert (Hnotin : ~ In (def_name k) (map fst LT)).
    { intros Hin. destruct (HS _ Hin) as (j & Ej & Hj). apply SmtPrinter_proofs.def_name_inj in Ej. lia. }
    assert (HF' : fresh_names ((def_name k, T o args) :: LT)).
    { destruct HF as [Hnd Hf]. split.
      - cbn [map fst]. constructor; assumption.
      - intros n [<-|Hin]; [|now apply Hf]. split; [exists k; reflexivity | exact (HD0 k Hfresh)]. }
    exists ((def_name k, T o args) :: LT). cbn [d_memo d_seed d_lets]. split; [|split; [exact HF'|split]].
    - constructor; [exact HL | exact (Hreads LT (ext_refl LT HF)) | exact Hsim].
    - intros t' x Hget. cbn [memo_get] in Hget. destruct (term_eqb t' (T o args)) eqn:E.
      + injection Hget as <-. apply term_eqb_eq in E. subst t'. split.
        * cbn [simpleb]. rewrite (reserved_not_paren (def_name k)); [reflexivity | exists k; reflexivity].
        * intros LT' [[more ->] HF2]. apply atom_reads. apply alookup_Dmap_in; [exact (proj1 HF2)|].
          apply in_or_app. right. now left.
      + destruct (HM t' x Hget) as [Hsx Hcl]. split; [exact Hsx|].
        intros LT' [[more ->] HF2]. apply Hcl. split; [|exact HF2].
        exists (more ++ [(def_name k, T o args)]). now rewrite <- app_assoc.
    - intros n [<-|Hin]; [exists k; split; [reflexivity | lia]|].
      destruct (HS n Hin) as (j & Ej & Hj). exists j. split; [exact Ej | lia].
  Qed.

  Lemma dag_compute_unfold st o args : plain_op o = true ->
    dag_compute names st (T o args) =
    if memo_has (T o args) (d_memo st) then st else
    if dag_inline o
    then {| d_memo := (T o args, term_sexp (T o args) (texts_of st args)) :: d_memo st; d_seed := d_seed st; d_lets := d_lets st |}
    else add_let names st (T o args) (term_sexp (T o args) (texts_of st args)).
  Proof. intros Hp. destruct o; try discriminate Hp; reflexivity. Qed.

  Lemma compute_ok st o args :
    plain_op o = true -> WInv st -> node_ok D0 o args ->
    Forall (fun a => memo_has a (d_memo st) = true) args ->
    post st (dag_compute names st (T o args)) (T o args).
  Proof.
    intros Hp HI Hn Hargs. rewrite (dag_compute_unfold st o args Hp).
    destruct (memo_has (T o args) (d_memo st)) eqn:Em.
    { split; [assumption|]. split; [assumption|]. intros t' H; exact H. }
    destruct (dag_inline o).
    - split; [now apply winv_inline|]. split; [apply memo_has_same|]. intros t'. cbn [d_memo]. apply memo_has_cons.
    - split; [now apply winv_add_let|]. unfold add_let. destruct (new_symbol names (d_seed st)) as [sym seed'].
      cbn [d_memo]. split; [apply memo_has_same|]. intros t'. apply memo_has_cons.
  Qed.

  Fixpoint visit_args (m0 : list (term * sexp)) (st : dst) (l : list term) : dst :=
    match l with
    | [] => st
    | c :: r => let s := visit_args m0 st r in if memo_has c m0 then s else dag_visit names c s
    end.
  Lemma dag_visit_unfold o args st : plain_op o = true ->
    dag_visit names (T o args) st =
    if memo_has (T o args) (d_memo st) then st
    else dag_compute names (visit_args (d_memo st) st args) (T o args).
  Proof.
    intros Hp.
    assert (G : forall m0 st0 l,
               (fix go (l : list term) : dst :=
                  match l with
                  | [] => st0
                  | c :: r => let s := go r in if memo_has c m0 then s else dag_visit names c s
                  end) l = visit_args m0 st0 l).
    { intros m0 st0 l. induction l as [|c r IH]; [reflexivity|]. cbn [visit_args]. now rewrite <- IH. }
    destruct o; try discriminate Hp; cbn [dag_visit]; rewrite G; reflexivity.
  Qed.

  Lemma visit_ok : forall t, rt D0 t -> forall st, WInv st -> post st (dag_visit names t st) t.
  Proof.
    induction t as [o args IH] using term_ind'. intros Hrt st HI.
    apply rt_unfold in Hrt. destruct Hrt as [Hn Hargs].
    pose proof (node_ok_plain D0 o args Hn) as Hp.
    rewrite (dag_visit_unfold o args st Hp).
    destruct (memo_has (T o args) (d_memo st)) eqn:Em.
    { split; [assumption|]. split; [assumption|]. intros t' H; exact H. }
    assert (W : WInv (visit_args (d_memo st) st args) /\ mono st (visit_args (d_memo st) st args) /\
                Forall (fun a => memo_has a (d_memo (visit_args (d_memo st) st args)) = true) args).
    { clear Em Hn. set (m0 := d_memo st).
      assert (M00 : forall c, memo_has c m0 = true -> memo_has c (d_memo st) = true) by auto.
      clearbody m0. induction IH as [|c r Hc _ IHr]; cbn [visit_args].
      - split; [assumption|]. split; [intros t' H; exact H | constructor].
      - inversion Hargs as [|? ? Hrc Hrr]; subst. destruct (IHr Hrr) as (I1 & M1 & F1).
        destruct (memo_has c m0) eqn:Ec.
        + split; [assumption|]. split; [assumption|]. constructor; [apply M1; now apply M00 | assumption].
        + destruct (Hc Hrc _ I1) as (I2 & Mc & M2). split; [assumption|]. split.
          * intros t' H. apply M2, M1, H.
          * constructor; [assumption|]. rewrite Forall_forall in *. intros a Ha. apply M2, F1, Ha. }
    destruct W as (I1 & M1 & F1).
    destruct (compute_ok _ o args Hp I1 Hn F1) as (I2 & Mt & M2).
    split; [assumption|]. split; [assumption|]. intros t' H. apply M2, M1, H.
  Qed.

  (* ---- the chain of lets ---- *)
  Lemma wrap_lets_cons n e lets key : wrap_lets ((n, e) :: lets) key = wrap_lets lets (let1 n e key).
  Proof. reflexivity. Qed.

  Lemma wrap_reads : forall lets LT, lets_ok lets LT -> fresh_names LT ->
    forall key t, reads_as (Dmap LT ++ D0) key t -> simpleb key = true ->
      reads_as D0 (wrap_lets lets key) t /\ simpleb (wrap_lets lets key) = true.
  Proof.
    induction 1 as [|n e tau lets LT HL IH He Hse]; intros HF key t Hk Hsk.
    - split; assumption.
    - rewrite wrap_lets_cons.
      destruct HF as [Hnd Hf]. cbn [map fst] in Hnd. inversion Hnd as [|? ? Hnotin Hnd']; subst.
      destruct (Hf n (or_introl eq_refl)) as [Hr Hn0].
      assert (HF' : fresh_names LT) by (split; [exact Hnd' | intros m Hm; apply Hf; now right]).
      apply (IH HF').
      + apply (let_reads _ n e tau key t Hr); [| exact Hse | exact Hsk | exact He | exact Hk].
        rewrite alookup_Dmap_out; [exact Hn0 | exact Hnotin].
      + apply let1_simple; [now apply reserved_not_paren | exact Hse | exact Hsk].
  Qed.

  Definition print_dag_with (t : term) : sexp :=
    let st := dag_visit names t dst0 in
    wrap_lets (d_lets st) (match memo_get t (d_memo st) with Some r => r | None => Atom "?" end).

  Theorem dag_reads t : rt D0 t ->
    reads_as D0 (print_dag_with t) t /\ simpleb (print_dag_with t) = true.
  Proof.
    intros Hrt.
    assert (I0 : WInv dst0).
    { exists []. cbn [dst0 d_lets d_memo d_seed]. split; [constructor|]. split; [split; [constructor | intros n []]|].
      split; [intros t' x H; discriminate H | intros n []]. }
    destruct (visit_ok t Hrt dst0 I0) as ((LT & HL & HF & HM & _) & Hm & _).
    unfold print_dag_with. cbv zeta. destruct (memo_has_get _ _ Hm) as [x Hx]. rewrite Hx.
    destruct (HM t x Hx) as [Hsx Hcl].
    exact (wrap_reads _ LT HL HF x t (Hcl LT (ext_refl LT HF)) Hsx).
  Qed.
End Walk.

(* ------------------------------------------------------------------------- the round trip *)
(* no declared sort (or the constants true / false) is named like a let of the printer, unless the
   printer avoids that name because a free symbol has it *)
Definition dag_names_ok (t : term) : Prop :=
  forall k, ~ In (def_name k) (names_of t) -> alookup (def_name k) (D_of t) = None.

(* FULL STATEMENT (roundtrip_dag): for every well-typed t with printable names,
     read_back print_dag t = Ok (ITerm t).
   Proved: for every t of the inductive fragment [rt] (as for the tree printer: see
   RoundTrip_ind.roundtrip_tree_partial and the node_ok lemmas) whose printed tokens need no quoting
   and whose declared sorts are not named .def_k. *)
Theorem roundtrip_dag_partial t :
  rt (D_of t) t -> all_plain (print_dag t) = true -> dag_names_ok t ->
  read_back print_dag t = Ok (ITerm t).
Proof.
  intros Hrt Hpl Hnames. unfold read_back, text_of.
  assert (Hlex : lex (render_sp (flatten (print_dag t))) = (flatten (print_dag t), LexEof)).
  { apply lex_agrees_partial. unfold all_plain in Hpl. rewrite forallb_forall in Hpl.
    apply Forall_forall. intros tk Hin. apply tok_plainb_ok. now apply Hpl. }
  rewrite Hlex.
  destruct (dag_reads (names_of t) (D_of t) Hnames t Hrt) as [Hreads Hsim].
  change (print_dag_with (names_of t) t) with (print_dag t) in Hreads, Hsim.
  set (x := print_dag t) in *. set (s0 := state_of t (flatten x, LexEof)).
  assert (Ht0 : toks s0 = flatten x ++ []) by (unfold s0; cbn [toks state_of fst]; now rewrite app_nil_r).
  destruct (Hreads s0 [] (invR_state_of t _) Ht0) as (s' & He & _).
  unfold get_expression.
  assert (Hfuel : exists k, expr_fuel s0 = (cost x + k)%nat).
  { exists (expr_fuel s0 - cost x)%nat. pose proof (cost_le x).
    assert (List.length (flatten x) <= expr_fuel s0)%nat; [|lia].
    unfold expr_fuel, fuel_of, s0. cbn [toks state_of fst]. lia. }
  destruct Hfuel as [k ->].
  destruct (machine_simple_top x Hsim k s0 (ITerm t) s' [] He Ht0) as [G _].
  rewrite G. reflexivity.
Qed.

(* ------------------------------------------------------------------------- the hypotheses are satisfiable *)
Lemma alookup_app_none {A} k (l1 l2 : list (string * A)) :
  alookup k l1 = None -> alookup k (l1 ++ l2) = alookup k l2.
Proof. induction l1 as [|[k' v] r IH]; cbn; [reflexivity|]. destruct (k =? k'); [discriminate | exact IH]. Qed.

(* terms without user-declared sorts *)
Lemma dag_names_ok_nosorts t : flat_map sort_binding (get_types t) = [] -> dag_names_ok t.
Proof.
  intros Hs k Hnot. unfold D_of. rewrite alookup_map_hd. cbn [keys state_of]. rewrite Hs. cbn [app].
  rewrite alookup_app_none.
  - cbn [alookup]. rewrite SmtPrinter_proofs.def_name_unfold. reflexivity.
  - unfold names_of in Hnot. induction (fv t) as [|[n ty] r IH]; [reflexivity|]. cbn [map alookup fst].
    destruct (def_name k =? n) eqn:E.
    + apply String.eqb_eq in E. subst n. exfalso. apply Hnot. cbn [map fst]. left. apply SmtPrinter_proofs.quote_def.
    + apply IH. intros Hin. apply Hnot. cbn [map]. now right.
Qed.

(* a term with a shared inner node: s = x + y occurs three times and is written once *)
Definition ex_s : term := T OPlus [ex_x; ex_y].
Definition ex_shared : term :=
  T OAnd [T OLe [ex_s; TIntC 7]; T ONot [T OLe [T OTimes [TIntC 2; ex_s]; ex_s]]].

Example ex_shared_rt : rt (D_of ex_shared) ex_shared.
Proof.
  set (D := D_of ex_shared).
  assert (Hs : forall n ty, In (n, ty) [("x", TInt); ("y", TInt)] -> node_ok D (OSymbol n ty) []).
  { intros n ty Hin. unfold node_ok. cbn [is_leaf_op]. split; [reflexivity|].
    cbn in Hin. destruct Hin as [E|[E|[]]]; inversion E; subst; vm_compute; auto. }
  assert (Hc : forall z, In z [2; 7]%Z -> node_ok D (OIntC z) []).
  { intros z Hin. unfold node_ok. cbn [is_leaf_op]. split; [reflexivity|].
    cbn in Hin. destruct Hin as [E|[E|[]]]; subst; vm_compute; reflexivity. }
  unfold ex_shared, ex_s, ex_x, ex_y, TSym, TIntC.
  tree Hs Hc.
Qed.

Example ex_shared_text :
  print_dag ex_shared =
  let1 ".def_0" (SList [Atom "+"; Atom "x"; Atom "y"])
  (let1 ".def_1" (SList [Atom "*"; Atom "2"; Atom ".def_0"])
  (let1 ".def_2" (SList [Atom "<="; Atom ".def_1"; Atom ".def_0"])
  (let1 ".def_3" (SList [Atom "not"; Atom ".def_2"])
  (let1 ".def_4" (SList [Atom "<="; Atom ".def_0"; Atom "7"])
  (let1 ".def_5" (SList [Atom "and"; Atom ".def_4"; Atom ".def_3"])
  (Atom ".def_5")))))).
Proof. vm_compute. reflexivity. Qed.

Example ex_shared_roundtrip : read_back print_dag ex_shared = Ok (ITerm ex_shared).
Proof.
  apply roundtrip_dag_partial; [exact ex_shared_rt | vm_compute; reflexivity |].
  apply dag_names_ok_nosorts. vm_compute. reflexivity.
Qed.

Example ex_term_dag_roundtrip : read_back print_dag ex_term = Ok (ITerm ex_term).
Proof.
  apply roundtrip_dag_partial; [exact (proj1 ex_term_rt) | vm_compute; reflexivity |].
  apply dag_names_ok_nosorts. vm_compute. reflexivity.
Qed.
