(* Shared by the Dispatch_*_proofs files: association lookup of handler names, and the name
   pysmt/walkers/generic.py gives the default handler of a node type ("walk_" + lower-cased operator name). *)
From Coq Require Import List Bool String Ascii Arith.
From PySMT.gen Require Import Operators.
Import ListNotations.
Open Scope string_scope.

Definition hlookup {A} (tbl : list (string * A)) (s : string) : option A :=
  match find (fun p => String.eqb (fst p) s) tbl with Some p => Some (snd p) | None => None end.

Definition lower_ascii (c : ascii) : ascii :=
  let n := nat_of_ascii c in if (65 <=? n)%nat && (n <=? 90)%nat then ascii_of_nat (n + 32) else c.
Fixpoint lower (s : string) : string :=
  match s with EmptyString => EmptyString | String c r => String (lower_ascii c) (lower r) end.
(* nt_to_fun *)
Definition default_handler (n : node_type) : string := "walk_" ++ lower (nt_name n).

Example default_handler_ex : default_handler NT_BV_TONATURAL = "walk_bv_tonatural".
Proof. vm_compute. reflexivity. Qed.
