(* Shared by the Dispatch_*_proofs files: association lookup of handler names, and the name
   pysmt/walkers/generic.py gives the default handler of a node type ("walk_" + lower-cased operator name). *)
From Coq Require Import List Bool String Ascii Arith.
From PySMT.gen Require Import Operators.
From PySMT.proofs Require Import Operators_proofs.
Import ListNotations.
Open Scope string_scope.

Definition hlookup {A} (tbl : list (string * A)) (s : string) : option A :=
  match find (fun p => String.eqb (fst p) s) tbl with Some p => Some (snd p) | None => None end.

Definition lower_ascii (c : ascii) : ascii :=
  let n := nat_of_ascii c in if (65 <=? n)%nat && (n <=? 90)%nat then ascii_of_nat (n + 32) else c.
Fixpoint lower (s : string) : string :=
  match s with EmptyString => EmptyString | String c r => String (lower_ascii c) (lower r) end.
(* nt_to_fun *)
Definition default_handler (n : node_type) : string := "walk_" ++ lower (nt_name n).

Example default_handler_ex : default_handler NT_BV_TONATURAL = "walk_bv_tonatural".
Proof. vm_compute. reflexivity. Qed.

(* two tables over the node types are equal when one evaluation over the finite list says so *)
Lemma by_table (f g : node_type -> string) :
  forallb (fun n => String.eqb (f n) (g n)) all_node_types = true -> forall n, f n = g n.
Proof.
  intros H n. rewrite forallb_forall in H. apply String.eqb_eq, H, all_node_types_complete.
Qed.
Definition ostr_eqb (a b : option string) : bool :=
  match a, b with Some x, Some y => String.eqb x y | None, None => true | _, _ => false end.
Lemma by_table_opt (f g : node_type -> option string) :
  forallb (fun n => ostr_eqb (f n) (g n)) all_node_types = true -> forall n, f n = g n.
Proof.
  intros H n. rewrite forallb_forall in H. specialize (H n (all_node_types_complete n)).
  destruct (f n), (g n); cbn in H; try discriminate H; try reflexivity. f_equal. now apply String.eqb_eq.
Qed.
