(* C13, detection: the theory computed by the model of TheoryOracle (over the Theory operations
   regenerated from logics.py) enables every feature the formula uses. *)
From Coq Require Import List ZArith Bool String.
From PySMT.core Require Import Syntax.
From PySMT.gen Require Import Logics.
From PySMT.models Require Import Oracles TheoryOracle.
Import ListNotations.
Open Scope bool_scope.

(* ---------------- what a formula uses (declarative, independent of Theory) ---------------- *)
Record feat := mkF { f_arr : bool; f_arrc : bool; f_bv : bool; f_ia : bool; f_ra : bool;
                     f_uf : bool; f_ct : bool; f_str : bool; f_nl : bool }.
Definition f0 := mkF false false false false false false false false false.
Definition f_or (a b : feat) : feat :=
  mkF (f_arr a || f_arr b) (f_arrc a || f_arrc b) (f_bv a || f_bv b) (f_ia a || f_ia b)
      (f_ra a || f_ra b) (f_uf a || f_uf b) (f_ct a || f_ct b) (f_str a || f_str b) (f_nl a || f_nl b).
Definition f_le (a b : feat) : bool :=
  implb (f_arr a) (f_arr b) && implb (f_arrc a) (f_arrc b) && implb (f_bv a) (f_bv b) &&
  implb (f_ia a) (f_ia b) && implb (f_ra a) (f_ra b) && implb (f_uf a) (f_uf b) &&
  implb (f_ct a) (f_ct b) && implb (f_str a) (f_str b) && implb (f_nl a) (f_nl b).

Definition F_ia := mkF false false false true false false false false false.
Definition F_ra := mkF false false false false true false false false false.
Definition F_bv := mkF false false true false false false false false false.
Definition F_str := mkF false false false false false false false true false.
Definition F_ct := mkF false false false false false false true false false.
Definition F_uf := mkF false false false false false true false false false.
Definition F_arr := mkF true false false false false false false false false.
Definition F_arrc := mkF true true false false false false false false false.
Definition F_nl := mkF false false false false false false false false true.

(* sorts: integers, reals, bit-vectors, strings, arrays (with their index and element sorts),
   custom sorts, function types (uninterpreted symbols) *)
Fixpoint sort_feat (t : ty) : feat :=
  match t with
  | TBool => f0 | TInt => F_ia | TReal => F_ra | TBV _ => F_bv | TStr => F_str
  | TArr i e => f_or (f_or F_arr (sort_feat i)) (sort_feat e)
  | TUser _ _ => F_ct
  | TFun _ _ => F_uf
  end.

Definition big_or (l : list feat) : feat := fold_left f_or l f0.

(* the features an operator itself brings (beyond those of its arguments) *)
Definition op_feat (o : op) (args : list term) : feat :=
  match o with
  | OSymbol _ t => sort_feat t
  | OFunction _ (TFun _ r) => f_or F_uf (sort_feat r)
  | OForall vs | OExists vs => big_or (map (fun v => sort_feat (snd v)) vs)
  | OIntC _ => F_ia | ORealC _ _ => F_ra | OBVC _ _ => F_bv | OStrC _ => F_str
  | OToReal => f_or F_ia F_ra
  | OBVToNat => F_ia
  | OStr SLength | OStr SIndexOf | OStr SToInt => F_ia
  | OStr SFromInt => F_str
  | OArrayValue it => f_or F_arrc (sort_feat it)
  | OTimes => if Nat.ltb 1 (List.length (filter has_fv args)) then F_nl else f0
  | OPow => F_nl
  | ODiv => match args with
            | [_; r] => if has_fv r || is_zero r then F_nl else f0
            | _ => f0
            end
  | _ => f0
  end.

Fixpoint features (t : term) : feat :=
  match t with
  | T OPow [a; _] => f_or F_nl (features a)    (* the exponent is a numeral, part of the operator *)
  | T o args => f_or (op_feat o args) (big_or (map features args))
  end.

Definition of_theory (t : theory) : feat :=
  mkF (arrays t) (arrays_const t) (bit_vectors t) (integer_arithmetic t) (real_arithmetic t)
      (uninterpreted t) (custom_type t) (strings t) (negb (linear t)).

(* ---------------- order facts ---------------- *)
Ltac fbool := repeat match goal with
                     | |- context [implb ?a ?b] => destruct a; cbn; try reflexivity; try discriminate
                     end.

Lemma f_le_refl a : f_le a a = true.
Proof. destruct a as [[] [] [] [] [] [] [] [] []]; reflexivity. Qed.

Lemma f_le_spec a b : f_le a b = true <->
  (f_arr a = true -> f_arr b = true) /\ (f_arrc a = true -> f_arrc b = true) /\
  (f_bv a = true -> f_bv b = true) /\ (f_ia a = true -> f_ia b = true) /\
  (f_ra a = true -> f_ra b = true) /\ (f_uf a = true -> f_uf b = true) /\
  (f_ct a = true -> f_ct b = true) /\ (f_str a = true -> f_str b = true) /\
  (f_nl a = true -> f_nl b = true).
Proof.
  assert (I : forall x y, implb x y = true <-> (x = true -> y = true)) by (intros [] []; cbn; intuition congruence).
  unfold f_le. rewrite !andb_true_iff, !I. tauto.
Qed.

Lemma f_le_trans a b c : f_le a b = true -> f_le b c = true -> f_le a c = true.
Proof. rewrite !f_le_spec. intuition. Qed.

Lemma f_or_le a b c : f_le (f_or a b) c = true <-> f_le a c = true /\ f_le b c = true.
Proof.
  rewrite !f_le_spec. destruct a, b; cbn. rewrite !orb_true_iff. intuition.
Qed.
Lemma f_le_or_l a b c : f_le a b = true -> f_le a (f_or b c) = true.
Proof. rewrite !f_le_spec. destruct b, c; cbn. rewrite !orb_true_iff. intuition. Qed.
Lemma f_le_or_r a b c : f_le a c = true -> f_le a (f_or b c) = true.
Proof. rewrite !f_le_spec. destruct b, c; cbn. rewrite !orb_true_iff. intuition. Qed.

Lemma big_or_le l c : f_le (big_or l) c = true <-> Forall (fun a => f_le a c = true) l.
Proof.
  unfold big_or.
  assert (G : forall acc, f_le (fold_left f_or l acc) c = true <-> f_le acc c = true /\ Forall (fun a => f_le a c = true) l).
  { induction l as [|x l IH]; intros acc; cbn.
    - split; [intros H; split; [exact H | constructor] | intros [H _]; exact H].
    - rewrite IH, f_or_le. split.
      + intros [[H1 H2] H3]. split; [exact H1 | constructor; assumption].
      + intros [H1 H2]. inversion H2; subst. tauto. }
  rewrite G. split; [tauto|]. intros H. split; [|exact H]. destruct c as [[] [] [] [] [] [] [] [] []]; reflexivity.
Qed.

(* ---------------- the generated Theory operations, flag by flag ---------------- *)
Lemma of_combine a b : of_theory (t_combine a b) = f_or (of_theory a) (of_theory b).
Proof. unfold of_theory, f_or. cbn. now rewrite negb_andb. Qed.

Lemma of_copy a : of_theory (t_copy a) = of_theory a.
Proof. reflexivity. Qed.

Lemma of_set_dl a v : of_theory (t_set_difference_logic a v) = of_theory a.
Proof.
  unfold t_set_difference_logic. cbn.
  destruct (integer_arithmetic a) eqn:E1; cbn; destruct (real_arithmetic a) eqn:E2; cbn;
    unfold of_theory; cbn; rewrite ?E1, ?E2; reflexivity.
Qed.

Lemma of_set_linear_false a : of_theory (t_set_linear a false) = f_or (of_theory a) F_nl.
Proof. unfold of_theory, f_or. cbn. now rewrite !orb_false_r, orb_true_r. Qed.

Lemma of_set_lira a : of_theory (t_set_lira a true) = f_or (of_theory a) (f_or F_ia F_ra).
Proof. unfold of_theory, f_or. cbn. now rewrite !orb_false_r, !orb_true_r. Qed.

Lemma of_set_strings a : of_theory (t_set_strings a true) = f_or (of_theory a) F_str.
Proof. unfold of_theory, f_or. cbn. now rewrite !orb_false_r, !orb_true_r. Qed.

Lemma of_set_int a : of_theory (set_int a) = f_or (of_theory a) F_ia.
Proof. unfold of_theory, f_or. cbn. now rewrite !orb_false_r, !orb_true_r. Qed.
Lemma of_set_uf a : of_theory (set_uf a) = f_or (of_theory a) F_uf.
Proof. unfold of_theory, f_or. cbn. now rewrite !orb_false_r, !orb_true_r. Qed.
Lemma of_set_arr_const a : of_theory (set_arr_const a) = f_or (of_theory a) F_arrc.
Proof. unfold of_theory, f_or. cbn. now rewrite !orb_false_r, !orb_true_r. Qed.

Lemma of_type t : of_theory (theory_from_type t) = sort_feat t.
Proof.
  induction t; cbn [theory_from_type sort_feat]; try reflexivity.
  now rewrite !of_combine, IHt1, IHt2.
Qed.

(* ---------------- folds of combine dominate every argument ---------------- *)
Notation ole a b := (f_le (of_theory a) (of_theory b) = true).

Lemma ole_refl a : ole a a. Proof. apply f_le_refl. Qed.
Lemma ole_combine_l a b c : ole a b -> ole a (t_combine b c).
Proof. intros H. rewrite of_combine. now apply f_le_or_l. Qed.
Lemma ole_combine_r a b c : ole a c -> ole a (t_combine b c).
Proof. intros H. rewrite of_combine. now apply f_le_or_r. Qed.

Lemma fold_combine_ge : forall r a,
  ole a (fold_left t_combine r a) /\ Forall (fun x => ole x (fold_left t_combine r a)) r.
Proof.
  induction r as [|x r IH]; intros a; cbn.
  - split; [apply ole_refl | constructor].
  - destruct (IH (t_combine a x)) as [H1 H2]. split.
    + eapply f_le_trans; [|exact H1]. apply ole_combine_l, ole_refl.
    + constructor; auto. eapply f_le_trans; [|exact H1]. apply ole_combine_r, ole_refl.
Qed.

Lemma fold_combine_all args th : fold_combine args = Some th -> Forall (fun x => ole x th) args.
Proof.
  destruct args as [|a r]; cbn; [discriminate|]. intros [= <-].
  destruct (fold_combine_ge r a). constructor; auto.
Qed.
Lemma walk_combine_all args th : walk_combine args = Some th -> Forall (fun x => ole x th) args.
Proof.
  destruct args as [|a [|b r]]; cbn [walk_combine].
  - discriminate.
  - intros [= <-]. constructor; [rewrite of_copy; apply f_le_refl | constructor].
  - apply fold_combine_all.
Qed.

Lemma Forall_ole_trans l a (c : feat) : Forall (fun x => ole x a) l -> f_le (of_theory a) c = true ->
  Forall (fun x => f_le (of_theory x) c = true) l.
Proof. intros H Hab. eapply Forall_impl; [|exact H]. intros x Hx. cbv beta in Hx. exact (f_le_trans _ _ _ Hx Hab). Qed.

Definition add_vars (vs : list var) (th : theory) : theory :=
  fold_left (fun (th : theory) (v : var) => t_combine th (theory_from_type (snd v))) vs th.
Lemma bound_vars_ge : forall (vs : list var) (th : theory),
  ole th (add_vars vs th) /\
  Forall (fun v : var => f_le (sort_feat (snd v)) (of_theory (add_vars vs th)) = true) vs.
Proof.
  unfold add_vars. induction vs as [|v vs IH]; intros th; cbn; [split; [apply ole_refl | constructor]|].
  destruct (IH (t_combine th (theory_from_type (snd v)))) as [H1 H2]. split.
  - eapply f_le_trans; [|exact H1]. apply ole_combine_l, ole_refl.
  - constructor; auto. eapply f_le_trans; [|exact H1]. rewrite of_combine, of_type. apply f_le_or_r, f_le_refl.
Qed.

(* every rule's result dominates the theories of the arguments it looked at, and enables what
   the operator itself brings *)
Definition rule_args_dominated (o : op) : bool :=
  match o with OPow => false | _ => true end.

Lemma rule_covers o targs ths th : theory_rule o targs ths = Some th ->
  (rule_args_dominated o = true -> Forall (fun x => ole x th) ths) /\
  f_le (op_feat o targs) (of_theory th) = true.
Proof.
  intros H.
  assert (Hdef : walk_combine ths = Some th -> op_feat o targs = f0 ->
                 (rule_args_dominated o = true -> Forall (fun x => ole x th) ths) /\
                 f_le (op_feat o targs) (of_theory th) = true).
  { intros Hw Hf. split; [intros _; now apply walk_combine_all|]. rewrite Hf.
    destruct (of_theory th) as [[] [] [] [] [] [] [] [] []]; reflexivity. }
  assert (Hleaf : forall f, ths = [] -> f_le f (of_theory th) = true ->
                 (rule_args_dominated o = true -> Forall (fun x => ole x th) ths) /\ f_le f (of_theory th) = true).
  { intros f -> Hf. split; auto. }
  destruct o; cbn [theory_rule op_feat] in *; try (apply Hdef; [exact H | reflexivity]).
  - (* forall *) destruct ths as [|a [|b r]]; try discriminate. injection H as <-. fold (add_vars vs (t_copy a)).
    destruct (bound_vars_ge vs (t_copy a)) as [H1 H2]. split.
    + intros _. constructor; [|constructor]. rewrite of_copy in H1. exact H1.
    + apply big_or_le. apply Forall_forall. intros f Hf. apply in_map_iff in Hf. destruct Hf as (v & <- & Hv).
      rewrite Forall_forall in H2. now apply H2.
  - (* exists *) destruct ths as [|a [|b r]]; try discriminate. injection H as <-. fold (add_vars vs (t_copy a)).
    destruct (bound_vars_ge vs (t_copy a)) as [H1 H2]. split.
    + intros _. constructor; [|constructor]. rewrite of_copy in H1. exact H1.
    + apply big_or_le. apply Forall_forall. intros f Hf. apply in_map_iff in Hf. destruct Hf as (v & <- & Hv).
      rewrite Forall_forall in H2. now apply H2.
  - (* symbol *) destruct ths; [|discriminate]. injection H as <-. apply Hleaf; auto. rewrite of_type. apply f_le_refl.
  - (* function *)
    destruct t; try discriminate. injection H as <-.
    set (base := match ths with [] => th0 | [a] => t_copy a | a :: r => fold_left t_combine r a end).
    assert (Hb : Forall (fun x => ole x base) ths).
    { subst base. destruct ths as [|a [|b r]]; [constructor | constructor; [rewrite of_copy; apply f_le_refl | constructor] |].
      destruct (fold_combine_ge (b :: r) a). constructor; auto. }
    split.
    + intros _. eapply Forall_ole_trans; [exact Hb|]. rewrite of_set_uf, of_combine. apply f_le_or_l, f_le_or_l, f_le_refl.
    + rewrite of_set_uf, of_combine, of_type. apply f_or_le. split.
      * apply f_le_or_r, f_le_refl.
      * apply f_le_or_l, f_le_or_r, f_le_refl.
  - (* real const *) destruct ths; [|discriminate]. injection H as <-. apply Hleaf; auto.
  - (* bool const *) destruct ths; [|discriminate]. injection H as <-. apply Hleaf; auto.
  - (* int const *) destruct ths; [|discriminate]. injection H as <-. apply Hleaf; auto.
  - (* str const *) destruct ths; [|discriminate]. injection H as <-. apply Hleaf; auto.
  - (* plus *) destruct (fold_combine ths) as [t0|] eqn:E; [|discriminate]. injection H as <-. split.
    + intros _. eapply Forall_ole_trans; [apply fold_combine_all; exact E|]. rewrite of_set_dl. apply f_le_refl.
    + destruct (of_theory _) as [[] [] [] [] [] [] [] [] []]; reflexivity.
  - (* times *) destruct (fold_combine ths) as [t0|] eqn:E; [|discriminate]. injection H as <-. split.
    + intros _. eapply Forall_ole_trans; [apply fold_combine_all; exact E|]. rewrite of_set_dl.
      destruct (Nat.ltb _ _); [rewrite of_set_linear_false; apply f_le_or_l|]; apply f_le_refl.
    + rewrite of_set_dl. destruct (Nat.ltb _ _).
      * rewrite of_set_linear_false. apply f_le_or_r, f_le_refl.
      * destruct (of_theory _) as [[] [] [] [] [] [] [] [] []]; reflexivity.
  - (* toreal *) destruct ths as [|a [|b r]]; try discriminate. injection H as <-. rewrite of_set_lira. split.
    + intros _. constructor; [apply f_le_or_l, f_le_refl | constructor].
    + apply f_le_or_r, f_le_refl.
  - (* bv const *) destruct ths; [|discriminate]. injection H as <-. apply Hleaf; auto.
  - (* strings *)
    destruct k; cbn [theory_rule op_feat] in *; try (apply Hdef; [exact H | reflexivity]).
    + (* length *) destruct (walk_combine ths) as [t0|] eqn:E; [|discriminate]. injection H as <-. rewrite of_set_int. split.
      * intros _. eapply Forall_ole_trans; [apply walk_combine_all; exact E|]. apply f_le_or_l, f_le_refl.
      * apply f_le_or_r, f_le_refl.
    + (* indexof *) destruct (walk_combine ths) as [t0|] eqn:E; [|discriminate]. injection H as <-. rewrite of_set_int. split.
      * intros _. eapply Forall_ole_trans; [apply walk_combine_all; exact E|]. apply f_le_or_l, f_le_refl.
      * apply f_le_or_r, f_le_refl.
    + (* to_int *) destruct (walk_combine ths) as [t0|] eqn:E; [|discriminate]. injection H as <-. rewrite of_set_int. split.
      * intros _. eapply Forall_ole_trans; [apply walk_combine_all; exact E|]. apply f_le_or_l, f_le_refl.
      * apply f_le_or_r, f_le_refl.
    + (* from_int *) destruct ths as [|a [|b r]]; try discriminate. injection H as <-. rewrite of_set_strings. split.
      * intros _. constructor; [apply f_le_or_l, f_le_refl | constructor].
      * apply f_le_or_r, f_le_refl.
  - (* array value *) destruct (walk_combine ths) as [t0|] eqn:E; [|discriminate]. injection H as <-.
    rewrite of_set_arr_const, of_combine, of_type. split.
    + intros _. eapply Forall_ole_trans; [apply walk_combine_all; exact E|]. apply f_le_or_l, f_le_or_l, f_le_refl.
    + apply f_or_le. split; [apply f_le_or_r, f_le_refl | apply f_le_or_l, f_le_or_r, f_le_refl].
  - (* div *)
    destruct ths as [|a [|b [|c r]]]; try discriminate. destruct targs as [|l [|r0 [|c r]]]; try discriminate.
    assert (Hab : Forall (fun x => ole x (t_combine a b)) [a; b]).
    { constructor; [apply ole_combine_l, ole_refl | constructor; [apply ole_combine_r, ole_refl | constructor]]. }
    destruct (has_fv r0) eqn:E1; cbn [orb] in *.
    + injection H as <-. rewrite of_set_linear_false. split.
      * intros _. eapply Forall_ole_trans; [exact Hab|]. apply f_le_or_l, f_le_refl.
      * apply f_le_or_r, f_le_refl.
    + destruct (is_zero r0) eqn:E2; injection H as <-.
      * rewrite of_set_linear_false. split.
        -- intros _. eapply Forall_ole_trans; [exact Hab|]. apply f_le_or_l, f_le_refl.
        -- apply f_le_or_r, f_le_refl.
      * split.
        -- intros _. eapply Forall_ole_trans; [exact Hab|]. apply ole_combine_l, ole_refl.
        -- destruct (of_theory _) as [[] [] [] [] [] [] [] [] []]; reflexivity.
  - (* pow *) destruct ths as [|a [|b [|c r]]]; try discriminate. injection H as <-. split; [discriminate|].
    rewrite of_set_linear_false. apply f_le_or_r, f_le_refl.
  - (* bv2nat *) destruct ths as [|a [|b r]]; try discriminate. injection H as <-. rewrite of_set_int, of_copy. split.
    + intros _. constructor; [apply f_le_or_l, f_le_refl | constructor].
    + apply f_le_or_r, f_le_refl.
Qed.

(* ---------------- the detected theory enables every feature of the formula ---------------- *)
Lemma features_generic o args : o <> OPow ->
  features (T o args) = f_or (op_feat o args) (big_or (map features args)).
Proof. intros Ho. destruct o; try reflexivity. congruence. Qed.

Lemma all_some_Forall2 {A} (l : list (option A)) ls :
  all_some l = Some ls -> Forall2 (fun o x => o = Some x) l ls.
Proof.
  revert ls. induction l as [|[x|] r IH]; intros ls; cbn; [intros [= <-]; constructor| |discriminate].
  destruct (all_some r) eqn:E; [|discriminate]. intros [= <-]. constructor; auto.
Qed.

Theorem detect_covers : forall t th, theory_of t = Some th -> f_le (features t) (of_theory th) = true.
Proof.
  induction t as [o args IH] using term_ind'. intros th H. cbn [theory_of] in H.
  destruct (all_some (map theory_of args)) as [ths|] eqn:E; [|discriminate].
  destruct (rule_covers _ _ _ _ H) as [Hdom Hop].
  assert (HF : Forall2 (fun a thi => f_le (features a) (of_theory thi) = true) args ths).
  { apply all_some_Forall2 in E. clear H Hdom Hop. revert ths E.
    induction args as [|a r IHr]; intros ths E; inversion E; subst; constructor.
    - inversion IH; subst. auto.
    - inversion IH; subst. apply IHr; auto. }
  destruct (op_eqb o OPow) eqn:Eo.
  - (* pow: base and numeral exponent *)
    assert (o = OPow) by (destruct o; try discriminate; reflexivity). subst o.
    cbn [theory_rule] in H. destruct ths as [|tha [|thb [|c r]]]; try discriminate. injection H as <-.
    inversion HF as [|a tha' args' ? Ha HF1]; subst. inversion HF1 as [|b thb' ? ? Hb HF2]; subst. inversion HF2; subst.
    cbn [features]. apply f_or_le. split.
    + rewrite of_set_linear_false. apply f_le_or_r, f_le_refl.
    + eapply f_le_trans; [exact Ha|]. rewrite of_set_linear_false. apply f_le_or_l, f_le_refl.
  - assert (Hne : o <> OPow) by (intros ->; discriminate).
    rewrite (features_generic o args Hne). apply f_or_le. split; [exact Hop|].
    apply big_or_le. apply Forall_forall. intros f Hf. apply in_map_iff in Hf. destruct Hf as (a & <- & Ha).
    assert (Hd : Forall (fun x => ole x th) ths) by (apply Hdom; destruct o; try reflexivity; congruence).
    clear - HF Hd Ha. induction HF as [|x thi l l' Hx HF IHF]; [contradiction|].
    inversion Hd; subst. destruct Ha as [<-|Ha]; [eapply f_le_trans; eauto | auto].
Qed.

(* read back on the Theory flags (and quantifier-freeness through is_qf, see C12_qf_def) *)
Corollary detect_covers_flags : forall t th, theory_of t = Some th ->
  let f := features t in
  (f_arr f = true -> arrays th = true) /\ (f_arrc f = true -> arrays_const th = true) /\
  (f_bv f = true -> bit_vectors th = true) /\ (f_ia f = true -> integer_arithmetic th = true) /\
  (f_ra f = true -> real_arithmetic th = true) /\ (f_uf f = true -> uninterpreted th = true) /\
  (f_ct f = true -> custom_type th = true) /\ (f_str f = true -> strings th = true) /\
  (f_nl f = true -> linear th = false).
Proof.
  intros t th H f. pose proof (detect_covers t th H) as G. apply f_le_spec in G. cbn in G.
  destruct G as (G1 & G2 & G3 & G4 & G5 & G6 & G7 & G8 & G9). repeat split; auto.
  intros Hn. specialize (G9 Hn). now apply negb_true_iff in G9.
Qed.

(* non-vacuity: a formula with a quantified Real variable, an Int symbol and int.to.str *)
Example detect_example :
  let t := T (OExists [("r"%string, TReal)]) [T OEquals [T (OStr SFromInt) [TSym "i" TInt]; TStrC []]] in
  exists th, theory_of t = Some th /\ f_str (features t) = true /\ f_ra (features t) = true /\
             strings th = true /\ real_arithmetic th = true /\ integer_arithmetic th = true.
Proof. cbn. eexists. split; [reflexivity|]. repeat split; reflexivity. Qed.

(* ---------------- detected theories are well-formed; order implies coverage ---------------- *)
From PySMT.proofs Require Import Logics_proofs.

Lemma wf_fold_combine : forall r a, wf a = true -> Forall (fun x => wf x = true) r ->
  wf (fold_left t_combine r a) = true.
Proof.
  induction r as [|x r IH]; intros a Ha Hr; cbn; auto.
  inversion Hr; subst. apply IH; auto. now apply t_combine_wf.
Qed.
Lemma wf_walk_combine args th : Forall (fun x => wf x = true) args -> walk_combine args = Some th -> wf th = true.
Proof.
  intros HF. destruct args as [|a [|b r]]; cbn [walk_combine fold_combine]; try discriminate.
  - intros [= <-]. inversion HF; subst. now apply setters_wf.
  - intros [= <-]. inversion HF as [|? ? Ha HF1]; subst. change (wf (fold_left t_combine (b :: r) a) = true).
    apply wf_fold_combine; assumption.
Qed.
Lemma wf_fold_combine_opt args th : Forall (fun x => wf x = true) args -> fold_combine args = Some th -> wf th = true.
Proof.
  intros HF. destruct args as [|a r]; cbn; try discriminate. intros [= <-]. inversion HF; subst. apply wf_fold_combine; assumption.
Qed.
Lemma wf_type t : wf (theory_from_type t) = true.
Proof. induction t; cbn [theory_from_type]; try reflexivity. repeat apply t_combine_wf; auto. Qed.
Lemma wf_set_int a : wf a = true -> wf (set_int a) = true.
Proof. unfold wf, set_int; cbn. rewrite !andb_true_iff. intros [[? ?] ?]. auto. Qed.
Lemma wf_set_uf a : wf a = true -> wf (set_uf a) = true.
Proof. unfold wf, set_uf; cbn. auto. Qed.
Lemma wf_set_arr_const a : wf a = true -> wf (set_arr_const a) = true.
Proof. unfold wf, set_arr_const; cbn. rewrite !andb_true_iff. intros [[? ?] ?]. auto. Qed.
Lemma wf_add_vars vs a : wf a = true -> wf (add_vars vs a) = true.
Proof.
  unfold add_vars. revert a. induction vs as [|v vs IH]; intros a Ha; cbn; auto.
  apply IH. apply t_combine_wf; auto. apply wf_type.
Qed.

Lemma rule_wf o targs ths th : Forall (fun x => wf x = true) ths -> theory_rule o targs ths = Some th -> wf th = true.
Proof.
  intros HF H.
  assert (Hdef : walk_combine ths = Some th -> wf th = true) by (apply wf_walk_combine; auto).
  destruct o; cbn [theory_rule] in H; try (apply Hdef; exact H);
    try (destruct ths; [injection H as <-; reflexivity | discriminate]).
  - destruct ths as [|a [|b r]]; try discriminate. injection H as <-. inversion HF; subst.
    fold (add_vars vs (t_copy a)). apply wf_add_vars. now apply setters_wf.
  - destruct ths as [|a [|b r]]; try discriminate. injection H as <-. inversion HF; subst.
    fold (add_vars vs (t_copy a)). apply wf_add_vars. now apply setters_wf.
  - destruct ths; [injection H as <-; apply wf_type | discriminate].
  - destruct t; try discriminate. injection H as <-. apply wf_set_uf. apply t_combine_wf; [|apply wf_type].
    destruct ths as [|a [|b r]]; [reflexivity | inversion HF; subst; now apply setters_wf |].
    inversion HF; subst. apply wf_fold_combine; assumption.
  - destruct (fold_combine ths) eqn:E; [|discriminate]. injection H as <-.
    apply setters_wf. eapply wf_fold_combine_opt; eauto.
  - destruct (fold_combine ths) eqn:E; [|discriminate]. injection H as <-.
    apply setters_wf. destruct (Nat.ltb _ _); [apply setters_wf|]; eapply wf_fold_combine_opt; eauto.
  - destruct ths as [|a [|b r]]; try discriminate. injection H as <-. inversion HF; subst. now apply setters_wf.
  - destruct k; cbn [theory_rule] in H; try (apply Hdef; exact H).
    + destruct (walk_combine ths) eqn:E; [|discriminate]. injection H as <-. apply wf_set_int. eapply wf_walk_combine; eauto.
    + destruct (walk_combine ths) eqn:E; [|discriminate]. injection H as <-. apply wf_set_int. eapply wf_walk_combine; eauto.
    + destruct (walk_combine ths) eqn:E; [|discriminate]. injection H as <-. apply wf_set_int. eapply wf_walk_combine; eauto.
    + destruct ths as [|a [|b r]]; try discriminate. injection H as <-. inversion HF; subst. now apply setters_wf.
  - destruct (walk_combine ths) eqn:E; [|discriminate]. injection H as <-. apply wf_set_arr_const.
    apply t_combine_wf; [eapply wf_walk_combine; eauto | apply wf_type].
  - destruct ths as [|a [|b [|c r]]]; try discriminate. destruct targs as [|l [|r0 [|c r]]]; try discriminate.
    inversion HF as [|? ? Ha HF1]; subst. inversion HF1 as [|? ? Hb _]; subst.
    assert (wf (t_combine a b) = true) by now apply t_combine_wf.
    destruct (has_fv r0); [injection H as <-; now apply setters_wf|].
    destruct (is_zero r0); injection H as <-; [now apply setters_wf | now apply t_combine_wf].
  - destruct ths as [|a [|b [|c r]]]; try discriminate. injection H as <-. inversion HF; subst. now apply setters_wf.
  - destruct ths as [|a [|b r]]; try discriminate. injection H as <-. inversion HF; subst. apply wf_set_int. now apply setters_wf.
Qed.

Theorem theory_of_wf : forall t th, theory_of t = Some th -> wf th = true.
Proof.
  induction t as [o args IH] using term_ind'. intros th H. cbn [theory_of] in H.
  destruct (all_some (map theory_of args)) as [ths|] eqn:E; [|discriminate].
  eapply rule_wf; [|exact H]. apply all_some_Forall2 in E. clear H. revert ths E.
  induction args as [|a r IHr]; intros ths E; inversion E; subst; constructor.
  - inversion IH; subst. eauto.
  - inversion IH; subst. apply IHr; auto.
Qed.

(* a theory above the detected one (in Theory.__le__) enables the same features *)
Lemma t_le_covers a b : wf a = true -> wf b = true -> t_le a b = true ->
  f_le (of_theory a) (of_theory b) = true.
Proof.
  intros Ha Hb H. rewrite (t_le_is_spec a b Ha Hb) in H. unfold t_le_spec in H.
  rewrite !andb_true_iff in H. destruct H as [[[[[[[[[H1 H2] H3] H4] H5] H6] H7] H8] H9] H10].
  apply f_le_spec. unfold of_theory; cbn.
  assert (I : forall x y, implb x y = true -> x = true -> y = true) by (intros [] []; cbn; congruence).
  repeat split; eauto using I.
  - unfold le_dl in H7. apply andb_true_iff in H7. destruct H7 as [_ H7]. eauto using I.
  - unfold le_dl in H8. apply andb_true_iff in H8. destruct H8 as [_ H8]. eauto using I.
  - unfold le_lin in H9. destruct (linear a), (linear b); cbn in *; congruence.
Qed.

(* end to end: any logic above the detected (theory, qf) pair covers the formula's features and
   is quantified if the formula has a quantifier *)
Theorem get_logic_covers : forall t th (r : logic), theory_of t = Some th -> lwf r = true ->
  l_le (mkL "Detected Logic" (is_qf t) th) r = true ->
  f_le (features t) (of_theory (ltheory r)) = true /\ (lqf r = true -> is_qf t = true).
Proof.
  intros t th r H Hr Hle. unfold l_le in Hle. cbn in Hle. apply andb_true_iff in Hle. destruct Hle as [H1 H2]. split.
  - eapply f_le_trans; [apply detect_covers; exact H|]. apply t_le_covers; auto. eapply theory_of_wf; eauto.
  - intros Hq. rewrite Hq in H2. cbn in H2. exact H2.
Qed.
