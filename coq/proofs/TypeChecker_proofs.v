(* C03: the model of SimpleTypeChecker's rules (models/TypeChecker.v) against the declarative
   sorting rules (core/Types.v). *)
From Coq Require Import List ZArith Bool String Lia.
From PySMT.core Require Import Syntax SyntaxLemmas Types.
From PySMT.models Require Import TypeChecker.
Import ListNotations.
Open Scope Z_scope.

Lemma all_are_forallb t l : all_are t l <-> forallb (fun x => ty_eqb x t) l = true.
Proof.
  unfold all_are. rewrite forallb_forall, Forall_forall.
  split; intros H x Hx; [apply ty_eqb_eq | apply ty_eqb_eq]; auto.
Qed.

Lemma type_to_type_ok args tin tout : all_are tin args -> type_to_type args tin tout = Some tout.
Proof. intros H. unfold type_to_type. apply all_are_forallb in H. now rewrite H. Qed.

Lemma type_to_type_inv args tin tout t : type_to_type args tin tout = Some t -> all_are tin args /\ t = tout.
Proof.
  unfold type_to_type. destruct (forallb _ args) eqn:E; [|discriminate]. intros [= <-].
  split; auto. now apply all_are_forallb.
Qed.

Lemma all_are_ne t u l : l <> [] -> t <> u -> all_are t l -> forallb (fun x => ty_eqb x u) l = false.
Proof.
  intros Hl Hne H. destruct l as [|x r]; [congruence|]. inversion H; subst. cbn.
  destruct (ty_eqb t u) eqn:E; auto. apply ty_eqb_eq in E. contradiction.
Qed.

Lemma assigns_ok_array_value it et l : assigns_ok it et l -> array_value_ok it et l true = true.
Proof. induction 1; cbn; auto. now rewrite !ty_eqb_refl. Qed.

(* Everything the declarative rules accept, the checker accepts, with the same type. *)
Theorem tc_complete : forall o args t, wt_rule o args t -> tc_rule o args = Some t.
Proof.
  intros o args t H. destruct H; cbn [tc_rule]; try reflexivity;
    try (apply type_to_type_ok; assumption);
    try (rewrite ?ty_eqb_refl, ?Z.eqb_refl; cbn; rewrite ?ty_eqb_refl, ?Z.eqb_refl; reflexivity).
  - (* function *) now rewrite (proj2 (tys_eqb_eq ps ps) eq_refl).
  - (* plus *) destruct H as [-> | ->].
    + unfold type_to_type at 1. rewrite (all_are_ne TInt TReal l); auto; [|discriminate]. now apply type_to_type_ok.
    + now rewrite (type_to_type_ok l TReal TReal).
  - (* times *) destruct H as [-> | ->].
    + unfold type_to_type at 1. rewrite (all_are_ne TInt TReal l); auto; [|discriminate]. now apply type_to_type_ok.
    + now rewrite (type_to_type_ok l TReal TReal).
  - (* minus *) destruct H as [-> | ->]; reflexivity.
  - (* div *) destruct H as [-> | ->]; reflexivity.
  - (* pow *) destruct H as [-> | ->]; reflexivity.
  - (* le *) destruct H as [-> | ->]; reflexivity.
  - (* lt *) destruct H as [-> | ->]; reflexivity.
  - (* equals *)
    assert (E : type_to_type [t; t] t TBool = Some TBool) by (apply type_to_type_ok; repeat constructor).
    destruct t; try contradiction; try exact E. cbn. now rewrite Z.eqb_refl.
  - (* bv unary *) destruct H as [-> | ->]; cbn; now rewrite Z.eqb_refl.
  - (* bv binary *) destruct k; try contradiction; cbn; now rewrite Z.eqb_refl.
  - (* extract *)
    replace (s >=? w) with false by lia. replace (e >=? w) with false by lia. cbn.
    replace (w <? e - s + 1) with false by lia. now rewrite Z.eqb_refl.
  - (* rol *) replace (w <? k) with false by lia. replace (w <? 0) with false by lia. replace (k <? 0) with false by lia. cbn. now rewrite Z.eqb_refl.
  - (* ror *) replace (w <? k) with false by lia. replace (w <? 0) with false by lia. replace (k <? 0) with false by lia. cbn. now rewrite Z.eqb_refl.
  - (* zext *) replace (a + k <? a) with false by lia. replace (a + k <? 0) with false by lia. reflexivity.
  - (* sext *) replace (a + k <? a) with false by lia. replace (a + k <? 0) with false by lia. reflexivity.
  - (* array value *) now rewrite assigns_ok_array_value.
Qed.

(* ---------------------------------------------------------------------------------------- *)
Ltac len_args Hs :=
  match type of Hs with
  | List.length ?a = 1%nat => destruct a as [|?x [|? ?]]; try discriminate Hs
  | List.length ?a = 2%nat => destruct a as [|?x [|?y [|? ?]]]; try discriminate Hs
  | List.length ?a = 3%nat => destruct a as [|?x [|?y [|?z [|? ?]]]]; try discriminate Hs
  end.
Ltac all_are_inv :=
  repeat match goal with
         | H : all_are _ (_ :: _) |- _ => inversion H; subst; clear H
         | H : Forall _ (_ :: _) |- _ => inversion H; subst; clear H
         | H : all_are _ [] |- _ => clear H
         | H : Forall _ [] |- _ => clear H
         end.
Ltac ttt H := apply type_to_type_inv in H; let Ha := fresh "Hall" in destruct H as [Ha ?]; subst; all_are_inv;
  try match goal with Hc : _ = _ |- _ => discriminate Hc end.

Lemma realint_inv args t :
  match type_to_type args TReal TReal with Some t0 => Some t0 | None => type_to_type args TInt TInt end = Some t ->
  arith t /\ all_are t args.
Proof.
  destruct (type_to_type args TReal TReal) eqn:E.
  - intros [= <-]. apply type_to_type_inv in E. destruct E as [E ->]. split; [right; auto | auto].
  - intros H. apply type_to_type_inv in H. destruct H as [H ->]. split; [left; auto | auto].
Qed.

Lemma array_value_assigns it et l : Nat.Even (List.length l) -> array_value_ok it et l true = true ->
  assigns_ok it et l.
Proof.
  intros [k Hk]. revert l Hk. induction k as [|k IH]; intros l Hk H.
  - destruct l; [constructor | cbn in Hk; lia].
  - destruct l as [|a [|b r]]; cbn in Hk; try lia. cbn in H.
    apply andb_true_iff in H. destruct H as [Ha H]. apply andb_true_iff in H. destruct H as [Hb H].
    apply ty_eqb_eq in Ha, Hb. subst. constructor. apply IH; [lia | exact H].
Qed.

Lemma bv_to_bool_inv2 a b t : bv_to_bool [a; b] = Some t -> exists w, a = TBV w /\ b = TBV w /\ t = TBool.
Proof.
  destruct a; cbn; try discriminate. destruct b; cbn; try discriminate.
  destruct (Z.eqb_spec w w0); cbn; [|discriminate]. intros [= <-]. subst. eauto.
Qed.

(* Whatever the checker accepts from a constructor is well-typed by the declarative rules. *)
Theorem tc_sound : forall o args t, ctor_shape o args -> Forall fo args ->
  tc_rule o args = Some t -> wt_rule o args t.
Proof.
  intros o args t Hs Hfo H. destruct o; cbn [tc_rule ctor_shape] in *.
  - (* forall *) len_args Hs. destruct (ty_eqb x TBool) eqn:E; [|discriminate]. apply ty_eqb_eq in E. injection H as <-. subst. constructor.
  - (* exists *) len_args Hs. destruct (ty_eqb x TBool) eqn:E; [|discriminate]. apply ty_eqb_eq in E. injection H as <-. subst. constructor.
  - (* and *) apply type_to_type_inv in H. destruct H as [H ->]. now constructor.
  - (* or *) apply type_to_type_inv in H. destruct H as [H ->]. now constructor.
  - (* not *) len_args Hs. ttt H. constructor.
  - (* implies *) len_args Hs. ttt H. constructor.
  - (* iff *) len_args Hs. ttt H. constructor.
  - (* symbol *) destruct args; [|discriminate]. injection H as <-. constructor.
  - (* function *) destruct t0; try discriminate. destruct (tys_eqb args ps) eqn:E; [|discriminate].
    apply tys_eqb_eq in E. injection H as <-. subst. constructor.
  - destruct args; [|discriminate]. injection H as <-. constructor.
  - destruct args; [|discriminate]. injection H as <-. constructor.
  - destruct args; [|discriminate]. injection H as <-. constructor.
  - destruct args; [|discriminate]. injection H as <-. constructor.
  - (* plus *) apply realint_inv in H. destruct H. now constructor.
  - (* minus *) len_args Hs. apply realint_inv in H. destruct H. all_are_inv. now constructor.
  - (* times *) apply realint_inv in H. destruct H. now constructor.
  - (* le *) len_args Hs. destruct x; ttt H; constructor; first [left; reflexivity | right; reflexivity].
  - (* lt *) len_args Hs. destruct x; ttt H; constructor; first [left; reflexivity | right; reflexivity].
  - (* equals *) len_args Hs. inversion Hfo as [|? ? Hfx _]; subst. destruct x; try discriminate;
      try (ttt H; constructor; [discriminate | exact Hfx]).
    apply bv_to_bool_inv2 in H. destruct H as (w0 & E1 & -> & ->). injection E1 as ->. constructor; [discriminate | exact Logic.I].
  - (* ite *) len_args Hs. destruct (ty_eqb x TBool) eqn:E1; [|discriminate]. destruct (ty_eqb y z) eqn:E2; [|discriminate].
    apply ty_eqb_eq in E1, E2. injection H as <-. subst. constructor.
    inversion Hfo as [|? ? _ Hf2]; subst. inversion Hf2; subst. assumption.
  - (* toreal *) len_args Hs. ttt H. constructor.
  - (* bvc *) destruct args; [|discriminate]. injection H as <-. constructor.
  - (* bv operators *)
    destruct Hs as [Hu Hb].
    assert (Hall : forall l, (if forallb (fun a => ty_eqb a (TBV w)) l then Some (TBV w) else None) = Some t ->
                             all_are (TBV w) l /\ t = TBV w).
    { intros l. destruct (forallb _ l) eqn:E; [|discriminate]. intros [= <-]. split; auto. now apply all_are_forallb. }
    destruct k;
      try (specialize (Hu ltac:(unfold bv_unary; auto)); len_args Hu; apply Hall in H; destruct H as [H ->]; all_are_inv;
           apply W_bv1; unfold bv_unary; auto; fail);
      try (specialize (Hb ltac:(left; exact Logic.I)); len_args Hb; apply Hall in H; destruct H as [H ->]; all_are_inv;
           apply W_bv2; exact Logic.I).
    + (* concat *) specialize (Hb ltac:(right; left; reflexivity)). len_args Hb.
      destruct x; try discriminate. destruct y; try discriminate.
      destruct (Z.eqb_spec (w0 + w1) w); [|discriminate]. injection H as <-. subst. constructor.
    + (* comp *) specialize (Hb ltac:(right; right; reflexivity)). len_args Hb.
      destruct (ty_eqb x y) eqn:E; [|discriminate]. apply ty_eqb_eq in E. subst.
      destruct y; try discriminate. injection H as <-. constructor.
  - (* bv relations *) len_args Hs. apply bv_to_bool_inv2 in H. destruct H as (w0 & -> & -> & ->). constructor.
  - (* extract *) destruct Hs as (Hl & Hs0 & Hse). len_args Hl. destruct x; try discriminate.
    destruct ((s >=? w0) || (e >=? w0)) eqn:E1; [discriminate|]. destruct (w0 <? w) eqn:E2; [discriminate|].
    destruct (negb (w =? e - s + 1)) eqn:E3; [discriminate|]. injection H as <-.
    apply orb_false_iff in E1. destruct E1 as [E1a E1b]. apply negb_false_iff, Z.eqb_eq in E3. subst w.
    constructor; lia.
  - (* rol *) len_args Hs. destruct ((w <? k) || (w <? 0) || (k <? 0)) eqn:E; [discriminate|].
    destruct x; try discriminate. destruct (Z.eqb_spec w w0); [|discriminate]. injection H as <-. subst.
    apply orb_false_iff in E. destruct E as [E E3]. apply orb_false_iff in E. destruct E as [E1 E2]. constructor. lia.
  - (* ror *) len_args Hs. destruct ((w <? k) || (w <? 0) || (k <? 0)) eqn:E; [discriminate|].
    destruct x; try discriminate. destruct (Z.eqb_spec w w0); [|discriminate]. injection H as <-. subst.
    apply orb_false_iff in E. destruct E as [E E3]. apply orb_false_iff in E. destruct E as [E1 E2]. constructor. lia.
  - (* zext *) destruct Hs as (a & -> & ->). destruct ((a + k <? a) || (a + k <? 0)) eqn:E; [discriminate|]. injection H as <-.
    apply orb_false_iff in E. destruct E. constructor; lia.
  - (* sext *) destruct Hs as (a & -> & ->). destruct ((a + k <? a) || (a + k <? 0)) eqn:E; [discriminate|]. injection H as <-.
    apply orb_false_iff in E. destruct E. constructor; lia.
  - (* strings *)
    destruct k; cbn [tc_rule ctor_shape] in *.
    + len_args Hs. ttt H. constructor.
    + apply type_to_type_inv in H. destruct H as [H ->]. now constructor.
    + len_args Hs. ttt H. constructor.
    + destruct args as [|[] [|[] [|[] [|? ?]]]]; try discriminate. injection H as <-. constructor.
    + len_args Hs. ttt H. constructor.
    + destruct args as [|[] [|[] [|[] [|? ?]]]]; try discriminate. injection H as <-. constructor.
    + len_args Hs. ttt H. constructor.
    + len_args Hs. ttt H. constructor.
    + len_args Hs. ttt H. constructor.
    + len_args Hs. ttt H. constructor.
    + destruct args as [|[] [|[] [|? ?]]]; try discriminate. injection H as <-. constructor.
  - (* select *) len_args Hs. destruct x; try discriminate. destruct (ty_eqb x1 y) eqn:E; [|discriminate].
    apply ty_eqb_eq in E. injection H as <-. subst. constructor.
  - (* store *) len_args Hs. destruct x; try discriminate.
    destruct (ty_eqb x1 y) eqn:E1; [|discriminate]. destruct (ty_eqb x2 z) eqn:E2; [|discriminate].
    apply ty_eqb_eq in E1, E2. injection H as <-. subst. constructor.
  - (* array value *) destruct Hs as (d & l & -> & Hev).
    destruct (array_value_ok it d l true) eqn:E; [|discriminate]. injection H as <-. constructor.
    + inversion Hfo; assumption.
    + now apply array_value_assigns.
  - (* div *) len_args Hs. apply realint_inv in H. destruct H. all_are_inv. now constructor.
  - (* pow *) len_args Hs. destruct (ty_eqb x y) eqn:E; cbn in H; [|discriminate]. apply ty_eqb_eq in E. subst.
    destruct y; try discriminate; injection H as <-; constructor; [left | right]; reflexivity.
  - (* bv2nat *) len_args Hs. destruct x; try discriminate. injection H as <-. constructor.
Qed.

(* ---------------------------------------------------------------------------------------- *)
(* terms: the bottom-up checker against well-typedness of terms *)
Lemma tc_unfold o args : tc (T o args) =
  match (fix go (l : list term) : option (list ty) :=
           match l with
           | [] => Some []
           | x :: r => match tc x, go r with Some tx, Some tr => Some (tx :: tr) | _, _ => None end
           end) args with
  | Some tys => tc_rule o tys
  | None => None
  end.
Proof. reflexivity. Qed.

Fixpoint tcs (l : list term) : option (list ty) :=
  match l with
  | [] => Some []
  | x :: r => match tc x, tcs r with Some tx, Some tr => Some (tx :: tr) | _, _ => None end
  end.
Lemma tc_tcs o args : tc (T o args) = match tcs args with Some tys => tc_rule o tys | None => None end.
Proof. rewrite tc_unfold. induction args; reflexivity. Qed.

Theorem tc_complete_term : forall t ty, wt t ty -> tc t = Some ty.
Proof.
  induction t as [o args IH] using term_ind'. intros ty H. inversion H as [o' args' tys ty' HF Hr]; subst.
  rewrite tc_tcs. assert (E : tcs args = Some tys).
  { clear Hr H. induction HF as [|a t0 l l' Ha HF IHF]; cbn; auto.
    inversion IH; subst. rewrite (H1 _ Ha), (IHF H2). reflexivity. }
  rewrite E. now apply tc_complete.
Qed.

(* every node satisfies what its constructor guarantees *)
Inductive shaped : term -> Prop :=
| Shaped o args : Forall shaped args ->
    (forall tys, tcs args = Some tys -> ctor_shape o tys /\ Forall fo tys) -> shaped (T o args).

Theorem tc_sound_term : forall t ty, shaped t -> tc t = Some ty -> wt t ty.
Proof.
  induction t as [o args IH] using term_ind'. intros ty Hs H. inversion Hs as [o' args' HFs Hshape]; subst.
  rewrite tc_tcs in H. destruct (tcs args) as [tys|] eqn:E; [|discriminate].
  apply (WT o args tys ty); [| destruct (Hshape tys eq_refl); apply tc_sound; auto].
  clear H Hshape Hs. revert tys E. induction args as [|a r IHr]; intros tys E; cbn in E.
  - injection E as <-. constructor.
  - destruct (tc a) eqn:Ea; [|discriminate]. destruct (tcs r) eqn:Er; [|discriminate]. injection E as <-.
    inversion IH; subst. inversion HFs; subst. constructor; auto.
Qed.


(* ill-typed applications are rejected *)
Corollary tc_rejects : forall o args, ctor_shape o args -> Forall fo args ->
  (forall t, ~ wt_rule o args t) -> tc_rule o args = None.
Proof.
  intros o args Hs Hfo Hn. destruct (tc_rule o args) as [t|] eqn:E; auto.
  exfalso. exact (Hn t (tc_sound o args t Hs Hfo E)).
Qed.

(* the reported type is unique *)
Corollary wt_rule_functional : forall o args t1 t2, wt_rule o args t1 -> wt_rule o args t2 -> t1 = t2.
Proof. intros o args t1 t2 H1 H2. apply tc_complete in H1, H2. congruence. Qed.

(* non-vacuity: a well-typed application and a rejected one, both in constructor shape *)
Example wt_example : wt_rule (OBV BAdd 8) [TBV 8; TBV 8] (TBV 8) /\ ctor_shape (OBV BAdd 8) [TBV 8; TBV 8].
Proof. split; [apply W_bv2; exact Logic.I | cbn; split; auto; intros [H|H]; discriminate]. Qed.
(* the side condition on argument sorts is needed: the checker's same-type rules accept function types *)
Example tc_sound_refuted_function_argument :
  ctor_shape OEquals [TFun [TInt] TInt; TFun [TInt] TInt] /\
  tc_rule OEquals [TFun [TInt] TInt; TFun [TInt] TInt] = Some TBool /\
  ~ wt_rule OEquals [TFun [TInt] TInt; TFun [TInt] TInt] TBool.
Proof.
  split; [reflexivity|]. split; [reflexivity|]. intros H. inversion H; subst.
  match goal with Hf : fo (TFun _ _) |- _ => exact Hf end.
Qed.
Example rejected_example : ctor_shape OPow [TBV 8; TBV 8] /\ tc_rule OPow [TBV 8; TBV 8] = None.
Proof. split; reflexivity. Qed.
Example shaped_example : shaped (T OPlus [TIntC 1; TSym "x" TInt]) /\ tc (T OPlus [TIntC 1; TSym "x" TInt]) = Some TInt.
Proof.
  split; [|reflexivity].
  assert (L : forall o, (forall tys, tcs [] = Some tys -> ctor_shape o tys /\ Forall fo tys) -> shaped (T o [])).
  { intros o H. constructor; [constructor | exact H]. }
  constructor.
  - apply Forall_cons.
    + apply L. intros tys [= <-]. split; [exact Logic.I | constructor].
    + apply Forall_cons; [|apply Forall_nil]. apply L. intros tys [= <-]. split; [exact Logic.I | constructor].
  - intros tys [= <-]. split; [cbn; discriminate | repeat constructor].
Qed.
