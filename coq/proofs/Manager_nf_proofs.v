(* Constructor normal form as an INVARIANT of the Manager model: every node of the table of any
   state reached through the public constructors is a fixed point of its constructor's
   normalisation (nf_nodeb).  Consequences: normalize_copy for reachable source states,
   idempotence and round trip of normalize. *)
From Coq Require Import List ZArith Bool String Lia Arith Permutation.
From PySMT.core Require Import Syntax SyntaxLemmas PyPrims Manager.
From PySMT.models Require Import TypeChecker.
From PySMT.proofs Require Import Manager_proofs.
Import ListNotations.
Open Scope bool_scope.
Open Scope nat_scope.

(* ------------------------------------------------------------------ the requests of the public API *)
(* CNode o stands for the constructors that call create_node directly; the Python signatures fix
   their operators and arities.  (A raw create_node call can build anything: not a constructor.) *)
Definition plain_arity (o : op) : option nat :=
  match o with
  | OImplies | OIff | OMinus | OEquals | OLe | OLt | OSelect | OBVRel _ => Some 2
  | OIte | OStore => Some 3
  | OBVToNat => Some 1
  | OStr k => match k with
              | SLength | SToInt | SFromInt => Some 1
              | SContains | SPrefixOf | SSuffixOf | SCharAt => Some 2
              | SIndexOf | SReplace | SSubstr => Some 3
              | SConcat => None
              end
  | _ => None
  end.
Definition api_ctor (c : ctor) (nargs : nat) : bool :=
  match c with
  | CNode o => match plain_arity o with Some k => Nat.eqb k nargs | None => false end
  | CBvUn k => match k with BNot | BNeg => true | _ => false end
  | CBvBin k => match k with BXor | BSub | BUdiv | BUrem | BSdiv | BSrem | BLshl | BLshr | BAshr => true | _ => false end
  | CBvShiftInt k => match k with BLshl | BLshr | BAshr => true | _ => false end
  | CBvNary k => match k with BAnd | BOr | BAdd | BMul => true | _ => false end
  | _ => true
  end.
Definition api_req (r : request) : bool :=
  match r with RCtor c args _ => api_ctor c (List.length args) | _ => true end.

(* ------------------------------------------------------------------ the invariant *)
(* array values: the default first, then (index, value) pairs with pairwise different indexes and
   no value equal to the default *)
Fixpoint keys_of (l : list term) : list term := match l with k :: _ :: r => k :: keys_of r | _ => [] end.
Fixpoint vals_of (l : list term) : list term := match l with _ :: v :: r => v :: vals_of r | _ => [] end.
Fixpoint nodup_termb (l : list term) : bool :=
  match l with [] => true | x :: r => negb (existsb (term_eqb x) r) && nodup_termb r end.
Definition arr_nf (ts : list term) : bool :=
  match ts with
  | d :: rest => Nat.even (List.length rest) && nodup_termb (keys_of rest) && forallb t_const (keys_of rest)
                 && forallb (fun v => negb (term_eqb v d)) (vals_of rest)
  | [] => false
  end.
Definition nfx (o : op) (ts : list term) : bool :=
  match o with OArrayValue _ => arr_nf ts | _ => nf_nodeb o ts end.
Definition NF (s : state) : Prop :=
  forall i o args, node s i = Some (o, args) -> nfx o (map (unfold s) args) = true.
Definition G (s : state) : Prop := Inv s /\ NF s.

Lemma NF_table s1 s2 : table s1 = table s2 -> NF s1 -> NF s2.
Proof. intros E N i o args H. unfold node, unfold in *. rewrite <- E in *. apply (N i o args H). Qed.

Lemma node_args_valid s i o args : Inv s -> node s i = Some (o, args) -> Forall (valid (table s)) args.
Proof.
  intros I H. pose proof (wf_children _ _ _ _ (inv_wf _ I) H) as C. pose proof (node_tb_valid _ _ _ H) as V.
  eapply Forall_impl; [|exact C]. cbn. intros a Ha. destruct V. unfold valid. lia.
Qed.

Lemma init_G : G init.
Proof.
  split; [apply inv_init|]. intros i o args H. destruct i as [|[|[|k]]]; cbn in H; try discriminate.
  - inversion H; subst. reflexivity.
  - inversion H; subst. reflexivity.
  - destruct k; discriminate.
Qed.

Lemma create_node_NF o args s s' r : G s -> nfx o (map (unfold s) args) = true ->
  create_node (o, args) s = (s', r) -> G s' /\ ext s s'.
Proof.
  intros [I N] Hn H. destruct (create_node_spec _ _ _ _ I H) as (I' & X & _). split; [split; [exact I'|]|exact X].
  unfold create_node in H. destruct (forallb (valid_tb (table s)) (snd (o, args))) eqn:V; cbn [negb] in H.
  2:{ inversion H; subst. exact N. }
  assert (Va : Forall (valid (table s)) args).
  { apply Forall_forall. intros a Ha. apply valid_tb_iff. cbn in V. rewrite forallb_forall in V. auto. }
  destruct (find_index (o, args) (table s) 1); [inversion H; subst; exact N|].
  inversion H; subst. clear H. intros i o' args' Hi.
  set (s' := set_table s (table s ++ [(o, args)]) (S (next_id s))) in *.
  assert (X' : ext s s') by (exists [(o, args)]; reflexivity).
  destruct (Nat.le_gt_cases i (List.length (table s))) as [L|L].
  - assert (Vi : valid (table s) i).
    { apply node_tb_valid in Hi. unfold valid in *. destruct Hi. lia. }
    unfold node in Hi. cbn [table set_table s'] in Hi. rewrite node_tb_app in Hi by exact Vi.
    rewrite (map_unfold_ext s s'); auto; [apply (N i o' args' Hi)|]. eapply node_args_valid; eauto.
  - unfold node in Hi. cbn [table set_table s'] in Hi. destruct i as [|k]; [discriminate|]. cbn in Hi.
    rewrite nth_error_app2 in Hi by lia.
    destruct (k - List.length (table s)) as [|m] eqn:E; [|destruct m; discriminate]. cbn in Hi. inversion Hi; subst.
    rewrite (map_unfold_ext s s'); auto.
Qed.

Definition good (m : M id) : Prop :=
  forall s s' r, G s -> m s = (s', r) -> G s' /\ ext s s' /\ forall i, r = Ok i -> valid (table s') i.

Lemma create_node_good o args : (forall s, G s -> nfx o (map (unfold s) args) = true) -> good (create_node (o, args)).
Proof.
  intros Hn s s' r Gs H. destruct (create_node_NF _ _ _ _ _ Gs (Hn s Gs) H) as [G' X]. split; [exact G'|]. split; [exact X|].
  intros i ->. destruct (create_node_spec _ _ _ _ (proj1 Gs) H) as (_ & _ & N1 & _). eapply node_tb_valid. apply (N1 i eq_refl).
Qed.
Lemma fail_good e : good (fail e).
Proof. intros s s' r Gs H. inversion H; subst. split; [auto|]. split; [apply ext_refl|discriminate]. Qed.

(* ---- leaves *)
Lemma G_set_cache s s2 : G s -> Inv s2 -> table s2 = table s -> G s2.
Proof. intros [I N] I2 E. split; [exact I2|]. eapply NF_table; [symmetry; exact E|exact N]. Qed.

Lemma real_good v : good (real v).
Proof.
  intros s s' r Gs H. pose proof (real_pres v _ _ _ (proj1 Gs) H) as [I' X].
  assert (V : forall i, r = Ok i -> valid (table s') i).
  { intros i ->. destruct (real_node _ _ _ _ (proj1 Gs) H) as (_ & _ & n & d & _ & Nd). eapply node_tb_valid; eauto. }
  split; [|auto]. unfold real in H. destruct (real_val v) as [[n d]|e] eqn:Hv; [|inversion H; subst; exact Gs].
  destruct (cache_get v (real_c s)); [inversion H; subst; exact Gs|]. unfold bind in H.
  assert (Hn : nfx (ORealC n d) (map (unfold s) []) = true).
  { cbn. apply real_val_qnf in Hv. destruct Hv as [A B]. cbn in A, B.
    unfold frac_ok. apply andb_true_iff. split; [apply Z.eqb_eq; exact A|apply Z.ltb_lt; exact B]. }
  destruct (create_node (ORealC n d, []) s) as [s1 [i|e]] eqn:C; destruct (create_node_NF _ _ _ _ _ Gs Hn C) as [G1 _];
    inversion H; subst; [|exact G1]. eapply G_set_cache; eauto.
Qed.
Lemma int_good v : good (int v).
Proof.
  intros s s' r Gs H. pose proof (int_pres v _ _ _ (proj1 Gs) H) as [I' X].
  assert (V : forall i, r = Ok i -> valid (table s') i).
  { intros i ->. destruct (int_node _ _ _ _ (proj1 Gs) H) as (_ & _ & z & _ & Nd). eapply node_tb_valid; eauto. }
  split; [|auto]. unfold int in H. destruct v; try (inversion H; subst; exact Gs).
  destruct (cache_get (PyInt z) (int_c s)); [inversion H; subst; exact Gs|]. unfold bind in H.
  destruct (create_node (OIntC z, []) s) as [s1 [i|e]] eqn:C; destruct (create_node_NF (OIntC z) [] _ _ _ Gs eq_refl C) as [G1 _];
    inversion H; subst; [|exact G1]. eapply G_set_cache; eauto.
Qed.
Lemma str_good v : good (str v).
Proof.
  intros s s' r Gs H. pose proof (str_pres v _ _ _ (proj1 Gs) H) as [I' X].
  assert (V : forall i, r = Ok i -> valid (table s') i).
  { intros i ->. destruct (str_node _ _ _ _ (proj1 Gs) H) as (_ & _ & z & _ & Nd). eapply node_tb_valid; eauto. }
  split; [|auto]. unfold str in H. destruct (cache_get v (str_c s)); [inversion H; subst; exact Gs|].
  destruct v; try (inversion H; subst; exact Gs). unfold bind in H.
  destruct (create_node (OStrC s0, []) s) as [s1 [i|e]] eqn:C; destruct (create_node_NF (OStrC s0) [] _ _ _ Gs eq_refl C) as [G1 _];
    inversion H; subst; [|exact G1]. eapply G_set_cache; eauto.
Qed.
Lemma boolc_good v : good (boolc v).
Proof.
  intros s s' r Gs H. destruct v; cbn in H; inversion H; subst; (split; [exact Gs|]); (split; [apply ext_refl|]); try discriminate.
  intros i Hi. inversion Hi; subst. destruct b; eapply node_tb_valid; [apply (inv_true _ (proj1 Gs))|apply (inv_false _ (proj1 Gs))].
Qed.
Lemma bv_good v w : good (bv v w).
Proof.
  intros s s' r Gs H. pose proof (bv_pres v w _ _ _ (proj1 Gs) H) as [I' X].
  assert (V : forall i, r = Ok i -> valid (table s') i).
  { intros i ->. destruct (bv_node _ _ _ _ _ (proj1 Gs) H) as (_ & _ & z & w' & _ & Nd). eapply node_tb_valid; eauto. }
  split; [|auto].
  assert (K : forall z w0, (match w0 with
      | None => fail EVal
      | Some w => if (z <? 0)%Z then fail EVal
                  else if (if (w <? 0)%Z then (0 <? z)%Z else (Z.pow 2 w <=? z)%Z) then fail EVal
                  else create_node (OBVC z w, []) end) s = (s', r) -> G s').
  { intros z [w'|] K; [|inversion K; subst; exact Gs]. destruct (z <? 0)%Z; [inversion K; subst; exact Gs|].
    destruct (if (w' <? 0)%Z then (0 <? z)%Z else (2 ^ w' <=? z)%Z); [inversion K; subst; exact Gs|].
    destruct (create_node_NF (OBVC z w') [] _ _ _ Gs eq_refl K) as [G1 _]. exact G1. }
  unfold bv in H. destruct v as [z|h bits| |].
  - apply (K z w H).
  - destruct (int_of_bits bits) as [z|]; [|inversion H; subst; exact Gs]. destruct w as [w|]; [|apply (K z (Some (zlen bits)) H)].
    destruct (w =? zlen bits)%Z; [apply (K z (Some (zlen bits)) H)|inversion H; subst; exact Gs].
  - inversion H; subst; exact Gs.
  - destruct w; inversion H; subst; exact Gs.
Qed.
Lemma sbv_good v w : good (sbv v w).
Proof.
  unfold sbv. destruct v; try apply bv_good. destruct w as [w|]; [|apply fail_good].
  destruct (w <=? 0)%Z; [apply fail_good|].
  destruct ((z <? - 2 ^ (w - 1))%Z || (2 ^ (w - 1) - 1 <? z)%Z); [apply fail_good|].
  destruct (0 <=? z)%Z; apply bv_good.
Qed.
Lemma symbol_good n t : good (symbol n t).
Proof.
  intros s s' r Gs H. pose proof (symbol_pres n t _ _ _ (proj1 Gs) H) as [I' X].
  assert (V : forall i, r = Ok i -> valid (table s') i).
  { intros i ->. destruct (symbol_node _ _ _ _ _ (proj1 Gs) H) as (_ & _ & Nd). eapply node_tb_valid; eauto. }
  split; [|auto]. unfold symbol in H. destruct (sym_get n (symbols s)).
  - destruct (i_op (table s) i); try (inversion H; subst; exact Gs). destruct (ty_eqb t0 t); inversion H; subst; exact Gs.
  - destruct (String.eqb n ""); [inversion H; subst; exact Gs|]. unfold bind in H.
    destruct (create_node (OSymbol n t, []) s) as [s1 [i|e]] eqn:C; destruct (create_node_NF (OSymbol n t) [] _ _ _ Gs eq_refl C) as [G1 _];
      inversion H; subst; [|exact G1]. eapply G_set_cache; eauto.
Qed.
Lemma fresh_good t tmpl : good (new_fresh_symbol t tmpl).
Proof.
  intros s s' r Gs H. unfold new_fresh_symbol in H.
  destruct (match tmpl with Some ps => ps | None => ("FV"%string, ""%string) end) as [pre suf].
  apply symbol_good in H.
  - destruct H as (G' & [l X] & V). split; [exact G'|]. split; [exists l; exact X|exact V].
  - destruct Gs as [I N]. split; [apply Inv_set_fresh; exact I|]. eapply NF_table; [|exact N]. reflexivity.
Qed.

(* ------------------------------------------------------------------ plans *)
(* what is known about the tree of the node a sub-plan returns *)
Definition shape (s0 : state) (p : plan id) (t : term) : Prop :=
  match p with
  | PRet x => t = unfold s0 x
  | PNode o _ => exists args, t = T o args
  | PReal _ => exists n d, t = TRealC n d
  | PBV z w => t = TBVC z w
  | PErr _ => False
  end.
(* a plan whose every create_node builds a node in normal form, whatever its sub-plans return *)
Inductive plan_ok (s0 : state) : plan id -> Prop :=
| ok_ret x : valid (table s0) x -> plan_ok s0 (PRet x)
| ok_node o ps : Forall (plan_ok s0) ps -> (forall ts, Forall2 (shape s0) ps ts -> nfx o ts = true) -> plan_ok s0 (PNode o ps)
| ok_real v : plan_ok s0 (PReal v)
| ok_bv z w : plan_ok s0 (PBV z w)
| ok_err e : plan_ok s0 (PErr e).

Lemma exec_ok s0 : Inv s0 -> forall p, plan_ok s0 p -> forall s s' r, G s -> ext s0 s -> exec p s = (s', r) ->
  G s' /\ ext s s' /\ forall i, r = Ok i -> valid (table s') i /\ shape s0 p (unfold s' i).
Proof.
  intros I0. induction p as [x|o ps IH|v|z w|e] using plan_ind'; intros P s s' r Gs X0 H.
  - inversion P; subst. inversion H; subst. split; [exact Gs|]. split; [apply ext_refl|].
    intros i Hi. inversion Hi; subst. split; [eapply valid_ext; eauto|]. cbn. apply unfold_ext; auto.
  - inversion P as [|o' ps' Fok Hnf| | |]; subst. rewrite exec_node in H. unfold bind in H.
    assert (L : forall s s1 rl, G s -> ext s0 s -> exec_list ps s = (s1, rl) ->
                G s1 /\ ext s s1 /\ forall js, rl = Ok js -> Forall (valid (table s1)) js /\ Forall2 (shape s0) ps (map (unfold s1) js)).
    { clear H Hnf P. induction ps as [|p q IHq]; intros sa sb rl Ga Xa Hl.
      - inversion Hl; subst. split; [exact Ga|]. split; [apply ext_refl|]. intros js Hj. inversion Hj; subst. split; constructor.
      - inversion IH as [|? ? IHp IHr]; subst. inversion Fok as [|? ? Pp Pq]; subst.
        cbn [exec_list] in Hl. unfold bind in Hl. destruct (exec p sa) as [s1 [i|e]] eqn:Ep.
        + destruct (IHp Pp _ _ _ Ga Xa Ep) as (G1 & X1 & V1). destruct (V1 i eq_refl) as [Vi Si].
          destruct (exec_list q s1) as [s2 [js|e]] eqn:Eq.
          * destruct (IHq IHr Pq _ _ _ G1 (ext_trans _ _ _ Xa X1) Eq) as (G2 & X2 & V2). destruct (V2 js eq_refl) as [Vj Sj].
            inversion Hl; subst. split; [exact G2|]. split; [eapply ext_trans; eauto|]. intros js' Hj. inversion Hj; subst. split.
            -- constructor; [eapply valid_ext; eauto|exact Vj].
            -- cbn [map]. constructor; [|exact Sj]. rewrite (unfold_ext s1 sb); auto. apply (proj1 G1).
          * destruct (IHq IHr Pq _ _ _ G1 (ext_trans _ _ _ Xa X1) Eq) as (G2 & X2 & _).
            inversion Hl; subst. split; [exact G2|]. split; [eapply ext_trans; eauto|discriminate].
        + destruct (IHp Pp _ _ _ Ga Xa Ep) as (G1 & X1 & _). inversion Hl; subst. split; [exact G1|]. split; [exact X1|discriminate]. }
    destruct (exec_list ps s) as [s1 [js|e]] eqn:El.
    + destruct (L _ _ _ Gs X0 El) as (G1 & X1 & V1). destruct (V1 js eq_refl) as [Vj Sj].
      destruct (create_node_NF _ _ _ _ _ G1 (Hnf _ Sj) H) as [G' X']. split; [exact G'|]. split; [eapply ext_trans; eauto|].
      intros i ->. destruct (create_node_spec _ _ _ _ (proj1 G1) H) as (_ & _ & N1 & _). specialize (N1 i eq_refl).
      split; [eapply node_tb_valid; eauto|]. cbn. unfold unfold. rewrite (unfold_eq _ _ _ _ (inv_wf _ (proj1 G')) N1). eauto.
    + destruct (L _ _ _ Gs X0 El) as (G1 & X1 & _). inversion H; subst. split; [exact G1|]. split; [exact X1|discriminate].
  - cbn [exec] in H. destruct (real_good v _ _ _ Gs H) as (G' & X & V). split; [exact G'|]. split; [exact X|].
    intros i ->. split; [auto|]. destruct (real_node _ _ _ _ (proj1 Gs) H) as (_ & _ & n & d & _ & Nd).
    cbn. exists n, d. apply unfold_leaf; auto. apply (proj1 G').
  - cbn [exec] in H. destruct (bv_good _ _ _ _ _ Gs H) as (G' & X & V). split; [exact G'|]. split; [exact X|].
    intros i ->. split; [auto|]. destruct (bv_node _ _ _ _ _ (proj1 Gs) H) as (_ & _ & z' & w' & E & Nd). cbn in E. inversion E; subst.
    cbn. apply unfold_leaf; auto. apply (proj1 G').
  - inversion H; subst. split; [exact Gs|]. split; [apply ext_refl|discriminate].
Qed.

(* ------------------------------------------------------------------ one lemma per constructor *)
Ltac inv_shapes :=
  repeat match goal with
         | H : Forall2 _ [] _ |- _ => inversion H; subst; clear H
         | H : Forall2 _ (_ :: _) _ |- _ => inversion H; subst; clear H
         | H : shape _ (PRet _) _ |- _ => cbn [shape] in H; subst
         | H : shape _ (PNode _ _) _ |- _ => destruct H as [? ->]
         | H : shape _ (PReal _) _ |- _ => destruct H as (? & ? & ->)
         | H : shape _ (PBV _ _) _ |- _ => cbn [shape] in H; subst
         end.
Ltac getv :=
  repeat match goal with
         | V : Forall (valid _) (_ :: _) |- _ => inversion V; subst; clear V
         end.
Ltac pok :=
  lazymatch goal with
  | |- plan_ok _ (PRet _) => apply ok_ret; assumption
  | |- plan_ok _ (PReal _) => apply ok_real
  | |- plan_ok _ (PBV _ _) => apply ok_bv
  | |- plan_ok _ (PErr _) => apply ok_err
  | |- plan_ok _ (PNode _ _) => apply ok_node; [pokl | intros ts F; inv_shapes]
  end
with pokl :=
  lazymatch goal with
  | |- Forall _ [] => apply Forall_nil
  | |- Forall _ (_ :: _) => apply Forall_cons; [pok | pokl]
  end.

Lemma rets_ok s args : Forall (valid (table s)) args -> Forall (plan_ok s) (map PRet args).
Proof. induction 1; cbn; constructor; auto. apply ok_ret; auto. Qed.
Lemma rets_shape s args ts : Forall2 (shape s) (map PRet args) ts -> ts = map (unfold s) args.
Proof.
  revert ts. induction args as [|x r IH]; intros ts F; inversion F; subst; [reflexivity|].
  cbn. f_equal; auto.
Qed.
Lemma node_rets_ok s o args : Forall (valid (table s)) args -> nfx o (map (unfold s) args) = true ->
  plan_ok s (PNode o (map PRet args)).
Proof. intros V N. apply ok_node; [apply rets_ok; exact V|]. intros ts F. apply rets_shape in F. subst. exact N. Qed.

Lemma i_args_valid s a x r : Inv s -> i_args (table s) a = x :: r -> valid (table s) x.
Proof.
  intros I H. unfold i_args in H. destruct (node_tb (table s) a) as [[o args]|] eqn:E; [|discriminate]. subst.
  pose proof (node_args_valid s a o (x :: r) I E) as V. inversion V; auto.
Qed.

Lemma pow_plan_ok s ob oe : plan_ok s (@pow_plan id ob oe).
Proof.
  unfold pow_plan. destruct oe; try apply ok_err.
  - destruct den as [|[]|]; try apply ok_err. destruct ob; try apply ok_err.
    + destruct (fr_pow_int (num0, den) num) as [[]|]; [apply ok_real|apply ok_err].
    + destruct (0 <=? num)%Z; [apply ok_real|]. destruct (fr_pow_int (z, 1%Z) num) as [[]|]; [apply ok_real|apply ok_err].
  - destruct ob; try apply ok_err.
    + destruct (fr_pow_int (num, den) z) as [[]|]; [apply ok_real|apply ok_err].
    + destruct (0 <=? z)%Z; [apply ok_real|apply ok_err].
Qed.

Lemma sym_vars_nonempty (vop : id -> op) x r vs : sym_vars vop (x :: r) = Some vs -> exists v vr, vs = v :: vr.
Proof.
  cbn. destruct (vop x); try discriminate. destruct (sym_vars vop r); [|discriminate]. intros H. inversion H. eauto.
Qed.

Lemma bv_chain_ok s k w rest : forall acc,
  (match k with BNot | BNeg | BConcat | BComp => false | _ => true end) = true ->
  plan_ok s acc -> (forall t, shape s acc t -> t_bvw t = Some w) -> Forall (valid (table s)) rest ->
  plan_ok s (fold_left (fun acc x => PNode (OBV k w) [acc; R x]) rest acc).
Proof.
  induction rest as [|x r IH]; intros acc K P S V; [exact P|]. inversion V; subst. cbn [fold_left]. apply IH; auto.
  - unfold R. apply ok_node; [apply Forall_cons; [exact P|apply Forall_cons; [apply ok_ret; auto|apply Forall_nil]]|]. intros ts F. inv_shapes.
    match goal with H : shape s acc ?t |- _ => pose proof (S _ H) as W end.
    destruct k; try discriminate K; cbn; unfold bvw_is; rewrite W; apply Z.eqb_refl.
  - intros t [a ->]. reflexivity.
Qed.
Lemma concat_chain_ok s rest : forall acc wacc,
  plan_ok s acc -> (forall t, shape s acc t -> t_bvw t = Some wacc) -> Forall (valid (table s)) rest ->
  plan_ok s (concat_chain (i_bvw (table s)) acc wacc rest).
Proof.
  induction rest as [|e r IH]; intros acc wacc P S V; [exact P|]. inversion V; subst. cbn [concat_chain].
  destruct (i_bvw (table s) e) as [we|] eqn:We; [|apply ok_err]. apply IH; auto.
  - unfold R. apply ok_node; [apply Forall_cons; [exact P|apply Forall_cons; [apply ok_ret; auto|apply Forall_nil]]|]. intros ts F. inv_shapes.
    match goal with H : shape s acc ?t |- _ => pose proof (S _ H) as W end.
    cbn. rewrite W. unfold i_bvw in We. fold (unfold s e) in We. rewrite We. apply Z.eqb_refl.
  - intros t [a ->]. reflexivity.
Qed.

Ltac bw_case s a :=
  let W := fresh "W" in
  destruct (i_bvw (table s) a) as [?w|] eqn:W; [unfold i_bvw in W; fold (unfold s a) in W|apply ok_err].

Lemma ctor_plan_ok s c args zs : Inv s -> api_ctor c (List.length args) = true ->
  Forall (valid (table s)) args -> plan_ok s (i_plan (table s) c args zs).
Proof.
  intros I A V. unfold i_plan, ctor_plan, with_bw, R. destruct c.
  - (* CNode *)
    apply node_rets_ok; [exact V|]. cbn [api_ctor] in A.
    destruct o; cbn in A; try discriminate A;
      try (destruct k; cbn in A; try discriminate A);
      destruct args as [|x [|y [|z [|u r]]]]; cbn in A; try discriminate A; reflexivity.
  - (* CNot *)
    destruct args as [|a [|b r]]; try apply ok_err. getv.
    destruct (i_op (table s) a) eqn:O;
      try (pok; cbn; unfold i_op in O; fold (unfold s a) in O; rewrite O; reflexivity).
    destruct (i_args (table s) a) as [|x r] eqn:E; [apply ok_err|]. apply ok_ret. eapply i_args_valid; eauto.
  - (* CAnd *)
    destruct args as [|a [|b r]]; [pok; reflexivity|getv; pok|]. apply node_rets_ok; [exact V|reflexivity].
  - destruct args as [|a [|b r]]; [pok; reflexivity|getv; pok|]. apply node_rets_ok; [exact V|reflexivity].
  - destruct args as [|a [|b r]]; [apply ok_err|getv; pok|]. apply node_rets_ok; [exact V|reflexivity].
  - destruct args as [|a [|b r]]; [apply ok_err|getv; pok|]. apply node_rets_ok; [exact V|reflexivity].
  - (* CGE *) destruct args as [|a [|b [|? ?]]]; try apply ok_err. getv. pok. reflexivity.
  - destruct args as [|a [|b [|? ?]]]; try apply ok_err. getv. pok. reflexivity.
  - (* CNotEquals *) destruct args as [|a [|b [|? ?]]]; try apply ok_err. getv. pok; reflexivity.
  - destruct args as [|a [|b [|? ?]]]; try apply ok_err. getv. pok; reflexivity.
  - (* CEqualsOrIff *)
    destruct args as [|a [|b [|? ?]]]; try apply ok_err. getv.
    destruct (i_ty (table s) a) as [[]|]; try apply ok_err; pok; reflexivity.
  - (* CToReal *)
    destruct args as [|a [|? ?]]; try apply ok_err. getv.
    destruct (i_ty (table s) a) as [t|] eqn:Ty; [|apply ok_err]. unfold i_ty in Ty. fold (unfold s a) in Ty.
    destruct t; try apply ok_err; [|pok].
    destruct (i_op (table s) a) eqn:O; try apply ok_real;
      pok; cbn; rewrite Ty; unfold i_op in O; fold (unfold s a) in O; rewrite O; reflexivity.
  - (* CDiv *)
    destruct args as [|a [|b [|? ?]]]; try apply ok_err. getv.
    destruct (i_const (table s) b) eqn:Cb; unfold i_const in Cb; fold (unfold s b) in Cb.
    + destruct (i_op (table s) b) eqn:O; unfold i_op in O; fold (unfold s b) in O;
        try apply ok_err; try (pok; cbn; unfold div_ok; rewrite O; reflexivity).
      destruct (num =? 0)%Z eqn:Z0.
      * pok. cbn. unfold div_ok. rewrite O. exact Z0.
      * destruct (fr_norm den num). pok. reflexivity.
    + pok. cbn. unfold div_ok. destruct (top (unfold s b)) eqn:O; try reflexivity.
      * exfalso. destruct (unfold s b) as [o' l]. cbn in O. subst. discriminate Cb.
      * rewrite Cb. reflexivity.
  - (* CPow *)
    destruct args as [|b [|e [|? ?]]]; try apply ok_err. getv.
    destruct (negb (i_const (table s) e)); [apply ok_err|].
    destruct (i_const (table s) b) eqn:Cb; [apply pow_plan_ok|]. pok. cbn. unfold i_const in Cb. fold (unfold s b) in Cb. rewrite Cb. reflexivity.
  - (* CBvUn *)
    destruct args as [|a [|? ?]]; try apply ok_err. getv. bw_case s a.
    destruct k; try discriminate A; pok; cbn; unfold bvw_is; rewrite W; apply Z.eqb_refl.
  - (* CBvBin *)
    destruct args as [|a [|b [|? ?]]]; try apply ok_err. getv. bw_case s a.
    destruct k; try discriminate A; pok; cbn; unfold bvw_is; rewrite W; apply Z.eqb_refl.
  - (* CBvShiftInt *)
    destruct args as [|a [|? ?]]; try apply ok_err. destruct zs as [|z [|? ?]]; try apply ok_err. getv. bw_case s a.
    destruct k; try discriminate A; pok; cbn; unfold bvw_is; rewrite W; apply Z.eqb_refl.
  - (* CBvNary *)
    destruct args as [|a [|b r]]; [apply ok_err|getv; pok|]. inversion V as [|? ? Va Vr]; subst. bw_case s a.
    apply bv_chain_ok; auto.
    + destruct k; try discriminate A; reflexivity.
    + apply ok_ret; auto.
    + intros t St. cbn in St. subst. exact W.
  - (* CBvConcat *)
    destruct args as [|a [|b r]]; try apply ok_err. inversion V as [|? ? Va Vr]; subst. inversion Vr as [|? ? Vb Vr']; subst.
    bw_case s a. bw_case s b. apply concat_chain_ok; auto.
    + pok. cbn. rewrite W, W0. apply Z.eqb_refl.
    + intros t [l ->]. reflexivity.
  - (* CBvComp *) destruct args as [|a [|b [|? ?]]]; try apply ok_err. getv. pok. reflexivity.
  - destruct args as [|a [|b [|? ?]]]; try apply ok_err. getv. pok. reflexivity.
  - (* CBvExtract *)
    destruct args as [|a [|? ?]]; try apply ok_err. getv. bw_case s a.
    destruct (match zs with [] => Some (0%Z, (w - 1)%Z) | [s0] => Some (s0, (w - 1)%Z) | [s0; e] => Some (s0, e) | _ => None end) as [[s0 e]|]; [|apply ok_err].
    destruct ((s0 <=? e)%Z && (0 <=? s0)%Z && (e - s0 + 1 <=? w)%Z); [|apply ok_err]. pok. cbn. apply Z.eqb_refl.
  - (* CBvRol *)
    destruct args as [|a [|? ?]]; try apply ok_err. destruct zs as [|z [|? ?]]; try apply ok_err. getv. bw_case s a.
    pok. cbn. unfold bvw_is. rewrite W. apply Z.eqb_refl.
  - destruct args as [|a [|? ?]]; try apply ok_err. destruct zs as [|z [|? ?]]; try apply ok_err. getv. bw_case s a.
    pok. cbn. unfold bvw_is. rewrite W. apply Z.eqb_refl.
  - (* CBvZext *)
    destruct args as [|a [|? ?]]; try apply ok_err. destruct zs as [|z [|? ?]]; try apply ok_err. getv. bw_case s a.
    pok. cbn. rewrite W. apply Z.eqb_refl.
  - destruct args as [|a [|? ?]]; try apply ok_err. destruct zs as [|z [|? ?]]; try apply ok_err. getv. bw_case s a.
    pok. cbn. rewrite W. apply Z.eqb_refl.
  - (* CStrConcat *)
    destruct args as [|a [|b r]]; try apply ok_err. apply node_rets_ok; [exact V|reflexivity].
  - (* CFunction *)
    destruct args as [|f [|p ps]]; [apply ok_err|getv; pok|]. inversion V as [|? ? Vf Vp]; subst.
    destruct (i_op (table s) f); try apply ok_err. destruct t; try apply ok_err.
    destruct (Nat.eqb (List.length ps0) (List.length (p :: ps))); [|apply ok_err].
    apply node_rets_ok; [exact Vp|reflexivity].
  - (* CQuant *)
    destruct args as [|body [|v vs]]; [apply ok_err|getv; pok|]. inversion V as [|? ? Vb Vv]; subst.
    destruct (sym_vars (i_op (table s)) (v :: vs)) as [l|] eqn:SV; [|apply ok_err].
    destruct (sym_vars_nonempty _ _ _ _ SV) as (v0 & vr & ->).
    destruct univ; pok; reflexivity.
Qed.

Lemma ctor_call_good c args zs s s' r : G s -> api_ctor c (List.length args) = true ->
  Forall (valid (table s)) args -> ctor_call c args zs s = (s', r) ->
  G s' /\ ext s s' /\ forall i, r = Ok i -> valid (table s') i.
Proof.
  intros Gs A V H. unfold ctor_call in H.
  destruct (exec_ok s (proj1 Gs) _ (ctor_plan_ok s c args zs (proj1 Gs) A V) _ _ _ Gs (ext_refl s) H) as (G' & X & W).
  split; [exact G'|]. split; [exact X|]. intros i Hi. apply (W i Hi).
Qed.

(* ------------------------------------------------------------------ Array *)
Lemma assoc_set_keys k v l : map fst (assoc_set k v l) = if existsb (Nat.eqb k) (map fst l) then map fst l else map fst l ++ [k].
Proof.
  induction l as [|[k' v'] r IH]; cbn; [reflexivity|]. destruct (Nat.eqb k k') eqn:E; cbn.
  - apply Nat.eqb_eq in E. subst. reflexivity.
  - rewrite IH. destruct (existsb (Nat.eqb k) (map fst r)); reflexivity.
Qed.
Lemma assoc_set_nodup k v l : NoDup (map fst l) -> NoDup (map fst (assoc_set k v l)).
Proof.
  intros N. rewrite assoc_set_keys. destruct (existsb (Nat.eqb k) (map fst l)) eqn:E; [exact N|].
  apply NoDup_snoc; [exact N|]. intros Hin. assert (existsb (Nat.eqb k) (map fst l) = true); [|congruence].
  apply existsb_exists. exists k. split; [exact Hin|apply Nat.eqb_refl].
Qed.
Lemma assoc_set_in k v l x : In x (assoc_set k v l) -> x = (k, v) \/ In x l.
Proof.
  induction l as [|[k' v'] r IH]; cbn; [intuition|]. destruct (Nat.eqb k k'); cbn; [intuition|].
  intros [H|H]; [auto|]. destruct (IH H); auto.
Qed.
Lemma dict_nodup l : NoDup (map fst (dict_of_pairs l)).
Proof.
  unfold dict_of_pairs. assert (K : forall acc, NoDup (map fst acc) -> NoDup (map fst (fold_left (fun acc kv => assoc_set (fst kv) (snd kv) acc) l acc))).
  { induction l as [|[k v] r IH]; intros acc N; cbn; [exact N|]. apply IH. apply assoc_set_nodup; exact N. }
  apply K. constructor.
Qed.
Lemma dict_in l x : In x (dict_of_pairs l) -> In x l.
Proof.
  unfold dict_of_pairs. assert (K : forall acc, In x (fold_left (fun acc kv => assoc_set (fst kv) (snd kv) acc) l acc) -> In x acc \/ In x l).
  { induction l as [|[k v] r IH]; intros acc H; cbn in *; [auto|]. destruct (IH _ H) as [H1|H1]; [|auto].
    apply assoc_set_in in H1. destruct H1 as [->|H1]; auto. }
  intros H. destruct (K [] H) as [[]|]; auto.
Qed.
Lemma insert_by_perm addr kv l : Permutation (insert_by addr kv l) (kv :: l).
Proof.
  induction l as [|y r IH]; cbn; [reflexivity|]. destruct (addr (fst kv) <=? addr (fst y))%Z; [reflexivity|].
  rewrite IH. apply perm_swap.
Qed.
Lemma sort_by_perm addr l : Permutation (sort_by addr l) l.
Proof. unfold sort_by. induction l as [|y r IH]; cbn; [reflexivity|]. rewrite insert_by_perm. constructor. exact IH. Qed.
Lemma NoDup_map_filter {A B} (f : A -> B) p l : NoDup (map f l) -> NoDup (map f (filter p l)).
Proof.
  induction l as [|x r IH]; cbn; intros N; [constructor|]. inversion N; subst. destruct (p x); cbn; auto.
  constructor; auto. intros H. apply H1. apply in_map_iff in H. destruct H as (y & E & Hy). apply filter_In in Hy.
  rewrite <- E. apply in_map. tauto.
Qed.

Lemma keys_of_flatten s l : keys_of (map (unfold s) (flatten_pairs l)) = map (fun kv => unfold s (fst kv)) l.
Proof. induction l as [|[k v] r IH]; cbn; [reflexivity|]. now rewrite IH. Qed.
Lemma vals_of_flatten s l : vals_of (map (unfold s) (flatten_pairs l)) = map (fun kv => unfold s (snd kv)) l.
Proof. induction l as [|[k v] r IH]; cbn; [reflexivity|]. now rewrite IH. Qed.
Lemma flatten_even l : Nat.even (List.length (flatten_pairs l)) = true.
Proof. induction l as [|[k v] r IH]; cbn; [reflexivity|exact IH]. Qed.

Lemma term_eqb_unfold s i j : Inv s -> valid (table s) i -> valid (table s) j ->
  term_eqb (unfold s i) (unfold s j) = true -> i = j.
Proof. intros I Vi Vj H. apply term_eqb_eq in H. apply (unfold_inj _ (inv_wf _ I) (inv_nodup _ I)); auto. Qed.

Lemma nodup_terms s ids : Inv s -> NoDup ids -> Forall (valid (table s)) ids -> nodup_termb (map (unfold s) ids) = true.
Proof.
  intros I N V. induction N as [|x r Hx Hr IH]; [reflexivity|]. inversion V; subst. cbn. rewrite IH by auto. rewrite andb_true_r.
  apply negb_true_iff. destruct (existsb (term_eqb (unfold s x)) (map (unfold s) r)) eqn:E; [|reflexivity].
  exfalso. apply existsb_exists in E. destruct E as (t & Hin & He). apply in_map_iff in Hin. destruct Hin as (y & <- & Hy).
  apply Hx. rewrite Forall_forall in H2. rewrite (term_eqb_unfold s x y I H1 (H2 y Hy) He). exact Hy.
Qed.

Lemma array_args_nf s addr d pairs : Inv s -> valid (table s) d -> Forall (valid (table s)) (flatten_pairs pairs) ->
  forallb (fun kv => i_const (table s) (fst kv)) (dict_of_pairs pairs) = true ->
  arr_nf (map (unfold s) (array_args addr d pairs)) = true.
Proof.
  intros I Vd Vp C. unfold array_args. cbn [map arr_nf].
  set (F := filter (fun kv => negb (Nat.eqb (snd kv) d)) (sort_by addr (dict_of_pairs pairs))).
  assert (InF : forall kv, In kv F -> In kv (dict_of_pairs pairs) /\ snd kv <> d).
  { intros kv H. apply filter_In in H. destruct H as [H1 H2]. split.
    - eapply Permutation_in; [apply sort_by_perm|exact H1].
    - apply negb_true_iff, Nat.eqb_neq in H2. exact H2. }
  assert (Vkv : forall kv, In kv (dict_of_pairs pairs) -> valid (table s) (fst kv) /\ valid (table s) (snd kv)).
  { intros [k v] H. apply dict_in in H. rewrite Forall_forall in Vp. clear - H Vp.
    induction pairs as [|[k' v'] r IH]; [destruct H|]. cbn in Vp. destruct H as [E|H].
    - inversion E; subst. split; apply Vp; cbn; auto.
    - apply IH; [|exact H]. intros x Hx. apply Vp. auto. }
  rewrite map_length, flatten_even, keys_of_flatten, vals_of_flatten. cbn [andb].
  apply andb_true_iff. split; [apply andb_true_iff; split|].
  - rewrite <- (map_map fst (unfold s)). apply nodup_terms; auto.
    + unfold F. apply NoDup_map_filter. eapply Permutation_NoDup; [apply Permutation_map; symmetry; apply sort_by_perm|apply dict_nodup].
    + apply Forall_forall. intros k Hk. apply in_map_iff in Hk. destruct Hk as (kv & <- & Hkv). apply (Vkv kv). apply (InF kv Hkv).
  - apply forallb_forall. intros t Ht. apply in_map_iff in Ht. destruct Ht as (kv & <- & Hkv).
    rewrite forallb_forall in C. apply (C kv). apply (InF kv Hkv).
  - apply forallb_forall. intros t Ht. apply in_map_iff in Ht. destruct Ht as (kv & <- & Hkv).
    destruct (InF kv Hkv) as [Hd Hn]. apply negb_true_iff. destruct (term_eqb (unfold s (snd kv)) (unfold s d)) eqn:E; [|reflexivity].
    exfalso. apply Hn. apply (term_eqb_unfold s); auto. apply (Vkv kv Hd).
Qed.

Lemma array_good addr it d pairs s s' r : G s -> valid (table s) d -> Forall (valid (table s)) (flatten_pairs pairs) ->
  array addr it d pairs s = (s', r) -> G s' /\ ext s s' /\ forall i, r = Ok i -> valid (table s') i.
Proof.
  intros Gs Vd Vp H. unfold array in H.
  destruct (forallb (fun kv => i_const (table s) (fst kv)) (dict_of_pairs pairs)) eqn:C.
  - assert (Hn : nfx (OArrayValue it) (map (unfold s) (array_args addr d pairs)) = true) by (apply array_args_nf; auto; apply (proj1 Gs)).
    destruct (create_node_NF _ _ _ _ _ Gs Hn H) as [G' X]. split; [exact G'|]. split; [exact X|].
    intros i ->. destruct (create_node_spec _ _ _ _ (proj1 Gs) H) as (_ & _ & N1 & _). eapply node_tb_valid. apply (N1 i eq_refl).
  - inversion H; subst. split; [exact Gs|]. split; [apply ext_refl|discriminate].
Qed.

(* ------------------------------------------------------------------ normalize *)
Lemma norm_symbol_good n t : good (norm_symbol n t).
Proof. unfold norm_symbol, tnorm. apply symbol_good. Qed.
Lemma norm_vars_good vs : forall s s' r, G s -> norm_vars vs s = (s', r) ->
  G s' /\ ext s s' /\ forall js, r = Ok js -> Forall (valid (table s')) js.
Proof.
  induction vs as [|[n t] q IH]; intros s s' r Gs H.
  - inversion H; subst. split; [exact Gs|]. split; [apply ext_refl|]. intros js Hj. inversion Hj. constructor.
  - cbn [norm_vars] in H. unfold bind in H. destruct (norm_symbol n t s) as [s1 [i|e]] eqn:A.
    + destruct (norm_symbol_good n t _ _ _ Gs A) as (G1 & X1 & V1).
      destruct (norm_vars q s1) as [s2 [js|e]] eqn:B; destruct (IH _ _ _ G1 B) as (G2 & X2 & V2); inversion H; subst.
      * split; [exact G2|]. split; [eapply ext_trans; eauto|]. intros js' Hj. inversion Hj; subst.
        constructor; [eapply valid_ext; eauto|auto].
      * split; [exact G2|]. split; [eapply ext_trans; eauto|discriminate].
    + destruct (norm_symbol_good n t _ _ _ Gs A) as (G1 & X1 & _). inversion H; subst. split; [exact G1|]. split; [exact X1|discriminate].
Qed.

Lemma flatten_pairs_of_incl : forall (l : list id) x, In x (flatten_pairs (pairs_of l)) -> In x l.
Proof.
  fix IH 1. intros [|a [|b r]] x H; cbn in H.
  - destruct H.
  - destruct H.
  - destruct H as [<-|[<-|H]]; cbn; auto.
Qed.

Ltac rb_fail H Gs := inversion H; subst; split; [exact Gs | split; [apply ext_refl | discriminate]].
Ltac rb_valid := repeat (apply Forall_cons; [assumption|]); first [apply Forall_nil | assumption].
Ltac rb_cc H Gs := apply ctor_call_good in H; [exact H | exact Gs | reflexivity | rb_valid].
Ltac rb1 H Gs a := destruct a as [|?x ?r]; cbn [take1 take2 take3] in H; [rb_fail H Gs|getv; rb_cc H Gs].
Ltac rb2 H Gs a := destruct a as [|?x [|?y ?r]]; cbn [take1 take2 take3] in H; [rb_fail H Gs|rb_fail H Gs|getv; rb_cc H Gs].
Ltac rb3 H Gs a := destruct a as [|?x [|?y [|?z ?r]]]; cbn [take1 take2 take3] in H; [rb_fail H Gs|rb_fail H Gs|rb_fail H Gs|getv; rb_cc H Gs].

Lemma rebuild_good addr o a s s' r : G s -> Forall (valid (table s)) a -> rebuild addr o a s = (s', r) ->
  G s' /\ ext s s' /\ forall i, r = Ok i -> valid (table s') i.
Proof.
  intros Gs V H. destruct o; cbn [rebuild] in H;
    try (rb_cc H Gs); try (rb1 H Gs a); try (rb2 H Gs a); try (rb3 H Gs a).
  - (* OForall *)
    destruct a as [|b a']; cbn [take1] in H; [rb_fail H Gs|]. inversion V; subst. unfold bind in H.
    destruct (norm_vars vs s) as [s1 [qs|e]] eqn:A; destruct (norm_vars_good _ _ _ _ Gs A) as (G1 & X1 & V1).
    + apply ctor_call_good in H; [|exact G1|reflexivity|constructor; [eapply valid_ext; eauto|auto]].
      destruct H as (G' & X' & W). split; [exact G'|]. split; [eapply ext_trans; eauto|exact W].
    + inversion H; subst. split; [exact G1|]. split; [exact X1|discriminate].
  - destruct a as [|b a']; cbn [take1] in H; [rb_fail H Gs|]. inversion V; subst. unfold bind in H.
    destruct (norm_vars vs s) as [s1 [qs|e]] eqn:A; destruct (norm_vars_good _ _ _ _ Gs A) as (G1 & X1 & V1).
    + apply ctor_call_good in H; [|exact G1|reflexivity|constructor; [eapply valid_ext; eauto|auto]].
      destruct H as (G' & X' & W). split; [exact G'|]. split; [eapply ext_trans; eauto|exact W].
    + inversion H; subst. split; [exact G1|]. split; [exact X1|discriminate].
  - (* OSymbol *) apply (norm_symbol_good n t _ _ _ Gs H).
  - (* OFunction *)
    unfold bind in H. destruct (norm_symbol n t s) as [s1 [f|e]] eqn:A; destruct (norm_symbol_good n t _ _ _ Gs A) as (G1 & X1 & V1).
    + apply ctor_call_good in H; [|exact G1|reflexivity|constructor; [auto|eapply Forall_valid_ext; eauto]].
      destruct H as (G' & X' & W). split; [exact G'|]. split; [eapply ext_trans; eauto|exact W].
    + inversion H; subst. split; [exact G1|]. split; [exact X1|discriminate].
  - apply (real_good _ _ _ _ Gs H).
  - apply (boolc_good _ _ _ _ Gs H).
  - apply (int_good _ _ _ _ Gs H).
  - apply (str_good _ _ _ _ Gs H).
  - apply (bv_good _ _ _ _ _ Gs H).
  - (* OBV *) destruct k; try (rb1 H Gs a); try (rb2 H Gs a).
  - (* OStr *) destruct k; try (rb_cc H Gs); try (rb1 H Gs a); try (rb2 H Gs a); try (rb3 H Gs a).
  - (* OArrayValue *)
    unfold tnorm in H. destruct a as [|d rest]; [rb_fail H Gs|]. inversion V; subst.
    eapply array_good; eauto. apply Forall_forall. intros x Hx. apply flatten_pairs_of_incl in Hx.
    rewrite Forall_forall in H3. auto.
Qed.

Lemma norm_fuel_good addr src : forall f i s s' r, G s -> norm_fuel f addr src i s = (s', r) ->
  G s' /\ ext s s' /\ forall j, r = Ok j -> valid (table s') j.
Proof.
  induction f as [|f IH]; intros i s s' r Gs H; [rb_fail H Gs|].
  rewrite norm_fuel_S in H. destruct (node_tb src i) as [[o args]|]; [|rb_fail H Gs]. unfold bind in H.
  assert (L : forall l s0 s1 rl, G s0 -> norm_list f addr src l s0 = (s1, rl) ->
              G s1 /\ ext s0 s1 /\ forall js, rl = Ok js -> Forall (valid (table s1)) js).
  { induction l as [|x q IHq]; intros s0 s1 rl G0 Hl.
    - inversion Hl; subst. split; [exact G0|]. split; [apply ext_refl|]. intros js Hj. inversion Hj. constructor.
    - rewrite norm_list_cons in Hl. unfold bind in Hl.
      destruct (norm_list f addr src q s0) as [sa [rs|e]] eqn:A; destruct (IHq _ _ _ G0 A) as (Ga & Xa & Va).
      + destruct (norm_fuel f addr src x sa) as [sb [x'|e]] eqn:B; destruct (IH _ _ _ _ Ga B) as (Gb & Xb & Vb); inversion Hl; subst.
        * split; [exact Gb|]. split; [eapply ext_trans; eauto|]. intros js Hj. inversion Hj; subst.
          constructor; [auto|eapply Forall_valid_ext; eauto].
        * split; [exact Gb|]. split; [eapply ext_trans; eauto|discriminate].
      + inversion Hl; subst. split; [exact Ga|]. split; [exact Xa|discriminate]. }
  destruct (norm_list f addr src args s) as [s1 [a'|e]] eqn:A; destruct (L _ _ _ _ Gs A) as (G1 & X1 & V1).
  - destruct (rebuild_good _ _ _ _ _ _ G1 (V1 _ eq_refl) H) as (G' & X' & W).
    split; [exact G'|]. split; [eapply ext_trans; eauto|exact W].
  - inversion H; subst. split; [exact G1|]. split; [exact X1|discriminate].
Qed.

(* ------------------------------------------------------------------ requests, worlds *)
Lemma step_good addr srcs r s s' rp : G s -> api_req r = true -> step addr srcs s r = (s', rp) ->
  G s' /\ ext s s' /\ forall i, rp = Ok i -> valid (table s') i.
Proof.
  intros Gs A H. unfold step in H. destruct (forallb (valid_id s) (req_ids r)) eqn:Vq; cbn [negb] in H; [|rb_fail H Gs].
  assert (Vr : Forall (valid (table s)) (req_ids r)).
  { apply Forall_forall. intros x Hx. apply valid_tb_iff. rewrite forallb_forall in Vq. apply (Vq x Hx). }
  destruct r; cbn [req_ids api_req] in *.
  - eapply ctor_call_good; eauto.
  - eapply symbol_good; eauto.
  - eapply fresh_good; eauto.
  - eapply real_good; eauto.
  - eapply int_good; eauto.
  - eapply str_good; eauto.
  - eapply boolc_good; eauto.
  - eapply bv_good; eauto.
  - eapply sbv_good; eauto.
  - inversion Vr; subst. eapply array_good; eauto.
  - destruct (nth_error srcs src); [|rb_fail H Gs]. destruct ((1 <=? i) && (i <=? List.length l)); [|rb_fail H Gs].
    eapply norm_fuel_good; eauto.
Qed.

Definition WG (w : world) : Prop := Forall G w.
Lemma wstep_G addr w er w' rp : WG w -> api_req (snd er) = true -> wstep addr w er = (w', rp) -> WG w'.
Proof.
  intros Gw A H. destruct er as [e r]. unfold wstep in H.
  destruct (nth_error w e) as [s|] eqn:E; [|inversion H; subst; auto].
  destruct (step (addr e) (map table w) s r) as [s' rp'] eqn:S. inversion H; subst.
  apply set_nth_Forall; auto. eapply step_good; eauto.
  unfold WG in Gw. rewrite Forall_forall in Gw. apply Gw. eapply nth_error_In; eauto.
Qed.
Lemma wrun_G addr l : forall w w' rps, WG w -> forallb (fun er => api_req (snd er)) l = true -> wrun addr w l = (w', rps) -> WG w'.
Proof.
  induction l as [|er rest IH]; intros w w' rps Gw A H; cbn in H; [inversion H; subst; auto|].
  cbn in A. apply andb_true_iff in A. destruct A as [A1 A2].
  destruct (wstep addr w er) as [w1 rp] eqn:S. destruct (wrun addr w1 rest) as [w2 rps'] eqn:R.
  inversion H; subst. eapply IH; [|exact A2|eauto]. eapply wstep_G; eauto.
Qed.

(* states reached from fresh environments by any history of public-constructor requests *)
Definition reachable_api (s : state) : Prop :=
  exists addr n l w rps, forallb (fun er => api_req (snd er)) l = true /\ wrun addr (winit n) l = (w, rps) /\ In s w.
Lemma reachable_api_reachable s : reachable_api s -> reachable s.
Proof. intros (addr & n & l & w & rps & _ & H & Hin). exists addr, n, l, w, rps. auto. Qed.
Lemma reachable_api_G s : reachable_api s -> G s.
Proof.
  intros (addr & n & l & w & rps & A & H & Hin).
  assert (W0 : WG (winit n)). { unfold WG, winit. apply Forall_forall. intros x Hx. apply repeat_spec in Hx. subst. apply init_G. }
  pose proof (wrun_G _ _ _ _ _ W0 A H) as Gw. unfold WG in Gw. rewrite Forall_forall in Gw. auto.
Qed.

(* ------------------------------------------------------------------ theorems *)
Lemma array_free_node o ts : array_free (T o ts) = true ->
  nfx o ts = nf_nodeb o ts /\ forallb array_free ts = true.
Proof. cbn [array_free]. rewrite andb_true_iff. intros [A B]. split; [|exact B]. destruct o; try reflexivity. discriminate A. Qed.

Lemma G_copyable s : G s -> forall i, valid (table s) i -> array_free (unfold s i) = true -> copyable (unfold s i).
Proof.
  intros [I N]. induction i as [i IH] using lt_wf_ind. intros Vi A.
  destruct (valid_node_tb _ _ Vi) as [[o args] E]. unfold unfold in *. rewrite (unfold_eq _ _ _ _ (inv_wf _ I) E) in *.
  destruct (array_free_node _ _ A) as [En Af]. constructor.
  - rewrite <- En. apply (N i o args E).
  - apply Forall_forall. intros t Ht. apply in_map_iff in Ht. destruct Ht as (a & <- & Ha).
    pose proof (wf_children _ _ _ _ (inv_wf _ I) E) as C. rewrite Forall_forall in C. specialize (C a Ha).
    rewrite forallb_forall in Af. apply IH; [lia| destruct Vi; unfold valid; lia|]. apply Af. apply in_map. exact Ha.
Qed.

(* every array-value-free formula built through the public constructors, in any history, is a
   fixed point of the constructors' normalisations *)
Theorem constructor_nodes_copyable s i : reachable_api s -> valid (table s) i ->
  array_free (unfold s i) = true -> copyable (unfold s i).
Proof. intros R. apply G_copyable. apply reachable_api_G; exact R. Qed.

Lemma normalize_copy_inv addr s1 s2 i s2' j : Inv s1 -> Inv s2 ->
  normalize addr (table s1) i s2 = (s2', Ok j) -> copyable (unfold s1 i) ->
  unfold s2' j = unfold s1 i /\ valid (table s2') j /\ ext s2 s2' /\ Inv s2'.
Proof.
  intros I1 I2 H C. destruct (norm_copy addr (table s1) (inv_wf _ I1) _ _ _ _ _ I2 H C) as (I' & X & Vj & U). auto.
Qed.

(* normalize_copy with the hypothesis on the source turned into reachability *)
Theorem normalize_copy_reachable addr s1 s2 i s2' j : reachable_api s1 -> reachable s2 -> valid (table s1) i ->
  array_free (unfold s1 i) = true -> normalize addr (table s1) i s2 = (s2', Ok j) ->
  unfold s2' j = unfold s1 i /\
  (forall k, reach (table s2') j k -> valid (table s2') k) /\
  (forall k, valid (table s2) k -> unfold s2' k = unfold s2 k) /\ Inv s2'.
Proof.
  intros R1 R2 Vi A H. apply (normalize_copy addr s1 s2 i s2' j); auto.
  - apply reachable_api_reachable; exact R1.
  - apply constructor_nodes_copyable; auto.
Qed.

(* normalize is idempotent: copying the same formula again returns the same node *)
Theorem normalize_idempotent addr addr' s1 s2 i s2' j s2'' j' : reachable_api s1 -> reachable s2 -> valid (table s1) i ->
  array_free (unfold s1 i) = true ->
  normalize addr (table s1) i s2 = (s2', Ok j) -> normalize addr' (table s1) i s2' = (s2'', Ok j') -> j' = j.
Proof.
  intros R1 R2 Vi A H1 H2. pose proof (reachable_api_G _ R1) as [I1 _]. apply reachable_inv in R2.
  pose proof (constructor_nodes_copyable _ _ R1 Vi A) as C.
  destruct (normalize_copy_inv _ _ _ _ _ _ I1 R2 H1 C) as (U1 & V1 & X1 & I2').
  destruct (normalize_copy_inv _ _ _ _ _ _ I1 I2' H2 C) as (U2 & V2 & X2 & I2'').
  apply (unfold_inj _ (inv_wf _ I2'') (inv_nodup _ I2'')); auto; [eapply valid_ext; eauto|].
  fold (unfold s2'' j') (unfold s2'' j). rewrite U2, (unfold_ext s2' s2''); auto.
Qed.

(* round trip of contexts: the copy of the copy, taken back into the first environment, is the
   original node *)
Theorem normalize_round_trip addr addr' s1 s2 i s2' j s1' k : reachable_api s1 -> reachable s2 -> valid (table s1) i ->
  array_free (unfold s1 i) = true ->
  normalize addr (table s1) i s2 = (s2', Ok j) -> normalize addr' (table s2') j s1 = (s1', Ok k) -> k = i.
Proof.
  intros R1 R2 Vi A H1 H2. pose proof (reachable_api_G _ R1) as [I1 _]. apply reachable_inv in R2.
  pose proof (constructor_nodes_copyable _ _ R1 Vi A) as C.
  destruct (normalize_copy_inv _ _ _ _ _ _ I1 R2 H1 C) as (U1 & V1 & X1 & I2').
  assert (C' : copyable (unfold s2' j)) by (rewrite U1; exact C).
  destruct (normalize_copy_inv _ _ _ _ _ _ I2' I1 H2 C') as (U2 & V2 & X2 & I1').
  apply (unfold_inj _ (inv_wf _ I1') (inv_nodup _ I1')); auto; [eapply valid_ext; eauto|].
  fold (unfold s1' k) (unfold s1' i). rewrite U2, U1, (unfold_ext s1 s1'); auto.
Qed.

(* ================================================================== array values: the copy up to
   the order of the assignments *)
Fixpoint unpairs {A} (l : list (A * A)) : list A :=
  match l with [] => [] | (a, b) :: r => a :: b :: unpairs r end.
Lemma even_unpairs {A} : forall l : list A, Nat.even (List.length l) = true -> unpairs (pairs_of l) = l.
Proof.
  fix IH 1. intros [|a [|b r]] H; cbn in *; [reflexivity|discriminate|]. f_equal. f_equal. apply IH. exact H.
Qed.
Lemma pairs_unpairs {A} (p : list (A * A)) : pairs_of (unpairs p) = p.
Proof. induction p as [|[a b] r IH]; cbn; [reflexivity|]. now rewrite IH. Qed.
Lemma unpairs_even {A} (p : list (A * A)) : Nat.even (List.length (unpairs p)) = true.
Proof. induction p as [|[a b] r IH]; cbn; auto. Qed.
Lemma forallb_unpairs {A} (f : A -> bool) p : forallb f (unpairs p) = forallb (fun ab => f (fst ab) && f (snd ab)) p.
Proof. induction p as [|[a b] r IH]; cbn; [reflexivity|]. rewrite IH. now rewrite andb_assoc. Qed.
Lemma forallb_perm {A} (f : A -> bool) l1 l2 : Permutation l1 l2 -> forallb f l1 = forallb f l2.
Proof.
  induction 1 as [|x l l' P IH|x y l|l l' l'' P1 IH1 P2 IH2]; cbn.
  - reflexivity.
  - now rewrite IH.
  - rewrite !andb_assoc. f_equal. apply andb_comm.
  - congruence.
Qed.

(* t and t' differ at most in the order of the (index, value) pairs of array values *)
Inductive peq : term -> term -> Prop :=
| peq_refl t : peq t t
| peq_node o l1 l2 : Forall2 peq l1 l2 -> peq (T o l1) (T o l2)
| peq_arr it d p1 p2 : Permutation p1 p2 -> peq (T (OArrayValue it) (d :: unpairs p1)) (T (OArrayValue it) (d :: unpairs p2)).

Lemma peq_top t t' : peq t t' -> top t = top t'.
Proof. destruct 1; reflexivity. Qed.

Fixpoint allsome {A} (l : list (option A)) : option (list A) :=
  match l with
  | [] => Some []
  | x :: r => match x, allsome r with Some a, Some b => Some (a :: b) | _, _ => None end
  end.
Lemma tc_eq o args : tc (T o args) = match allsome (map tc args) with Some tys => tc_rule o tys | None => None end.
Proof.
  cbn [tc]. match goal with |- match ?g args with _ => _ end = _ => assert (E : g args = allsome (map tc args)) end.
  { induction args as [|x r IH]; [reflexivity|]. cbn [map allsome]. rewrite <- IH. reflexivity. }
  rewrite E. reflexivity.
Qed.

Definition pair_ok (it td : ty) (ab : term * term) : bool :=
  match tc (fst ab), tc (snd ab) with Some a, Some b => ty_eqb a it && ty_eqb b td | _, _ => false end.
Lemma arr_pairs_ok it td p :
  match allsome (map tc (unpairs p)) with Some rt => array_value_ok it td rt true | None => false end = forallb (pair_ok it td) p.
Proof.
  induction p as [|[a b] r IH]; [reflexivity|]. cbn [unpairs map allsome forallb]. unfold pair_ok at 1. cbn [fst snd].
  destruct (tc a) as [ta|]; [|reflexivity]. destruct (tc b) as [tb|]; [|reflexivity].
  destruct (allsome (map tc (unpairs r))) as [rt|]; cbn [array_value_ok negb].
  - rewrite <- IH. now rewrite andb_assoc.
  - rewrite <- IH. now rewrite !andb_false_r.
Qed.
Lemma tc_arr it d p : tc (T (OArrayValue it) (d :: unpairs p)) =
  match tc d with Some td => if forallb (pair_ok it td) p then Some (TArr it td) else None | None => None end.
Proof.
  rewrite tc_eq. cbn [map allsome]. destruct (tc d) as [td|]; [|reflexivity].
  rewrite <- (arr_pairs_ok it td p). destruct (allsome (map tc (unpairs p))) as [rt|]; reflexivity.
Qed.

Lemma peq_tc : forall t t', peq t t' -> tc t = tc t'.
Proof.
  induction t as [o l1 IH] using term_ind'. intros t' P. inversion P as [|o' l1' l2 F|it d p1 p2 Pm]; subst; [reflexivity| |].
  - rewrite !tc_eq. assert (E : map tc l1 = map tc l2); [|now rewrite E].
    clear P. revert l2 F. induction IH as [|x r Hx Hr IHr]; intros l2 F; inversion F; subst; [reflexivity|].
    cbn. f_equal; auto.
  - rewrite !tc_arr. destruct (tc d); [|reflexivity]. now rewrite (forallb_perm _ _ _ Pm).
Qed.
Lemma peq_const : forall t t', peq t t' -> t_const t = t_const t'.
Proof.
  induction t as [o l1 IH] using term_ind'. intros t' P. inversion P as [|o' l1' l2 F|it d p1 p2 Pm]; subst; [reflexivity| |].
  - destruct o; try reflexivity. cbn [t_const].
    clear P. revert l2 F. induction IH as [|x r Hx Hr IHr]; intros l2 F; inversion F; subst; [reflexivity|].
    cbn. f_equal; auto.
  - cbn [t_const forallb]. f_equal. rewrite !forallb_unpairs. apply forallb_perm. exact Pm.
Qed.
Lemma peq_bvw : forall t t', peq t t' -> t_bvw t = t_bvw t'.
Proof.
  induction t as [o l1 IH] using term_ind'. intros t' P. inversion P as [|o' l1' l2 F|it d p1 p2 Pm]; subst; [reflexivity| |reflexivity].
  destruct o; try reflexivity; cbn [t_bvw].
  - (* OIte *)
    inversion F as [|a b ra rb Pa Fa]; subst; [reflexivity|]. inversion Fa as [|a2 b2 ra2 rb2 Pa2 Fa2]; subst; [reflexivity|].
    inversion IH as [|? ? _ IH2]; subst. inversion IH2 as [|? ? IHa _]; subst. apply IHa. exact Pa2.
  - (* OSelect *)
    inversion F as [|a b ra rb Pa Fa]; subst; [reflexivity|]. rewrite (peq_tc _ _ Pa). reflexivity.
Qed.

Ltac peq_rw :=
  repeat match goal with
         | P : peq ?x ?x' |- _ =>
             rewrite ?(peq_top _ _ P), ?(peq_tc _ _ P), ?(peq_bvw _ _ P), ?(peq_const _ _ P); clear P
         end.
Lemma nf_peq o ts ts' : Forall2 peq ts ts' -> nf_nodeb o ts = nf_nodeb o ts'.
Proof.
  intros F. destruct F as [|x x' r r' Px F]; [reflexivity|].
  destruct F as [|y y' r r' Py F].
  { destruct o; try destruct k; cbn [nf_nodeb]; unfold bvw_is, div_ok; peq_rw; reflexivity. }
  destruct F as [|z z' r r' Pz F].
  { destruct o; try destruct k; cbn [nf_nodeb]; unfold bvw_is, div_ok; peq_rw; reflexivity. }
  destruct F as [|u u' r r' Pu F].
  { destruct o; try destruct k; cbn [nf_nodeb]; unfold bvw_is, div_ok; peq_rw; reflexivity. }
  destruct o; try destruct k; cbn [nf_nodeb]; unfold bvw_is, div_ok; peq_rw; reflexivity.
Qed.

(* all nodes in normal form (array values included) *)
Inductive cnf : term -> Prop :=
| cnf_node o args : nfx o args = true -> Forall cnf args -> cnf (T o args).
Lemma G_cnf s : G s -> forall i, valid (table s) i -> cnf (unfold s i).
Proof.
  intros [I N]. induction i as [i IH] using lt_wf_ind. intros Vi.
  destruct (valid_node_tb _ _ Vi) as [[o args] E]. unfold unfold in *. rewrite (unfold_eq _ _ _ _ (inv_wf _ I) E).
  constructor; [apply (N i o args E)|]. apply Forall_forall. intros t Ht. apply in_map_iff in Ht. destruct Ht as (a & <- & Ha).
  pose proof (wf_children _ _ _ _ (inv_wf _ I) E) as C. rewrite Forall_forall in C. specialize (C a Ha).
  apply IH; [lia|destruct Vi; unfold valid; lia].
Qed.
Lemma cnf_copyable t : cnf t -> array_free t = true -> copyable t.
Proof.
  induction t as [o args IH] using term_ind'. intros C A. inversion C as [o' args' N F]; subst.
  destruct (array_free_node _ _ A) as [En Af]. constructor; [rewrite <- En; exact N|].
  rewrite Forall_forall in *. rewrite forallb_forall in Af. intros t Ht. apply IH; auto.
Qed.

(* array values are flat: their default, indexes and values contain no array value *)
Fixpoint flat_arrays (t : term) : bool :=
  match t with
  | T o args => match o with OArrayValue _ => forallb array_free args | _ => forallb flat_arrays args end
  end.

(* the children list, exact version (array-free children) *)
Lemma norm_list_copy addr src : wf_tb src -> forall f l s s1 a', Inv s ->
  Forall copyable (map (unfold_tb src) l) -> norm_list f addr src l s = (s1, Ok a') ->
  Inv s1 /\ ext s s1 /\ Forall (valid (table s1)) a' /\ map (unfold s1) a' = map (unfold_tb src) l.
Proof.
  intros W f. induction l as [|x r IHr]; intros s0 s1 a' I0 Fc H.
  - inversion H; subst. split; [auto|]. split; [apply ext_refl|]. split; [constructor|reflexivity].
  - rewrite norm_list_cons in H. unfold bind in H.
    destruct (norm_list f addr src r s0) as [sr [rs|e]] eqn:Lr; [|discriminate].
    destruct (norm_fuel f addr src x sr) as [sx [x'|e]] eqn:Lx; [|discriminate]. inversion H; subst.
    cbn [map] in Fc. inversion Fc as [|? ? Cx Cr]; subst.
    destruct (IHr _ _ _ I0 Cr Lr) as (Ir & Xr & Vr & Mr).
    destruct (norm_copy addr src W _ _ _ _ _ Ir Lx Cx) as (Ix & Xx & Vx & Ux).
    split; [exact Ix|]. split; [eapply ext_trans; eauto|]. split.
    + constructor; [exact Vx|]. eapply Forall_valid_ext; eauto.
    + cbn [map]. rewrite Ux. f_equal. rewrite <- Mr. apply map_unfold_ext; auto.
Qed.

Lemma term_eqb_refl t : term_eqb t t = true.
Proof. now apply term_eqb_eq. Qed.
Lemma pairs_of_map {A B} (u : A -> B) : forall l, pairs_of (map u l) = map (fun kv => (u (fst kv), u (snd kv))) (pairs_of l).
Proof. fix IH 1. intros [|a [|b r]]; cbn; [reflexivity|reflexivity|]. f_equal. apply IH. Qed.
Lemma keys_of_pairs : forall l, keys_of l = map fst (pairs_of l).
Proof. fix IH 1. intros [|a [|b r]]; cbn; [reflexivity|reflexivity|]. f_equal. apply IH. Qed.
Lemma vals_of_pairs : forall l, vals_of l = map snd (pairs_of l).
Proof. fix IH 1. intros [|a [|b r]]; cbn; [reflexivity|reflexivity|]. f_equal. apply IH. Qed.
Lemma unpairs_map_flatten (u : id -> term) F :
  map u (flatten_pairs F) = unpairs (map (fun kv => (u (fst kv), u (snd kv))) F).
Proof. induction F as [|[k v] r IH]; cbn; [reflexivity|]. now rewrite IH. Qed.
Lemma nodup_termb_ids (u : id -> term) ids : nodup_termb (map u ids) = true -> NoDup ids.
Proof.
  induction ids as [|x r IH]; cbn; intros H; [constructor|]. apply andb_true_iff in H. destruct H as [H1 H2].
  constructor; [|auto]. intros Hin. apply negb_true_iff in H1.
  assert (existsb (term_eqb (u x)) (map u r) = true); [|congruence].
  apply existsb_exists. exists (u x). split; [apply in_map; exact Hin|apply term_eqb_refl].
Qed.
Lemma filter_all {A} (p : A -> bool) l : (forall x, In x l -> p x = true) -> filter p l = l.
Proof. induction l as [|x r IH]; cbn; intros H; [reflexivity|]. rewrite (H x (or_introl eq_refl)). f_equal. apply IH. auto. Qed.

(* the copy of a flat array value: same default, the same (index, value) pairs in the order of
   the target environment's addresses *)
Lemma array_copy_peq addr it s1 s' j d' rest' : Inv s1 -> Forall (valid (table s1)) (d' :: rest') ->
  arr_nf (map (unfold s1) (d' :: rest')) = true ->
  array addr it d' (pairs_of rest') s1 = (s', Ok j) ->
  Inv s' /\ ext s1 s' /\ valid (table s') j /\
  peq (T (OArrayValue it) (map (unfold s1) (d' :: rest'))) (unfold s' j).
Proof.
  intros I V N H. unfold array in H.
  destruct (forallb (fun kv => i_const (table s1) (fst kv)) (dict_of_pairs (pairs_of rest'))); [|discriminate].
  destruct (finish_ok _ _ _ _ _ I H) as (I' & X & Vj & U). split; [exact I'|]. split; [exact X|]. split; [exact Vj|].
  rewrite U. cbn [map arr_nf] in N |- *. apply andb_true_iff in N. destruct N as [N Nv]. apply andb_true_iff in N. destruct N as [N Nc].
  apply andb_true_iff in N. destruct N as [Ne Nk]. rewrite map_length in Ne.
  set (u := unfold s1) in *. set (P := pairs_of rest') in *.
  assert (ND : NoDup (map fst P)).
  { apply (nodup_termb_ids u). rewrite keys_of_pairs, pairs_of_map, map_map in Nk. cbn [fst] in Nk. rewrite <- map_map in Nk. exact Nk. }
  assert (Vd : forall kv, In kv P -> snd kv <> d').
  { intros kv Hkv E. rewrite vals_of_pairs, pairs_of_map, map_map in Nv. cbn [snd] in Nv. rewrite forallb_forall in Nv.
    specialize (Nv (u (snd kv)) (in_map (fun x => u (snd x)) _ _ Hkv)). rewrite E, term_eqb_refl in Nv. discriminate Nv. }
  unfold array_args. fold P. rewrite (dict_of_pairs_nodup P ND).
  rewrite (filter_all _ (sort_by addr P)).
  2:{ intros kv Hkv. apply negb_true_iff, Nat.eqb_neq. apply Vd. eapply Permutation_in; [apply sort_by_perm|exact Hkv]. }
  cbn [map]. rewrite unpairs_map_flatten.
  rewrite <- (even_unpairs (map u rest')) by (rewrite map_length; exact Ne). rewrite pairs_of_map. fold P.
  apply peq_arr. apply Permutation_map. symmetry. apply sort_by_perm.
Qed.

Lemma norm_peq addr src : wf_tb src -> forall f i s s' j, Inv s ->
  norm_fuel f addr src i s = (s', Ok j) -> cnf (unfold_tb src i) -> flat_arrays (unfold_tb src i) = true ->
  Inv s' /\ ext s s' /\ valid (table s') j /\ peq (unfold_tb src i) (unfold s' j).
Proof.
  intros W. induction f as [|f IH]; intros i s s' j I H C Fl; [discriminate|].
  rewrite norm_fuel_S in H. destruct (node_tb src i) as [[o args]|] eqn:E; [|discriminate].
  rewrite (unfold_eq _ _ _ _ W E) in *. inversion C as [o' args' N Fc]; subst.
  unfold bind in H. destruct (norm_list f addr src args s) as [s1 [a'|e]] eqn:L; [|discriminate].
  assert (isarr : {it | o = OArrayValue it} + {nfx o = nf_nodeb o /\ forall ts, flat_arrays (T o ts) = forallb flat_arrays ts}).
  { destruct o; try (right; split; reflexivity). left. eauto. }
  destruct isarr as [[it ->]|[En Ef]].
  - (* an array value: its children are array-value free, their copies are exact *)
    cbn [flat_arrays] in Fl.
    assert (Cc : Forall copyable (map (unfold_tb src) args)).
    { rewrite Forall_forall in *. rewrite forallb_forall in Fl. intros t Ht. apply cnf_copyable; auto. }
    destruct (norm_list_copy addr src W f _ _ _ _ I Cc L) as (I1 & X1 & V1 & M1).
    cbn [rebuild] in H. unfold tnorm in H. destruct a' as [|d' rest']; [discriminate|].
    cbn [nfx] in N. rewrite <- M1 in N.
    destruct (array_copy_peq _ _ _ _ _ _ _ I1 V1 N H) as (I' & X' & Vj & P).
    split; [exact I'|]. split; [eapply ext_trans; eauto|]. split; [exact Vj|]. rewrite <- M1. exact P.
  - rewrite Ef in Fl.
    assert (G0 : forall l s0 s1 a', Inv s0 -> Forall cnf (map (unfold_tb src) l) -> forallb flat_arrays (map (unfold_tb src) l) = true ->
               norm_list f addr src l s0 = (s1, Ok a') ->
               Inv s1 /\ ext s0 s1 /\ Forall (valid (table s1)) a' /\ Forall2 peq (map (unfold_tb src) l) (map (unfold s1) a')).
    { clear - IH. induction l as [|x r IHr]; intros s0 s1 a' I0 Fc Ff H.
      - inversion H; subst. split; [auto|]. split; [apply ext_refl|]. split; constructor.
      - rewrite norm_list_cons in H. unfold bind in H.
        destruct (norm_list f addr src r s0) as [sr [rs|e]] eqn:Lr; [|discriminate].
        destruct (norm_fuel f addr src x sr) as [sx [x'|e]] eqn:Lx; [|discriminate]. inversion H; subst.
        cbn [map forallb] in Fc, Ff. inversion Fc as [|? ? Cx Cr]; subst. apply andb_true_iff in Ff. destruct Ff as [Fx Fr].
        destruct (IHr _ _ _ I0 Cr Fr Lr) as (Ir & Xr & Vr & Mr).
        destruct (IH _ _ _ _ Ir Lx Cx Fx) as (Ix & Xx & Vx & Px).
        split; [exact Ix|]. split; [eapply ext_trans; eauto|]. split.
        + constructor; [exact Vx|]. eapply Forall_valid_ext; eauto.
        + cbn [map]. constructor; [exact Px|]. rewrite (map_unfold_ext sr _ rs Ir Xx Vr). exact Mr. }
    destruct (G0 _ _ _ _ I Fc Fl L) as (I1 & X1 & V1 & P1).
    rewrite En in N. rewrite (nf_peq _ _ _ P1) in N.
    destruct (rebuild_copy _ _ _ _ _ _ I1 V1 N H) as (I' & X' & Vj & U).
    split; [exact I'|]. split; [eapply ext_trans; eauto|]. split; [exact Vj|]. rewrite U. apply peq_node. exact P1.
Qed.

(* re-creating a formula with (flat) array values: the copy is the same tree up to the order of
   the assignments of its array values *)
Theorem normalize_copy_arrays addr s1 s2 i s2' j : reachable_api s1 -> reachable s2 -> valid (table s1) i ->
  flat_arrays (unfold s1 i) = true -> normalize addr (table s1) i s2 = (s2', Ok j) ->
  peq (unfold s1 i) (unfold s2' j) /\
  (forall k, reach (table s2') j k -> valid (table s2') k) /\
  (forall k, valid (table s2) k -> unfold s2' k = unfold s2 k) /\ Inv s2'.
Proof.
  intros R1 R2 Vi Fl H. pose proof (reachable_api_G _ R1) as G1. apply reachable_inv in R2.
  destruct (norm_peq addr (table s1) (inv_wf _ (proj1 G1)) _ _ _ _ _ R2 H (G_cnf _ G1 _ Vi) Fl) as (I' & X & Vj & P).
  split; [exact P|]. split; [|split; [|exact I']].
  - intros k Rk. eapply reach_valid; eauto. apply (inv_wf _ I').
  - intros k Vk. apply unfold_ext; auto.
Qed.

(* the witness of normalize_copy_array_order_refuted is such a pair *)
Example peq_array_order_example :
  peq (T (OArrayValue TInt) [TIntC 7; TIntC 1; TIntC 2; TIntC 2; TIntC 1])
      (T (OArrayValue TInt) [TIntC 7; TIntC 2; TIntC 1; TIntC 1; TIntC 2]) /\
  flat_arrays (T (OArrayValue TInt) [TIntC 7; TIntC 1; TIntC 2; TIntC 2; TIntC 1]) = true.
Proof.
  split; [|reflexivity].
  apply (peq_arr TInt (TIntC 7) [(TIntC 1, TIntC 2); (TIntC 2, TIntC 1)] [(TIntC 2, TIntC 1); (TIntC 1, TIntC 2)]). apply perm_swap.
Qed.
