(* C02, semantic clause, by composition:
     EagerModel.get_value = complete ; MGSubstituter.substitute ; simplify ; "is a constant?"
   - substituting a MODEL (symbols -> constants) into a term: [subst_const], proved here with the
     constructor lemmas of the C05 development (proofs/Substituter_proofs.v: mk_div_sem,
     eval_nonbinder, rebuild_fn_nil, lookup/sym_keys lemmas; [subst_eval_same] shows that on C05's
     fragment the value part is C05_subst_lemma_partial) - it gives totality, type preservation,
     closedness, the value, and the transfer of nodiv0 / div_safe;
   - simplify_sound / fold_complete (proofs/SimplifierSem_proofs.v, SimplifierFoldComplete_proofs.v, C01);
   - coincidence (proofs/Coincidence.v).
   Common fragment [gfrag]: quantifier-free, UF-free terms over
     And Or Not Implies Iff Ite Equals  Plus Times Minus LE LT Div ToReal
     bit-vector not neg and or xor add sub mul udiv urem sdiv srem shl lshr ashr concat comp,
     ult ule slt sle, bv2nat, the five kinds of constants, symbols of any inhabited first-order sort
   with the node conditions [okt] (= in_frag of C01) and [gfr] (those of C05's frag: n-ary nodes
   with >= 2 arguments, canonical Real constants, no negation directly under a negation or as a
   divisor).  Outside: Pow, bv extract / rotate / extend, strings, arrays, quantifiers, function
   applications. *)
From Coq Require Import List ZArith Bool String Reals Lia Lra.
From PySMT.core Require Import Syntax SyntaxLemmas PyPrims Types Sem.
From PySMT.models Require Import TypeChecker Oracles Ctors Substituter Simplifier EagerModel.
From PySMT.proofs Require Import Sets_proofs TypeChecker_proofs Coincidence Simplifier_proofs
     SimplifierSem_proofs SimplifierFoldComplete_proofs Substituter_proofs EagerModel_proofs.
Import ListNotations.
Open Scope bool_scope.

(* ------------------------------------------------------------------ vocabulary *)
Definition gop (o : op) : bool :=
  match o with
  | OAnd | OOr | ONot | OImplies | OIff | OIte | OEquals | OPlus | OTimes | OMinus | OLe | OLt | ODiv | OToReal
  | OBV _ _ | OBVRel _ | OBVToNat
  | OBoolC _ | OIntC _ | ORealC _ _ | OBVC _ _ | OStrC _ | OSymbol _ _ => true
  | _ => false
  end.
Fixpoint gops (t : term) : bool :=
  match t with T o args => gop o && (fix all (l : list term) : bool := match l with [] => true | x :: r => gops x && all r end) args end.
Lemma gops_unfold o args : gops (T o args) = gop o && forallb gops args.
Proof. reflexivity. Qed.
(* node conditions: those of the fragment of the C05 substitution lemma (Substituter_proofs.frag_op:
   And/Or/Plus/Times with >= 2 arguments, Not with one, canonical Real constants ...) plus ToReal *)
Definition gnode (o : op) (n : nat) : bool := match o with OToReal => Nat.eqb n 1 | _ => frag_op o n end.
Fixpoint gfr (t : term) : bool :=
  match t with
  | T o args =>
      gnode o (List.length args)
      && match o, args with ONot, [c] | ODiv, [_; c] => negb (is_not c) | _, _ => true end
      && (fix all (l : list term) : bool := match l with [] => true | x :: r => gfr x && all r end) args
  end.
Lemma gfr_args o args : gfr (T o args) = true -> Forall (fun a => gfr a = true) args.
Proof.
  cbn [gfr]. rewrite !andb_true_iff. intros [_ H]. induction args as [|x r IH]; constructor.
  - apply andb_true_iff in H. tauto.
  - apply IH. apply andb_true_iff in H. tauto.
Qed.
Lemma frag_gfr : forall t, frag t = true -> gfr t = true.
Proof.
  induction t as [o args IH] using term_ind'. intros H. pose proof (frag_args _ _ H) as F.
  cbn [frag] in H. rewrite !andb_true_iff in H. destruct H as [[H1 H2] _]. cbn [gfr].
  assert (G : gnode o (List.length args) = true) by (destruct o; try exact H1; discriminate H1).
  rewrite G, H2. cbn [andb]. clear - IH F. induction args as [|x r IHr]; [reflexivity|].
  inversion IH; inversion F; subst. rewrite H1 by auto. now apply IHr.
Qed.
Definition gfrag (t : term) : bool := gfr t && okt t && gops t.

(* a constant of sort ty, as the FormulaManager builds it *)
Definition const_of (ty : Syntax.ty) (v : term) : Prop := kconst v /\ okt v = true /\ tc v = Some ty.
(* a model: symbols to constants of their sort *)
Definition model_ok (m : smap) : Prop :=
  forall k v, In (k, v) m -> exists n ty, k = TSym n ty /\ const_of ty v.
(* the interpretation gives every assigned symbol the value of its constant *)
Definition agrees (I : interp) (m : smap) : Prop :=
  forall n ty v, lookup m (TSym n ty) = Some v -> isym I n ty = eval I v.
Definition covered (m : smap) (t : term) : Prop :=
  forall n ty, In (n, ty) (fv t) -> lookup m (TSym n ty) <> None.

(* ------------------------------------------------------------------ small facts *)
Lemma model_sym_keys m : model_ok m -> sym_keys m.
Proof. intros H k v Hin. destruct (H k v Hin) as (n & ty & -> & _). eauto. Qed.


Lemma kconst_shape c : kconst c -> exists o, c = T o [] /\ gop o = true /\ cop o = true /\ o <> ONot /\ is_sym_op o = false.
Proof.
  intros (o & -> & Ho). exists o. destruct o; try contradiction; repeat split; try reflexivity; discriminate.
Qed.

Lemma model_neg_values m : model_ok m -> neg_values_ok m.
Proof.
  intros H k v Hin. destruct (H k v Hin) as (n & ty & _ & K & O & _).
  destruct (kconst_shape v K) as (o & -> & _ & _ & Hn & _). split.
  - intros l [= -> _]. congruence.
  - intros n' d l [= -> <-]. split; auto. cbn in O. rewrite andb_true_r in O. apply andb_true_iff in O. destruct O as [O _]. apply Z.ltb_lt in O. lia.
Qed.
Lemma model_no_neg m : model_ok m -> no_neg_values m.
Proof.
  intros H k v Hin. destruct (H k v Hin) as (n & ty & _ & K & _).
  destruct (kconst_shape v K) as (o & -> & _ & _ & Hn & _). exact Hn.
Qed.

Lemma gops_args o args : gops (T o args) = true -> gop o = true /\ Forall (fun a => gops a = true) args.
Proof.
  rewrite gops_unfold. intros H. apply andb_true_iff in H. destruct H as [H1 H2]. split; auto.
  apply Forall_forall. now apply forallb_forall.
Qed.
(* no Pow in the fragment: C01's side condition of cfrag on exponents holds trivially *)
Lemma gops_pownn : forall t, gops t = true -> pownn t = true.
Proof.
  induction t as [o args IH] using term_ind'. intros H. destruct (gops_args _ _ H) as [Ho Fa].
  rewrite pownn_unfold. apply andb_true_iff. split.
  - destruct o; try discriminate Ho; reflexivity.
  - apply forallb_forall. intros a Ha. rewrite Forall_forall in IH, Fa. auto.
Qed.

Lemma gop_not_quant o : gop o = true -> is_quant o = None.
Proof. destruct o; try discriminate; reflexivity. Qed.

Lemma no_capture_gops s : forall t, gops t = true -> no_capture s t.
Proof.
  induction t as [o args IH] using term_ind'. intros H. apply gops_args in H. destruct H as [Ho Ha].
  cbn [no_capture]. rewrite (gop_not_quant o Ho).
  revert IH Ha. induction args as [|x r IHr]; intros IH Ha; [exact Logic.I|].
  inversion IH; inversion Ha; subst. split; [auto | apply IHr; auto].
Qed.

Lemma upd_same I s t : agrees I s -> eval (upd I s) t = eval I t.
Proof.
  intros H. apply coincidence_gen. split; [|split; [|split]]; try reflexivity.
  intros n ty _. cbn [upd isym]. destruct (lookup s (TSym n ty)) eqn:L; auto. symmetry. now apply H.
Qed.

Lemma gfrag_parts t : gfrag t = true -> gfr t = true /\ okt t = true /\ gops t = true.
Proof. unfold gfrag. rewrite !andb_true_iff. tauto. Qed.

(* the substitution lemma (C05) specialised to a model: the substituted term has the value of
   the original under every interpretation that agrees with the model *)
Lemma subst_eval_same I s t t' :
  model_ok s -> agrees I s -> frag t = true -> gops t = true -> wf_interp I ->
  subst_mgs_i [] s t = Some t' -> eval I t' = eval I t.
Proof.
  intros Hm Ha Hf Hg Hwf Hs.
  rewrite <- (upd_same I s t Ha).
  apply (subst_lemma_partial s t I t'); auto.
  - now apply model_sym_keys.
  - now apply model_neg_values.
  - now apply no_capture_gops.
  - now apply wf_bool_interp.
Qed.

(* ------------------------------------------------------------------ helpers for the structural part *)
Lemma omap_intro {A B} (f : A -> option B) l l' :
  Forall2 (fun a b => f a = Some b) l l' -> omap f l = Some l'.
Proof.
  induction 1 as [|a b r r' Ha Hr IH]; [reflexivity|]. cbn.
  change ((fix go (l : list A) : option (list B) :=
             match l with [] => Some [] | x :: r => match f x, go r with Some y, Some ys => Some (y :: ys) | _, _ => None end end) r)
    with (omap f r).
  now rewrite Ha, IH.
Qed.

Lemma Forall2_imp {A B} (P Q : A -> B -> Prop) : (forall a b, P a b -> Q a b) ->
  forall l l', Forall2 P l l' -> Forall2 Q l l'.
Proof. intros H l l' F. induction F; constructor; auto. Qed.

Lemma tcs_eq args args' : Forall2 (fun a a' => tc a' = tc a) args args' -> tcs args' = tcs args.
Proof. induction 1 as [|a a' r r' Ha Hr IH]; cbn; [reflexivity|]. now rewrite Ha, IH. Qed.

Lemma ok_node_len o args args' : gop o = true -> List.length args' = List.length args ->
  ok_node o args' = ok_node o args.
Proof. intros Hg Hl. destruct o; try discriminate Hg; cbn; rewrite ?Hl; reflexivity. Qed.

Lemma cop_of_gop o : gop o = true -> is_sym_op o = false -> cop o = true.
Proof. destruct o; try discriminate; reflexivity. Qed.

Definition is_const_op (o : op) : bool :=
  match o with OBoolC _ | OIntC _ | ORealC _ _ | OBVC _ _ | OStrC _ => true | _ => false end.

(* the width payload that the BV constructors recompute from their first operand(s) is the
   one the node already has (SimplifierSem_proofs.bv_width_ok) *)
Lemma bv_first_width k w a rest ty : k <> BConcat -> k <> BComp -> okt a = true ->
  tc (T (OBV k w) (a :: rest)) = Some ty -> bv_width a = w.
Proof.
  intros H1 H2 Oa Htc. destruct (tc_inv _ _ _ Htc) as (tys & Hs & Hr).
  cbn [tcs] in Hs. destruct (tc a) as [ta|] eqn:Ta; [|discriminate]. destruct (tcs rest); [|discriminate].
  injection Hs as <-.
  assert (E : ty_eqb ta (TBV w) = true).
  { destruct k; try congruence; cbn in Hr; destruct (ty_eqb ta (TBV w)); auto; discriminate. }
  apply ty_eqb_eq in E. subst ta. now apply bv_width_ok.
Qed.
Lemma bv_concat_width w a b ty : okt a = true -> okt b = true ->
  tc (T (OBV BConcat w) [a; b]) = Some ty -> (bv_width a + bv_width b = w)%Z.
Proof.
  intros Oa Ob Htc. destruct (tc_inv _ _ _ Htc) as (tys & Hs & Hr).
  cbn [tcs] in Hs. destruct (tc a) as [ta|] eqn:Ta; [|discriminate]. destruct (tc b) as [tb|] eqn:Tb; [|discriminate].
  injection Hs as <-. cbn in Hr. destruct ta; try discriminate. destruct tb; try discriminate.
  destruct (Z.eqb_spec (w0 + w1) w); [|discriminate].
  rewrite (bv_width_ok a w0 Oa Ta), (bv_width_ok b w1 Ob Tb). assumption.
Qed.

Lemma rebuild_generic o args ty :
  gop o = true -> is_sym_op o = false -> o <> ODiv ->
  frag_op o (List.length args) = true -> ok_node o args = true ->
  Forall (fun a => okt a = true) args -> tc (T o args) = Some ty ->
  (is_const_op o = true -> args = []) ->
  (forall c, o = ONot -> args = [c] -> top c <> ONot) ->
  rebuild o args = Some (T o args).
Proof.
  intros Hg Hs Hd Hf Hk Fo Htc Hc Hn.
  destruct o; try discriminate Hg; try discriminate Hs; try congruence.
  all: try (rewrite (Hc eq_refl) in *; clear Hc).
  all: try solve [args4 args; cbn in Hf, Hk |- *; try discriminate; reflexivity].
  - (* not *) args4 args; try discriminate Hf. cbn [rebuild]. unfold mk_not, is_not.
    specialize (Hn a eq_refl eq_refl). destruct (top a); try reflexivity. congruence.
  - (* real constant *) cbn [rebuild]. unfold mk_real. cbn [fst snd]. cbn [frag_op] in Hf.
    destruct (fr_norm num den) as [n' d'].
    apply andb_true_iff in Hf. destruct Hf as [Hf _]. apply andb_true_iff in Hf. destruct Hf as [E1 E2].
    apply Z.eqb_eq in E1. apply Z.eqb_eq in E2. now subst.
  - (* bv constant *) cbn [rebuild]. unfold mk_bv. cbn in Hk. rewrite !andb_true_iff in Hk.
    destruct Hk as [[_ H1] H2]. apply Z.leb_le in H1. apply Z.ltb_lt in H2.
    destruct (Z.ltb_spec v 0); [lia|]. destruct (Z.leb_spec (2 ^ w) v); [lia|]. reflexivity.
  - (* bv operators: the recomputed width is the node's width *)
    cbn [ok_node] in Hk. apply andb_true_iff in Hk. destruct Hk as [_ Hk].
    destruct k; args4 args; cbn in Hk; try discriminate Hk; cbn [rebuild is_bvun];
      unfold mk_bvun, mk_bvop, mk_bvconcat, mk_bvcomp; inversion Fo; subst;
      try (match goal with
           | |- Some (T (OBV ?k (bv_width ?x)) (?x :: ?r)) = _ =>
               assert (bv_width x = w) as -> by (apply (bv_first_width k w x r ty); [discriminate | discriminate | assumption | exact Htc]);
               reflexivity
           end).
    + (* concat *) inversion H2; subst. now rewrite (bv_concat_width w a b ty H1 H3 Htc).
    + (* comp *) apply Z.eqb_eq in Hk. now subst.
Qed.

Lemma nodiv0_intro I o args : o <> ODiv -> Forall (nodiv0 I) args -> nodiv0 I (T o args).
Proof.
  intros Ho F. cbn [nodiv0]. split.
  - destruct o; try exact Logic.I. congruence.
  - induction F; cbn; auto.
Qed.
Lemma nodiv0_all I args : Forall (nodiv0 I) args ->
  (fix all (l : list term) : Prop := match l with [] => True | x :: r => nodiv0 I x /\ all r end) args.
Proof. induction 1; cbn; auto. Qed.

Lemma ds_all I args : Forall (div_safe I) args <->
  (fix all (l : list term) : Prop := match l with [] => True | x :: r => div_safe I x /\ all r end) args.
Proof.
  induction args as [|x r IH]; split; intros H; auto.
  - inversion H; subst. split; auto. now apply IH.
  - destruct H. constructor; auto. now apply IH.
Qed.
Lemma ds_generic I o args : gop o = true -> o <> OIte -> o <> ODiv ->
  (div_safe I (T o args) <-> Forall (div_safe I) args).
Proof.
  intros Hg H1 H2. rewrite ds_all. destruct o; try discriminate Hg; try congruence; cbn [div_safe]; reflexivity.
Qed.

(* ------------------------------------------------------------------ substituting a model into a term of the fragment *)
Definition sres (s : smap) (t t' : term) : Prop :=
  subst_mgs_i [] s t = Some t' /\ okt t' = true /\ tc t' = tc t /\ gops t' = true /\
  (top t <> ONot -> top t' <> ONot) /\ (covered s t -> cops t' = true) /\
  (forall I, wf_interp I -> agrees I s ->
     eval I t' = eval I t /\ (nodiv0 I t -> nodiv0 I t') /\ (div_safe I t -> div_safe I t')).

Definition sres_stmt (t : term) : Prop :=
  forall s ty, model_ok s -> gfrag t = true -> tc t = Some ty -> exists t', sres s t t'.

Lemma children_sres s : model_ok s -> forall args tys,
  Forall sres_stmt args -> Forall (fun a => gfrag a = true) args ->
  Forall2 (fun a t => tc a = Some t) args tys -> exists args', Forall2 (sres s) args args'.
Proof.
  intros Hm args. induction args as [|a r IHr]; intros tys IH Fg Ft.
  - exists []. constructor.
  - inversion IH as [|? ? IHa IHr']; inversion Fg as [|? ? Ga Gr]; inversion Ft as [|? ta ? tr Ta Tr]; subst.
    destruct (IHa s ta Hm Ga Ta) as [a' Ha]. destruct (IHr tr IHr' Gr Tr) as [r' Hr].
    exists (a' :: r'). constructor; auto.
Qed.

Lemma const_sem_trivial I o : is_const_op o = true -> nodiv0 I (T o []) /\ div_safe I (T o []).
Proof. destruct o; try discriminate; intros _; cbn; auto. Qed.

Lemma mk_real_okt f : snd f <> 0%Z ->
  okt (mk_real f) = true /\ tc (mk_real f) = Some TReal /\ gops (mk_real f) = true /\ cops (mk_real f) = true /\
  (forall I, nodiv0 I (mk_real f) /\ div_safe I (mk_real f)).
Proof.
  intros H. unfold mk_real. pose proof (fr_norm_pos (fst f) (snd f) H) as P. pose proof (fr_norm_gcd (fst f) (snd f) H) as G.
  destruct (fr_norm (fst f) (snd f)) as [n d]. cbn [fst snd] in P, G. cbn.
  apply Z.ltb_lt in P. apply Z.eqb_eq in G. rewrite P, G. repeat split; auto.
Qed.

Theorem subst_const : forall t, sres_stmt t.
Proof.
  induction t as [o args IH] using term_ind'. intros s ty Hm Hg Htc.
  destruct (gfrag_parts _ Hg) as (Hf & Ho & Hgo).
  pose proof (gfr_args _ _ Hf) as Ff. pose proof (okt_args _ _ Ho) as Fo.
  destruct (gops_args _ _ Hgo) as [Hgop Fg].
  destruct (tc_inv _ _ _ Htc) as (tys & Htcs & Hrule). pose proof (tcs_Forall2 _ _ Htcs) as Ft.
  assert (Fgf : Forall (fun a => gfrag a = true) args).
  { rewrite Forall_forall in *. intros a Ha. unfold gfrag. now rewrite (Ff a Ha), (Fo a Ha), (Fg a Ha). }
  destruct (children_sres s Hm args tys IH Fgf Ft) as [args' Hch].
  assert (Ea : omap (subst_mgs_i [] s) args = Some args').
  { apply omap_intro. eapply Forall2_imp; [|exact Hch]. intros a a' H. exact (proj1 H). }
  pose proof (Forall2_length' _ _ _ Hch) as Hlen. symmetry in Hlen.
  assert (Fo' : Forall (fun a => okt a = true) args').
  { clear - Hch. induction Hch as [|a a' r r' H _ IHc]; constructor; auto. destruct H as (_ & H & _). exact H. }
  assert (Ft' : Forall2 (fun a a' => tc a' = tc a) args args').
  { eapply Forall2_imp; [|exact Hch]. intros a a' H. destruct H as (_ & _ & H & _). exact H. }
  assert (Fg' : Forall (fun a => gops a = true) args').
  { clear - Hch. induction Hch as [|a a' r r' H _ IHc]; constructor; auto. destruct H as (_ & _ & _ & H & _). exact H. }
  assert (Hq : is_quant o = None) by now apply gop_not_quant.
  cbn [gfr] in Hf. rewrite !andb_true_iff in Hf. destruct Hf as [[Hfo Hfx] _].
  pose proof (okt_node _ _ Ho) as Hk.
  assert (Hcargs : is_const_op o = true -> args = [] /\ args' = []).
  { intros Hc. assert (args = []).
    { destruct o; try discriminate Hc; cbn in Hrule; destruct tys; try discriminate; inversion Ft; reflexivity. }
    subst args. inversion Hch. auto. }
  destruct (is_sym_op o) eqn:Hs.
  - (* a symbol *)
    destruct o; try discriminate Hs. cbn in Hrule. destruct tys; [|discriminate]. inversion Ft; subst args.
    inversion Hch; subst args'. injection Hrule as <-.
    destruct (lookup s (T (OSymbol n t) [])) as [v|] eqn:L.
    + exists v. pose proof (lookup_In _ _ _ L) as Hin. destruct (Hm _ _ Hin) as (n' & ty' & E & K & Ov & Tv).
      inversion E; subst n' ty'. destruct (kconst_shape v K) as (ov & -> & G1 & C1 & N1 & _).
      assert (Hco : is_const_op ov = true).
      { destruct K as (o2 & E2 & H2). inversion E2; subst. destruct o2; try contradiction; reflexivity. }
      split; [cbn [subst_mgs_i is_quant omap]; now rewrite L|].
      split; [exact Ov|]. split; [rewrite Tv; reflexivity|]. split; [cbn; now rewrite G1|].
      split; [intros _; exact N1|]. split; [intros _; cbn; now rewrite C1|].
      intros I Hwf Hag. split; [symmetry; exact (Hag _ _ _ L)|].
      destruct (const_sem_trivial I ov Hco). split; auto.
    + exists (T (OSymbol n t) []).
      split; [cbn [subst_mgs_i is_quant omap]; rewrite L; reflexivity|].
      split; [exact Ho|]. split; [reflexivity|]. split; [exact Hgo|]. split; [auto|].
      split; [intros Hcov; exfalso; apply (Hcov n t); [cbn; auto | exact L]|].
      intros I _ _. auto.
  - (* an operator or a constant: never a key *)
    assert (L : lookup s (T o args) = None) by (apply lookup_not_sym; [now apply model_sym_keys | exact Hs]).
    assert (Hcov : covered s (T o args) -> Forall (covered s) args).
    { intros Hc. apply Forall_forall. intros a Ha n0 ty0 Hin. apply Hc.
      eapply fv_arg_incl; eauto. destruct o; try exact Logic.I; try discriminate Hs;
        try (destruct (Hcargs eq_refl) as [-> _]; contradiction); discriminate Hgop. }
    assert (Hcops : covered s (T o args) -> Forall (fun a => cops a = true) args').
    { intros Hc. specialize (Hcov Hc). clear - Hch Hcov.
      induction Hch as [|a a' r r' H _ IHc]; constructor; inversion Hcov; subst; auto.
      destruct H as (_ & _ & _ & _ & _ & H & _). auto. }
    assert (Hsem : forall I, wf_interp I -> agrees I s ->
               Forall2 (fun a a' => eval I a' = eval I a /\ (nodiv0 I a -> nodiv0 I a') /\ (div_safe I a -> div_safe I a')) args args').
    { intros I Hwf Hag. eapply Forall2_imp; [|exact Hch]. intros a a' H.
      destruct H as (_ & _ & _ & _ & _ & _ & H). now apply H. }
    assert (Hnd : forall I, wf_interp I -> agrees I s -> Forall (nodiv0 I) args -> Forall (nodiv0 I) args').
    { intros I Hwf Hag F. specialize (Hsem I Hwf Hag). clear - Hsem F.
      induction Hsem as [|a a' r r' H _ IHc]; constructor; inversion F; subst; auto. now apply H. }
    assert (Hds : forall I, wf_interp I -> agrees I s -> Forall (div_safe I) args -> Forall (div_safe I) args').
    { intros I Hwf Hag F. specialize (Hsem I Hwf Hag). clear - Hsem F.
      induction Hsem as [|a a' r r' H _ IHc]; constructor; inversion F; subst; auto. now apply H. }
    assert (Htcr : tc (T o args') = Some ty) by (rewrite tc_tcs, (tcs_eq _ _ Ft'), Htcs; exact Hrule).
    assert (Hokn : ok_node o args' = true) by (rewrite (ok_node_len o args args' Hgop Hlen); exact Hk).
    assert (Hmap : forall I, wf_interp I -> agrees I s -> map (eval I) args' = map (eval I) args).
    { intros I Hwf Hag. specialize (Hsem I Hwf Hag). clear - Hsem.
      induction Hsem as [|a a' r r' [E _] _ IHc]; cbn; congruence. }
    assert (Hns : forall n0 ty0, o <> OSymbol n0 ty0) by (intros n0 ty0 ->; discriminate Hs).
    assert (Hev : forall I, wf_interp I -> agrees I s -> eval I (T o args') = eval I (T o args)).
    { intros I Hwf Hag. apply eval_nonbinder; auto. }
    (* the node is rebuilt as it is *)
    assert (Hgen : o <> ODiv -> rebuild o args' = Some (T o args') -> exists t', sres s (T o args) t').
    { intros Hne Hrb. set (r := T o args').
      assert (Hsub : subst_mgs_i [] s (T o args) = Some r).
      { cbn [subst_mgs_i]. rewrite Hq, Ea, L, rebuild_fn_nil, Hrb. unfold checked, r. now rewrite Htcr. }
      exists r. split; [exact Hsub|]. split; [now apply okt_intro|]. split; [unfold r; congruence|].
      split; [unfold r; rewrite gops_unfold, Hgop; apply forallb_forall; now apply Forall_forall|].
      split; [intros Hn; exact Hn|].
      split.
      { intros Hc. unfold r. rewrite cops_unfold, (cop_of_gop o Hgop Hs). apply forallb_forall. apply Forall_forall. auto. }
      intros I Hwf Hag. split; [now apply Hev|]. split.
      * intros Hn. apply nodiv0_intro; auto. apply Hnd; auto. eapply nodiv0_args; eauto.
      * destruct (op_eqb o OIte) eqn:Hi.
        -- apply op_eqb_eq in Hi. subst o.
           destruct args as [|c [|a [|b [|? ?]]]]; try discriminate Hk.
           specialize (Hsem I Hwf Hag).
           inversion Hsem as [|? c' ? ? Sc S1]; subst. inversion S1 as [|? a' ? ? Sa S2]; subst.
           inversion S2 as [|? b' ? ? Sb S3]; subst. inversion S3; subst.
           destruct Sc as (Ec & _ & Dc). destruct Sa as (_ & _ & Da). destruct Sb as (_ & _ & Db).
           unfold r. cbn [div_safe]. intros [D1 D2]. split; auto. rewrite Ec. destruct (vbool (eval I c)); auto.
        -- assert (Hni : o <> OIte) by (intros ->; cbn in Hi; discriminate).
           intros D. apply (ds_generic I o args'); auto. apply Hds; auto. now apply (ds_generic I o args). }
    destruct (op_eqb o ODiv) eqn:Hd.
    + (* division: a non-zero Real constant divisor becomes a multiplication by its inverse *)
      apply op_eqb_eq in Hd. subst o.
      destruct args as [|a [|b [|? ?]]]; try discriminate Hk.
      inversion Hch as [|? a' ? r1 Ha Hr1]; subst. inversion Hr1 as [|? b' ? r2 Hb Hr2]; subst. inversion Hr2; subst.
      assert (Hsub0 : forall r, checked (mk_div a' b') = Some r -> subst_mgs_i [] s (T ODiv [a; b]) = Some r).
      { intros r Hr. cbn [subst_mgs_i is_quant]. rewrite Ea, L, rebuild_fn_nil. exact Hr. }
      assert (Hplain : mk_div a' b' = Some (T ODiv [a'; b']) -> exists t', sres s (T ODiv [a; b]) t').
      { intros Hmk. exists (T ODiv [a'; b']).
        assert (Hsub : subst_mgs_i [] s (T ODiv [a; b]) = Some (T ODiv [a'; b'])).
        { apply Hsub0. rewrite Hmk. unfold checked. now rewrite Htcr. }
        split; [exact Hsub|]. split; [now apply okt_intro|]. split; [congruence|].
        split; [rewrite gops_unfold; cbn [gop andb]; apply forallb_forall; now apply Forall_forall|].
        split; [intros _; cbn; discriminate|].
        split; [intros Hc; rewrite cops_unfold; cbn [cop andb]; apply forallb_forall; apply Forall_forall; auto|].
        intros I Hwf Hag.
        assert (Ev : eval I (T ODiv [a'; b']) = eval I (T ODiv [a; b])) by now apply Hev.
        split; [exact Ev|]. specialize (Hsem I Hwf Hag).
        inversion Hsem as [|? ? ? ? Sa Sr]; subst. inversion Sr as [|? ? ? ? Sb _]; subst.
        destruct Sa as (_ & Na & Da). destruct Sb as (Eb & Nb & Db). split.
        * intros [Hz Hall]. cbn in Hall. split; [rewrite Eb; exact Hz|]. cbn. tauto.
        * cbn [div_safe]. intros (D1 & D2 & D3). rewrite Eb. auto. }
      destruct (is_zero b') eqn:Hz; [apply Hplain; unfold mk_div; now rewrite Hz|].
      destruct b' as [ob bargs].
      assert (Hob : (forall n d, ob <> ORealC n d) -> exists t', sres s (T ODiv [a; b]) t').
      { intros Hno. apply Hplain. unfold mk_div. rewrite Hz. cbn [top]. destruct ob; try reflexivity. exfalso. eapply Hno; eauto. }
      destruct ob; try (apply Hob; intros; discriminate). clear Hob Hplain.
      (* Times(a', Real(1/c)) *)
      assert (Hnum : num <> 0%Z). { unfold is_zero in Hz. cbn [top] in Hz. now apply Z.eqb_neq. }
      set (inv := fr_norm den num).
      assert (Hmk : mk_div a' (T (ORealC num den) bargs) = Some (T OTimes [a'; mk_real inv])).
      { unfold mk_div. rewrite Hz. cbn [top]. unfold fr_div. cbn [fst snd].
        rewrite (proj2 (Z.eqb_neq num 0) Hnum). rewrite !Z.mul_1_l. reflexivity. }
      assert (Hinv : snd inv <> 0%Z).
      { pose proof (fr_norm_pos den num Hnum). unfold inv. lia. }
      destruct (mk_real_okt inv Hinv) as (Rok & Rtc & Rg & Rc & Rs).
      (* types: the divisor is a Real constant, so the division is over the reals *)
      destruct Hb as (_ & Ob & Tb & _). destruct Ha as (_ & Oa & Ta & Ga & _ & Ca & _).
      assert (Tb' : tc (T (ORealC num den) bargs) = Some TReal).
      { destruct (tc (T (ORealC num den) bargs)) as [tb|] eqn:E.
        - destruct (tc_inv _ _ _ E) as (tys' & _ & Hr'). cbn in Hr'. destruct tys'; [now inversion Hr' | discriminate].
        - inversion Ft as [|? ? ? ? _ Ft2]; subst. inversion Ft2 as [|? ? ? ? Tb2 _]; subst. congruence. }
      assert (Ta' : tc a' = Some TReal /\ ty = TReal).
      { inversion Ft as [|? ta ? ? Ta1 Ft2]; subst. inversion Ft2 as [|? tb ? ? Tb1 Ft3]; subst. inversion Ft3; subst.
        rewrite Tb1 in Tb. rewrite Tb' in Tb. injection Tb as <-.
        cbn in Hrule. unfold type_to_type in Hrule. cbn in Hrule.
        destruct ta; cbn in Hrule; try discriminate. split; [congruence | now inversion Hrule]. }
      destruct Ta' as [Ta' ->].
      set (r := T OTimes [a'; mk_real inv]).
      assert (Tr : tc r = Some TReal).
      { unfold r. rewrite tc_tcs. cbn [tcs]. now rewrite Ta', Rtc. }
      assert (Hsub : subst_mgs_i [] s (T ODiv [a; b]) = Some r).
      { apply Hsub0. rewrite Hmk. unfold checked. fold r. now rewrite Tr. }
      exists r. split; [exact Hsub|].
      split; [unfold r; apply okt_intro; [reflexivity | repeat constructor; auto]|].
      split; [congruence|].
      split; [unfold r; rewrite gops_unfold; cbn [gop andb forallb]; now rewrite Ga, Rg|].
      split; [intros _; cbn; discriminate|].
      split.
      { intros Hc. specialize (Hcov Hc). inversion Hcov; subst.
        unfold r. rewrite cops_unfold. cbn [cop andb forallb]. rewrite Ca by auto. now rewrite Rc. }
      assert (Hrc : realc_ok (T (ORealC num den) bargs)).
      { intros n0 d0 l0 E0. injection E0 as <- <- <-. split.
        - destruct (tc_inv _ _ _ Tb') as (tys' & Hs' & Hr'). cbn in Hr'. destruct tys'; [|discriminate].
          destruct bargs as [|x xs]; [reflexivity|]. cbn in Hs'. destruct (tc x); [|discriminate]. destruct (tcs xs); discriminate.
        - apply okt_node in Ob. cbn in Ob. apply andb_true_iff in Ob. destruct Ob as [Ob _]. apply Z.ltb_lt in Ob. lia. }
      intros I Hwf Hag.
      split; [unfold r; rewrite (mk_div_sem I a' _ _ Hrc Hmk); now apply Hev|].
      specialize (Hsem I Hwf Hag). inversion Hsem as [|? ? ? ? Sa _]; subst. destruct Sa as (_ & Na & Da).
      destruct (Rs I) as [R1 R2]. split.
      * intros [_ Hall]. cbn in Hall. unfold r. cbn. tauto.
      * cbn [div_safe]. intros (D1 & _). unfold r. cbn [div_safe]. tauto.
    + assert (Hne : o <> ODiv) by (intros ->; cbn in Hd; discriminate).
      destruct (op_eqb o OToReal) eqn:Htr.
      * (* ToReal: an Int constant becomes a Real constant *)
        apply op_eqb_eq in Htr. subst o.
        destruct args as [|a [|? ?]]; try discriminate Hk.
        inversion Hch as [|? a' ? ? Ha Hr1]; subst. inversion Hr1; subst.
        destruct Ha as (_ & Oa & Ta & Ga & _ & Ca & _).
        inversion Ft as [|? ta ? ? Ta1 Ft2]; subst. inversion Ft2; subst.
        cbn in Hrule. unfold type_to_type in Hrule. cbn in Hrule.
        destruct ta; cbn in Hrule; try discriminate. injection Hrule as <-.
        assert (Ta' : tc a' = Some TInt) by congruence.
        destruct a' as [oa la].
        destruct (match oa with OIntC _ => true | _ => false end) eqn:Hic.
        -- destruct oa; try discriminate Hic.
           assert (la = []).
           { destruct (tc_inv _ _ _ Ta') as (tys' & Hs' & Hr'). cbn in Hr'. destruct tys'; [|discriminate].
             destruct la as [|x xs]; [reflexivity|]. cbn in Hs'. destruct (tc x); [|discriminate]. destruct (tcs xs); discriminate. }
           subst la. set (r := mk_real (z, 1%Z)).
           assert (Hone : snd (z, 1%Z) <> 0%Z) by (cbn; lia).
           destruct (mk_real_okt (z, 1%Z) Hone) as (Rok & Rtc & Rg & Rc & Rs).
           assert (Hsub : subst_mgs_i [] s (T OToReal [a]) = Some r).
           { cbn [subst_mgs_i is_quant]. rewrite Ea, L, rebuild_fn_nil. cbn [rebuild]. unfold mk_toreal. rewrite Ta'.
             cbn [top]. unfold checked. now rewrite Rtc. }
           exists r. split; [exact Hsub|]. split; [exact Rok|]. split; [unfold r; rewrite Rtc; symmetry; exact Htc|]. split; [exact Rg|].
           split; [intros _; unfold r, mk_real; cbn [fst snd]; destruct (fr_norm z 1); cbn; discriminate|].
           split; [intros _; exact Rc|].
           intros I Hwf Hag. destruct (Rs I) as [R1 R2]. split; [|split; auto].
           specialize (Hmap I Hwf Hag). cbn [map] in Hmap. injection Hmap as Hm1.
           cbn [eval map]. rewrite <- Hm1. unfold r, mk_real. cbn [fst snd]. rewrite fr_norm_int.
           cbn. f_equal. unfold Q2R'. field.
        -- apply Hgen; auto. cbn [rebuild]. unfold mk_toreal. rewrite Ta'. cbn [top].
           destruct oa; try reflexivity. discriminate Hic.
      * (* every other operator is rebuilt as it is *)
        assert (Hfo' : frag_op o (List.length args) = true).
        { destruct o; try exact Hfo. cbn in Htr. discriminate. }
        apply Hgen; auto. apply (rebuild_generic o args' ty); auto.
        -- now rewrite Hlen.
        -- intros Hc. now destruct (Hcargs Hc).
        -- intros c' -> Eargs. subst args'. destruct args as [|c [|? ?]]; try discriminate Hlen.
           inversion Hch as [|? ? ? ? Hc _]; subst. destruct Hc as (_ & _ & _ & _ & Hh & _). apply Hh.
           cbn in Hfx. apply negb_true_iff in Hfx. intros Et. unfold is_not in Hfx. now rewrite Et in Hfx.
Qed.

(* ------------------------------------------------------------------ model completion *)
Lemma term_eqb_sym a b : term_eqb a b = term_eqb b a.
Proof.
  destruct (term_eqb a b) eqn:E1, (term_eqb b a) eqn:E2; auto.
  - apply term_eqb_eq in E1. subst. now rewrite (proj2 (term_eqb_eq b b) eq_refl) in E2.
  - apply term_eqb_eq in E2. subst. now rewrite (proj2 (term_eqb_eq a a) eq_refl) in E1.
Qed.

Lemma assigned_lookup m s : assigned m s = false <-> lookup m s = None.
Proof.
  unfold assigned, lookup. induction m as [|[k v] r IH]; cbn [existsb assoc_get fst]; [tauto|].
  rewrite (term_eqb_sym k s). destruct (term_eqb s k); cbn [orb]; [split; discriminate | exact IH].
Qed.

Lemma lookup_app m l k : lookup (m ++ l) k = match lookup m k with Some v => Some v | None => lookup l k end.
Proof.
  unfold lookup. induction m as [|[k' v'] r IH]; cbn [app assoc_get]; [reflexivity|].
  destruct (term_eqb k k'); auto.
Qed.

Lemma lookup_single s d k v : lookup [(s, d)] k = Some v -> k = s /\ v = d.
Proof.
  unfold lookup. cbn [assoc_get]. destruct (term_eqb k s) eqn:E; [|discriminate].
  apply term_eqb_eq in E. intros [= <-]. auto.
Qed.

Lemma complete_spec : forall syms m m', complete m syms = Some m' ->
  (forall k v, lookup m k = Some v -> lookup m' k = Some v) /\
  (forall n t, In (n, t) syms -> lookup m' (TSym n t) <> None) /\
  (forall k v, lookup m' k = Some v ->
     lookup m k = Some v \/
     (lookup m k = None /\ exists n t, k = TSym n t /\ In (n, t) syms /\ default_value t = Some v)) /\
  (forall k v, In (k, v) m' ->
     In (k, v) m \/ exists n t, k = TSym n t /\ In (n, t) syms /\ default_value t = Some v).
Proof.
  induction syms as [|[n0 t0] r IH]; intros m m' H.
  - cbn in H. injection H as <-. repeat split; auto; try (intros n t []).
  - cbn [complete] in H. destruct (assigned m (TSym n0 t0)) eqn:A.
    + destruct (IH _ _ H) as (I1 & I2 & I3 & I4). split; [exact I1|]. split; [|split].
      * intros n t [E|Hin]; [|now apply I2]. injection E as -> ->.
        destruct (lookup m (TSym n t)) as [v|] eqn:L.
        -- rewrite (I1 _ _ L). discriminate.
        -- apply assigned_lookup in L. congruence.
      * intros k v L. destruct (I3 _ _ L) as [|(L0 & n & t & E & Hin & D)]; auto.
        right. split; auto. exists n, t. cbn. auto.
      * intros k v Hin. destruct (I4 _ _ Hin) as [|(n & t & E & Hi & D)]; auto.
        right. exists n, t. cbn. auto.
    + apply assigned_lookup in A.
      destruct (default_value t0) as [d|] eqn:D; [|discriminate].
      destruct (IH _ _ H) as (I1 & I2 & I3 & I4). split; [|split; [|split]].
      * intros k v L. apply I1. rewrite lookup_app, L. reflexivity.
      * intros n t [E|Hin]; [|now apply I2]. injection E as -> ->.
        assert (L1 : lookup (m ++ [(TSym n t, d)]) (TSym n t) = Some d).
        { rewrite lookup_app, A. unfold lookup. cbn [assoc_get]. now rewrite (proj2 (term_eqb_eq _ _) eq_refl). }
        rewrite (I1 _ _ L1). discriminate.
      * intros k v L. destruct (I3 _ _ L) as [L1|(L0 & n & t & E & Hin & Dv)].
        -- rewrite lookup_app in L1. destruct (lookup m k) eqn:Lm; [left; exact L1|].
           apply lookup_single in L1. destruct L1 as [-> ->]. right. split; auto.
           exists n0, t0. cbn. auto.
        -- rewrite lookup_app in L0. destruct (lookup m k) eqn:Lm; [discriminate|].
           right. split; auto. exists n, t. cbn. auto.
      * intros k v Hin. destruct (I4 _ _ Hin) as [Hi|(n & t & E & Hi & Dv)].
        -- apply in_app_or in Hi. destruct Hi as [|[[= <- <-]|[]]]; auto.
           right. exists n0, t0. cbn. auto.
        -- right. exists n, t. cbn. auto.
Qed.

Lemma complete_total : forall syms m,
  (forall n t, In (n, t) syms -> lookup m (TSym n t) = None -> default_value t <> None) ->
  exists m', complete m syms = Some m'.
Proof.
  induction syms as [|[n0 t0] r IH]; intros m H; [eexists; reflexivity|].
  cbn [complete]. destruct (assigned m (TSym n0 t0)) eqn:A.
  - apply IH. intros n t Hin. apply H. now right.
  - apply assigned_lookup in A. destruct (default_value t0) as [d|] eqn:D.
    + apply IH. intros n t Hin L. apply (H n t); [now right|].
      rewrite lookup_app in L. destruct (lookup m (TSym n t)); [discriminate | reflexivity].
    + exfalso. apply (H n0 t0); auto. now left.
Qed.

Lemma default_const t d : inhb t = true -> default_value t = Some d -> const_of t d.
Proof.
  intros Hi Hd. destruct t; try discriminate Hd; injection Hd as <-.
  - repeat split; try reflexivity. exists (OBoolC false). split; [reflexivity | exact Logic.I].
  - repeat split; try reflexivity. exists (OIntC 0). split; [reflexivity | exact Logic.I].
  - repeat split; try reflexivity. exists (ORealC 0 1). split; [reflexivity | exact Logic.I].
  - split; [exists (OBVC 0 w); split; [reflexivity | exact Logic.I]|]. split; [|reflexivity].
    cbn in Hi |- *. rewrite Hi. cbn. apply Z.ltb_lt in Hi.
    assert (0 < 2 ^ w)%Z by (apply Z.pow_pos_nonneg; lia). apply Z.ltb_lt in H. now rewrite H.
Qed.

(* sorts of the free symbols of a term of the fragment are inhabited *)
Lemma fv_inhb : forall t, okt t = true -> gops t = true -> forall n ty, In (n, ty) (fv t) -> inhb ty = true.
Proof.
  induction t as [o args IH] using term_ind'. intros Ho Hg n ty Hin.
  pose proof (okt_args _ _ Ho) as Fo. destruct (gops_args _ _ Hg) as [Hgop Fg].
  assert (Hrec : In (n, ty) (unions var_eqb (map fv args)) -> inhb ty = true).
  { intros H. apply (unions_In var_eqb var_eqb_eq) in H. destruct H as (l & Hl & Hx).
    apply in_map_iff in Hl. destruct Hl as (a & <- & Ha). rewrite Forall_forall in IH, Fo, Fg. eapply IH; eauto. }
  destruct o; try discriminate Hgop; cbn [fv] in Hin; auto; try contradiction.
  destruct Hin as [E|[]]. injection E as -> ->. apply okt_node in Ho. exact Ho.
Qed.

Lemma complete_model_ok m syms m' :
  model_ok m -> (forall n t, In (n, t) syms -> inhb t = true) -> complete m syms = Some m' -> model_ok m'.
Proof.
  intros Hm Hi Hc k v Hin. destruct (complete_spec _ _ _ Hc) as (_ & _ & _ & I4).
  destruct (I4 _ _ Hin) as [H|(n & t & -> & Hs & D)]; [now apply Hm|].
  exists n, t. split; auto. apply default_const; auto. eapply Hi; eauto.
Qed.

Definition defaults_on (I : interp) (m : smap) (f : term) : Prop :=
  forall n t d, In (n, t) (fv f) -> lookup m (TSym n t) = None -> default_value t = Some d ->
                isym I n t = eval I d.

Lemma complete_agrees I m f m' :
  agrees I m -> defaults_on I m f -> complete m (fv f) = Some m' -> agrees I m'.
Proof.
  intros Ha Hd Hc n t v L. destruct (complete_spec _ _ _ Hc) as (_ & _ & I3 & _).
  destruct (I3 _ _ L) as [L0|(L0 & n' & t' & E & Hin & D)]; [now apply Ha|].
  injection E as <- <-. eapply Hd; eauto.
Qed.

Lemma complete_covered m f m' : complete m (fv f) = Some m' -> covered m' f.
Proof. intros Hc n t Hin. destruct (complete_spec _ _ _ Hc) as (_ & I2 & _). now apply I2. Qed.

(* ------------------------------------------------------------------ substitute ; simplify *)
Lemma const_sort_not_fun ty v : const_of ty v -> match ty with TFun _ _ => False | _ => True end /\ is_term v = true.
Proof.
  intros (K & _ & Tc). destruct K as (o & -> & Ho).
  destruct o; try contradiction; cbn in Tc; injection Tc as <-; split; auto; reflexivity.
Qed.

Lemma model_args_ok m f : model_ok m -> okt f = true -> args_ok m f = true.
Proof.
  intros Hm Ho. unfold args_ok. apply andb_true_iff. split.
  - destruct f as [o args]. destruct o; try reflexivity. apply okt_node in Ho. cbn in Ho.
    destruct t; try reflexivity. discriminate.
  - apply forallb_forall. intros [k v] Hin. destruct (Hm _ _ Hin) as (n & ty & -> & C).
    destruct (const_sort_not_fun ty v C) as [H1 H2]. cbn [fst snd]. rewrite H2.
    destruct ty; try reflexivity. contradiction.
Qed.

Lemma substitute_mgs_eq m f : model_ok m -> okt f = true -> substitute_mgs [] m f = subst_mgs_i [] m f.
Proof. intros Hm Ho. unfold substitute_mgs. now rewrite (model_args_ok m f Hm Ho). Qed.

Lemma is_const_is_constant c : is_const c = true -> is_constant c = true.
Proof. destruct c as [o args]. destruct o; try discriminate; reflexivity. Qed.

(* a model that covers the formula: substitution closes it, simplification folds it *)
Lemma eval_through ora m f ty I :
  model_ok m -> gfrag f = true -> tc f = Some ty -> wf_interp I -> agrees I m -> covered m f -> nodiv0 I f ->
  exists r c, substitute_mgs [] m f = Some r /\ simplify_opt ora r = Some c /\
              is_const c = true /\ tc c = Some ty /\ okt c = true /\ eval I c = eval I f.
Proof.
  intros Hm Hg Htc Hwf Hag Hcov Hnd.
  destruct (gfrag_parts _ Hg) as (_ & Ho & _).
  destruct (subst_const f m ty Hm Hg Htc) as (r & Hs & Or & Tr & Gr & _ & Cr & Sem).
  destruct (Sem I Hwf Hag) as (Ev & Nd & _).
  assert (Hcf : cfrag r = true) by (apply cfrag_intro; [exact Or | exact (Cr Hcov) | now apply gops_pownn]).
  assert (Tr' : tc r = Some ty) by congruence.
  destruct (fold_complete_partial ora I r ty Hcf Tr' (proj1 (wf_interp_wfi I) Hwf) (Nd Hnd)) as (c & Sc & Kc & Tc & Ec).
  exists r, c. split; [rewrite substitute_mgs_eq; auto|]. split; auto. split; auto. split; auto. split.
  - exact (simplify_frag_closed ora r ty c Or Tr' Sc).
  - congruence.
Qed.

(* ------------------------------------------------------------------ C02: get_value *)
Theorem get_value_exact_partial : forall ora m f ty I c,
  model_ok m -> gfrag f = true -> tc f = Some ty ->
  wf_interp I -> agrees I m -> defaults_on I m f -> nodiv0 I f ->
  get_value ora m f true = Some c ->
  is_const c = true /\ tc c = Some ty /\ okt c = true /\ eval I c = eval I f.
Proof.
  intros ora m f ty I c Hm Hg Htc Hwf Hag Hdf Hnd Hgv.
  destruct (gfrag_parts _ Hg) as (_ & Ho & Hgo).
  unfold get_value in Hgv. destruct (complete m (fv f)) as [m'|] eqn:Hc; [|discriminate].
  assert (Hm' : model_ok m') by (eapply complete_model_ok; eauto; intros n t; apply fv_inhb; auto).
  destruct (eval_through ora m' f ty I Hm' Hg Htc Hwf (complete_agrees I m f m' Hag Hdf Hc)
              (complete_covered m f m' Hc) Hnd) as (r & c0 & Sr & Sc & Kc & Tc & Oc & Ec).
  rewrite Sr, Sc in Hgv. destruct (is_constant c0); [|discriminate]. injection Hgv as <-. auto.
Qed.

Theorem get_value_total_partial : forall ora m f ty I (completion : bool),
  model_ok m -> gfrag f = true -> tc f = Some ty ->
  wf_interp I -> agrees I m -> defaults_on I m f -> nodiv0 I f ->
  (if completion
   then forall n t, In (n, t) (fv f) -> lookup m (TSym n t) = None -> default_value t <> None
   else covered m f) ->
  exists c, get_value ora m f completion = Some c.
Proof.
  intros ora m f ty I completion Hm Hg Htc Hwf Hag Hdf Hnd Hcov.
  destruct (gfrag_parts _ Hg) as (_ & Ho & Hgo). unfold get_value. destruct completion.
  - destruct (complete_total (fv f) m Hcov) as [m' Hc]. rewrite Hc.
    assert (Hm' : model_ok m') by (eapply complete_model_ok; eauto; intros n t; apply fv_inhb; auto).
    destruct (eval_through ora m' f ty I Hm' Hg Htc Hwf (complete_agrees I m f m' Hag Hdf Hc)
                (complete_covered m f m' Hc) Hnd) as (r & c0 & Sr & Sc & Kc & _).
    rewrite Sr, Sc, (is_const_is_constant c0 Kc). eauto.
  - destruct (eval_through ora m f ty I Hm Hg Htc Hwf Hag Hcov Hnd) as (r & c0 & Sr & Sc & Kc & _).
    rewrite Sr, Sc, (is_const_is_constant c0 Kc). eauto.
Qed.

(* without completion: whatever is returned is the value under EVERY well-formed extension of the model *)
Theorem get_value_partial_sound_partial : forall ora m f ty c,
  model_ok m -> gfrag f = true -> tc f = Some ty ->
  get_value ora m f false = Some c ->
  is_constant c = true /\
  forall I, wf_interp I -> agrees I m -> div_safe I f -> eval I c = eval I f.
Proof.
  intros ora m f ty c Hm Hg Htc Hgv. split; [exact (get_value_constant _ _ _ _ _ Hgv)|].
  intros I Hwf Hag Hds. destruct (gfrag_parts _ Hg) as (_ & Ho & _).
  unfold get_value in Hgv. rewrite (substitute_mgs_eq m f Hm Ho) in Hgv.
  destruct (subst_const f m ty Hm Hg Htc) as (r & Hs & Or & Tr & _ & _ & _ & Sem).
  rewrite Hs in Hgv. destruct (simplify_opt ora r) as [res|] eqn:Sr; [|discriminate].
  destruct (is_constant res); [|discriminate]. injection Hgv as <-.
  destruct (Sem I Hwf Hag) as (Ev & _ & Ds).
  assert (Tr' : tc r = Some ty) by congruence.
  destruct (simplify_sound_partial_wf ora I r ty res Or Tr' Hwf (Ds Hds) Sr) as [_ E]. congruence.
Qed.

(* ------------------------------------------------------------------ C02: satisfies *)
Lemma values_of_spec ora m : forall syms subs, values_of ora m syms = Some subs ->
  (forall k v, In (k, v) subs -> exists n t, k = TSym n t /\ In (n, t) syms /\ get_value ora m (TSym n t) true = Some v) /\
  (forall n t, In (n, t) syms -> lookup subs (TSym n t) <> None).
Proof.
  induction syms as [|[n0 t0] r IH]; intros subs H; cbn [values_of] in H.
  - injection H as <-. split; [intros k v [] | intros n t []].
  - destruct (get_value ora m (TSym n0 t0) true) as [v0|] eqn:G; [|discriminate].
    destruct (values_of ora m r) as [rest|]; [|discriminate]. injection H as <-.
    destruct (IH rest eq_refl) as [I1 I2]. split.
    + intros k v [[= <- <-]|Hin].
      * exists n0, t0. cbn. auto.
      * destruct (I1 _ _ Hin) as (n & t & E & Hi & Gv). exists n, t. cbn. auto.
    + intros n t Hin. unfold lookup. cbn [assoc_get].
      destruct (term_eqb (TSym n t) (TSym n0 t0)) eqn:E; [discriminate|].
      destruct Hin as [[= -> ->]|Hin]; [now rewrite (proj2 (term_eqb_eq _ _) eq_refl) in E|]. now apply I2.
Qed.

Lemma sym_gfrag n t : inhb t = true -> gfrag (TSym n t) = true.
Proof. intros H. unfold gfrag. cbn. now rewrite H. Qed.

Theorem satisfies_iff_partial : forall ora m f I b,
  model_ok m -> gfrag f = true -> tc f = Some TBool ->
  wf_interp I -> agrees I m -> defaults_on I m f -> nodiv0 I f ->
  satisfies ora m f = Some b -> (b = true <-> eval I f = VBool true).
Proof.
  intros ora m f I b Hm Hg Htc Hwf Hag Hdf Hnd Hs.
  destruct (gfrag_parts _ Hg) as (_ & Ho & Hgo).
  unfold satisfies in Hs. destruct (values_of ora m (fv f)) as [subs|] eqn:Hv; [|discriminate].
  destruct (values_of_spec ora m _ _ Hv) as [V1 V2].
  assert (Hval : forall k v, In (k, v) subs -> exists n t, k = TSym n t /\ const_of t v /\ isym I n t = eval I v).
  { intros k v Hin. destruct (V1 _ _ Hin) as (n & t & -> & Hi & G). exists n, t. split; auto.
    pose proof (fv_inhb f Ho Hgo n t Hi) as Ht.
    assert (Hd1 : defaults_on I m (TSym n t)).
    { intros n' t' d [[= <- <-]|[]] L D. eapply Hdf; eauto. }
    assert (Hn1 : nodiv0 I (TSym n t)) by (cbn; auto).
    destruct (get_value_exact_partial ora m (TSym n t) t I v Hm (sym_gfrag n t Ht) eq_refl Hwf Hag Hd1 Hn1 G)
      as (Kc & Tc & Oc & Ec).
    split; [|now rewrite Ec].
    split; [|auto]. eapply is_const_kconst; eauto. }
  assert (Hms : model_ok subs).
  { intros k v Hin. destruct (Hval _ _ Hin) as (n & t & E & C & _). eauto. }
  assert (Has : agrees I subs).
  { intros n t v L. apply lookup_In in L. destruct (Hval _ _ L) as (n' & t' & E & _ & Ev).
    injection E as <- <-. exact Ev. }
  assert (Hcs : covered subs f) by (intros n t Hin; now apply V2).
  destruct (eval_through ora subs f TBool I Hms Hg Htc Hwf Has Hcs Hnd) as (r & c & Sr & Sc & Kc & Tc & Oc & Ec).
  rewrite Sr, Sc in Hs. injection Hs as <-.
  destruct (is_const_kconst c TBool Oc Tc Kc) as (o & -> & Hco).
  destruct o; try contradiction; cbn in Tc; try discriminate Tc.
  rewrite <- Ec. cbn. unfold is_true. cbn. destruct b; split; intros H; try reflexivity; try discriminate H.
Qed.

(* ------------------------------------------------------------------ the hypotheses are satisfiable for EVERY model:
   the interpretation that reads assigned symbols through the model and gives every other symbol
   the default value of its sort *)
Definition J0 : interp :=
  {| isym := fun _ t => default_val t;
     ifun := fun _ t _ => match t with TFun _ r => default_val r | _ => VBool false end;
     rdiv0 := fun r => r; idiv0 := fun z => z |}.
Lemma wf_J0 : wf_interp J0.
Proof. split; cbn; intros; now apply default_val_has_ty. Qed.

Definition model_interp (m : smap) : interp := upd J0 m.

Lemma const_eval_indep I J c : kconst c -> eval I c = eval J c.
Proof. intros (o & -> & Ho). destruct o; try contradiction; reflexivity. Qed.

Lemma model_interp_agrees m : model_ok m -> agrees (model_interp m) m.
Proof.
  intros Hm n ty v L. unfold model_interp. cbn [upd isym]. rewrite L.
  destruct (Hm _ _ (lookup_In _ _ _ L)) as (n' & ty' & _ & K & _). now apply const_eval_indep.
Qed.

Lemma model_interp_wf m : model_ok m -> wf_interp (model_interp m).
Proof.
  intros Hm. split.
  - intros n t Ht. unfold model_interp. cbn [upd isym].
    destruct (lookup m (TSym n t)) as [v|] eqn:L; [|now apply default_val_has_ty].
    destruct (Hm _ _ (lookup_In _ _ _ L)) as (n' & ty' & E & K & Ov & Tv). injection E as <- <-.
    apply (okt_sound v J0 t Ov Tv). apply wf_interp_wfi. exact wf_J0.
  - intros n ps r args Hr. cbn. now apply default_val_has_ty.
Qed.

Lemma model_interp_defaults m f : defaults_on (model_interp m) m f.
Proof.
  intros n t d _ L D. unfold model_interp. cbn [upd isym]. rewrite L.
  destruct t; try discriminate D; injection D as <-; cbn; try reflexivity.
  f_equal. unfold Q2R'. lra.
Qed.

(* get_value returns the value of the formula under the completed model *)
Corollary get_value_exact_model_partial : forall ora m f ty c,
  model_ok m -> gfrag f = true -> tc f = Some ty -> nodiv0 (model_interp m) f ->
  get_value ora m f true = Some c ->
  is_const c = true /\ tc c = Some ty /\ eval (model_interp m) c = eval (model_interp m) f.
Proof.
  intros ora m f ty c Hm Hg Htc Hnd Hgv.
  destruct (get_value_exact_partial ora m f ty (model_interp m) c Hm Hg Htc (model_interp_wf m Hm)
              (model_interp_agrees m Hm) (model_interp_defaults m f) Hnd Hgv) as (A & B & _ & D). auto.
Qed.

(* ------------------------------------------------------------------ example: all hypotheses hold, the conclusion is computed
   f = (x + z + 2 <= y) & !b & (r / q + to_real(x) = 9/2)   m = {x := 3, y := 7, r := 3.0, q := 2.0}   (z, b get defaults) *)
Definition exm_f : term :=
  T OAnd [T OLe [T OPlus [TSym "x" TInt; TSym "z" TInt; TIntC 2]; TSym "y" TInt];
          T ONot [TSym "b" TBool];
          T OEquals [T OPlus [T ODiv [TSym "r" TReal; TSym "q" TReal]; T OToReal [TSym "x" TInt]]; TRealC 9 2]].
Definition exm_m : smap :=
  [(TSym "x" TInt, TIntC 3); (TSym "y" TInt, TIntC 7); (TSym "r" TReal, TRealC 3 1); (TSym "q" TReal, TRealC 2 1)].

Lemma exm_model_ok : model_ok exm_m.
Proof.
  intros k v [[= <- <-]|[[= <- <-]|[[= <- <-]|[[= <- <-]|[]]]]]; do 2 eexists; (split; [reflexivity|]);
    (split; [eexists; split; [reflexivity | exact Logic.I] | split; reflexivity]).
Qed.

Example get_value_example :
  model_ok exm_m /\ gfrag exm_f = true /\ tc exm_f = Some TBool /\
  wf_interp (model_interp exm_m) /\ agrees (model_interp exm_m) exm_m /\
  defaults_on (model_interp exm_m) exm_m exm_f /\ nodiv0 (model_interp exm_m) exm_f /\
  get_value no_oracle exm_m exm_f true = Some TTrue /\
  get_value no_oracle exm_m exm_f false = None /\
  satisfies no_oracle exm_m exm_f = Some true.
Proof.
  split; [exact exm_model_ok|]. split; [vm_compute; reflexivity|]. split; [vm_compute; reflexivity|].
  split; [exact (model_interp_wf _ exm_model_ok)|]. split; [exact (model_interp_agrees _ exm_model_ok)|].
  split; [apply model_interp_defaults|]. split.
  - cbn. repeat split; auto. unfold Q2R'. intros H. lra.
  - repeat split; vm_compute; reflexivity.
Qed.

(* ------------------------------------------------------------------ bit-vector example, width 4, partial model:
   f = bvslt(bvashr(bvadd(u, v), 1), bvudiv(u, z))   m = {u := 9}   (v, z get the default 0_4)
   bvadd = 9 = 1001, bvashr by 1 = 1100 = 12 (signed -4); bvudiv(9, 0) = 15 (signed -1); -4 <s -1 *)
Definition exb_u := TSym "u" (TBV 4). Definition exb_v := TSym "v" (TBV 4). Definition exb_z := TSym "z" (TBV 4).
Definition exb_l := T (OBV BAshr 4) [T (OBV BAdd 4) [exb_u; exb_v]; TBVC 1 4].
Definition exb_r := T (OBV BUdiv 4) [exb_u; exb_z].
Definition exb_f : term := T (OBVRel BSlt) [exb_l; exb_r].
Definition exb_m : smap := [(exb_u, TBVC 9 4)].

Lemma exb_model_ok : model_ok exb_m.
Proof.
  intros k v [[= <- <-]|[]]. do 2 eexists. split; [reflexivity|].
  split; [eexists; split; [reflexivity | exact Logic.I] | split; reflexivity].
Qed.

Example get_value_example_bv :
  model_ok exb_m /\ gfrag exb_f = true /\ tc exb_f = Some TBool /\
  wf_interp (model_interp exb_m) /\ agrees (model_interp exb_m) exb_m /\
  defaults_on (model_interp exb_m) exb_m exb_f /\ nodiv0 (model_interp exb_m) exb_f /\
  get_value no_oracle exb_m exb_l true = Some (TBVC 12 4) /\
  get_value no_oracle exb_m exb_r true = Some (TBVC 15 4) /\
  get_value no_oracle exb_m exb_f true = Some TTrue /\
  get_value no_oracle exb_m exb_f false = None /\
  satisfies no_oracle exb_m exb_f = Some true.
Proof.
  split; [exact exb_model_ok|]. split; [vm_compute; reflexivity|]. split; [vm_compute; reflexivity|].
  split; [exact (model_interp_wf _ exb_model_ok)|]. split; [exact (model_interp_agrees _ exb_model_ok)|].
  split; [apply model_interp_defaults|]. split.
  - cbn. repeat split; auto.
  - repeat split; vm_compute; reflexivity.
Qed.
