(* C12: the analyses of models/Oracles.v against declarative definitions and against Sem.v *)
From Coq Require Import List ZArith Bool String Reals Lia.
From PySMT.core Require Import Syntax SyntaxLemmas Sem.
From PySMT.models Require Import TypeChecker Oracles.
From PySMT.proofs Require Import Sets_proofs Coincidence.

Import ListNotations.

(* ---------------- free symbols: textbook definition ---------------- *)
Inductive free_in (v : var) : term -> Prop :=
| FreeSym n ty args : v = (n, ty) -> free_in v (T (OSymbol n ty) args)
| FreeFunName n ty args : v = (n, ty) -> free_in v (T (OFunction n ty) args)
| FreeArg o args a : In a args -> free_in v a ->
    match o with
    | OSymbol _ _ | OBoolC _ | OIntC _ | ORealC _ _ | OBVC _ _ | OStrC _ => False
    | OForall vs | OExists vs => ~ In v vs
    | _ => True
    end -> free_in v (T o args).

Theorem fv_def : forall t v, In v (fv t) <-> free_in v t.
Proof.
  induction t as [o args IH] using term_ind'. intros v.
  assert (Hu : In v (unions var_eqb (map fv args)) <-> exists a, In a args /\ free_in v a).
  { rewrite (unions_In var_eqb var_eqb_eq). rewrite Forall_forall in IH. split.
    - intros (l & Hl & Hv). apply in_map_iff in Hl. destruct Hl as (a & <- & Ha).
      exists a. split; auto. now apply IH.
    - intros (a & Ha & Hf). exists (fv a). split; [now apply in_map | now apply IH]. }
  split.
  - intros H. destruct o; cbn [fv] in H;
      try (apply Hu in H; destruct H as (a & Ha & Hf); eapply FreeArg; eauto; exact Logic.I);
      try contradiction.
    + destruct (proj1 (diff_In var_eqb var_eqb_eq _ _ _) H) as [H1 Hn].
      apply Hu in H1. destruct H1 as (a & Ha & Hf). eapply FreeArg; eauto.
    + destruct (proj1 (diff_In var_eqb var_eqb_eq _ _ _) H) as [H1 Hn].
      apply Hu in H1. destruct H1 as (a & Ha & Hf). eapply FreeArg; eauto.
    + destruct H as [<-|[]]. now constructor.
    + destruct (proj1 (union_In var_eqb var_eqb_eq _ _ _) H) as [[<-|[]]|H1].
      * now apply FreeFunName.
      * apply Hu in H1. destruct H1 as (a & Ha & Hf). eapply FreeArg; eauto.
  - intros H. inversion H as [n ty args' E|n ty args' E|o' args' a Ha Hf Ho]; subst.
    + cbn. auto.
    + cbn [fv]. apply (union_In var_eqb var_eqb_eq). left. cbn. auto.
    + assert (Hin : In v (unions var_eqb (map fv args))) by (apply Hu; eauto).
      destruct o; cbn [fv]; try contradiction; auto.
      * apply (diff_In var_eqb var_eqb_eq). auto.
      * apply (diff_In var_eqb var_eqb_eq). auto.
      * apply (union_In var_eqb var_eqb_eq). auto.
Qed.

(* ---------------- quantifier-freeness ---------------- *)
Inductive has_quantifier : term -> Prop :=
| HQHere o args : (match o with OForall _ | OExists _ => True | _ => False end) -> has_quantifier (T o args)
| HQArg o args a : In a args -> has_quantifier a -> has_quantifier (T o args).

Theorem qf_def : forall t, is_qf t = true <-> ~ has_quantifier t.
Proof.
  induction t as [o args IH] using term_ind'. rewrite Forall_forall in IH.
  assert (Hargs : forallb is_qf args = true <-> forall a, In a args -> ~ has_quantifier a).
  { rewrite forallb_forall. split; intros H a Ha; apply IH; auto. }
  split.
  - intros H Hq. inversion Hq as [o' args' Ho|o' args' a Ha Hqa]; subst.
    + destruct o; try contradiction; discriminate.
    + assert (forallb is_qf args = true) by (destruct o; auto; discriminate).
      rewrite Hargs in H0. exact (H0 a Ha Hqa).
  - intros H.
    assert (Hn : match o with OForall _ | OExists _ => False | _ => True end).
    { destruct o; auto; exfalso; apply H; constructor; exact Logic.I. }
    assert (forallb is_qf args = true).
    { apply Hargs. intros a Ha Hq. apply H. eapply HQArg; eauto. }
    destruct o; auto; contradiction.
Qed.

(* ---------------- atoms: the truth value of a qf Boolean formula is a function of the
                    truth values of the reported atoms ---------------- *)
Lemma all_some_spec {A} (l : list (option A)) ls :
  all_some l = Some ls -> Forall2 (fun o x => o = Some x) l ls.
Proof.
  revert ls. induction l as [|[x|] r IH]; intros ls; cbn; [intros [= <-]; constructor| |discriminate].
  destruct (all_some r) eqn:E; [|discriminate]. intros [= <-]. constructor; auto.
Qed.

Lemma tc_args o args ty : tc (T o args) = Some ty ->
  exists tys, Forall2 (fun a t => tc a = Some t) args tys /\ tc_rule o tys = Some ty.
Proof.
  cbn [tc].
  set (go := fix go (l : list term) : option (list Syntax.ty) :=
               match l with
               | [] => Some []
               | x :: r => match tc x, go r with Some tx, Some tr => Some (tx :: tr) | _, _ => None end
               end).
  destruct (go args) as [tys|] eqn:E; [|discriminate]. intros H. exists tys. split; auto.
  clear H. revert tys E. induction args as [|x r IH]; intros tys; cbn.
  - intros [= <-]. constructor.
  - destruct (tc x) eqn:Ex; [|discriminate]. destruct (go r) eqn:Er; [|discriminate].
    intros [= <-]. constructor; auto.
Qed.

Lemma type_to_type_all args tin tout ty : type_to_type args tin tout = Some ty ->
  Forall (fun t => t = tin) args.
Proof.
  unfold type_to_type. destruct (forallb _ args) eqn:E; [|discriminate]. intros _.
  rewrite forallb_forall in E. apply Forall_forall. intros t Ht. apply ty_eqb_eq. auto.
Qed.

Definition bool_children_ok (o : op) : bool :=
  match o with OAnd | OOr | ONot | OImplies | OIff => true | _ => false end.

Lemma bool_conn_args_bool o args : bool_children_ok o = true ->
  tc (T o args) = Some TBool -> Forall (fun a => tc a = Some TBool) args.
Proof.
  intros Ho H. apply tc_args in H. destruct H as (tys & HF & Hr).
  assert (Forall (fun t => t = TBool) tys).
  { destruct o; try discriminate; cbn in Hr; eapply type_to_type_all; eauto. }
  clear Hr. induction HF; constructor; inversion H; subst; auto.
Qed.

Theorem atoms_truth_functional : forall t I I' A,
  is_qf t = true -> tc t = Some TBool -> atoms t = Some A ->
  (forall a, In a A -> eval I a = eval I' a) -> eval I t = eval I' t.
Proof.
  induction t as [o args IH] using term_ind'. intros I I' A Hqf Htc Hat Hag.
  rewrite Forall_forall in IH.
  (* generic step for Boolean connectives and Boolean ITE *)
  assert (Hconn : forall ls, all_some (map atoms args) = Some ls -> A = unions term_eqb ls ->
            Forall (fun a => tc a = Some TBool) args -> forallb is_qf args = true ->
            map (eval I) args = map (eval I') args).
  { intros ls Hls -> Hty Hq. apply map_ext_Forall. apply Forall_forall. intros a Ha.
    apply all_some_spec in Hls.
    assert (exists la, atoms a = Some la /\ In la ls) as (la & Hla & Hin).
    { clear - Ha Hls. remember (map atoms args) as m. revert args Heqm Ha.
      induction Hls; intros args Hm Ha; destruct args; cbn in *; try discriminate; [contradiction|].
      injection Hm as -> ->. destruct Ha as [->|Ha]; [eauto | destruct (IHHls _ eq_refl Ha) as (la & ? & ?); eauto]. }
    rewrite Forall_forall in Hty. rewrite forallb_forall in Hq.
    eapply IH; eauto. intros x Hx. apply Hag.
    apply (unions_In term_eqb term_eqb_eq). eauto. }
  assert (Hqargs : match o with OForall _ | OExists _ => False | _ => forallb is_qf args = true end).
  { destruct o; cbn in Hqf; auto; discriminate. }
  destruct o; cbn [atoms] in Hat; try discriminate; try contradiction.
  - (* and *) destruct (all_some (map atoms args)) as [ls|] eqn:E; [|discriminate]. injection Hat as <-.
    cbn [eval]. rewrite (Hconn ls eq_refl eq_refl (bool_conn_args_bool OAnd _ eq_refl Htc) Hqargs). reflexivity.
  - (* or *) destruct (all_some (map atoms args)) as [ls|] eqn:E; [|discriminate]. injection Hat as <-.
    cbn [eval]. rewrite (Hconn ls eq_refl eq_refl (bool_conn_args_bool OOr _ eq_refl Htc) Hqargs). reflexivity.
  - (* not *) destruct (all_some (map atoms args)) as [ls|] eqn:E; [|discriminate]. injection Hat as <-.
    cbn [eval]. rewrite (Hconn ls eq_refl eq_refl (bool_conn_args_bool ONot _ eq_refl Htc) Hqargs). reflexivity.
  - (* implies *) destruct (all_some (map atoms args)) as [ls|] eqn:E; [|discriminate]. injection Hat as <-.
    cbn [eval]. rewrite (Hconn ls eq_refl eq_refl (bool_conn_args_bool OImplies _ eq_refl Htc) Hqargs). reflexivity.
  - (* iff *) destruct (all_some (map atoms args)) as [ls|] eqn:E; [|discriminate]. injection Hat as <-.
    cbn [eval]. rewrite (Hconn ls eq_refl eq_refl (bool_conn_args_bool OIff _ eq_refl Htc) Hqargs). reflexivity.
  - (* symbol *) destruct (ty_eqb t TBool); [|discriminate]. injection Hat as <-. apply Hag. left; auto.
  - (* function *) destruct t; try discriminate. destruct (ty_eqb t TBool); [|discriminate].
    injection Hat as <-. apply Hag. left; auto.
  - (* bool constant *) cbn [eval]. destruct args; reflexivity.
  - (* le *) injection Hat as <-. apply Hag. left; auto.
  - (* lt *) injection Hat as <-. apply Hag. left; auto.
  - (* equals *) injection Hat as <-. apply Hag. left; auto.
  - (* ite *)
    destruct (all_some (map atoms args)) as [ls|] eqn:E; [|discriminate]. injection Hat as <-.
    destruct args as [|c [|a [|b [|d r]]]]; try reflexivity.
    cbn [eval]. rewrite (Hconn ls eq_refl eq_refl); [reflexivity| |exact Hqargs].
    apply tc_args in Htc. destruct Htc as (tys & HF & Hr).
    inversion HF as [|? tc0 ? ? Hc HF1]; subst. inversion HF1 as [|? ta ? ? Ha HF2]; subst.
    inversion HF2 as [|? tb ? ? Hb HF3]; subst. inversion HF3; subst. cbn in Hr.
    destruct (ty_eqb tc0 TBool) eqn:E1; [|discriminate]. destruct (ty_eqb ta tb) eqn:E2; [|discriminate].
    apply ty_eqb_eq in E1, E2. injection Hr as ->. subst. repeat constructor; auto.
  - (* bv relation *) injection Hat as <-. apply Hag. left; auto.
  - (* string ops *) destruct k; try discriminate; injection Hat as <-; apply Hag; left; auto.
  - (* select *) destruct (result_is_bool (T OSelect args)); [|discriminate]. injection Hat as <-.
    apply Hag. left; auto.
Qed.

(* ---------------- sizes ---------------- *)
Lemma sum_nat_fold l : sum_nat l = fold_right (fun a n => (a + n)%nat) 0%nat l.
Proof. reflexivity. Qed.

Theorem size_tree_def : forall t, size_tree t = tsize t.
Proof.
  induction t as [o args IH] using term_ind'. cbn [size_tree tsize]. f_equal.
  induction IH as [|x r Hx Hr IHr]; [reflexivity|]. unfold sum_nat in *. cbn. now rewrite Hx, IHr.
Qed.

Theorem size_bounds : forall t, (1 <= size_leaves t <= size_tree t /\ 1 <= size_depth t <= size_tree t)%nat.
Proof.
  induction t as [o args IH] using term_ind'.
  assert (G : (sum_nat (map size_leaves args) <= sum_nat (map size_tree args) /\
               max_nat (map size_depth args) <= sum_nat (map size_tree args) /\
               (args <> [] -> 1 <= sum_nat (map size_leaves args)))%nat).
  { clear o. induction IH as [|x l Hx Hl IHl].
    - cbn. repeat split; auto. congruence.
    - unfold sum_nat, max_nat in *. cbn [map fold_right]. repeat split; try lia. }
  destruct args as [|a r]; [cbn; lia|].
  change (size_leaves (T o (a :: r))) with (sum_nat (map size_leaves (a :: r))).
  change (size_depth (T o (a :: r))) with (S (max_nat (map size_depth (a :: r)))).
  change (size_tree (T o (a :: r))) with (S (sum_nat (map size_tree (a :: r)))).
  destruct G as (G1 & G2 & G3). specialize (G3 ltac:(discriminate)). lia.
Qed.

(* ---------------- sorts: the reported set against a declarative definition ---------------- *)
(* the sorts a node itself mentions *)
Definition node_sorts (o : op) : list ty :=
  match o with
  | OSymbol _ ty => [ty]
  | OFunction _ (TFun ps r) => r :: ps
  | OArrayValue it => [it]
  | OForall vs | OExists vs => map snd vs
  | OBoolC _ => [TBool] | OIntC _ => [TInt] | ORealC _ _ => [TReal] | OStrC _ => [TStr]
  | OBVC _ w => [TBV w]
  | _ => []
  end.
(* a sort occurs in a term: at the node itself, or in an argument (symbols and constants are
   leaves: their children, if any, are not looked at) *)
Inductive sort_occurs (s : ty) : term -> Prop :=
| SortHere o args : In s (node_sorts o) -> sort_occurs s (T o args)
| SortArg o args a : In a args -> sort_occurs s a ->
    match o with
    | OSymbol _ _ | OBoolC _ | OIntC _ | ORealC _ _ | OBVC _ _ | OStrC _ => False
    | _ => True
    end -> sort_occurs s (T o args).

Theorem types_walk_def : forall t s, In s (types_walk t) <-> sort_occurs s t.
Proof.
  induction t as [o args IH] using term_ind'. intros s.
  assert (Hu : In s (unions ty_eqb (map types_walk args)) <-> exists a, In a args /\ sort_occurs s a).
  { rewrite (unions_In ty_eqb ty_eqb_eq). rewrite Forall_forall in IH. split.
    - intros (l & Hl & Hv). apply in_map_iff in Hl. destruct Hl as (a & <- & Ha). exists a. split; auto. now apply IH.
    - intros (a & Ha & Hf). exists (types_walk a). split; [now apply in_map | now apply IH]. }
  split.
  - intros H.
    assert (Hrec : In s (unions ty_eqb (map types_walk args)) ->
                   match o with OSymbol _ _ | OBoolC _ | OIntC _ | ORealC _ _ | OBVC _ _ | OStrC _ => False | _ => True end ->
                   sort_occurs s (T o args)).
    { intros Hin Ho. apply Hu in Hin. destruct Hin as (a & Ha & Hs). eapply SortArg; eauto. }
    destruct o; cbn [types_walk] in H; try (apply Hrec; [exact H | exact Logic.I]).
    + (* forall *) destruct (proj1 (union_In ty_eqb ty_eqb_eq _ _ _) H) as [H1|H1].
      * apply SortHere. exact (proj1 (dedupe_In ty_eqb ty_eqb_eq _ _) H1).
      * apply Hrec; [exact H1 | exact Logic.I].
    + (* exists *) destruct (proj1 (union_In ty_eqb ty_eqb_eq _ _ _) H) as [H1|H1].
      * apply SortHere. exact (proj1 (dedupe_In ty_eqb ty_eqb_eq _ _) H1).
      * apply Hrec; [exact H1 | exact Logic.I].
    + (* symbol *) apply SortHere. exact H.
    + (* function *) destruct t; try (apply Hrec; [exact H | exact Logic.I]).
      destruct (proj1 (union_In ty_eqb ty_eqb_eq _ _ _) H) as [H1|H1].
      * apply SortHere. exact (proj1 (dedupe_In ty_eqb ty_eqb_eq _ _) H1).
      * apply Hrec; [exact H1 | exact Logic.I].
    + apply SortHere. exact H.
    + apply SortHere. exact H.
    + apply SortHere. exact H.
    + apply SortHere. exact H.
    + apply SortHere. exact H.
    + (* array value *) destruct (proj1 (union_In ty_eqb ty_eqb_eq _ _ _) H) as [H1|H1].
      * apply SortHere. exact H1.
      * apply Hrec; [exact H1 | exact Logic.I].
  - intros H. inversion H as [o' args' Hn|o' args' a Ha Hs Ho]; subst.
    + destruct o; cbn [node_sorts] in Hn; cbn [types_walk]; try contradiction; auto.
      * apply (union_In ty_eqb ty_eqb_eq). left. exact (proj2 (dedupe_In ty_eqb ty_eqb_eq _ _) Hn).
      * apply (union_In ty_eqb ty_eqb_eq). left. exact (proj2 (dedupe_In ty_eqb ty_eqb_eq _ _) Hn).
      * destruct t; try contradiction. apply (union_In ty_eqb ty_eqb_eq). left. exact (proj2 (dedupe_In ty_eqb ty_eqb_eq _ _) Hn).
      * apply (union_In ty_eqb ty_eqb_eq). left. exact Hn.
    + assert (Hin : In s (unions ty_eqb (map types_walk args))) by (apply Hu; eauto).
      destruct o; cbn [types_walk]; try contradiction; auto.
      * apply (union_In ty_eqb ty_eqb_eq). auto.
      * apply (union_In ty_eqb ty_eqb_eq). auto.
      * destruct t; auto. apply (union_In ty_eqb ty_eqb_eq). auto.
      * apply (union_In ty_eqb ty_eqb_eq). auto.
Qed.

(* get_types = the closure of those sorts under component sorts *)
Theorem get_types_def : forall t s, In s (get_types t) <-> exists u, sort_occurs u t /\ In s (subtypes u).
Proof.
  intros t s. unfold get_types. rewrite (dedupe_In ty_eqb ty_eqb_eq), in_flat_map. split.
  - intros (u & Hu & Hs). exists u. split; auto. now apply types_walk_def.
  - intros (u & Hu & Hs). exists u. split; auto. now apply types_walk_def.
Qed.
