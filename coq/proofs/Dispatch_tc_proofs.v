(* SimpleTypeChecker: the hand model's rule for an operator IS the rule of the method that the
   source dispatches that operator to.  [tc_dispatch] (gen/Dispatch.v) is regenerated from the
   @handles decorators / walk_<op> names of pysmt/type_checker.py on every run; [tc_handler_rule]
   states each walk_* method once, as a function of the node (payload accessors) and the argument
   types, independently of which operators reach it.  Moving an operator to another handler,
   or adding / removing a handles(...) entry, breaks [tc_dispatch_matches_source]. *)
From Coq Require Import List ZArith Bool String.
From PySMT.core Require Import Syntax.
From PySMT.gen Require Import Operators Dispatch.
From PySMT.models Require Import TypeChecker.
From PySMT.proofs Require Import Operators_proofs Dispatch_common.
Import ListNotations.
Open Scope bool_scope.
Open Scope Z_scope.

Inductive tc_handler :=
| H_quantifier | H_bool_to_bool | H_symbol | H_function | H_identity_real | H_identity_bool | H_identity_int
| H_identity_string | H_identity_bv | H_realint_to_realint | H_math_relation | H_equals | H_ite | H_int_to_real
| H_bv_to_bv | H_bv_concat | H_bv_extract | H_bv_to_bool | H_bv_rotate | H_bv_extend | H_bv_comp
| H_str_to_int | H_str_to_str | H_str_to_bool | H_str_indexof | H_str_substr | H_int_to_str | H_str_charat
| H_array_select | H_array_store | H_array_value | H_pow | H_bv_tonatural.

Definition tc_handler_names : list (string * tc_handler) :=
  [("walk_quantifier", H_quantifier); ("walk_bool_to_bool", H_bool_to_bool); ("walk_symbol", H_symbol);
   ("walk_function", H_function); ("walk_identity_real", H_identity_real); ("walk_identity_bool", H_identity_bool);
   ("walk_identity_int", H_identity_int); ("walk_identity_string", H_identity_string); ("walk_identity_bv", H_identity_bv);
   ("walk_realint_to_realint", H_realint_to_realint); ("walk_math_relation", H_math_relation); ("walk_equals", H_equals);
   ("walk_ite", H_ite); ("walk_int_to_real", H_int_to_real); ("walk_bv_to_bv", H_bv_to_bv); ("walk_bv_concat", H_bv_concat);
   ("walk_bv_extract", H_bv_extract); ("walk_bv_to_bool", H_bv_to_bool); ("walk_bv_rotate", H_bv_rotate);
   ("walk_bv_extend", H_bv_extend); ("walk_bv_comp", H_bv_comp); ("walk_str_to_int", H_str_to_int);
   ("walk_str_to_str", H_str_to_str); ("walk_str_to_bool", H_str_to_bool); ("walk_str_indexof", H_str_indexof);
   ("walk_str_substr", H_str_substr); ("walk_int_to_str", H_int_to_str); ("walk_str_charat", H_str_charat);
   ("walk_array_select", H_array_select); ("walk_array_store", H_array_store); ("walk_array_value", H_array_value);
   ("walk_pow", H_pow); ("walk_bv_tonatural", H_bv_tonatural)]%string.

(* hlookup: proofs/Dispatch_common.v *)
Definition tc_handler_of_name := hlookup tc_handler_names.

(* payload accessors of FNode used by the methods *)
Definition bv_width_payload (o : op) : option Z :=          (* formula.bv_width() = payload[0] *)
  match o with
  | OBV _ w | OBVExtract w _ _ | OBVRol w _ | OBVRor w _ | OBVZext w _ | OBVSext w _ | OBVC _ w => Some w
  | _ => None
  end.
Definition rotation_step (o : op) : option Z := match o with OBVRol _ k | OBVRor _ k => Some k | _ => None end.

(* each walk_* method, once *)
Definition tc_handler_rule (h : tc_handler) (o : op) (args : list ty) : option ty :=
  match h with
  | H_bool_to_bool => type_to_type args TBool TBool
  | H_int_to_real => type_to_type args TInt TReal
  | H_realint_to_realint =>
      match type_to_type args TReal TReal with Some t => Some t | None => type_to_type args TInt TInt end
  | H_math_relation =>
      match args with
      | TReal :: _ => type_to_type args TReal TBool
      | _ :: _ => type_to_type args TInt TBool
      | [] => None
      end
  | H_bv_to_bv =>
      match bv_width_payload o with
      | Some w => if forallb (fun a => ty_eqb a (TBV w)) args then Some (TBV w) else None
      | None => None
      end
  | H_bv_to_bool => bv_to_bool args
  | H_bv_rotate =>
      match bv_width_payload o, rotation_step o with
      | Some w, Some k =>
          if (w <? k) || (w <? 0) || (k <? 0) then None
          else match args with TBV a :: _ => if Z.eqb w a then Some (TBV w) else None | _ => None end
      | _, _ => None
      end
  | H_bv_extend =>
      match o with
      | OBVZext w _ | OBVSext w _ =>
          match args with TBV a :: _ => if (w <? a) || (w <? 0) then None else Some (TBV w) | _ => None end
      | _ => None
      end
  | H_str_to_int => type_to_type args TStr TInt
  | H_str_to_str => type_to_type args TStr TStr
  | H_str_to_bool => type_to_type args TStr TBool
  | H_int_to_str => type_to_type args TInt TStr
  | H_quantifier =>
      match o with
      | OForall _ | OExists _ => match args with [a] => if ty_eqb a TBool then Some TBool else None | _ => None end
      | _ => None
      end
  | H_identity_real => match o with ORealC _ _ => match args with [] => Some TReal | _ => None end | _ => None end
  | H_identity_bool => match o with OBoolC _ => match args with [] => Some TBool | _ => None end | _ => None end
  | H_identity_int => match o with OIntC _ => match args with [] => Some TInt | _ => None end | _ => None end
  | H_identity_string => match o with OStrC _ => match args with [] => Some TStr | _ => None end | _ => None end
  | H_identity_bv => match o with OBVC _ w => match args with [] => Some (TBV w) | _ => None end | _ => None end
  (* methods written for one node type: the model's arm, and nothing for any other node *)
  | H_symbol => match o with OSymbol _ _ => tc_rule o args | _ => None end
  | H_function => match o with OFunction _ _ => tc_rule o args | _ => None end
  | H_equals => match o with OEquals => tc_rule o args | _ => None end
  | H_ite => match o with OIte => tc_rule o args | _ => None end
  | H_bv_concat => match o with OBV BConcat _ => tc_rule o args | _ => None end
  | H_bv_extract => match o with OBVExtract _ _ _ => tc_rule o args | _ => None end
  | H_bv_comp => match o with OBV BComp _ => tc_rule o args | _ => None end
  | H_str_indexof => match o with OStr SIndexOf => tc_rule o args | _ => None end
  | H_str_substr => match o with OStr SSubstr => tc_rule o args | _ => None end
  | H_str_charat => match o with OStr SCharAt => tc_rule o args | _ => None end
  | H_array_select => match o with OSelect => tc_rule o args | _ => None end
  | H_array_store => match o with OStore => tc_rule o args | _ => None end
  | H_array_value => match o with OArrayValue _ => tc_rule o args | _ => None end
  | H_pow => match o with OPow => tc_rule o args | _ => None end
  | H_bv_tonatural => match o with OBVToNat => tc_rule o args | _ => None end
  end.

Theorem tc_dispatch_matches_source : forall o, exists h,
  tc_handler_of_name (tc_dispatch (nt_of_op o)) = Some h /\
  forall args, tc_rule o args = tc_handler_rule h o args.
Proof.
  intro o. destruct o; try split_kind;
    (eexists; split; [vm_compute; reflexivity | intro args; reflexivity]).
Qed.

(* the handler names the source uses are all known here (an unknown name would make the lookup fail) *)
Theorem tc_dispatch_names_known : forall n,
  nt_modelled n = true -> tc_handler_of_name (tc_dispatch n) <> None.
Proof. apply (node_type_case (fun n => nt_modelled n = true -> tc_handler_of_name (tc_dispatch n) <> None)).
  repeat constructor; vm_compute; congruence. Qed.

(* hypotheses are satisfiable and the statement is not vacuous: a shared handler and a single-operator one *)
Example tc_dispatch_ex : tc_handler_of_name (tc_dispatch (nt_of_op (OBVRel BSlt))) = Some H_bv_to_bool /\
                         tc_handler_of_name (tc_dispatch (nt_of_op OSelect)) = Some H_array_select.
Proof. vm_compute. split; reflexivity. Qed.
