From Coq Require Import List ZArith Bool String.
From PySMT.core Require Import Syntax SyntaxLemmas.
From PySMT.models Require Import Oracles Ctors Substituter Simplifier EagerModel.
Import ListNotations.

Theorem get_value_constant : forall ora m f c v, get_value ora m f c = Some v -> is_constant v = true.
Proof.
  intros ora m f c v. unfold get_value.
  destruct (if c then complete m (fv f) else Some m) as [m'|]; [|discriminate].
  destruct (substitute_mgs [] m' f) as [r|]; [|discriminate].
  destruct (simplify_opt ora r) as [res|]; [|discriminate].
  destruct (is_constant res) eqn:E; [|discriminate]. now intros [= <-].
Qed.

Lemma assigned_app m s kv : assigned m s = true -> assigned (m ++ [kv]) s = true.
Proof. unfold assigned. rewrite existsb_app. intros ->. reflexivity. Qed.
Lemma assigned_last m s d : assigned (m ++ [(s, d)]) s = true.
Proof.
  unfold assigned. rewrite existsb_app. cbn. rewrite (proj2 (term_eqb_eq s s) eq_refl). now rewrite orb_true_r.
Qed.

Lemma complete_mono : forall syms m m', complete m syms = Some m' ->
  (forall kv, In kv m -> In kv m') /\ (forall s, assigned m s = true -> assigned m' s = true).
Proof.
  induction syms as [|[n t] r IH]; intros m m'; cbn.
  - intros [= <-]. auto.
  - destruct (assigned m (TSym n t)) eqn:E; [apply IH|].
    destruct (default_value t) as [d|]; [|discriminate]. intros H. apply IH in H. destruct H as [H1 H2]. split.
    + intros kv Hkv. apply H1. apply in_or_app. auto.
    + intros s Hs. apply H2. now apply assigned_app.
Qed.

Theorem complete_defaults : forall syms m m', complete m syms = Some m' ->
  (forall kv, In kv m -> In kv m') /\
  (forall n t, In (n, t) syms -> assigned m (TSym n t) = false ->
     exists d, default_value t = Some d /\ assigned m' (TSym n t) = true).
Proof.
  induction syms as [|[n0 t0] r IH]; intros m m' H.
  - cbn in H. injection H as <-. split; auto. intros n t [].
  - pose proof (complete_mono _ _ _ H) as [Hm _]. split; auto.
    cbn in H. intros n t [E|Hin] Hna.
    + injection E as -> ->. rewrite Hna in H. destruct (default_value t) as [d|] eqn:Ed; [|discriminate].
      exists d. split; auto. apply complete_mono in H. destruct H as [_ H]. apply H, assigned_last.
    + destruct (assigned m (TSym n0 t0)) eqn:E0; [eapply IH; eauto|].
      destruct (default_value t0) as [d0|] eqn:Ed0; [|discriminate].
      destruct (assigned (m ++ [(TSym n0 t0, d0)]) (TSym n t)) eqn:E1.
      * (* it is the symbol just completed *)
        unfold assigned in E1, Hna. rewrite existsb_app in E1. rewrite Hna in E1. cbn [existsb fst orb] in E1. rewrite orb_false_r in E1.
        apply term_eqb_eq in E1. injection E1 as -> ->. exists d0. split; auto.
        apply complete_mono in H. destruct H as [_ H]. apply H, assigned_last.
      * destruct (IH _ _ H) as [_ G]. eapply G; eauto.
Qed.

Theorem default_values : default_value TBool = Some (TBoolC false) /\ default_value TInt = Some (TIntC 0) /\
  default_value TReal = Some (TRealC 0 1) /\ (forall w, default_value (TBV w) = Some (TBVC 0 w)).
Proof. repeat split. Qed.
