(* TheoryOracle: models/TheoryOracle.v's [theory_rule] applies, at every operator, the walk_*
   method that pysmt/oracles.py dispatches that operator to ([theoryo_dispatch], regenerated from
   the source).  Each method is stated once below. *)
From Coq Require Import List ZArith Bool String.
From PySMT.core Require Import Syntax.
From PySMT.gen Require Import Logics Operators Dispatch.
From PySMT.models Require Import Oracles TheoryOracle.
From PySMT.proofs Require Import Operators_proofs Dispatch_common.
Import ListNotations.
Open Scope bool_scope.

Inductive theoryo_handler :=
| O_quantifier | O_combine | O_symbol | O_function | O_constant | O_plus | O_times | O_toreal | O_str_int
| O_int_to_str | O_array_value | O_div | O_pow | O_bv_tonatural.
Definition theoryo_handler_of_name :=
  hlookup [("walk_quantifier", O_quantifier); ("walk_combine", O_combine); ("walk_symbol", O_symbol);
          ("walk_function", O_function); ("walk_constant", O_constant); ("walk_plus", O_plus); ("walk_times", O_times);
          ("walk_toreal", O_toreal); ("walk_str_int", O_str_int); ("walk_int_to_str", O_int_to_str);
          ("walk_array_value", O_array_value); ("walk_div", O_div); ("walk_pow", O_pow);
          ("walk_bv_tonatural", O_bv_tonatural)]%string.

Definition theoryo_handler_rule (h : theoryo_handler) (o : op) (targs : list term) (args : list theory) : option theory :=
  match h with
  | O_combine => walk_combine args
  | O_str_int => omap set_int (walk_combine args)
  | O_plus => omap (fun th => t_set_difference_logic th false) (fold_combine args)
  | O_times =>
      omap (fun th =>
              let th := if Nat.ltb 1 (List.length (filter has_fv targs)) then t_set_linear th false else th in
              t_set_difference_logic th false) (fold_combine args)
  | O_toreal => match args with [a] => Some (t_set_lira a true) | _ => None end
  | O_int_to_str => match args with [a] => Some (t_set_strings a true) | _ => None end
  | O_pow => match args with [a; _] => Some (t_set_linear a false) | _ => None end
  | O_bv_tonatural => match args with [a] => Some (set_int (t_copy a)) | _ => None end
  | O_div =>
      match args, targs with
      | [a; b], [l; r] =>
          let th := t_combine a b in
          if has_fv r then Some (t_set_linear th false)
          else if is_zero r then Some (t_set_linear th false)
          else Some (t_combine th b)
      | _, _ => None
      end
  | O_constant =>            (* formula.is_real_constant() / is_int_constant() / ... *)
      match o with
      | ORealC _ _ => match args with [] => Some th_real | _ => None end
      | OIntC _ => match args with [] => Some th_int | _ => None end
      | OBVC _ _ => match args with [] => Some th_bv | _ => None end
      | OStrC _ => match args with [] => Some th_str | _ => None end
      | OBoolC _ => match args with [] => Some th0 | _ => None end
      | _ => None
      end
  | O_quantifier =>
      match o with
      | OForall vs | OExists vs =>
          match args with
          | [a] => Some (fold_left (fun th v => t_combine th (theory_from_type (snd v))) vs (t_copy a))
          | _ => None
          end
      | _ => None
      end
  | O_symbol => match o with OSymbol _ ty => match args with [] => Some (theory_from_type ty) | _ => None end | _ => None end
  | O_function => match o with OFunction _ _ => theory_rule o targs args | _ => None end
  | O_array_value =>
      match o with
      | OArrayValue it => omap (fun th => set_arr_const (t_combine th (theory_from_type it))) (walk_combine args)
      | _ => None
      end
  end.

Theorem theoryo_dispatch_matches_source : forall o, exists h,
  theoryo_handler_of_name (theoryo_dispatch (nt_of_op o)) = Some h /\
  forall targs args, theory_rule o targs args = theoryo_handler_rule h o targs args.
Proof.
  intro o. destruct o; try split_kind;
    (eexists; split; [vm_compute; reflexivity | intros; reflexivity]).
Qed.

(* the groups named in the decorators are the ones the model's default arm stands for:
   everything dispatched to walk_combine is a relation, a Boolean connective, a bit-vector operator,
   a string operator other than the int-valued ones, or one of ITE / select / store / minus *)
Theorem walk_combine_operators : forall n,
  String.eqb (theoryo_dispatch n) "walk_combine" =
  nt_in (G_RELATIONS ++ G_BOOL_CONNECTIVES ++ G_BV_OPERATORS ++ G_STR_OPERATORS ++
         [NT_ITE; NT_ARRAY_SELECT; NT_ARRAY_STORE; NT_MINUS]) n &&
  negb (nt_in [NT_STR_LENGTH; NT_STR_INDEXOF; NT_STR_TO_INT; NT_INT_TO_STR] n).
Proof. apply node_type_case. vm_compute. repeat constructor. Qed.
