(* C10, propagate_toplevel: the substitution built from the top-level equalities is applied under
   quantifiers that bind the representative; the result can be false where the input is true. *)
From Coq Require Import List ZArith Bool String Reals Lia.
From PySMT.core Require Import Syntax SyntaxLemmas Sem.
From PySMT.models Require Import Oracles C10Local Partition PropTop.
From PySMT.proofs Require Import Coincidence C10Local_proofs.
Import ListNotations.
Open Scope bool_scope.
Open Scope string_scope.

Definition bv2 := TBV 2.
Definition pt_x := TSym "x" bv2.
Definition pt_y := TSym "y" bv2.
(* (y = x) & (exists x . !(x = y)) *)
Definition pt_witness : term :=
  T OAnd [T OEquals [pt_y; pt_x]; T (OExists [("x", bv2)]) [T ONot [T OEquals [pt_x; pt_y]]]].
Definition pt_sigma : list (var * term) := [(("y", bv2), pt_x)].
Definition pt_interp : interp :=
  {| isym := fun _ t => default_val t;
     ifun := fun _ t _ => match t with TFun _ r => default_val r | _ => VBool false end;
     rdiv0 := fun x => x; idiv0 := fun x => x |}.
Lemma pt_interp_wf : wf_interp pt_interp.
Proof. split; cbn; intros; now apply default_val_has_ty. Qed.

Example pt_output :
  propagate_with pt_sigma pt_witness =
  T OAnd [T OAnd [T OEquals [pt_x; pt_x]; T (OExists [("x", bv2)]) [T ONot [T OEquals [pt_x; pt_x]]]];
          T OEquals [pt_y; pt_x]].
Proof. reflexivity. Qed.

(* the full clause [licensed sigma t -> holds I (propagate_with sigma t) <-> holds I t] is FALSE: *)
Lemma proptop_refuted_witness : holds pt_interp pt_witness /\ ~ holds pt_interp (propagate_with pt_sigma pt_witness).
Proof.
  split.
  - apply holds_tv. unfold pt_witness. rewrite tv_and. cbn [forallb]. rewrite andb_true_r. apply andb_true_iff. split.
    + unfold tv. cbn. now rewrite veqb_refl.
    + apply tv_exists_true. exists [VBV 2 1]. split.
      * cbn. repeat split; lia.
      * rewrite tv_not. unfold tv. cbn.
        destruct (veqb (VBV 2 1) (VBV 2 0)) eqn:E; auto. apply veqb_true in E. discriminate.
  - rewrite holds_tv, pt_output, tv_and. cbn [forallb]. rewrite tv_and. cbn [forallb].
    assert (F : tv pt_interp (T (OExists [("x", bv2)]) [T ONot [T OEquals [pt_x; pt_x]]]) = false).
    { destruct (tv pt_interp (T (OExists [("x", bv2)]) [T ONot [T OEquals [pt_x; pt_x]]])) eqn:E; auto.
      apply tv_exists_true in E. destruct E as (xs & _ & E). rewrite tv_not in E. unfold tv in E. cbn in E.
      rewrite veqb_refl in E. discriminate. }
    rewrite F. rewrite !andb_false_r. cbn. discriminate.
Qed.

Theorem proptop_refuted :
  exists t sigma I, licensed sigma t = true /\ holds I t /\ ~ holds I (propagate_with sigma t).
Proof. exists pt_witness, pt_sigma, pt_interp. split; [reflexivity | exact proptop_refuted_witness]. Qed.

(* ================================================================ the whole function, quantifier-free inputs *)
From PySMT.proofs Require Import Sets_proofs Subst_proofs Partition_proofs.

(* replacing equals by equals *)
Lemma eval_congr I o args args' : is_quant_op o = false ->
  map (eval I) args' = map (eval I) args -> eval I (T o args') = eval I (T o args).
Proof. intros Hq H. destruct o; try discriminate; cbn [eval]; rewrite ?H; reflexivity. Qed.

Lemma tlookup_In s t v : tlookup s t = Some v -> In (t, v) s.
Proof.
  induction s as [|[k w] s IH]; cbn; [discriminate|]. destruct (term_eqb k t) eqn:E.
  - intros H. injection H as <-. apply term_eqb_eq in E. subst. now left.
  - intros H. right. auto.
Qed.

Lemma tsubst_nonquant s o args : is_quant_op o = false ->
  tsubst s (T o args) = match tlookup s (T o args) with Some v => v | None => rebuild o (map (tsubst s) args) end.
Proof. destruct o; intros; try discriminate; reflexivity. Qed.

Lemma tsubst_top_not s o args : (forall k v, In (k, v) s -> top_not v = false) ->
  node_normal o args = true -> is_quant_op o = false -> o <> ONot -> top_not (tsubst s (T o args)) = false.
Proof.
  intros Hs Hn Hq Ho. rewrite tsubst_nonquant by auto. destruct (tlookup s (T o args)) as [v|] eqn:E.
  - apply tlookup_In in E. eapply Hs; eauto.
  - rewrite (rebuild_same_len o args) by (auto; apply map_length). destruct o; auto. congruence.
Qed.

Theorem tsubst_eval : forall t I s,
  (forall k v, In (k, v) s -> eval I k = eval I v) -> (forall k v, In (k, v) s -> top_not v = false) ->
  is_qf t = true -> normal t = true -> eval I (tsubst s t) = eval I t.
Proof.
  induction t as [o args IH] using term_ind'. intros I s He Hs Hqf Hn.
  cbn [normal] in Hn. apply andb_true_iff in Hn. destruct Hn as [Hnn Hna].
  destruct (is_quant_op o) eqn:Hq; [rewrite is_qf_quant in Hqf by auto; discriminate|].
  rewrite is_qf_args in Hqf by auto. rewrite tsubst_nonquant by auto.
  destruct (tlookup s (T o args)) as [v|] eqn:E; [apply tlookup_In in E; symmetry; now apply He|].
  assert (Hmap : map (eval I) (map (tsubst s) args) = map (eval I) args).
  { rewrite map_map. apply map_ext_Forall. rewrite Forall_forall in IH |- *.
    rewrite forallb_forall in Hqf, Hna. intros a Ha. apply IH; auto. }
  destruct (op_eqb o ONot) eqn:Hnot.
  - apply op_eqb_eq in Hnot. subst o. destruct (node_normal_not _ Hnn) as (a & -> & Hta). cbn [map rebuild].
    rewrite eval_mk_not_gen.
    + cbn [map] in Hmap. injection Hmap as Hm. unfold tv. rewrite Hm. reflexivity.
    + intros y Hy. exfalso. destruct a as [oa aa]. cbn [forallb] in Hna, Hqf. rewrite andb_true_r in Hna, Hqf.
      cbn [normal] in Hna. apply andb_true_iff in Hna. destruct Hna as [Hna1 _].
      assert (Hqa : is_quant_op oa = false) by (destruct oa; auto; discriminate).
      assert (Hoa : oa <> ONot) by (intros ->; cbn in Hta; discriminate).
      pose proof (tsubst_top_not s oa aa Hs Hna1 Hqa Hoa) as Ht. rewrite Hy in Ht. discriminate.
  - assert (Ho : o <> ONot) by (intros ->; cbn in Hnot; discriminate).
    rewrite (rebuild_same_len o args) by (auto; apply map_length). now apply eval_congr.
Qed.

(* what the top-level conjuncts entail *)
Definition ent (t a b : term) : Prop := forall I, holds I t -> eval I a = eval I b.
Definition uf_inv (t : term) (m : lmap) : Prop :=
  forall k l, In (k, l) m -> ent t k l /\ sym_or_const l = true.

Lemma lfind_In m k l : lfind m k = Some l -> In (k, l) m.
Proof.
  induction m as [|[x lx] m IH]; cbn; [discriminate|]. destruct (term_eqb x k) eqn:E.
  - intros H. injection H as <-. apply term_eqb_eq in E. subst. now left.
  - intros H. right. auto.
Qed.
Lemma lset_In m k l p : In p (lset m k l) -> In p m \/ p = (k, l).
Proof.
  unfold lset. destruct (lfind m k).
  - intros H. apply in_map_iff in H. destruct H as ([x lx] & <- & Hin). cbn [fst].
    destruct (term_eqb x k) eqn:E; auto. apply term_eqb_eq in E. subst. now right.
  - intros H. apply in_app_or in H. destruct H as [H|[<-|[]]]; auto.
Qed.

Lemma ent_refl t a : ent t a a. Proof. intros I _. reflexivity. Qed.
Lemma ent_sym t a b : ent t a b -> ent t b a. Proof. intros H I Ht. symmetry. now apply H. Qed.
Lemma ent_trans t a b c : ent t a b -> ent t b c -> ent t a c.
Proof. intros H1 H2 I Ht. rewrite (H1 I Ht). now apply H2. Qed.

Lemma ds_add_inv order t m a b m' : uf_inv t m -> ent t a b -> sym_or_const a = true -> sym_or_const b = true ->
  ds_add order m a b = Some m' -> uf_inv t m'.
Proof.
  intros Inv Hab Sa Sb. unfold ds_add.
  destruct (lfind m a) as [la|] eqn:Ea; destruct (lfind m b) as [lb|] eqn:Eb.
  - apply lfind_In in Ea, Eb. destruct (Inv _ _ Ea) as [Ha Sla]. destruct (Inv _ _ Eb) as [Hb Slb].
    destruct (term_eqb la lb); [intros H; injection H as <-; exact Inv|].
    destruct (cmp_gt order la lb) as [sw|]; [|discriminate]. intros H. injection H as <-.
    assert (Hll : ent t la lb) by (eapply ent_trans; [apply ent_sym; exact Ha | eapply ent_trans; [exact Hab | exact Hb]]).
    intros k l Hin. apply in_map_iff in Hin. destruct Hin as ([x lx] & E & Hin). cbn [fst snd] in E.
    destruct (Inv _ _ Hin) as [Hx Slx].
    destruct (term_eqb lx (if sw then la else lb)) eqn:El.
    + injection E as <- <-. apply term_eqb_eq in El. subst lx. destruct sw.
      * split; [eapply ent_trans; [exact Hx | exact Hll] | exact Slb].
      * split; [eapply ent_trans; [exact Hx | apply ent_sym; exact Hll] | exact Sla].
    + injection E as <- <-. auto.
  - apply lfind_In in Ea. destruct (Inv _ _ Ea) as [Ha Sla]. intros H. injection H as <-.
    intros k l Hin. apply lset_In in Hin. destruct Hin as [Hin|Hin]; [auto|]. injection Hin as -> ->.
    split; auto. eapply ent_trans; [apply ent_sym; exact Hab | exact Ha].
  - apply lfind_In in Eb. destruct (Inv _ _ Eb) as [Hb Slb]. intros H. injection H as <-.
    intros k l Hin. apply lset_In in Hin. destruct Hin as [Hin|Hin]; [auto|]. injection Hin as -> ->.
    split; auto. eapply ent_trans; [exact Hab | exact Hb].
  - destruct (cmp_gt order a b) as [sw|]; [|discriminate]. intros H. injection H as <-.
    intros k l Hin. apply lset_In in Hin. destruct Hin as [Hin|Hin].
    + apply lset_In in Hin. destruct Hin as [Hin|Hin]; [auto|]. injection Hin as -> ->. destruct sw; split; auto using ent_refl.
    + injection Hin as -> ->. destruct sw; split; auto using ent_sym.
Qed.

Lemma is_def_spec c l r : is_def c = Some (l, r) -> c = T OEquals [l; r] /\ sym_or_const l = true /\ sym_or_const r = true.
Proof.
  destruct c as [o args]. destruct o; try discriminate. destruct args as [|a [|b [|x y]]]; try discriminate. cbn.
  destruct (is_array_value a || is_array_value b); [discriminate|].
  destruct (sym_or_const a) eqn:Ea; [|discriminate]. destruct (sym_or_const b) eqn:Eb; [|discriminate].
  cbn. intros H. injection H as <- <-. auto.
Qed.

Lemma conjunct_holds t c I : In c (conjunctive_partition t) -> holds I t -> holds I c.
Proof.
  intros Hc Ht. apply holds_tv in Ht. apply holds_tv.
  rewrite <- (conj_partition_tv t I (conjunctive_partition t)) in Ht by apply same_set_refl.
  rewrite tv_mk_and, forallb_forall in Ht. now apply Ht.
Qed.

Lemma scan_inv order t : forall cs rel m rel' m', incl cs (conjunctive_partition t) -> uf_inv t m ->
  scan order cs rel m = Some (rel', m') -> uf_inv t m'.
Proof.
  induction cs as [|c cs IH]; intros rel m rel' m' Hi Inv E; cbn in E; [injection E as <- <-; exact Inv|].
  assert (Hi' : incl cs (conjunctive_partition t)) by (intros x Hx; apply Hi; now right).
  destruct (is_def c) as [[l r]|] eqn:Ed; [|eapply IH; eauto].
  destruct (ds_add order m l r) as [m1|] eqn:Ea; [|discriminate].
  destruct (is_def_spec _ _ _ Ed) as (-> & Sl & Sr).
  eapply IH; [exact Hi' | | exact E]. apply (ds_add_inv order t m l r m1); auto.
  intros I Ht. assert (Hc : holds I (T OEquals [l; r])) by (apply (conjunct_holds t); auto; apply Hi; now left).
  unfold holds in Hc. change (eval I (T OEquals [l; r])) with (VBool (veqb (eval I l) (eval I r))) in Hc.
  injection Hc as Hc. exact (proj1 (veqb_true _ _) Hc).
Qed.

Lemma build_sigma_spec t m : uf_inv t m -> forall rel acc s,
  (forall k v, In (k, v) acc -> ent t k v /\ sym_or_const v = true) ->
  build_sigma rel m acc = SMap s -> forall k v, In (k, v) s -> ent t k v /\ sym_or_const v = true.
Proof.
  intros Inv. induction rel as [|x rel IH]; intros acc s Ha E; cbn in E; [injection E as <-; exact Ha|].
  destruct (lfind m x) as [v|] eqn:Ef; [|eapply IH; eauto].
  destruct (term_eqb x v); [eapply IH; eauto|]. destruct (is_const x && is_const v); [discriminate|].
  eapply IH; [|exact E]. intros k w Hin. apply in_app_or in Hin. destruct Hin as [Hin|[Hin|[]]]; auto.
  injection Hin as <- <-. apply Inv. now apply lfind_In.
Qed.

Lemma sym_or_const_not_not v : sym_or_const v = true -> top_not v = false.
Proof. destruct v as [o args]. destruct o; auto; discriminate. Qed.

(* C10, propagate_toplevel, quantifier-free inputs, the path that builds a substitution *)
Theorem proptop_equiv_partial : forall order t rel m sigma I,
  is_qf t = true -> normal t = true -> boolish t = true -> wf_interp I ->
  scan order (conjunctive_partition t) [] [] = Some (rel, m) -> build_sigma rel m [] = SMap sigma ->
  eval I (T OAnd [tsubst sigma t; reassert sigma]) = eval I t.
Proof.
  intros order t rel m sigma I Hq Hn Hb HI Es Eb.
  assert (Inv : uf_inv t m) by (eapply (scan_inv order t); [apply incl_refl | | exact Es]; intros k l []).
  pose proof (build_sigma_spec t m Inv rel [] sigma (fun k v H => match H with end) Eb) as Hs.
  rewrite eval_and, (is_vbool_eq (eval I t)) by (now apply boolish_is_vbool). f_equal. cbn [forallb]. rewrite andb_true_r.
  change (vbool (eval I t)) with (tv I t).
  assert (Er : tv I (reassert sigma) = forallb (fun kv => veqb (eval I (fst kv)) (eval I (snd kv))) sigma).
  { unfold reassert. rewrite tv_mk_and, forallb_map. reflexivity. }
  rewrite Er. destruct (forallb (fun kv => veqb (eval I (fst kv)) (eval I (snd kv))) sigma) eqn:Ef.
  - rewrite andb_true_r. unfold tv. f_equal. apply tsubst_eval; auto.
    + intros k v Hin. rewrite forallb_forall in Ef. apply (veqb_true (eval I k) (eval I v)). apply (Ef (k, v) Hin).
    + intros k v Hin. apply sym_or_const_not_not. apply (Hs k v Hin).
  - rewrite andb_false_r. destruct (tv I t) eqn:Et; auto. exfalso.
    assert (Ht : holds I t) by (now apply holds_tv).
    assert (F : forallb (fun kv => veqb (eval I (fst kv)) (eval I (snd kv))) sigma = true).
    { apply forallb_forall. intros [k v] Hin. cbn [fst snd]. apply veqb_true. now apply (proj1 (Hs k v Hin) I). }
    congruence.
Qed.

Corollary proptop_equiv_partial' : forall order t r I,
  is_qf t = true -> normal t = true -> boolish t = true -> wf_interp I ->
  propagate_toplevel order t = Some r -> r <> TFalse -> eval I r = eval I t.
Proof.
  intros order t r I Hq Hn Hb HI E Hr. unfold propagate_toplevel in E.
  destruct (scan order (conjunctive_partition t) [] []) as [[rel m]|] eqn:Es; [|discriminate].
  destruct (build_sigma rel m []) as [|sigma] eqn:Eb; injection E as <-; [congruence|].
  eapply proptop_equiv_partial; eauto.
Qed.

(* the refutation witness through the WHOLE model (x has the smaller node id) *)
Example pt_full_output :
  propagate_toplevel [pt_x; pt_y] pt_witness =
  Some (T OAnd [T OAnd [T OEquals [pt_x; pt_x]; T (OExists [("x", bv2)]) [T ONot [T OEquals [pt_x; pt_x]]]];
                T OEquals [pt_y; pt_x]]).
Proof. reflexivity. Qed.
Theorem proptop_full_refuted :
  exists order t r I, wf_interp I /\ boolish t = true /\ normal t = true /\
    propagate_toplevel order t = Some r /\ holds I t /\ ~ holds I r.
Proof.
  exists [pt_x; pt_y], pt_witness, (propagate_with pt_sigma pt_witness), pt_interp.
  destruct proptop_refuted_witness as (H1 & H2). split; [exact pt_interp_wf|]. repeat split; auto.
Qed.

(* ================================================================ the conflict path: two different constants in one class *)
Open Scope Z_scope.
(* a constant as the manager builds it: no arguments; a Real constant in lowest terms *)
Definition const_ok (t : term) : bool :=
  match t with
  | T (OBoolC _) [] | T (OIntC _) [] | T (OStrC _) [] | T (OBVC _ _) [] => true
  | T (ORealC n d) [] => (0 <? d) && (Z.gcd n d =? 1)
  | _ => false
  end.
Definition kc (t : term) : bool := if is_const t then const_ok t else true.
(* every top-level definition  l = r  of the formula has well-formed constants *)
Definition defs_const_ok (t : term) : bool :=
  forallb (fun c => match is_def c with Some (l, r) => kc l && kc r | None => true end) (conjunctive_partition t).

Lemma frac_norm_inj n d n' d' : 0 < d -> 0 < d' -> Z.gcd n d = 1 -> Z.gcd n' d' = 1 -> n * d' = n' * d -> n = n' /\ d = d'.
Proof.
  intros Hd Hd' G G' E.
  assert (D1 : (d | d')).
  { apply (Z.gauss d n d'); [|rewrite Z.gcd_comm; exact G]. exists n'. rewrite E. ring. }
  assert (D2 : (d' | d)).
  { apply (Z.gauss d' n' d); [|rewrite Z.gcd_comm; exact G']. exists n. rewrite <- E. ring. }
  assert (Ed : d = d') by (apply Z.divide_antisym_nonneg; auto; lia). subst d'.
  split; auto. apply (Z.mul_reg_r _ _ d); [lia | exact E].
Qed.

Lemma const_distinct I k v : is_const k = true -> is_const v = true -> const_ok k = true -> const_ok v = true ->
  term_eqb k v = false -> eval I k <> eval I v.
Proof.
  intros Ck Cv Ok Ov Ne E. assert (N : k <> v) by (intros ->; rewrite (proj2 (term_eqb_eq v v) eq_refl) in Ne; discriminate).
  apply N. clear Ne N.
  destruct k as [ok ak], v as [ov av].
  destruct ok; try discriminate; destruct ak; try discriminate;
    destruct ov; try discriminate; destruct av; try discriminate; cbn in E; try discriminate; try (injection E as <-; reflexivity);
      try (injection E; intros; subst; reflexivity).
  (* two Real constants *)
  cbn in Ok, Ov. apply andb_true_iff in Ok, Ov. destruct Ok as [D1 G1], Ov as [D2 G2].
  apply Z.ltb_lt in D1, D2. apply Z.eqb_eq in G1, G2.
  injection E as E. unfold Q2R' in E.
  assert (E' : (IZR num * IZR den0 = IZR num0 * IZR den)%R).
  { assert (H1 : (IZR den <> 0)%R) by (apply not_0_IZR; lia). assert (H2 : (IZR den0 <> 0)%R) by (apply not_0_IZR; lia).
    apply (Rmult_eq_reg_r (/ IZR den * / IZR den0)); [|apply Rmult_integral_contrapositive_currified; apply Rinv_neq_0_compat; auto].
    unfold Rdiv in E. field_simplify_eq; auto. field_simplify_eq in E; auto. }
  rewrite <- !mult_IZR in E'. apply eq_IZR in E'.
  destruct (frac_norm_inj _ _ _ _ D1 D2 G1 G2 E') as [-> ->]. reflexivity.
Qed.
Close Scope Z_scope.

Definition kc_inv (m : lmap) : Prop := forall k l, In (k, l) m -> kc k = true /\ kc l = true.

Lemma ds_add_kc order m a b m' : kc_inv m -> kc a = true -> kc b = true -> ds_add order m a b = Some m' -> kc_inv m'.
Proof.
  intros Inv Ka Kb. unfold ds_add.
  destruct (lfind m a) as [la|] eqn:Ea; destruct (lfind m b) as [lb|] eqn:Eb.
  - apply lfind_In in Ea, Eb. destruct (Inv _ _ Ea) as [_ Kla]. destruct (Inv _ _ Eb) as [_ Klb].
    destruct (term_eqb la lb); [intros H; injection H as <-; exact Inv|].
    destruct (cmp_gt order la lb) as [sw|]; [|discriminate]. intros H. injection H as <-.
    intros k l Hin. apply in_map_iff in Hin. destruct Hin as ([x lx] & E & Hin). cbn [fst snd] in E.
    destruct (Inv _ _ Hin) as [Kx Klx]. destruct (term_eqb lx (if sw then la else lb)); injection E as <- <-; auto.
    destruct sw; auto.
  - apply lfind_In in Ea. destruct (Inv _ _ Ea) as [_ Kla]. intros H. injection H as <-.
    intros k l Hin. apply lset_In in Hin. destruct Hin as [Hin|Hin]; [auto|]. injection Hin as -> ->. auto.
  - apply lfind_In in Eb. destruct (Inv _ _ Eb) as [_ Klb]. intros H. injection H as <-.
    intros k l Hin. apply lset_In in Hin. destruct Hin as [Hin|Hin]; [auto|]. injection Hin as -> ->. auto.
  - destruct (cmp_gt order a b) as [sw|]; [|discriminate]. intros H. injection H as <-.
    intros k l Hin. apply lset_In in Hin. destruct Hin as [Hin|Hin].
    + apply lset_In in Hin. destruct Hin as [Hin|Hin]; [auto|]. injection Hin as -> ->. destruct sw; auto.
    + injection Hin as -> ->. destruct sw; auto.
Qed.

Lemma scan_kc order : forall cs rel m rel' m',
  forallb (fun c => match is_def c with Some (l, r) => kc l && kc r | None => true end) cs = true ->
  kc_inv m -> scan order cs rel m = Some (rel', m') -> kc_inv m'.
Proof.
  induction cs as [|c cs IH]; intros rel m rel' m' Hc Inv E; cbn in E; [injection E as <- <-; exact Inv|].
  cbn in Hc. apply andb_true_iff in Hc. destruct Hc as [Hc1 Hc].
  destruct (is_def c) as [[l r]|] eqn:Ed; [|eapply IH; [exact Hc | exact Inv | exact E]].
  destruct (ds_add order m l r) as [m1|] eqn:Ea; [|discriminate].
  apply andb_true_iff in Hc1. destruct Hc1 as [Kl Kr].
  eapply IH; [exact Hc | | exact E]. apply (ds_add_kc order m l r m1); auto.
Qed.

Lemma build_sigma_conflict m : forall rel acc, build_sigma rel m acc = SConflict ->
  exists k v, In (k, v) m /\ term_eqb k v = false /\ is_const k = true /\ is_const v = true.
Proof.
  induction rel as [|x rel IH]; intros acc E; cbn in E; [discriminate|].
  destruct (lfind m x) as [v|] eqn:Ef; [|eapply IH; eauto].
  destruct (term_eqb x v) eqn:Et; [eapply IH; eauto|].
  destruct (is_const x && is_const v) eqn:Ec; [|eapply IH; eauto].
  apply andb_true_iff in Ec. exists x, v. split; [now apply lfind_In | tauto].
Qed.

(* C10, propagate_toplevel, quantifier-free inputs, both paths *)
Theorem proptop_equiv_qf : forall order t r I,
  is_qf t = true -> normal t = true -> boolish t = true -> defs_const_ok t = true -> wf_interp I ->
  propagate_toplevel order t = Some r -> eval I r = eval I t.
Proof.
  intros order t r I Hq Hn Hb Hc HI E. unfold propagate_toplevel in E.
  destruct (scan order (conjunctive_partition t) [] []) as [[rel m]|] eqn:Es; [|discriminate].
  destruct (build_sigma rel m []) as [|sigma] eqn:Eb; injection E as <-; [|eapply proptop_equiv_partial; eauto].
  (* conflict: the formula is false *)
  assert (Inv : uf_inv t m) by (eapply (scan_inv order t); [apply incl_refl | | exact Es]; intros k l []).
  assert (Kinv : kc_inv m) by (eapply (scan_kc order); [exact Hc | | exact Es]; intros k l []).
  destruct (build_sigma_conflict m rel [] Eb) as (k & v & Hin & Ne & Ck & Cv).
  destruct (Inv _ _ Hin) as [Hent _]. destruct (Kinv _ _ Hin) as [Kk Kv]. unfold kc in Kk, Kv. rewrite Ck in Kk. rewrite Cv in Kv.
  rewrite (is_vbool_eq (eval I t)) by (now apply boolish_is_vbool). cbn. f_equal.
  destruct (vbool (eval I t)) eqn:Et; auto. exfalso.
  assert (Ht : holds I t) by (apply holds_tv; exact Et).
  exact (const_distinct I k v Ck Cv Kk Kv Ne (Hent I Ht)).
Qed.

(* ================================================================ quantified inputs: when the substitution is sound *)
From PySMT.proofs Require Import PrenexSem_proofs.

Fixpoint bvars (t : term) : list var :=
  match t with
  | T o args => (match o with OForall vs | OExists vs => vs | _ => [] end) ++ flat_map bvars args
  end.
(* no variable bound anywhere in t occurs in x *)
Definition free_of_binders (t x : term) : Prop := forall y, In y (bvars t) -> ~ In y (fv x).
Definition unbound (s : list (term * term)) (t : term) : Prop :=
  forall k v, In (k, v) s -> free_of_binders t k /\ free_of_binders t v.

Lemma bvars_arg o args a y : In a args -> In y (bvars a) -> In y (bvars (T o args)).
Proof. intros Ha Hy. cbn [bvars]. apply in_or_app. right. apply in_flat_map. eauto. Qed.
Lemma unbound_arg s o args a : In a args -> unbound s (T o args) -> unbound s a.
Proof. intros Ha H k v Hin. destruct (H k v Hin) as [H1 H2]. split; intros y Hy; [apply H1 | apply H2]; eapply bvars_arg; eauto. Qed.

Lemma eval_bind_free I vs xs x : (forall y, In y vs -> ~ In y (fv x)) -> eval (bind I vs xs) x = eval I x.
Proof.
  intros D. apply coincidence_gen. destruct (bind_other vs xs I) as (A & B & C). repeat split; auto.
  - intros n t Hin. apply bind_isym_notin. intros H. exact (D _ H Hin).
  - intros n t _. now rewrite A.
Qed.

Lemma filter_all {A} (f : A -> bool) l : (forall x, In x l -> f x = true) -> filter f l = l.
Proof. induction l as [|a l IH]; intros H; cbn; auto. rewrite (H a) by now left. f_equal. apply IH. intros; apply H; now right. Qed.

Lemma tfilter_id s vs : (forall k v, In (k, v) s -> forall y, In y vs -> ~ In y (fv k)) -> tfilter s vs = s.
Proof.
  intros H. unfold tfilter. apply filter_all. intros [k v] Hin. cbn [fst]. apply forallb_forall. intros y Hy.
  destruct (mem var_eqb y vs) eqn:M; auto. apply (mem_In var_eqb var_eqb_eq) in M. exfalso. exact (H k v Hin y M Hy).
Qed.

Lemma tsubst_top_not_q s o args : (forall k v, In (k, v) s -> top_not v = false) ->
  node_normal o args = true -> o <> ONot -> top_not (tsubst s (T o args)) = false.
Proof.
  intros Hs Hn Ho. destruct (is_quant_op o) eqn:Hq; [|now apply tsubst_top_not].
  assert (G : top_not (match tlookup s (T o args) with Some v => v | None => rebuild o (map (tsubst s) args) end) = false).
  { destruct (tlookup s (T o args)) as [v|] eqn:E; [apply tlookup_In in E; eapply Hs; eauto|].
    destruct o; try discriminate; destruct (map (tsubst s) args) as [|x [|y l]]; cbn; auto; destruct vs; try discriminate; reflexivity. }
  destruct o; try discriminate; destruct args as [|b [|c l]]; try exact G; cbn [tsubst]; destruct vs; try discriminate; reflexivity.
Qed.

Theorem tsubst_eval_unbound : forall t I s,
  (forall k v, In (k, v) s -> eval I k = eval I v) -> (forall k v, In (k, v) s -> top_not v = false) ->
  unbound s t -> normal t = true -> eval I (tsubst s t) = eval I t.
Proof.
  induction t as [o args IH] using term_ind'. intros I s He Hs Hub Hn.
  cbn [normal] in Hn. apply andb_true_iff in Hn. destruct Hn as [Hnn Hna].
  assert (IHa : forall a, In a args -> forall J s', (forall k v, In (k, v) s' -> eval J k = eval J v) ->
                  (forall k v, In (k, v) s' -> top_not v = false) -> unbound s' a -> eval J (tsubst s' a) = eval J a).
  { rewrite Forall_forall in IH. rewrite forallb_forall in Hna. intros a Ha J s' H1 H2 H3. apply IH; auto. }
  assert (Generic : eval I (match tlookup s (T o args) with Some v => v | None => rebuild o (map (tsubst s) args) end) = eval I (T o args) \/
                    (is_quant_op o = true /\ exists b, args = [b])).
  { destruct (tlookup s (T o args)) as [v|] eqn:E; [left; apply tlookup_In in E; symmetry; now apply He|].
    assert (Hmap : map (eval I) (map (tsubst s) args) = map (eval I) args).
    { rewrite map_map. apply map_ext_Forall. apply Forall_forall. intros a Ha. apply IHa; auto. eapply unbound_arg; eauto. }
    destruct (is_quant_op o) eqn:Hq.
    - destruct args as [|b [|c l]]; [left | right; eauto | left]; destruct o; try discriminate; reflexivity.
    - left. destruct (op_eqb o ONot) eqn:Hnot.
      + apply op_eqb_eq in Hnot. subst o. destruct (node_normal_not _ Hnn) as (a & -> & Hta). cbn [map rebuild].
        rewrite eval_mk_not_gen.
        * cbn [map] in Hmap. injection Hmap as Hm. unfold tv. rewrite Hm. reflexivity.
        * intros y Hy. exfalso. destruct a as [oa aa]. cbn [forallb] in Hna. rewrite andb_true_r in Hna.
          cbn [normal] in Hna. apply andb_true_iff in Hna. destruct Hna as [Hna1 _].
          assert (Hoa : oa <> ONot) by (intros ->; cbn in Hta; discriminate).
          pose proof (tsubst_top_not_q s oa aa Hs Hna1 Hoa) as Ht. rewrite Hy in Ht. discriminate.
      + assert (Ho : o <> ONot) by (intros ->; cbn in Hnot; discriminate).
        rewrite (rebuild_same_len o args) by (auto; apply map_length). now apply eval_congr. }
  destruct Generic as [G|(Hq & b & ->)].
  - destruct (is_quant_op o) eqn:Hq; [|rewrite tsubst_nonquant by auto; exact G].
    destruct o; try discriminate; destruct args as [|b [|c l]]; try exact G.
    + (* impossible: handled by the right disjunct; still provable directly *)
      cbn [tsubst]. destruct vs as [|v0 vs0]; [discriminate|].
      assert (Ef : tfilter s (v0 :: vs0) = s) by (apply tfilter_id; intros k v Hin y Hy; apply (proj1 (Hub k v Hin)); cbn [bvars]; apply in_or_app; now left).
      rewrite Ef. cbn [mk_forall]. cbn [eval]. f_equal. apply emi_iff.
      assert (Eb : forall xs, eval (bind I (v0 :: vs0) xs) (tsubst s b) = eval (bind I (v0 :: vs0) xs) b).
      { intros xs. apply (IHa b (or_introl eq_refl)); auto; [|eapply unbound_arg; eauto; now left].
        intros k v Hin. destruct (Hub k v Hin) as [U1 U2].
        rewrite !eval_bind_free; auto; intros y Hy; [apply U2 | apply U1]; cbn [bvars]; apply in_or_app; now left. }
      split; intros H xs Hok; [rewrite <- Eb | rewrite Eb]; auto.
    + cbn [tsubst]. destruct vs as [|v0 vs0]; [discriminate|].
      assert (Ef : tfilter s (v0 :: vs0) = s) by (apply tfilter_id; intros k v Hin y Hy; apply (proj1 (Hub k v Hin)); cbn [bvars]; apply in_or_app; now left).
      rewrite Ef. cbn [mk_exists]. cbn [eval]. f_equal. apply emi_iff.
      assert (Eb : forall xs, eval (bind I (v0 :: vs0) xs) (tsubst s b) = eval (bind I (v0 :: vs0) xs) b).
      { intros xs. apply (IHa b (or_introl eq_refl)); auto; [|eapply unbound_arg; eauto; now left].
        intros k v Hin. destruct (Hub k v Hin) as [U1 U2].
        rewrite !eval_bind_free; auto; intros y Hy; [apply U2 | apply U1]; cbn [bvars]; apply in_or_app; now left. }
      split; intros (xs & Hok & H); exists xs; split; auto; [rewrite <- Eb | rewrite Eb]; auto.
  - destruct o; try discriminate.
    + cbn [tsubst]. destruct vs as [|v0 vs0]; [discriminate|].
      assert (Ef : tfilter s (v0 :: vs0) = s) by (apply tfilter_id; intros k v Hin y Hy; apply (proj1 (Hub k v Hin)); cbn [bvars]; apply in_or_app; now left).
      rewrite Ef. cbn [mk_forall]. cbn [eval]. f_equal. apply emi_iff.
      assert (Eb : forall xs, eval (bind I (v0 :: vs0) xs) (tsubst s b) = eval (bind I (v0 :: vs0) xs) b).
      { intros xs. apply (IHa b (or_introl eq_refl)); auto; [|eapply unbound_arg; eauto; now left].
        intros k v Hin. destruct (Hub k v Hin) as [U1 U2].
        rewrite !eval_bind_free; auto; intros y Hy; [apply U2 | apply U1]; cbn [bvars]; apply in_or_app; now left. }
      split; intros H xs Hok; [rewrite <- Eb | rewrite Eb]; auto.
    + cbn [tsubst]. destruct vs as [|v0 vs0]; [discriminate|].
      assert (Ef : tfilter s (v0 :: vs0) = s) by (apply tfilter_id; intros k v Hin y Hy; apply (proj1 (Hub k v Hin)); cbn [bvars]; apply in_or_app; now left).
      rewrite Ef. cbn [mk_exists]. cbn [eval]. f_equal. apply emi_iff.
      assert (Eb : forall xs, eval (bind I (v0 :: vs0) xs) (tsubst s b) = eval (bind I (v0 :: vs0) xs) b).
      { intros xs. apply (IHa b (or_introl eq_refl)); auto; [|eapply unbound_arg; eauto; now left].
        intros k v Hin. destruct (Hub k v Hin) as [U1 U2].
        rewrite !eval_bind_free; auto; intros y Hy; [apply U2 | apply U1]; cbn [bvars]; apply in_or_app; now left. }
      split; intros (xs & Hok & H); exists xs; split; auto; [rewrite <- Eb | rewrite Eb]; auto.
Qed.

Definition pinv (P : term -> Prop) (m : lmap) : Prop := forall k l, In (k, l) m -> P k /\ P l.

Lemma ds_add_pinv P order m a b m' : pinv P m -> P a -> P b -> ds_add order m a b = Some m' -> pinv P m'.
Proof.
  intros Inv Ka Kb. unfold ds_add.
  destruct (lfind m a) as [la|] eqn:Ea; destruct (lfind m b) as [lb|] eqn:Eb.
  - apply lfind_In in Ea, Eb. destruct (Inv _ _ Ea) as [_ Kla]. destruct (Inv _ _ Eb) as [_ Klb].
    destruct (term_eqb la lb); [intros H; injection H as <-; exact Inv|].
    destruct (cmp_gt order la lb) as [sw|]; [|discriminate]. intros H. injection H as <-.
    intros k l Hin. apply in_map_iff in Hin. destruct Hin as ([x lx] & E & Hin). cbn [fst snd] in E.
    destruct (Inv _ _ Hin) as [Kx Klx]. destruct (term_eqb lx (if sw then la else lb)); injection E as <- <-; auto.
    destruct sw; auto.
  - apply lfind_In in Ea. destruct (Inv _ _ Ea) as [_ Kla]. intros H. injection H as <-.
    intros k l Hin. apply lset_In in Hin. destruct Hin as [Hin|Hin]; [auto|]. injection Hin as -> ->. auto.
  - apply lfind_In in Eb. destruct (Inv _ _ Eb) as [_ Klb]. intros H. injection H as <-.
    intros k l Hin. apply lset_In in Hin. destruct Hin as [Hin|Hin]; [auto|]. injection Hin as -> ->. auto.
  - destruct (cmp_gt order a b) as [sw|]; [|discriminate]. intros H. injection H as <-.
    intros k l Hin. apply lset_In in Hin. destruct Hin as [Hin|Hin].
    + apply lset_In in Hin. destruct Hin as [Hin|Hin]; [auto|]. injection Hin as -> ->. destruct sw; auto.
    + injection Hin as -> ->. destruct sw; auto.
Qed.
Lemma scan_pinv P order : forall cs rel m rel' m',
  (forall c l r, In c cs -> is_def c = Some (l, r) -> P l /\ P r) ->
  pinv P m -> scan order cs rel m = Some (rel', m') -> pinv P m'.
Proof.
  induction cs as [|c cs IH]; intros rel m rel' m' Hc Inv E; cbn in E; [injection E as <- <-; exact Inv|].
  assert (Hc' : forall c0 l r, In c0 cs -> is_def c0 = Some (l, r) -> P l /\ P r) by (intros c0 l r Hin; apply Hc; now right).
  destruct (is_def c) as [[l r]|] eqn:Ed; [|eapply IH; [exact Hc' | exact Inv | exact E]].
  destruct (ds_add order m l r) as [m1|] eqn:Ea; [|discriminate].
  destruct (Hc c l r (or_introl eq_refl) Ed) as [Pl Pr].
  eapply IH; [exact Hc' | | exact E]. apply (ds_add_pinv P order m l r m1); auto.
Qed.
Lemma build_sigma_in m : forall rel acc s, (forall k v, In (k, v) acc -> In (k, v) m) ->
  build_sigma rel m acc = SMap s -> forall k v, In (k, v) s -> In (k, v) m.
Proof.
  induction rel as [|x rel IH]; intros acc s Ha E; cbn in E; [injection E as <-; exact Ha|].
  destruct (lfind m x) as [v|] eqn:Ef; [|eapply IH; eauto].
  destruct (term_eqb x v); [eapply IH; eauto|]. destruct (is_const x && is_const v); [discriminate|].
  eapply IH; [|exact E]. intros k w Hin. apply in_app_or in Hin. destruct Hin as [Hin|[Hin|[]]]; auto.
  injection Hin as <- <-. now apply lfind_In.
Qed.

(* no symbol of a top-level definition l = r is bound anywhere in the formula *)
Definition defs_unbound (t : term) : Prop :=
  forall c l r, In c (conjunctive_partition t) -> is_def c = Some (l, r) -> free_of_binders t l /\ free_of_binders t r.

(* C10, propagate_toplevel, quantified inputs: sound whenever no key or replacement symbol is bound
   anywhere in the formula (the open finding proptop:substitution-under-binder is the complement) *)
Theorem proptop_equiv_unbound : forall order t r I,
  normal t = true -> boolish t = true -> defs_const_ok t = true -> defs_unbound t -> wf_interp I ->
  propagate_toplevel order t = Some r -> eval I r = eval I t.
Proof.
  intros order t r I Hn Hb Hc Hu HI E. unfold propagate_toplevel in E.
  destruct (scan order (conjunctive_partition t) [] []) as [[rel m]|] eqn:Es; [|discriminate].
  assert (Inv : uf_inv t m) by (eapply (scan_inv order t); [apply incl_refl | | exact Es]; intros k l []).
  destruct (build_sigma rel m []) as [|sigma] eqn:Eb; injection E as <-.
  - (* conflict *)
    assert (Kinv : kc_inv m) by (eapply (scan_kc order); [exact Hc | | exact Es]; intros k l []).
    destruct (build_sigma_conflict m rel [] Eb) as (k & v & Hin & Ne & Ck & Cv).
    destruct (Inv _ _ Hin) as [Hent _]. destruct (Kinv _ _ Hin) as [Kk Kv]. unfold kc in Kk, Kv. rewrite Ck in Kk. rewrite Cv in Kv.
    rewrite (is_vbool_eq (eval I t)) by (now apply boolish_is_vbool). cbn. f_equal.
    destruct (vbool (eval I t)) eqn:Et; auto. exfalso.
    assert (Ht : holds I t) by (apply holds_tv; exact Et).
    exact (const_distinct I k v Ck Cv Kk Kv Ne (Hent I Ht)).
  - assert (Pinv : pinv (free_of_binders t) m).
    { eapply (scan_pinv (free_of_binders t) order); [| |exact Es]; [intros c l r0 Hin Hd; eapply Hu; eauto | intros k l []]. }
    pose proof (build_sigma_spec t m Inv rel [] sigma (fun k v H => match H with end) Eb) as Hs.
    pose proof (build_sigma_in m rel [] sigma (fun k v H => match H with end) Eb) as Hm.
    assert (Hub : unbound sigma t) by (intros k v Hin; apply Pinv; now apply Hm).
    rewrite eval_and, (is_vbool_eq (eval I t)) by (now apply boolish_is_vbool). f_equal. cbn [forallb]. rewrite andb_true_r.
    change (vbool (eval I t)) with (tv I t).
    assert (Er : tv I (reassert sigma) = forallb (fun kv => veqb (eval I (fst kv)) (eval I (snd kv))) sigma).
    { unfold reassert. rewrite tv_mk_and, forallb_map. reflexivity. }
    rewrite Er. destruct (forallb (fun kv => veqb (eval I (fst kv)) (eval I (snd kv))) sigma) eqn:Ef.
    + rewrite andb_true_r. unfold tv. f_equal. apply tsubst_eval_unbound; auto.
      * intros k v Hin. rewrite forallb_forall in Ef. apply (veqb_true (eval I k) (eval I v)). apply (Ef (k, v) Hin).
      * intros k v Hin. apply sym_or_const_not_not. apply (Hs k v Hin).
    + rewrite andb_false_r. destruct (tv I t) eqn:Et; auto. exfalso.
      assert (Ht : holds I t) by (now apply holds_tv).
      assert (F : forallb (fun kv => veqb (eval I (fst kv)) (eval I (snd kv))) sigma = true).
      { apply forallb_forall. intros [k v] Hin. cbn [fst snd]. apply veqb_true. now apply (proj1 (Hs k v Hin) I). }
      congruence.
Qed.

(* the condition is satisfiable by a quantified formula, and the finding's witness violates exactly it *)
Example unbound_example :
  let x := TSym "x" (TBV 2) in let y := TSym "y" (TBV 2) in let z := ("z", TBV 2) in
  let t := T OAnd [T OEquals [y; x]; T (OExists [z]) [T ONot [T OEquals [TSym "z" (TBV 2); y]]]] in
  defs_unbound t /\ defs_const_ok t = true /\ boolish t = true /\ normal t = true /\
  propagate_toplevel [x; y] t =
    Some (T OAnd [T OAnd [T OEquals [x; x]; T (OExists [z]) [T ONot [T OEquals [TSym "z" (TBV 2); x]]]]; T OEquals [y; x]]).
Proof.
  cbn zeta. split; [|repeat split].
  intros c l r Hin Hd. cbn in Hin. destruct Hin as [<-|[<-|[]]]; cbn in Hd; try discriminate.
  injection Hd as <- <-. split; intros y0 Hy; cbn in Hy; destruct Hy as [<-|[]]; cbn; intros [H|[]]; inversion H.
Qed.
Example witness_not_unbound : ~ defs_unbound pt_witness.
Proof.
  intros H. destruct (H (T OEquals [pt_y; pt_x]) pt_y pt_x) as [_ H2]; [cbn; auto | reflexivity|].
  apply (H2 ("x", bv2)); cbn; auto.
Qed.
