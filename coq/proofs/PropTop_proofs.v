(* C10, propagate_toplevel: the substitution built from the top-level equalities is applied under
   quantifiers that bind the representative; the result can be false where the input is true. *)
From Coq Require Import List ZArith Bool String Reals Lia.
From PySMT.core Require Import Syntax SyntaxLemmas Sem.
From PySMT.models Require Import Oracles C10Local Partition PropTop.
From PySMT.proofs Require Import Coincidence C10Local_proofs.
Import ListNotations.
Open Scope bool_scope.
Open Scope string_scope.

Definition bv2 := TBV 2.
Definition pt_x := TSym "x" bv2.
Definition pt_y := TSym "y" bv2.
(* (y = x) & (exists x . !(x = y)) *)
Definition pt_witness : term :=
  T OAnd [T OEquals [pt_y; pt_x]; T (OExists [("x", bv2)]) [T ONot [T OEquals [pt_x; pt_y]]]].
Definition pt_sigma : list (var * term) := [(("y", bv2), pt_x)].
Definition pt_interp : interp :=
  {| isym := fun _ t => match t with TBV _ => VBV 2 0 | TBool => VBool false | TInt => VInt 0 | TReal => VReal 0
                                  | TStr => VStr [] | TArr _ _ => VArr (fun _ => VBool false)
                                  | TUser n _ => VU n 0 | TFun _ _ => VBool false end;
     ifun := fun _ _ _ => VBool false; rdiv0 := fun x => x; idiv0 := fun x => x |}.

Example pt_output :
  propagate_with pt_sigma pt_witness =
  T OAnd [T OAnd [T OEquals [pt_x; pt_x]; T (OExists [("x", bv2)]) [T ONot [T OEquals [pt_x; pt_x]]]];
          T OEquals [pt_y; pt_x]].
Proof. reflexivity. Qed.

(* the full clause [licensed sigma t -> holds I (propagate_with sigma t) <-> holds I t] is FALSE: *)
Theorem proptop_refuted :
  exists t sigma I, licensed sigma t = true /\ holds I t /\ ~ holds I (propagate_with sigma t).
Proof.
  exists pt_witness, pt_sigma, pt_interp. split; [reflexivity|]. split.
  - apply holds_tv. unfold pt_witness. rewrite tv_and. cbn [forallb]. rewrite andb_true_r. apply andb_true_iff. split.
    + unfold tv. cbn. now rewrite veqb_refl.
    + apply tv_exists_true. exists [VBV 2 1]. split.
      * cbn. repeat split; lia.
      * rewrite tv_not. unfold tv. cbn.
        destruct (veqb (VBV 2 1) (VBV 2 0)) eqn:E; auto. apply veqb_true in E. discriminate.
  - rewrite holds_tv, pt_output, tv_and. cbn [forallb]. rewrite tv_and. cbn [forallb].
    assert (F : tv pt_interp (T (OExists [("x", bv2)]) [T ONot [T OEquals [pt_x; pt_x]]]) = false).
    { destruct (tv pt_interp (T (OExists [("x", bv2)]) [T ONot [T OEquals [pt_x; pt_x]]])) eqn:E; auto.
      apply tv_exists_true in E. destruct E as (xs & _ & E). rewrite tv_not in E. unfold tv in E. cbn in E.
      rewrite veqb_refl in E. discriminate. }
    rewrite F. rewrite !andb_false_r. cbn. discriminate.
Qed.
