(* get_closer_logic / most_generic_logic instantiated at the logics generated from logics.py *)
From Coq Require Import Bool List String.
From PySMT.gen Require Import Logics.
From PySMT.models Require Import LogicSelect.
From PySMT.proofs Require Import Logics_proofs LogicSelect_proofs.
Import ListNotations.
Open Scope bool_scope.

Definition closer (S : list logic) (t : logic) := get_closer_logic logic l_le l_ne lname S t.
Definition most_generic (S : list logic) := most_generic_logic logic l_le S.

(* a list of supported logics is admissible when its theories are well-formed and no two
   entries differ only by name; every sub-list of the named tables is (tables_wf_antisym). *)
Definition admissible (S : list logic) : Prop :=
  (forall l, In l S -> lwf l = true) /\
  (forall a b, In a S -> In b S -> l_le a b = true -> l_le b a = true -> a = b).

Lemma table_admissible L : table_facts L = true -> forall S, incl S L -> admissible S.
Proof.
  unfold table_facts. rewrite andb_true_iff, !forallb_forall. intros [Hw Ha] S HS. split.
  - intros l Hl. apply Hw, HS, Hl.
  - intros a b Hina Hinb H1 H2. specialize (Ha a (HS _ Hina)). rewrite forallb_forall in Ha.
    specialize (Ha b (HS _ Hinb)). rewrite H1, H2 in Ha. cbn in Ha. rewrite negb_true_iff in Ha.
    apply l_ne_false_iff in Ha; auto.
Qed.

Theorem closer_logic_sound : forall S t r, admissible S -> lwf t = true ->
  closer S t = SelOk r ->
  In r S /\ l_le t r = true /\
  forall k, In k S -> l_le t k = true -> ~ (l_ne r k = true /\ l_le k r = true).
Proof.
  intros S t r [Hw Ha] Ht H. unfold closer in H.
  eapply (get_closer_logic_ok logic l_le l_ne lname S t) in H; eauto.
Qed.

Theorem closer_logic_fails_only_without_candidate : forall S t, admissible S -> lwf t = true ->
  (closer S t = SelNoLogic <-> forall l, In l S -> l_le t l = false) /\
  closer S t <> SelIndexError.
Proof.
  intros S t [Hw Ha] Ht. split.
  - apply get_closer_logic_none.
  - apply (get_closer_logic_no_index_error logic l_le l_ne lname S t); auto.
    + intros a b Hina Hinb. apply l_ne_false_iff; auto.
    + intros a b c Hia Hib Hic. apply l_le_trans; auto.
Qed.

Theorem most_generic_sound : forall S r, most_generic S = SelOk r ->
  In r S /\ forall x, In x S -> l_le x r = true.
Proof. intros S r. apply most_generic_logic_ok. Qed.
