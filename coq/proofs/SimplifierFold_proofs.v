(* Constant folding facts about models/Simplifier.v (syntactic; for every order oracle). *)
From Coq Require Import List ZArith Bool String Lia.
From PySMT.core Require Import Syntax SyntaxLemmas PyPrims.
From PySMT.models Require Import TypeChecker Oracles Ctors Simplifier.
From PySMT.proofs Require Import Simplifier_proofs.
Import ListNotations.
Open Scope bool_scope.

(* ------------------------------------------------------------------ constant arguments fold *)
(* Operators for which it is proved that constant arguments are folded to a constant (whenever
   the rule returns at all): all bit-vector operators and relations, bv2nat, and the Boolean
   connectives Not / Iff / Implies. *)
Definition fold_op (o : op) : bool :=
  match o with
  | OBV _ _ | OBVRel _ | OBVExtract _ _ _ | OBVRol _ _ | OBVRor _ _ | OBVZext _ _ | OBVSext _ _
  | OBVToNat | ONot | OIff | OImplies => true
  | _ => false
  end.
Definition arg_const_for (o : op) (a : term) : bool :=
  match o with
  | ONot | OIff | OImplies => is_bool_constant a
  | _ => is_bv_constant a
  end.

Lemma const_mk_bv v w r : mk_bv v w = Some r -> is_bv_constant r = true.
Proof.
  unfold mk_bv. destruct (v <? 0)%Z; [discriminate|]. destruct (2 ^ w <=? v)%Z; [discriminate|].
  intros H; inversion H; reflexivity.
Qed.
Lemma const_mk_bv_bits bits w r : mk_bv_bits bits w = Some r -> is_bv_constant r = true.
Proof.
  unfold mk_bv_bits. destruct (int_of_bits bits); [|discriminate].
  destruct w as [w'|]; [destruct (w' =? zlen bits)%Z; [|discriminate]|]; apply const_mk_bv.
Qed.
Lemma bvc_is_const r : is_bv_constant r = true -> is_const r = true.
Proof. unfold is_bv_constant, is_const. destruct (top r); auto. Qed.
Lemma bvc_value a : is_bv_constant a = true -> exists v, bv_value a = Some v.
Proof. unfold is_bv_constant, bv_value. destruct (top a); try discriminate. eauto. Qed.
Lemma bvc_signed a : is_bv_constant a = true -> exists v, bv_signed_value a = Some v.
Proof. unfold is_bv_constant, bv_signed_value. destruct (top a); try discriminate. eauto. Qed.
Lemma bvc_bin_str a : is_bv_constant a = true -> exists v, bv_bin_str a = Some v.
Proof. unfold is_bv_constant, bv_bin_str. destruct (top a); try discriminate. eauto. Qed.
Lemma bvc_is_constant a : is_bv_constant a = true -> is_constant a = true.
Proof. destruct a as [o xs]. unfold is_bv_constant. cbn. destruct o; try discriminate; auto. Qed.

#[export] Hint Immediate const_mk_bv const_mk_bv_bits : constdb.
Ltac use_bvc :=
  repeat match goal with
         | H : is_bv_constant ?a = true |- _ =>
             let v := fresh "v" in let E := fresh "Ev" in
             let s := fresh "sv" in let Es := fresh "Es" in
             let b := fresh "bs" in let Eb := fresh "Eb" in
             destruct (bvc_value a H) as [v E]; destruct (bvc_signed a H) as [s Es];
             destruct (bvc_bin_str a H) as [b Eb];
             pose proof (bvc_is_constant a H);
             revert H
         end; intros.
Ltac fold_rule E :=
  unfold bind in E;
  repeat match goal with
         | H : bv_value _ = Some _ |- _ => rewrite H in E
         | H : bv_signed_value _ = Some _ |- _ => rewrite H in E
         | H : bv_bin_str _ = Some _ |- _ => rewrite H in E
         | H : is_constant _ = true |- _ => rewrite H in E
         | H : is_bv_constant _ = true |- _ => rewrite H in E
         end;
  crush E; eauto with constdb.

Lemma fold_bv_neg w a r : is_bv_constant a = true -> r_bv_neg w a = Some r -> is_bv_constant r = true.
Proof. intros Ha E. use_bvc. unfold r_bv_neg in E. fold_rule E. Qed.
Lemma fold_bv_udiv w a b r : is_bv_constant a = true -> is_bv_constant b = true ->
  r_bv_udiv w a b = Some r -> is_bv_constant r = true.
Proof. intros Ha Hb E. use_bvc. unfold r_bv_udiv in E. fold_rule E. Qed.
Lemma fold_bv_urem w a b r : is_bv_constant a = true -> is_bv_constant b = true ->
  r_bv_urem w a b = Some r -> is_bv_constant r = true.
Proof. intros Ha Hb E. use_bvc. unfold r_bv_urem in E. fold_rule E. Qed.
Lemma fold_bv_shift k sh a b r : is_bv_constant a = true -> is_bv_constant b = true ->
  r_bv_shift k sh a b = Some r -> is_bv_constant r = true.
Proof. intros Ha Hb E. use_bvc. unfold r_bv_shift in E. fold_rule E. Qed.
Lemma fold_neg_c a r : is_bv_constant a = true -> neg_c a = Some r -> is_bv_constant r = true.
Proof. unfold neg_c. apply fold_bv_neg. Qed.

Ltac fwdc :=
  repeat match goal with
         | H : neg_c ?a = Some ?r, Ha : is_bv_constant ?a = true |- _ =>
             lazymatch goal with _ : is_bv_constant r = true |- _ => fail
                                | _ => pose proof (fold_neg_c a r Ha H) end
         | H : r_bv_udiv ?w ?a ?b = Some ?r, Ha : is_bv_constant ?a = true, Hb : is_bv_constant ?b = true |- _ =>
             lazymatch goal with _ : is_bv_constant r = true |- _ => fail
                                | _ => pose proof (fold_bv_udiv w a b r Ha Hb H) end
         | H : r_bv_urem ?w ?a ?b = Some ?r, Ha : is_bv_constant ?a = true, Hb : is_bv_constant ?b = true |- _ =>
             lazymatch goal with _ : is_bv_constant r = true |- _ => fail
                                | _ => pose proof (fold_bv_urem w a b r Ha Hb H) end
         | H : Some ?a = Some ?r, Ha : is_bv_constant ?a = true |- _ =>
             lazymatch goal with _ : is_bv_constant r = true |- _ => fail
                                | _ => (assert (is_bv_constant r = true) by (inversion H; subst; exact Ha)) end
         end.

Lemma fold_bv_sdiv a b r : is_bv_constant a = true -> is_bv_constant b = true ->
  r_bv_sdiv a b = Some r -> is_bv_constant r = true.
Proof.
  intros Ha Hb E. unfold r_bv_sdiv, bind in E.
  destruct (bvc_signed a Ha) as [sa Esa]. destruct (bvc_signed b Hb) as [sb Esb].
  rewrite Esa, Esb in E.
  repeat (destr_in E; try discriminate E); fwdc; auto.
Qed.
Lemma fold_bv_srem a b r : is_bv_constant a = true -> is_bv_constant b = true ->
  r_bv_srem a b = Some r -> is_bv_constant r = true.
Proof.
  intros Ha Hb E. unfold r_bv_srem, bind in E.
  destruct (bvc_signed a Ha) as [sa Esa]. destruct (bvc_signed b Hb) as [sb Esb].
  rewrite Esa, Esb in E.
  destruct (sa <? 0)%Z; destruct (sb <? 0)%Z;
    repeat (destr_in E; try discriminate E); fwdc; auto.
Qed.
Lemma fold_bv_ashr w a b r : is_bv_constant a = true -> is_bv_constant b = true ->
  r_bv_ashr w a b = Some r -> is_bv_constant r = true.
Proof.
  intros Ha Hb E. unfold r_bv_ashr, bind, r_bv_lshr in E.
  destruct (bvc_signed a Ha) as [sa Esa]. destruct (bvc_value b Hb) as [vb Evb].
  rewrite Esa, Evb in E.
  destruct (r_bv_shift BLshr py_shr a b) eqn:Es; [|discriminate].
  pose proof (fold_bv_shift _ _ _ _ _ Ha Hb Es).
  crush E; eauto with constdb.
Qed.

Lemma fold_bv_not w a r : is_bv_constant a = true -> r_bv_not w a = Some r -> is_bv_constant r = true.
Proof. intros Ha E. use_bvc. unfold r_bv_not in E. fold_rule E. Qed.
Lemma fold_bv_and w a b r : is_bv_constant a = true -> is_bv_constant b = true ->
  r_bv_and w a b = Some r -> is_bv_constant r = true.
Proof. intros Ha Hb E. use_bvc. unfold r_bv_and in E. fold_rule E. Qed.
Lemma fold_bv_or w a b r : is_bv_constant a = true -> is_bv_constant b = true ->
  r_bv_or w a b = Some r -> is_bv_constant r = true.
Proof. intros Ha Hb E. use_bvc. unfold r_bv_or in E. fold_rule E. Qed.
Lemma fold_bv_xor w a b r : is_bv_constant a = true -> is_bv_constant b = true ->
  r_bv_xor w a b = Some r -> is_bv_constant r = true.
Proof. intros Ha Hb E. use_bvc. unfold r_bv_xor in E. fold_rule E. Qed.
Lemma fold_bv_add w a b r : is_bv_constant a = true -> is_bv_constant b = true ->
  r_bv_add w a b = Some r -> is_bv_constant r = true.
Proof. intros Ha Hb E. use_bvc. unfold r_bv_add in E. fold_rule E. Qed.
Lemma fold_bv_mul w a b r : is_bv_constant a = true -> is_bv_constant b = true ->
  r_bv_mul w a b = Some r -> is_bv_constant r = true.
Proof. intros Ha Hb E. use_bvc. unfold r_bv_mul in E. fold_rule E. Qed.
Lemma fold_bv_comp a b r : is_bv_constant a = true -> is_bv_constant b = true ->
  r_bv_comp a b = Some r -> is_bv_constant r = true.
Proof. intros Ha Hb E. use_bvc. unfold r_bv_comp in E. fold_rule E. Qed.
Lemma fold_bv_concat a b r : is_bv_constant a = true -> is_bv_constant b = true ->
  r_bv_concat a b = Some r -> is_bv_constant r = true.
Proof.
  intros Ha Hb E. unfold r_bv_concat in E. unfold is_bv_constant in Ha, Hb.
  destruct (top a); try discriminate. destruct (top b); try discriminate.
  eapply const_mk_bv; eauto.
Qed.
Lemma fold_bv_sub w a b r : is_bv_constant a = true -> is_bv_constant b = true ->
  r_bv_sub w a b = Some r -> is_bv_constant r = true.
Proof.
  intros Ha Hb E. unfold r_bv_sub in E.
  destruct (bvc_value a Ha) as [va Eva]. destruct (bvc_value b Hb) as [vb Evb]. rewrite Eva, Evb in E.
  destruct (vb =? 0)%Z; [inversion E; subst; auto|]. eauto with constdb.
Qed.

Ltac two_args args H :=
  destruct args as [|a [|b [|? ?]]]; try discriminate;
  inversion H as [|? ? Ha H']; subst; inversion H' as [|? ? Hb ?]; subst.
Ltac two_args' args H :=
  destruct args as [|a [|b ?]]; try discriminate;
  inversion H as [|? ? Ha H']; subst; inversion H' as [|? ? Hb ?]; subst.
Ltac one_arg' args H :=
  destruct args as [|a ?]; try discriminate; inversion H as [|? ? Ha H']; subst.

Theorem const_args_fold : forall ora o args r,
  fold_op o = true -> Forall (fun a => arg_const_for o a = true) args ->
  rule ora o args = Some r -> is_const r = true.
Proof.
  intros ora o args r Ho H E.
  destruct o; try discriminate Ho; cbn [rule] in E; unfold un, bin, tern in E; unfold arg_const_for in H.
  - (* Not *)
    destruct args as [|a [|? ?]]; try discriminate. inversion E; subst. inversion H; subst.
    unfold r_not, is_bool_constant in *. destruct (top a); try discriminate; reflexivity.
  - (* Implies *)
    two_args args H. inversion E; subst.
    unfold r_implies, is_bool_constant, is_const in *.
    destruct (top a); try discriminate; destruct (top b) eqn:Eb; try discriminate.
    destruct b0; cbn; [rewrite Eb|]; reflexivity.
  - (* Iff *)
    two_args args H. inversion E; subst.
    unfold r_iff, is_bool_constant, is_const in *.
    destruct (top a); try discriminate; destruct (top b) eqn:Eb; try discriminate. reflexivity.
  - (* OBV *)
    apply bvc_is_const. destruct k; cbv beta iota in E.
    + one_arg' args H. cbv beta in Ha. exact (fold_bv_not _ _ _ Ha E).
    + two_args' args H. cbv beta in Ha, Hb. exact (fold_bv_and _ _ _ _ Ha Hb E).
    + two_args' args H. cbv beta in Ha, Hb. exact (fold_bv_or _ _ _ _ Ha Hb E).
    + two_args' args H. cbv beta in Ha, Hb. exact (fold_bv_xor _ _ _ _ Ha Hb E).
    + two_args' args H. cbv beta in Ha, Hb. exact (fold_bv_concat _ _ _ Ha Hb E).
    + one_arg' args H. cbv beta in Ha. exact (fold_bv_neg _ _ _ Ha E).
    + two_args' args H. cbv beta in Ha, Hb. exact (fold_bv_add _ _ _ _ Ha Hb E).
    + two_args' args H. cbv beta in Ha, Hb. exact (fold_bv_sub _ _ _ _ Ha Hb E).
    + two_args' args H. cbv beta in Ha, Hb. exact (fold_bv_mul _ _ _ _ Ha Hb E).
    + two_args' args H. cbv beta in Ha, Hb. exact (fold_bv_udiv _ _ _ _ Ha Hb E).
    + two_args' args H. cbv beta in Ha, Hb. exact (fold_bv_urem _ _ _ _ Ha Hb E).
    + two_args' args H. cbv beta in Ha, Hb. exact (fold_bv_shift _ _ _ _ _ Ha Hb E).
    + two_args' args H. cbv beta in Ha, Hb. exact (fold_bv_shift _ _ _ _ _ Ha Hb E).
    + two_args args H. cbv beta in Ha, Hb. exact (fold_bv_comp _ _ _ Ha Hb E).
    + two_args args H. cbv beta in Ha, Hb. exact (fold_bv_sdiv _ _ _ Ha Hb E).
    + two_args' args H. cbv beta in Ha, Hb. exact (fold_bv_srem _ _ _ Ha Hb E).
    + two_args args H. cbv beta in Ha, Hb. exact (fold_bv_ashr _ _ _ _ Ha Hb E).
  - (* OBVRel *)
    destruct k; cbv beta iota in E; two_args' args H; use_bvc.
    + unfold r_bv_ult in E. fold_rule E.
    + unfold r_bv_ule in E. fold_rule E.
    + unfold r_bv_scmp in E. fold_rule E.
    + unfold r_bv_scmp in E. fold_rule E.
  - one_arg' args H. use_bvc. apply bvc_is_const. unfold r_bv_extract in E. fold_rule E.
  - one_arg' args H. use_bvc. apply bvc_is_const. unfold r_bv_rol in E. fold_rule E.
  - one_arg' args H. use_bvc. apply bvc_is_const. unfold r_bv_ror in E. fold_rule E.
  - one_arg' args H. use_bvc. apply bvc_is_const. unfold r_bv_zext in E. fold_rule E.
  - one_arg' args H. use_bvc. apply bvc_is_const. unfold r_bv_sext in E. fold_rule E.
  - one_arg' args H. use_bvc. unfold r_bv_tonatural in E. fold_rule E.
Qed.

(* the hypotheses above are satisfiable, and the rules they speak about do real work *)
Example fold_example :
  rule no_oracle (OBV BAdd 4) [TBVC 3 4; TBVC 14 4] = Some (TBVC 1 4) /\
  fold_op (OBV BAdd 4) = true /\
  Forall (fun a => arg_const_for (OBV BAdd 4) a = true) [TBVC 3 4; TBVC 14 4].
Proof. repeat split; repeat constructor. Qed.
Example simplify_example :
  let p := TSym "p" TBool in let q := TSym "q" TBool in
  simplify (T OAnd [T OAnd [p; q]; T ONot [q]]) = TFalse /\
  simplify (T (OForall [("p"%string, TBool); ("x"%string, TInt)]) [T OOr [q; p]]) =
    T (OForall [("p"%string, TBool)]) [T OOr [q; p]].
Proof. split; reflexivity. Qed.
