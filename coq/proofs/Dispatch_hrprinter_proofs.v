(* HRPrinter (pysmt/printers.py): the dispatch table (including the class-level aliases
   walk_bv_and = walk_and ...) and the separators regenerated from the source against
   models/HrPrinter.v [hr_node]. *)
From Coq Require Import List ZArith Bool String.
From PySMT.core Require Import Syntax.
From PySMT.gen Require Import Operators Dispatch.
From PySMT.models Require Import HrPrinter.
From PySMT.proofs Require Import Operators_proofs Dispatch_common.
Import ListNotations.
Open Scope string_scope.

(* ------------------------------------------------------------------ HRPrinter *)
Definition hr_aliases : list (node_type * string) :=
  [(NT_BV_AND, "walk_and"); (NT_BV_OR, "walk_or"); (NT_BV_NOT, "walk_not"); (NT_BV_ADD, "walk_plus");
   (NT_BV_MUL, "walk_times"); (NT_BV_SUB, "walk_minus")].
Definition hr_expected (n : node_type) : string :=
  match find (fun p => nt_eqb (fst p) n) hr_aliases with Some p => snd p | None => default_handler n end.

Theorem hrprinter_dispatch_matches_source : forall n, hrprinter_dispatch n = hr_expected n.
Proof. apply by_table. vm_compute. reflexivity. Qed.

(* the separator the source passes to walk_nary is the one the model writes (also through the aliases:
   BV_AND is printed by walk_and, hence with " & ") *)
Theorem hrprinter_separators_match_source : forall o sep a,
  hrprinter_nary_symbol (nt_of_op o) = Some sep -> hr_node o a = nary sep a.
Proof.
  intros o sep a H. destruct o; try split_kind; vm_compute in H; try discriminate H; injection H as <-; reflexivity.
Qed.
