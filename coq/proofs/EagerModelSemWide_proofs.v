(* C02, semantic clause on a WIDER fragment than EagerModelSem_proofs.gfrag (whose statements are left as
   they are): every operator except Pow, uninterpreted functions and quantifiers - in particular all string
   operators, Select / Store / ArrayValue / Equals / Ite on arrays, ToReal, every bit-vector operator.
   As before the theorems compose
     - the substitution of a model (symbols -> scalar constants) into the formula: here TOTAL on the
       fragment (every constructor succeeds: [subst_wide]) with C05's typed substitution lemma
       (SubstituterTyped_proofs: sort, well-formedness and value preserved), and
     - C01's simplify_sound / fold_complete_wide (SimplifierFoldWide_proofs).
   Side conditions of the "returns the constant" theorems, on the formula f under the interpretation I:
     nodiv0 I f   no divisor of an Int / Real division evaluates to 0;
     strlim I f   every str.to_int argument has at most 4300 characters and every str.from_int argument is
                  below 10^4300 (CPython's int <-> str limit, beyond which the simplifier leaves the node).
   Models assign SCALAR constants (as in EagerModelSem_proofs.model_ok); array-sorted symbols can occur in the
   formula but have no documented default and cannot be assigned here: for them get_value raises. *)
From Coq Require Import List ZArith Bool String Reals Lia.
From PySMT.core Require Import Syntax SyntaxLemmas PyPrims Types Sem.
From PySMT.models Require Import TypeChecker Oracles Ctors Simplifier Substituter EagerModel.
From PySMT.proofs Require Import Sets_proofs TypeChecker_proofs Coincidence Simplifier_proofs
     SimplifierSem_proofs SimplifierFoldComplete_proofs SimplifierFoldWide_proofs
     Substituter_proofs SubstituterTyped_proofs EagerModel_proofs EagerModelSem_proofs.
Import ListNotations.
Open Scope bool_scope.

(* ------------------------------------------------------------------ the fragment *)
Definition gwop (o : op) : bool :=
  match o with OPow | OFunction _ _ | OForall _ | OExists _ => false | _ => true end.
Definition is_sym (o : op) : bool := match o with OSymbol _ _ => true | _ => false end.
Fixpoint allops (P : op -> bool) (t : term) : bool :=
  match t with T o args => P o && (fix all (l : list term) : bool := match l with [] => true | x :: r => allops P x && all r end) args end.
Lemma allops_unfold P o args : allops P (T o args) = P o && forallb (allops P) args.
Proof. reflexivity. Qed.
Lemma allops_args P o args : allops P (T o args) = true -> P o = true /\ Forall (fun a => allops P a = true) args.
Proof.
  rewrite allops_unfold. intros H. apply andb_true_iff in H. destruct H as [H1 H2]. split; auto.
  apply Forall_forall. now apply forallb_forall.
Qed.
Lemma allops_intro P o args : P o = true -> Forall (fun a => allops P a = true) args -> allops P (T o args) = true.
Proof. intros H F. rewrite allops_unfold, H. apply forallb_forall. now apply Forall_forall. Qed.
Definition gwops := allops gwop.
Definition closed_op (o : op) : bool := gwop o && negb (is_sym o).
(* quantifier-free, UF-free, Pow-free, well-formed *)
Definition gwfrag (t : term) : bool := okt t && gwops t.

Lemma allops_wops : forall t, allops closed_op t = true -> wops t = true.
Proof.
  induction t as [o args IH] using term_ind'. intros H. destruct (allops_args _ _ _ H) as [Ho Fa].
  rewrite wops_unfold. apply andb_true_iff. split.
  - destruct o; try discriminate Ho; reflexivity.
  - apply forallb_forall. intros a Ha. rewrite Forall_forall in IH, Fa. auto.
Qed.
Lemma gwops_pownn : forall t, gwops t = true -> pownn t = true.
Proof.
  induction t as [o args IH] using term_ind'. intros H. destruct (allops_args _ _ _ H) as [Ho Fa].
  rewrite pownn_unfold. apply andb_true_iff. split.
  - destruct o; try discriminate Ho; reflexivity.
  - apply forallb_forall. intros a Ha. rewrite Forall_forall in IH, Fa. auto.
Qed.
Lemma gwops_tfrag : forall t, gwops t = true -> afrag t = true.
Proof.
  induction t as [o args IH] using term_ind'. intros H. destruct (allops_args _ _ _ H) as [Ho Fa].
  unfold afrag. cbn [tfrag]. apply andb_true_iff. split; [destruct o; try discriminate Ho; reflexivity|].
  clear - IH Fa. induction args as [|a r IHr]; [reflexivity|]. inversion IH; subst. inversion Fa; subst.
  apply andb_true_iff. split; [apply H1; auto | apply IHr; auto].
Qed.
Lemma gwops_qf : forall t, gwops t = true -> is_qf t = true.
Proof.
  induction t as [o args IH] using term_ind'. intros H. destruct (allops_args _ _ _ H) as [Ho Fa].
  assert (G : forallb is_qf args = true).
  { apply forallb_forall. intros a Ha. rewrite Forall_forall in IH, Fa. auto. }
  destruct o; try discriminate Ho; exact G.
Qed.

(* ------------------------------------------------------------------ every constructor succeeds, and what it returns *)
Definition rb_shape (o : op) (args : list term) (r : term) : Prop :=
  r = T o args \/ In r args \/ (exists y, In (T ONot [y]) args /\ r = y) \/ kconst r \/
  (exists a b inv, o = ODiv /\ args = [a; b] /\ r = T OTimes [a; mk_real inv]) \/
  (exists it d rest l, o = OArrayValue it /\ args = d :: rest /\ r = T (OArrayValue it) (d :: l) /\ incl l rest).

Lemma rebuild_wide o args ty : gwop o = true -> anode_ok o args = true -> Forall (fun a => okt a = true) args ->
  tc (T o args) = Some ty -> exists r, rebuild o args = Some r /\ rb_shape o args r.
Proof.
  intros Hg Hk Fo Htc.
  destruct (same_op o) eqn:Hs.
  { assert (Hk' : ok_node o args = true) by (destruct o; try exact Hk; discriminate Hs).
    exists (T o args). split; [now apply (rebuild_same o args ty) | left; reflexivity]. }
  destruct o; try discriminate Hs; try discriminate Hg; cbn [anode_ok] in Hk; cbn [rebuild].
  - (* and *) eexists; split; [reflexivity|]. unfold mk_and. destruct args as [|x [|y l]].
    + right; right; right; left. exists (OBoolC true). split; [reflexivity | exact Logic.I].
    + right; left; cbn; auto.
    + left; reflexivity.
  - (* or *) eexists; split; [reflexivity|]. unfold mk_or. destruct args as [|x [|y l]].
    + right; right; right; left. exists (OBoolC false). split; [reflexivity | exact Logic.I].
    + right; left; cbn; auto.
    + left; reflexivity.
  - (* not *) cbn [ok_node] in Hk. destruct args as [|a [|? ?]]; try discriminate Hk.
    eexists; split; [reflexivity|]. unfold mk_not. destruct (is_not a) eqn:Hn; [|left; reflexivity].
    destruct a as [oa la]. unfold is_not in Hn. cbn [top] in Hn. destruct oa; try discriminate Hn.
    inversion Fo as [|? ? Oa _]; subst. pose proof (okt_node _ _ Oa) as Hka. cbn [ok_node] in Hka.
    destruct la as [|y [|? ?]]; try discriminate Hka. right; right; left. exists y. split; [cbn; auto | reflexivity].
  - (* real constant *) pose proof (const_no_args _ _ _ Htc Logic.I) as ->. eexists; split; [reflexivity|].
    right; right; right; left. apply mk_real_kconst.
  - (* plus *) cbn [ok_node] in Hk. unfold mk_plus. destruct args as [|x [|y l]]; [discriminate Hk | |].
    + eexists; split; [reflexivity|]. right; left; cbn; auto.
    + eexists; split; [reflexivity|]. left; reflexivity.
  - (* times *) cbn [ok_node] in Hk. unfold mk_times. destruct args as [|x [|y l]]; [discriminate Hk | |].
    + eexists; split; [reflexivity|]. right; left; cbn; auto.
    + eexists; split; [reflexivity|]. left; reflexivity.
  - (* toreal *) cbn [ok_node] in Hk. destruct args as [|a [|? ?]]; try discriminate Hk.
    destruct (tc_inv _ _ _ Htc) as (tys & Ht & Hr). pose proof (tcs_Forall2 _ _ Ht) as F2.
    inversion F2 as [|? ta ? ? Ta F2']; subst. inversion F2'; subst. cbn in Hr. apply type_to_type_inv in Hr. destruct Hr as [Hall _].
    inversion Hall; subst. unfold mk_toreal. rewrite Ta. destruct a as [oa la]. cbn [top].
    destruct (match oa with OIntC _ => true | _ => false end) eqn:Hic.
    + destruct oa; try discriminate Hic. eexists; split; [reflexivity|]. right; right; right; left. apply mk_real_kconst.
    + exists (T OToReal [T oa la]). split; [destruct oa; try discriminate Hic; reflexivity | left; reflexivity].
  - (* array value *)
    destruct args as [|d rest]; [discriminate Hk|].
    destruct (arr_keys_parts _ _ _ Hk) as (_ & _ & _ & Hc & Hsrt).
    rewrite dict_of_pairs_id by now apply keys_sorted_NoDup. unfold mk_array.
    assert (Hkc : forallb (fun kv => is_constant (fst kv)) (pairs_of rest) = true).
    { apply forallb_forall. intros p Hp. now apply (kconsts_constant _ Hc). }
    rewrite Hkc. eexists; split; [reflexivity|]. do 5 right. do 4 eexists. split; [reflexivity|]. split; [reflexivity|]. split; [reflexivity|].
    intros x Hx. apply flatten_In in Hx. destruct Hx as (p & Hp & Hx).
    apply (Permutation.Permutation_in _ (sort_assign_perm _)) in Hp. apply filter_In in Hp. destruct Hp as [Hp _].
    destruct (pairs_of_In _ _ Hp). destruct Hx; subst; auto.
  - (* div *) cbn [ok_node] in Hk. destruct args as [|a [|b [|? ?]]]; try discriminate Hk.
    unfold mk_div. destruct (is_zero b) eqn:Hz; [eexists; split; [reflexivity | left; reflexivity]|].
    destruct b as [ob lb]. cbn [top].
    destruct (match ob with ORealC _ _ => true | _ => false end) eqn:Hrc.
    + destruct ob; try discriminate Hrc. unfold is_zero in Hz. cbn [top] in Hz. unfold fr_div. cbn [fst snd]. rewrite Hz.
      cbn [mk_times]. eexists; split; [reflexivity|]. do 4 right. left. do 3 eexists. split; [reflexivity|]. split; reflexivity.
    + exists (T ODiv [a; T ob lb]). split; [destruct ob; try discriminate Hrc; reflexivity | left; reflexivity].
Qed.

(* what the shape gives: operator sets, and the side conditions *)
Definition const_closed (P : op -> bool) : Prop :=
  P OTimes = true /\ forall o, match o with OBoolC _ | OIntC _ | ORealC _ _ | OBVC _ _ | OStrC _ => True | _ => False end -> P o = true.
Lemma gwop_cc : const_closed gwop.
Proof. split; [reflexivity|]. intros o H. destruct o; try contradiction; reflexivity. Qed.
Lemma closed_cc : const_closed closed_op.
Proof. split; [reflexivity|]. intros o H. destruct o; try contradiction; reflexivity. Qed.
Lemma kconst_allops P c : const_closed P -> kconst c -> allops P c = true.
Proof. intros [_ H] (o & -> & Ho). rewrite allops_unfold. rewrite (H o Ho). reflexivity. Qed.

Lemma shape_allops P o args r : const_closed P -> P o = true -> Forall (fun a => allops P a = true) args ->
  rb_shape o args r -> allops P r = true.
Proof.
  intros Hcc Ho Fa Hs. pose proof Fa as Fa'. rewrite Forall_forall in Fa'.
  destruct Hs as [->|[Hin|[(y & Hin & ->)|[K|[(a & b & inv & -> & -> & ->)|(it & d & rest & l & -> & -> & -> & Hl)]]]]].
  - now apply allops_intro.
  - auto.
  - destruct (allops_args _ _ _ (Fa' _ Hin)) as [_ Fy]. now inversion Fy.
  - now apply kconst_allops.
  - apply allops_intro; [exact (proj1 Hcc)|]. constructor; [apply Fa'; cbn; auto|]. constructor; [|constructor]. apply kconst_allops; auto. apply mk_real_kconst.
  - apply allops_intro; auto. constructor; [apply Fa'; cbn; auto|]. apply Forall_forall. intros x Hx. apply Fa'. cbn. right. now apply Hl.
Qed.

Definition nodiv0_node (I : interp) (o : op) (args : list term) : Prop :=
  match o, args with ODiv, [a; b] => ~ is_zero_val (eval I b) | _, _ => True end.
Lemma nodiv0_intro_w I o args : nodiv0_node I o args -> Forall (nodiv0 I) args -> nodiv0 I (T o args).
Proof. intros Hn F. cbn [nodiv0]. split; [exact Hn|]. clear Hn. induction F; cbn; auto. Qed.
Lemma strlim_intro I o args : strlim_node I o args -> Forall (strlim I) args -> strlim I (T o args).
Proof. intros Hn F. cbn [strlim]. split; [exact Hn|]. clear Hn. induction F; cbn; auto. Qed.
Lemma kconst_nodiv0 I c : kconst c -> nodiv0 I c.
Proof. intros (o & -> & Ho). cbn. destruct o; try contradiction; auto. Qed.
Lemma kconst_strlim I c : kconst c -> strlim I c.
Proof. intros (o & -> & Ho). cbn. destruct o; try contradiction; auto. Qed.

Lemma shape_nodiv0 I o args r : nodiv0_node I o args -> Forall (nodiv0 I) args -> rb_shape o args r -> nodiv0 I r.
Proof.
  intros Hn Fa Hs. pose proof Fa as Fa'. rewrite Forall_forall in Fa'.
  destruct Hs as [->|[Hin|[(y & Hin & ->)|[K|[(a & b & inv & -> & -> & ->)|(it & d & rest & l & -> & -> & -> & Hl)]]]]].
  - now apply nodiv0_intro_w.
  - auto.
  - pose proof (nodiv0_args _ _ _ (Fa' _ Hin)) as Fy. now inversion Fy.
  - now apply kconst_nodiv0.
  - apply nodiv0_intro_w; [exact Logic.I|]. constructor; [apply Fa'; cbn; auto|]. constructor; [|constructor]. apply kconst_nodiv0, mk_real_kconst.
  - apply nodiv0_intro_w; [exact Logic.I|]. constructor; [apply Fa'; cbn; auto|]. apply Forall_forall. intros x Hx. apply Fa'. cbn. right. now apply Hl.
Qed.
Lemma shape_strlim I o args r : strlim_node I o args -> Forall (strlim I) args -> rb_shape o args r -> strlim I r.
Proof.
  intros Hn Fa Hs. pose proof Fa as Fa'. rewrite Forall_forall in Fa'.
  destruct Hs as [->|[Hin|[(y & Hin & ->)|[K|[(a & b & inv & -> & -> & ->)|(it & d & rest & l & -> & -> & -> & Hl)]]]]].
  - now apply strlim_intro.
  - auto.
  - pose proof (strlim_args _ _ _ (Fa' _ Hin)) as Fy. now inversion Fy.
  - now apply kconst_strlim.
  - apply strlim_intro; [exact Logic.I|]. constructor; [apply Fa'; cbn; auto|]. constructor; [|constructor]. apply kconst_strlim, mk_real_kconst.
  - apply strlim_intro; [exact Logic.I|]. constructor; [apply Fa'; cbn; auto|]. apply Forall_forall. intros x Hx. apply Fa'. cbn. right. now apply Hl.
Qed.

(* ------------------------------------------------------------------ substituting a model: total on the fragment *)
Lemma model_map_ok s : model_ok s -> map_ok s.
Proof. intros H k v Hin. destruct (H k v Hin) as (n & ty & -> & _ & O & Tc). split; auto. Qed.

Definition swres (s : smap) (t t' : term) : Prop :=
  subst_mgs_i [] s t = Some t' /\ gwops t' = true /\ (covered s t -> allops closed_op t' = true) /\
  (forall I, wf_interp I -> agrees I s -> (nodiv0 I t -> nodiv0 I t') /\ (strlim I t -> strlim I t')).

(* value of a substituted sub-term (C05's typed substitution lemma + agrees) *)
Lemma subst_eval_w s I t ty t' : model_ok s -> okt t = true -> gwops t = true -> tc t = Some ty ->
  wf_interp I -> agrees I s -> subst_mgs_i [] s t = Some t' -> eval I t' = eval I t.
Proof.
  intros Hm Ho Hg Htc Hwf Hag Hs.
  rewrite (subst_mgs_sem2 true t s I ty t' (model_sym_keys _ Hm) (model_map_ok _ Hm) Ho (gwops_tfrag _ Hg) Htc
             (no_capture_qf s t (gwops_qf _ Hg)) (proj1 (wf_interp_wfi I) Hwf) Hs).
  now apply upd_same.
Qed.
Lemma subst_typed_w s t ty t' : model_ok s -> okt t = true -> gwops t = true -> tc t = Some ty ->
  subst_mgs_i [] s t = Some t' -> crel true t t' /\ tc t' = Some ty.
Proof.
  intros Hm Ho Hg Htc Hs.
  destruct (subst_typed_mgs true t s ty t' (model_map_ok _ Hm) (fun _ => sym_keys_no_const _ (model_sym_keys _ Hm)) Ho (gwops_tfrag _ Hg) Htc Hs)
    as (A & B & C).
  split; [split; [exact A | split; [congruence | exact C]] | exact B].
Qed.

Lemma Forall2_Forall_r {A B} (R : A -> B -> Prop) (Q : B -> Prop) : forall l l',
  Forall2 R l l' -> (forall a b, In a l -> R a b -> Q b) -> Forall Q l'.
Proof. induction 1 as [|a b l l' H _ IH]; intros HQ; constructor; [apply (HQ a b); cbn; auto | apply IH; intros x y Hx; apply HQ; cbn; auto]. Qed.

Theorem subst_wide : forall t s ty, model_ok s -> okt t = true -> gwops t = true -> tc t = Some ty ->
  exists t', swres s t t'.
Proof.
  induction t as [o args IH] using term_ind'. intros s ty Hm Ho Hg Htc.
  pose proof (okt_args _ _ Ho) as Fo. pose proof (okt_node _ _ Ho) as Hn.
  destruct (allops_args _ _ _ Hg) as [Hgo Fg].
  destruct (tc_inv _ _ _ Htc) as (tys & Hts & Hr). pose proof (tcs_Forall2 _ _ Hts) as Ft.
  assert (Hq : is_quant o = None) by (destruct o; try discriminate Hgo; reflexivity).
  (* the arguments *)
  assert (Hargs : exists args', Forall2 (swres s) args args').
  { clear Hr Hn Htc Ho Hg Hts. revert tys Ft. induction args as [|a r IHr]; intros tys Ft; [exists []; constructor|].
    inversion Ft as [|? ta ? tr Ta Ft']; subst. inversion Fo; subst. inversion Fg; subst.
    destruct (Forall_inv IH s ta Hm) as [a' Ha]; auto.
    destruct (IHr (Forall_inv_tail IH)) with (tys := tr) as [r' Hr']; auto. exists (a' :: r'). constructor; auto. }
  destruct Hargs as [args' Fsw].
  assert (Fs : Forall2 (fun a b => subst_mgs_i [] s a = Some b) args args') by (clear - Fsw; induction Fsw as [|? ? ? ? [H _]]; constructor; auto).
  assert (Fcr : Forall2 (crel true) args args').
  { clear - Fsw Fo Fg Ft Hm. revert tys Ft. induction Fsw as [|a a' r r' [Ha _] _ IHr]; intros tys Ft; constructor;
      inversion Ft as [|? ta ? tr Ta Ft']; inversion Fo as [|? ? Oa Fo']; inversion Fg as [|? ? Ga Fg']; subst.
    - now destruct (subst_typed_w s a ta a' Hm Oa Ga Ta Ha).
    - eapply IHr; eauto. }
  assert (Fg' : Forall (fun a => gwops a = true) args') by (clear - Fsw; induction Fsw as [|? ? ? ? (_ & H & _)]; constructor; auto).
  assert (Fo' : Forall (fun a => okt a = true) args') by (eapply crel_okt; eauto).
  assert (Htc' : tc (T o args') = Some ty) by (rewrite (crel_tc true o _ _ Fcr); exact Htc).
  assert (Hev : forall I, wf_interp I -> agrees I s -> map (eval I) args' = map (eval I) args).
  { intros I Hwf Hag. clear - Fs Fo Fg Ft Hm Hwf Hag. revert tys Ft. induction Fs as [|a a' r r' Ha _ IHr]; intros tys Ft; [reflexivity|].
    inversion Ft as [|? ta ? tr Ta Ft']; inversion Fo as [|? ? Oa Fo']; inversion Fg as [|? ? Ga Fg']; subst. cbn [map].
    rewrite (subst_eval_w s I a ta a' Hm Oa Ga Ta Hwf Hag Ha). f_equal. eapply IHr; eauto. }
  cbn [swres]. unfold swres. cbn [subst_mgs_i]. rewrite Hq, (omap_intro _ _ _ Fs).
  destruct (lookup s (T o args)) as [v|] eqn:L.
  - (* an assigned symbol: its constant *)
    exists v. destruct (Hm _ _ (lookup_In _ _ _ L)) as (n & tn & _ & K & _).
    split; [reflexivity|]. split; [now apply kconst_allops; [apply gwop_cc|]|]. split; [intros _; apply kconst_allops; [apply closed_cc | exact K]|].
    intros I _ _. split; intros _; [now apply kconst_nodiv0 | now apply kconst_strlim].
  - assert (Hk' : anode_ok o args' = true).
    { apply (ok_node_transfer true o args args' ty); auto. destruct o; try discriminate Hgo; reflexivity. }
    destruct (rebuild_wide o args' ty Hgo Hk' Fo' Htc') as (r & Er & Hsh).
    assert (Htr : tc r = Some ty).
    { assert (Htn : tnode true o = true) by (destruct o; try discriminate Hgo; reflexivity).
      destruct (rebuild_ok true o args' ty r Htn Hq Hk' Fo' Htc' Er) as (_ & B & _). exact B. }
    assert (Efn : rebuild_fn mgs0 [] o args' = Some r).
    { destruct (rebuild_fn_cases mgs0 [] o args') as [(n & fty & fi & _ & Hl & _)|[_ ->]]; [discriminate Hl|].
      rewrite Er. unfold checked. now rewrite Htr. }
    exists r. split; [exact Efn|]. split; [now apply (shape_allops gwop o args'); [apply gwop_cc | | |]|]. split.
    + (* closed *)
      intros Hcov.
      assert (Hns : is_sym o = false).
      { destruct o; try reflexivity. exfalso. pose proof (const_no_args _ _ _ Htc Logic.I) as ->.
        apply (Hcov n t); [cbn; auto | exact L]. }
      assert (Fcl : Forall (fun a => allops closed_op a = true) args').
      { clear - Fsw Hcov Hq Hns Htc. assert (Hsub : forall a, In a args -> covered s a).
        { intros a Ha n t Hin. apply Hcov.
          destruct o; try discriminate Hq; try discriminate Hns; try (rewrite (const_no_args _ _ _ Htc Logic.I) in Ha; contradiction);
            match goal with |- In _ (fv (T ?oo _)) => now apply (fv_arg_incl oo args a Ha Logic.I) end. }
        apply (Forall2_Forall_r _ _ _ _ Fsw). intros a a' Ha (_ & _ & Hc & _). apply Hc. now apply Hsub. }
      apply (shape_allops closed_op o args'); auto; [apply closed_cc|]. unfold closed_op. now rewrite Hgo, Hns.
    + intros I Hwf Hag. specialize (Hev I Hwf Hag). split.
      * intros Hnd. apply (shape_nodiv0 I o args'); auto.
        -- destruct Hnd as [Hn0 _]. unfold nodiv0_node. destruct o; try exact Logic.I.
           pose proof (Forall2_length_eq _ _ _ Fsw) as Hlen.
           destruct args' as [|a' [|b' [|? ?]]]; try exact Logic.I.
           destruct args as [|a [|b [|? ?]]]; try discriminate Hlen.
           cbn [map] in Hev. injection Hev as _ Eb. now rewrite Eb.
        -- pose proof (nodiv0_args _ _ _ Hnd) as Fn. rewrite Forall_forall in Fn.
           apply (Forall2_Forall_r _ _ _ _ Fsw). intros a a' Ha (_ & _ & _ & Hside). apply (Hside I Hwf Hag). now apply Fn.
      * intros Hsl. apply (shape_strlim I o args'); auto.
        -- destruct Hsl as [Hn0 _]. unfold strlim_node in *. pose proof (Forall2_length_eq _ _ _ Fsw) as Hlen.
           destruct o; try exact Logic.I. destruct k; try exact Logic.I;
             (destruct args' as [|a' [|? ?]]; try exact Logic.I; destruct args as [|a [|? ?]]; try discriminate Hlen;
              cbn [map] in Hev; injection Hev as Ea; now rewrite Ea).
        -- pose proof (strlim_args _ _ _ Hsl) as Fn. rewrite Forall_forall in Fn.
           apply (Forall2_Forall_r _ _ _ _ Fsw). intros a a' Ha (_ & _ & _ & Hside). apply (Hside I Hwf Hag). now apply Fn.
Qed.

(* ------------------------------------------------------------------ substitute ; simplify *)
Lemma gwfrag_parts t : gwfrag t = true -> okt t = true /\ gwops t = true.
Proof. unfold gwfrag. intros H. apply andb_true_iff in H. exact H. Qed.

Lemma fv_inhb_w : forall t, okt t = true -> gwops t = true -> forall n ty, In (n, ty) (fv t) -> inhb ty = true.
Proof.
  induction t as [o args IH] using term_ind'. intros Ho Hg n ty Hin.
  pose proof (okt_args _ _ Ho) as Fo. destruct (allops_args _ _ _ Hg) as [Hgop Fg].
  assert (Hrec : In (n, ty) (unions var_eqb (map fv args)) -> inhb ty = true).
  { intros H. apply (unions_In var_eqb var_eqb_eq) in H. destruct H as (l & Hl & Hx).
    apply in_map_iff in Hl. destruct Hl as (a & <- & Ha). rewrite Forall_forall in IH, Fo, Fg. eapply IH; eauto. }
  destruct o; try discriminate Hgop; cbn [fv] in Hin; auto; try contradiction.
  destruct Hin as [E|[]]. injection E as -> ->. apply okt_node in Ho. exact Ho.
Qed.

(* a model that covers the formula: substitution closes it, simplification folds it to the constant it denotes *)
Lemma eval_through_wide ora m f ty I :
  model_ok m -> gwfrag f = true -> tc f = Some ty -> wf_interp I -> agrees I m -> covered m f ->
  nodiv0 I f -> strlim I f ->
  exists r c, substitute_mgs [] m f = Some r /\ simplify_opt ora r = Some c /\
              is_constant c = true /\ tc c = Some ty /\ okt c = true /\ eval I c = eval I f.
Proof.
  intros Hm Hg Htc Hwf Hag Hcov Hnd Hsl. destruct (gwfrag_parts _ Hg) as [Ho Hgo].
  destruct (subst_wide f m ty Hm Ho Hgo Htc) as (r & Hs & Gr & Cr & Side).
  destruct (subst_typed_w m f ty r Hm Ho Hgo Htc Hs) as [(Or & _ & _) Tr].
  pose proof (subst_eval_w m I f ty r Hm Ho Hgo Htc Hwf Hag Hs) as Ev.
  destruct (Side I Hwf Hag) as [Nd Sl].
  assert (Hwf' : wfrag r = true) by (apply wfrag_intro; [exact Or | apply allops_wops; now apply Cr | now apply gwops_pownn]).
  destruct (fold_complete_wide ora I r ty Hwf' Tr (proj1 (wf_interp_wfi I) Hwf) (Nd Hnd) (Sl Hsl)) as (c & Sc & Kc & Oc & Tc & Ec).
  exists r, c. split; [rewrite substitute_mgs_eq; auto|]. repeat split; auto. congruence.
Qed.

(* ------------------------------------------------------------------ C02 on the wider fragment: get_value *)
(* with completion: what is returned is the constant the formula denotes *)
Theorem get_value_exact_wide : forall ora m f ty I c,
  model_ok m -> gwfrag f = true -> tc f = Some ty ->
  wf_interp I -> agrees I m -> defaults_on I m f -> nodiv0 I f -> strlim I f ->
  get_value ora m f true = Some c ->
  is_constant c = true /\ tc c = Some ty /\ okt c = true /\ eval I c = eval I f.
Proof.
  intros ora m f ty I c Hm Hg Htc Hwf Hag Hdf Hnd Hsl Hgv. destruct (gwfrag_parts _ Hg) as [Ho Hgo].
  unfold get_value in Hgv. destruct (complete m (fv f)) as [m'|] eqn:Hc; [|discriminate].
  assert (Hm' : model_ok m') by (eapply complete_model_ok; eauto; intros n t; apply fv_inhb_w; auto).
  destruct (eval_through_wide ora m' f ty I Hm' Hg Htc Hwf (complete_agrees I m f m' Hag Hdf Hc)
              (complete_covered m f m' Hc) Hnd Hsl) as (r & c0 & Sr & Sc & Kc & Tc & Oc & Ec).
  rewrite Sr, Sc, Kc in Hgv. injection Hgv as <-. auto.
Qed.

(* it DOES return a constant: with completion when every unassigned symbol has a documented default, without
   completion when the model covers the formula *)
Theorem get_value_total_wide : forall ora m f ty I (completion : bool),
  model_ok m -> gwfrag f = true -> tc f = Some ty ->
  wf_interp I -> agrees I m -> defaults_on I m f -> nodiv0 I f -> strlim I f ->
  (if completion
   then forall n t, In (n, t) (fv f) -> lookup m (TSym n t) = None -> default_value t <> None
   else covered m f) ->
  exists c, get_value ora m f completion = Some c /\ is_constant c = true /\ tc c = Some ty /\ eval I c = eval I f.
Proof.
  intros ora m f ty I completion Hm Hg Htc Hwf Hag Hdf Hnd Hsl Hcov.
  destruct (gwfrag_parts _ Hg) as [Ho Hgo]. unfold get_value. destruct completion.
  - destruct (complete_total (fv f) m Hcov) as [m' Hc]. rewrite Hc.
    assert (Hm' : model_ok m') by (eapply complete_model_ok; eauto; intros n t; apply fv_inhb_w; auto).
    destruct (eval_through_wide ora m' f ty I Hm' Hg Htc Hwf (complete_agrees I m f m' Hag Hdf Hc)
                (complete_covered m f m' Hc) Hnd Hsl) as (r & c0 & Sr & Sc & Kc & Tc & _ & Ec).
    rewrite Sr, Sc, Kc. eauto.
  - destruct (eval_through_wide ora m f ty I Hm Hg Htc Hwf Hag Hcov Hnd Hsl) as (r & c0 & Sr & Sc & Kc & Tc & _ & Ec).
    rewrite Sr, Sc, Kc. eauto.
Qed.

(* without completion: whatever is returned is the value under EVERY well-formed extension of the model
   (no side condition on the string limits: a node left unfolded makes the call raise) *)
Theorem get_value_partial_sound_wide : forall ora m f ty c,
  model_ok m -> gwfrag f = true -> tc f = Some ty ->
  get_value ora m f false = Some c ->
  is_constant c = true /\
  forall I, wf_interp I -> agrees I m -> nodiv0 I f -> eval I c = eval I f.
Proof.
  intros ora m f ty c Hm Hg Htc Hgv. split; [exact (get_value_constant _ _ _ _ _ Hgv)|].
  intros I Hwf Hag Hnd. destruct (gwfrag_parts _ Hg) as [Ho Hgo].
  unfold get_value in Hgv. rewrite (substitute_mgs_eq m f Hm Ho) in Hgv.
  destruct (subst_wide f m ty Hm Ho Hgo Htc) as (r & Hs & Gr & _ & Side).
  rewrite Hs in Hgv. destruct (simplify_opt ora r) as [res|] eqn:Sr; [|discriminate].
  destruct (is_constant res); [|discriminate]. injection Hgv as <-.
  destruct (subst_typed_w m f ty r Hm Ho Hgo Htc Hs) as [(Or & _ & _) Tr].
  pose proof (subst_eval_w m I f ty r Hm Ho Hgo Htc Hwf Hag Hs) as Ev.
  destruct (Side I Hwf Hag) as [Nd _].
  assert (Hds : div_safe I r).
  { (* nodiv0 gives div_safe on every quantifier-free UF-free term *)
    clear - Gr Nd Hnd. specialize (Nd Hnd). revert Gr Nd. generalize r. clear.
    induction r as [o args IH] using term_ind'. intros Hg Hn. destruct (allops_args _ _ _ Hg) as [Hgo Fg].
    pose proof (nodiv0_args _ _ _ Hn) as Fn.
    assert (Fd : Forall (div_safe I) args) by (rewrite Forall_forall in *; intros a Ha; apply IH; auto).
    assert (Hall : (fix all (l : list term) : Prop := match l with [] => True | x :: r => div_safe I x /\ all r end) args).
    { clear - Fd. induction Fd; cbn; auto. }
    destruct o; try discriminate Hgo; cbn [div_safe]; try exact Hall.
    - destruct args as [|c [|a [|b [|? ?]]]]; try exact Hall.
      inversion Fd as [|? ? Dc Fd']; subst. inversion Fd' as [|? ? Da Fd'']; subst. inversion Fd'' as [|? ? Db ?]; subst.
      split; auto. destruct (vbool (eval I c)); auto.
    - destruct args as [|a [|b [|? ?]]]; try exact Hall.
      inversion Fd as [|? ? Da Fd']; subst. inversion Fd' as [|? ? Db ?]; subst. destruct Hn as [Hz _]. auto. }
  destruct (simplify_sound_partial_wf ora I r ty res Or Tr Hwf Hds Sr) as [_ E]. congruence.
Qed.

(* ------------------------------------------------------------------ C02 on the wider fragment: satisfies *)
Lemma sym_gwfrag n t : inhb t = true -> gwfrag (TSym n t) = true.
Proof. intros H. unfold gwfrag. cbn. now rewrite H. Qed.

Theorem satisfies_iff_wide : forall ora m f I b,
  model_ok m -> gwfrag f = true -> tc f = Some TBool ->
  wf_interp I -> agrees I m -> defaults_on I m f -> nodiv0 I f -> strlim I f ->
  satisfies ora m f = Some b -> (b = true <-> eval I f = VBool true).
Proof.
  intros ora m f I b Hm Hg Htc Hwf Hag Hdf Hnd Hsl Hs.
  destruct (gwfrag_parts _ Hg) as [Ho Hgo].
  unfold satisfies in Hs. destruct (values_of ora m (fv f)) as [subs|] eqn:Hv; [|discriminate].
  destruct (values_of_spec ora m _ _ Hv) as [V1 V2].
  assert (Hval : forall k v, In (k, v) subs -> exists n t, k = TSym n t /\ const_of t v /\ isym I n t = eval I v).
  { intros k v Hin. destruct (V1 _ _ Hin) as (n & t & -> & Hi & G). exists n, t. split; auto.
    pose proof (fv_inhb_w f Ho Hgo n t Hi) as Ht.
    assert (Hd1 : defaults_on I m (TSym n t)).
    { intros n' t' d [[= <- <-]|[]] L D. eapply Hdf; eauto. }
    assert (Hn1 : nodiv0 I (TSym n t)) by (cbn; auto).
    assert (Hs1 : strlim I (TSym n t)) by (cbn; auto).
    destruct (get_value_exact_wide ora m (TSym n t) t I v Hm (sym_gwfrag n t Ht) eq_refl Hwf Hag Hd1 Hn1 Hs1 G)
      as (Kc & Tc & Oc & Ec).
    split; [|now rewrite Ec].
    split; [|auto].
    (* the value of a symbol is its model constant or its default: a scalar constant *)
    unfold get_value in G. destruct (complete m (fv (TSym n t))) as [m'|] eqn:Hc; [|discriminate].
    assert (Hm' : model_ok m') by (eapply complete_model_ok; eauto; intros n0 t0; apply fv_inhb_w; [reflexivity || (cbn; now rewrite Ht) | reflexivity]).
    rewrite (substitute_mgs_eq m' (TSym n t) Hm') in G by (cbn; now rewrite Ht).
    pose proof (complete_covered m (TSym n t) m' Hc n t (or_introl eq_refl)) as Hl.
    destruct (lookup m' (TSym n t)) as [d|] eqn:L; [|congruence].
    destruct (subst_mgs_i [] m' (TSym n t)) as [r0|] eqn:Es; [|discriminate].
    pose proof (mgs_key _ _ _ _ _ Es L) as ->.
    destruct (Hm' _ _ (lookup_In _ _ _ L)) as (n1 & t1 & E1 & K1 & _).
    destruct K1 as (oc & -> & Hoc). assert (Ev : simplify_opt ora (T oc []) = Some (T oc [])) by (apply simplify_constant; exact Hoc).
    rewrite Ev in G. destruct (is_constant (T oc [])); [|discriminate]. injection G as <-. exists oc. auto. }
  assert (Hms : model_ok subs).
  { intros k v Hin. destruct (Hval _ _ Hin) as (n & t & E & C & _). eauto. }
  assert (Has : agrees I subs).
  { intros n t v L. apply lookup_In in L. destruct (Hval _ _ L) as (n' & t' & E & _ & Ev).
    injection E as <- <-. exact Ev. }
  assert (Hcs : covered subs f) by (intros n t Hin; now apply V2).
  destruct (eval_through_wide ora subs f TBool I Hms Hg Htc Hwf Has Hcs Hnd Hsl) as (r & c & Sr & Sc & Kc & Tc & Oc & Ec).
  rewrite Sr, Sc in Hs. injection Hs as <-.
  destruct (scalar_const_kconst c TBool Oc Tc Kc eq_refl) as (o & -> & Hco).
  destruct o; try contradiction; cbn in Tc; try discriminate Tc.
  rewrite <- Ec. cbn. unfold is_true. cbn. destruct b; split; intros H; try reflexivity; try discriminate H.
Qed.

(* ------------------------------------------------------------------ the model's own interpretation *)
Theorem get_value_exact_model_wide : forall ora m f ty c,
  model_ok m -> gwfrag f = true -> tc f = Some ty -> nodiv0 (model_interp m) f -> strlim (model_interp m) f ->
  get_value ora m f true = Some c ->
  is_constant c = true /\ tc c = Some ty /\ eval (model_interp m) c = eval (model_interp m) f.
Proof.
  intros ora m f ty c Hm Hg Htc Hnd Hsl Hgv.
  destruct (get_value_exact_wide ora m f ty (model_interp m) c Hm Hg Htc (model_interp_wf m Hm) (model_interp_agrees m Hm)
              (model_interp_defaults m f) Hnd Hsl Hgv) as (A & B & _ & D). auto.
Qed.

(* ------------------------------------------------------------------ an instance with string and array sub-terms
   f = str.to_int(sx ++ "2") = i + 40  &  select(store(K(0)[1 := 5], k, str.len(sx)), 2) = 1  &
       str.prefixof("4", sx)  &  store(K(0), k, 1) = K(0)[2 := 1]           m = {sx := "4", i := 2, k := 2} *)
Definition exw_sx := TSym "sx" TStr. Definition exw_i := TSym "i" TInt. Definition exw_k := TSym "k" TInt.
Definition exw_f : term :=
  T OAnd [T OEquals [T (OStr SToInt) [T (OStr SConcat) [exw_sx; TStrC [50]%Z]]; T OPlus [exw_i; TIntC 40]];
          T OEquals [T OSelect [T OStore [T (OArrayValue TInt) [TIntC 0; TIntC 1; TIntC 5]; exw_k; T (OStr SLength) [exw_sx]]; TIntC 2]; TIntC 1];
          T (OStr SPrefixOf) [TStrC [52]%Z; exw_sx];
          T OEquals [T OStore [T (OArrayValue TInt) [TIntC 0]; exw_k; TIntC 1]; T (OArrayValue TInt) [TIntC 0; TIntC 2; TIntC 1]]].
Definition exw_m : smap := [(exw_sx, TStrC [52]%Z); (exw_i, TIntC 2); (exw_k, TIntC 2)].
Lemma exw_model_ok : model_ok exw_m.
Proof.
  intros k v [[= <- <-]|[[= <- <-]|[[= <- <-]|[]]]]; do 2 eexists; (split; [reflexivity|]);
    (split; [eexists; split; [reflexivity | exact Logic.I] | split; reflexivity]).
Qed.
Example get_value_example_wide :
  model_ok exw_m /\ gwfrag exw_f = true /\ tc exw_f = Some TBool /\
  nodiv0 (model_interp exw_m) exw_f /\ strlim (model_interp exw_m) exw_f /\
  get_value no_oracle exw_m exw_f true = Some TTrue /\
  get_value no_oracle exw_m exw_f false = Some TTrue /\
  get_value no_oracle [(exw_sx, TStrC [52]%Z)] exw_f false = None /\
  satisfies no_oracle exw_m exw_f = Some true.
Proof.
  split; [exact exw_model_ok|]. split; [vm_compute; reflexivity|]. split; [vm_compute; reflexivity|].
  split; [cbn; tauto|]. split.
  - cbn. repeat split; auto. unfold slen. cbn. lia.
  - repeat split; vm_compute; reflexivity.
Qed.
