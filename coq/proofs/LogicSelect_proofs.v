From Coq Require Import Bool List String Lia.
From PySMT.models Require Import LogicSelect.
Import ListNotations.
Open Scope bool_scope.

Section SelectProofs.
  Variable A : Type.
  Variable le : A -> A -> bool.
  Variable ne : A -> A -> bool.
  Variable name : A -> string.

  Lemma first_min_in : forall l best, first_min A name best l = best \/ In (first_min A name best l) l.
  Proof.
    induction l as [|x r IH]; intros best; cbn; auto.
    destruct (str_ltb (name x) (name best)).
    - destruct (IH x) as [->|H]; auto.
    - destruct (IH best) as [->|H]; auto.
  Qed.

  (* Order hypotheses, required only on the supported list and the target. *)
  Variable S : list A.
  Variable target : A.
  Hypothesis ne_spec : forall a b, In a S -> In b S -> (ne a b = false <-> a = b).
  Hypothesis le_trans : forall a b c, In a S -> In b S -> In c S ->
      le a b = true -> le b c = true -> le a c = true.
  Hypothesis le_trans_t : forall b c, In b S -> In c S ->
      le target b = true -> le b c = true -> le target c = true.
  Hypothesis le_antisym : forall a b, In a S -> In b S -> le a b = true -> le b a = true -> a = b.

  Definition strictly_below (k r : A) : Prop := ne r k = true /\ le k r = true.

  Lemma candidates_spec l : In l (candidates A le S target) <-> In l S /\ le target l = true.
  Proof. unfold candidates. apply filter_In. Qed.

  Lemma minimal_spec C l : In l (minimal A le ne C) <->
    In l C /\ forall k, In k C -> ~ (ne l k = true /\ le k l = true).
  Proof.
    unfold minimal. rewrite filter_In. split; intros [H1 H2]; split; auto.
    - intros k Hk [Hn Hl]. rewrite negb_true_iff in H2.
      assert (E : existsb (fun k => ne l k && le k l) C = true)
        by (apply existsb_exists; exists k; rewrite Hn, Hl; auto).
      congruence.
    - rewrite negb_true_iff. destruct (existsb _ C) eqn:E; auto.
      apply existsb_exists in E. destruct E as (k & Hk & Hkk). apply andb_true_iff in Hkk.
      exfalso. exact (H2 k Hk Hkk).
  Qed.

  (* every non-empty sub-list of S has a minimal element *)
  Lemma minimal_exists : forall C, (forall c, In c C -> In c S) -> C <> [] ->
    exists m, In m C /\ forall k, In k C -> ~ (ne m k = true /\ le k m = true).
  Proof.
    induction C as [|x C IH]; intros HS Hne; [congruence|].
    destruct C as [|y C'].
    - exists x. split; [left; auto|]. intros k [<-|[]] [Hn _].
      assert (ne x x = false) by (apply ne_spec; auto; apply HS; left; auto). congruence.
    - destruct IH as (m & Hm & Hmin); [intros c Hc; apply HS; right; auto | congruence |].
      assert (HxS : In x S) by (apply HS; left; auto).
      assert (HmS : In m S) by (apply HS; right; auto).
      destruct (ne m x && le x m) eqn:E.
      + apply andb_true_iff in E. destruct E as [En El].
        exists x. split; [left; auto|]. intros k [<-|Hk] [Hn Hl].
        * assert (ne x x = false) by (apply ne_spec; auto). congruence.
        * assert (HkS : In k S) by (apply HS; right; auto).
          apply (Hmin k Hk). split.
          -- destruct (ne m k) eqn:Emk; auto. apply ne_spec in Emk; auto. subst k.
             assert (x = m) by (apply le_antisym; auto). subst x.
             assert (ne m m = false) by (apply ne_spec; auto). congruence.
          -- eapply le_trans; [| | | exact Hl | exact El]; auto.
      + exists m. split; [right; auto|]. intros k [<-|Hk] [Hn Hl].
        * rewrite Hn, Hl in E. discriminate.
        * exact (Hmin k Hk (conj Hn Hl)).
  Qed.

  Theorem get_closer_logic_ok : forall r,
    get_closer_logic A le ne name S target = SelOk r ->
    In r S /\ le target r = true /\
    forall k, In k S -> le target k = true -> ~ strictly_below k r.
  Proof.
    unfold get_closer_logic. intros r.
    destruct (candidates A le S target) as [|c0 C] eqn:EC; [discriminate|].
    destruct (minimal A le ne (c0 :: C)) as [|x R] eqn:EM; [discriminate|].
    intros [= <-].
    assert (Hin : In (first_min A name x R) (minimal A le ne (c0 :: C))).
    { rewrite EM. destruct (first_min_in R x) as [->|H]; [left; auto | right; auto]. }
    apply minimal_spec in Hin. destruct Hin as [Hc Hmin]. rewrite <- EC in Hc, Hmin.
    apply candidates_spec in Hc. destruct Hc as [HS Hle]. repeat split; auto.
    intros k Hk Hlek [Hn Hl]. apply (Hmin k); [apply candidates_spec; auto | auto].
  Qed.

  Theorem get_closer_logic_none :
    get_closer_logic A le ne name S target = SelNoLogic <->
    forall l, In l S -> le target l = false.
  Proof.
    unfold get_closer_logic. destruct (candidates A le S target) as [|c0 C] eqn:EC.
    - split; auto. intros _ l Hl. destruct (le target l) eqn:E; auto.
      assert (In l []) by (rewrite <- EC; apply candidates_spec; auto). contradiction.
    - split.
      + destruct (minimal A le ne (c0 :: C)); discriminate.
      + intros H. assert (Hc : In c0 (candidates A le S target)) by (rewrite EC; left; auto).
        apply candidates_spec in Hc. destruct Hc as [Hs Hl]. rewrite (H _ Hs) in Hl. discriminate.
  Qed.

  Theorem get_closer_logic_no_index_error :
    get_closer_logic A le ne name S target <> SelIndexError.
  Proof.
    unfold get_closer_logic. destruct (candidates A le S target) as [|c0 C] eqn:EC; [discriminate|].
    destruct (minimal A le ne (c0 :: C)) as [|x R] eqn:EM; [|discriminate].
    exfalso. destruct (minimal_exists (c0 :: C)) as (m & Hm & Hmin).
    - intros c Hc. rewrite <- EC in Hc. apply candidates_spec in Hc. tauto.
    - discriminate.
    - assert (In m (minimal A le ne (c0 :: C))) by (apply minimal_spec; auto).
      rewrite EM in H. contradiction.
  Qed.

  Theorem most_generic_logic_ok : forall L r,
    most_generic_logic A le L = SelOk r -> In r L /\ forall x, In x L -> le x r = true.
  Proof.
    unfold most_generic_logic. intros L r.
    destruct (filter _ L) as [|a [|b t]] eqn:E; try discriminate. intros [= <-].
    assert (H : In a (filter (fun l => forallb (fun x => le x l) L) L)) by (rewrite E; left; auto).
    apply filter_In in H. destruct H as [H1 H2]. split; auto. now apply forallb_forall.
  Qed.
End SelectProofs.
