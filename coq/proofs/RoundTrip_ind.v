(* C09, the round trip through the tree printer BY INDUCTION on the term (any size, any depth).

   [elab_print]: for every term t all of whose nodes satisfy the LOCAL condition [node_ok] (a
   condition on one node and its immediate arguments: the parser's constructor for the node's printed
   head, applied to the node's own arguments, returns the node; a leaf's token reads as the leaf),
   the recursive reading [elab] of print_tree t returns t, in every state in which the symbols of t
   are declared ([inv]).  Together with Reader_proofs.machine_simple (the stack machine does what
   [elab] does) and SmtParser_proofs.lex_agrees_partial (the tokenizer on plain tokens) this gives
   [roundtrip_tree_partial]: read_back print_tree t = Ok (ITerm t).
   [node_ok_*]: the local condition follows from typing for the operators of Core, Int/Real
   arithmetic, ITE, Equals, uninterpreted functions and the non-indexed bit-vector operators. *)
From Coq Require Import List ZArith Bool String Ascii Lia DecimalString.
From PySMT.core Require Import Syntax SmtStd.
From PySMT.models Require Import TypeChecker Oracles Ctors SmtLex SmtParser SmtPrinter RoundTrip.
From PySMT.proofs Require Import Reader_proofs Numeral_proofs.
Import ListNotations.
Open Scope string_scope.
Open Scope list_scope.

(* ------------------------------------------------------------------------- association lists *)
Lemma alookup_aset_same {A} k (v : A) l : alookup k (aset k v l) = Some v.
Proof. induction l as [|[k' v'] r IH]; cbn; [now rewrite String.eqb_refl|].
  destruct (k =? k') eqn:E; cbn; [now rewrite String.eqb_refl | now rewrite E]. Qed.
Lemma alookup_aset_other {A} k k' (v : A) l : k' <> k -> alookup k' (aset k v l) = alookup k' l.
Proof.
  intros Hn. induction l as [|[k2 v2] r IH]; cbn.
  - destruct (k' =? k) eqn:E; [apply String.eqb_eq in E; congruence | reflexivity].
  - destruct (k =? k2) eqn:E; cbn.
    + apply String.eqb_eq in E. subst k2.
      destruct (k' =? k) eqn:E2; [apply String.eqb_eq in E2; congruence | reflexivity].
    + destruct (k' =? k2); [reflexivity | exact IH].
Qed.

(* ------------------------------------------------------------------------- the state invariant *)
(* a token reads as the literal t whatever the state, as long as no logic is set *)
Definition lit_reads (tk : string) (t : term) : Prop :=
  forall s, logic_ia s = None -> literal tk s = ROk t s.

(* D: what the declared names (and true / false, and declared sorts) are bound to *)
Definition inv (D : list (string * item)) (s : pstate) : Prop :=
  defs s = [] /\ logic_ia s = None /\
  (forall n it, alookup n D = Some it -> cache_get n s = Some it) /\
  (forall tk v, cache_get tk s = Some v ->
     alookup tk D = Some v \/ (alookup tk D = None /\ exists t, v = ITerm t /\ lit_reads tk t)).

Lemma cache_get_keys s k : defs s = [] ->
  cache_get k s = match alookup k (keys s) with Some (x :: _) => Some x | _ => None end.
Proof. intros H. unfold cache_get. rewrite H. cbn. destruct (alookup k (keys s)) as [[|x l]|]; reflexivity. Qed.

Lemma inv_pop1 D s : inv D s -> inv D (pop1 s).
Proof. intros H. exact H. Qed.

Lemma lift_indep {A} (r : er A) s a s2 : lift r s = ROk a s -> lift r s2 = ROk a s2.
Proof. destruct r; cbn; intros H; inversion H; reflexivity. Qed.

Lemma literal_indep tk s t s2 :
  literal tk s = ROk t s -> logic_ia s2 = logic_ia s -> literal tk s2 = ROk t s2.
Proof.
  unfold literal. intros H L. rewrite L. destruct tk as [|c rest]; [discriminate|].
  destruct (Ascii.eqb c "#").
  - destruct rest as [|k digits]; [discriminate|].
    destruct (Ascii.eqb k "b").
    + destruct (py_int_prefixed 2 digits); [eapply lift_indep; eauto | discriminate].
    + destruct (Ascii.eqb k "x"); [|discriminate].
      destruct (py_int_prefixed 16 digits); [eapply lift_indep; eauto | discriminate].
  - destruct (Ascii.eqb c c_dq); [inversion H; reflexivity|].
    destruct (py_fraction (String c rest)) as [f| |]; try discriminate.
    + destruct (snd f =? 1)%Z; [destruct (logic_ia s) as [[|]|]; [destruct (str_mem "." (String c rest)) | | destruct (str_mem "." (String c rest))] |];
        inversion H; reflexivity.
    + inversion H; reflexivity.
Qed.

Lemma atom_inv D tk s i s' : inv D s -> atom tk s = ROk i s' -> inv D s'.
Proof.
  intros (Hd & Hl & H3 & H4) Ha. unfold atom in Ha.
  destruct (cache_get tk s) as [v|] eqn:Ec.
  - inversion Ha; subst. repeat split; assumption.
  - destruct (literal tk s) as [t s1|e s1] eqn:El; cbn in Ha; [|discriminate].
    pose proof (literal_same _ _ _ _ El). subst s1. inversion Ha; subst i s'. clear Ha.
    assert (HD : alookup tk D = None).
    { destruct (alookup tk D) as [it|] eqn:E; [|reflexivity]. rewrite (H3 _ _ E) in Ec. discriminate. }
    assert (Hget : forall k, cache_get k (cache_bind tk (ITerm t) s) =
                             if String.eqb k tk then Some (ITerm t) else cache_get k s).
    { intros k. rewrite !cache_get_keys by assumption. cbn [keys cache_bind set_keys].
      destruct (k =? tk) eqn:E.
      - apply String.eqb_eq in E. subst k. now rewrite alookup_aset_same.
      - rewrite alookup_aset_other; [reflexivity|]. intros ->. now rewrite String.eqb_refl in E. }
    repeat split; try assumption.
    + intros n it Hn. rewrite Hget. destruct (n =? tk) eqn:E.
      * apply String.eqb_eq in E. subst n. congruence.
      * now apply H3.
    + intros k v Hk. rewrite Hget in Hk. destruct (k =? tk) eqn:E.
      * apply String.eqb_eq in E. subst k. inversion Hk; subst v. right. split; [exact HD|].
        exists t. split; [reflexivity|]. intros s2 L2. eapply literal_indep; [exact El | congruence].
      * now apply H4.
Qed.

(* ------------------------------------------------------------------------- the local conditions *)
Definition plain_op (o : op) : bool :=
  match o with OForall _ | OExists _ | OArrayValue _ => false | _ => true end.

(* the printed head of an inner node *)
Definition head_of (t : term) : option string :=
  match t with
  | T ODiv _ => Some (div_name t)
  | T o _ => match op_head o with Some (Atom h) => Some h | _ => None end
  end.

Definition is_leaf_op (o : op) : bool :=
  match o with OSymbol _ _ | OIntC _ | ORealC _ _ | OBoolC _ | OBVC _ _ | OStrC _ => true | _ => false end.

(* bit-vector and Real constants: the lexical facts about their tokens are local hypotheses (closed
   and provable by computation for every concrete constant) *)
Definition bv_leaf_ok (D : list (string * item)) (v w : Z) : Prop :=
  alookup (bv_string w v) D = None /\ lit_reads (bv_string w v) (TBVC v w).
Definition real_leaf_ok (D : list (string * item)) (n d : Z) : Prop :=
  let a := (dec_string (Z.abs n) ++ ".0")%string in
  let b := (dec_string d ++ ".0")%string in
  is_paren a = false /\ alookup a D = None /\ lit_reads a (TRealC (Z.abs n) 1) /\
  ((d =? 1)%Z = false -> is_paren b = false /\ alookup b D = None /\ lit_reads b (TRealC d 1) /\
                         apply_op PDiv [TRealC (Z.abs n) 1; TRealC d 1] = Ok (TRealC (Z.abs n) d)) /\
  ((n <? 0)%Z = true -> apply_op PMinus [TRealC (Z.abs n) d] = Ok (TRealC n d)) /\
  ((n <? 0)%Z = false -> Z.abs n = n).

(* leaves: declared symbols, Boolean constants, integer constants *)
Definition leaf_ok (D : list (string * item)) (o : op) : Prop :=
  match o with
  | OSymbol n ty => quote n = n /\ is_paren n = false /\ alookup n D = Some (ITerm (TSym n ty))
  | OBoolC b => alookup (if b then "true" else "false") D = Some (ITerm (TBoolC b))
  | OIntC z => alookup (dec_string (Z.abs z)) D = None
  (* bit-vector and Real constants: the lexical facts about their tokens are local hypotheses
     (closed and provable by computation for every concrete constant) *)
  | OBVC v w => bv_leaf_ok D v w
  | ORealC n d => real_leaf_ok D n d
  | _ => False
  end.

(* inner nodes: an operator of the table whose constructor rebuilds the node from its own
   arguments, or an application of a declared function *)
Definition inner_ok (D : list (string * item)) (o : op) (args : list term) : Prop :=
  plain_op o = true /\ is_leaf_op o = false /\
  exists h, head_of (T o args) = Some h /\ is_paren h = false /\
    ((exists o', alookup h interpreted_table = Some (HOp o') /\ apply_op o' args = Ok (T o args)) \/
     (exists n fty, o = OFunction n fty /\ alookup h interpreted_table = None /\
                    alookup h D = Some (IFunc n fty) /\
                    mk_function n fty args = Some (T o args) /\ chk (T o args) = Ok (T o args))).

(* indexed bit-vector operators: ((_ name i ..) x) *)
Definition idx_of (o : op) : option (string * list Z * idxfun) :=
  match o with
  | OBVExtract _ s e => Some ("extract", [e; s], FExtract s e)
  | OBVRol _ k => Some ("rotate_left", [k], FRol k)
  | OBVRor _ k => Some ("rotate_right", [k], FRor k)
  | OBVZext _ k => Some ("zero_extend", [k], FZext k)
  | OBVSext _ k => Some ("sign_extend", [k], FSext k)
  | _ => None
  end.
Definition idx_tok_ok (z : Z) : Prop :=
  py_int (py_int_str z) = Some z /\ is_paren (py_int_str z) = false.
Definition indexed_ok (o : op) (args : list term) : Prop :=
  exists name idx f x, idx_of o = Some (name, idx, f) /\ args = [x] /\ Forall idx_tok_ok idx /\
                       apply_idx f x = Ok (T o [x]).

Definition node_ok (D : list (string * item)) (o : op) (args : list term) : Prop :=
  if is_leaf_op o then args = [] /\ leaf_ok D o else inner_ok D o args \/ indexed_ok o args.

Fixpoint rt (D : list (string * item)) (t : term) {struct t} : Prop :=
  match t with
  | T o args => node_ok D o args /\
                (fix all (l : list term) : Prop := match l with [] => True | x :: r => rt D x /\ all r end) args
  end.
Lemma rt_unfold D o args : rt D (T o args) <-> node_ok D o args /\ Forall (rt D) args.
Proof.
  cbn [rt]. split; intros [H1 H2]; split; try exact H1.
  - clear H1. induction args as [|x r IH]; constructor; [apply H2 | apply IH, H2].
  - clear H1. induction H2; [exact I | split; assumption].
Qed.

(* ------------------------------------------------------------------------- reading leaves *)
Lemma lit_reads_numeral n : (0 <= n)%Z -> lit_reads (dec_string n) (TIntC n).
Proof. intros Hn s Hl. now apply literal_numeral. Qed.
Lemma numeral_not_paren n : (0 <= n)%Z -> is_paren (dec_string n) = false.
Proof. intros Hn. unfold is_paren. destruct (dec_string_not_paren n Hn) as [-> ->]. reflexivity. Qed.

Lemma atom_declared D n it s : inv D s -> alookup n D = Some it -> atom n s = ROk it s.
Proof. intros (_ & _ & H3 & _) Hn. unfold atom. now rewrite (H3 _ _ Hn). Qed.

Lemma atom_lit D tk c s : inv D s -> alookup tk D = None -> lit_reads tk c ->
  exists s', atom tk s = ROk (ITerm c) s' /\ inv D s'.
Proof.
  intros Hi HD Hl. pose proof Hi as (Hd & Hlg & H3 & H4).
  destruct (atom tk s) as [i s'|e s'] eqn:Ea.
  - assert (i = ITerm c).
    { unfold atom in Ea. destruct (cache_get tk s) as [v|] eqn:Ec.
      - injection Ea as Ei _. rewrite <- Ei.
        destruct (H4 _ _ Ec) as [HL|(_ & t' & Ev & Hr)]; [congruence|].
        specialize (Hr s Hlg). specialize (Hl s Hlg). congruence.
      - rewrite (Hl s Hlg) in Ea. cbn in Ea. injection Ea as Ei _. now rewrite <- Ei. }
    subst i. exists s'. split; [reflexivity | eapply atom_inv; eauto].
  - exfalso. unfold atom in Ea. destruct (cache_get tk s); [discriminate|].
    rewrite (Hl s Hlg) in Ea. discriminate.
Qed.

Lemma terms_of_map l : terms_of (map ITerm l) = Some l.
Proof. induction l as [|x r IH]; cbn; [reflexivity | now rewrite IH]. Qed.

Lemma print_inner o args h :
  plain_op o = true -> is_leaf_op o = false -> head_of (T o args) = Some h ->
  print_tree (T o args) = SList (Atom h :: map print_tree args).
Proof.
  intros Hp Hl Hh. destruct o; try discriminate Hp; try discriminate Hl; cbn in Hh;
    try discriminate Hh; inversion Hh; subst; reflexivity.
Qed.

Lemma parse_atom_cons s t r : toks s = t :: r -> is_paren t = false -> parse_atom s = ROk t (pop1 s).
Proof.
  intros Ht Hp. unfold parse_atom. rewrite (next_tok_cons s t r Ht). cbn [bind].
  unfold is_paren in Hp. now rewrite Hp.
Qed.

Lemma print_indexed o name idx f x :
  idx_of o = Some (name, idx, f) ->
  print_tree (T o [x]) =
  SList [SList (Atom "_" :: Atom name :: map (fun z => Atom (py_int_str z)) idx); print_tree x].
Proof. destruct o; try discriminate; cbn [idx_of]; intros H; inversion H; subst; reflexivity. Qed.

From PySMT.proofs Require Import SmtLex_proofs.
Open Scope list_scope.

(* ------------------------------------------------------------------------- reserved names
   The names the DAG printer gives to its lets (.def_k) are never cached as literals: with [inv],
   the state invariant says that a reserved name has no binding but the one D gives it, so that a
   let over it finds an empty stack and leaves an empty stack behind. *)
Definition stack_of (n : string) (s : pstate) : list item :=
  match alookup n (keys s) with Some l => l | None => [] end.
Definition reserved (n : string) : Prop := exists k, n = def_name k.
Definition invR (D : list (string * item)) (s : pstate) : Prop :=
  inv D s /\
  forall n, reserved n -> stack_of n s = match alookup n D with Some it => [it] | None => [] end.

Lemma reserved_first n : reserved n -> exists r, n = String "." r.
Proof. intros [k ->]. eexists. reflexivity. Qed.
Lemma dec_not_reserved n : ~ reserved (dec_string n).
Proof.
  intros H. apply reserved_first in H. destruct H as [r H].
  unfold dec_string, NilZero.string_of_uint in H. destruct (N.to_uint (Z.to_N n)); discriminate H.
Qed.
Lemma dec0_not_reserved n : ~ reserved (dec_string n ++ ".0").
Proof.
  intros H. apply reserved_first in H. destruct H as [r H].
  unfold dec_string, NilZero.string_of_uint in H. destruct (N.to_uint (Z.to_N n)); discriminate H.
Qed.
Lemma bv_not_reserved w v : ~ reserved (bv_string w v).
Proof. intros H. apply reserved_first in H. destruct H as [r H]. discriminate H. Qed.

Lemma stack_of_bind n k v s :
  stack_of n (cache_bind k v s) = if String.eqb n k then v :: stack_of k s else stack_of n s.
Proof.
  unfold stack_of, cache_bind. cbn [keys set_keys]. destruct (n =? k) eqn:E.
  - apply String.eqb_eq in E. subst n. now rewrite alookup_aset_same.
  - rewrite alookup_aset_other; [reflexivity|]. intros ->. now rewrite String.eqb_refl in E.
Qed.
Lemma cache_get_stack s k : defs s = [] -> cache_get k s = hd_error (stack_of k s).
Proof.
  intros H. rewrite cache_get_keys by exact H. unfold stack_of.
  destruct (alookup k (keys s)) as [[|x l]|]; reflexivity.
Qed.
Lemma cache_unbind_stack k s x l : stack_of k s = x :: l ->
  exists s', cache_unbind k s = ROk tt s' /\ defs s' = defs s /\ logic_ia s' = logic_ia s /\ toks s' = toks s /\
             forall n, stack_of n s' = if String.eqb n k then l else stack_of n s.
Proof.
  intros H. unfold cache_unbind. unfold stack_of in H.
  destruct (alookup k (keys s)) as [[|y m]|] eqn:E; try discriminate H. inversion H; subst y m.
  eexists. split; [reflexivity|]. repeat split. intros n. unfold stack_of. cbn [keys set_keys].
  destruct (n =? k) eqn:En.
  - apply String.eqb_eq in En. subst n. now rewrite alookup_aset_same.
  - rewrite alookup_aset_other; [reflexivity|]. intros ->. now rewrite String.eqb_refl in En.
Qed.

Lemma atom_stack tk s i s' : atom tk s = ROk i s' -> forall n, n <> tk -> stack_of n s' = stack_of n s.
Proof.
  unfold atom. destruct (cache_get tk s).
  - intros H; inversion H; reflexivity.
  - destruct (literal tk s) as [t s1|e s1] eqn:E; cbn [bind]; [|discriminate].
    apply literal_same in E. subst s1. intros H; inversion H; subst. intros n Hn.
    rewrite stack_of_bind. destruct (n =? tk) eqn:En; [apply String.eqb_eq in En; congruence | reflexivity].
Qed.

Lemma atom_declaredR D n it s : invR D s -> alookup n D = Some it -> atom n s = ROk it s.
Proof. intros [Hi _]. now apply atom_declared. Qed.
Lemma atom_litR D tk c s : invR D s -> alookup tk D = None -> lit_reads tk c -> ~ reserved tk ->
  exists s', atom tk s = ROk (ITerm c) s' /\ invR D s'.
Proof.
  intros [Hi Hr] HD Hl Hnr. destruct (atom_lit D tk c s Hi HD Hl) as (s' & Ea & Hi').
  exists s'. split; [exact Ea|]. split; [exact Hi'|]. intros n Hn.
  rewrite (atom_stack _ _ _ _ Ea n); [now apply Hr|]. intros ->. exact (Hnr Hn).
Qed.

(* ------------------------------------------------------------------------- the text of a node *)
Lemma term_sexp_inner o args h xs :
  plain_op o = true -> is_leaf_op o = false -> head_of (T o args) = Some h ->
  term_sexp (T o args) xs = SList (Atom h :: xs).
Proof.
  intros Hp Hl Hh. destruct o; try discriminate Hp; try discriminate Hl; cbn in Hh;
    try discriminate Hh; inversion Hh; subst; reflexivity.
Qed.
Lemma term_sexp_indexed o name idx f args xs :
  idx_of o = Some (name, idx, f) ->
  term_sexp (T o args) xs = SList (SList (Atom "_" :: Atom name :: map (fun z => Atom (py_int_str z)) idx) :: xs).
Proof. destruct o; try discriminate; cbn [idx_of]; intros H; inversion H; subst; reflexivity. Qed.
Lemma print_tree_plain o args : plain_op o = true ->
  print_tree (T o args) = term_sexp (T o args) (map print_tree args).
Proof. destruct o; try discriminate; reflexivity. Qed.

Lemma node_ok_plain D o args : node_ok D o args -> plain_op o = true.
Proof.
  unfold node_ok. destruct (is_leaf_op o) eqn:Hl.
  - destruct o; try discriminate Hl; reflexivity.
  - intros [(Hp & _) | (name & idx & f & x & Hi & _)]; [exact Hp|]. destruct o; try discriminate Hi; reflexivity.
Qed.

(* the text of a node whose argument texts are in the fragment is in the fragment *)
Lemma node_simple D o args xs : node_ok D o args ->
  Forall (fun x => simpleb x = true) xs -> List.length xs = List.length args ->
  simpleb (term_sexp (T o args) xs) = true.
Proof.
  intros Hn Hxs Hlen. unfold node_ok in Hn. destruct (is_leaf_op o) eqn:Hleaf.
  - destruct Hn as [-> Hl]. destruct xs; [|discriminate Hlen].
    destruct o; try discriminate Hleaf; cbn in Hl; try contradiction.
    + destruct Hl as (Hq & Hp & _). change (term_sexp (T (OSymbol n t) []) []) with (Atom (quote n)).
      rewrite Hq. cbn. now rewrite Hp.
    + (* Real constant *)
      unfold real_leaf_ok in Hl. cbv zeta in Hl. destruct Hl as (Hpa & _ & _ & Hdiv & _ & _).
      change (term_sexp (T (ORealC num den) []) []) with (real_const num den). unfold real_const.
      destruct (den =? 1)%Z eqn:Hd; destruct (num <? 0)%Z; cbn [simpleb forallb]; rewrite ?Hpa; try reflexivity;
        destruct (Hdiv eq_refl) as (Hpb & _); rewrite Hpb; reflexivity.
    + destruct b; reflexivity.
    + pose proof (numeral_not_paren (Z.abs z) (Z.abs_nonneg z)) as Hp.
      change (term_sexp (T (OIntC z) []) []) with (int_const z). unfold int_const.
      destruct (z <? 0)%Z eqn:Hz.
      * apply Z.ltb_lt in Hz. replace (- z)%Z with (Z.abs z) by lia. cbn. now rewrite Hp.
      * apply Z.ltb_ge in Hz. replace z with (Z.abs z) by lia. cbn. now rewrite Hp.
    + (* bit-vector constant *)
      change (term_sexp (T (OBVC v w) []) []) with (Atom (bv_string w v)). reflexivity.
  - destruct Hn as [(Hp & _ & h & Hh & Hparen & Hcase) | (name & idx & f & x & Hi & -> & _ & _)].
    + rewrite (term_sexp_inner o args h xs Hp Hleaf Hh). cbn [simpleb]. rewrite Hparen. cbn [negb andb].
      assert (Ha : app_head h = true).
      { unfold app_head. destruct Hcase as [(o' & -> & _) | (n & fty & _ & -> & _)]; reflexivity. }
      rewrite (app_head_not_let h Ha), (app_head_not_quant h Ha), Ha. cbn [andb]. apply forallb_forall.
      rewrite Forall_forall in Hxs. exact Hxs.
    + rewrite (term_sexp_indexed o name idx f [x] xs Hi). cbn [simpleb String.eqb Ascii.eqb Bool.eqb andb].
      apply forallb_forall. rewrite Forall_forall in Hxs. exact Hxs.
Qed.

Lemma rt_simple D : forall t, rt D t -> simpleb (print_tree t) = true.
Proof.
  induction t as [o args IH] using term_ind'. intros Hrt. apply rt_unfold in Hrt. destruct Hrt as [Hn Hargs].
  rewrite (print_tree_plain o args (node_ok_plain D o args Hn)).
  apply (node_simple D o args _ Hn); [|now rewrite map_length].
  apply Forall_forall. intros y Hy. apply in_map_iff in Hy. destruct Hy as (x & <- & Hx).
  rewrite Forall_forall in *. apply IH; [exact Hx | now apply Hargs].
Qed.

(* the tokens left after a successful recursive reading (through the machine lemma) *)
Lemma elab_toks x s i s' rest : simpleb x = true ->
  elab x s = ROk i s' -> toks s = flatten x ++ rest -> toks s' = rest.
Proof. intros Hs He Ht. exact (proj2 (machine_simple_top x Hs 0%nat s i s' rest He Ht)). Qed.

(* ------------------------------------------------------------------------- the induction *)
(* the text x is read as the term t, in every state where D is what the names mean *)
Definition reads_as (D : list (string * item)) (x : sexp) (t : term) : Prop :=
  forall s rest, invR D s -> toks s = flatten x ++ rest ->
    exists s', elab x s = ROk (ITerm t) s' /\ invR D s' /\ toks s' = rest.
Definition reads_back (D : list (string * item)) (t : term) : Prop := reads_as D (print_tree t) t.

Lemma elab_list_reads D xs args : Forall2 (reads_as D) xs args ->
  forall s rest, invR D s -> toks s = flat_map flatten xs ++ rest ->
    exists s', elab_list xs s = ROk (map ITerm args) s' /\ invR D s' /\ toks s' = rest.
Proof.
  induction 1 as [|x a xs' args' Hx _ IH]; intros s rest Hi Ht.
  - exists s. split; [reflexivity | split; [exact Hi | exact Ht]].
  - cbn [flat_map] in Ht. rewrite <- app_assoc in Ht.
    destruct (Hx s _ Hi Ht) as (s1 & E1 & I1 & T1). destruct (IH s1 rest I1 T1) as (s2 & E2 & I2 & T2).
    exists s2. split; [|split; [exact I2 | exact T2]]. cbn [map]. unfold elab_list in *. cbn [elab_list_with].
    rewrite E1. cbn [bind]. rewrite E2. reflexivity.
Qed.

(* one node: the texts xs of the arguments are read as the arguments *)
Theorem node_reads D o args xs : node_ok D o args ->
  Forall2 (reads_as D) xs args -> Forall (fun x => simpleb x = true) xs ->
  reads_as D (term_sexp (T o args) xs) (T o args).
Proof.
  intros Hn Hsub Hxs.
  assert (Hlen : List.length xs = List.length args).
  { clear - Hsub. induction Hsub; cbn; congruence. }
  pose proof (node_simple D o args xs Hn Hxs Hlen) as Hsim.
  unfold node_ok in Hn. intros s rest Hi Ht.
  (* it is enough to exhibit the result and the invariant: the tokens follow *)
  assert (Hweak : exists s', elab (term_sexp (T o args) xs) s = ROk (ITerm (T o args)) s' /\ invR D s');
    [|destruct Hweak as (s' & He & Hi'); exists s'; split; [exact He | split; [exact Hi' | exact (elab_toks _ _ _ _ _ Hsim He Ht)]]].
  destruct (is_leaf_op o) eqn:Hleaf.
  - (* leaves *)
    destruct Hn as [-> Hl]. inversion Hsub; subst. clear Hsub Hxs Hlen.
    destruct o; try discriminate Hleaf; cbn in Hl; try contradiction.
    + (* symbol *)
      destruct Hl as (Hq & Hp & HD). change (term_sexp (T (OSymbol n t) []) []) with (Atom (quote n)).
      rewrite Hq. cbn [elab]. exists (pop1 s). split; [|exact Hi].
      now rewrite (atom_declaredR D n _ (pop1 s) Hi HD).
    + (* Real constant: n.0, (/ n.0 d.0), (- ..) *)
      unfold real_leaf_ok in Hl. cbv zeta in Hl. destruct Hl as (Hpa & HDa & Hra & Hdiv & Hneg & Hpos).
      change (term_sexp (T (ORealC num den) []) []) with (real_const num den). unfold real_const.
      (* the body: the constant |num| / den *)
      assert (Hbody : forall st, invR D st ->
                exists st', elab (if (den =? 1)%Z then Atom (dec_string (Z.abs num) ++ ".0")
                                  else SList [Atom "/"; Atom (dec_string (Z.abs num) ++ ".0"); Atom (dec_string den ++ ".0")]) st
                            = ROk (ITerm (TRealC (Z.abs num) den)) st' /\ invR D st').
      { intros st Hst. destruct (den =? 1)%Z eqn:Hd.
        - apply Z.eqb_eq in Hd. subst den. cbn [elab].
          destruct (atom_litR D _ _ (pop1 st) Hst HDa Hra (dec0_not_reserved _)) as (s1 & E1 & I1). exists s1. split; assumption.
        - destruct (Hdiv eq_refl) as (Hpb & HDb & Hrb & Hop).
          rewrite elab_app by reflexivity. change (elab_head "/" (pop1 (pop1 st))) with (ROk (IOp PDiv) (pop1 (pop1 st))).
          cbn [bind elab_list elab_list_with elab].
          destruct (atom_litR D _ _ (pop1 (pop1 (pop1 st))) Hst HDa Hra (dec0_not_reserved _)) as (s1 & E1 & I1). rewrite E1. cbn [bind].
          destruct (atom_litR D _ _ (pop1 s1) I1 HDb Hrb (dec0_not_reserved _)) as (s2 & E2 & I2). rewrite E2. cbn [bind].
          exists (pop1 s2). split; [|exact I2]. cbn [call terms_of]. rewrite Hop. reflexivity. }
      destruct (num <? 0)%Z eqn:Hz.
      * rewrite elab_app by reflexivity. change (elab_head "-" (pop1 (pop1 s))) with (ROk (IOp PMinus) (pop1 (pop1 s))).
        cbn [bind elab_list elab_list_with].
        destruct (Hbody (pop1 (pop1 s)) Hi) as (s1 & E1 & I1). rewrite E1. cbn [bind].
        exists (pop1 s1). split; [|exact I1]. cbn [call terms_of]. rewrite (Hneg eq_refl). reflexivity.
      * destruct (Hbody s Hi) as (s1 & E1 & I1). exists s1. split; [|exact I1].
        rewrite E1. now rewrite (Hpos eq_refl).
    + (* Boolean constant *)
      change (term_sexp (T (OBoolC b) []) []) with (Atom (if b then "true" else "false")).
      cbn [elab]. exists (pop1 s). split; [|exact Hi].
      now rewrite (atom_declaredR D _ _ (pop1 s) Hi Hl).
    + (* integer constant *)
      rename Hl into HD. pose proof (lit_reads_numeral (Z.abs z) (Z.abs_nonneg z)) as Hr.
      change (term_sexp (T (OIntC z) []) []) with (int_const z). unfold int_const.
      destruct (z <? 0)%Z eqn:Hz.
      * apply Z.ltb_lt in Hz. replace (- z)%Z with (Z.abs z) by lia.
        rewrite elab_app by reflexivity. change (elab_head "-" (pop1 (pop1 s))) with (ROk (IOp PMinus) (pop1 (pop1 s))).
        cbn [bind elab_list elab_list_with elab].
        destruct (atom_litR D _ _ (pop1 (pop1 (pop1 s))) Hi HD Hr (dec_not_reserved _)) as (s1 & E1 & I1).
        rewrite E1. cbn [bind]. exists (pop1 s1). split; [|exact I1].
        cbn. replace (- Z.abs z)%Z with z by lia. reflexivity.
      * apply Z.ltb_ge in Hz. assert (Ez : Z.abs z = z) by lia. rewrite Ez in *. cbn [elab].
        destruct (atom_litR D _ _ (pop1 s) Hi HD Hr (dec_not_reserved _)) as (s1 & E1 & I1).
        exists s1. split; [exact E1 | exact I1].
    + (* bit-vector constant *)
      destruct Hl as (HD & Hr). change (term_sexp (T (OBVC v w) []) []) with (Atom (bv_string w v)). cbn [elab].
      destruct (atom_litR D _ _ (pop1 s) Hi HD Hr (bv_not_reserved _ _)) as (s1 & E1 & I1). exists s1. split; assumption.
  - destruct Hn as [(Hp & _ & h & Hh & Hparen & Hcase) | (name & idx & f & x & Hidx & -> & Htok & Hap)].
    + (* operators and function applications *)
      rewrite (term_sexp_inner o args h xs Hp Hleaf Hh) in *.
      assert (Happ : app_head h = true).
      { unfold app_head. destruct Hcase as [(o' & -> & _) | (n & fty & _ & -> & _)]; reflexivity. }
      rewrite (elab_app h _ s Happ).
      rewrite toks_head in Ht.
      pose proof (toks_pop1 _ _ _ (toks_pop1 s _ _ Ht)) as Ht2.
      destruct Hcase as [(o' & Htab & Ha) | (n & fty & -> & Htab & HD & Hf & Hc)].
      * unfold elab_head. rewrite Htab. cbn [bind].
        destruct (elab_list_reads D xs args Hsub (pop1 (pop1 s)) _ Hi Ht2) as (s2 & E2 & I2 & _). rewrite E2. cbn [bind].
        exists (pop1 s2). split; [|exact I2]. cbn [call]. rewrite terms_of_map, Ha. reflexivity.
      * unfold elab_head. rewrite Htab. rewrite (atom_declaredR D h _ (pop1 (pop1 s)) Hi HD). cbn [bind].
        destruct (elab_list_reads D xs args Hsub (pop1 (pop1 s)) _ Hi Ht2) as (s2 & E2 & I2 & _). rewrite E2. cbn [bind].
        exists (pop1 s2). split; [|exact I2]. cbn [call]. rewrite terms_of_map, Hf, Hc. reflexivity.
    + (* indexed bit-vector operators *)
      inversion Hsub as [|x' ? ? ? Hx Hnil]; subst. inversion Hnil; subst. clear Hsub Hnil.
      rewrite (term_sexp_indexed o name idx f [x] [x'] Hidx) in *. rewrite elab_indexed. cbv zeta.
      assert (Ht' : toks s = "(" :: "(" :: "_" :: name :: map py_int_str idx ++ ")" :: flatten x' ++ ")" :: rest).
      { rewrite Ht. cbn [flatten flat_map app]. rewrite flat_map_concat_map, map_map. cbn [flatten].
        rewrite <- flat_map_concat_map.
        replace (flat_map (fun z => [py_int_str z]) idx) with (map py_int_str idx)
          by (clear; induction idx; cbn; congruence).
        repeat (rewrite <- ?app_assoc; cbn [app]). rewrite ?app_nil_r. reflexivity. }
      pose proof (toks_pop1 _ _ _ (toks_pop1 _ _ _ (toks_pop1 s _ _ Ht'))) as Ht3.
      set (s1 := pop1 (pop1 (pop1 s))) in *.
      assert (Hu : exists s2, underscore_item s1 = ROk (IThunkIdx f) s2 /\
                              toks s2 = ")" :: flatten x' ++ ")" :: rest /\ invR D s2).
      { unfold underscore_item.
        destruct o; try discriminate Hidx; cbn [idx_of] in Hidx; inversion Hidx; subst name idx f; clear Hidx;
          cbn [map app] in Ht3.
        - (* extract *)
          inversion Htok as [|? ? (He1 & Hp1) Htok2]; subst. inversion Htok2 as [|? ? (He2 & Hp2) _]; subst.
          rewrite (parse_atom_cons s1 _ _ Ht3 eq_refl). cbn [bind]. change ("extract" =? "extract") with true. cbv iota.
          pose proof (toks_pop1 s1 _ _ Ht3) as T1. rewrite (parse_atom_cons _ _ _ T1 Hp1). cbn [bind].
          pose proof (toks_pop1 _ _ _ T1) as T2. rewrite (parse_atom_cons _ _ _ T2 Hp2). cbn [bind].
          rewrite He1, He2. eexists. split; [reflexivity|]. split; [exact (toks_pop1 _ _ _ T2) | exact Hi].
        - inversion Htok as [|? ? (He1 & Hp1) _]; subst.
          rewrite (parse_atom_cons s1 _ _ Ht3 eq_refl). cbn [bind].
          change ("rotate_left" =? "extract") with false. change ("rotate_left" =? "zero_extend") with false.
          change ("rotate_left" =? "repeat") with false. change ("rotate_left" =? "rotate_left") with true. cbv iota.
          pose proof (toks_pop1 s1 _ _ Ht3) as T1. unfold int_arg1. rewrite (parse_atom_cons _ _ _ T1 Hp1). cbn [bind].
          rewrite He1. eexists. split; [reflexivity|]. split; [exact (toks_pop1 _ _ _ T1) | exact Hi].
        - inversion Htok as [|? ? (He1 & Hp1) _]; subst.
          rewrite (parse_atom_cons s1 _ _ Ht3 eq_refl). cbn [bind].
          change ("rotate_right" =? "extract") with false. change ("rotate_right" =? "zero_extend") with false.
          change ("rotate_right" =? "repeat") with false. change ("rotate_right" =? "rotate_left") with false.
          change ("rotate_right" =? "rotate_right") with true. cbv iota.
          pose proof (toks_pop1 s1 _ _ Ht3) as T1. unfold int_arg1. rewrite (parse_atom_cons _ _ _ T1 Hp1). cbn [bind].
          rewrite He1. eexists. split; [reflexivity|]. split; [exact (toks_pop1 _ _ _ T1) | exact Hi].
        - inversion Htok as [|? ? (He1 & Hp1) _]; subst.
          rewrite (parse_atom_cons s1 _ _ Ht3 eq_refl). cbn [bind].
          change ("zero_extend" =? "extract") with false. change ("zero_extend" =? "zero_extend") with true. cbv iota.
          pose proof (toks_pop1 s1 _ _ Ht3) as T1. unfold int_arg1. rewrite (parse_atom_cons _ _ _ T1 Hp1). cbn [bind].
          rewrite He1. eexists. split; [reflexivity|]. split; [exact (toks_pop1 _ _ _ T1) | exact Hi].
        - inversion Htok as [|? ? (He1 & Hp1) _]; subst.
          rewrite (parse_atom_cons s1 _ _ Ht3 eq_refl). cbn [bind].
          change ("sign_extend" =? "extract") with false. change ("sign_extend" =? "zero_extend") with false.
          change ("sign_extend" =? "repeat") with false. change ("sign_extend" =? "rotate_left") with false.
          change ("sign_extend" =? "rotate_right") with false. change ("sign_extend" =? "sign_extend") with true. cbv iota.
          pose proof (toks_pop1 s1 _ _ Ht3) as T1. unfold int_arg1. rewrite (parse_atom_cons _ _ _ T1 Hp1). cbn [bind].
          rewrite He1. eexists. split; [reflexivity|]. split; [exact (toks_pop1 _ _ _ T1) | exact Hi]. }
      destruct Hu as (s2 & Eu & T2 & I2). rewrite Eu. cbn [bind].
      assert (Hck : check_toks s1 (List.length (flat_map flatten (tl (Atom "_" :: Atom name :: map (fun z => Atom (py_int_str z)) idx)))) s2 = true).
      { unfold check_toks. rewrite T2, Ht3. cbn [tl flat_map flatten app List.length].
        rewrite flat_map_concat_map, map_map. cbn [flatten]. rewrite <- flat_map_concat_map.
        replace (flat_map (fun z => [py_int_str z]) idx) with (map py_int_str idx)
          by (clear; induction idx; cbn; congruence).
        change (name :: map py_int_str idx ++ ")" :: flatten x' ++ ")" :: rest)
          with ((name :: map py_int_str idx) ++ ")" :: flatten x' ++ ")" :: rest).
        change (S (List.length (map py_int_str idx))) with (List.length (name :: map py_int_str idx)).
        rewrite skipn_app_len. apply list_eqs_refl. }
      rewrite Hck. cbn [call bind].
      pose proof (toks_pop1 s2 _ _ T2) as T3.
      destruct (Hx (pop1 s2) _ I2 T3) as (s4 & E4 & I4 & _).
      unfold elab_list. cbn [elab_list_with]. rewrite E4. cbn [bind].
      exists (pop1 s4). split; [|exact I4]. rewrite Hap. reflexivity.
Qed.

Theorem elab_print D : forall t, rt D t -> reads_back D t.
Proof.
  induction t as [o args IH] using term_ind'. intros Hrt.
  apply rt_unfold in Hrt. destruct Hrt as [Hn Hargs]. unfold reads_back.
  rewrite (print_tree_plain o args (node_ok_plain D o args Hn)).
  apply (node_reads D o args _ Hn).
  - clear Hn. induction args as [|a r IHr]; cbn [map]; [constructor|].
    inversion IH as [|? ? Ha IHr']; subst. inversion Hargs as [|? ? Hra Hrr]; subst.
    constructor; [exact (Ha Hra) | exact (IHr IHr' Hrr)].
  - apply Forall_forall. intros y Hy. apply in_map_iff in Hy. destruct Hy as (x & <- & Hx).
    rewrite Forall_forall in Hargs. exact (rt_simple D x (Hargs x Hx)).
Qed.

(* ------------------------------------------------------------------------- from elab to read_back *)
Definition tok_plainb (t : string) : bool :=
  String.eqb t "(" || String.eqb t ")" ||
  (negb (String.eqb t "") && forallb plain_char (list_ascii_of_string t)).
Lemma tok_plainb_ok t : tok_plainb t = true -> plain_tok t.
Proof.
  unfold tok_plainb, plain_tok. intros H. apply orb_true_iff in H. destruct H as [H|H].
  - apply orb_true_iff in H. destruct H as [H|H]; apply String.eqb_eq in H; auto.
  - apply andb_true_iff in H. destruct H as [H1 H2]. right. right. split; [|exact H2].
    intros ->. discriminate H1.
Qed.
Definition all_plain (x : sexp) : bool := forallb tok_plainb (flatten x).

(* the declarations of the state in which t is read back *)
Definition D_of (t : term) : list (string * item) :=
  map (fun kv => (fst kv, hd IPartial (snd kv))) (keys (state_of t ([], LexEof))).

Lemma alookup_map_hd n (L : list (string * list item)) :
  alookup n (map (fun kv => (fst kv, hd IPartial (snd kv))) L) = option_map (hd IPartial) (alookup n L).
Proof. induction L as [|[k v] r IH]; cbn; [reflexivity|]. destruct (n =? k); [reflexivity | exact IH]. Qed.

Lemma state_of_single t tk : forall n l, alookup n (keys (state_of t tk)) = Some l -> exists x, l = [x].
Proof.
  assert (HS : Forall (fun kv : string * list item => exists x, snd kv = [x]) (keys (state_of t tk))).
  { cbn [keys state_of]. repeat rewrite Forall_app. repeat split.
    - rewrite Forall_map. apply Forall_forall. intros v _. cbn. eauto.
    - apply Forall_forall. intros kv Hin. apply in_flat_map in Hin. destruct Hin as (ty & _ & Hin).
      destruct ty; cbn in Hin; try contradiction. destruct targs; cbn in Hin; destruct Hin as [<-|[]]; cbn; eauto.
    - repeat constructor; cbn; eauto. }
  intros n l. induction HS as [|[k v] r Hk _ IH]; cbn; [discriminate|].
  destruct (n =? k); [intros E; inversion E; subst; exact Hk | exact IH].
Qed.

Lemma inv_state_of t tk : inv (D_of t) (state_of t tk).
Proof.
  pose proof (state_of_single t tk) as Hsingle.
  repeat split.
  - intros n it Hn. unfold D_of in Hn. rewrite alookup_map_hd in Hn.
    change (keys (state_of t ([], LexEof))) with (keys (state_of t tk)) in Hn.
    rewrite cache_get_keys by reflexivity.
    destruct (alookup n (keys (state_of t tk))) as [l|] eqn:E; [|discriminate].
    destruct (Hsingle _ _ E) as [x ->]. cbn in Hn. now inversion Hn.
  - intros k v Hk. left. rewrite cache_get_keys in Hk by reflexivity. unfold D_of. rewrite alookup_map_hd.
    change (keys (state_of t ([], LexEof))) with (keys (state_of t tk)).
    destruct (alookup k (keys (state_of t tk))) as [[|x l]|]; try discriminate. now inversion Hk.
Qed.
Lemma invR_state_of t tk : invR (D_of t) (state_of t tk).
Proof.
  split; [apply inv_state_of|]. intros n _. unfold stack_of, D_of. rewrite alookup_map_hd.
  change (keys (state_of t ([], LexEof))) with (keys (state_of t tk)).
  destruct (alookup n (keys (state_of t tk))) as [l|] eqn:E; [|reflexivity].
  destruct (state_of_single t tk _ _ E) as [x ->]. reflexivity.
Qed.

(* FULL STATEMENT (roundtrip_tree): for every well-typed t with printable names,
     read_back print_tree t = Ok (ITerm t).
   Proved: for every t whose nodes satisfy the local condition [rt] (see node_ok_* below for the
   operators for which it follows from typing) and whose printed tokens need no quoting. *)
Theorem roundtrip_tree_partial t :
  rt (D_of t) t -> all_plain (print_tree t) = true -> read_back print_tree t = Ok (ITerm t).
Proof.
  intros Hrt Hpl. unfold read_back, text_of.
  assert (Hlex : lex (render_sp (flatten (print_tree t))) = (flatten (print_tree t), LexEof)).
  { apply lex_agrees_partial. unfold all_plain in Hpl. rewrite forallb_forall in Hpl.
    apply Forall_forall. intros tk Hin. apply tok_plainb_ok. now apply Hpl. }
  rewrite Hlex. set (x := print_tree t) in *. set (s0 := state_of t (flatten x, LexEof)).
  assert (Ht0 : toks s0 = flatten x ++ []) by (unfold s0; cbn [toks state_of fst]; now rewrite app_nil_r).
  destruct (elab_print (D_of t) t Hrt s0 [] (invR_state_of t _) Ht0) as (s' & He & _). fold x in He.
  unfold get_expression.
  assert (Hfuel : exists k, expr_fuel s0 = (cost x + k)%nat).
  { exists (expr_fuel s0 - cost x)%nat. pose proof (cost_le x).
    assert (List.length (flatten x) <= expr_fuel s0)%nat; [|lia].
    unfold expr_fuel, fuel_of, s0. cbn [toks state_of fst]. lia. }
  destruct Hfuel as [k ->].
  destruct (machine_simple_top x (rt_simple _ t Hrt) k s0 (ITerm t) s' [] He) as [G _].
  { unfold s0. cbn [toks state_of fst]. now rewrite app_nil_r. }
  rewrite G. reflexivity.
Qed.

(* ------------------------------------------------------------------------- the local condition from typing *)
Section NodeOk.
  Variable D : list (string * item).

  Lemma chk_ok t : tc t <> None -> chk t = Ok t.
  Proof. unfold chk. destruct (tc t); [reflexivity | congruence]. Qed.
  Lemma fix_real_ok op args t : op args = Ok t -> fix_real op args = Ok t.
  Proof. unfold fix_real. now intros ->. Qed.

  Lemma inner_op o args h o' :
    plain_op o = true -> is_leaf_op o = false -> head_of (T o args) = Some h -> is_paren h = false ->
    alookup h interpreted_table = Some (HOp o') -> apply_op o' args = Ok (T o args) -> node_ok D o args.
  Proof.
    intros H1 H2 H3 H4 H5 H6. unfold node_ok. rewrite H2. left. split; [exact H1|]. split; [exact H2|].
    exists h. repeat split; try assumption. left. exists o'. split; assumption.
  Qed.

  Ltac by_op h := eapply (inner_op _ _ h); [reflexivity | reflexivity | reflexivity | reflexivity | reflexivity | ].

  Lemma node_ok_and a b r : tc (T OAnd (a :: b :: r)) <> None -> node_ok D OAnd (a :: b :: r).
  Proof. intros H. by_op "and". cbn [apply_op]. now apply chk_ok. Qed.
  Lemma node_ok_or a b r : tc (T OOr (a :: b :: r)) <> None -> node_ok D OOr (a :: b :: r).
  Proof. intros H. by_op "or". cbn [apply_op]. now apply chk_ok. Qed.
  Lemma node_ok_not a : tc (T ONot [a]) <> None -> is_not a = false -> node_ok D ONot [a].
  Proof. intros H Hn. by_op "not". cbn [apply_op un]. rewrite Hn. now apply chk_ok. Qed.
  Lemma node_ok_implies a b : tc (T OImplies [a; b]) <> None -> node_ok D OImplies [a; b].
  Proof. intros H. by_op "=>". cbn [apply_op bin]. now apply chk_ok. Qed.
  Lemma node_ok_ite c a b : tc (T OIte [c; a; b]) <> None -> node_ok D OIte [c; a; b].
  Proof. intros H. by_op "ite". cbn [apply_op]. apply fix_real_ok. cbn [tern]. now apply chk_ok. Qed.
  Lemma node_ok_plus a b r : tc (T OPlus (a :: b :: r)) <> None -> node_ok D OPlus (a :: b :: r).
  Proof. intros H. by_op "+". cbn [apply_op]. apply fix_real_ok. cbn. now apply chk_ok. Qed.
  Lemma node_ok_times a b r : tc (T OTimes (a :: b :: r)) <> None -> node_ok D OTimes (a :: b :: r).
  Proof. intros H. by_op "*". cbn [apply_op]. apply fix_real_ok. cbn. now apply chk_ok. Qed.
  Lemma node_ok_minus a b : tc (T OMinus [a; b]) <> None -> node_ok D OMinus [a; b].
  Proof. intros H. by_op "-". cbn [apply_op]. apply fix_real_ok. cbn [bin]. now apply chk_ok. Qed.
  Lemma node_ok_le a b : tc (T OLe [a; b]) <> None -> node_ok D OLe [a; b].
  Proof. intros H. by_op "<=". cbn [apply_op]. apply fix_real_ok. cbn [bin]. now apply chk_ok. Qed.
  Lemma node_ok_lt a b : tc (T OLt [a; b]) <> None -> node_ok D OLt [a; b].
  Proof. intros H. by_op "<". cbn [apply_op]. apply fix_real_ok. cbn [bin]. now apply chk_ok. Qed.

  (* what typing says about the first argument of <-> and = *)
  Lemma tc_iff_bool a b : tc (T OIff [a; b]) <> None -> is_bool_t a = true.
  Proof.
    unfold is_bool_t. cbn [tc]. destruct (tc a) as [ta|]; [|congruence]. destruct (tc b) as [tb|]; [|congruence].
    cbn. destruct ta; cbn; congruence.
  Qed.
  Lemma tc_equals_not_bool a b : tc (T OEquals [a; b]) <> None -> is_bool_t a = false.
  Proof.
    unfold is_bool_t. cbn [tc]. destruct (tc a) as [ta|]; [|congruence]. destruct (tc b) as [tb|]; [|congruence].
    cbn. destruct ta; cbn; congruence.
  Qed.
  Lemma node_ok_iff a b : tc (T OIff [a; b]) <> None -> node_ok D OIff [a; b].
  Proof. intros H. by_op "=". cbn [apply_op bin]. rewrite (tc_iff_bool a b H). now apply chk_ok. Qed.
  Lemma node_ok_equals a b : tc (T OEquals [a; b]) <> None -> node_ok D OEquals [a; b].
  Proof.
    intros H. by_op "=". cbn [apply_op bin]. rewrite (tc_equals_not_bool a b H).
    apply fix_real_ok. cbn [bin]. now apply chk_ok.
  Qed.

  (* bit-vectors: the width stored in the node is the width of its first argument *)
  Lemma node_ok_bvrel k a b : tc (T (OBVRel k) [a; b]) <> None -> node_ok D (OBVRel k) [a; b].
  Proof. intros H. destruct k; [by_op "bvult" | by_op "bvule" | by_op "bvslt" | by_op "bvsle"];
    cbn [apply_op bin]; now apply chk_ok. Qed.
  Lemma node_ok_bv2 k w a b :
    match k with BNot | BNeg | BConcat | BComp | BAnd | BOr | BAdd | BMul => False | _ => True end ->
    bv_width a = w -> tc (T (OBV k w) [a; b]) <> None -> node_ok D (OBV k w) [a; b].
  Proof.
    intros Hk Hw H. subst w.
    destruct k; try contradiction;
      [by_op "bvxor" | by_op "bvsub" | by_op "bvudiv" | by_op "bvurem" | by_op "bvshl" | by_op "bvlshr"
       | by_op "bvsdiv" | by_op "bvsrem" | by_op "bvashr"];
      cbn [apply_op bin]; now apply chk_ok.
  Qed.
  Lemma node_ok_bvn k w a b :
    match k with BAnd | BOr | BAdd | BMul => True | _ => False end ->
    bv_width a = w -> tc (T (OBV k w) [a; b]) <> None -> node_ok D (OBV k w) [a; b].
  Proof.
    intros Hk Hw H. subst w.
    destruct k; try contradiction; [by_op "bvand" | by_op "bvor" | by_op "bvadd" | by_op "bvmul"];
      cbn [apply_op bv_fold]; unfold mk_bvop; rewrite (chk_ok _ H); reflexivity.
  Qed.
  Lemma node_ok_bv1 k w a :
    match k with BNot | BNeg => True | _ => False end ->
    bv_width a = w -> tc (T (OBV k w) [a]) <> None -> node_ok D (OBV k w) [a].
  Proof.
    intros Hk Hw H. subst w. destruct k; try contradiction; [by_op "bvnot" | by_op "bvneg"];
      cbn [apply_op un]; now apply chk_ok.
  Qed.

  (* uninterpreted functions *)
  Lemma node_ok_fun n ps r a args :
    quote n = n -> is_paren n = false -> alookup n interpreted_table = None ->
    alookup n D = Some (IFunc n (TFun ps r)) ->
    List.length ps = List.length (a :: args) ->
    tc (T (OFunction n (TFun ps r)) (a :: args)) <> None ->
    node_ok D (OFunction n (TFun ps r)) (a :: args).
  Proof.
    intros Hq Hp Ht HD Hlen H. unfold node_ok. cbn [is_leaf_op]. left. split; [reflexivity|]. split; [reflexivity|].
    exists n. cbn [head_of op_head]. rewrite Hq. repeat split; try assumption. right.
    exists n, (TFun ps r). repeat split; try assumption.
    - cbn [mk_function]. now rewrite Hlen, Nat.eqb_refl.
    - now apply chk_ok.
  Qed.

  (* indexed bit-vector operators; the side conditions on the index tokens (str(k) is read back as
     k by int()) are closed and decidable for every concrete index *)
  Lemma node_ok_indexed o x name idx f :
    idx_of o = Some (name, idx, f) -> Forall idx_tok_ok idx -> apply_idx f x = Ok (T o [x]) ->
    node_ok D o [x].
  Proof.
    intros Hi Ht Ha. unfold node_ok.
    assert (Hl : is_leaf_op o = false) by (destruct o; try discriminate Hi; reflexivity).
    rewrite Hl. right. exists name, idx, f, x. repeat split; assumption.
  Qed.
  Lemma node_ok_extract w s e x :
    w = (e - s + 1)%Z -> (0 <= s <= e)%Z -> (w <= bv_width x)%Z ->
    tc (T (OBVExtract w s e) [x]) <> None -> idx_tok_ok e -> idx_tok_ok s ->
    node_ok D (OBVExtract w s e) [x].
  Proof.
    intros -> Hse Hw H He Hs. eapply node_ok_indexed; [reflexivity | apply Forall_cons; [exact He | apply Forall_cons; [exact Hs | apply Forall_nil]] |].
    cbn [apply_idx]. unfold mk_bvextract.
    replace ((e <? s) || (s <? 0))%Z with false by lia.
    replace (bv_width x <? e - s + 1)%Z with false by lia. cbn [chko]. now apply chk_ok.
  Qed.
  Lemma node_ok_rol k x : tc (T (OBVRol (bv_width x) k) [x]) <> None -> idx_tok_ok k ->
    node_ok D (OBVRol (bv_width x) k) [x].
  Proof. intros H Hk. eapply node_ok_indexed; [reflexivity | apply Forall_cons; [exact Hk | apply Forall_nil] |]. cbn [apply_idx]. now apply chk_ok. Qed.
  Lemma node_ok_ror k x : tc (T (OBVRor (bv_width x) k) [x]) <> None -> idx_tok_ok k ->
    node_ok D (OBVRor (bv_width x) k) [x].
  Proof. intros H Hk. eapply node_ok_indexed; [reflexivity | apply Forall_cons; [exact Hk | apply Forall_nil] |]. cbn [apply_idx]. now apply chk_ok. Qed.
  Lemma node_ok_zext k x : tc (T (OBVZext (bv_width x + k) k) [x]) <> None -> idx_tok_ok k ->
    node_ok D (OBVZext (bv_width x + k) k) [x].
  Proof. intros H Hk. eapply node_ok_indexed; [reflexivity | apply Forall_cons; [exact Hk | apply Forall_nil] |]. cbn [apply_idx]. now apply chk_ok. Qed.
  Lemma node_ok_sext k x : tc (T (OBVSext (bv_width x + k) k) [x]) <> None -> idx_tok_ok k ->
    node_ok D (OBVSext (bv_width x + k) k) [x].
  Proof. intros H Hk. eapply node_ok_indexed; [reflexivity | apply Forall_cons; [exact Hk | apply Forall_nil] |]. cbn [apply_idx]. now apply chk_ok. Qed.
End NodeOk.

(* ------------------------------------------------------------------------- the hypotheses are satisfiable *)
Definition ex_x := TSym "x" TInt.
Definition ex_y := TSym "y" TInt.
Definition ex_p := TSym "p" TBool.
Definition ex_f (a : term) := T (OFunction "f" (TFun [TInt] TInt)) [a].
Definition ex_term : term :=
  T OAnd [T OLe [T OPlus [ex_x; TIntC 1; ex_f (T OMinus [ex_y; TIntC (-3)])]; T OTimes [TIntC 2; ex_y]];
          T ONot [ex_p];
          T OIff [ex_p; T OEquals [T OIte [ex_p; ex_x; ex_y]; TIntC 7]]].

Example ex_term_rt : rt (D_of ex_term) ex_term /\ all_plain (print_tree ex_term) = true.
Proof.
  split; [|vm_compute; reflexivity].
  set (D := D_of ex_term).
  assert (Hs : forall n ty, In (n, ty) [("x", TInt); ("y", TInt); ("p", TBool)] -> node_ok D (OSymbol n ty) []).
  { intros n ty Hin. unfold node_ok. cbn [is_leaf_op]. split; [reflexivity|].
    cbn in Hin. destruct Hin as [E|[E|[E|[]]]]; inversion E; subst; vm_compute; auto. }
  assert (Hc : forall z, In z [1; 2; 7; -3]%Z -> node_ok D (OIntC z) []).
  { intros z Hin. unfold node_ok. cbn [is_leaf_op]. split; [reflexivity|].
    cbn in Hin. destruct Hin as [E|[E|[E|[E|[]]]]]; subst; vm_compute; reflexivity. }
  unfold ex_term, ex_x, ex_y, ex_p, ex_f, TSym, TIntC.
  Ltac typed := vm_compute; discriminate.
  Ltac node Hs Hc :=
    lazymatch goal with
    | |- node_ok _ (OSymbol _ _) _ => apply Hs; cbn; tauto
    | |- node_ok _ (OIntC _) _ => apply Hc; cbn; tauto
    | |- node_ok _ OAnd _ => apply node_ok_and; typed
    | |- node_ok _ OLe _ => apply node_ok_le; typed
    | |- node_ok _ OPlus _ => apply node_ok_plus; typed
    | |- node_ok _ OTimes _ => apply node_ok_times; typed
    | |- node_ok _ OMinus _ => apply node_ok_minus; typed
    | |- node_ok _ OIff _ => apply node_ok_iff; typed
    | |- node_ok _ OEquals _ => apply node_ok_equals; typed
    | |- node_ok _ OIte _ => apply node_ok_ite; typed
    | |- node_ok _ ONot _ => apply node_ok_not; [typed | reflexivity]
    | |- node_ok _ (OFunction _ _) _ => apply node_ok_fun; try reflexivity; typed
    end.
  Ltac tree Hs Hc :=
    apply rt_unfold; split;
    [ node Hs Hc | repeat (first [apply Forall_nil | apply Forall_cons; [tree Hs Hc|]]) ].
  tree Hs Hc.
Qed.

Example ex_term_roundtrip : read_back print_tree ex_term = Ok (ITerm ex_term).
Proof. apply roundtrip_tree_partial; apply ex_term_rt. Qed.

(* indexed operators: ((_ extract 5 2) w) etc. through the inductive theorem *)
Definition ex_w := TSym "w" (TBV 8).
Definition ex_v := TSym "v" (TBV 2).
Definition ex_bv : term :=
  T (OBVRel BUlt) [T (OBVExtract 4 2 5) [ex_w]; T (OBVZext 4 2) [T (OBVRol 2 1) [ex_v]]].
Example ex_bv_roundtrip : read_back print_tree ex_bv = Ok (ITerm ex_bv).
Proof.
  apply roundtrip_tree_partial; [|vm_compute; reflexivity].
  set (D := D_of ex_bv).
  assert (Htok : forall k, In k [1; 2; 5]%Z -> idx_tok_ok k).
  { intros k Hk. cbn in Hk. destruct Hk as [<-|[<-|[<-|[]]]]; split; vm_compute; reflexivity. }
  assert (Hs : forall n ty, In (n, ty) [("w", TBV 8); ("v", TBV 2)] -> node_ok D (OSymbol n ty) []).
  { intros n ty Hin. unfold node_ok. cbn [is_leaf_op]. split; [reflexivity|].
    cbn in Hin. destruct Hin as [E|[E|[]]]; inversion E; subst; vm_compute; auto. }
  unfold ex_bv, ex_w, ex_v, TSym.
  Ltac fa := repeat (first [apply Forall_nil | apply Forall_cons]).
  assert (Hw : rt D (T (OSymbol "w" (TBV 8)) [])) by (apply rt_unfold; split; [apply Hs; cbn; tauto | fa]).
  assert (Hv : rt D (T (OSymbol "v" (TBV 2)) [])) by (apply rt_unfold; split; [apply Hs; cbn; tauto | fa]).
  apply rt_unfold; split; [apply node_ok_bvrel; vm_compute; discriminate | fa].
  - apply rt_unfold; split; [|fa; exact Hw].
    apply node_ok_extract; try reflexivity; try (vm_compute; discriminate); try (apply Htok; cbn; tauto); cbn; lia.
  - apply rt_unfold; split; [|fa].
    + apply (node_ok_zext D 2 (T (OBVRol 2 1) [T (OSymbol "v" (TBV 2)) []])); [vm_compute; discriminate | apply Htok; cbn; tauto].
    + apply rt_unfold; split; [|fa; exact Hv].
      apply (node_ok_rol D 1 (T (OSymbol "v" (TBV 2)) [])); [vm_compute; discriminate | apply Htok; cbn; tauto].
Qed.

(* bit-vector and Real constants through the inductive theorem: the lexical hypotheses are proved by
   computation for the concrete tokens *)
Ltac lit_by_computation :=
  let s := fresh "s" in let H := fresh "H" in
  intros s H; unfold literal; cbn; rewrite ?H; reflexivity.
Definition ex_c := TSym "c" (TBV 4).
Definition ex_r := TSym "r" TReal.
Definition ex_const : term :=
  T OAnd [T OEquals [ex_c; TBVC 5 4]; T OLt [ex_r; TRealC (-3) 4]; T OLe [TRealC 7 1; ex_r]].
Example ex_const_roundtrip : read_back print_tree ex_const = Ok (ITerm ex_const).
Proof.
  apply roundtrip_tree_partial; [|vm_compute; reflexivity].
  set (D := D_of ex_const).
  Ltac fa2 := repeat (first [apply Forall_nil | apply Forall_cons]).
  assert (Hs : forall n ty, In (n, ty) [("c", TBV 4); ("r", TReal)] -> rt D (T (OSymbol n ty) [])).
  { intros n ty Hin. apply rt_unfold; split; [|fa2]. unfold node_ok. cbn [is_leaf_op]. split; [reflexivity|].
    cbn in Hin. destruct Hin as [E|[E|[]]]; inversion E; subst; vm_compute; auto. }
  assert (Hbv : rt D (TBVC 5 4)).
  { apply rt_unfold; split; [|fa2]. unfold node_ok. cbn [is_leaf_op leaf_ok]. split; [reflexivity|].
    split; [vm_compute; reflexivity | lit_by_computation]. }
  assert (Hr1 : rt D (TRealC (-3) 4)).
  { apply rt_unfold; split; [|fa2]. unfold node_ok. cbn [is_leaf_op leaf_ok]. split; [reflexivity|].
    unfold real_leaf_ok. cbv zeta. repeat split; try (vm_compute; reflexivity); try lit_by_computation;
      try (intros Hx; vm_compute in Hx; discriminate Hx). }
  assert (Hr2 : rt D (TRealC 7 1)).
  { apply rt_unfold; split; [|fa2]. unfold node_ok. cbn [is_leaf_op leaf_ok]. split; [reflexivity|].
    unfold real_leaf_ok. cbv zeta. repeat split; try (vm_compute; reflexivity); try lit_by_computation;
      try (intros Hx; vm_compute in Hx; discriminate Hx). }
  unfold ex_const, ex_c, ex_r, TSym.
  apply rt_unfold; split; [apply node_ok_and; vm_compute; discriminate | fa2].
  - apply rt_unfold; split; [apply node_ok_equals; vm_compute; discriminate | fa2]; [apply Hs; cbn; tauto | exact Hbv].
  - apply rt_unfold; split; [apply node_ok_lt; vm_compute; discriminate | fa2]; [apply Hs; cbn; tauto | exact Hr1].
  - apply rt_unfold; split; [apply node_ok_le; vm_compute; discriminate | fa2]; [exact Hr2 | apply Hs; cbn; tauto].
Qed.
