(* C10, Boolean quantifier elimination: Shannon expansion and self-substitution preserve the
   value of every formula of the fragment under every well-sorted interpretation, and leave no
   quantifier. *)
From Coq Require Import List ZArith Bool String Reals Lia.
From PySMT.core Require Import Syntax SyntaxLemmas Sem.
From PySMT.models Require Import Oracles C10Local Qelim.
From PySMT.proofs Require Import Sets_proofs Coincidence C10Local_proofs Subst_proofs.
Import ListNotations.
Open Scope bool_scope.
Open Scope string_scope.

(* ---------------------------------------------------------------- binding Boolean variables *)
Lemma var_eqb_sym a b : var_eqb a b = var_eqb b a.
Proof.
  destruct (var_eqb a b) eqn:E1, (var_eqb b a) eqn:E2; auto.
  - apply var_eqb_eq in E1. subst. rewrite (proj2 (var_eqb_eq b b) eq_refl) in E2. discriminate.
  - apply var_eqb_eq in E2. subst. rewrite (proj2 (var_eqb_eq a a) eq_refl) in E1. discriminate.
Qed.
Lemma var_eqb_refl a : var_eqb a a = true.
Proof. now apply var_eqb_eq. Qed.

Lemma isym_bind1 I v x n ty : isym (bind1 I v x) n ty = if var_eqb (n, ty) v then x else isym I n ty.
Proof. reflexivity. Qed.

Lemma isym_bind_notin : forall vs xs I n ty, vals_ok xs vs -> mem var_eqb (n, ty) vs = false ->
  isym (bind I vs xs) n ty = isym I n ty.
Proof.
  induction vs as [|v vs IH]; intros xs I n ty Hok Hm; destruct xs as [|x xs]; cbn in Hok; try contradiction; auto.
  destruct Hok as [_ Hok]. cbn in Hm. apply orb_false_iff in Hm. destruct Hm as [Hv Hm].
  cbn [bind]. rewrite IH by auto. rewrite isym_bind1, Hv. reflexivity.
Qed.

Lemma bind_fields : forall vs xs J,
  ifun (bind J vs xs) = ifun J /\ rdiv0 (bind J vs xs) = rdiv0 J /\ idiv0 (bind J vs xs) = idiv0 J.
Proof.
  induction vs as [|v0 vs0 IH0]; intros xs0 J; destruct xs0; cbn; auto. destruct (IH0 xs0 (bind1 J v0 v)) as (A & B & C).
  rewrite A, B, C. auto.
Qed.

(* binding by a predicate *)
Definition pvals (p : var -> bool) (vs : list var) : list value := map (fun v => VBool (p v)) vs.

Lemma pvals_ok p vs : vars_bool vs = true -> vals_ok (pvals p vs) vs.
Proof.
  induction vs as [|v vs IH]; cbn; auto. intros H. apply andb_true_iff in H. destruct H as [Hv H].
  apply ty_eqb_eq in Hv. rewrite Hv. cbn. auto.
Qed.

Lemma isym_bind_pvals : forall vs p I n ty,
  isym (bind I vs (pvals p vs)) n ty = if mem var_eqb (n, ty) vs then VBool (p (n, ty)) else isym I n ty.
Proof.
  induction vs as [|v vs IH]; intros p I n ty; cbn [bind pvals map]; auto.
  fold (pvals p vs). rewrite IH. cbn [mem existsb]. fold (mem var_eqb (n, ty) vs).
  destruct (mem var_eqb (n, ty) vs); [now rewrite orb_true_r|]. rewrite orb_false_r, isym_bind1.
  destruct (var_eqb (n, ty) v) eqn:E; auto. apply var_eqb_eq in E. now subst.
Qed.

Lemma isym_bind_bool : forall vs xs I n ty, vars_bool vs = true -> vals_ok xs vs ->
  mem var_eqb (n, ty) vs = true -> is_vbool (isym (bind I vs xs) n ty).
Proof.
  induction vs as [|v vs IH]; intros xs I n ty Hb Hok Hm; [discriminate|].
  destruct xs as [|x xs]; cbn in Hok; try contradiction. destruct Hok as [Hx Hok].
  cbn in Hb. apply andb_true_iff in Hb. destruct Hb as [Hv Hb]. cbn [bind].
  destruct (mem var_eqb (n, ty) vs) eqn:E.
  - apply IH; auto.
  - rewrite isym_bind_notin by auto. cbn in Hm. fold (mem var_eqb (n, ty) vs) in Hm. rewrite E, orb_false_r in Hm.
    rewrite isym_bind1, Hm. apply ty_eqb_eq in Hv. rewrite Hv in Hx. destruct x; cbn in Hx; try contradiction. exact Logic.I.
Qed.

Lemma bind_ext_pvals I vs xs : vars_bool vs = true -> vals_ok xs vs ->
  ext_eq (bind I vs xs) (bind I vs (pvals (fun v => vbool (isym (bind I vs xs) (fst v) (snd v))) vs)).
Proof.
  intros Hb Hok.
  assert (F : forall vs xs J, ifun (bind J vs xs) = ifun J /\ rdiv0 (bind J vs xs) = rdiv0 J /\ idiv0 (bind J vs xs) = idiv0 J).
  { induction vs0 as [|v0 vs0 IH0]; intros xs0 J; destruct xs0; cbn; auto. destruct (IH0 xs0 (bind1 J v0 v)) as (A & B & C).
    rewrite A, B, C. auto. }
  destruct (F vs xs I) as (A1 & B1 & C1). destruct (F vs (pvals (fun v => vbool (isym (bind I vs xs) (fst v) (snd v))) vs) I) as (A2 & B2 & C2).
  repeat split; try congruence.
  - intros n t. rewrite isym_bind_pvals. destruct (mem var_eqb (n, t) vs) eqn:E.
    + cbn [fst snd]. apply is_vbool_eq. now apply isym_bind_bool.
    + now apply isym_bind_notin.
Qed.

(* the substitution-interpretation of an assignment *)
Lemma vlookup_assignment vs S k :
  vlookup (assignment vs S) k = if mem var_eqb k vs then Some (TBoolC (mem var_eqb k S)) else None.
Proof.
  unfold assignment. induction vs as [|v vs IH]; cbn; auto. fold (mem var_eqb k vs).
  rewrite (var_eqb_sym k v). destruct (var_eqb v k) eqn:E; cbn; auto. apply var_eqb_eq in E. now subst.
Qed.

Lemma ov_assignment_ext I vs S :
  ext_eq (ov I (assignment vs S)) (bind I vs (pvals (fun v => mem var_eqb v S) vs)).
Proof.
  assert (F : forall vs xs J, ifun (bind J vs xs) = ifun J /\ rdiv0 (bind J vs xs) = rdiv0 J /\ idiv0 (bind J vs xs) = idiv0 J).
  { induction vs0 as [|v0 vs0 IH0]; intros xs0 J; destruct xs0; cbn; auto. destruct (IH0 xs0 (bind1 J v0 v)) as (A & B & C).
    rewrite A, B, C. auto. }
  destruct (F vs (pvals (fun v => mem var_eqb v S) vs) I) as (A & B & C).
  repeat split; cbn; try congruence.
  - intros n t. rewrite isym_bind_pvals, vlookup_assignment. destruct (mem var_eqb (n, t) vs); reflexivity.
Qed.

(* ---------------------------------------------------------------- the powerset is complete *)
Lemma filter_in_combs (p : var -> bool) : forall l, In (filter p l) (combs (List.length (filter p l)) l).
Proof.
  induction l as [|x l IH]; cbn; auto.
  destruct (p x) eqn:E; cbn [List.length combs].
  - apply in_or_app. left. now apply in_map.
  - destruct (List.length (filter p l)) eqn:L.
    + left. destruct (filter p l); [reflexivity | discriminate].
    + apply in_or_app. right. exact IH.
Qed.
Lemma filter_len_le {A} (p : A -> bool) l : (List.length (filter p l) <= List.length l)%nat.
Proof. induction l as [|x l IH]; cbn; auto. destruct (p x); cbn; lia. Qed.
Lemma filter_in_powerset p l : In (filter p l) (powerset l).
Proof.
  unfold powerset. apply in_flat_map. exists (List.length (filter p l)). split; [|apply filter_in_combs].
  apply in_seq. split; [lia|]. pose proof (filter_len_le p l). cbn. lia.
Qed.

Lemma mem_filter p (vs : list var) k : mem var_eqb k vs = true -> mem var_eqb k (filter p vs) = p k.
Proof.
  intros H. apply (mem_In var_eqb var_eqb_eq) in H.
  destruct (p k) eqn:E.
  - apply (mem_In var_eqb var_eqb_eq). apply filter_In. auto.
  - destruct (mem var_eqb k (filter p vs)) eqn:M; auto.
    apply (mem_In var_eqb var_eqb_eq) in M. apply filter_In in M. destruct M. congruence.
Qed.

(* every assignment is a binding, every binding is (extensionally) an assignment *)
Lemma assignment_is_binding I vs S : vars_bool vs = true ->
  exists xs, vals_ok xs vs /\ ext_eq (ov I (assignment vs S)) (bind I vs xs).
Proof.
  intros Hb. exists (pvals (fun v => mem var_eqb v S) vs). split; [now apply pvals_ok | apply ov_assignment_ext].
Qed.
Lemma binding_is_assignment I vs xs : vars_bool vs = true -> vals_ok xs vs ->
  exists s, In s (all_assignments vs) /\ ext_eq (bind I vs xs) (ov I s).
Proof.
  intros Hb Hok. set (p := fun v : var => vbool (isym (bind I vs xs) (fst v) (snd v))).
  exists (assignment vs (filter p vs)). split.
  - unfold all_assignments. apply in_map, filter_in_powerset.
  - pose proof (bind_ext_pvals I vs xs Hb Hok) as E1. fold p in E1.
    pose proof (ov_assignment_ext I vs (filter p vs)) as E2.
    destruct E1 as (A1 & B1 & C1 & D1). destruct E2 as (A2 & B2 & C2 & D2).
    split; [|split; [|split]].
    + cbn. now destruct (bind_fields vs xs I) as (_ & -> & _).
    + cbn. now destruct (bind_fields vs xs I) as (_ & _ & ->).
    + intros n t. rewrite C1, C2, !isym_bind_pvals. destruct (mem var_eqb (n, t) vs) eqn:M; auto.
      now rewrite mem_filter.
    + intros n t. cbn. now destruct (bind_fields vs xs I) as (-> & _ & _).
Qed.

Lemma assignment_range vs S : range_ok good (assignment vs S).
Proof.
  intros v r E. rewrite vlookup_assignment in E. destruct (mem var_eqb v vs); [|discriminate].
  injection E as <-. reflexivity.
Qed.

(* ---------------------------------------------------------------- the walkers are the identity on qf normal terms *)
Lemma rebuild_id o args : node_normal o args = true -> is_quant_op o = false -> rebuild o args = T o args.
Proof.
  intros Hn Hq. destruct (op_eqb o ONot) eqn:E.
  - apply op_eqb_eq in E. subst o. destruct (node_normal_not _ Hn) as (a & -> & Ha). cbn [rebuild].
    destruct a as [[] ?]; try reflexivity. discriminate.
  - apply (rebuild_same_len o args); auto. intros ->. discriminate.
Qed.

Lemma map_id_Forall {A} (f : A -> A) l : Forall (fun x => f x = x) l -> map f l = l.
Proof. induction 1; cbn; congruence. Qed.

Lemma shannon_id : forall t, is_qf t = true -> normal t = true -> shannon t = t.
Proof.
  induction t as [o args IH] using term_ind'. intros Hqf Hn.
  cbn [normal] in Hn. apply andb_true_iff in Hn. destruct Hn as [Hnn Hna].
  destruct (is_quant_op o) eqn:Hq; [rewrite is_qf_quant in Hqf by auto; discriminate|].
  rewrite is_qf_args in Hqf by auto.
  assert (E : shannon (T o args) = rebuild o (map shannon args)) by (destruct o; try discriminate; reflexivity).
  rewrite E, map_id_Forall; [now apply rebuild_id|].
  rewrite Forall_forall in IH |- *. rewrite forallb_forall in Hqf, Hna. intros a Ha. apply IH; auto.
Qed.
Lemma selfsub_id : forall t, is_qf t = true -> normal t = true -> selfsub t = t.
Proof.
  induction t as [o args IH] using term_ind'. intros Hqf Hn.
  cbn [normal] in Hn. apply andb_true_iff in Hn. destruct Hn as [Hnn Hna].
  destruct (is_quant_op o) eqn:Hq; [rewrite is_qf_quant in Hqf by auto; discriminate|].
  rewrite is_qf_args in Hqf by auto.
  assert (E : selfsub (T o args) = rebuild o (map selfsub args)) by (destruct o; try discriminate; reflexivity).
  rewrite E, map_id_Forall; [now apply rebuild_id|].
  rewrite Forall_forall in IH |- *. rewrite forallb_forall in Hqf, Hna. intros a Ha. apply IH; auto.
Qed.

(* ---------------------------------------------------------------- Shannon: the quantifier step *)
Section ShannonStep.
  Variables (vs : list var) (b f : term).
  Hypothesis Hvs : vars_bool vs = true.
  Hypothesis Hf : good f = true.
  Hypothesis IHb : forall I, wf_interp I -> tv I f = tv I b.

  Lemma shannon_inst_tv I s : wf_interp I -> In s (all_assignments vs) -> tv I (vsubst s f) = tv (ov I s) b.
  Proof.
    intros HI Hs. unfold all_assignments in Hs. apply in_map_iff in Hs. destruct Hs as (S & <- & _).
    apply good_split in Hf. destruct Hf as (Hfb & Hfn & Hfq).
    rewrite vsubst_tv; auto; [|apply good_range_boolish, assignment_range].
    apply IHb. destruct (assignment_is_binding I vs S Hvs) as (xs & Hok & E).
    apply (wf_ext _ _ (ext_eq_sym _ _ E)). now apply wf_bind.
  Qed.

  Lemma shannon_forall_tv I : wf_interp I ->
    tv I (mk_and (map (fun s => vsubst s f) (all_assignments vs))) = tv I (T (OForall vs) [b]).
  Proof.
    intros HI. rewrite tv_mk_and, forallb_map. apply bool_eq_iff. rewrite forallb_forall, tv_forall_true. split.
    - intros H xs Hok. destruct (binding_is_assignment I vs xs Hvs Hok) as (s & Hs & E).
      unfold tv. rewrite (eval_ext _ _ b E). fold (tv (ov I s) b). rewrite <- shannon_inst_tv; auto.
    - intros H s Hs. rewrite shannon_inst_tv; auto.
      pose proof Hs as Hs'. unfold all_assignments in Hs'. apply in_map_iff in Hs'. destruct Hs' as (S & <- & _).
      destruct (assignment_is_binding I vs S Hvs) as (xs & Hok & E).
      unfold tv. rewrite (eval_ext _ _ b E). apply H, Hok.
  Qed.
  Lemma shannon_exists_tv I : wf_interp I ->
    tv I (mk_or (map (fun s => vsubst s f) (all_assignments vs))) = tv I (T (OExists vs) [b]).
  Proof.
    intros HI. rewrite tv_mk_or, existsb_map. apply bool_eq_iff. rewrite existsb_exists, tv_exists_true. split.
    - intros (s & Hs & H). rewrite shannon_inst_tv in H; auto.
      pose proof Hs as Hs'. unfold all_assignments in Hs'. apply in_map_iff in Hs'. destruct Hs' as (S & <- & _).
      destruct (assignment_is_binding I vs S Hvs) as (xs & Hok & E).
      exists xs. split; auto. unfold tv. rewrite <- (eval_ext _ _ b E). exact H.
    - intros (xs & Hok & H). destruct (binding_is_assignment I vs xs Hvs Hok) as (s & Hs & E).
      exists s. split; auto. rewrite shannon_inst_tv; auto. unfold tv. rewrite <- (eval_ext _ _ b E). exact H.
  Qed.
  Lemma shannon_insts_good : forallb good (map (fun s => vsubst s f) (all_assignments vs)) = true.
  Proof.
    rewrite forallb_map. apply forallb_forall. intros s Hs. unfold all_assignments in Hs.
    apply in_map_iff in Hs. destruct Hs as (S & <- & _). apply vsubst_good; auto. apply assignment_range.
  Qed.
End ShannonStep.

(* ---------------------------------------------------------------- self-substitution: one variable *)
Lemma ov_single_ext I v r : ext_eq (ov I [(v, r)]) (bind1 I v (eval I r)).
Proof.
  repeat split; cbn; auto. intros n t. rewrite (var_eqb_sym v (n, t)).
  change (String.eqb n (fst v) && ty_eqb t (snd v)) with (var_eqb (n, t) v). destruct (var_eqb (n, t) v); reflexivity.
Qed.

Lemma single_range P v r : P r = true -> range_ok P [(v, r)].
Proof. intros H k r' E. cbn in E. destruct (var_eqb v k); [injection E as <-; exact H | discriminate]. Qed.

Section SelfSubStep.
  Variables (token_b : bool) (v : var) (f : term).
  Hypothesis Hv : snd v = TBool.
  Hypothesis Hf : good f = true.
  Let token := TBoolC token_b.
  Let inner := vsubst [(v, token)] f.

  Lemma inner_good : good inner = true.
  Proof. apply vsubst_good; auto. apply single_range. reflexivity. Qed.
  Lemma ss1_good : good (self_substitute1 token f v) = true.
  Proof. apply vsubst_good; auto. apply single_range. apply inner_good. Qed.

  Lemma ss1_tv I : wf_interp I ->
    tv I (self_substitute1 token f v) = tv (bind1 I v (VBool (tv (bind1 I v (VBool token_b)) f))) f.
  Proof.
    intros HI. pose proof inner_good as Hi. apply good_split in Hi. destruct Hi as (Hib & Hin & Hiq).
    apply good_split in Hf. destruct Hf as (Hfb & Hfn & Hfq).
    unfold self_substitute1. fold inner.
    rewrite vsubst_tv; auto; [|now apply single_range].
    unfold tv at 1. rewrite (eval_ext _ _ f (ov_single_ext I v inner)). fold (tv (bind1 I v (eval I inner)) f).
    assert (E : eval I inner = VBool (tv (bind1 I v (VBool token_b)) f)).
    { rewrite (is_vbool_eq (eval I inner)) by (now apply boolish_is_vbool). f_equal.
      unfold inner. change (vbool (eval I (vsubst [(v, token)] f))) with (tv I (vsubst [(v, token)] f)).
      rewrite vsubst_tv; auto; [|apply single_range; reflexivity].
      unfold tv. rewrite (eval_ext _ _ f (ov_single_ext I v token)). reflexivity. }
    now rewrite E.
  Qed.
End SelfSubStep.

Lemma vals_ok_bool1 (v : var) x : snd v = TBool -> has_ty x (snd v) -> exists bx, x = VBool bx.
Proof. intros -> H. destruct x; cbn in H; try contradiction. eauto. Qed.

(* all the variables, innermost (last) first *)
Lemma self_substitute_cons token v vs f :
  self_substitute token (v :: vs) f = self_substitute1 token (self_substitute token vs f) v.
Proof. unfold self_substitute. cbn [rev]. now rewrite fold_left_app. Qed.

Lemma self_substitute_good token_b : forall vs f, vars_bool vs = true -> good f = true ->
  good (self_substitute (TBoolC token_b) vs f) = true.
Proof.
  induction vs as [|v vs IH]; intros f Hb Hf; [exact Hf|].
  cbn in Hb. apply andb_true_iff in Hb. destruct Hb as [Hv Hb]. apply ty_eqb_eq in Hv.
  rewrite self_substitute_cons. apply ss1_good; auto.
Qed.

Lemma self_substitute_exists : forall vs f I, vars_bool vs = true -> good f = true -> wf_interp I ->
  (tv I (self_substitute (TBoolC true) vs f) = true <-> exists xs, vals_ok xs vs /\ tv (bind I vs xs) f = true).
Proof.
  induction vs as [|v vs IH]; intros f I Hb Hf HI.
  - cbn. split; [intros H; exists []; split; [exact Logic.I | exact H] | intros (xs & Hok & H); destruct xs; [exact H | contradiction]].
  - cbn in Hb. apply andb_true_iff in Hb. destruct Hb as [Hv Hb]. apply ty_eqb_eq in Hv.
    rewrite self_substitute_cons.
    pose proof (self_substitute_good true vs f Hb Hf) as Hg.
    rewrite (ss1_tv true v _ Hg I HI).
    assert (W : forall bx, wf_interp (bind1 I v (VBool bx))) by (intros bx; apply wf_bind1; auto; rewrite Hv; exact Logic.I).
    set (g := self_substitute (TBoolC true) vs f) in *.
    split.
    + intros H. destruct (tv (bind1 I v (VBool true)) g) eqn:C.
      * apply (IH f _ Hb Hf (W true)) in C. destruct C as (xs & Hok & C). exists (VBool true :: xs). cbn. rewrite Hv. cbn. auto.
      * apply (IH f _ Hb Hf (W false)) in H. destruct H as (xs & Hok & H). exists (VBool false :: xs). cbn. rewrite Hv. cbn. auto.
    + intros (xs & Hok & H). destruct xs as [|x xs]; cbn in Hok; [contradiction|]. destruct Hok as [Hx Hok].
      destruct (vals_ok_bool1 v x Hv Hx) as (bx & ->). cbn [bind] in H.
      assert (G : tv (bind1 I v (VBool bx)) g = true) by (apply (IH f _ Hb Hf (W bx)); eauto).
      destruct (tv (bind1 I v (VBool true)) g) eqn:C; [exact C|]. destruct bx; [congruence | exact G].
Qed.

Lemma self_substitute_forall : forall vs f I, vars_bool vs = true -> good f = true -> wf_interp I ->
  (tv I (self_substitute (TBoolC false) vs f) = true <-> forall xs, vals_ok xs vs -> tv (bind I vs xs) f = true).
Proof.
  induction vs as [|v vs IH]; intros f I Hb Hf HI.
  - cbn. split; [intros H xs Hok; destruct xs; [exact H | contradiction] | intros H; apply (H []); exact Logic.I].
  - cbn in Hb. apply andb_true_iff in Hb. destruct Hb as [Hv Hb]. apply ty_eqb_eq in Hv.
    rewrite self_substitute_cons.
    pose proof (self_substitute_good false vs f Hb Hf) as Hg.
    rewrite (ss1_tv false v _ Hg I HI).
    assert (W : forall bx, wf_interp (bind1 I v (VBool bx))) by (intros bx; apply wf_bind1; auto; rewrite Hv; exact Logic.I).
    set (g := self_substitute (TBoolC false) vs f) in *.
    split.
    + intros H xs Hok. destruct xs as [|x xs]; cbn in Hok; [contradiction|]. destruct Hok as [Hx Hok].
      destruct (vals_ok_bool1 v x Hv Hx) as (bx & ->). cbn [bind].
      apply (IH f _ Hb Hf (W bx)); auto.
      destruct (tv (bind1 I v (VBool false)) g) eqn:C; [|congruence]. destruct bx; [exact H | exact C].
    + intros H.
      assert (G : forall bx, tv (bind1 I v (VBool bx)) g = true).
      { intros bx. apply (IH f _ Hb Hf (W bx)). intros xs Hok. apply (H (VBool bx :: xs)). cbn. rewrite Hv. cbn. auto. }
      rewrite (G false). apply G.
Qed.

(* ---------------------------------------------------------------- the main inductions *)
Lemma qe_skel_atom o args :
  match o with OAnd | OOr | ONot | OImplies | OIff | OForall _ | OExists _ | OIte => False | _ => True end ->
  qe_skel (T o args) = bool_atom_op o args && forallb is_qf args.
Proof. destruct o; intros H; try contradiction; reflexivity. Qed.

Lemma atom_good o args :
  match o with OAnd | OOr | ONot | OImplies | OIff | OForall _ | OExists _ | OIte => False | _ => True end ->
  qe_skel (T o args) = true -> normal (T o args) = true ->
  good (T o args) = true /\ is_qf (T o args) = true.
Proof.
  intros Ho H Hn. rewrite qe_skel_atom in H by auto. apply andb_true_iff in H. destruct H as [Ha Hq].
  assert (Q : is_qf (T o args) = true) by (rewrite is_qf_args; auto; destruct o; auto; contradiction).
  split; auto. apply good_split. repeat split; auto. destruct o; try contradiction; exact Ha.
Qed.

Definition qe_result (X : term -> term) (t : term) : Prop :=
  good (X t) = true /\ forall I, wf_interp I -> tv I (X t) = tv I t.

Lemma good_node o l : boolish (T o l) = true -> node_normal o l = true -> is_quant_op o = false ->
  forallb good l = true -> good (T o l) = true.
Proof.
  intros Hb Hn Hq H. apply good_split. repeat split; auto.
  - cbn [normal]. rewrite Hn. cbn. apply forallb_forall. intros x Hx. rewrite forallb_forall in H. apply H in Hx. now apply good_split in Hx.
  - rewrite is_qf_args by auto. apply forallb_forall. intros x Hx. rewrite forallb_forall in H. apply H in Hx. now apply good_split in Hx.
Qed.

Ltac split_and H := repeat (let H1 := fresh H in apply andb_true_iff in H; destruct H as [H H1]).

Theorem shannon_correct : forall t, qe_skel t = true -> normal t = true -> qe_result shannon t.
Proof.
  induction t as [o args IH] using term_ind'. intros Hs Hn.
  pose proof Hn as Hn0. cbn [normal] in Hn. apply andb_true_iff in Hn. destruct Hn as [Hnn Hna].
  assert (IH' : forall a, In a args -> qe_skel a = true -> qe_result shannon a).
  { rewrite Forall_forall in IH. rewrite forallb_forall in Hna. intros a Ha Hsa. apply IH; auto. }
  unfold qe_result. destruct o;
    try solve [match goal with |- context[shannon (T ?o ?a)] => destruct (atom_good o a Logic.I Hs Hn0) as [G Q] end; rewrite shannon_id by auto; split; auto].
  - (* forall *)
    destruct args as [|b [|c r]]; cbn in Hs; try discriminate. apply andb_true_iff in Hs. destruct Hs as [Hv Hb].
    destruct (IH' b (or_introl eq_refl) Hb) as [Gb Eb]. cbn [shannon]. split.
    + apply good_mk_and. now apply shannon_insts_good.
    + intros I HI. now apply shannon_forall_tv.
  - (* exists *)
    destruct args as [|b [|c r]]; cbn in Hs; try discriminate. apply andb_true_iff in Hs. destruct Hs as [Hv Hb].
    destruct (IH' b (or_introl eq_refl) Hb) as [Gb Eb]. cbn [shannon]. split.
    + apply good_mk_or. now apply shannon_insts_good.
    + intros I HI. now apply shannon_exists_tv.
  - (* and *) cbn in Hs. rewrite forallb_forall in Hs. cbn [shannon rebuild]. split.
    + apply good_mk_and. rewrite forallb_map. apply forallb_forall. intros a Ha. apply IH'; auto.
    + intros I HI. rewrite tv_mk_and, tv_and, forallb_map. apply forallb_ext_Forall. apply Forall_forall.
      intros a Ha. apply IH'; auto.
  - (* or *) cbn in Hs. rewrite forallb_forall in Hs. cbn [shannon rebuild]. split.
    + apply good_mk_or. rewrite forallb_map. apply forallb_forall. intros a Ha. apply IH'; auto.
    + intros I HI. rewrite tv_mk_or, tv_or, existsb_map. apply existsb_ext_Forall. apply Forall_forall.
      intros a Ha. apply IH'; auto.
  - (* not *) destruct args as [|a [|c r]]; cbn in Hs; try discriminate.
    destruct (IH' a (or_introl eq_refl) Hs) as [Ga Ea]. cbn [shannon rebuild map]. split.
    + now apply good_mk_not.
    + intros I HI. rewrite tv_mk_not, tv_not. now rewrite Ea.
  - (* implies *) destruct args as [|a [|b [|c r]]]; cbn in Hs; try discriminate.
    apply andb_true_iff in Hs. destruct Hs as [Ha Hb].
    destruct (IH' a (or_introl eq_refl) Ha) as [Ga Ea]. destruct (IH' b (or_intror (or_introl eq_refl)) Hb) as [Gb Eb].
    cbn [shannon rebuild map]. split.
    + apply good_node; auto; [|cbn; now rewrite Ga, Gb].
      apply good_split in Ga. apply good_split in Gb. cbn. now rewrite (proj1 Ga), (proj1 Gb).
    + intros I HI. rewrite !tv_implies. now rewrite Ea, Eb.
  - (* iff *) destruct args as [|a [|b [|c r]]]; cbn in Hs; try discriminate.
    apply andb_true_iff in Hs. destruct Hs as [Ha Hb].
    destruct (IH' a (or_introl eq_refl) Ha) as [Ga Ea]. destruct (IH' b (or_intror (or_introl eq_refl)) Hb) as [Gb Eb].
    cbn [shannon rebuild map]. split.
    + apply good_node; auto; [|cbn; now rewrite Ga, Gb].
      apply good_split in Ga. apply good_split in Gb. cbn. now rewrite (proj1 Ga), (proj1 Gb).
    + intros I HI. rewrite !tv_iff. now rewrite Ea, Eb.
  - (* ite *) destruct args as [|c [|a [|b [|d r]]]]; cbn in Hs; try discriminate.
    apply andb_true_iff in Hs. destruct Hs as [Hs Hb]. apply andb_true_iff in Hs. destruct Hs as [Hc Ha].
    destruct (IH' c (or_introl eq_refl) Hc) as [Gc Ec]. destruct (IH' a (or_intror (or_introl eq_refl)) Ha) as [Ga Ea].
    destruct (IH' b (or_intror (or_intror (or_introl eq_refl))) Hb) as [Gb Eb].
    cbn [shannon rebuild map]. split.
    + apply good_node; auto; [|cbn; now rewrite Gc, Ga, Gb].
      apply good_split in Ga. apply good_split in Gb. apply good_split in Gc. cbn. now rewrite (proj1 Ga), (proj1 Gb), (proj1 Gc).
    + intros I HI. rewrite !tv_ite. now rewrite Ec, Ea, Eb.
Qed.

Theorem selfsub_correct : forall t, qe_skel t = true -> normal t = true -> qe_result selfsub t.
Proof.
  induction t as [o args IH] using term_ind'. intros Hs Hn.
  pose proof Hn as Hn0. cbn [normal] in Hn. apply andb_true_iff in Hn. destruct Hn as [Hnn Hna].
  assert (IH' : forall a, In a args -> qe_skel a = true -> qe_result selfsub a).
  { rewrite Forall_forall in IH. rewrite forallb_forall in Hna. intros a Ha Hsa. apply IH; auto. }
  unfold qe_result. destruct o;
    try solve [match goal with |- context[selfsub (T ?o ?a)] => destruct (atom_good o a Logic.I Hs Hn0) as [G Q] end; rewrite selfsub_id by auto; split; auto].
  - (* forall *)
    destruct args as [|b [|c r]]; cbn in Hs; try discriminate. apply andb_true_iff in Hs. destruct Hs as [Hv Hb].
    destruct (IH' b (or_introl eq_refl) Hb) as [Gb Eb]. cbn [selfsub]. split.
    + change TFalse with (TBoolC false). now apply self_substitute_good.
    + intros I HI. apply bool_eq_iff. change TFalse with (TBoolC false). rewrite self_substitute_forall, tv_forall_true by auto.
      split; intros H xs Hok; [rewrite <- Eb | rewrite Eb]; auto; now apply wf_bind.
  - (* exists *)
    destruct args as [|b [|c r]]; cbn in Hs; try discriminate. apply andb_true_iff in Hs. destruct Hs as [Hv Hb].
    destruct (IH' b (or_introl eq_refl) Hb) as [Gb Eb]. cbn [selfsub]. split.
    + change TTrue with (TBoolC true). now apply self_substitute_good.
    + intros I HI. apply bool_eq_iff. change TTrue with (TBoolC true). rewrite self_substitute_exists, tv_exists_true by auto.
      split; intros (xs & Hok & H); exists xs; split; auto; [rewrite <- Eb | rewrite Eb]; auto; now apply wf_bind.
  - cbn in Hs. rewrite forallb_forall in Hs. cbn [selfsub rebuild]. split.
    + apply good_mk_and. rewrite forallb_map. apply forallb_forall. intros a Ha. apply IH'; auto.
    + intros I HI. rewrite tv_mk_and, tv_and, forallb_map. apply forallb_ext_Forall. apply Forall_forall.
      intros a Ha. apply IH'; auto.
  - cbn in Hs. rewrite forallb_forall in Hs. cbn [selfsub rebuild]. split.
    + apply good_mk_or. rewrite forallb_map. apply forallb_forall. intros a Ha. apply IH'; auto.
    + intros I HI. rewrite tv_mk_or, tv_or, existsb_map. apply existsb_ext_Forall. apply Forall_forall.
      intros a Ha. apply IH'; auto.
  - destruct args as [|a [|c r]]; cbn in Hs; try discriminate.
    destruct (IH' a (or_introl eq_refl) Hs) as [Ga Ea]. cbn [selfsub rebuild map]. split.
    + now apply good_mk_not.
    + intros I HI. rewrite tv_mk_not, tv_not. now rewrite Ea.
  - destruct args as [|a [|b [|c r]]]; cbn in Hs; try discriminate.
    apply andb_true_iff in Hs. destruct Hs as [Ha Hb].
    destruct (IH' a (or_introl eq_refl) Ha) as [Ga Ea]. destruct (IH' b (or_intror (or_introl eq_refl)) Hb) as [Gb Eb].
    cbn [selfsub rebuild map]. split.
    + apply good_node; auto; [|cbn; now rewrite Ga, Gb].
      apply good_split in Ga. apply good_split in Gb. cbn. now rewrite (proj1 Ga), (proj1 Gb).
    + intros I HI. rewrite !tv_implies. now rewrite Ea, Eb.
  - destruct args as [|a [|b [|c r]]]; cbn in Hs; try discriminate.
    apply andb_true_iff in Hs. destruct Hs as [Ha Hb].
    destruct (IH' a (or_introl eq_refl) Ha) as [Ga Ea]. destruct (IH' b (or_intror (or_introl eq_refl)) Hb) as [Gb Eb].
    cbn [selfsub rebuild map]. split.
    + apply good_node; auto; [|cbn; now rewrite Ga, Gb].
      apply good_split in Ga. apply good_split in Gb. cbn. now rewrite (proj1 Ga), (proj1 Gb).
    + intros I HI. rewrite !tv_iff. now rewrite Ea, Eb.
  - destruct args as [|c [|a [|b [|d r]]]]; cbn in Hs; try discriminate.
    apply andb_true_iff in Hs. destruct Hs as [Hs Hb]. apply andb_true_iff in Hs. destruct Hs as [Hc Ha].
    destruct (IH' c (or_introl eq_refl) Hc) as [Gc Ec]. destruct (IH' a (or_intror (or_introl eq_refl)) Ha) as [Ga Ea].
    destruct (IH' b (or_intror (or_intror (or_introl eq_refl))) Hb) as [Gb Eb].
    cbn [selfsub rebuild map]. split.
    + apply good_node; auto; [|cbn; now rewrite Gc, Ga, Gb].
      apply good_split in Ga. apply good_split in Gb. apply good_split in Gc. cbn. now rewrite (proj1 Ga), (proj1 Gb), (proj1 Gc).
    + intros I HI. rewrite !tv_ite. now rewrite Ec, Ea, Eb.
Qed.

(* the fragment is a Boolean skeleton *)
Lemma qe_skel_boolish : forall t, qe_skel t = true -> boolish t = true.
Proof.
  induction t as [o args IH] using term_ind'. intros H.
  assert (IH' : forall a, In a args -> qe_skel a = true -> boolish a = true) by (rewrite Forall_forall in IH; auto).
  destruct o; try (rewrite qe_skel_atom in H by exact Logic.I; apply andb_true_iff in H; destruct H as [H _]; exact H).
  - destruct args as [|b [|c r]]; cbn in H |- *; try discriminate. apply andb_true_iff in H. apply IH'; cbn; tauto.
  - destruct args as [|b [|c r]]; cbn in H |- *; try discriminate. apply andb_true_iff in H. apply IH'; cbn; tauto.
  - cbn in H |- *. rewrite forallb_forall in H |- *. auto.
  - cbn in H |- *. rewrite forallb_forall in H |- *. auto.
  - destruct args as [|a [|c r]]; cbn in H |- *; try discriminate. apply IH'; cbn; auto.
  - destruct args as [|a [|b [|c r]]]; cbn in H |- *; try discriminate. apply andb_true_iff in H. destruct H.
    rewrite !IH'; cbn; auto.
  - destruct args as [|a [|b [|c r]]]; cbn in H |- *; try discriminate. apply andb_true_iff in H. destruct H.
    rewrite !IH'; cbn; auto.
  - destruct args as [|c [|a [|b [|d r]]]]; cbn in H |- *; try discriminate.
    apply andb_true_iff in H. destruct H as [H Hb]. apply andb_true_iff in H. destruct H as [Hc Ha].
    rewrite !IH'; cbn; auto.
Qed.

(* C10, quantifier elimination, semantic and shape clauses *)
Theorem shannon_equiv t I : wf_interp I -> qe_frag t = true -> eval I (shannon t) = eval I t.
Proof.
  intros HI H. unfold qe_frag in H. apply andb_true_iff in H. destruct H as [Hs Hn].
  destruct (shannon_correct t Hs Hn) as [G E]. apply good_split in G. destruct G as (Gb & _ & _).
  apply eval_eq_of_boolish; auto. now apply qe_skel_boolish.
Qed.
Theorem shannon_shape t : qe_frag t = true -> is_qf (shannon t) = true.
Proof.
  intros H. unfold qe_frag in H. apply andb_true_iff in H. destruct H as [Hs Hn].
  destruct (shannon_correct t Hs Hn) as [G E]. now apply good_split in G.
Qed.
Theorem selfsub_equiv t I : wf_interp I -> qe_frag t = true -> eval I (selfsub t) = eval I t.
Proof.
  intros HI H. unfold qe_frag in H. apply andb_true_iff in H. destruct H as [Hs Hn].
  destruct (selfsub_correct t Hs Hn) as [G E]. apply good_split in G. destruct G as (Gb & _ & _).
  apply eval_eq_of_boolish; auto. now apply qe_skel_boolish.
Qed.
Theorem selfsub_shape t : qe_frag t = true -> is_qf (selfsub t) = true.
Proof.
  intros H. unfold qe_frag in H. apply andb_true_iff in H. destruct H as [Hs Hn].
  destruct (selfsub_correct t Hs Hn) as [G E]. now apply good_split in G.
Qed.

Example qelim_example :
  let x := ("x", TBool) in let y := ("y", TBool) in
  let t := T (OForall [x]) [T (OExists [y; x]) [T OOr [T OIff [TSym "x" TBool; TSym "y" TBool]; T OLt [TSym "i" TInt; TIntC 0]]]] in
  qe_frag t = true /\ is_qf t = false /\ is_qf (shannon t) = true /\ is_qf (selfsub t) = true.
Proof. repeat split. Qed.
