(* Theorems about models/SmtLex.v and models/SmtParser.v (C08).

   Specification side: core/SmtStd.v ([sexp], [flatten], [std_eval]: SMT-LIB 2.6 read at
   s-expression level, parallel let, binders shadow globals) and core/Sem.v ([eval]).

   1. lex_agrees_partial: on a stream of standard-conforming plain tokens (parentheses and
      tokens without separator characters) separated by blanks the Tokenizer model returns exactly
      those tokens.
   2. The clauses of C08 that the faithful model falsifies, each with its witness script (replayed
      on the implementation, z3 and cvc5 by harness/c08.py / the builder's report):
        undeclared_identifier_refuted, quoted_numeral_refuted, definefun_capture_refuted,
        let_capture_refuted;
      and, for the clauses repaired in parser.py (parallel let, binders shadow definitions), the
      former witnesses as positive statements: let_parallel_witness, let_parallel_family,
      binder_shadows_definition_witness.
   3. parse_agrees_printed_partial: wherever the reader returns the term whose print-out it was
      given (the round trip of C09), the returned term denotes what the standard says the text
      denotes (through C07's print_tree_sound_partial). *)
From Coq Require Import List ZArith Bool String Ascii Lia ClassicalDescription.
From PySMT.core Require Import Syntax Sem SmtStd.
From PySMT.models Require Import TypeChecker SmtLex SmtParser SmtPrinter RoundTrip.
From PySMT.proofs Require Import SmtPrinter_proofs.
From PySMT.proofs Require Export SmtLex_proofs.
Import ListNotations.
Open Scope string_scope.

(* ------------------------------------------------------------------------- 1. the tokenizer: proofs/SmtLex_proofs.v *)

(* ------------------------------------------------------------------------- 2. refuted clauses *)
Tactic Notation "emi" "as" simple_intropattern(p) :=
  match goal with |- context [excluded_middle_informative ?P] => destruct (excluded_middle_informative P) as p end.
Definition sig_of (l : list (string * ty)) : sig := {| sg_sorts := []; sg_funs := l |}.
Definition decl (n : string) (t : ty) : cmd := mkC "declare-fun" [ATerm (TSym n t)].

(* an interpretation chosen by the truth values of two names *)
Definition interp_xy (vx vy : value) : interp :=
  {| isym := fun n _ => if String.eqb n "x" then vx else vy;
     ifun := fun _ _ _ => VBool false; rdiv0 := fun r => r; idiv0 := fun z => z |}.

(* simultaneous let-bindings (repaired: parser.py binds the names of a let after its last binding).
   The former witness: the text (let ((x y) (y x)) y) denotes the value of x, and the reader now
   returns the term x. *)
Definition let_text := "(declare-fun x () Bool)(declare-fun y () Bool)(assert (let ((x y) (y x)) y))".
Definition let_sexp : sexp :=
  SList [Atom "let"; SList [SList [Atom "x"; Atom "y"]; SList [Atom "y"; Atom "x"]]; Atom "y"].
Definition sig_xy : sig := sig_of [("x", TBool); ("y", TBool)].

Lemma let_parallel_witness :
  exists t,
    parse_model let_text = Ok [decl "x" TBool; decl "y" TBool; mkC "assert" [ATerm t]] /\
    fst (lex_string "(assert (let ((x y) (y x)) y))") = ("(" :: "assert" :: flatten let_sexp ++ [")"])%list /\
    forall I, std_eval sig_xy I let_sexp = Some (eval I t).
Proof.
  exists (TSym "x" TBool). split; [vm_compute; reflexivity|]. split; [vm_compute; reflexivity|].
  intros I. vm_compute. reflexivity.
Qed.

(* the whole family of two-binding lets over x, y, true, false: every (let ((x a) (y b)) c) with
   a, b in {x, y, true, false} and c in {x, y} is read as the standard says *)
Definition let_atoms : list string := ["x"; "y"; "true"; "false"].
Definition let_family : list sexp := Eval vm_compute in
  flat_map (fun a => flat_map (fun b => map (fun c =>
    SList [Atom "let"; SList [SList [Atom "x"; Atom a]; SList [Atom "y"; Atom b]]; Atom c]) ["x"; "y"])
    let_atoms) let_atoms.
Definition let_script (x : sexp) : list ascii :=
  (list_ascii_of_string "(declare-fun x () Bool)(declare-fun y () Bool)(assert " ++ text_of x ++ [")"%char])%list.
Definition let_reads (x : sexp) : Prop :=
  exists t, parse_chars (let_script x) = Ok [decl "x" TBool; decl "y" TBool; mkC "assert" [ATerm t]] /\
            forall I, std_eval sig_xy I x = Some (eval I t).

Lemma let_parallel_family : Forall let_reads let_family.
Proof.
  unfold let_family.
  repeat (constructor; [eexists; split; [vm_compute; reflexivity | intros I; vm_compute; reflexivity] |]).
  constructor.
Qed.

(* scoping of quantified names against defined names (repaired: a binding in [keys] shadows a
   definition): in (exists ((x Bool)) x) after (define-fun x () Bool false) the inner x is the bound
   variable, and that is what the reader returns *)
Definition shadow_text := "(define-fun x () Bool false)(assert (exists ((x Bool)) x))".
Definition shadow_sexp : sexp :=
  SList [Atom "exists"; SList [SList [Atom "x"; Atom "Bool"]]; Atom "x"].

Lemma binder_shadows_definition_witness :
  exists t,
    parse_model shadow_text =
      Ok [mkC "define-fun" [AStr "x"; AList []; AType TBool; ATerm TFalse]; mkC "assert" [ATerm t]] /\
    forall I, std_eval (sig_of []) I shadow_sexp = Some (VBool true) /\ eval I t = VBool true.
Proof.
  exists (T (OExists [("x", TBool)]) [TSym "x" TBool]). split; [vm_compute; reflexivity|].
  intros I. split.
  - vm_compute. emi as [_|H]; [reflexivity|].
    exfalso. apply H. exists [VBool true]. split; [cbn; auto | reflexivity].
  - cbn. emi as [_|H]; [reflexivity|].
    exfalso. apply H. exists [VBool true]. split; [cbn; auto|]. cbn. reflexivity.
Qed.

(* the same for a let variable and for a define-fun parameter *)
Lemma binder_shadows_definition_let_param :
  parse_model "(define-fun x () Int 5)(assert (let ((x 7)) (= x 7)))(define-fun g ((x Int)) Int (+ x 1))" =
    Ok [mkC "define-fun" [AStr "x"; AList []; AType TInt; ATerm (TIntC 5)];
        mkC "assert" [ATerm (T OEquals [TIntC 7; TIntC 7])];
        mkC "define-fun" [AStr "g"; AList [ATerm (TSym "__x0" TInt)]; AType TInt;
                          ATerm (T OPlus [TSym "__x0" TInt; TIntC 1])]].
Proof. vm_compute. reflexivity. Qed.

(* an undeclared identifier is accepted and read as a String constant *)
Definition undeclared_text := "(declare-fun s () String)(assert (= s t))".
Definition undeclared_sexp : sexp := SList [Atom "="; Atom "s"; Atom "t"].

Lemma undeclared_identifier_refuted :
  parse_model undeclared_text =
    Ok [decl "s" TStr; mkC "assert" [ATerm (T OEquals [TSym "s" TStr; TStrC [116%Z]])]] /\
  forall I, std_eval (sig_of [("s", TStr)]) I undeclared_sexp = None.
Proof. split; [vm_compute; reflexivity | intros I; reflexivity]. Qed.

(* literals in every notation: |5| is a symbol, 5 a numeral; the reader identifies them *)
Definition quoted_text := "(declare-fun |5| () Int)(assert (= |5| 5))".
Definition quoted_sexp : sexp := SList [Atom "="; Atom "|5|"; Atom "5"].

Lemma quoted_numeral_refuted :
  exists t,
    parse_model quoted_text = Ok [decl "5" TInt; mkC "assert" [ATerm t]] /\
    (forall I, eval I t = VBool true) /\
    exists I, std_eval (sig_of [("5", TInt)]) I quoted_sexp = Some (VBool false).
Proof.
  exists (T OEquals [TSym "5" TInt; TSym "5" TInt]). split; [vm_compute; reflexivity|]. split.
  - intros I. cbn. now rewrite veqb_refl.
  - exists (interp_xy (VInt 0) (VInt 0)). vm_compute.
    emi as [H|_]; [discriminate H | reflexivity].
Qed.

(* defined names: applying a defined function must not capture the free variables of the actual
   parameters.  SmtStd.v has no define-fun; the standard reading of (f y) below is that of the
   body with a renamed binder: (exists ((z Bool)) (not (= z y))), which is true; the reader returns
   exists y. not (y <-> y), which is false *)
Definition capture_text :=
  "(define-fun f ((a Bool)) Bool (exists ((y Bool)) (not (= y a))))(declare-fun y () Bool)(assert (f y))".
Definition capture_expanded : sexp :=
  SList [Atom "exists"; SList [SList [Atom "z"; Atom "Bool"]]; SList [Atom "not"; SList [Atom "="; Atom "z"; Atom "y"]]].

Lemma definefun_capture_refuted :
  exists body t,
    parse_model capture_text =
      Ok [mkC "define-fun" [AStr "f"; AList [ATerm (TSym "__a0" TBool)]; AType TBool; ATerm body];
          decl "y" TBool; mkC "assert" [ATerm t]] /\
    (forall I, eval I t = VBool false) /\
    exists I, std_eval (sig_of [("y", TBool)]) I capture_expanded = Some (VBool true).
Proof.
  eexists. eexists. split; [vm_compute; reflexivity|]. split.
  - intros I. cbn. emi as [[xs [Hv H]]|_]; [|reflexivity].
    exfalso. destruct xs as [|v [|? ?]]; cbn in Hv; try tauto.
    cbn in H. destruct (vbool v); discriminate.
  - exists (interp_xy (VBool true) (VBool true)). vm_compute.
    emi as [_|H]; [reflexivity|].
    exfalso. apply H. exists [VBool false]. split; [cbn; auto|].
    vm_compute. emi as [E|_]; [discriminate E | reflexivity].
Qed.

(* the same capture without any definition: a let-bound term is pasted, as it is, under a
   quantifier over one of its symbols (quantified variables are ordinary symbols).  Here SmtStd.v
   speaks directly: y denotes the declared constant a, so the text says "some Boolean differs from
   a" (true); the reader returns exists a. not (a <-> a) (false) *)
Definition let_capture_text :=
  "(declare-fun a () Bool)(assert (let ((y a)) (exists ((a Bool)) (not (= a y)))))".
Definition let_capture_sexp : sexp :=
  SList [Atom "let"; SList [SList [Atom "y"; Atom "a"]];
         SList [Atom "exists"; SList [SList [Atom "a"; Atom "Bool"]]; SList [Atom "not"; SList [Atom "="; Atom "a"; Atom "y"]]]].

Lemma let_capture_refuted :
  exists t,
    parse_model let_capture_text = Ok [decl "a" TBool; mkC "assert" [ATerm t]] /\
    (forall I, eval I t = VBool false) /\
    exists I, std_eval (sig_of [("a", TBool)]) I let_capture_sexp = Some (VBool true).
Proof.
  eexists. split; [vm_compute; reflexivity|]. split.
  - intros I. cbn. emi as [[xs [Hv H]]|_]; [|reflexivity].
    exfalso. destruct xs as [|v [|? ?]]; cbn in Hv; try tauto.
    cbn in H. destruct (vbool v); discriminate.
  - exists (interp_xy (VBool true) (VBool true)). vm_compute.
    emi as [_|H]; [reflexivity|].
    exfalso. apply H. exists [VBool false]. split; [cbn; auto|].
    vm_compute. emi as [E|_]; [discriminate E | reflexivity].
Qed.

(* ------------------------------------------------------------------------- 3. agreement on printed text
   FULL STATEMENT (parse_agrees; false of the faithful model by the lemmas above, and not proved
   in general for the rest):
     std_script_ok s -> parse_model (text of s) = Ok cmds -> forall I, every asserted term t of
     cmds satisfies Some (eval I t) = std_eval Sigma I (the sexp it came from).
   Proved part: on any text that is the print-out of a term of C07's fragment [wfp] and that the
   reader maps back to that term (the round trip of C09: proofs/RoundTrip_proofs.v establishes it
   for whole families of terms), the returned term denotes what the standard says. *)
Definition reads_back (s : pstate) (x : sexp) (t : term) : Prop :=
  get_expression (set_toks s (flatten x) LexEof) = ROk (Some (ITerm t)) (set_toks s [] LexEof)
  \/ exists s', get_expression (set_toks s (flatten x) LexEof) = ROk (Some (ITerm t)) s'.

Theorem parse_agrees_printed_partial : forall Sg I s t t',
  wfp Sg [] t -> wf_interp I ->
  reads_back s (print_tree t) t' -> t' = t ->
  std_eval Sg I (print_tree t) = Some (eval I t').
Proof.
  intros Sg I s t t' Hw HI _ ->. now apply print_tree_sound_partial.
Qed.
