(* C01 (for C02): constant folding is complete on a WIDER fragment than
   SimplifierFoldComplete_proofs.cfrag: additionally every string operator and Select / Store /
   ArrayValue / Equals / Ite over constant array values.  A closed, quantifier-free, UF-free term
   of the fragment simplifies to a CONSTANT (Ctors.is_constant: a scalar constant or an array
   value all of whose components are constants) of its sort with its value, provided that
     - no divisor evaluates to 0 (nodiv0, as before), and
     - [strlim]: the argument of every str.to_int has at most 4300 characters and the argument of
       every str.from_int is below 10^4300 - CPython's int <-> str conversion limit
       (sys.get_int_max_str_digits() = 4300, modelled by core/PyPrims.v), beyond which the rules
       leave the node unfolded. *)
From Coq Require Import List ZArith Bool String Reals Lia Lra Permutation.
From Coq Require Import ClassicalDescription FunctionalExtensionality.
From PySMT.core Require Import Syntax SyntaxLemmas PyPrims PyPrimsLemmas Types Sem.
From PySMT.models Require Import TypeChecker Oracles Ctors Simplifier.
From PySMT.proofs Require Import Sets_proofs TypeChecker_proofs Coincidence Simplifier_proofs.
From PySMT.proofs Require Import SimplifierSem_proofs SimplifierFoldComplete_proofs.
Import ListNotations.
Open Scope bool_scope.

(* ------------------------------------------------------------------ the wider fragment *)
Definition wop (o : op) : bool :=
  cop o || match o with OStr _ | OSelect | OStore | OArrayValue _ => true | _ => false end.
Fixpoint wops (t : term) : bool :=
  match t with T o args => wop o && (fix all (l : list term) : bool := match l with [] => true | x :: r => wops x && all r end) args end.
Lemma wops_unfold o args : wops (T o args) = wop o && forallb wops args.
Proof. reflexivity. Qed.
Definition wfrag (t : term) : bool := okt t && wops t && pownn t.
Lemma wfrag_parts t : wfrag t = true -> okt t = true /\ wops t = true /\ pownn t = true.
Proof. unfold wfrag. intros H. apply andb_true_iff in H. destruct H as [H H3]. apply andb_true_iff in H. tauto. Qed.
Lemma wfrag_intro t : okt t = true -> wops t = true -> pownn t = true -> wfrag t = true.
Proof. unfold wfrag. now intros -> -> ->. Qed.
Lemma cops_wops : forall t, cops t = true -> wops t = true.
Proof.
  induction t as [o args IH] using term_ind'. rewrite cops_unfold, wops_unfold. intros H. apply andb_true_iff in H. destruct H as [Ho Ha].
  apply andb_true_iff. split; [unfold wop; now rewrite Ho|]. rewrite forallb_forall in *. rewrite Forall_forall in IH. auto.
Qed.
Lemma cfrag_wfrag t : cfrag t = true -> wfrag t = true.
Proof. intros H. destruct (cfrag_parts _ H) as (A & B & C). apply wfrag_intro; auto. now apply cops_wops. Qed.

(* CPython's limit on int <-> str conversions *)
Open Scope Z_scope.
Definition strlim_node (I : interp) (o : op) (args : list term) : Prop :=
  match o, args with
  | OStr SToInt, [a] => match eval I a with VStr s => slen s <= 4300 | _ => True end
  | OStr SFromInt, [a] => match eval I a with VInt n => n < 10 ^ 4300 | _ => True end
  | _, _ => True
  end.
Close Scope Z_scope.
Fixpoint strlim (I : interp) (t : term) {struct t} : Prop :=
  match t with
  | T o args => strlim_node I o args /\
      (fix all (l : list term) : Prop := match l with [] => True | x :: r => strlim I x /\ all r end) args
  end.
Lemma strlim_args I o args : strlim I (T o args) -> Forall (strlim I) args.
Proof. intros [_ H]. induction args as [|x r IH]; constructor; destruct H; auto. Qed.

(* nodiv0 gives div_safe on the wider fragment too *)
Lemma nodiv0_div_safe_w I : forall t, wops t = true -> nodiv0 I t -> div_safe I t.
Proof.
  induction t as [o args IH] using term_ind'. intros Hc Hn.
  rewrite wops_unfold in Hc. apply andb_true_iff in Hc. destruct Hc as [Ho Hc].
  pose proof (nodiv0_args _ _ _ Hn) as Fn. rewrite forallb_forall in Hc.
  assert (Fd : Forall (div_safe I) args).
  { rewrite Forall_forall in *. intros a Ha. apply IH; auto. }
  assert (Hall : (fix all (l : list term) : Prop := match l with [] => True | x :: r => div_safe I x /\ all r end) args).
  { clear - Fd. induction Fd; cbn; auto. }
  destruct o; try discriminate Ho; cbn [div_safe]; try exact Hall.
  - (* ite *) destruct args as [|c [|a [|b [|? ?]]]]; try exact Hall.
    inversion Fd as [|? ? Dc Fd']; subst. inversion Fd' as [|? ? Da Fd'']; subst. inversion Fd'' as [|? ? Db ?]; subst.
    split; auto. destruct (vbool (eval I c)); auto.
  - (* div *) destruct args as [|a [|b [|? ?]]]; try exact Hall.
    inversion Fd as [|? ? Da Fd']; subst. inversion Fd' as [|? ? Db ?]; subst. destruct Hn as [Hz _]. auto.
Qed.

(* ------------------------------------------------------------------ constants *)
Lemma key_const_is_constant k : key_const k = true -> is_constant k = true.
Proof. destruct k as [o [|? ?]]; destruct o; cbn; try discriminate; reflexivity. Qed.
Lemma kconsts_constant L : kconsts L -> forall p, In p L -> is_constant (fst p) = true.
Proof. unfold kconsts. rewrite Forall_forall. intros H p Hp. apply key_const_is_constant. auto. Qed.

Lemma tsize_in o : forall l x, In x l -> (tsize x < tsize (T o l))%nat.
Proof.
  intros l x Hin. cbn [tsize]. induction l as [|y r IH]; [contradiction|]. cbn [fold_right].
  destruct Hin as [->|Hin]; [lia | specialize (IH Hin); lia].
Qed.
Lemma tsize_arr_get it k d rest : (tsize (arr_get k (pairs_of rest) d) < tsize (T (OArrayValue it) (d :: rest)))%nat.
Proof.
  unfold arr_get. destruct (assoc_get k (pairs_of rest)) as [v|] eqn:G.
  - apply assoc_get_In in G. destruct (pairs_of_In _ _ G) as [_ Hv]. apply tsize_in. cbn; auto.
  - apply tsize_in. cbn; auto.
Qed.

(* array values built by Array() from constants are constants *)
Lemma mk_array_const it d L : is_constant d = true ->
  (forall p, In p L -> is_constant (fst p) = true /\ is_constant (snd p) = true) ->
  exists r, mk_array it d L = Some r /\ is_constant r = true.
Proof.
  intros Cd HL. unfold mk_array.
  assert (Hk : forallb (fun kv => is_constant (fst kv)) L = true) by (apply forallb_forall; intros p Hp; now destruct (HL p Hp)).
  rewrite Hk. eexists. split; [reflexivity|]. rewrite is_constant_array. cbn [forallb]. rewrite Cd. cbn [andb].
  apply forallb_forall. intros x Hx. apply flatten_In in Hx. destruct Hx as (p & Hp & Hx).
  apply (Permutation_in _ (sort_assign_perm _)) in Hp. apply filter_In in Hp. destruct Hp as [Hp _].
  destruct (HL p Hp). destruct Hx; subst; auto.
Qed.

(* combine_results of decided comparisons is decided *)
Lemma combine_some rs : (forall x, In x rs -> exists b, x = Some b) -> exists b, combine_results rs = Some b.
Proof.
  intros H. unfold combine_results. destruct (existsb _ rs); [eauto|].
  destruct (existsb (fun r => match r with None => true | _ => false end) rs) eqn:E; [|eauto].
  apply existsb_exists in E. destruct E as ([[|]|] & Hx & Ex); try discriminate. destruct (H _ Hx) as [b Hb]. discriminate.
Qed.

(* the comparison of two constants of the same sort is decided (the fuel S (tsize l) suffices) *)
Lemma const_eqb_total : forall fuel l r t, (tsize l < fuel)%nat ->
  okt l = true -> okt r = true -> tc l = Some t -> tc r = Some t -> is_constant l = true -> is_constant r = true ->
  exists b, const_eqb fuel l r = Some b.
Proof.
  induction fuel as [|f IH]; intros l r t Hf Ol Or Tl Tr Cl Cr; [lia|]. cbn [const_eqb].
  destruct (term_eqb l r); [eauto|]. rewrite Cl, Cr. cbn [negb orb].
  destruct (is_array_value l) eqn:Al.
  - destruct l as [ol ll]. destruct ol; try discriminate Al.
    destruct (tc_inv _ _ _ Tl) as (tys & _ & Hr). cbn in Hr. destruct tys as [|td trest]; [discriminate|].
    destruct (array_value_ok it td trest true); [|discriminate]. inversion Hr; subst t. clear Hr.
    destruct (const_array_parts _ it td Ol Tl Cl) as (dl & rl & El & Tdl & Odl & Cdl & Hit & Hevl & Hcl & Hnl & Htyl & Hol & Gl).
    inversion El; subst ll. clear El.
    destruct (const_array_parts _ it td Or Tr Cr) as (dr & rr & -> & Tdr & Odr & Cdr & _ & Hevr & Hcr & Hnr & Htyr & Hor & Gr).
    cbn zeta.
    assert (Hall : forall x, In x (map (fun k => const_eqb f (arr_get k (pairs_of rl) dl) (arr_get k (pairs_of rr) dr))
                                       (union_keys (map fst (pairs_of rl)) (map fst (pairs_of rr)))) -> exists b, x = Some b).
    { intros x Hx. apply in_map_iff in Hx. destruct Hx as (k & <- & _).
      destruct (Gl k) as (A1 & A2 & A3). destruct (Gr k) as (B1 & B2 & B3).
      apply (IH _ _ td); auto. pose proof (tsize_arr_get it k dl rl). lia. }
    destruct (combine_some _ Hall) as [[|] ->]; [|eauto].
    destruct (idx_covered it _); [eauto|]. apply (IH _ _ td); auto.
    assert (tsize dl < tsize (T (OArrayValue it) (dl :: rl)))%nat by (apply tsize_in; cbn; auto). lia.
  - assert (Ar : is_array_value r = false).
    { destruct (is_array_value r) eqn:Ar; auto. exfalso. destruct r as [o rr]. destruct o; try discriminate Ar.
      destruct (tc_inv _ _ _ Tr) as (tys & _ & Hr). cbn in Hr. destruct tys as [|td trest]; [discriminate|].
      destruct (array_value_ok it td trest true); [|discriminate]. inversion Hr; subst t.
      destruct (const_cases l _ Ol Tl Cl) as [(x & -> & E')|[(x & -> & E')|[(n1 & d1 & -> & E' & D1)|[(v1 & w1 & -> & E')|[(s1 & -> & E')|(? & ? & _ & Al')]]]]];
        try discriminate E'. congruence. }
    destruct l as [ol ll], r as [or' lr].
    destruct ol; cbn in Cl, Al; try discriminate Cl; try discriminate Al;
      destruct or'; cbn in Cr, Ar; try discriminate Cr; try discriminate Ar; cbn; eauto.
Qed.

(* Select / Store / ArrayValue on constants *)
Lemma c_select a i it e : okt a = true -> tc a = Some (TArr it e) -> is_constant a = true -> is_constant i = true ->
  exists c, r_select a i = Some c /\ is_constant c = true.
Proof.
  intros Oa Ta Ca Ci. destruct (const_array_parts _ it e Oa Ta Ca) as (d & rest & -> & _ & _ & _ & _ & _ & _ & _ & _ & _ & G).
  unfold r_select. cbn [is_array_value top]. rewrite Ci. cbn [andb targs]. eexists. split; [reflexivity|].
  destruct (G i) as (_ & _ & C). exact C.
Qed.
Lemma c_store a i v it e : okt a = true -> tc a = Some (TArr it e) -> is_constant a = true -> is_constant i = true ->
  is_constant v = true -> exists c, r_store a i v = Some c /\ is_constant c = true.
Proof.
  intros Oa Ta Ca Ci Cv. destruct (const_array_parts _ it e Oa Ta Ca) as (d & rest & -> & _ & _ & Cd & _ & _ & Hc & Hn & _ & _ & G).
  cbn [r_store]. rewrite Ci. rewrite dict_of_pairs_id by exact Hn. apply mk_array_const; auto.
  intros p Hp. apply assoc_set_In in Hp. destruct Hp as [->|Hp]; [cbn; auto|]. split.
  - now apply (kconsts_constant _ Hc).
  - destruct p as [k w]. cbn. destruct (G k) as (_ & _ & C). unfold arr_get in C.
    rewrite is_constant_array in Ca. cbn [forallb] in Ca. apply andb_true_iff in Ca. destruct Ca as [_ Cr].
    rewrite forallb_forall in Cr. apply Cr. now destruct (pairs_of_In _ _ Hp).
Qed.
Lemma c_array_value it d rest : arr_keys_ok it d rest = true -> forallb is_constant (d :: rest) = true ->
  exists c, r_array_value it (d :: rest) = Some c /\ is_constant c = true.
Proof.
  intros Hk C. destruct (arr_keys_parts _ _ _ Hk) as (_ & _ & _ & Hc & Hs).
  cbn [forallb] in C. apply andb_true_iff in C. destruct C as [Cd Cr]. rewrite forallb_forall in Cr.
  unfold r_array_value. rewrite dict_of_pairs_id by now apply keys_sorted_NoDup.
  apply mk_array_const; auto. intros p Hp. destruct (pairs_of_In _ _ Hp). split; apply Cr; auto.
Qed.

(* ------------------------------------------------------------------ str(int) below the limit *)
Open Scope Z_scope.
Lemma digits_fuel_len : forall F v acc k, (1 <= k)%nat -> 0 <= v < p10 k ->
  (List.length (PyPrims.digits_fuel F v acc) <= k + List.length acc)%nat.
Proof.
  induction F as [|F IH]; intros v acc k Hk Hv; cbn [PyPrims.digits_fuel]; [lia|].
  destruct (Z.ltb_spec v 10); [cbn [List.length]; lia|].
  destruct k as [|k]; [lia|]. rewrite p10_S in Hv.
  assert (Hq : 0 <= v / 10 < p10 k) by (split; [apply Z.div_pos; lia | apply Z.div_lt_upper_bound; lia]).
  assert (1 <= k)%nat. { destruct k; [|lia]. unfold p10 in Hq. cbn in Hq. assert (1 <= v / 10) by (apply Z.div_le_lower_bound; lia). lia. }
  specialize (IH (v / 10) ((48 + v mod 10) :: acc) k H0 Hq). cbn [List.length] in IH. lia.
Qed.
Lemma py_str_of_int_total n : 0 <= n < 10 ^ 4300 -> exists ds, py_str_of_int n = Some ds.
Proof.
  intros [H0 H1]. unfold py_str_of_int. rewrite Z.abs_eq by lia. cbv zeta.
  set (K := Z.to_nat 4300). assert (EK : Z.of_nat K = 4300) by (apply Z2Nat.id; lia).
  assert (HK : n < p10 K) by (unfold p10; now rewrite EK).
  rewrite (digits_big_spec _ n [] K); try lia.
  - pose proof (digits_fuel_len K n [] K ltac:(lia) (conj H0 HK)) as Hl. cbn [List.length] in Hl.
    assert (Hz : zlen (PyPrims.digits_fuel K n []) <= 4300) by (unfold zlen; lia).
    unfold max_str_digits. rewrite (proj2 (Z.ltb_ge _ _) Hz). eauto.
  - split; [lia|]. now apply lt_p10_big.
Qed.
Close Scope Z_scope.

(* ------------------------------------------------------------------ the string rules on constants *)
Lemma str_const_arg c : okt c = true -> tc c = Some TStr -> is_constant c = true -> exists s, c = TStrC s.
Proof.
  intros O Tc C.
  destruct (const_cases c _ O Tc C) as [(x & -> & E)|[(x & -> & E)|[(n1 & d1 & -> & E & D1)|[(v1 & w1 & -> & E)|[(s1 & -> & E)|(? & ? & E & _)]]]]];
    try discriminate E. eauto.
Qed.
Lemma int_const_arg c : okt c = true -> tc c = Some TInt -> is_constant c = true -> exists z, c = TIntC z.
Proof.
  intros O Tc C.
  destruct (const_cases c _ O Tc C) as [(x & -> & E)|[(x & -> & E)|[(n1 & d1 & -> & E & D1)|[(v1 & w1 & -> & E)|[(s1 & -> & E)|(? & ? & E & _)]]]]];
    try discriminate E. eauto.
Qed.
Lemma all_str_consts : forall cs tys, Forall2 (fun a t => tc a = Some t) cs tys -> all_are TStr tys ->
  Forall (fun c => okt c = true) cs -> Forall (fun c => is_constant c = true) cs -> exists vs, cs = map TStrC vs.
Proof.
  induction 1 as [|c t cs tys Hc Hr IH]; intros Ha Fo Fc; [exists []; reflexivity|].
  inversion Ha; subst. inversion Fo; subst. inversion Fc; subst.
  destruct (str_const_arg c) as [s ->]; auto. destruct IH as [vs ->]; auto. exists (s :: vs). reflexivity.
Qed.

Lemma c_str I k cs ty : Forall (fun c => okt c = true) cs -> Forall (fun c => is_constant c = true) cs ->
  tc (T (OStr k) cs) = Some ty -> str_arity k (List.length cs) = true -> strlim_node I (OStr k) cs ->
  exists c, r_str k cs = Some c /\ is_constant c = true.
Proof.
  intros Fo Fc Htc Ha Hlim.
  destruct (tc_inv _ _ _ Htc) as (tys & Ht & Hr). pose proof (tcs_Forall2 _ _ Ht) as F2.
  destruct k; cbn [SimplifierSemBase_proofs.str_arity] in Ha; cbn [tc_rule] in Hr.
  - (* length *) apply type_to_type_inv in Hr. destruct Hr as [Hall _]. destruct (all_str_consts _ _ F2 Hall Fo Fc) as [vs ->].
    destruct vs as [|s [|? ?]]; try discriminate Ha. cbn [map r_str str_value top TStrC TIntC]. eauto.
  - (* concat *) apply type_to_type_inv in Hr. destruct Hr as [Hall _]. destruct (all_str_consts _ _ F2 Hall Fo Fc) as [vs ->].
    cbn [r_str]. assert (E : forallb is_string_constant (map TStrC vs) = true) by (apply forallb_forall; intros x Hx; apply in_map_iff in Hx; destruct Hx as (s & <- & _); reflexivity).
    rewrite E. eauto.
  - (* contains *) apply type_to_type_inv in Hr. destruct Hr as [Hall _]. destruct (all_str_consts _ _ F2 Hall Fo Fc) as [vs ->].
    destruct vs as [|s [|t [|? ?]]]; try discriminate Ha. cbn [map r_str str_value top TStrC TIntC]. eauto.
  - (* indexof *) destruct tys as [|[] [|[] [|[] [|? ?]]]]; try discriminate Hr.
    inversion F2 as [|a ? ? ? Ta F2']; subst. inversion F2' as [|b ? ? ? Tb F2'']; subst. inversion F2'' as [|c ? ? ? Tc0 F3]; subst. inversion F3; subst.
    inversion Fo as [|? ? Oa Fo']; subst. inversion Fo' as [|? ? Ob Fo'']; subst. inversion Fo'' as [|? ? Oc _]; subst.
    inversion Fc as [|? ? Ca Fc']; subst. inversion Fc' as [|? ? Cb Fc'']; subst. inversion Fc'' as [|? ? Cc _]; subst.
    destruct (str_const_arg a Oa Ta Ca) as [s ->]. destruct (str_const_arg b Ob Tb Cb) as [t ->]. destruct (int_const_arg c Oc Tc0 Cc) as [z ->].
    cbn [map r_str str_value top TStrC TIntC]. eauto.
  - (* replace *) apply type_to_type_inv in Hr. destruct Hr as [Hall _]. destruct (all_str_consts _ _ F2 Hall Fo Fc) as [vs ->].
    destruct vs as [|s [|t [|u [|? ?]]]]; try discriminate Ha. cbn [map r_str str_value top TStrC TIntC]. eauto.
  - (* substr *) destruct tys as [|[] [|[] [|[] [|? ?]]]]; try discriminate Hr.
    inversion F2 as [|a ? ? ? Ta F2']; subst. inversion F2' as [|b ? ? ? Tb F2'']; subst. inversion F2'' as [|c ? ? ? Tc0 F3]; subst. inversion F3; subst.
    inversion Fo as [|? ? Oa Fo']; subst. inversion Fo' as [|? ? Ob Fo'']; subst. inversion Fo'' as [|? ? Oc _]; subst.
    inversion Fc as [|? ? Ca Fc']; subst. inversion Fc' as [|? ? Cb Fc'']; subst. inversion Fc'' as [|? ? Cc _]; subst.
    destruct (str_const_arg a Oa Ta Ca) as [s ->]. destruct (int_const_arg b Ob Tb Cb) as [i ->]. destruct (int_const_arg c Oc Tc0 Cc) as [j ->].
    cbn [map r_str str_value top TStrC TIntC]. eauto.
  - (* prefixof *) apply type_to_type_inv in Hr. destruct Hr as [Hall _]. destruct (all_str_consts _ _ F2 Hall Fo Fc) as [vs ->].
    destruct vs as [|s [|t [|? ?]]]; try discriminate Ha. cbn [map r_str str_value top TStrC TIntC]. eauto.
  - (* suffixof *) apply type_to_type_inv in Hr. destruct Hr as [Hall _]. destruct (all_str_consts _ _ F2 Hall Fo Fc) as [vs ->].
    destruct vs as [|s [|t [|? ?]]]; try discriminate Ha. cbn [map r_str str_value top TStrC TIntC]. eauto.
  - (* to_int *) apply type_to_type_inv in Hr. destruct Hr as [Hall _]. destruct (all_str_consts _ _ F2 Hall Fo Fc) as [vs ->].
    destruct vs as [|s [|? ?]]; try discriminate Ha. cbn [map r_str str_value top TStrC].
    destruct ((zlen s =? 0)%Z || negb (forallb PyPrims.is_digit s)) eqn:C; [eauto|].
    apply orb_false_iff in C. destruct C as [C1 C2]. apply negb_false_iff in C2.
    assert (Hne : s <> []) by (intros ->; discriminate C1).
    rewrite (py_int_of_str_digits s Hne C2). change (slen s <= 4300)%Z in Hlim. unfold max_str_digits.
    rewrite (proj2 (Z.ltb_ge 4300 (slen s))) by exact Hlim. eauto.
  - (* from_int *) apply type_to_type_inv in Hr. destruct Hr as [Hall _].
    destruct cs as [|c [|? ?]]; try discriminate Ha. inversion F2 as [|? t0 ? ? Tc0 F2']; subst. inversion Hall; subst.
    inversion Fo as [|? ? Oc _]; subst. inversion Fc as [|? ? Cc _]; subst.
    destruct (int_const_arg c Oc Tc0 Cc) as [z ->]. cbn [r_str top TIntC].
    destruct (Z.ltb_spec z 0); [eauto|]. change (z < 10 ^ 4300)%Z in Hlim.
    destruct (py_str_of_int_total z (conj H Hlim)) as [ds ->]. eauto.
  - (* charat *) destruct tys as [|[] [|[] [|? ?]]]; try discriminate Hr.
    inversion F2 as [|a ? ? ? Ta F2']; subst. inversion F2' as [|b ? ? ? Tb F2'']; subst. inversion F2''; subst.
    inversion Fo as [|? ? Oa Fo']; subst. inversion Fo' as [|? ? Ob _]; subst.
    inversion Fc as [|? ? Ca Fc']; subst. inversion Fc' as [|? ? Cb _]; subst.
    destruct (str_const_arg a Oa Ta Ca) as [s ->]. destruct (int_const_arg b Ob Tb Cb) as [i ->].
    cbn [map r_str str_value top TStrC TIntC]. eauto.
Qed.

(* ------------------------------------------------------------------ the operators of cfrag other than Ite / Equals take scalars *)
Definition scalar_ty (t : ty) : bool := match t with TArr _ _ => false | _ => true end.
Lemma all_eq_scalar u tys : scalar_ty u = true -> Forall (fun x => x = u) tys -> Forall (fun t => scalar_ty t = true) tys.
Proof. intros Hu F. induction F; constructor; subst; auto. Qed.
Lemma cop_args_scalar o cs tys ty : cop o = true -> o <> OIte -> o <> OEquals ->
  ok_node o cs = true -> Forall2 (fun a t => tc a = Some t) cs tys -> tc_rule o tys = Some ty ->
  Forall (fun t => scalar_ty t = true) tys.
Proof.
  intros Hc Hi He Hn F2 Hr. pose proof (Forall2_length_eq _ _ _ F2) as Hlen.
  destruct o; try discriminate Hc; try congruence; cbn [ok_node] in Hn; cbn [tc_rule] in Hr.
  - apply all_bool_inv in Hr. destruct Hr as [_ H]. now apply (all_eq_scalar TBool).
  - apply all_bool_inv in Hr. destruct Hr as [_ H]. now apply (all_eq_scalar TBool).
  - apply all_bool_inv in Hr. destruct Hr as [_ H]. now apply (all_eq_scalar TBool).
  - apply all_bool_inv in Hr. destruct Hr as [_ H]. now apply (all_eq_scalar TBool).
  - apply all_bool_inv in Hr. destruct Hr as [_ H]. now apply (all_eq_scalar TBool).
  - destruct tys; [constructor | discriminate].
  - destruct tys; [constructor | discriminate].
  - destruct tys; [constructor | discriminate].
  - destruct tys; [constructor | discriminate].
  - apply arith_rule_inv in Hr. destruct Hr as [[-> | ->] H]; [now apply (all_eq_scalar TInt) | now apply (all_eq_scalar TReal)].
  - apply arith_rule_inv in Hr. destruct Hr as [[-> | ->] H]; [now apply (all_eq_scalar TInt) | now apply (all_eq_scalar TReal)].
  - apply arith_rule_inv in Hr. destruct Hr as [[-> | ->] H]; [now apply (all_eq_scalar TInt) | now apply (all_eq_scalar TReal)].
  - apply rel_rule_inv in Hr. destruct Hr as (_ & u & [-> | ->] & H); [now apply (all_eq_scalar TInt) | now apply (all_eq_scalar TReal)].
  - apply rel_rule_inv in Hr. destruct Hr as (_ & u & [-> | ->] & H); [now apply (all_eq_scalar TInt) | now apply (all_eq_scalar TReal)].
  - apply type_to_type_inv in Hr. destruct Hr as [H _]. now apply (all_eq_scalar TInt).
  - destruct tys; [constructor | discriminate].
  - (* bv operators *)
    apply andb_true_iff in Hn. destruct Hn as [_ Hk].
    destruct k; try discriminate Hk;
      try (cbn in Hr; destruct (forallb (fun a => ty_eqb a (TBV w)) tys) eqn:E; [|discriminate];
           apply Forall_forall; intros x Hx; rewrite forallb_forall in E; specialize (E x Hx); apply ty_eqb_eq in E; now subst).
    + destruct cs as [|a [|b [|? ?]]]; try discriminate Hk. destruct tys as [|ta [|tb [|? ?]]]; try discriminate Hlen.
      cbn in Hr. destruct ta; try discriminate. destruct tb; try discriminate. repeat constructor.
    + apply andb_true_iff in Hk. destruct Hk as [Hk _]. destruct cs as [|a [|b [|? ?]]]; try discriminate Hk. destruct tys as [|ta [|tb [|? ?]]]; try discriminate Hlen.
      cbn in Hr. destruct (ty_eqb ta tb && is_bv ta) eqn:E; [|discriminate]. apply andb_true_iff in E. destruct E as [E1 E2].
      apply ty_eqb_eq in E1. subst tb. destruct ta; try discriminate E2. repeat constructor.
  - (* bv relations *) unfold bv_to_bool in Hr. destruct tys as [|[] rest]; try discriminate.
    destruct (forallb _ rest) eqn:E; [|discriminate]. constructor; [reflexivity|].
    apply Forall_forall. intros x Hx. rewrite forallb_forall in E. specialize (E x Hx). destruct x; try discriminate E. reflexivity.
  - destruct tys as [|[] ?]; try discriminate. destruct cs as [|a [|? ?]]; try discriminate. destruct tys; [|discriminate Hlen]. repeat constructor.
  - destruct cs as [|a [|? ?]]; try discriminate. destruct tys as [|ta [|? ?]]; try discriminate Hlen.
    destruct ((w <? k)%Z || (w <? 0)%Z || (k <? 0)%Z); [discriminate|]. destruct ta; try discriminate. repeat constructor.
  - destruct cs as [|a [|? ?]]; try discriminate. destruct tys as [|ta [|? ?]]; try discriminate Hlen.
    destruct ((w <? k)%Z || (w <? 0)%Z || (k <? 0)%Z); [discriminate|]. destruct ta; try discriminate. repeat constructor.
  - destruct cs as [|a [|? ?]]; try discriminate. destruct tys as [|ta [|? ?]]; try discriminate Hlen. destruct ta; try discriminate. repeat constructor.
  - destruct cs as [|a [|? ?]]; try discriminate. destruct tys as [|ta [|? ?]]; try discriminate Hlen. destruct ta; try discriminate. repeat constructor.
  - apply arith_rule_inv in Hr. destruct Hr as [[-> | ->] H]; [now apply (all_eq_scalar TInt) | now apply (all_eq_scalar TReal)].
  - destruct cs as [|a [|e [|? ?]]]; try discriminate Hn; try (destruct e as [[] [|]]; discriminate Hn).
    destruct tys as [|ta [|tb [|? ?]]]; try discriminate Hlen. cbn in Hr. destruct (ty_eqb ta tb) eqn:E; [|discriminate].
    apply ty_eqb_eq in E. subst tb. destruct ta; try discriminate; repeat constructor.
  - destruct cs as [|a [|? ?]]; try discriminate. destruct tys as [|ta [|? ?]]; try discriminate Hlen.
    destruct ta; try discriminate. repeat constructor.
Qed.

(* ------------------------------------------------------------------ one node on constant arguments *)
Lemma array_value_ty c t : is_array_value c = true -> tc c = Some t -> scalar_ty t = false.
Proof.
  destruct c as [o l]. destruct o; try discriminate. intros _ Htc. destruct (tc_inv _ _ _ Htc) as (tys & _ & Hr).
  cbn in Hr. destruct tys as [|d r]; [discriminate|]. destruct (array_value_ok it d r true); [|discriminate]. now inversion Hr.
Qed.
Lemma scalar_const_kconst c t : okt c = true -> tc c = Some t -> is_constant c = true -> scalar_ty t = true -> kconst c.
Proof.
  intros O Tc C S. apply (is_constant_kconst c t); auto. destruct (is_array_value c) eqn:A; auto.
  rewrite (array_value_ty c t A Tc) in S. discriminate.
Qed.
Lemma scalar_constant_value c : is_constant c = true -> is_array_value c = false -> exists v, constant_value c = Some v.
Proof. destruct c as [o l]. destruct o; cbn; try discriminate; eauto. Qed.

Lemma rule_const_wide ora I o cs ty : wfi I ->
  ok_node_w o cs = true -> Forall (fun c => okt c = true) cs -> Forall (fun c => is_constant c = true) cs ->
  tc (T o cs) = Some ty -> wop o = true ->
  (match o, cs with ODiv, [_; b] => is_zero b = false | OPow, [_; e] => exp_nn e = true | _, _ => True end) ->
  strlim_node I o cs ->
  exists c, rule ora o cs = Some c /\ is_constant c = true.
Proof.
  intros Hwf Hn Fo Fc Htc Hw Hdiv Hlim.
  destruct (tc_inv _ _ _ Htc) as (tys & Ht & Hr). pose proof (tcs_Forall2 _ _ Ht) as F2.
  assert (Hold : cop o = true -> o <> OIte -> o <> OEquals -> exists c, rule ora o cs = Some c /\ is_constant c = true).
  { intros Hc Hi He.
    assert (Hn' : ok_node o cs = true) by (destruct o; try exact Hn; discriminate Hc).
    pose proof (cop_args_scalar o cs tys ty Hc Hi He Hn' F2 Hr) as Fs.
    assert (K : Forall kconst cs).
    { clear - F2 Fs Fo Fc. induction F2 as [|c t cs tys Hc Hr IH]; constructor;
        inversion Fs; inversion Fo; inversion Fc; subst; auto. now apply (scalar_const_kconst c t). }
    destruct (rule_const ora o cs ty (okt_intro _ _ Hn' Fo) Htc Hc K Hdiv) as (c & Ec & Kc).
    exists c. split; auto. now apply kconst_is_constant. }
  destruct o; try discriminate Hw; try (apply Hold; [reflexivity | discriminate | discriminate]); cbn [rule]; unfold un, bin, tern.
  - (* equals *)
    cbn [ok_node_w ok_node] in Hn. destruct cs as [|a [|b [|? ?]]]; try discriminate Hn.
    inversion F2 as [|? ta ? ? Ta F2']; subst. inversion F2' as [|? tb ? ? Tb F2'']; subst. inversion F2''; subst.
    destruct (equals_same _ _ _ Hr) as [<- _].
    inversion Fo as [|? ? Oa Fo']; subst. inversion Fo' as [|? ? Ob _]; subst.
    inversion Fc as [|? ? Ca Fc']; subst. inversion Fc' as [|? ? Cb _]; subst.
    unfold r_equals. rewrite Ca, Cb. cbn [andb].
    destruct (negb (is_array_value a) && negb (is_array_value b)) eqn:E.
    + apply andb_true_iff in E. destruct E as [Ea Eb]. apply negb_true_iff in Ea, Eb.
      destruct (scalar_constant_value a Ca Ea) as [x ->]. destruct (scalar_constant_value b Cb Eb) as [y ->]. eauto.
    + destruct (term_eqb a b); [eauto|].
      destruct (const_eqb_total (S (tsize a)) a b ta ltac:(lia) Oa Ob Ta Tb Ca Cb) as [x ->]. eauto.
  - (* ite *)
    cbn [ok_node_w ok_node] in Hn. destruct cs as [|c [|a [|b [|? ?]]]]; try discriminate Hn.
    inversion F2 as [|? tc0 ? ? Tc0 F2']; subst. inversion F2' as [|? ta ? ? Ta F2'']; subst. inversion F2'' as [|? tb ? ? Tb F3]; subst.
    inversion Fc as [|? ? Cc Fc']; subst. inversion Fc' as [|? ? Ca Fc'']; subst. inversion Fc'' as [|? ? Cb _]; subst.
    inversion Fo as [|? ? Oc _]; subst.
    cbn in Hr. destruct (ty_eqb tc0 TBool) eqn:Eb; [|discriminate]. apply ty_eqb_eq in Eb. subst tc0.
    eexists. split; [reflexivity|]. unfold r_ite. destruct (term_eqb a b); auto.
    destruct (const_cases c _ Oc Tc0 Cc) as [(x & -> & E)|[(x & -> & E)|[(n1 & d1 & -> & E & D1)|[(v1 & w1 & -> & E)|[(s1 & -> & E)|(? & ? & E & _)]]]]];
      try discriminate E. cbn. destruct x; auto.
  - (* strings *) cbn [ok_node_w ok_node] in Hn. now apply (c_str I k cs ty).
  - (* select *)
    cbn [ok_node_w ok_node] in Hn. destruct cs as [|a [|i [|? ?]]]; try discriminate Hn.
    inversion F2 as [|? ta ? ? Ta F2']; subst. inversion Fo as [|? ? Oa _]; subst.
    inversion Fc as [|? ? Ca Fc']; subst. inversion Fc' as [|? ? Ci _]; subst.
    cbn in Hr. destruct ta as [| | | | |i0 e| |]; try discriminate. now apply (c_select a i i0 e).
  - (* store *)
    cbn [ok_node_w ok_node] in Hn. destruct cs as [|a [|i [|v [|? ?]]]]; try discriminate Hn.
    inversion F2 as [|? ta ? ? Ta F2']; subst. inversion Fo as [|? ? Oa _]; subst.
    inversion Fc as [|? ? Ca Fc']; subst. inversion Fc' as [|? ? Ci Fc'']; subst. inversion Fc'' as [|? ? Cv _]; subst.
    cbn in Hr. destruct ta as [| | | | |i0 e| |]; try discriminate. now apply (c_store a i v i0 e).
  - (* array value *)
    destruct cs as [|d rest]; [discriminate Hn|]. cbn [ok_node_w] in Hn. apply c_array_value; auto.
    apply forallb_forall. rewrite Forall_forall in Fc. auto.
Qed.

(* ------------------------------------------------------------------ the simplifier *)
Lemma pownn_args o args : pownn (T o args) = true -> pow_node_nn o args = true /\ forall a, In a args -> pownn a = true.
Proof. rewrite pownn_unfold. intros H. apply andb_true_iff in H. destruct H as [H1 H2]. split; auto. now apply forallb_forall. Qed.

Theorem fold_constant_wide : forall ora I t ty, wfrag t = true -> tc t = Some ty -> wfi I -> nodiv0 I t -> strlim I t ->
  exists c, simplify_opt ora t = Some c /\ is_constant c = true.
Proof.
  intros ora I. induction t as [o args IH] using term_ind'. intros ty Hf Htc Hwf Hnd Hsl.
  destruct (wfrag_parts _ Hf) as (Hok & Hcs & Hpn).
  rewrite wops_unfold in Hcs. apply andb_true_iff in Hcs. destruct Hcs as [Ho Hcs]. rewrite forallb_forall in Hcs.
  destruct (pownn_args _ _ Hpn) as [Hpo Hpa].
  pose proof (okt_args _ _ Hok) as Fa. pose proof (okt_node _ _ Hok) as Hn.
  destruct (tc_inv _ _ _ Htc) as (tys & Ht & Hr). pose proof (tcs_Forall2 _ _ Ht) as FT.
  pose proof (nodiv0_args _ _ _ Hnd) as Fn. pose proof (strlim_args _ _ _ Hsl) as Fs.
  (* the arguments fold to constants of their sorts, with their values *)
  assert (Hargs : exists cs, map_opt (simplify_opt ora) args = Some cs /\
            Forall2 (fun a c => simplify_opt ora a = Some c /\ is_constant c = true /\ okt c = true /\ tc c = tc a /\ eval I c = eval I a) args cs).
  { clear Hr Hn Htc Hok Hnd Hsl Hpo Hf Hpn Ht. revert tys FT. induction args as [|a r IHr]; intros tys FT.
    - exists []. split; constructor.
    - inversion FT as [|? ta ? tr Ta FT']; subst. inversion Fa; subst. inversion Fn; subst. inversion Fs; subst.
      assert (Wa : wfrag a = true) by (apply wfrag_intro; [assumption | apply Hcs; cbn; auto | apply Hpa; cbn; auto]).
      destruct (Forall_inv IH ta Wa Ta Hwf) as (c & Ec & Kc); auto.
      destruct (IHr (Forall_inv_tail IH)) with (tys := tr) as (cs & Em & F2); auto.
      { intros x Hx. apply Hcs. cbn; auto. } { intros x Hx. apply Hpa. cbn; auto. }
      destruct (wfrag_parts _ Wa) as (Oa & Wo & _).
      destruct (simplify_sound_stages ora a I ta c Oa Ta Hwf Ec) as [[Oc Tc] Ev].
      exists (c :: cs). cbn. rewrite Ec, Em. split; [reflexivity|]. constructor; auto.
      repeat split; auto; [congruence|]. apply Ev. now apply nodiv0_div_safe_w. }
  destruct Hargs as (cs & Em & F2).
  rewrite simplify_opt_unfold, Em.
  assert (F2s : Forall2 (fun a c => simplify_opt ora a = Some c) args cs) by (clear - F2; induction F2; constructor; tauto).
  assert (F2t : Forall2 (fun a a' => okt a' = true /\ tc a' = tc a) args cs) by (clear - F2; induction F2; constructor; tauto).
  assert (Fo : Forall (fun c => okt c = true) cs) by (clear - F2; induction F2; constructor; tauto).
  assert (Fc : Forall (fun c => is_constant c = true) cs) by (clear - F2; induction F2; constructor; tauto).
  assert (Hmap : map (eval I) cs = map (eval I) args) by (clear - F2; induction F2 as [|a c l l' H _ IHl]; cbn; [reflexivity | destruct H as (_ & _ & _ & _ & ->); now rewrite IHl]).
  assert (Tcs : tcs cs = Some tys).
  { rewrite <- Ht. clear - F2t. induction F2t as [|a c l l' [_ H] _ IHl]; cbn; [reflexivity | now rewrite H, IHl]. }
  assert (Htc' : tc (T o cs) = Some ty) by (rewrite tc_tcs, Tcs; exact Hr).
  assert (Hnw : ok_node_w o cs = true).
  { destruct (len_op o) eqn:Eo.
    - apply ok_node_w_of. rewrite <- (ok_node_length o args cs); auto. eapply Forall2_length_eq; eauto.
    - destruct o; try discriminate Eo.
      + apply ok_node_w_of. apply (ok_node_ext _ args cs); eauto.
      + apply ok_node_w_of. apply (ok_node_ext _ args cs); eauto.
      + eapply ok_node_arr; eauto.
      + apply ok_node_w_of. eapply ok_node_pow; eauto. }
  assert (Hdiv : match o, cs with ODiv, [_; b] => is_zero b = false | OPow, [_; e] => exp_nn e = true | _, _ => True end).
  { destruct o; try exact Logic.I.
    2:{ destruct cs as [|a' [|e' [|? ?]]]; try exact Logic.I.
        inversion F2s as [|a ? ? ? Ea F2']; subst. inversion F2' as [|e ? ? ? Ee F2'']; subst. inversion F2''; subst.
        cbn [pow_node_nn] in Hpo. cbn [ok_node] in Hn.
        destruct e as [oe le]. destruct oe; try discriminate Hn; destruct le; try discriminate Hn;
          rewrite simplify_constant in Ee by exact Logic.I; inversion Ee; subst; exact Hpo. }
    destruct cs as [|a' [|b' [|? ?]]]; try exact Logic.I.
    inversion F2 as [|a ? ? ? _ F2']; subst. inversion F2' as [|b ? ? ? (_ & Cb & Ob & Tb & Evb) F2'']; subst. inversion F2''; subst.
    destruct Hnd as [Hz _]. destruct (is_zero b') eqn:Z; auto. exfalso. apply Hz. rewrite <- Evb.
    apply is_zero_kconst_val; auto.
    cbn in Hr. apply arith_rule_inv in Hr. destruct Hr as [Har Hall]. inversion FT as [|? ta ? ? _ FT']; subst. inversion FT' as [|? tb ? ? Tb0 _]; subst.
    inversion Hall as [|? ? _ Hall']; subst. inversion Hall'; subst.
    apply (scalar_const_kconst b' ty); auto; [congruence | destruct Har; subst; reflexivity]. }
  assert (Hlim : strlim_node I o cs).
  { destruct Hsl as [Hl _]. destruct o; try exact Logic.I. destruct k; try exact Logic.I;
      destruct cs as [|c [|? ?]]; try exact Logic.I; inversion F2 as [|a ? ? ? (_ & _ & _ & _ & Ev) F2']; subst; inversion F2'; subst;
      cbn [strlim_node] in *; now rewrite Ev. }
  destruct (rule_const_wide ora I o cs ty Hwf Hnw Fo Fc Htc' Ho Hdiv Hlim) as (c & Ec & Kc).
  exists c. split; auto. unfold simp_rule, Simplifier.bind. rewrite Ec.
  destruct (rule_sound1w I ora o cs ty c Hwf Hnw Fo Htc' Ec) as (_ & Tc & _). now rewrite Tc.
Qed.

(* For closed, quantifier-free, UF-free terms of the wider fragment in which no divisor evaluates to 0
   and the int <-> str conversions stay below CPython's limit: simplification returns a constant, of the
   sort of the term, inside the fragment, that denotes the value of the term. *)
Theorem fold_complete_wide : forall ora I t ty, wfrag t = true -> tc t = Some ty -> wfi I -> nodiv0 I t -> strlim I t ->
  exists c, simplify_opt ora t = Some c /\ is_constant c = true /\ okt c = true /\ tc c = Some ty /\ eval I c = eval I t.
Proof.
  intros ora I t ty Hf Htc Hwf Hnd Hsl.
  destruct (fold_constant_wide ora I t ty Hf Htc Hwf Hnd Hsl) as (c & Ec & Kc).
  destruct (wfrag_parts _ Hf) as (Hok & Hcs & _).
  destruct (simplify_sound_stages ora t I ty c Hok Htc Hwf Ec) as [[Oc Tc] Ev].
  exists c. repeat split; auto. apply Ev. now apply nodiv0_div_safe_w.
Qed.
(* results of scalar sort are scalar constants *)
Corollary fold_complete_wide_scalar : forall ora I t ty, wfrag t = true -> tc t = Some ty -> scalar_ty ty = true ->
  wfi I -> nodiv0 I t -> strlim I t ->
  exists c, simplify_opt ora t = Some c /\ is_const c = true /\ tc c = Some ty /\ eval I c = eval I t.
Proof.
  intros ora I t ty Hf Htc Hs Hwf Hnd Hsl.
  destruct (fold_complete_wide ora I t ty Hf Htc Hwf Hnd Hsl) as (c & Ec & Kc & Oc & Tc & Ev).
  exists c. repeat split; auto. apply kconst_is_const. now apply (scalar_const_kconst c ty).
Qed.

Example fold_example_wide :
  let a := T (OArrayValue TInt) [TStrC []; TIntC 1; TStrC [52; 50]%Z] in
  let t := T OEquals [T (OStr SToInt) [T (OStr SConcat) [T OSelect [T OStore [a; TIntC 2; TStrC [55]%Z]; TIntC 1];
                                                        T OSelect [T OStore [a; TIntC 2; TStrC [55]%Z]; TIntC 2]]];
                      T OPlus [TIntC 420; T (OStr SLength) [T (OStr SFromInt) [TIntC 1234567]]]] in
  wfrag t = true /\ tc t = Some TBool /\ simplify_opt no_oracle t = Some TTrue.
Proof. cbv zeta. split; [vm_compute; reflexivity|]. split; vm_compute; reflexivity. Qed.
