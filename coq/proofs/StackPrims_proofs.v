(* C16 - facts about the list / dict primitives of models/StackPrims.v *)
From Coq Require Import List Arith Bool Lia.
From PySMT.models Require Import StackPrims.
Import ListNotations.

Lemma pop_last_app {A} (l : list A) x : pop_last (l ++ [x]) = Some (l, x).
Proof.
  induction l as [|y r IH]; cbn; [reflexivity|].
  rewrite IH. destruct (r ++ [x]) eqn:E; [destruct r; discriminate|reflexivity].
Qed.

Lemma pop_last_nil {A} : pop_last (@nil A) = None.
Proof. reflexivity. Qed.

Lemma firstn_exact {A} (a b : list A) : firstn (length a) (a ++ b) = a.
Proof.
  rewrite firstn_app, Nat.sub_diag, firstn_all. cbn. apply app_nil_r.
Qed.

Lemma upd_nth_app {A} (f : A -> A) (a : list A) x b :
  upd_nth (length a) f (a ++ x :: b) = a ++ f x :: b.
Proof. induction a as [|y a IH]; cbn; [reflexivity|now rewrite IH]. Qed.

Lemma nth_app_exact {A} (a : list A) x b d : nth (length a) (a ++ x :: b) d = x.
Proof. induction a as [|y a IH]; cbn; auto. Qed.

Lemma lookup_dset_same {V} k (v : V) m : lookup k (dset k v m) = Some v.
Proof.
  induction m as [|[j w] r IH]; cbn.
  - now rewrite Nat.eqb_refl.
  - destruct (Nat.eqb j k) eqn:E; cbn; rewrite E; auto.
Qed.

Lemma lookup_dset_other {V} k j (v : V) m : j <> k -> lookup j (dset k v m) = lookup j m.
Proof.
  intros N. induction m as [|[i w] r IH]; cbn.
  - destruct (Nat.eqb k j) eqn:E; [apply Nat.eqb_eq in E; congruence|reflexivity].
  - destruct (Nat.eqb i k) eqn:E; cbn.
    + apply Nat.eqb_eq in E. subst i. destruct (Nat.eqb k j) eqn:E2; [apply Nat.eqb_eq in E2; congruence|reflexivity].
    + destruct (Nat.eqb i j); auto.
Qed.

Lemma lookup_ddel_same {V} k (m : list (nat * V)) : lookup k (ddel k m) = None.
Proof.
  induction m as [|[j w] r IH]; cbn; [reflexivity|].
  destruct (Nat.eqb j k) eqn:E; cbn; [exact IH|]. now rewrite E.
Qed.

Lemma lookup_ddel_other {V} k j (m : list (nat * V)) : j <> k -> lookup j (ddel k m) = lookup j m.
Proof.
  intros N. induction m as [|[i w] r IH]; cbn; [reflexivity|].
  destruct (Nat.eqb i k) eqn:E; cbn.
  - apply Nat.eqb_eq in E. subst i.
    destruct (Nat.eqb k j) eqn:E2; [apply Nat.eqb_eq in E2; congruence|exact IH].
  - destruct (Nat.eqb i j); auto.
Qed.
