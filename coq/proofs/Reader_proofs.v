(* The stack machine of models/SmtParser.v (get_expr: the model of SmtLibParser.get_expression) against
   a RECURSIVE reading of an s-expression, for all s-expressions of a syntactic fragment, any depth,
   any stack, any state.

   [elab x s] reads the s-expression x by structural recursion on x, performing exactly the state
   operations of the machine (token pops, cache look-ups and literal caching of [atom], the
   constructor call [call] at the closing parenthesis).  [machine_simple] / [machine_let] ... say
   that the machine started on the tokens of x (followed by anything) with an arbitrary stack does
   what [elab] does and goes on with the result pushed on the current frame.  The theorems of C09
   (round trip by induction on the term) and C08 (agreement with core/SmtStd.v's std_eval by
   induction on the s-expression) are then proved about [elab], recursion against recursion. *)
From Coq Require Import List ZArith Bool String Ascii Lia.
From PySMT.core Require Import Syntax SmtStd.
From PySMT.models Require Import TypeChecker Ctors SmtLex SmtParser.
Import ListNotations.
Open Scope string_scope.
Open Scope list_scope.

(* ------------------------------------------------------------------------- states and tokens *)
Definition pop1 (s : pstate) : pstate := pop_tok s (tl (toks s)).

Lemma next_maybe_cons s t r : toks s = t :: r -> next_maybe s = ROk t (pop1 s).
Proof. intros H. unfold next_maybe, pop1. now rewrite H. Qed.
Lemma next_tok_cons s t r : toks s = t :: r -> next_tok s = ROk t (pop1 s).
Proof. intros H. unfold next_tok. now rewrite (next_maybe_cons s t r H). Qed.
Lemma toks_pop1 s t r : toks s = t :: r -> toks (pop1 s) = r.
Proof. intros H. unfold pop1, pop_tok. cbn. now rewrite H. Qed.

(* "the same state up to the consumed tokens": what the cache / symbol-table primitives preserve *)
Definition same_toks (s s' : pstate) : Prop := toks s' = toks s /\ tend s' = tend s /\ srcs s' = srcs s.
Lemma same_toks_refl s : same_toks s s.
Proof. repeat split. Qed.
Lemma same_toks_trans a b c : same_toks a b -> same_toks b c -> same_toks a c.
Proof. intros (A1 & A2 & A3) (B1 & B2 & B3). repeat split; congruence. Qed.

Lemma cache_bind_same k v s : same_toks s (cache_bind k v s).
Proof. repeat split. Qed.
Lemma cache_unbind_same k s u s' : cache_unbind k s = ROk u s' -> same_toks s s'.
Proof.
  unfold cache_unbind. destruct (alookup k (keys s)) as [[|x l]|]; try discriminate.
  intros H. inversion H. repeat split.
Qed.
Lemma unbind_all_same : forall ks s u s', unbind_all ks s = ROk u s' -> same_toks s s'.
Proof.
  induction ks as [|k r IH]; intros s u s' H; cbn in H.
  - inversion H. apply same_toks_refl.
  - destruct (cache_unbind k s) as [u1 s1|e s1] eqn:E; cbn in H; [|discriminate].
    eapply same_toks_trans; [eapply cache_unbind_same; eauto | eapply IH; eauto].
Qed.
Lemma lift_same {A} (r : er A) s a s' : lift r s = ROk a s' -> s' = s.
Proof. destruct r; cbn; intros H; now inversion H. Qed.
Lemma mk_symbol_same n t s v s' : mk_symbol n t s = ROk v s' -> same_toks s s'.
Proof.
  unfold mk_symbol. destruct (alookup n (symtab s)).
  - destruct (ty_eqb t0 t); intros H; inversion H. apply same_toks_refl.
  - destruct (n =? ""); intros H; inversion H. repeat split.
Qed.

Lemma literal_same tk s t s' : literal tk s = ROk t s' -> s' = s.
Proof.
  unfold literal. destruct tk as [|c rest]; [discriminate|].
  destruct (Ascii.eqb c "#").
  - destruct rest as [|k digits]; [discriminate|].
    destruct (Ascii.eqb k "b").
    + destruct (py_int_prefixed 2 digits); [apply lift_same | discriminate].
    + destruct (Ascii.eqb k "x"); [|discriminate].
      destruct (py_int_prefixed 16 digits); [apply lift_same | discriminate].
  - destruct (Ascii.eqb c c_dq); [intros H; now inversion H|].
    destruct (py_fraction (String c rest)) as [f| |]; try discriminate.
    + destruct (snd f =? 1)%Z; [destruct (logic_ia s) as [[|]|]; [destruct (str_mem "." (String c rest)) | | destruct (str_mem "." (String c rest))] |];
        intros H; now inversion H.
    + intros H; now inversion H.
Qed.

Lemma atom_same tk s i s' : atom tk s = ROk i s' -> same_toks s s'.
Proof.
  unfold atom. destruct (cache_get tk s).
  - intros H; inversion H. apply same_toks_refl.
  - destruct (literal tk s) as [t s1|e s1] eqn:E; cbn; [|discriminate].
    intros H; inversion H. apply literal_same in E. subst s1. repeat split.
Qed.

Lemma bind_ok {A B} (r : res A) (f : A -> pstate -> res B) b s' :
  bind r f = ROk b s' -> exists a s1, r = ROk a s1 /\ f a s1 = ROk b s'.
Proof. destruct r as [a s1|e s1]; cbn; [eauto | discriminate]. Qed.

Lemma call_same f args s i s' : call f args s = ROk i s' -> same_toks s s'.
Proof.
  unfold call. intros H.
  destruct f;
    repeat match type of H with
           | context [match ?x with _ => _ end] =>
               let E := fresh "E" in destruct x eqn:E; try discriminate H
           end;
    repeat match type of H with
           | bind _ _ = ROk _ _ =>
               let a := fresh "a" in let s1 := fresh "s1" in let E1 := fresh "E1" in let E2 := fresh "E2" in
               apply bind_ok in H; destruct H as (a & s1 & E1 & H)
           end;
    repeat match goal with
           | E : lift _ _ = ROk _ _ |- _ => apply lift_same in E; subst
           | E : unbind_all _ _ = ROk _ _ |- _ => apply unbind_all_same in E
           | E : mk_symbol _ _ _ = ROk _ _ |- _ => apply mk_symbol_same in E
           end;
    try discriminate H; inversion H; subst;
    first [apply same_toks_refl | assumption | idtac].
Qed.

(* ------------------------------------------------------------------------- K-free scans
   The quantifier handler and the indexed-identifier handler of the machine run a piece of code that
   only consumes tokens and updates the cache / symbol table, and then hand over to the rest of the
   loop.  That piece is restated without the continuation. *)
Fixpoint quant_scan (k : nat) (cur : string) (vrs : list (string * var)) (sb : pstate)
  : res (list (string * var)) :=
  match k with
  | O => RErr EUnmodelled sb
  | S k' =>
      if String.eqb cur ")" then ROk vrs sb
      else if negb (String.eqb cur "(") then RErr ESyntax sb
      else
        do vname , sb1 <- parse_atom sb ;;
        do pt , sb2 <- parse_ty (fuel_of sb1) sb1 ;;
        match pt with
        | PTy t =>
            do v , sb3 <- quantified_var vname t sb2 ;;
            let var := match v with T (OSymbol n ty) _ => (n, ty) | _ => (vname, t) end in
            let sb4 := cache_bind vname (ITerm v) sb3 in
            do _ , sb5 <- consume_closing sb4 ;;
            do c , sb6 <- next_tok sb5 ;;
            quant_scan k' c (vrs ++ [(vname, var)]) sb6
        | _ => RErr EValue sb2
        end
  end.
Definition quant_entry (st1 : pstate) : res (list (string * var)) :=
  do _ , st2 <- consume_opening st1 ;;
  do _ , st3 <- consume_opening st2 ;;
  quant_scan (fuel_of st3) "(" [] st3.

Definition quant_frame (fa : bool) (vrs : list (string * var)) : list item := [IVars vrs; IQuant fa; IExitQuant].

Lemma quant_vars_scan K fa stk : forall k cur vrs sb,
  quant_vars K k fa stk cur vrs sb =
  (do vrs' , sb' <- quant_scan k cur vrs sb ;;
   match push_items [IExitQuant; IQuant fa; IVars vrs'] stk with
   | Some stk' => K stk' sb'
   | None => RErr EOther sb'
   end).
Proof.
  induction k as [|k IH]; intros cur vrs sb; [reflexivity|].
  cbn [quant_vars quant_scan]. destruct (cur =? ")"); [reflexivity|].
  destruct (negb (cur =? "(")); [reflexivity|].
  destruct (parse_atom sb) as [vname sb1|e sb1]; [|reflexivity]. cbn [bind].
  destruct (parse_ty (fuel_of sb1) sb1) as [pt sb2|e sb2]; [|reflexivity]. cbn [bind].
  destruct pt; try reflexivity.
  destruct (quantified_var vname t sb2) as [v sb3|e sb3]; [|reflexivity]. cbn [bind].
  destruct (consume_closing _) as [u sb5|e sb5]; [|reflexivity]. cbn [bind].
  destruct (next_tok sb5) as [c sb6|e sb6]; [|reflexivity]. cbn [bind]. apply IH.
Qed.
Lemma handle_quant_scan K fa stk st1 :
  handle_quant K fa stk st1 =
  (do vrs' , sb' <- quant_entry st1 ;;
   match push_items [IExitQuant; IQuant fa; IVars vrs'] stk with
   | Some stk' => K stk' sb'
   | None => RErr EOther sb'
   end).
Proof.
  unfold handle_quant, quant_entry.
  destruct (consume_opening st1) as [u st2|e st2]; [|reflexivity]. cbn [bind].
  destruct (consume_opening st2) as [u2 st3|e st3]; [|reflexivity]. cbn [bind]. apply quant_vars_scan.
Qed.

(* (_ name idx ..) for the indexed bit-vector functions: the thunk that the handler pushes *)
Definition int_arg1 (st : pstate) (mk : Z -> item) : res item :=
  do a , st' <- parse_atom st ;;
  match py_int a with Some z => ROk (mk z) st' | None => RErr ESyntax st' end.
Definition underscore_item (st1 : pstate) : res item :=
  do op , st2 <- parse_atom st1 ;;
  if String.eqb op "extract" then
    do send , st3 <- parse_atom st2 ;;
    do sstart , st4 <- parse_atom st3 ;;
    match py_int sstart, py_int send with
    | Some a, Some b => ROk (IThunkIdx (FExtract a b)) st4
    | _, _ => RErr ESyntax st4
    end
  else if String.eqb op "zero_extend" then int_arg1 st2 (fun z => IThunkIdx (FZext z))
  else if String.eqb op "repeat" then int_arg1 st2 (fun z => IThunkIdx (FRepeat z))
  else if String.eqb op "rotate_left" then int_arg1 st2 (fun z => IThunkIdx (FRol z))
  else if String.eqb op "rotate_right" then int_arg1 st2 (fun z => IThunkIdx (FRor z))
  else if String.eqb op "sign_extend" then int_arg1 st2 (fun z => IThunkIdx (FSext z))
  else RErr EUnmodelled st2.

Lemma int_arg_item K stk st mk x st' :
  int_arg1 st mk = ROk x st' ->
  int_arg st (fun z st0 => push_then K (mk z) stk st0) = push_then K x stk st'.
Proof.
  unfold int_arg1, int_arg. destruct (parse_atom st) as [a s1|e s1]; cbn [bind]; [|discriminate].
  destruct (py_int a); [|discriminate]. intros H; now inversion H.
Qed.
Lemma handle_underscore_item K stk st1 x st' :
  underscore_item st1 = ROk x st' -> handle_underscore K stk st1 = push_then K x stk st'.
Proof.
  unfold underscore_item, handle_underscore.
  destruct (parse_atom st1) as [op st2|e st2]; cbn [bind]; [|discriminate].
  destruct (op =? "extract").
  - destruct (parse_atom st2) as [send st3|e st3]; cbn [bind]; [|discriminate].
    destruct (parse_atom st3) as [sstart st4|e st4]; cbn [bind]; [|discriminate].
    destruct (py_int sstart); [|discriminate]. destruct (py_int send); [|discriminate].
    intros H; now inversion H.
  - destruct (op =? "zero_extend"); [apply int_arg_item|].
    destruct (op =? "repeat"); [apply int_arg_item|].
    destruct (op =? "rotate_left"); [apply int_arg_item|].
    destruct (op =? "rotate_right"); [apply int_arg_item|].
    destruct (op =? "sign_extend"); [apply int_arg_item|]. discriminate.
Qed.

(* ------------------------------------------------------------------------- the recursive reading *)
Definition is_paren (a : string) : bool := String.eqb a "(" || String.eqb a ")".
(* heads handled as plain applications: an operator of the [interpreted] table, or any other
   token (a declared / defined function name) *)
Definition app_head (h : string) : bool :=
  match alookup h interpreted_table with Some (HOp _) | None => true | _ => false end.
Definition quant_head (h : string) : option bool :=
  match alookup h interpreted_table with Some (HQuant fa) => Some fa | _ => None end.

Fixpoint list_eqs (a b : list string) : bool :=
  match a, b with
  | [], [] => true
  | x :: r, y :: r' => String.eqb x y && list_eqs r r'
  | _, _ => false
  end.
Lemma list_eqs_eq a : forall b, list_eqs a b = true -> a = b.
Proof.
  induction a as [|x r IH]; destruct b as [|y r']; cbn; try discriminate; [reflexivity|].
  intros H%andb_true_iff. destruct H as [H1%String.eqb_eq H2]. subst. f_equal. now apply IH.
Qed.
Lemma list_eqs_refl a : list_eqs a a = true.
Proof. induction a; cbn; [reflexivity | now rewrite String.eqb_refl]. Qed.

(* the fragment: atoms; applications of table operators / function names; quantifiers (binder list
   not inspected: whatever the machine's scan makes of it); applications of an indexed identifier *)
Fixpoint simpleb (x : sexp) : bool :=
  match x with
  | Atom a => negb (is_paren a)
  | SList (Atom h :: rest) =>
      negb (is_paren h) &&
      match quant_head h with
      | Some _ => match rest with [SList _; body] => simpleb body | _ => false end
      | None => app_head h && forallb simpleb rest
      end
  | SList (SList (Atom u :: _) :: args) => String.eqb u "_" && forallb simpleb args
  | SList _ => false
  end.

Definition elab_head (h : string) (s : pstate) : res item :=
  match alookup h interpreted_table with
  | Some (HOp o) => ROk (IOp o) s
  | None => atom h s
  | Some _ => RErr EUnmodelled s
  end.

Section ElabList.
  Variable elab : sexp -> pstate -> res item.
  Fixpoint elab_list_with (l : list sexp) (s : pstate) : res (list item) :=
    match l with
    | [] => ROk [] s
    | y :: r => do i , s1 <- elab y s ;; do r' , s2 <- elab_list_with r s1 ;; ROk (i :: r') s2
    end.
End ElabList.

(* [check_toks before n after]: the scan consumed exactly n tokens (elab is a proof device: this
   test is what ties the token-driven scans to the shape of the s-expression) *)
Definition check_toks (before : pstate) (n : nat) (after : pstate) : bool :=
  list_eqs (toks after) (skipn n (toks before)).

Fixpoint elab (x : sexp) (s : pstate) {struct x} : res item :=
  let fix go (l : list sexp) (st : pstate) {struct l} : res (list item) :=
      match l with
      | [] => ROk [] st
      | y :: r => do i , st1 <- elab y st ;; do r' , st2 <- go r st1 ;; ROk (i :: r') st2
      end in
  match x with
  | Atom a => atom a (pop1 s)
  | SList (Atom h :: rest) =>
      match quant_head h with
      | Some fa =>
          match rest with
          | [SList bs; body] =>
              let s1 := pop1 (pop1 s) in
              do vrs , sb <- quant_entry s1 ;;
              if check_toks s1 (List.length (flatten (SList bs))) sb then
                do b , s2 <- elab body sb ;;
                call IExitQuant [IQuant fa; IVars vrs; b] (pop1 s2)
              else RErr EUnmodelled sb
          | _ => RErr EUnmodelled s
          end
      | None =>
          do hi , s1 <- elab_head h (pop1 (pop1 s)) ;;
          do its , s2 <- go rest s1 ;;
          call hi its (pop1 s2)
      end
  | SList (SList hd :: args) =>
      let s1 := pop1 (pop1 (pop1 s)) in                         (* "(" "(" "_" *)
      do th , s2 <- underscore_item s1 ;;
      if check_toks s1 (List.length (flat_map flatten (tl hd))) s2 then
        do hi , s3 <- call th [] (pop1 s2) ;;                    (* ")" *)
        do its , s4 <- go args s3 ;;
        call hi its (pop1 s4)
      else RErr EUnmodelled s2
  | SList [] => RErr EUnmodelled s
  end.
Definition elab_list := elab_list_with elab.

Lemma elab_go l : forall st,
  (fix go (l : list sexp) (st : pstate) {struct l} : res (list item) :=
     match l with
     | [] => ROk [] st
     | y :: r => do i , st1 <- elab y st ;; do r' , st2 <- go r st1 ;; ROk (i :: r') st2
     end) l st = elab_list l st.
Proof.
  induction l as [|y r IH]; intros st; [reflexivity|]. cbn [elab_list elab_list_with].
  destruct (elab y st); [|reflexivity]. cbn [bind]. rewrite IH. reflexivity.
Qed.

Lemma app_head_not_quant h : app_head h = true -> quant_head h = None.
Proof. unfold app_head, quant_head. destruct (alookup h interpreted_table) as [[]|]; try discriminate; reflexivity. Qed.

Lemma elab_app h args s : app_head h = true ->
  elab (SList (Atom h :: args)) s =
  (do hi , s1 <- elab_head h (pop1 (pop1 s)) ;; do its , s2 <- elab_list args s1 ;; call hi its (pop1 s2)).
Proof.
  intros Hh. cbn [elab]. rewrite (app_head_not_quant h Hh).
  destruct (elab_head h (pop1 (pop1 s))) as [hi s1|e s1]; [|reflexivity]. cbn [bind]. now rewrite elab_go.
Qed.
Lemma elab_quant h fa bs body s : quant_head h = Some fa ->
  elab (SList [Atom h; SList bs; body]) s =
  (let s1 := pop1 (pop1 s) in
   do vrs , sb <- quant_entry s1 ;;
   if check_toks s1 (List.length (flatten (SList bs))) sb then
     do b , s2 <- elab body sb ;; call IExitQuant [IQuant fa; IVars vrs; b] (pop1 s2)
   else RErr EUnmodelled sb).
Proof. intros Hq. cbn [elab]. now rewrite Hq. Qed.
Lemma elab_indexed hd args s :
  elab (SList (SList hd :: args)) s =
  (let s1 := pop1 (pop1 (pop1 s)) in
   do th , s2 <- underscore_item s1 ;;
   if check_toks s1 (List.length (flat_map flatten (tl hd))) s2 then
     do hi , s3 <- call th [] (pop1 s2) ;; do its , s4 <- elab_list args s3 ;; call hi its (pop1 s4)
   else RErr EUnmodelled s2).
Proof.
  cbn [elab]. cbv zeta. destruct (underscore_item _) as [th s2|e s2]; [|reflexivity]. cbn [bind].
  destruct (check_toks _ _ s2); [|reflexivity].
  destruct (call th [] (pop1 s2)) as [hi s3|e s3]; [|reflexivity]. cbn [bind]. now rewrite elab_go.
Qed.

(* number of loop iterations the machine spends on x *)
Fixpoint cost (x : sexp) : nat :=
  match x with
  | Atom _ => 1
  | SList (Atom h :: rest) =>
      match quant_head h with
      | Some _ => match rest with [_; body] => 2 + cost body | _ => 2 end
      | None => 2 + fold_right (fun y n => cost y + n) 0 rest
      end
  | SList (SList _ :: args) => 3 + fold_right (fun y n => cost y + n) 0 args
  | SList [] => 1
  end%nat.
Definition costs (l : list sexp) : nat := fold_right (fun y n => cost y + n)%nat 0%nat l.

Lemma is_paren_false a : is_paren a = false -> String.eqb a "(" = false /\ String.eqb a ")" = false.
Proof. unfold is_paren. now intros H%orb_false_iff. Qed.

(* one loop iteration on an atom *)
Lemma step_atom K a r stk s :
  toks s = a :: r -> is_paren a = false ->
  step K stk s = catch_stop (handle_atom K a stk (pop1 s)).
Proof.
  intros Ht Hp. destruct (is_paren_false a Hp) as [H1 H2].
  unfold step. rewrite (next_maybe_cons s a r Ht). cbn [bind]. now rewrite H1, H2.
Qed.
(* one loop iteration on a closing parenthesis *)
Lemma step_close K r stk s :
  toks s = ")" :: r -> step K stk s = catch_stop (handle_close K stk (pop1 s)).
Proof. intros Ht. unfold step. rewrite (next_maybe_cons s _ _ Ht). reflexivity. Qed.

(* what the machine does after reading x: the continuation on the success of [elab] *)
Definition after (fuel : nat) (stk : stack) (i : item) (s' : pstate) : res (option item) :=
  match stk with
  | [] => ROk (Some i) s'
  | l :: r => get_expr fuel ((i :: l) :: r) s'
  end.

Lemma catch_stop_get_expr fuel stk s : catch_stop (get_expr fuel stk s) = get_expr fuel stk s.
Proof.
  destruct fuel as [|f]; [reflexivity|]. cbn [get_expr]. unfold step.
  destruct (bind _ _) as [v s1|e s1]; [reflexivity|]. destruct e; reflexivity.
Qed.
Lemma catch_stop_after fuel stk i s : catch_stop (after fuel stk i s) = after fuel stk i s.
Proof. destruct stk; [reflexivity | apply catch_stop_get_expr]. Qed.

Lemma fuel_of_S s : exists m, fuel_of s = S m.
Proof. unfold fuel_of. eauto. Qed.
Lemma fuel_of_SS s t r : toks s = t :: r -> exists m, fuel_of s = S (S m).
Proof. intros H. unfold fuel_of. rewrite H. cbn [List.length]. eexists. reflexivity. Qed.

Lemma skipn_app_len {A} (a b : list A) : skipn (List.length a) (a ++ b) = b.
Proof. induction a; cbn; auto. Qed.

(* the closing parenthesis of a frame whose head is [hi] and whose arguments are [its] *)
Lemma close_frame fuel' stk hi its s2 r i s' :
  toks s2 = ")" :: r -> call hi its (pop1 s2) = ROk i s' ->
  get_expr (S fuel') ((rev its ++ [hi]) :: stk) s2 = after fuel' stk i s'.
Proof.
  intros T Ec. cbn [get_expr]. rewrite (step_close _ r _ s2 T).
  unfold handle_close. rewrite rev_app_distr, rev_involutive. cbn [rev app].
  rewrite Ec. cbn [bind]. fold (after fuel' stk i s'). apply catch_stop_after.
Qed.

Definition machine_spec (x : sexp) : Prop :=
  forall fuel' stk s i s' rest,
    elab x s = ROk i s' -> toks s = flatten x ++ rest ->
    get_expr (cost x + fuel') stk s = after fuel' stk i s' /\ toks s' = rest.

Lemma machine_list : forall args, Forall machine_spec args ->
  forall fuel' frame stk s its s' rest,
    elab_list args s = ROk its s' -> toks s = flat_map flatten args ++ rest ->
    get_expr (costs args + fuel') (frame :: stk) s = get_expr fuel' ((rev its ++ frame) :: stk) s' /\
    toks s' = rest.
Proof.
  induction 1 as [|y r Hy _ IH]; intros fuel' frame stk s its s' rest He Ht.
  - cbn in He. inversion He; subst. cbn in *. auto.
  - cbn [elab_list elab_list_with] in He. apply bind_ok in He. destruct He as (i & s1 & E1 & He).
    apply bind_ok in He. destruct He as (r' & s2 & E2 & He). inversion He; subst. clear He.
    cbn [flat_map] in Ht. rewrite <- app_assoc in Ht.
    destruct (Hy (costs r + fuel')%nat (frame :: stk) s i s1 _ E1 Ht) as [G1 T1].
    cbn [costs fold_right]. fold (costs r). rewrite <- Nat.add_assoc, G1. cbn [after].
    destruct (IH fuel' (i :: frame) stk s1 r' s' rest E2 T1) as [G2 T2].
    rewrite G2. split; [|exact T2]. cbn [rev]. now rewrite <- app_assoc.
Qed.

Theorem machine_simple : forall x, simpleb x = true -> machine_spec x.
Proof.
  induction x as [a|l IH] using sexp_ind'; intros Hs fuel' stk s i s' rest He Ht.
  - (* atom *)
    cbn in Hs. apply negb_true_iff in Hs. cbn [elab] in He. cbn [flatten app] in Ht.
    pose proof (atom_same _ _ _ _ He) as (Hs1 & _).
    split; [|now rewrite Hs1, (toks_pop1 s a rest Ht)].
    cbn [cost Nat.add get_expr]. rewrite (step_atom _ a rest stk s Ht Hs).
    unfold handle_atom. rewrite He. cbn [bind]. fold (after fuel' stk i s').
    apply catch_stop_after.
  - destruct l as [|[h|hd] args]; try discriminate Hs.
    + (* head is an atom *)
      cbn [simpleb] in Hs. apply andb_true_iff in Hs. destruct Hs as [Hp Hs]. apply negb_true_iff in Hp.
      destruct (is_paren_false h Hp) as [Hp1 _].
      inversion IH as [|? ? _ IHargs]; subst.
      cbn [flatten flat_map] in Ht. cbn [app] in Ht.
      replace ((h :: flat_map flatten args) ++ [")"]) with (h :: flat_map flatten args ++ [")"]) in Ht by reflexivity.
      cbn [app] in Ht. rewrite <- app_assoc in Ht. cbn [app] in Ht.
      pose proof (toks_pop1 s _ _ Ht) as Ht1.
      pose proof (toks_pop1 (pop1 s) _ _ Ht1) as Ht2.
      destruct (quant_head h) as [fa|] eqn:Hq.
      * (* quantifier *)
        destruct args as [|[?|bs] [|body [|? ?]]]; try discriminate Hs.
        rewrite (elab_quant h fa bs body s Hq) in He. cbv zeta in He.
        apply bind_ok in He. destruct He as (vrs & sb & Eq & He).
        destruct (check_toks (pop1 (pop1 s)) (List.length (flatten (SList bs))) sb) eqn:Hck; [|discriminate].
        apply bind_ok in He. destruct He as (b & s2 & Eb & Ec).
        unfold check_toks in Hck. apply list_eqs_eq in Hck. rewrite Ht2 in Hck.
        cbn [flat_map] in Hck. rewrite <- !app_assoc in Hck. rewrite skipn_app_len in Hck.
        cbn [app] in Hck.
        inversion IHargs as [|? ? _ IHb]; subst. inversion IHb as [|? ? Hbody _]; subst.
        replace (cost (SList [Atom h; SList bs; body]) + fuel')%nat with (S (cost body + S fuel'))%nat
          by (cbn [cost]; rewrite Hq; lia).
        cbn [get_expr]. unfold step at 1. rewrite (next_maybe_cons s _ _ Ht). cbn [bind].
        change ("(" =? "(") with true. cbv iota.
        destruct (fuel_of_S (pop1 s)) as [m ->]. cbn [opens].
        rewrite (next_tok_cons (pop1 s) _ _ Ht1). cbn [bind]. rewrite Hp1.
        unfold handle_head. unfold quant_head in Hq.
        destruct (alookup h interpreted_table) as [[| |fa'| | |]|]; try discriminate Hq. inversion Hq; subst fa'.
        rewrite handle_quant_scan, Eq. cbn [bind push_items push_item].
        rewrite catch_stop_get_expr.
        destruct (Hbody Hs (S fuel') ([IVars vrs; IQuant fa; IExitQuant] :: stk) sb b s2 (")" :: rest) Eb Hck) as [G T].
        rewrite G. cbn [after].
        pose proof (call_same _ _ _ _ _ Ec) as (Hs' & _).
        apply (close_frame fuel' stk IExitQuant [IQuant fa; IVars vrs; b] s2 rest i s') in Ec; [|exact T].
        cbn [rev app] in Ec. split; [exact Ec|]. now rewrite Hs', (toks_pop1 s2 _ _ T).
      * (* application *)
        apply andb_true_iff in Hs. destruct Hs as [Hh Hargs].
        rewrite (elab_app h args s Hh) in He. apply bind_ok in He. destruct He as (hi & s1 & Eh & He).
        apply bind_ok in He. destruct He as (its & s2 & El & Ec).
        assert (Hspec : Forall machine_spec args).
        { rewrite Forall_forall in *. intros y Hy. apply IHargs; [exact Hy|].
          rewrite forallb_forall in Hargs. now apply Hargs. }
        replace (cost (SList (Atom h :: args)) + fuel')%nat with (S (costs args + S fuel'))%nat
          by (cbn [cost]; rewrite Hq; fold (costs args); lia).
        cbn [get_expr]. unfold step at 1. rewrite (next_maybe_cons s _ _ Ht). cbn [bind].
        change ("(" =? "(") with true. cbv iota.
        destruct (fuel_of_S (pop1 s)) as [m ->]. cbn [opens].
        rewrite (next_tok_cons (pop1 s) _ _ Ht1). cbn [bind]. rewrite Hp1.
        assert (Hhead : handle_head (get_expr (costs args + S fuel')) h ([] :: stk) (pop1 (pop1 s)) =
                        get_expr (costs args + S fuel') ([hi] :: stk) s1 /\ toks s1 = flat_map flatten args ++ ")" :: rest).
        { unfold handle_head. unfold elab_head in Eh. unfold app_head in Hh.
          destruct (alookup h interpreted_table) as [[| | | | |o]|]; try discriminate Hh.
          - inversion Eh; subst. split; [reflexivity | exact Ht2].
          - rewrite Eh. cbn [bind]. split; [reflexivity|].
            pose proof (atom_same _ _ _ _ Eh) as (Hs1 & _). now rewrite Hs1. }
        destruct Hhead as [Hhead Ht3]. rewrite Hhead.
        destruct (machine_list args Hspec (S fuel') [hi] stk s1 its s2 (")" :: rest) El Ht3) as [G T].
        rewrite catch_stop_get_expr, G.
        pose proof (call_same _ _ _ _ _ Ec) as (Hs' & _).
        split; [exact (close_frame fuel' stk hi its s2 rest i s' T Ec) | now rewrite Hs', (toks_pop1 s2 _ _ T)].
    + (* head is an indexed identifier ((_ name idx ..) args) *)
      destruct hd as [|[u|?] hd']; try discriminate Hs.
      cbn [simpleb] in Hs. apply andb_true_iff in Hs. destruct Hs as [Hu Hargs]. apply String.eqb_eq in Hu. subst u.
      inversion IH as [|? ? _ IHargs]; subst.
      rewrite elab_indexed in He. cbv zeta in He.
      apply bind_ok in He. destruct He as (th & s2 & Eu & He).
      destruct (check_toks (pop1 (pop1 (pop1 s))) (List.length (flat_map flatten (tl (Atom "_" :: hd')))) s2) eqn:Hck; [|discriminate].
      apply bind_ok in He. destruct He as (hi & s3 & Eth & He).
      apply bind_ok in He. destruct He as (its & s4 & El & Ec).
      assert (Hspec : Forall machine_spec args).
      { rewrite Forall_forall in *. intros y Hy. apply IHargs; [exact Hy|].
        rewrite forallb_forall in Hargs. now apply Hargs. }
      (* tokens *)
      assert (Ht' : toks s = "(" :: "(" :: "_" :: flat_map flatten hd' ++ ")" :: flat_map flatten args ++ ")" :: rest).
      { rewrite Ht. cbn [flatten flat_map app]. repeat (rewrite <- ?app_assoc; cbn [app]). reflexivity. }
      pose proof (toks_pop1 s _ _ Ht') as Ht1.
      pose proof (toks_pop1 (pop1 s) _ _ Ht1) as Ht2.
      pose proof (toks_pop1 (pop1 (pop1 s)) _ _ Ht2) as Ht3.
      unfold check_toks in Hck. apply list_eqs_eq in Hck. rewrite Ht3 in Hck. cbn [tl] in Hck.
      rewrite skipn_app_len in Hck.
      (* fuel *)
      replace (cost (SList (SList (Atom "_" :: hd') :: args)) + fuel')%nat with (S (S (costs args + S fuel')))%nat
        by (cbn [cost]; fold (costs args); lia).
      cbn [get_expr]. unfold step at 1. rewrite (next_maybe_cons s _ _ Ht'). cbn [bind].
      change ("(" =? "(") with true. cbv iota.
      destruct (fuel_of_SS (pop1 s) _ _ Ht1) as [m ->]. cbn [opens].
      rewrite (next_tok_cons (pop1 s) _ _ Ht1). cbn [bind]. change ("(" =? "(") with true. cbv iota.
      rewrite (next_tok_cons (pop1 (pop1 s)) _ _ Ht2). cbn [bind]. change ("_" =? "(") with false. cbv iota.
      unfold handle_head. change (alookup "_" interpreted_table) with (Some HUnderscore).
      rewrite (handle_underscore_item _ _ _ th s2 Eu). unfold push_then. cbn [push_item].
      change (step (get_expr (costs args + S fuel')) ([th] :: [] :: stk) s2)
        with (get_expr (S (costs args + S fuel')) ([th] :: [] :: stk) s2).
      rewrite catch_stop_get_expr.
      (* the closing parenthesis of the indexed identifier *)
      pose proof (close_frame (costs args + S fuel') ([] :: stk) th [] s2 _ hi s3 Hck Eth) as Hcl.
      cbn [rev app] in Hcl. rewrite Hcl. cbn [after].
      pose proof (call_same _ _ _ _ _ Eth) as (Hs3 & _).
      assert (T3 : toks s3 = flat_map flatten args ++ ")" :: rest) by (now rewrite Hs3, (toks_pop1 s2 _ _ Hck)).
      destruct (machine_list args Hspec (S fuel') [hi] stk s3 its s4 (")" :: rest) El T3) as [G T].
      rewrite G.
      pose proof (call_same _ _ _ _ _ Ec) as (Hs' & _).
      split; [exact (close_frame fuel' stk hi its s4 rest i s' T Ec) | now rewrite Hs', (toks_pop1 s4 _ _ T)].
Qed.
