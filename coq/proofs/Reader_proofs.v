(* The stack machine of models/SmtParser.v (get_expr: the model of SmtLibParser.get_expression) against
   a RECURSIVE reading of an s-expression, for all s-expressions of a syntactic fragment, any depth,
   any stack, any state.

   [elab x s] reads the s-expression x by structural recursion on x, performing exactly the state
   operations of the machine (token pops, cache look-ups and literal caching of [atom], the
   constructor call [call] at the closing parenthesis).  [machine_simple] / [machine_let] ... say
   that the machine started on the tokens of x (followed by anything) with an arbitrary stack does
   what [elab] does and goes on with the result pushed on the current frame.  The theorems of C09
   (round trip by induction on the term) and C08 (agreement with core/SmtStd.v's std_eval by
   induction on the s-expression) are then proved about [elab], recursion against recursion. *)
From Coq Require Import List ZArith Bool String Ascii Lia.
From PySMT.core Require Import Syntax SmtStd.
From PySMT.models Require Import TypeChecker Ctors SmtLex SmtParser.
Import ListNotations.
Open Scope string_scope.
Open Scope list_scope.

(* ------------------------------------------------------------------------- states and tokens *)
Definition pop1 (s : pstate) : pstate := pop_tok s (tl (toks s)).

Lemma next_maybe_cons s t r : toks s = t :: r -> next_maybe s = ROk t (pop1 s).
Proof. intros H. unfold next_maybe, pop1. now rewrite H. Qed.
Lemma next_tok_cons s t r : toks s = t :: r -> next_tok s = ROk t (pop1 s).
Proof. intros H. unfold next_tok. now rewrite (next_maybe_cons s t r H). Qed.
Lemma toks_pop1 s t r : toks s = t :: r -> toks (pop1 s) = r.
Proof. intros H. unfold pop1, pop_tok. cbn. now rewrite H. Qed.

(* "the same state up to the consumed tokens": what the cache / symbol-table primitives preserve *)
Definition same_toks (s s' : pstate) : Prop := toks s' = toks s /\ tend s' = tend s /\ srcs s' = srcs s.
Lemma same_toks_refl s : same_toks s s.
Proof. repeat split. Qed.
Lemma same_toks_trans a b c : same_toks a b -> same_toks b c -> same_toks a c.
Proof. intros (A1 & A2 & A3) (B1 & B2 & B3). repeat split; congruence. Qed.

Lemma cache_bind_same k v s : same_toks s (cache_bind k v s).
Proof. repeat split. Qed.
Lemma cache_unbind_same k s u s' : cache_unbind k s = ROk u s' -> same_toks s s'.
Proof.
  unfold cache_unbind. destruct (alookup k (keys s)) as [[|x l]|]; try discriminate.
  intros H. inversion H. repeat split.
Qed.
Lemma unbind_all_same : forall ks s u s', unbind_all ks s = ROk u s' -> same_toks s s'.
Proof.
  induction ks as [|k r IH]; intros s u s' H; cbn in H.
  - inversion H. apply same_toks_refl.
  - destruct (cache_unbind k s) as [u1 s1|e s1] eqn:E; cbn in H; [|discriminate].
    eapply same_toks_trans; [eapply cache_unbind_same; eauto | eapply IH; eauto].
Qed.
Lemma lift_same {A} (r : er A) s a s' : lift r s = ROk a s' -> s' = s.
Proof. destruct r; cbn; intros H; now inversion H. Qed.
Lemma mk_symbol_same n t s v s' : mk_symbol n t s = ROk v s' -> same_toks s s'.
Proof.
  unfold mk_symbol. destruct (alookup n (symtab s)).
  - destruct (ty_eqb t0 t); intros H; inversion H. apply same_toks_refl.
  - destruct (n =? ""); intros H; inversion H. repeat split.
Qed.

Lemma literal_same tk s t s' : literal tk s = ROk t s' -> s' = s.
Proof.
  unfold literal. destruct tk as [|c rest]; [discriminate|].
  destruct (Ascii.eqb c "#").
  - destruct rest as [|k digits]; [discriminate|].
    destruct (Ascii.eqb k "b").
    + destruct (py_int_prefixed 2 digits); [apply lift_same | discriminate].
    + destruct (Ascii.eqb k "x"); [|discriminate].
      destruct (py_int_prefixed 16 digits); [apply lift_same | discriminate].
  - destruct (Ascii.eqb c c_dq); [intros H; now inversion H|].
    destruct (py_fraction (String c rest)) as [f| |]; try discriminate.
    + destruct (snd f =? 1)%Z; [destruct (logic_ia s) as [[|]|]; [destruct (str_mem "." (String c rest)) | | destruct (str_mem "." (String c rest))] |];
        intros H; now inversion H.
    + intros H; now inversion H.
Qed.

Lemma atom_same tk s i s' : atom tk s = ROk i s' -> same_toks s s'.
Proof.
  unfold atom. destruct (cache_get tk s).
  - intros H; inversion H. apply same_toks_refl.
  - destruct (literal tk s) as [t s1|e s1] eqn:E; cbn; [|discriminate].
    intros H; inversion H. apply literal_same in E. subst s1. repeat split.
Qed.

Lemma bind_ok {A B} (r : res A) (f : A -> pstate -> res B) b s' :
  bind r f = ROk b s' -> exists a s1, r = ROk a s1 /\ f a s1 = ROk b s'.
Proof. destruct r as [a s1|e s1]; cbn; [eauto | discriminate]. Qed.

Lemma call_same f args s i s' : call f args s = ROk i s' -> same_toks s s'.
Proof.
  unfold call. intros H.
  destruct f;
    repeat match type of H with
           | context [match ?x with _ => _ end] =>
               let E := fresh "E" in destruct x eqn:E; try discriminate H
           end;
    repeat match type of H with
           | bind _ _ = ROk _ _ =>
               let a := fresh "a" in let s1 := fresh "s1" in let E1 := fresh "E1" in let E2 := fresh "E2" in
               apply bind_ok in H; destruct H as (a & s1 & E1 & H)
           end;
    repeat match goal with
           | E : lift _ _ = ROk _ _ |- _ => apply lift_same in E; subst
           | E : unbind_all _ _ = ROk _ _ |- _ => apply unbind_all_same in E
           | E : mk_symbol _ _ _ = ROk _ _ |- _ => apply mk_symbol_same in E
           end;
    try discriminate H; inversion H; subst;
    first [apply same_toks_refl | assumption | idtac].
Qed.

(* ------------------------------------------------------------------------- the recursive reading *)
Definition is_paren (a : string) : bool := String.eqb a "(" || String.eqb a ")".
(* heads handled as plain applications: an operator of the [interpreted] table, or any other
   token (a declared / defined function name) *)
Definition app_head (h : string) : bool :=
  match alookup h interpreted_table with Some (HOp _) | None => true | _ => false end.

Fixpoint simpleb (x : sexp) : bool :=
  match x with
  | Atom a => negb (is_paren a)
  | SList (Atom h :: args) => negb (is_paren h) && app_head h && forallb simpleb args
  | SList _ => false
  end.

Definition elab_head (h : string) (s : pstate) : res item :=
  match alookup h interpreted_table with
  | Some (HOp o) => ROk (IOp o) s
  | None => atom h s
  | Some _ => RErr EUnmodelled s
  end.

Section ElabList.
  Variable elab : sexp -> pstate -> res item.
  Fixpoint elab_list_with (l : list sexp) (s : pstate) : res (list item) :=
    match l with
    | [] => ROk [] s
    | y :: r => do i , s1 <- elab y s ;; do r' , s2 <- elab_list_with r s1 ;; ROk (i :: r') s2
    end.
End ElabList.

Fixpoint elab (x : sexp) (s : pstate) {struct x} : res item :=
  match x with
  | Atom a => atom a (pop1 s)
  | SList (Atom h :: args) =>
      do hi , s1 <- elab_head h (pop1 (pop1 s)) ;;
      do its , s2 <- (fix go (l : list sexp) (st : pstate) {struct l} : res (list item) :=
                        match l with
                        | [] => ROk [] st
                        | y :: r => do i , st1 <- elab y st ;; do r' , st2 <- go r st1 ;; ROk (i :: r') st2
                        end) args s1 ;;
      call hi its (pop1 s2)
  | SList _ => RErr EUnmodelled s
  end.
Definition elab_list := elab_list_with elab.

Lemma elab_app h args s :
  elab (SList (Atom h :: args)) s =
  (do hi , s1 <- elab_head h (pop1 (pop1 s)) ;; do its , s2 <- elab_list args s1 ;; call hi its (pop1 s2)).
Proof.
  cbn [elab]. destruct (elab_head h (pop1 (pop1 s))) as [hi s1|e s1]; [|reflexivity]. cbn [bind].
  assert (E : forall l st, (fix go (l : list sexp) (st : pstate) {struct l} : res (list item) :=
                        match l with
                        | [] => ROk [] st
                        | y :: r => do i , st1 <- elab y st ;; do r' , st2 <- go r st1 ;; ROk (i :: r') st2
                        end) l st = elab_list l st).
  { induction l as [|y r IH]; intros st; [reflexivity|]. cbn [elab_list elab_list_with].
    destruct (elab y st); [|reflexivity]. cbn [bind]. rewrite IH. reflexivity. }
  now rewrite E.
Qed.

(* number of loop iterations the machine spends on x *)
Fixpoint cost (x : sexp) : nat :=
  match x with
  | Atom _ => 1
  | SList l => 1 + fold_right (fun y n => cost y + n) 0 l
  end%nat.
Definition costs (l : list sexp) : nat := fold_right (fun y n => cost y + n)%nat 0%nat l.

Lemma is_paren_false a : is_paren a = false -> String.eqb a "(" = false /\ String.eqb a ")" = false.
Proof. unfold is_paren. now intros H%orb_false_iff. Qed.

(* one loop iteration on an atom *)
Lemma step_atom K a r stk s :
  toks s = a :: r -> is_paren a = false ->
  step K stk s = catch_stop (handle_atom K a stk (pop1 s)).
Proof.
  intros Ht Hp. destruct (is_paren_false a Hp) as [H1 H2].
  unfold step. rewrite (next_maybe_cons s a r Ht). cbn [bind]. now rewrite H1, H2.
Qed.

Lemma catch_stop_ok {A} (r : res (option A)) v s : r = ROk v s -> catch_stop r = ROk v s.
Proof. now intros ->. Qed.

(* what the machine does after reading x: the continuation on the success of [elab] *)
Definition after (fuel : nat) (stk : stack) (i : item) (s' : pstate) : res (option item) :=
  match stk with
  | [] => ROk (Some i) s'
  | l :: r => get_expr fuel ((i :: l) :: r) s'
  end.

(* the machine never turns a successful continuation into StopIteration handling: catch_stop is
   the identity on the results we follow; for the chaining we need it on whole computations *)
Lemma catch_stop_get_expr fuel stk s : catch_stop (get_expr fuel stk s) = get_expr fuel stk s.
Proof.
  destruct fuel as [|f]; [reflexivity|]. cbn [get_expr]. unfold step.
  destruct (bind _ _) as [v s1|e s1]; [reflexivity|]. destruct e; reflexivity.
Qed.
Lemma catch_stop_after fuel stk i s : catch_stop (after fuel stk i s) = after fuel stk i s.
Proof. destruct stk; [reflexivity | apply catch_stop_get_expr]. Qed.

Lemma fuel_of_S s : exists m, fuel_of s = S m.
Proof. unfold fuel_of. eauto. Qed.

(* the machine on the arguments of an application: each result is pushed on the current frame *)
Definition machine_spec (x : sexp) : Prop :=
  forall fuel' stk s i s' rest,
    elab x s = ROk i s' -> toks s = flatten x ++ rest ->
    get_expr (cost x + fuel') stk s = after fuel' stk i s' /\ toks s' = rest.

Lemma machine_list : forall args, Forall machine_spec args ->
  forall fuel' frame stk s its s' rest,
    elab_list args s = ROk its s' -> toks s = flat_map flatten args ++ rest ->
    get_expr (costs args + fuel') (frame :: stk) s = get_expr fuel' ((rev its ++ frame) :: stk) s' /\
    toks s' = rest.
Proof.
  induction 1 as [|y r Hy _ IH]; intros fuel' frame stk s its s' rest He Ht.
  - cbn in He. inversion He; subst. cbn in *. auto.
  - cbn [elab_list elab_list_with] in He. apply bind_ok in He. destruct He as (i & s1 & E1 & He).
    apply bind_ok in He. destruct He as (r' & s2 & E2 & He). inversion He; subst. clear He.
    cbn [flat_map] in Ht. rewrite <- app_assoc in Ht.
    destruct (Hy (costs r + fuel')%nat (frame :: stk) s i s1 _ E1 Ht) as [G1 T1].
    cbn [costs fold_right]. fold (costs r). rewrite <- Nat.add_assoc, G1. cbn [after].
    destruct (IH fuel' (i :: frame) stk s1 r' s' rest E2 T1) as [G2 T2].
    rewrite G2. split; [|exact T2]. cbn [rev]. now rewrite <- app_assoc.
Qed.

Theorem machine_simple : forall x, simpleb x = true -> machine_spec x.
Proof.
  induction x as [a|l IH] using sexp_ind'; intros Hs fuel' stk s i s' rest He Ht.
  - (* atom *)
    cbn in Hs. apply negb_true_iff in Hs. cbn [elab] in He. cbn [flatten app] in Ht.
    pose proof (atom_same _ _ _ _ He) as (Hs1 & _).
    split; [|now rewrite Hs1, (toks_pop1 s a rest Ht)].
    cbn [cost Nat.add get_expr]. rewrite (step_atom _ a rest stk s Ht Hs).
    unfold handle_atom. rewrite He. cbn [bind]. fold (after fuel' stk i s').
    apply catch_stop_after.
  - (* application *)
    destruct l as [|[h|?] args]; try discriminate Hs.
    cbn [simpleb] in Hs. apply andb_true_iff in Hs. destruct Hs as [Hs Hargs].
    apply andb_true_iff in Hs. destruct Hs as [Hp Hh]. apply negb_true_iff in Hp.
    destruct (is_paren_false h Hp) as [Hp1 _].
    rewrite elab_app in He. apply bind_ok in He. destruct He as (hi & s1 & Eh & He).
    apply bind_ok in He. destruct He as (its & s2 & El & Ec).
    inversion IH as [|? ? _ IHargs]; subst.
    assert (Hspec : Forall machine_spec args).
    { rewrite Forall_forall in *. intros y Hy. apply IHargs; [exact Hy|].
      rewrite forallb_forall in Hargs. now apply Hargs. }
    (* tokens *)
    cbn [flatten flat_map] in Ht. cbn [app] in Ht.
    replace ((h :: flat_map flatten args) ++ [")"]) with (h :: flat_map flatten args ++ [")"]) in Ht by reflexivity.
    cbn [app] in Ht. rewrite <- app_assoc in Ht. cbn [app] in Ht.
    pose proof (toks_pop1 s _ _ Ht) as Ht1.
    pose proof (toks_pop1 (pop1 s) _ _ Ht1) as Ht2.
    (* fuel *)
    replace (cost (SList (Atom h :: args)) + fuel')%nat with (S (costs args + S fuel'))%nat
      by (cbn [cost fold_right]; fold (costs args); lia).
    cbn [get_expr]. unfold step at 1. rewrite (next_maybe_cons s _ _ Ht). cbn [bind].
    change ("(" =? "(") with true. cbv iota.
    destruct (fuel_of_S (pop1 s)) as [m ->]. cbn [opens].
    rewrite (next_tok_cons (pop1 s) _ _ Ht1). cbn [bind]. rewrite Hp1.
    (* the head *)
    assert (Hhead : handle_head (get_expr (costs args + S fuel')) h ([] :: stk) (pop1 (pop1 s)) =
                    get_expr (costs args + S fuel') ([hi] :: stk) s1 /\ toks s1 = flat_map flatten args ++ ")" :: rest).
    { unfold handle_head. unfold elab_head in Eh. unfold app_head in Hh.
      destruct (alookup h interpreted_table) as [[| | | | |o]|]; try discriminate Hh.
      - inversion Eh; subst. split; [reflexivity | exact Ht2].
      - rewrite Eh. cbn [bind]. split; [reflexivity|].
        pose proof (atom_same _ _ _ _ Eh) as (Hs1 & _). now rewrite Hs1. }
    destruct Hhead as [Hhead Ht3]. rewrite Hhead.
    (* the arguments *)
    destruct (machine_list args Hspec (S fuel') [hi] stk s1 its s2 (")" :: rest) El Ht3) as [G T].
    rewrite catch_stop_get_expr, G.
    (* the closing parenthesis *)
    cbn [get_expr]. unfold step. rewrite (next_maybe_cons s2 _ _ T). cbn [bind].
    change (")" =? "(") with false. change (")" =? ")") with true. cbv iota.
    unfold handle_close. rewrite rev_app_distr, rev_involutive. cbn [rev app].
    rewrite Ec. cbn [bind]. fold (after fuel' stk i s').
    pose proof (call_same _ _ _ _ _ Ec) as (Hs' & _).
    split; [apply catch_stop_after | now rewrite Hs', (toks_pop1 s2 _ _ T)].
Qed.
