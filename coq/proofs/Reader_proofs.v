(* The stack machine of models/SmtParser.v (get_expr: the model of SmtLibParser.get_expression) against
   a RECURSIVE reading of an s-expression, for all s-expressions of a syntactic fragment, any depth,
   any stack, any state.

   [elab x s] reads the s-expression x by structural recursion on x, performing exactly the state
   operations of the machine (token pops, cache look-ups and literal caching of [atom], the
   constructor call [call] at the closing parenthesis).  [machine_simple] / [machine_let] ... say
   that the machine started on the tokens of x (followed by anything) with an arbitrary stack does
   what [elab] does and goes on with the result pushed on the current frame.  The theorems of C09
   (round trip by induction on the term) and C08 (agreement with core/SmtStd.v's std_eval by
   induction on the s-expression) are then proved about [elab], recursion against recursion. *)
From Coq Require Import List ZArith Bool String Ascii Lia.
From PySMT.core Require Import Syntax SmtStd.
From PySMT.models Require Import TypeChecker Ctors SmtLex SmtParser.
Import ListNotations.
Open Scope string_scope.
Open Scope list_scope.

(* ------------------------------------------------------------------------- states and tokens *)
Definition pop1 (s : pstate) : pstate := pop_tok s (tl (toks s)).

Lemma next_maybe_cons s t r : toks s = t :: r -> next_maybe s = ROk t (pop1 s).
Proof. intros H. unfold next_maybe, pop1. now rewrite H. Qed.
Lemma next_tok_cons s t r : toks s = t :: r -> next_tok s = ROk t (pop1 s).
Proof. intros H. unfold next_tok. now rewrite (next_maybe_cons s t r H). Qed.
Lemma toks_pop1 s t r : toks s = t :: r -> toks (pop1 s) = r.
Proof. intros H. unfold pop1, pop_tok. cbn. now rewrite H. Qed.

(* "the same state up to the consumed tokens": what the cache / symbol-table primitives preserve *)
Definition same_toks (s s' : pstate) : Prop := toks s' = toks s /\ tend s' = tend s /\ srcs s' = srcs s.
Lemma same_toks_refl s : same_toks s s.
Proof. repeat split. Qed.
Lemma same_toks_trans a b c : same_toks a b -> same_toks b c -> same_toks a c.
Proof. intros (A1 & A2 & A3) (B1 & B2 & B3). repeat split; congruence. Qed.

Lemma cache_bind_same k v s : same_toks s (cache_bind k v s).
Proof. repeat split. Qed.
Lemma cache_unbind_same k s u s' : cache_unbind k s = ROk u s' -> same_toks s s'.
Proof.
  unfold cache_unbind. destruct (alookup k (keys s)) as [[|x l]|]; try discriminate.
  intros H. inversion H. repeat split.
Qed.
Lemma unbind_all_same : forall ks s u s', unbind_all ks s = ROk u s' -> same_toks s s'.
Proof.
  induction ks as [|k r IH]; intros s u s' H; cbn in H.
  - inversion H. apply same_toks_refl.
  - destruct (cache_unbind k s) as [u1 s1|e s1] eqn:E; cbn in H; [|discriminate].
    eapply same_toks_trans; [eapply cache_unbind_same; eauto | eapply IH; eauto].
Qed.
Lemma lift_same {A} (r : er A) s a s' : lift r s = ROk a s' -> s' = s.
Proof. destruct r; cbn; intros H; now inversion H. Qed.
Lemma mk_symbol_same n t s v s' : mk_symbol n t s = ROk v s' -> same_toks s s'.
Proof.
  unfold mk_symbol. destruct (alookup n (symtab s)).
  - destruct (ty_eqb t0 t); intros H; inversion H. apply same_toks_refl.
  - destruct (n =? ""); intros H; inversion H. repeat split.
Qed.

Lemma literal_same tk s t s' : literal tk s = ROk t s' -> s' = s.
Proof.
  unfold literal. destruct tk as [|c rest]; [discriminate|].
  destruct (Ascii.eqb c "#").
  - destruct rest as [|k digits]; [discriminate|].
    destruct (Ascii.eqb k "b").
    + destruct (py_int_prefixed 2 digits); [apply lift_same | discriminate].
    + destruct (Ascii.eqb k "x"); [|discriminate].
      destruct (py_int_prefixed 16 digits); [apply lift_same | discriminate].
  - destruct (Ascii.eqb c c_dq); [intros H; now inversion H|].
    destruct (py_fraction (String c rest)) as [f| |]; try discriminate.
    + destruct (snd f =? 1)%Z; [destruct (logic_ia s) as [[|]|]; [destruct (str_mem "." (String c rest)) | | destruct (str_mem "." (String c rest))] |];
        intros H; now inversion H.
    + intros H; now inversion H.
Qed.

Lemma atom_same tk s i s' : atom tk s = ROk i s' -> same_toks s s'.
Proof.
  unfold atom. destruct (cache_get tk s).
  - intros H; inversion H. apply same_toks_refl.
  - destruct (literal tk s) as [t s1|e s1] eqn:E; cbn; [|discriminate].
    intros H; inversion H. apply literal_same in E. subst s1. repeat split.
Qed.

Lemma bind_ok {A B} (r : res A) (f : A -> pstate -> res B) b s' :
  bind r f = ROk b s' -> exists a s1, r = ROk a s1 /\ f a s1 = ROk b s'.
Proof. destruct r as [a s1|e s1]; cbn; [eauto | discriminate]. Qed.

Lemma call_same f args s i s' : call f args s = ROk i s' -> same_toks s s'.
Proof.
  unfold call. intros H.
  destruct f;
    repeat match type of H with
           | context [match ?x with _ => _ end] =>
               let E := fresh "E" in destruct x eqn:E; try discriminate H
           end;
    repeat match type of H with
           | bind _ _ = ROk _ _ =>
               let a := fresh "a" in let s1 := fresh "s1" in let E1 := fresh "E1" in let E2 := fresh "E2" in
               apply bind_ok in H; destruct H as (a & s1 & E1 & H)
           end;
    repeat match goal with
           | E : lift _ _ = ROk _ _ |- _ => apply lift_same in E; subst
           | E : unbind_all _ _ = ROk _ _ |- _ => apply unbind_all_same in E
           | E : mk_symbol _ _ _ = ROk _ _ |- _ => apply mk_symbol_same in E
           end;
    try discriminate H; inversion H; subst;
    first [apply same_toks_refl | assumption | idtac].
Qed.

(* ------------------------------------------------------------------------- K-free scans
   The quantifier handler and the indexed-identifier handler of the machine run a piece of code that
   only consumes tokens and updates the cache / symbol table, and then hand over to the rest of the
   loop.  That piece is restated without the continuation. *)
Fixpoint quant_scan (k : nat) (cur : string) (vrs : list (string * var)) (sb : pstate)
  : res (list (string * var)) :=
  match k with
  | O => RErr EUnmodelled sb
  | S k' =>
      if String.eqb cur ")" then ROk vrs sb
      else if negb (String.eqb cur "(") then RErr ESyntax sb
      else
        do vname , sb1 <- parse_atom sb ;;
        do pt , sb2 <- parse_ty (fuel_of sb1) sb1 ;;
        match pt with
        | PTy t =>
            do v , sb3 <- quantified_var vname t sb2 ;;
            let var := match v with T (OSymbol n ty) _ => (n, ty) | _ => (vname, t) end in
            let sb4 := cache_bind vname (ITerm v) sb3 in
            do _ , sb5 <- consume_closing sb4 ;;
            do c , sb6 <- next_tok sb5 ;;
            quant_scan k' c (vrs ++ [(vname, var)]) sb6
        | _ => RErr EValue sb2
        end
  end.
Definition quant_entry (st1 : pstate) : res (list (string * var)) :=
  do _ , st2 <- consume_opening st1 ;;
  do _ , st3 <- consume_opening st2 ;;
  quant_scan (fuel_of st3) "(" [] st3.

Definition quant_frame (fa : bool) (vrs : list (string * var)) : list item := [IVars vrs; IQuant fa; IExitQuant].

Lemma quant_vars_scan K fa stk : forall k cur vrs sb,
  quant_vars K k fa stk cur vrs sb =
  (do vrs' , sb' <- quant_scan k cur vrs sb ;;
   match push_items [IExitQuant; IQuant fa; IVars vrs'] stk with
   | Some stk' => K stk' sb'
   | None => RErr EOther sb'
   end).
Proof.
  induction k as [|k IH]; intros cur vrs sb; [reflexivity|].
  cbn [quant_vars quant_scan]. destruct (cur =? ")"); [reflexivity|].
  destruct (negb (cur =? "(")); [reflexivity|].
  destruct (parse_atom sb) as [vname sb1|e sb1]; [|reflexivity]. cbn [bind].
  destruct (parse_ty (fuel_of sb1) sb1) as [pt sb2|e sb2]; [|reflexivity]. cbn [bind].
  destruct pt; try reflexivity.
  destruct (quantified_var vname t sb2) as [v sb3|e sb3]; [|reflexivity]. cbn [bind].
  destruct (consume_closing _) as [u sb5|e sb5]; [|reflexivity]. cbn [bind].
  destruct (next_tok sb5) as [c sb6|e sb6]; [|reflexivity]. cbn [bind]. apply IH.
Qed.
Lemma handle_quant_scan K fa stk st1 :
  handle_quant K fa stk st1 =
  (do vrs' , sb' <- quant_entry st1 ;;
   match push_items [IExitQuant; IQuant fa; IVars vrs'] stk with
   | Some stk' => K stk' sb'
   | None => RErr EOther sb'
   end).
Proof.
  unfold handle_quant, quant_entry.
  destruct (consume_opening st1) as [u st2|e st2]; [|reflexivity]. cbn [bind].
  destruct (consume_opening st2) as [u2 st3|e st3]; [|reflexivity]. cbn [bind]. apply quant_vars_scan.
Qed.

(* (_ name idx ..) for the indexed bit-vector functions: the thunk that the handler pushes *)
Definition int_arg1 (st : pstate) (mk : Z -> item) : res item :=
  do a , st' <- parse_atom st ;;
  match py_int a with Some z => ROk (mk z) st' | None => RErr ESyntax st' end.
Definition underscore_item (st1 : pstate) : res item :=
  do op , st2 <- parse_atom st1 ;;
  if String.eqb op "extract" then
    do send , st3 <- parse_atom st2 ;;
    do sstart , st4 <- parse_atom st3 ;;
    match py_int sstart, py_int send with
    | Some a, Some b => ROk (IThunkIdx (FExtract a b)) st4
    | _, _ => RErr ESyntax st4
    end
  else if String.eqb op "zero_extend" then int_arg1 st2 (fun z => IThunkIdx (FZext z))
  else if String.eqb op "repeat" then int_arg1 st2 (fun z => IThunkIdx (FRepeat z))
  else if String.eqb op "rotate_left" then int_arg1 st2 (fun z => IThunkIdx (FRol z))
  else if String.eqb op "rotate_right" then int_arg1 st2 (fun z => IThunkIdx (FRor z))
  else if String.eqb op "sign_extend" then int_arg1 st2 (fun z => IThunkIdx (FSext z))
  else RErr EUnmodelled st2.

Lemma int_arg_item K stk st mk x st' :
  int_arg1 st mk = ROk x st' ->
  int_arg st (fun z st0 => push_then K (mk z) stk st0) = push_then K x stk st'.
Proof.
  unfold int_arg1, int_arg. destruct (parse_atom st) as [a s1|e s1]; cbn [bind]; [|discriminate].
  destruct (py_int a); [|discriminate]. intros H; now inversion H.
Qed.
Lemma handle_underscore_item K stk st1 x st' :
  underscore_item st1 = ROk x st' -> handle_underscore K stk st1 = push_then K x stk st'.
Proof.
  unfold underscore_item, handle_underscore.
  destruct (parse_atom st1) as [op st2|e st2]; cbn [bind]; [|discriminate].
  destruct (op =? "extract").
  - destruct (parse_atom st2) as [send st3|e st3]; cbn [bind]; [|discriminate].
    destruct (parse_atom st3) as [sstart st4|e st4]; cbn [bind]; [|discriminate].
    destruct (py_int sstart); [|discriminate]. destruct (py_int send); [|discriminate].
    intros H; now inversion H.
  - destruct (op =? "zero_extend"); [apply int_arg_item|].
    destruct (op =? "repeat"); [apply int_arg_item|].
    destruct (op =? "rotate_left"); [apply int_arg_item|].
    destruct (op =? "rotate_right"); [apply int_arg_item|].
    destruct (op =? "sign_extend"); [apply int_arg_item|]. discriminate.
Qed.

(* ------------------------------------------------------------------------- the recursive reading *)
Definition is_paren (a : string) : bool := String.eqb a "(" || String.eqb a ")".
(* heads handled as plain applications: an operator of the [interpreted] table, or any other
   token (a declared / defined function name) *)
Definition app_head (h : string) : bool :=
  match alookup h interpreted_table with Some (HOp _) | None => true | _ => false end.
Definition quant_head (h : string) : option bool :=
  match alookup h interpreted_table with Some (HQuant fa) => Some fa | _ => None end.
Definition let_head (h : string) : bool :=
  match alookup h interpreted_table with Some HLet => true | _ => false end.

Fixpoint list_eqs (a b : list string) : bool :=
  match a, b with
  | [], [] => true
  | x :: r, y :: r' => String.eqb x y && list_eqs r r'
  | _, _ => false
  end.
Lemma list_eqs_eq a : forall b, list_eqs a b = true -> a = b.
Proof.
  induction a as [|x r IH]; destruct b as [|y r']; cbn; try discriminate; [reflexivity|].
  intros H%andb_true_iff. destruct H as [H1%String.eqb_eq H2]. subst. f_equal. now apply IH.
Qed.
Lemma list_eqs_refl a : list_eqs a a = true.
Proof. induction a; cbn; [reflexivity | now rewrite String.eqb_refl]. Qed.

(* one binding (v val) of a let: the name is a plain token, the value is in the fragment *)
Definition binding_with (f : sexp -> bool) (b : sexp) : bool :=
  match b with
  | SList [Atom v; val] => negb (is_paren v) && f val
  | _ => false
  end.

(* the fragment: atoms; applications of table operators / function names; quantifiers (binder list
   not inspected: whatever the machine's scan makes of it); applications of an indexed identifier;
   let with at least one binding *)
Fixpoint simpleb (x : sexp) : bool :=
  match x with
  | Atom a => negb (is_paren a)
  | SList (Atom h :: rest) =>
      negb (is_paren h) &&
      if let_head h then
        match rest with
        | [SList (b0 :: bs); body] =>
            forallb (fun b => match b with
                              | SList [Atom v; val] => negb (is_paren v) && simpleb val
                              | _ => false
                              end) (b0 :: bs) && simpleb body
        | _ => false
        end
      else
      match quant_head h with
      | Some _ => match rest with [SList _; body] => simpleb body | _ => false end
      | None => app_head h && forallb simpleb rest
      end
  | SList (SList (Atom u :: _) :: args) => String.eqb u "_" && forallb simpleb args
  | SList _ => false
  end.

Definition elab_head (h : string) (s : pstate) : res item :=
  match alookup h interpreted_table with
  | Some (HOp o) => ROk (IOp o) s
  | None => atom h s
  | Some _ => RErr EUnmodelled s
  end.

(* the early binding of the let extension: the name is new in this let and means nothing outside *)
Definition let_early (v : string) (vals : list (string * item)) (sb2 : pstate) : bool :=
  negb (str_in v (map fst vals)) && match cache_get v sb2 with None => true | Some _ => false end.

Section ElabList.
  Variable elab : sexp -> pstate -> res item.
  Fixpoint elab_list_with (l : list sexp) (s : pstate) : res (list item) :=
    match l with
    | [] => ROk [] s
    | y :: r => do i , s1 <- elab y s ;; do r' , s2 <- elab_list_with r s1 ;; ROk (i :: r') s2
    end.
  (* the bindings of a let; [st] has the tokens of the remaining bindings and the closing
     parenthesis of the binding list in front *)
  Fixpoint elab_bindings_with (bs : list sexp) (vals : list (string * item)) (early : list string)
                              (st : pstate) {struct bs} : res (list string) :=
    match bs with
    | [] => do _ , st1 <- let_finish vals early (pop1 st) ;; ROk (map fst vals) st1
    | SList [Atom v; val] :: r =>
        do e , sb2 <- elab val (pop1 (pop1 st)) ;;                       (* "(" v *)
        let is_early := let_early v vals sb2 in
        let sb3 := if is_early then cache_bind v e sb2 else sb2 in
        elab_bindings_with r (aset v e vals) (if is_early then v :: early else early) (pop1 sb3)   (* ")" *)
    | _ => RErr EUnmodelled st
    end.
End ElabList.

(* [check_toks before n after]: the scan consumed exactly n tokens (elab is a proof device: this
   test is what ties the token-driven scans to the shape of the s-expression) *)
Definition check_toks (before : pstate) (n : nat) (after : pstate) : bool :=
  list_eqs (toks after) (skipn n (toks before)).

Fixpoint elab (x : sexp) (s : pstate) {struct x} : res item :=
  let fix go (l : list sexp) (st : pstate) {struct l} : res (list item) :=
      match l with
      | [] => ROk [] st
      | y :: r => do i , st1 <- elab y st ;; do r' , st2 <- go r st1 ;; ROk (i :: r') st2
      end in
  let fix gol (bs : list sexp) (vals : list (string * item)) (early : list string)
              (st : pstate) {struct bs} : res (list string) :=
      match bs with
      | [] => do _ , st1 <- let_finish vals early (pop1 st) ;; ROk (map fst vals) st1
      | SList [Atom v; val] :: r =>
          do e , sb2 <- elab val (pop1 (pop1 st)) ;;
          let is_early := let_early v vals sb2 in
          let sb3 := if is_early then cache_bind v e sb2 else sb2 in
          gol r (aset v e vals) (if is_early then v :: early else early) (pop1 sb3)
      | _ => RErr EUnmodelled st
      end in
  match x with
  | Atom a => atom a (pop1 s)
  | SList (Atom h :: rest) =>
      if let_head h then
        match rest with
        | [SList bs; body] =>
            match bs with
            | [] => RErr EUnmodelled s
            | _ :: _ =>
                do names , sb <- gol bs [] [] (pop1 (pop1 (pop1 s))) ;;     (* "(" "let" "(" *)
                do b , s2 <- elab body sb ;;
                call IExitLet [IKeys names; b] (pop1 s2)
            end
        | _ => RErr EUnmodelled s
        end
      else
      match quant_head h with
      | Some fa =>
          match rest with
          | [SList bs; body] =>
              let s1 := pop1 (pop1 s) in
              do vrs , sb <- quant_entry s1 ;;
              if check_toks s1 (List.length (flatten (SList bs))) sb then
                do b , s2 <- elab body sb ;;
                call IExitQuant [IQuant fa; IVars vrs; b] (pop1 s2)
              else RErr EUnmodelled sb
          | _ => RErr EUnmodelled s
          end
      | None =>
          do hi , s1 <- elab_head h (pop1 (pop1 s)) ;;
          do its , s2 <- go rest s1 ;;
          call hi its (pop1 s2)
      end
  | SList (SList hd :: args) =>
      let s1 := pop1 (pop1 (pop1 s)) in                         (* "(" "(" "_" *)
      do th , s2 <- underscore_item s1 ;;
      if check_toks s1 (List.length (flat_map flatten (tl hd))) s2 then
        do hi , s3 <- call th [] (pop1 s2) ;;                    (* ")" *)
        do its , s4 <- go args s3 ;;
        call hi its (pop1 s4)
      else RErr EUnmodelled s2
  | SList [] => RErr EUnmodelled s
  end.
Definition elab_list := elab_list_with elab.
Definition elab_bindings := elab_bindings_with elab.

Lemma elab_go l : forall st,
  (fix go (l : list sexp) (st : pstate) {struct l} : res (list item) :=
     match l with
     | [] => ROk [] st
     | y :: r => do i , st1 <- elab y st ;; do r' , st2 <- go r st1 ;; ROk (i :: r') st2
     end) l st = elab_list l st.
Proof.
  induction l as [|y r IH]; intros st; [reflexivity|]. cbn [elab_list elab_list_with].
  destruct (elab y st); [|reflexivity]. cbn [bind]. rewrite IH. reflexivity.
Qed.

Lemma elab_gol bs : forall vals early st,
  (fix gol (bs : list sexp) (vals : list (string * item)) (early : list string)
           (st : pstate) {struct bs} : res (list string) :=
     match bs with
     | [] => do _ , st1 <- let_finish vals early (pop1 st) ;; ROk (map fst vals) st1
     | SList [Atom v; val] :: r =>
         do e , sb2 <- elab val (pop1 (pop1 st)) ;;
         let is_early := let_early v vals sb2 in
         let sb3 := if is_early then cache_bind v e sb2 else sb2 in
         gol r (aset v e vals) (if is_early then v :: early else early) (pop1 sb3)
     | _ => RErr EUnmodelled st
     end) bs vals early st = elab_bindings bs vals early st.
Proof.
  induction bs as [|b r IH]; intros vals early st; [reflexivity|].
  cbn [elab_bindings elab_bindings_with].
  destruct b as [a|[|[v|l1] [|val [|y l2]]]]; try reflexivity.
Qed.

Lemma app_head_not_quant h : app_head h = true -> quant_head h = None.
Proof. unfold app_head, quant_head. destruct (alookup h interpreted_table) as [[]|]; try discriminate; reflexivity. Qed.
Lemma app_head_not_let h : app_head h = true -> let_head h = false.
Proof. unfold app_head, let_head. destruct (alookup h interpreted_table) as [[]|]; try discriminate; reflexivity. Qed.
Lemma quant_head_not_let h fa : quant_head h = Some fa -> let_head h = false.
Proof. unfold quant_head, let_head. destruct (alookup h interpreted_table) as [[]|]; try discriminate; reflexivity. Qed.

Lemma elab_app h args s : app_head h = true ->
  elab (SList (Atom h :: args)) s =
  (do hi , s1 <- elab_head h (pop1 (pop1 s)) ;; do its , s2 <- elab_list args s1 ;; call hi its (pop1 s2)).
Proof.
  intros Hh. cbn [elab]. rewrite (app_head_not_let h Hh), (app_head_not_quant h Hh).
  destruct (elab_head h (pop1 (pop1 s))) as [hi s1|e s1]; [|reflexivity]. cbn [bind]. now rewrite elab_go.
Qed.
Lemma elab_quant h fa bs body s : quant_head h = Some fa ->
  elab (SList [Atom h; SList bs; body]) s =
  (let s1 := pop1 (pop1 s) in
   do vrs , sb <- quant_entry s1 ;;
   if check_toks s1 (List.length (flatten (SList bs))) sb then
     do b , s2 <- elab body sb ;; call IExitQuant [IQuant fa; IVars vrs; b] (pop1 s2)
   else RErr EUnmodelled sb).
Proof. intros Hq. cbn [elab]. now rewrite (quant_head_not_let h fa Hq), Hq. Qed.
Lemma elab_indexed hd args s :
  elab (SList (SList hd :: args)) s =
  (let s1 := pop1 (pop1 (pop1 s)) in
   do th , s2 <- underscore_item s1 ;;
   if check_toks s1 (List.length (flat_map flatten (tl hd))) s2 then
     do hi , s3 <- call th [] (pop1 s2) ;; do its , s4 <- elab_list args s3 ;; call hi its (pop1 s4)
   else RErr EUnmodelled s2).
Proof.
  cbn [elab]. cbv zeta. destruct (underscore_item _) as [th s2|e s2]; [|reflexivity]. cbn [bind].
  destruct (check_toks _ _ s2); [|reflexivity].
  destruct (call th [] (pop1 s2)) as [hi s3|e s3]; [|reflexivity]. cbn [bind]. now rewrite elab_go.
Qed.
Lemma elab_let h b0 bs body s : let_head h = true ->
  elab (SList [Atom h; SList (b0 :: bs); body]) s =
  (do names , sb <- elab_bindings (b0 :: bs) [] [] (pop1 (pop1 (pop1 s))) ;;
   do b , s2 <- elab body sb ;;
   call IExitLet [IKeys names; b] (pop1 s2)).
Proof. intros Hl. cbn [elab]. rewrite Hl. reflexivity. Qed.

(* number of loop iterations the machine spends on x; a let spends the iterations of its body in
   the loop that entered it, and those of the bound terms in nested calls of the same depth *)
Fixpoint cost (x : sexp) : nat :=
  match x with
  | Atom _ => 1
  | SList (Atom h :: rest) =>
      if let_head h then
        match rest with
        | [SList bs; body] =>
            2 + (fold_right (fun b n => match b with SList [_; val] => cost val + n | _ => n end) 0 bs + cost body)
        | _ => 2
        end
      else
      match quant_head h with
      | Some _ => match rest with [_; body] => 2 + cost body | _ => 2 end
      | None => 2 + fold_right (fun y n => cost y + n) 0 rest
      end
  | SList (SList _ :: args) => 3 + fold_right (fun y n => cost y + n) 0 args
  | SList [] => 1
  end%nat.
Definition costs (l : list sexp) : nat := fold_right (fun y n => cost y + n)%nat 0%nat l.
Definition bcosts (bs : list sexp) : nat :=
  fold_right (fun b n => match b with SList [_; val] => cost val + n | _ => n end)%nat 0%nat bs.

Lemma cost_app h args : app_head h = true -> cost (SList (Atom h :: args)) = S (S (costs args)).
Proof. intros Hh. cbn [cost]. now rewrite (app_head_not_let h Hh), (app_head_not_quant h Hh). Qed.
Lemma cost_quant h fa bs body : quant_head h = Some fa -> cost (SList [Atom h; bs; body]) = S (S (cost body)).
Proof. intros Hq. cbn [cost]. now rewrite (quant_head_not_let h fa Hq), Hq. Qed.
Lemma cost_let h bs body : let_head h = true ->
  cost (SList [Atom h; SList bs; body]) = S (S (bcosts bs + cost body)).
Proof. intros Hl. cbn [cost]. now rewrite Hl. Qed.
Lemma cost_indexed hd args : cost (SList (SList hd :: args)) = S (S (S (costs args))).
Proof. reflexivity. Qed.

Lemma is_paren_false a : is_paren a = false -> String.eqb a "(" = false /\ String.eqb a ")" = false.
Proof. unfold is_paren. now intros H%orb_false_iff. Qed.

(* one loop iteration on an atom *)
Lemma step_atom K a r stk s :
  toks s = a :: r -> is_paren a = false ->
  step K stk s = catch_stop (handle_atom K a stk (pop1 s)).
Proof.
  intros Ht Hp. destruct (is_paren_false a Hp) as [H1 H2].
  unfold step. rewrite (next_maybe_cons s a r Ht). cbn [bind]. now rewrite H1, H2.
Qed.
(* one loop iteration on a closing parenthesis *)
Lemma step_close K r stk s :
  toks s = ")" :: r -> step K stk s = catch_stop (handle_close K stk (pop1 s)).
Proof. intros Ht. unfold step. rewrite (next_maybe_cons s _ _ Ht). reflexivity. Qed.

(* what the machine does after reading x: the continuation on the success of [elab] *)
Definition after (fuel : nat) (stk : stack) (i : item) (s' : pstate) : res (option item) :=
  match stk with
  | [] => ROk (Some i) s'
  | l :: r => get_expr fuel ((i :: l) :: r) s'
  end.

Lemma catch_stop_get_expr fuel stk s : catch_stop (get_expr fuel stk s) = get_expr fuel stk s.
Proof.
  destruct fuel as [|f]; [reflexivity|]. cbn [get_expr]. unfold step.
  destruct (bind _ _) as [v s1|e s1]; [reflexivity|]. destruct e; reflexivity.
Qed.
Lemma catch_stop_after fuel stk i s : catch_stop (after fuel stk i s) = after fuel stk i s.
Proof. destruct stk; [reflexivity | apply catch_stop_get_expr]. Qed.

Lemma fuel_of_S s : exists m, fuel_of s = S m.
Proof. unfold fuel_of. eauto. Qed.
Lemma fuel_of_SS s t r : toks s = t :: r -> exists m, fuel_of s = S (S m).
Proof. intros H. unfold fuel_of. rewrite H. cbn [List.length]. eexists. reflexivity. Qed.
Lemma fuel_of_gt s : (List.length (toks s) < fuel_of s)%nat.
Proof. unfold fuel_of. lia. Qed.

Lemma skipn_app_len {A} (a b : list A) : skipn (List.length a) (a ++ b) = b.
Proof. induction a; cbn; auto. Qed.

(* the closing parenthesis of a frame whose head is [hi] and whose arguments are [its] *)
Lemma close_frame fuel' stk hi its s2 r i s' :
  toks s2 = ")" :: r -> call hi its (pop1 s2) = ROk i s' ->
  get_expr (S fuel') ((rev its ++ [hi]) :: stk) s2 = after fuel' stk i s'.
Proof.
  intros T Ec. cbn [get_expr]. rewrite (step_close _ r _ s2 T).
  unfold handle_close. rewrite rev_app_distr, rev_involutive. cbn [rev app].
  rewrite Ec. cbn [bind]. fold (after fuel' stk i s'). apply catch_stop_after.
Qed.

(* The machine on the tokens of x, with [cost x] iterations and [fuel'] more, does what [elab] does
   and goes on with the result on the current frame.  It goes on with AT LEAST fuel' iterations:
   the iterations that a let reserves for the nested calls reading its bound terms are still there
   when the let is closed (e is their number). *)
Definition machine_spec (x : sexp) : Prop :=
  forall fuel' stk s i s' rest,
    elab x s = ROk i s' -> toks s = flatten x ++ rest ->
    exists e, get_expr (cost x + fuel') stk s = after (fuel' + e) stk i s' /\ toks s' = rest.

Lemma machine_list : forall args, Forall machine_spec args ->
  forall fuel' frame stk s its s' rest,
    elab_list args s = ROk its s' -> toks s = flat_map flatten args ++ rest ->
    exists e,
      get_expr (costs args + fuel') (frame :: stk) s = get_expr (fuel' + e) ((rev its ++ frame) :: stk) s' /\
      toks s' = rest.
Proof.
  induction 1 as [|y r Hy _ IH]; intros fuel' frame stk s its s' rest He Ht.
  - cbn in He. inversion He; subst. cbn in *. exists 0%nat. now rewrite Nat.add_0_r.
  - cbn [elab_list elab_list_with] in He. apply bind_ok in He. destruct He as (i & s1 & E1 & He).
    apply bind_ok in He. destruct He as (r' & s2 & E2 & He). inversion He; subst. clear He.
    cbn [flat_map] in Ht. rewrite <- app_assoc in Ht.
    destruct (Hy (costs r + fuel')%nat (frame :: stk) s i s1 _ E1 Ht) as (e1 & G1 & T1).
    cbn [costs fold_right]. fold (costs r). rewrite <- Nat.add_assoc, G1. cbn [after].
    destruct (IH (fuel' + e1)%nat (i :: frame) stk s1 r' s' rest E2 T1) as (e2 & G2 & T2).
    exists (e1 + e2)%nat.
    replace (costs r + fuel' + e1)%nat with (costs r + (fuel' + e1))%nat by lia.
    rewrite G2. split; [|exact T2]. cbn [rev]. rewrite <- app_assoc. cbn [app].
    now replace (fuel' + e1 + e2)%nat with (fuel' + (e1 + e2))%nat by lia.
Qed.

(* ------------------------------------------------------------------------- the cases *)
Lemma machine_atom a : is_paren a = false -> machine_spec (Atom a).
Proof.
  intros Hs fuel' stk s i s' rest He Ht. exists 0%nat. rewrite Nat.add_0_r.
  cbn [elab] in He. cbn [flatten app] in Ht.
  pose proof (atom_same _ _ _ _ He) as (Hs1 & _).
  split; [|now rewrite Hs1, (toks_pop1 s a rest Ht)].
  cbn [cost Nat.add get_expr]. rewrite (step_atom _ a rest stk s Ht Hs).
  unfold handle_atom. rewrite He. cbn [bind]. fold (after fuel' stk i s').
  apply catch_stop_after.
Qed.

Lemma toks_head h l rest : flatten (SList (Atom h :: l)) ++ rest = "(" :: h :: flat_map flatten l ++ ")" :: rest.
Proof. cbn [flatten flat_map app]. rewrite <- app_assoc. reflexivity. Qed.

Lemma machine_app h args : is_paren h = false -> app_head h = true ->
  Forall machine_spec args -> machine_spec (SList (Atom h :: args)).
Proof.
  intros Hp Hh Hspec fuel' stk s i s' rest He Ht.
  destruct (is_paren_false h Hp) as [Hp1 _].
  rewrite toks_head in Ht.
  pose proof (toks_pop1 s _ _ Ht) as Ht1.
  pose proof (toks_pop1 (pop1 s) _ _ Ht1) as Ht2.
  rewrite (elab_app h args s Hh) in He. apply bind_ok in He. destruct He as (hi & s1 & Eh & He).
  apply bind_ok in He. destruct He as (its & s2 & El & Ec).
  rewrite (cost_app h args Hh).
  replace (S (S (costs args)) + fuel')%nat with (S (costs args + S fuel'))%nat by lia.
  cbn [get_expr]. unfold step at 1. rewrite (next_maybe_cons s _ _ Ht). cbn [bind].
  change ("(" =? "(") with true. cbv iota.
  destruct (fuel_of_S (pop1 s)) as [m ->]. cbn [opens].
  rewrite (next_tok_cons (pop1 s) _ _ Ht1). cbn [bind]. rewrite Hp1.
  assert (Hhead : handle_head (get_expr (costs args + S fuel')) h ([] :: stk) (pop1 (pop1 s)) =
                  get_expr (costs args + S fuel') ([hi] :: stk) s1 /\ toks s1 = flat_map flatten args ++ ")" :: rest).
  { unfold handle_head. unfold elab_head in Eh. unfold app_head in Hh.
    destruct (alookup h interpreted_table) as [[| | | | |o]|]; try discriminate Hh.
    - inversion Eh; subst. split; [reflexivity | exact Ht2].
    - rewrite Eh. cbn [bind]. split; [reflexivity|].
      pose proof (atom_same _ _ _ _ Eh) as (Hs1 & _). now rewrite Hs1. }
  destruct Hhead as [Hhead Ht3]. rewrite Hhead.
  destruct (machine_list args Hspec (S fuel') [hi] stk s1 its s2 (")" :: rest) El Ht3) as (e & G & T).
  rewrite catch_stop_get_expr, G. exists e.
  pose proof (call_same _ _ _ _ _ Ec) as (Hs' & _).
  split; [exact (close_frame (fuel' + e) stk hi its s2 rest i s' T Ec) | now rewrite Hs', (toks_pop1 s2 _ _ T)].
Qed.

Lemma machine_quant h fa bs body : is_paren h = false -> quant_head h = Some fa ->
  machine_spec body -> machine_spec (SList [Atom h; SList bs; body]).
Proof.
  intros Hp Hq Hbody fuel' stk s i s' rest He Ht.
  destruct (is_paren_false h Hp) as [Hp1 _].
  rewrite toks_head in Ht.
  pose proof (toks_pop1 s _ _ Ht) as Ht1.
  pose proof (toks_pop1 (pop1 s) _ _ Ht1) as Ht2.
  rewrite (elab_quant h fa bs body s Hq) in He. cbv zeta in He.
  apply bind_ok in He. destruct He as (vrs & sb & Eq & He).
  destruct (check_toks (pop1 (pop1 s)) (List.length (flatten (SList bs))) sb) eqn:Hck; [|discriminate].
  apply bind_ok in He. destruct He as (b & s2 & Eb & Ec).
  unfold check_toks in Hck. apply list_eqs_eq in Hck. rewrite Ht2 in Hck.
  cbn [flat_map] in Hck. rewrite <- !app_assoc in Hck. rewrite skipn_app_len in Hck.
  cbn [app] in Hck.
  rewrite (cost_quant h fa (SList bs) body Hq).
  replace (S (S (cost body)) + fuel')%nat with (S (cost body + S fuel'))%nat by lia.
  cbn [get_expr]. unfold step at 1. rewrite (next_maybe_cons s _ _ Ht). cbn [bind].
  change ("(" =? "(") with true. cbv iota.
  destruct (fuel_of_S (pop1 s)) as [m ->]. cbn [opens].
  rewrite (next_tok_cons (pop1 s) _ _ Ht1). cbn [bind]. rewrite Hp1.
  unfold handle_head. unfold quant_head in Hq.
  destruct (alookup h interpreted_table) as [[| |fa'| | |]|]; try discriminate Hq. inversion Hq; subst fa'.
  rewrite handle_quant_scan, Eq. cbn [bind push_items push_item].
  rewrite catch_stop_get_expr.
  destruct (Hbody (S fuel') ([IVars vrs; IQuant fa; IExitQuant] :: stk) sb b s2 (")" :: rest) Eb Hck) as (e & G & T).
  rewrite G. cbn [after Nat.add]. exists e.
  pose proof (call_same _ _ _ _ _ Ec) as (Hs' & _).
  apply (close_frame (fuel' + e) stk IExitQuant [IQuant fa; IVars vrs; b] s2 rest i s') in Ec; [|exact T].
  cbn [rev app] in Ec. split; [exact Ec|]. now rewrite Hs', (toks_pop1 s2 _ _ T).
Qed.

Lemma machine_indexed hd' args :
  Forall machine_spec args -> machine_spec (SList (SList (Atom "_" :: hd') :: args)).
Proof.
  intros Hspec fuel' stk s i s' rest He Ht.
  rewrite elab_indexed in He. cbv zeta in He.
  apply bind_ok in He. destruct He as (th & s2 & Eu & He).
  destruct (check_toks (pop1 (pop1 (pop1 s))) (List.length (flat_map flatten (tl (Atom "_" :: hd')))) s2) eqn:Hck; [|discriminate].
  apply bind_ok in He. destruct He as (hi & s3 & Eth & He).
  apply bind_ok in He. destruct He as (its & s4 & El & Ec).
  (* tokens *)
  assert (Ht' : toks s = "(" :: "(" :: "_" :: flat_map flatten hd' ++ ")" :: flat_map flatten args ++ ")" :: rest).
  { rewrite Ht. cbn [flatten flat_map app]. repeat (rewrite <- ?app_assoc; cbn [app]). reflexivity. }
  pose proof (toks_pop1 s _ _ Ht') as Ht1.
  pose proof (toks_pop1 (pop1 s) _ _ Ht1) as Ht2.
  pose proof (toks_pop1 (pop1 (pop1 s)) _ _ Ht2) as Ht3.
  unfold check_toks in Hck. apply list_eqs_eq in Hck. rewrite Ht3 in Hck. cbn [tl] in Hck.
  rewrite skipn_app_len in Hck.
  (* fuel *)
  rewrite cost_indexed.
  replace (S (S (S (costs args))) + fuel')%nat with (S (S (costs args + S fuel')))%nat by lia.
  cbn [get_expr]. unfold step at 1. rewrite (next_maybe_cons s _ _ Ht'). cbn [bind].
  change ("(" =? "(") with true. cbv iota.
  destruct (fuel_of_SS (pop1 s) _ _ Ht1) as [m ->]. cbn [opens].
  rewrite (next_tok_cons (pop1 s) _ _ Ht1). cbn [bind]. change ("(" =? "(") with true. cbv iota.
  rewrite (next_tok_cons (pop1 (pop1 s)) _ _ Ht2). cbn [bind]. change ("_" =? "(") with false. cbv iota.
  unfold handle_head. change (alookup "_" interpreted_table) with (Some HUnderscore).
  rewrite (handle_underscore_item _ _ _ th s2 Eu). unfold push_then. cbn [push_item].
  change (step (get_expr (costs args + S fuel')) ([th] :: [] :: stk) s2)
    with (get_expr (S (costs args + S fuel')) ([th] :: [] :: stk) s2).
  rewrite catch_stop_get_expr.
  (* the closing parenthesis of the indexed identifier *)
  pose proof (close_frame (costs args + S fuel') ([] :: stk) th [] s2 _ hi s3 Hck Eth) as Hcl.
  cbn [rev app] in Hcl. rewrite Hcl. cbn [after].
  pose proof (call_same _ _ _ _ _ Eth) as (Hs3 & _).
  assert (T3 : toks s3 = flat_map flatten args ++ ")" :: rest) by (now rewrite Hs3, (toks_pop1 s2 _ _ Hck)).
  destruct (machine_list args Hspec (S fuel') [hi] stk s3 its s4 (")" :: rest) El T3) as (e & G & T).
  rewrite G. exists e.
  pose proof (call_same _ _ _ _ _ Ec) as (Hs' & _).
  split; [exact (close_frame (fuel' + e) stk hi its s4 rest i s' T Ec) | now rewrite Hs', (toks_pop1 s4 _ _ T)].
Qed.

(* ------------------------------------------------------------------------- let *)
Lemma let_finish_same : forall vals early s u s', let_finish vals early s = ROk u s' -> same_toks s s'.
Proof.
  induction vals as [|[v e] r IH]; intros early s u s' H; cbn [let_finish] in H.
  - inversion H. apply same_toks_refl.
  - apply bind_ok in H. destruct H as (u1 & s1 & E1 & H).
    assert (S1 : same_toks s s1).
    { destruct (str_in v early); [eapply cache_unbind_same; eauto | inversion E1; apply same_toks_refl]. }
    eapply same_toks_trans; [exact S1|]. eapply same_toks_trans; [apply (cache_bind_same v e)|]. eapply IH; eauto.
Qed.

(* a binding (v val) whose value the machine reads as [elab] does *)
Definition binding_spec (b : sexp) : Prop :=
  match b with
  | SList [Atom v; val] => is_paren v = false /\ machine_spec val
  | _ => False
  end.

Lemma app_cons_nonempty {A} (l : list A) x r : exists c t, l ++ x :: r = c :: t.
Proof. destruct l; cbn; eauto. Qed.
Lemma length_flat_map_flatten bs : (List.length bs <= List.length (flat_map flatten bs))%nat.
Proof.
  induction bs as [|b r IH]; [cbn; lia|]. cbn [flat_map List.length]. rewrite app_length.
  assert (1 <= List.length (flatten b))%nat by (destruct b; cbn; lia). lia.
Qed.

(* the loop of _enter_let over the bindings bs: every bound term is read by a nested call of the
   machine with the iterations f of the loop that entered the let (enough for each of them), then
   the loop goes on, with the SAME f, behind the binding list *)
Lemma let_bindings_elab f stk : forall bs, Forall binding_spec bs ->
  forall k vals early st names sb rest,
    elab_bindings bs vals early st = ROk names sb ->
    toks st = flat_map flatten bs ++ ")" :: rest ->
    (bcosts bs <= f)%nat -> (List.length bs < k)%nat ->
    let_bindings (get_expr f) k stk (hd "" (toks st)) vals early (pop1 st) =
      match push_items [IExitLet; IKeys names] stk with
      | Some stk' => get_expr f stk' sb
      | None => RErr EOther sb
      end
    /\ toks sb = rest.
Proof.
  induction 1 as [|b r Hb _ IH]; intros k vals early st names sb rest He Ht Hf Hk.
  - cbn [flat_map app] in Ht. rewrite Ht. cbn [hd].
    destruct k as [|k]; [cbn in Hk; lia|]. cbn [let_bindings]. change (")" =? ")") with true. cbv iota.
    cbn [elab_bindings elab_bindings_with] in He. apply bind_ok in He. destruct He as (u & st1 & Ef & He).
    inversion He; subst. clear He. rewrite Ef. cbn [bind]. split; [reflexivity|].
    pose proof (let_finish_same _ _ _ _ _ Ef) as (Hs1 & _). now rewrite Hs1, (toks_pop1 st _ _ Ht).
  - destruct b as [a|[|[v|l1] [|val [|y l2]]]]; try contradiction. destruct Hb as [Hv Hval].
    destruct (is_paren_false v Hv) as [Hv1 Hv2].
    assert (Ht' : toks st = "(" :: v :: flatten val ++ ")" :: flat_map flatten r ++ ")" :: rest).
    { rewrite Ht. cbn [flat_map flatten app]. repeat (rewrite <- ?app_assoc; cbn [app]). reflexivity. }
    rewrite Ht'. cbn [hd].
    pose proof (toks_pop1 st _ _ Ht') as Ht1.
    pose proof (toks_pop1 (pop1 st) _ _ Ht1) as Ht2.
    destruct k as [|k]; [cbn in Hk; lia|]. cbn [let_bindings].
    change ("(" =? ")") with false. change ("(" =? "(") with true. cbn [negb]. cbv iota.
    unfold parse_atom at 1. rewrite (next_tok_cons (pop1 st) _ _ Ht1). cbn [bind]. rewrite Hv1, Hv2. cbn [orb]. cbv iota. cbn [bind].
    cbn [elab_bindings elab_bindings_with] in He. apply bind_ok in He. destruct He as (e & sb2 & Ev & He). cbv zeta in He.
    fold (elab_bindings r) in He.
    (* the nested call *)
    assert (Hfv : (cost val <= f)%nat) by (cbn [bcosts fold_right] in Hf; lia).
    destruct (Hval (f - cost val)%nat [] (pop1 (pop1 st)) e sb2 _ Ev Ht2) as (e0 & G & T).
    replace (cost val + (f - cost val))%nat with f in G by lia. cbn [after] in G.
    rewrite G. unfold not_none at 1. cbn [bind].
    fold (let_early v vals sb2).
    (* the closing parenthesis of the binding and the next token *)
    set (sb3 := if let_early v vals sb2 then cache_bind v e sb2 else sb2) in *.
    assert (T3 : toks sb3 = ")" :: flat_map flatten r ++ ")" :: rest).
    { unfold sb3. destruct (let_early v vals sb2); [|exact T]. exact T. }
    unfold consume_closing at 1. rewrite (next_tok_cons sb3 _ _ T3). cbn [bind]. change (")" =? ")") with true. cbv iota. cbn [bind].
    pose proof (toks_pop1 sb3 _ _ T3) as T4.
    destruct (app_cons_nonempty (flat_map flatten r) ")" rest) as (c & tl' & Hc).
    rewrite Hc in T4. rewrite (next_tok_cons (pop1 sb3) _ _ T4). cbn [bind].
    assert (Hf' : (bcosts r <= f)%nat) by (cbn [bcosts fold_right] in Hf; fold (bcosts r) in Hf; lia).
    assert (Hk' : (List.length r < k)%nat) by (cbn [List.length] in Hk; lia).
    rewrite <- Hc in T4.
    destruct (IH k (aset v e vals) (if let_early v vals sb2 then v :: early else early) (pop1 sb3) names sb rest He T4 Hf' Hk')
      as [G2 T5].
    rewrite T4, Hc in G2. cbn [hd] in G2. split; [exact G2 | exact T5].
Qed.

Lemma machine_let h b0 bs body : is_paren h = false -> let_head h = true ->
  Forall binding_spec (b0 :: bs) -> machine_spec body ->
  machine_spec (SList [Atom h; SList (b0 :: bs); body]).
Proof.
  intros Hp Hl Hbs Hbody fuel' stk s i s' rest He Ht.
  destruct (is_paren_false h Hp) as [Hp1 _].
  set (bl := b0 :: bs) in *.
  assert (Ht' : toks s = "(" :: h :: "(" :: flat_map flatten bl ++ ")" :: flatten body ++ ")" :: rest).
  { rewrite Ht. cbn [flatten flat_map app]. repeat (rewrite <- ?app_assoc; cbn [app]). reflexivity. }
  pose proof (toks_pop1 s _ _ Ht') as Ht1.
  pose proof (toks_pop1 (pop1 s) _ _ Ht1) as Ht2.
  pose proof (toks_pop1 (pop1 (pop1 s)) _ _ Ht2) as Ht3.
  unfold bl in He. rewrite (elab_let h b0 bs body s Hl) in He. fold bl in He.
  apply bind_ok in He. destruct He as (names & sb & Eb & He).
  apply bind_ok in He. destruct He as (b & s2 & Ebody & Ec).
  rewrite (cost_let h bl body Hl).
  set (f := (bcosts bl + (cost body + S fuel'))%nat).
  replace (S (S (bcosts bl + cost body)) + fuel')%nat with (S f) by (unfold f; lia).
  cbn [get_expr]. unfold step at 1. rewrite (next_maybe_cons s _ _ Ht'). cbn [bind].
  change ("(" =? "(") with true. cbv iota.
  destruct (fuel_of_S (pop1 s)) as [m ->]. cbn [opens].
  rewrite (next_tok_cons (pop1 s) _ _ Ht1). cbn [bind]. rewrite Hp1.
  unfold handle_head. unfold let_head in Hl.
  destruct (alookup h interpreted_table) as [[| | | | |]|]; try discriminate Hl.
  unfold handle_let.
  unfold consume_opening at 1. rewrite (next_maybe_cons (pop1 (pop1 s)) _ _ Ht2). cbn [bind].
  change ("(" =? "(") with true. cbv iota. cbn [bind].
  (* the first binding opens *)
  assert (Hopen : exists t, toks (pop1 (pop1 (pop1 s))) = "(" :: t).
  { rewrite Ht3. unfold bl. inversion Hbs as [|? ? Hb0 _]; subst.
    destruct b0 as [a|l0]; [contradiction|]. cbn [flat_map flatten app]. eauto. }
  destruct Hopen as (t0 & Hopen).
  unfold consume_opening at 1. rewrite (next_maybe_cons _ _ _ Hopen). cbn [bind].
  change ("(" =? "(") with true. cbv iota. cbn [bind].
  assert (Hk : (List.length bl < fuel_of (pop1 (pop1 (pop1 (pop1 s)))))%nat).
  { pose proof (fuel_of_gt (pop1 (pop1 (pop1 (pop1 s))))) as Hg.
    rewrite (toks_pop1 _ _ _ Hopen) in Hg.
    assert (Hlen : List.length (toks (pop1 (pop1 (pop1 s)))) = S (List.length t0)) by (now rewrite Hopen).
    rewrite Ht3, app_length in Hlen. cbn [List.length] in Hlen.
    pose proof (length_flat_map_flatten bl). lia. }
  assert (Hf : (bcosts bl <= f)%nat) by (unfold f; lia).
  destruct (let_bindings_elab f ([] :: stk) bl Hbs _ [] [] (pop1 (pop1 (pop1 s))) names sb _ Eb Ht3 Hf Hk) as [G T].
  rewrite Hopen in G. cbn [hd] in G. rewrite G. cbn [push_items push_item].
  rewrite catch_stop_get_expr.
  (* the body and the closing parenthesis *)
  unfold f.
  replace (bcosts bl + (cost body + S fuel'))%nat with (cost body + S (fuel' + bcosts bl))%nat by lia.
  destruct (Hbody (S (fuel' + bcosts bl)) ([IKeys names; IExitLet] :: stk) sb b s2 (")" :: rest) Ebody T) as (e & G2 & T2).
  rewrite G2. cbn [after Nat.add]. exists (bcosts bl + e)%nat.
  pose proof (call_same _ _ _ _ _ Ec) as (Hs' & _).
  apply (close_frame (fuel' + bcosts bl + e) stk IExitLet [IKeys names; b] s2 rest i s') in Ec; [|exact T2].
  cbn [rev app] in Ec. split; [|now rewrite Hs', (toks_pop1 s2 _ _ T2)].
  now replace (fuel' + (bcosts bl + e))%nat with (fuel' + bcosts bl + e)%nat by lia.
Qed.

(* ------------------------------------------------------------------------- the fragment
   by induction on the size of the s-expression: the bound terms of a let are not direct
   components of the let *)
Fixpoint ssize (x : sexp) : nat :=
  match x with
  | Atom _ => 1
  | SList l => S (fold_right (fun y n => ssize y + n) 0 l)
  end%nat.
Lemma ssize_in y l : In y l -> (ssize y <= fold_right (fun y n => ssize y + n) 0 l)%nat.
Proof.
  induction l as [|z r IH]; [contradiction|]. intros [->|H]; cbn [fold_right]; [lia|]. specialize (IH H). lia.
Qed.

Lemma machine_simple_size : forall n x, (ssize x <= n)%nat -> simpleb x = true -> machine_spec x.
Proof.
  induction n as [|n IHn]; intros x Hn Hs.
  { destruct x; cbn in Hn; lia. }
  destruct x as [a|l].
  - apply machine_atom. cbn in Hs. now apply negb_true_iff in Hs.
  - assert (Hsub : forall y, In y l -> simpleb y = true -> machine_spec y).
    { intros y Hy. apply IHn. pose proof (ssize_in y l Hy). cbn [ssize] in Hn. lia. }
    destruct l as [|[h|hd] args]; try discriminate Hs.
    + cbn [simpleb] in Hs. apply andb_true_iff in Hs. destruct Hs as [Hp Hs]. apply negb_true_iff in Hp.
      destruct (let_head h) eqn:Hl.
      * (* let *)
        destruct args as [|[?|[|b0 bs]] [|body [|? ?]]]; try discriminate Hs.
        apply andb_true_iff in Hs. destruct Hs as [Hbs Hbody].
        apply machine_let; [exact Hp | exact Hl | | apply Hsub; [cbn; auto | exact Hbody]].
        apply Forall_forall. intros bd Hin. rewrite forallb_forall in Hbs. specialize (Hbs bd Hin).
        destruct bd as [a|[|[v|l1] [|val [|y l2]]]]; try discriminate Hbs.
        apply andb_true_iff in Hbs. destruct Hbs as [Hv Hval]. apply negb_true_iff in Hv.
        split; [exact Hv|]. apply IHn; [|exact Hval].
        pose proof (ssize_in _ _ Hin) as Hsz. cbn [ssize fold_right] in Hsz, Hn. lia.
      * destruct (quant_head h) as [fa|] eqn:Hq.
        -- destruct args as [|[?|bs] [|body [|? ?]]]; try discriminate Hs.
           apply (machine_quant h fa bs body Hp Hq). apply Hsub; [cbn; auto | exact Hs].
        -- apply andb_true_iff in Hs. destruct Hs as [Hh Hargs].
           apply (machine_app h args Hp Hh). apply Forall_forall. intros y Hy.
           apply Hsub; [now right|]. rewrite forallb_forall in Hargs. now apply Hargs.
    + destruct hd as [|[u|?] hd']; try discriminate Hs.
      cbn [simpleb] in Hs. apply andb_true_iff in Hs. destruct Hs as [Hu Hargs]. apply String.eqb_eq in Hu. subst u.
      apply machine_indexed. apply Forall_forall. intros y Hy.
      apply Hsub; [now right|]. rewrite forallb_forall in Hargs. now apply Hargs.
Qed.

(* the iterations never exceed the tokens *)
Lemma costs_le l : Forall (fun x => (cost x <= List.length (flatten x))%nat) l ->
  (costs l <= List.length (flat_map flatten l))%nat.
Proof.
  induction 1 as [|y r Hy _ IHr]; [cbn; lia|]. cbn [costs fold_right flat_map]. fold (costs r).
  rewrite app_length. lia.
Qed.
Lemma bcosts_le bs :
  (forall v val, In (SList [v; val]) bs -> (cost val <= List.length (flatten val))%nat) ->
  (bcosts bs <= List.length (flat_map flatten bs))%nat.
Proof.
  induction bs as [|b r IH]; intros H; [cbn; lia|].
  assert (Hr : (bcosts r <= List.length (flat_map flatten r))%nat) by (apply IH; intros v val Hin; apply (H v); now right).
  cbn [bcosts fold_right flat_map]. fold (bcosts r). rewrite app_length.
  destruct b as [a|[|v [|val [|y l2]]]]; try lia.
  pose proof (H v val (or_introl eq_refl)) as Hv.
  cbn [flatten flat_map List.length]. rewrite !app_length. cbn [List.length]. lia.
Qed.
Lemma cost_le_size : forall n x, (ssize x <= n)%nat -> (cost x <= List.length (flatten x))%nat.
Proof.
  induction n as [|n IHn]; intros x Hn.
  { destruct x; cbn in Hn; lia. }
  destruct x as [a|l]; [cbn; lia|].
  assert (Hsub : forall y, In y l -> (cost y <= List.length (flatten y))%nat).
  { intros y Hy. apply IHn. pose proof (ssize_in y l Hy). cbn [ssize] in Hn. lia. }
  destruct l as [|[h|hd] rest].
  - cbn. lia.
  - assert (Hc : (costs rest <= List.length (flat_map flatten rest))%nat).
    { apply costs_le, Forall_forall. intros y Hy. apply Hsub. now right. }
    cbn [cost flatten flat_map List.length]. rewrite !app_length. cbn [List.length].
    destruct (let_head h).
    + destruct rest as [|[?|bs] [|body [|? ?]]]; try lia.
      assert (Hb : (bcosts bs <= List.length (flat_map flatten bs))%nat).
      { apply bcosts_le. intros v val Hin. apply IHn.
        pose proof (ssize_in _ _ Hin) as Hsz. cbn [ssize fold_right] in Hsz, Hn. lia. }
      assert (Hbody : (cost body <= List.length (flatten body))%nat) by (apply Hsub; cbn; auto).
      fold (bcosts bs). cbn [flat_map flatten]. rewrite !app_length. cbn [List.length]. rewrite !app_length. cbn [List.length]. lia.
    + destruct (quant_head h).
      * destruct rest as [|b0 [|body [|? ?]]]; try lia.
        assert (Hbody : (cost body <= List.length (flatten body))%nat) by (apply Hsub; cbn; auto).
        cbn [flat_map]. rewrite !app_length. cbn [List.length]. lia.
      * fold (costs rest). lia.
  - assert (Hc : (costs rest <= List.length (flat_map flatten rest))%nat).
    { apply costs_le, Forall_forall. intros y Hy. apply Hsub. now right. }
    cbn [cost]. fold (costs rest). cbn [flatten flat_map List.length]. rewrite !app_length.
    cbn [List.length]. fold (flat_map flatten hd). rewrite !app_length. cbn [List.length]. lia.
Qed.
Lemma cost_le x : (cost x <= List.length (flatten x))%nat.
Proof. exact (cost_le_size (ssize x) x (le_n _)). Qed.

Theorem machine_simple : forall x, simpleb x = true -> machine_spec x.
Proof. intros x. exact (machine_simple_size (ssize x) x (le_n _)). Qed.

(* a whole expression (empty stack): the surplus of iterations does not matter *)
Corollary machine_simple_top x : simpleb x = true ->
  forall k s i s' rest, elab x s = ROk i s' -> toks s = flatten x ++ rest ->
    get_expr (cost x + k) [] s = ROk (Some i) s' /\ toks s' = rest.
Proof.
  intros Hs k s i s' rest He Ht. destruct (machine_simple x Hs k [] s i s' rest He Ht) as (e & G & T).
  split; [exact G | exact T].
Qed.
