(* Proofs about models/Optimizer.v, for every oracle [solve] that is sound and complete. *)
From Coq Require Import List ZArith Bool Lia Arith.
From PySMT.models Require Import Optimizer.
Import ListNotations.
Open Scope Z_scope.

(* ------------------------------------------------------------------ arithmetic *)
Lemma half_bounds : forall l u, l < u -> l <= (l + u) / 2 < u.
Proof.
  intros l u H. pose proof (Z.div_mod (l + u) 2 ltac:(lia)) as D.
  pose proof (Z.mod_pos_bound (l + u) 2 ltac:(lia)) as M. lia.
Qed.

Lemma pow2_split : forall w, 1 <= w -> 2 ^ w = 2 * 2 ^ (w - 1).
Proof. intros w H. replace w with (Z.succ (w - 1)) at 1 by lia. rewrite Z.pow_succ_r; lia. Qed.

Lemma pow2_pos : forall w, 0 <= w -> 0 < 2 ^ w.
Proof. intros. apply Z.pow_pos_nonneg; lia. Qed.

Lemma sview_range : forall w v, 1 <= w -> 0 <= v < 2 ^ w ->
  - 2 ^ (w - 1) <= sview w v <= 2 ^ (w - 1) - 1.
Proof.
  intros w v Hw Hv. unfold sview. pose proof (pow2_split w Hw) as P.
  pose proof (pow2_pos (w - 1) ltac:(lia)) as Q.
  destruct (v <? 2 ^ (w - 1)) eqn:E; [apply Z.ltb_lt in E | apply Z.ltb_ge in E]; lia.
Qed.

Section Proofs.
  Variable model : Type.
  Variable base_holds : nat -> model -> bool.
  Variable tval : nat -> model -> Z.
  Variable solve : list atom -> option model.

  Notation holds := (holds model base_holds tval).
  Notation V := (model_value model tval).
  Notation solver := (solver model).
  Notation push := (push model).
  Notation pop := (pop model).
  Notation add := (add model).
  Notation adds := (adds model).
  Notation do_solve := (do_solve model solve).
  Notation check_progress := (check_progress model solve).
  Notation opt_loop := (opt_loop model tval solve).
  Notation optimize_ := (optimize_ model tval solve).
  Notation optimize := (optimize model tval solve).

  Definition sat_all (m : model) (q : list atom) : Prop := forall a, In a q -> holds m a = true.

  (* the two oracle hypotheses (trusted base of C18) *)
  Hypothesis solve_sound : forall q m, solve q = Some m -> sat_all m q.
  Hypothesis solve_complete : forall q, solve q = None -> forall m, ~ sat_all m q.

  Lemma sat_all_app : forall m a b, sat_all m (a ++ b) <-> sat_all m a /\ sat_all m b.
  Proof.
    unfold sat_all. intros m a b. split.
    - intros H. split; intros x Hx; apply H; apply in_or_app; auto.
    - intros [H1 H2] x Hx. apply in_app_or in Hx. destruct Hx; auto.
  Qed.
  Lemma sat_all_nil : forall m, sat_all m [].
  Proof. intros m a []. Qed.
  Lemma sat_all_one : forall m a, sat_all m [a] <-> holds m a = true.
  Proof.
    unfold sat_all. intros m a. split.
    - intros H. apply H. left; auto.
    - intros H x [<-|[]]. auto.
  Qed.

  (* ------------------------------------------------------------ goals, optimality *)
  (* a BV objective term has width >= 1 and an unsigned value below 2^w *)
  Definition goal_ok (g : goal) : Prop :=
    match g_ty g with
    | TBV w => 1 <= w /\ forall m, 0 <= tval (g_term g) m < 2 ^ w
    | TInt => True
    end.
  Definition better_eq (g : goal) (a b : Z) : Prop := if g_max g then b <= a else a <= b.
  (* m is a model of the constraints F whose objective value is the optimum over F *)
  Definition optimal (g : goal) (F : list atom) (m : model) : Prop :=
    sat_all m F /\ forall m', sat_all m' F -> better_eq g (V g m) (V g m').

  Definition lo_g (g : goal) : Z :=
    match g_ty g with TBV w => if g_signed g then - 2 ^ (w - 1) else 0 | TInt => 0 end.
  Definition hi_g (g : goal) : Z :=
    match g_ty g with TBV w => if g_signed g then 2 ^ (w - 1) - 1 else 2 ^ w - 1 | TInt => 0 end.

  Lemma V_range : forall g w m, goal_ok g -> g_ty g = TBV w -> lo_g g <= V g m <= hi_g g.
  Proof.
    intros g w m Hok Hty. unfold goal_ok, lo_g, hi_g, model_value in *. rewrite Hty in *.
    destruct Hok as [Hw Hr]. specialize (Hr m).
    destruct (g_signed g); [apply sview_range; auto | lia].
  Qed.
  Lemma cast_ok_range : forall g w k, g_ty g = TBV w -> lo_g g <= k <= hi_g g -> cast_ok g k = true.
  Proof.
    intros g w k Hty H. unfold cast_ok, lo_g, hi_g in *. rewrite Hty in *.
    destruct (g_signed g); apply andb_true_iff; split;
      try apply Z.leb_le; try apply Z.ltb_lt; lia.
  Qed.
  Lemma cast_ok_int : forall g k, g_ty g = TInt -> cast_ok g k = true.
  Proof. intros g k H. unfold cast_ok. rewrite H. reflexivity. Qed.

  (* meaning of the strict cut built from the comparison table *)
  Lemma strict_atom_holds : forall g m k,
    holds m (ACmp (strict_atom g k)) = true <-> (if g_max g then k < V g m else V g m < k).
  Proof.
    intros g m k. unfold strict_atom, comparation, model_value. cbn [Optimizer.holds].
    destruct (g_ty g) as [|w]; destruct (g_max g); destruct (g_signed g);
      unfold holds_c; cbn [c_op c_view c_term c_k apply_view cmp_holds]; apply Z.ltb_lt.
  Qed.

  (* ------------------------------------------------------------- solver stack *)
  Lemma adds_asserts : forall l s, s_asserts model (adds l s) = s_asserts model s ++ l.
  Proof.
    induction l as [|a l IH]; intros s; cbn.
    - now rewrite app_nil_r.
    - unfold Optimizer.adds in IH. rewrite IH. cbn. now rewrite <- app_assoc.
  Qed.
  Lemma adds_bt : forall l s, s_bt model (adds l s) = s_bt model s.
  Proof.
    induction l as [|a l IH]; intros s; cbn; auto.
    unfold Optimizer.adds in IH. now rewrite IH.
  Qed.
  Lemma firstn_app_exact : forall (A : Type) (a b : list A), firstn (length a) (a ++ b) = a.
  Proof.
    intros A a b. rewrite firstn_app, Nat.sub_diag, firstn_all. cbn. now rewrite app_nil_r.
  Qed.

  Section Loop.
    Variable g : goal.
    Variable st : strategy.
    Variable md : mode.
    Variable extra : list atom.
    Variable A0 : list atom.        (* assertions when _optimize is entered *)
    Variable bt0 : list nat.        (* backtrack points when _optimize is entered *)
    Hypothesis Hok : goal_ok g.

    (* Incremental check_progress ignores extra_assumption *)
    Definition eff_extra : list atom := match md with SUA => extra | Incr => [] end.
    Definition F : list atom := A0 ++ eff_extra.

    (* state of the solver inside _optimize: the level pushed by _setup holds the cuts
       asserted so far (incremental + linear only) *)
    Definition SInv (s : solver) (cuts : list atom) : Prop :=
      s_asserts model s = A0 ++ cuts /\ s_bt model s = length A0 :: bt0.
    Definition cuts_after (cuts : list atom) (c : option atom) : list atom :=
      match md, st with Incr, Linear => cuts ++ optlist c | _, _ => cuts end.

    Lemma check_progress_stack : forall s cuts c r s1,
      SInv s cuts -> check_progress md st c extra s = (r, s1) -> SInv s1 (cuts_after cuts c).
    Proof.
      unfold SInv, cuts_after, Optimizer.check_progress. intros s cuts c r s1 [Ha Hb] H.
      destruct md.
      - unfold Optimizer.do_solve in H. inversion H; subst; cbn. auto.
      - destruct st.
        + unfold Optimizer.do_solve in H. inversion H; subst; cbn.
          rewrite adds_asserts, adds_bt, Ha, Hb, app_assoc. auto.
        + unfold Optimizer.do_solve in H. inversion H; subst; cbn. clear H.
          unfold Optimizer.pop; cbn. rewrite adds_bt, adds_asserts. cbn.
          rewrite firstn_app_exact. auto.
    Qed.

    Lemma check_progress_sat : forall s cuts c m s1,
      SInv s cuts -> check_progress md st c extra s = (Some m, s1) ->
      sat_all m F /\ sat_all m (optlist c).
    Proof.
      unfold SInv, F, eff_extra, Optimizer.check_progress. intros s cuts c m s1 [Ha Hb] H.
      destruct md.
      - unfold Optimizer.do_solve in H. inversion H as [[H1 H2]]. apply solve_sound in H1.
        rewrite Ha in H1. rewrite !sat_all_app in H1. rewrite sat_all_app. tauto.
      - destruct st.
        + unfold Optimizer.do_solve in H. inversion H as [[H1 H2]]. apply solve_sound in H1.
          rewrite adds_asserts, Ha, app_nil_r in H1. rewrite !sat_all_app in H1.
          rewrite sat_all_app. split; [split; [tauto | apply sat_all_nil] | tauto].
        + unfold Optimizer.do_solve in H. inversion H as [[H1 H2]]. apply solve_sound in H1.
          rewrite adds_asserts in H1. cbn in H1. rewrite Ha, app_nil_r in H1.
          rewrite !sat_all_app in H1. rewrite sat_all_app.
          split; [split; [tauto | apply sat_all_nil] | tauto].
    Qed.

    Lemma check_progress_unsat : forall s cuts c s1,
      SInv s cuts -> check_progress md st c extra s = (None, s1) ->
      forall m, sat_all m F -> sat_all m cuts -> sat_all m (optlist c) -> False.
    Proof.
      unfold SInv, F, eff_extra, Optimizer.check_progress. intros s cuts c s1 [Ha Hb] H m HF Hc Hcut.
      rewrite sat_all_app in HF. destruct HF as [HA HE].
      destruct md.
      - unfold Optimizer.do_solve in H. inversion H as [[H1 H2]].
        apply (solve_complete _ H1 m). rewrite Ha. rewrite !sat_all_app. tauto.
      - destruct st.
        + unfold Optimizer.do_solve in H. inversion H as [[H1 H2]].
          apply (solve_complete _ H1 m). rewrite adds_asserts, Ha, app_nil_r. rewrite !sat_all_app. tauto.
        + unfold Optimizer.do_solve in H. inversion H as [[H1 H2]].
          apply (solve_complete _ H1 m). rewrite adds_asserts. cbn. rewrite Ha, app_nil_r.
          rewrite !sat_all_app. tauto.
    Qed.

    (* ---------------------------------------------------------- the search loop *)
    Definition mu (o : Z) (iv : interval) : nat :=
      match i_lower iv, i_upper iv with
      | Some l, Some u => Z.to_nat (u - l)
      | None, Some u => Z.to_nat ((u - o) + Z.max (Z.abs u) (Z.abs o) + 2)
      | Some l, None => Z.to_nat ((o - l) + Z.max (Z.abs l) (Z.abs o) + 2)
      | None, None => 0%nat
      end.
    Definition improves (m b : model) : Prop :=
      if g_max g then V g b < V g m else V g m < V g b.
    (* every cut already asserted is implied by "strictly better than the current best" *)
    Definition CutsInv (cuts : list atom) (b : model) : Prop :=
      forall m, sat_all m F -> improves m b -> sat_all m cuts.

    Lemma cuts_after_sat : forall m cuts c,
      sat_all m cuts -> (st = Linear -> holds m c = true) -> sat_all m (cuts_after cuts (Some c)).
    Proof.
      intros m cuts c H1 H2. unfold cuts_after. destruct md; auto. destruct st; auto.
      apply sat_all_app. split; auto. apply sat_all_one. auto.
    Qed.

    Lemma V_cast_ok : forall b, cast_ok g (V g b) = true.
    Proof.
      intros b. destruct (g_ty g) as [|w] eqn:Hty.
      - apply cast_ok_int; auto.
      - apply (cast_ok_range g w); auto. apply (V_range g w); auto.
    Qed.

    (* ---- minimisation ---- *)
    Definition InvMin (iv : interval) (b : model) : Prop :=
      sat_all b F /\ i_upper iv = Some (V g b) /\
      (forall l, i_lower iv = Some l -> forall m, sat_all m F -> l <= V g m) /\
      (st = Linear -> i_pivot iv = None) /\
      (forall w, g_ty g = TBV w -> exists l, i_lower iv = Some l /\ lo_g g <= l).

    Lemma next_cut_min : g_max g = false -> forall iv b, InvMin iv b -> empty iv = false ->
      exists iv1 k, next_cut g st iv = Some (iv1, strict_atom g k) /\
        i_lower iv1 = i_lower iv /\ i_upper iv1 = i_upper iv /\ k <= V g b /\
        match st with
        | Linear => k = V g b /\ i_pivot iv1 = None
        | Binary => i_pivot iv1 = Some k /\ (forall l, i_lower iv = Some l -> l < k) /\
                    (i_lower iv = None -> V g b - Z.abs (V g b) - 1 < k)
        end.
    Proof.
      intros Hmin iv b (Hb & Hu & Hl & Hp & Hbv) E. unfold next_cut. destruct st.
      - exists iv, (V g b). unfold linear_cut. rewrite Hmin, Hu, V_cast_ok.
        split; [reflexivity|]. split; [reflexivity|]. split; [reflexivity|]. split; [lia|].
        split; [reflexivity|]. apply Hp. reflexivity.
      - unfold binary_cut. set (p := compute_pivot g iv).
        assert (Hpb : p <= V g b /\ (forall l, i_lower iv = Some l -> l < p) /\
                      (i_lower iv = None -> V g b - Z.abs (V g b) - 1 < p)).
        { unfold p, compute_pivot, mid. rewrite Hu, Hmin. unfold empty in E. rewrite Hu in E.
          destruct (i_lower iv) as [l|].
          - apply Z.leb_gt in E. pose proof (half_bounds l (V g b) E).
            split; [lia|]. split; [intros l' Hl'; inversion Hl'; subst; lia | discriminate].
          - pose proof (half_bounds (V g b - (Z.abs (V g b) + 1)) (V g b) ltac:(lia)).
            split; [lia|]. split; [discriminate | intros _; lia]. }
        destruct Hpb as (Hp1 & Hp2 & Hp3).
        assert (Hc : cast_ok g p = true).
        { destruct (g_ty g) as [|w] eqn:Hty; [apply cast_ok_int; auto|].
          apply (cast_ok_range g w); auto. destruct (Hbv w eq_refl) as (l & Hl1 & Hl2).
          pose proof (Hp2 l Hl1). pose proof (V_range g w b Hok Hty). lia. }
        rewrite Hc. exists (mkI (i_lower iv) (i_upper iv) (Some p)), p. cbn. auto 10.
    Qed.

    Lemma mu_pos_min : forall o iv b, InvMin iv b -> empty iv = false -> o <= V g b -> (1 <= mu o iv)%nat.
    Proof.
      intros o iv b (Hb & Hu & _) E Ho. unfold mu, empty in *. rewrite Hu in *.
      destruct (i_lower iv) as [l|]; [apply Z.leb_gt in E|]; lia.
    Qed.

    Lemma loop_min : g_max g = false -> forall mo, optimal g F mo ->
      forall n iv b s cuts, InvMin iv b -> SInv s cuts -> CutsInv cuts b -> (mu (V g mo) iv <= n)%nat ->
      exists m s', (forall fuel, (n < fuel)%nat ->
                     opt_loop fuel g st md extra iv (Some b) false s = (ROk (Some (m, tval (g_term g) m)), s'))
                   /\ optimal g F m.
    Proof.
      intros Hmin mo [HmoF Hmo]. unfold better_eq in Hmo. rewrite Hmin in Hmo.
      induction n as [|n IH]; intros iv b s cuts HI HS HC Hmu;
        (destruct (empty iv) eqn:E;
         [ exists b, (pop s); split;
           [ intros [|f] Hf; [lia|]; cbn [Optimizer.opt_loop]; rewrite E; reflexivity
           | destruct HI as (Hb & Hu & Hl & _); split; [exact Hb|];
             intros m' Hm'; unfold better_eq; rewrite Hmin; unfold empty in E; rewrite Hu in E;
             destruct (i_lower iv) as [l|]; [|discriminate]; apply Z.leb_le in E;
             specialize (Hl l eq_refl m' Hm'); lia ]
         | ]).
      - pose proof (mu_pos_min (V g mo) iv b HI E (Hmo b (proj1 HI))). lia.
      - destruct (next_cut_min Hmin iv b HI E) as (iv1 & k & Hnc & Hl1 & Hu1 & Hk & Hst).
        destruct (check_progress md st (Some (ACmp (strict_atom g k))) extra s) as [r s1] eqn:Hcp.
        pose proof (check_progress_stack s cuts _ r s1 HS Hcp) as HS1.
        destruct HI as (Hb & Hu & Hl & Hp & Hbv).
        destruct r as [m|].
        + (* sat: the upper bound drops to the value of the new model *)
          destruct (check_progress_sat s cuts _ m s1 HS Hcp) as [HmF Hmc].
          apply sat_all_one in Hmc. apply strict_atom_holds in Hmc. rewrite Hmin in Hmc.
          set (iv' := search_is_sat g iv1 (V g m)).
          assert (Hiv' : iv' = mkI (i_lower iv) (Some (V g m)) None).
          { unfold iv', search_is_sat. rewrite Hmin, Hu1, Hu, Hl1.
            destruct (V g m <? V g b) eqn:E1; [reflexivity | apply Z.ltb_ge in E1; lia]. }
          destruct (IH iv' m s1 (cuts_after cuts (Some (ACmp (strict_atom g k))))) as (m2 & s2 & Hrun & Hopt2).
          * rewrite Hiv'. repeat split; cbn; auto.
          * exact HS1.
          * intros m' Hm' Himp. unfold improves in Himp. rewrite Hmin in Himp.
            apply cuts_after_sat.
            -- apply HC; auto. unfold improves. rewrite Hmin. lia.
            -- intros Hlin. rewrite Hlin in Hst. destruct Hst as [Hk' _].
               apply strict_atom_holds. rewrite Hmin. lia.
          * rewrite Hiv'. unfold mu in *. cbn. rewrite Hu in Hmu. unfold empty in E. rewrite Hu in E.
            pose proof (Hmo m HmF). pose proof (Hmo b Hb).
            destruct (i_lower iv) as [l|]; [apply Z.leb_gt in E|]; lia.
          * exists m2, s2. split; [|exact Hopt2]. intros [|f] Hf; [lia|].
            cbn [Optimizer.opt_loop]. rewrite E, Hnc, Hcp. apply Hrun. lia.
        + (* unsat: the lower bound rises to the cut *)
          pose proof (check_progress_unsat s cuts _ s1 HS Hcp) as Hun.
          set (iv' := search_is_unsat g iv1).
          assert (Hiv' : i_lower iv' = Some k /\ i_upper iv' = Some (V g b) /\ (st = Linear -> i_pivot iv' = None)).
          { unfold iv', search_is_unsat. rewrite Hmin. destruct st.
            - destruct Hst as [Hk' Hp1]. rewrite Hp1. cbn. rewrite Hu1, Hu, Hk'. auto.
            - destruct Hst as [Hp1 _]. rewrite Hp1. cbn. rewrite Hu1, Hu. split; auto. split; auto. discriminate. }
          destruct Hiv' as (Hl' & Hu' & Hp').
          assert (Hlow : forall m', sat_all m' F -> k <= V g m').
          { intros m' Hm'. destruct (Z.le_gt_cases k (V g m')) as [|Hlt]; auto. exfalso.
            apply (Hun m' Hm').
            - apply HC; auto. unfold improves. rewrite Hmin. lia.
            - apply sat_all_one. apply strict_atom_holds. rewrite Hmin. lia. }
          destruct (IH iv' b s1 (cuts_after cuts (Some (ACmp (strict_atom g k))))) as (m2 & s2 & Hrun & Hopt2).
          * split; [exact Hb|]. split; [exact Hu'|]. split.
            { intros l Hl2. rewrite Hl' in Hl2. inversion Hl2; subst. exact Hlow. }
            split; [exact Hp'|]. intros w Hty. exists k. split; [exact Hl'|].
            destruct st.
            -- destruct Hst as [Hk' _]. pose proof (V_range g w b Hok Hty). lia.
            -- destruct Hst as (_ & Hlk & _). destruct (Hbv w Hty) as (l & Hl2 & Hl3).
               specialize (Hlk l Hl2). lia.
          * exact HS1.
          * intros m' Hm' Himp. apply cuts_after_sat; [apply HC; auto|].
            intros Hlin. rewrite Hlin in Hst. destruct Hst as [Hk' _].
            unfold improves in Himp. rewrite Hmin in Himp.
            apply strict_atom_holds. rewrite Hmin. lia.
          * unfold mu in *. rewrite Hl', Hu'. rewrite Hu in Hmu. unfold empty in E. rewrite Hu in E.
            pose proof (Hmo b Hb).
            destruct st.
            -- destruct Hst as [Hk' _]. destruct (i_lower iv) as [l|]; [apply Z.leb_gt in E|]; lia.
            -- destruct Hst as (_ & Hlk & Hnk).
               destruct (i_lower iv) as [l|]; [apply Z.leb_gt in E; specialize (Hlk l eq_refl) | specialize (Hnk eq_refl)]; lia.
          * exists m2, s2. split; [|exact Hopt2]. intros [|f] Hf; [lia|].
            cbn [Optimizer.opt_loop]. rewrite E, Hnc, Hcp. apply Hrun. lia.
    Qed.

    (* ---- maximisation (mirror image; the pivot has no +1) ---- *)
    Definition InvMax (iv : interval) (b : model) : Prop :=
      sat_all b F /\ i_lower iv = Some (V g b) /\
      (forall u, i_upper iv = Some u -> forall m, sat_all m F -> V g m <= u) /\
      (st = Linear -> i_pivot iv = None) /\
      (forall w, g_ty g = TBV w -> exists u, i_upper iv = Some u /\ u <= hi_g g + 1).

    Lemma next_cut_max : g_max g = true -> forall iv b, InvMax iv b -> empty iv = false ->
      exists iv1 k, next_cut g st iv = Some (iv1, strict_atom g k) /\
        i_lower iv1 = i_lower iv /\ i_upper iv1 = i_upper iv /\ V g b <= k /\
        match st with
        | Linear => k = V g b /\ i_pivot iv1 = None
        | Binary => i_pivot iv1 = Some k /\ (forall u, i_upper iv = Some u -> k < u) /\
                    (i_upper iv = None -> k < V g b + Z.abs (V g b) + 1)
        end.
    Proof.
      intros Hmax iv b (Hb & Hl & Hu & Hp & Hbv) E. unfold next_cut. destruct st.
      - exists iv, (V g b). unfold linear_cut. rewrite Hmax, Hl, V_cast_ok.
        split; [reflexivity|]. split; [reflexivity|]. split; [reflexivity|]. split; [lia|].
        split; [reflexivity|]. apply Hp. reflexivity.
      - unfold binary_cut. set (p := compute_pivot g iv).
        assert (Hpb : V g b <= p /\ (forall u, i_upper iv = Some u -> p < u) /\
                      (i_upper iv = None -> p < V g b + Z.abs (V g b) + 1)).
        { unfold p, compute_pivot, mid. rewrite Hl, Hmax. unfold empty in E. rewrite Hl in E.
          destruct (i_upper iv) as [u|].
          - apply Z.leb_gt in E. pose proof (half_bounds (V g b) u E).
            split; [lia|]. split; [intros u' Hu'; inversion Hu'; subst; lia | discriminate].
          - pose proof (half_bounds (V g b) (V g b + Z.abs (V g b) + 1) ltac:(lia)).
            split; [lia|]. split; [discriminate | intros _; lia]. }
        destruct Hpb as (Hp1 & Hp2 & Hp3).
        assert (Hc : cast_ok g p = true).
        { destruct (g_ty g) as [|w] eqn:Hty; [apply cast_ok_int; auto|].
          apply (cast_ok_range g w); auto. destruct (Hbv w eq_refl) as (u & Hu1 & Hu2).
          pose proof (Hp2 u Hu1). pose proof (V_range g w b Hok Hty). lia. }
        rewrite Hc. exists (mkI (i_lower iv) (i_upper iv) (Some p)), p. cbn. auto 10.
    Qed.

    Lemma mu_pos_max : forall o iv b, InvMax iv b -> empty iv = false -> V g b <= o -> (1 <= mu o iv)%nat.
    Proof.
      intros o iv b (Hb & Hl & _) E Ho. unfold mu, empty in *. rewrite Hl in *.
      destruct (i_upper iv) as [u|]; [apply Z.leb_gt in E|]; lia.
    Qed.

    Lemma loop_max : g_max g = true -> forall mo, optimal g F mo ->
      forall n iv b s cuts, InvMax iv b -> SInv s cuts -> CutsInv cuts b -> (mu (V g mo) iv <= n)%nat ->
      exists m s', (forall fuel, (n < fuel)%nat ->
                     opt_loop fuel g st md extra iv (Some b) false s = (ROk (Some (m, tval (g_term g) m)), s'))
                   /\ optimal g F m.
    Proof.
      intros Hmax mo [HmoF Hmo]. unfold better_eq in Hmo. rewrite Hmax in Hmo.
      induction n as [|n IH]; intros iv b s cuts HI HS HC Hmu;
        (destruct (empty iv) eqn:E;
         [ exists b, (pop s); split;
           [ intros [|f] Hf; [lia|]; cbn [Optimizer.opt_loop]; rewrite E; reflexivity
           | destruct HI as (Hb & Hl & Hu & _); split; [exact Hb|];
             intros m' Hm'; unfold better_eq; rewrite Hmax; unfold empty in E; rewrite Hl in E;
             destruct (i_upper iv) as [u|]; [|discriminate]; apply Z.leb_le in E;
             specialize (Hu u eq_refl m' Hm'); lia ]
         | ]).
      - pose proof (mu_pos_max (V g mo) iv b HI E (Hmo b (proj1 HI))). lia.
      - destruct (next_cut_max Hmax iv b HI E) as (iv1 & k & Hnc & Hl1 & Hu1 & Hk & Hst).
        destruct (check_progress md st (Some (ACmp (strict_atom g k))) extra s) as [r s1] eqn:Hcp.
        pose proof (check_progress_stack s cuts _ r s1 HS Hcp) as HS1.
        destruct HI as (Hb & Hl & Hu & Hp & Hbv).
        destruct r as [m|].
        + destruct (check_progress_sat s cuts _ m s1 HS Hcp) as [HmF Hmc].
          apply sat_all_one in Hmc. apply strict_atom_holds in Hmc. rewrite Hmax in Hmc.
          set (iv' := search_is_sat g iv1 (V g m)).
          assert (Hiv' : iv' = mkI (Some (V g m)) (i_upper iv) None).
          { unfold iv', search_is_sat. rewrite Hmax, Hl1, Hl, Hu1.
            destruct (V g b <? V g m) eqn:E1; [reflexivity | apply Z.ltb_ge in E1; lia]. }
          destruct (IH iv' m s1 (cuts_after cuts (Some (ACmp (strict_atom g k))))) as (m2 & s2 & Hrun & Hopt2).
          * rewrite Hiv'. repeat split; cbn; auto.
          * exact HS1.
          * intros m' Hm' Himp. unfold improves in Himp. rewrite Hmax in Himp.
            apply cuts_after_sat.
            -- apply HC; auto. unfold improves. rewrite Hmax. lia.
            -- intros Hlin. rewrite Hlin in Hst. destruct Hst as [Hk' _].
               apply strict_atom_holds. rewrite Hmax. lia.
          * rewrite Hiv'. unfold mu in *. cbn. rewrite Hl in Hmu. unfold empty in E. rewrite Hl in E.
            pose proof (Hmo m HmF). pose proof (Hmo b Hb).
            destruct (i_upper iv) as [u|]; [apply Z.leb_gt in E|]; lia.
          * exists m2, s2. split; [|exact Hopt2]. intros [|f] Hf; [lia|].
            cbn [Optimizer.opt_loop]. rewrite E, Hnc, Hcp. apply Hrun. lia.
        + pose proof (check_progress_unsat s cuts _ s1 HS Hcp) as Hun.
          set (iv' := search_is_unsat g iv1).
          assert (Hiv' : i_upper iv' = Some k /\ i_lower iv' = Some (V g b) /\ (st = Linear -> i_pivot iv' = None)).
          { unfold iv', search_is_unsat. rewrite Hmax. destruct st.
            - destruct Hst as [Hk' Hp1]. rewrite Hp1. cbn. rewrite Hl1, Hl, Hk'. auto.
            - destruct Hst as [Hp1 _]. rewrite Hp1. cbn. rewrite Hl1, Hl. split; auto. split; auto. discriminate. }
          destruct Hiv' as (Hu' & Hl' & Hp').
          assert (Hupp : forall m', sat_all m' F -> V g m' <= k).
          { intros m' Hm'. destruct (Z.le_gt_cases (V g m') k) as [|Hlt]; auto. exfalso.
            apply (Hun m' Hm').
            - apply HC; auto. unfold improves. rewrite Hmax. lia.
            - apply sat_all_one. apply strict_atom_holds. rewrite Hmax. lia. }
          destruct (IH iv' b s1 (cuts_after cuts (Some (ACmp (strict_atom g k))))) as (m2 & s2 & Hrun & Hopt2).
          * split; [exact Hb|]. split; [exact Hl'|]. split.
            { intros u Hu2. rewrite Hu' in Hu2. inversion Hu2; subst. exact Hupp. }
            split; [exact Hp'|]. intros w Hty. exists k. split; [exact Hu'|].
            destruct st.
            -- destruct Hst as [Hk' _]. pose proof (V_range g w b Hok Hty). lia.
            -- destruct Hst as (_ & Huk & _). destruct (Hbv w Hty) as (u & Hu2 & Hu3).
               specialize (Huk u Hu2). lia.
          * exact HS1.
          * intros m' Hm' Himp. apply cuts_after_sat; [apply HC; auto|].
            intros Hlin. rewrite Hlin in Hst. destruct Hst as [Hk' _].
            unfold improves in Himp. rewrite Hmax in Himp.
            apply strict_atom_holds. rewrite Hmax. lia.
          * unfold mu in *. rewrite Hl', Hu'. rewrite Hl in Hmu. unfold empty in E. rewrite Hl in E.
            pose proof (Hmo b Hb).
            destruct st.
            -- destruct Hst as [Hk' _]. destruct (i_upper iv) as [u|]; [apply Z.leb_gt in E|]; lia.
            -- destruct Hst as (_ & Huk & Hnk).
               destruct (i_upper iv) as [u|]; [apply Z.leb_gt in E; specialize (Huk u eq_refl) | specialize (Hnk eq_refl)]; lia.
          * exists m2, s2. split; [|exact Hopt2]. intros [|f] Hf; [lia|].
            cbn [Optimizer.opt_loop]. rewrite E, Hnc, Hcp. apply Hrun. lia.
    Qed.

    (* ---- the first step and the whole loop ---- *)
    Lemma init_not_empty : empty (init_interval g) = false.
    Proof.
      unfold init_interval. unfold goal_ok in Hok. destruct (g_ty g) as [|w]; [reflexivity|].
      destruct Hok as [Hw _]. pose proof (pow2_pos (w - 1) ltac:(lia)). pose proof (pow2_pos w ltac:(lia)).
      destruct (g_signed g); destruct (g_max g); unfold empty; cbn; apply Z.leb_gt; lia.
    Qed.

    Lemma cuts_after_none : cuts_after [] None = [].
    Proof. unfold cuts_after. destruct md; destruct st; reflexivity. Qed.

    Lemma first_sat_min : g_max g = false -> forall m, sat_all m F ->
      InvMin (search_is_sat g (init_interval g) (V g m)) m.
    Proof.
      intros Hmin m Hm. unfold search_is_sat, init_interval. rewrite Hmin.
      destruct (g_ty g) as [|w] eqn:Hty.
      - cbn. repeat split; auto; try discriminate. intros w' Hw'. congruence.
      - pose proof (V_range g w m Hok Hty) as R. unfold lo_g, hi_g in R. rewrite Hty in R.
        destruct (g_signed g) eqn:Hs; cbn [i_upper i_lower].
        + destruct (V g m <? 2 ^ (w - 1) - 1 + 1) eqn:E1; [|apply Z.ltb_ge in E1; lia].
          split; auto. split; [reflexivity|]. split.
          { cbn. intros l Hl m' Hm'. inversion Hl; subst.
            pose proof (V_range g w m' Hok Hty) as R'. unfold lo_g in R'. rewrite Hty, Hs in R'. lia. }
          split; [reflexivity|]. intros w' Hw'. inversion Hw'; subst. eexists. split; [reflexivity|].
          unfold lo_g. rewrite Hty, Hs. lia.
        + destruct (V g m <? 2 ^ w + 1) eqn:E1; [|apply Z.ltb_ge in E1; lia].
          split; auto. split; [reflexivity|]. split.
          { cbn. intros l Hl m' Hm'. inversion Hl; subst.
            pose proof (V_range g w m' Hok Hty) as R'. unfold lo_g in R'. rewrite Hty, Hs in R'. lia. }
          split; [reflexivity|]. intros w' Hw'. inversion Hw'; subst. eexists. split; [reflexivity|].
          unfold lo_g. rewrite Hty, Hs. lia.
    Qed.

    Lemma first_sat_max : g_max g = true -> forall m, sat_all m F ->
      InvMax (search_is_sat g (init_interval g) (V g m)) m.
    Proof.
      intros Hmax m Hm. unfold search_is_sat, init_interval. rewrite Hmax.
      destruct (g_ty g) as [|w] eqn:Hty.
      - cbn. repeat split; auto; try discriminate. intros w' Hw'. congruence.
      - pose proof (V_range g w m Hok Hty) as R. unfold lo_g, hi_g in R. rewrite Hty in R.
        destruct (g_signed g) eqn:Hs; cbn [i_upper i_lower].
        + destruct (- 2 ^ (w - 1) - 1 <? V g m) eqn:E1; [|apply Z.ltb_ge in E1; lia].
          split; auto. split; [reflexivity|]. split.
          { cbn. intros u Hu m' Hm'. inversion Hu; subst.
            pose proof (V_range g w m' Hok Hty) as R'. unfold hi_g in R'. rewrite Hty, Hs in R'. lia. }
          split; [reflexivity|]. intros w' Hw'. inversion Hw'; subst. eexists. split; [reflexivity|].
          unfold hi_g. rewrite Hty, Hs. lia.
        + destruct (0 - 1 <? V g m) eqn:E1; [|apply Z.ltb_ge in E1; lia].
          split; auto. split; [reflexivity|]. split.
          { cbn. intros u Hu m' Hm'. inversion Hu; subst.
            pose proof (V_range g w m' Hok Hty) as R'. unfold hi_g in R'. rewrite Hty, Hs in R'. lia. }
          split; [reflexivity|]. intros w' Hw'. inversion Hw'; subst. eexists. split; [reflexivity|].
          unfold hi_g. rewrite Hty, Hs. lia.
    Qed.

    Theorem opt_core_feasible : forall mo, optimal g F mo -> forall s, SInv s [] ->
      exists N m s', (forall fuel, (N <= fuel)%nat ->
          opt_loop fuel g st md extra (init_interval g) None true s = (ROk (Some (m, tval (g_term g) m)), s'))
        /\ optimal g F m.
    Proof.
      intros mo Hmo s HS.
      destruct (check_progress md st None extra s) as [r s1] eqn:Hcp.
      pose proof (check_progress_stack s [] None r s1 HS Hcp) as HS1. rewrite cuts_after_none in HS1.
      destruct r as [m|].
      - destruct (check_progress_sat s [] None m s1 HS Hcp) as [HmF _].
        assert (HC : CutsInv [] m) by (intros m' _ _; apply sat_all_nil).
        destruct (g_max g) eqn:Hd.
        + destruct (loop_max Hd mo Hmo _ _ m s1 [] (first_sat_max Hd m HmF) HS1 HC (le_n _)) as (m2 & s2 & Hrun & Hopt).
          exists (S (S (mu (V g mo) (search_is_sat g (init_interval g) (V g m))))), m2, s2. split; [|exact Hopt]. intros [|f] Hf; [lia|].
          cbn [Optimizer.opt_loop]. rewrite init_not_empty, Hcp. apply Hrun. lia.
        + destruct (loop_min Hd mo Hmo _ _ m s1 [] (first_sat_min Hd m HmF) HS1 HC (le_n _)) as (m2 & s2 & Hrun & Hopt).
          exists (S (S (mu (V g mo) (search_is_sat g (init_interval g) (V g m))))), m2, s2. split; [|exact Hopt]. intros [|f] Hf; [lia|].
          cbn [Optimizer.opt_loop]. rewrite init_not_empty, Hcp. apply Hrun. lia.
      - exfalso. destruct Hmo as [HmoF _].
        apply (check_progress_unsat s [] None s1 HS Hcp mo HmoF); apply sat_all_nil.
    Qed.

    Theorem opt_core_unsat : (forall m, ~ sat_all m F) -> forall s, SInv s [] ->
      exists s', forall fuel, (1 <= fuel)%nat ->
        opt_loop fuel g st md extra (init_interval g) None true s = (ROk None, s').
    Proof.
      intros Hun s HS. destruct (check_progress md st None extra s) as [r s1] eqn:Hcp.
      destruct r as [m|].
      - exfalso. destruct (check_progress_sat s [] None m s1 HS Hcp) as [HmF _]. exact (Hun m HmF).
      - exists (pop s1). intros [|f] Hf; [lia|]. cbn [Optimizer.opt_loop]. rewrite init_not_empty, Hcp. reflexivity.
    Qed.

    Lemma loop_some_not_none : forall fuel iv b s s',
      opt_loop fuel g st md extra iv (Some b) false s <> (ROk None, s').
    Proof.
      induction fuel as [|f IH]; intros iv b s s'; cbn [Optimizer.opt_loop]; [discriminate|].
      destruct (empty iv); [discriminate|].
      destruct (next_cut g st iv) as [[iv1 c]|]; [|discriminate].
      destruct (check_progress md st (Some (ACmp c)) extra s) as [r s1].
      destruct r; apply IH.
    Qed.

    Theorem opt_core_none_unsat : forall fuel s s', SInv s [] ->
      opt_loop fuel g st md extra (init_interval g) None true s = (ROk None, s') ->
      forall m, ~ sat_all m F.
    Proof.
      intros [|f] s s' HS H; cbn [Optimizer.opt_loop] in H; [discriminate|].
      rewrite init_not_empty in H.
      destruct (check_progress md st None extra s) as [r s1] eqn:Hcp.
      destruct r as [m0|].
      - exfalso. exact (loop_some_not_none _ _ _ _ _ H).
      - intros m Hm. apply (check_progress_unsat s [] None s1 HS Hcp m Hm); apply sat_all_nil.
    Qed.

    (* the stack: needs nothing about the oracle or the goal *)
    Lemma pop_SInv : forall s cuts, SInv s cuts -> s_asserts model (pop s) = A0 /\ s_bt model (pop s) = bt0.
    Proof.
      intros s cuts [Ha Hb]. unfold Optimizer.pop. rewrite Hb, Ha. cbn. rewrite firstn_app_exact. auto.
    Qed.
    Lemma opt_loop_stack : forall fuel iv best first s cuts r s', SInv s cuts ->
      opt_loop fuel g st md extra iv best first s = (ROk r, s') ->
      s_asserts model s' = A0 /\ s_bt model s' = bt0.
    Proof.
      induction fuel as [|f IH]; intros iv best first s cuts r s' HS H; cbn [Optimizer.opt_loop] in H; [discriminate|].
      destruct (empty iv).
      - inversion H; subst. eapply pop_SInv; eauto.
      - destruct first.
        + destruct (check_progress md st None extra s) as [r1 s1] eqn:Hcp.
          pose proof (check_progress_stack s cuts None r1 s1 HS Hcp) as HS1.
          destruct r1.
          * eapply IH; eauto.
          * inversion H; subst. eapply pop_SInv; eauto.
        + destruct (next_cut g st iv) as [[iv1 c]|]; [|discriminate].
          destruct (check_progress md st (Some (ACmp c)) extra s) as [r1 s1] eqn:Hcp.
          pose proof (check_progress_stack s cuts _ r1 s1 HS Hcp) as HS1.
          destruct r1; eapply IH; eauto.
    Qed.

    (* ---- explicit fuel: the measure of the state after the first answer is bounded ---- *)
    Definition mu_bound (lo hi : Z) : nat :=
      Z.to_nat (match g_ty g with
                | TBV w => 2 ^ w + 1
                | TInt => (hi - lo) + Z.max (Z.abs lo) (Z.abs hi) + 2
                end).

    Lemma mu_first_bound : forall mo lo hi m, optimal g F mo -> sat_all m F ->
      (forall m', sat_all m' F -> lo <= V g m' <= hi) ->
      (mu (V g mo) (search_is_sat g (init_interval g) (V g m)) <= mu_bound lo hi)%nat.
    Proof.
      intros mo lo hi m [HmoF Hmo] Hm Hb. unfold mu_bound.
      pose proof (Hb m Hm) as B1. pose proof (Hb mo HmoF) as B2.
      pose proof (Hmo m Hm) as B3. unfold better_eq in B3.
      destruct (g_max g) eqn:Hd.
      - pose proof (first_sat_max Hd m Hm) as (_ & Hl & _ & _ & Hbv). unfold mu. rewrite Hl.
        destruct (g_ty g) as [|w] eqn:Hty.
        + unfold search_is_sat, init_interval. rewrite Hd, Hty. cbn. lia.
        + destruct (Hbv w eq_refl) as (u & Hu1 & Hu2). rewrite Hu1.
          pose proof (V_range g w m Hok Hty) as R. unfold lo_g, hi_g in *. rewrite Hty in *.
          pose proof Hok as Hok'. unfold goal_ok in Hok'. rewrite Hty in Hok'. destruct Hok' as [Hw _].
          pose proof (pow2_split w Hw). pose proof (pow2_pos (w - 1) ltac:(lia)).
          destruct (g_signed g); lia.
      - pose proof (first_sat_min Hd m Hm) as (_ & Hu & _ & _ & Hbv). unfold mu. rewrite Hu.
        destruct (g_ty g) as [|w] eqn:Hty.
        + unfold search_is_sat, init_interval. rewrite Hd, Hty. cbn. lia.
        + destruct (Hbv w eq_refl) as (l & Hl1 & Hl2). rewrite Hl1.
          pose proof (V_range g w m Hok Hty) as R. unfold lo_g, hi_g in *. rewrite Hty in *.
          pose proof Hok as Hok'. unfold goal_ok in Hok'. rewrite Hty in Hok'. destruct Hok' as [Hw _].
          pose proof (pow2_split w Hw). pose proof (pow2_pos (w - 1) ltac:(lia)).
          destruct (g_signed g); lia.
    Qed.

    Theorem opt_core_feasible_bound : forall mo lo hi, optimal g F mo ->
      (forall m', sat_all m' F -> lo <= V g m' <= hi) -> forall s, SInv s [] ->
      exists m s', (forall fuel, (S (S (mu_bound lo hi)) <= fuel)%nat ->
          opt_loop fuel g st md extra (init_interval g) None true s = (ROk (Some (m, tval (g_term g) m)), s'))
        /\ optimal g F m.
    Proof.
      intros mo lo hi Hmo Hb s HS.
      destruct (check_progress md st None extra s) as [r s1] eqn:Hcp.
      pose proof (check_progress_stack s [] None r s1 HS Hcp) as HS1. rewrite cuts_after_none in HS1.
      destruct r as [m|].
      - destruct (check_progress_sat s [] None m s1 HS Hcp) as [HmF _].
        assert (HC : CutsInv [] m) by (intros m' _ _; apply sat_all_nil).
        pose proof (mu_first_bound mo lo hi m Hmo HmF Hb) as Hmu.
        destruct (g_max g) eqn:Hd.
        + destruct (loop_max Hd mo Hmo _ _ m s1 [] (first_sat_max Hd m HmF) HS1 HC Hmu) as (m2 & s2 & Hrun & Hopt).
          exists m2, s2. split; [|exact Hopt]. intros [|f] Hf; [lia|].
          cbn [Optimizer.opt_loop]. rewrite init_not_empty, Hcp. apply Hrun. lia.
        + destruct (loop_min Hd mo Hmo _ _ m s1 [] (first_sat_min Hd m HmF) HS1 HC Hmu) as (m2 & s2 & Hrun & Hopt).
          exists m2, s2. split; [|exact Hopt]. intros [|f] Hf; [lia|].
          cbn [Optimizer.opt_loop]. rewrite init_not_empty, Hcp. apply Hrun. lia.
      - exfalso. destruct Hmo as [HmoF _].
        apply (check_progress_unsat s [] None s1 HS Hcp mo HmoF); apply sat_all_nil.
    Qed.
  End Loop.

  (* ================================================================ optimize *)
  Definition same_stack (s s' : solver) : Prop :=
    s_asserts model s' = s_asserts model s /\ s_bt model s' = s_bt model s.

  Lemma goal_ok_norm : forall g, goal_ok g -> goal_ok (norm_goal g).
  Proof. intros g H. unfold norm_goal. destruct (g_maxsmt g); auto. Qed.
  Lemma norm_term : forall g, g_term (norm_goal g) = g_term g.
  Proof. intros g. unfold norm_goal. destruct (g_maxsmt g); auto. Qed.
  Lemma SInv_push : forall s, SInv (s_asserts model s) (s_bt model s) (push s) [].
  Proof. intros s. unfold SInv. cbn. now rewrite app_nil_r. Qed.
  Lemma eff_extra_nil : forall md, eff_extra md [] = [].
  Proof. destruct md; reflexivity. Qed.

  (* constraints the optimisation ranges over: assertion stack + (SUA only) extra assumptions *)
  Definition scope (md : mode) (extra : list atom) (s : solver) : list atom :=
    s_asserts model s ++ eff_extra md extra.

  Theorem optimize__stack : forall fuel g st md extra s r s',
    optimize_ fuel g st md extra s = (ROk r, s') -> same_stack s s'.
  Proof.
    intros fuel g st md extra s r s' H. unfold Optimizer.optimize_ in H.
    exact (opt_loop_stack _ st md extra _ _ _ _ _ _ _ _ _ _ (SInv_push s) H).
  Qed.

  Theorem optimize__optimal : forall g st md extra s, goal_ok g ->
    (exists mo, optimal (norm_goal g) (scope md extra s) mo) ->
    exists N m s', (forall fuel, (N <= fuel)%nat ->
        optimize_ fuel g st md extra s = (ROk (Some (m, tval (g_term g) m)), s'))
      /\ optimal (norm_goal g) (scope md extra s) m /\ same_stack s s'.
  Proof.
    intros g st md extra s Hok [mo Hmo].
    destruct (opt_core_feasible (norm_goal g) st md extra _ _ (goal_ok_norm g Hok) mo Hmo _ (SInv_push s))
      as (N & m & s' & Hrun & Hopt).
    rewrite norm_term in Hrun.
    exists N, m, s'. split; [exact Hrun|]. split; [exact Hopt|].
    eapply optimize__stack. apply (Hrun N). lia.
  Qed.

  Theorem optimize__unsat : forall g st md extra s, goal_ok g ->
    (forall m, ~ sat_all m (scope md extra s)) ->
    exists s', (forall fuel, (1 <= fuel)%nat -> optimize_ fuel g st md extra s = (ROk None, s'))
               /\ same_stack s s'.
  Proof.
    intros g st md extra s Hok Hun.
    destruct (opt_core_unsat (norm_goal g) st md extra _ _ (goal_ok_norm g Hok) Hun _ (SInv_push s)) as (s' & Hrun).
    exists s'. split; [exact Hrun|]. eapply optimize__stack. apply (Hrun 1%nat). lia.
  Qed.

  Theorem optimize__none_unsat : forall fuel g st md extra s s', goal_ok g ->
    optimize_ fuel g st md extra s = (ROk None, s') -> forall m, ~ sat_all m (scope md extra s).
  Proof.
    intros fuel g st md extra s s' Hok H.
    exact (opt_core_none_unsat (norm_goal g) st md extra _ _ (goal_ok_norm g Hok) fuel _ _ (SInv_push s) H).
  Qed.

  Lemma scope_nil : forall md s, scope md [] s = s_asserts model s.
  Proof. intros. unfold scope. rewrite eff_extra_nil. apply app_nil_r. Qed.

  (* Optimizer.optimize: the public entry point (no extra assumptions) *)
  Theorem optimize_optimal : forall g st md s, goal_ok g ->
    (exists mo, optimal (norm_goal g) (s_asserts model s) mo) ->
    exists N m s', (forall fuel, (N <= fuel)%nat ->
        optimize fuel g st md s = (ROk (Some (m, tval (g_term g) m)), s'))
      /\ optimal (norm_goal g) (s_asserts model s) m /\ same_stack s s'.
  Proof.
    intros g st md s Hok Hmo. rewrite <- (scope_nil md s) in Hmo.
    destruct (optimize__optimal g st md [] s Hok Hmo) as (N & m & s' & H1 & H2 & H3).
    rewrite scope_nil in H2. exists N, m, s'. auto.
  Qed.
  Theorem optimize_unsat : forall g st md s, goal_ok g ->
    (forall m, ~ sat_all m (s_asserts model s)) ->
    exists s', (forall fuel, (1 <= fuel)%nat -> optimize fuel g st md s = (ROk None, s')) /\ same_stack s s'.
  Proof.
    intros g st md s Hok Hun. apply optimize__unsat; auto. rewrite scope_nil. exact Hun.
  Qed.
  Theorem optimize_none_unsat : forall fuel g st md s s', goal_ok g ->
    optimize fuel g st md s = (ROk None, s') -> forall m, ~ sat_all m (s_asserts model s).
  Proof.
    intros fuel g st md s s' Hok H. rewrite <- (scope_nil md s). eapply optimize__none_unsat; eauto.
  Qed.
  Theorem optimize_stack : forall fuel g st md s r s',
    optimize fuel g st md s = (ROk r, s') -> same_stack s s'.
  Proof. intros. eapply optimize__stack; eauto. Qed.

  (* explicit fuel: when the objective values of the models of the assertions lie in [lo, hi],
     2 + (hi - lo) + max(|lo|,|hi|) + 2 iterations (Int) resp. 2 + 2^w + 1 (BV) are enough *)
  Definition fuel_bound (g : goal) (lo hi : Z) : nat := S (S (mu_bound (norm_goal g) lo hi)).
  Theorem optimize_fuel_bound : forall g st md s lo hi, goal_ok g ->
    (exists mo, optimal (norm_goal g) (s_asserts model s) mo) ->
    (forall m', sat_all m' (s_asserts model s) -> lo <= V (norm_goal g) m' <= hi) ->
    exists m s', (forall fuel, (fuel_bound g lo hi <= fuel)%nat ->
        optimize fuel g st md s = (ROk (Some (m, tval (g_term g) m)), s'))
      /\ optimal (norm_goal g) (s_asserts model s) m /\ same_stack s s'.
  Proof.
    intros g st md s lo hi Hok [mo Hmo] Hb. rewrite <- (scope_nil md s) in Hmo, Hb.
    destruct (opt_core_feasible_bound (norm_goal g) st md [] _ _ (goal_ok_norm g Hok) mo lo hi Hmo Hb _ (SInv_push s))
      as (m & s' & Hrun & Hopt).
    rewrite norm_term in Hrun. unfold F in Hopt. rewrite eff_extra_nil, app_nil_r in Hopt.
    exists m, s'. split; [exact Hrun|]. split; [exact Hopt|].
    eapply optimize_stack. apply (Hrun (fuel_bound g lo hi)). apply le_n.
  Qed.

  (* MaxSMT with integer weights: the objective term is the sum of the weights of the
     satisfied soft clauses; the result maximises it *)
  Theorem maxsmt_optimal : forall g st md s, goal_ok g -> g_maxsmt g = true ->
    (exists mo, sat_all mo (s_asserts model s) /\
                forall m', sat_all m' (s_asserts model s) -> tval (g_term g) m' <= tval (g_term g) mo) ->
    g_ty g = TInt ->
    exists N m s', (forall fuel, (N <= fuel)%nat ->
        optimize fuel g st md s = (ROk (Some (m, tval (g_term g) m)), s'))
      /\ sat_all m (s_asserts model s)
      /\ (forall m', sat_all m' (s_asserts model s) -> tval (g_term g) m' <= tval (g_term g) m)
      /\ same_stack s s'.
  Proof.
    intros g st md s Hok Hms [mo [Hmo1 Hmo2]] Hty.
    assert (HV : forall m, V (norm_goal g) m = tval (g_term g) m).
    { intros m. unfold model_value, norm_goal. rewrite Hms. cbn. rewrite Hty. reflexivity. }
    assert (Hmax : g_max (norm_goal g) = true) by (unfold norm_goal; rewrite Hms; reflexivity).
    destruct (optimize_optimal g st md s Hok) as (N & m & s' & H1 & [H2 H3] & H4).
    { exists mo. split; auto. intros m' Hm'. unfold better_eq. rewrite Hmax, !HV. auto. }
    exists N, m, s'. split; auto. split; auto. split; auto.
    intros m' Hm'. specialize (H3 m' Hm'). unfold better_eq in H3. rewrite Hmax, !HV in H3. exact H3.
  Qed.

  (* ================================================================== boxed *)
  Notation boxed_loop := (boxed_loop model tval solve).
  Notation boxed := (boxed model tval solve).

  Definition boxed_entry_ok (A : list atom) (g : goal) (e : goal * (model * Z)) : Prop :=
    fst e = g /\ optimal (norm_goal g) A (fst (snd e)) /\ snd (snd e) = tval (g_term g) (fst (snd e)).

  Lemma boxed_loop_stack : forall fuel gs st md acc s r s',
    boxed_loop fuel gs st md acc s = (ROk r, s') -> same_stack s s'.
  Proof.
    intros fuel gs st md. induction gs as [|g gs IH]; intros acc s r s' H; cbn in H.
    - inversion H; subst. split; reflexivity.
    - destruct (optimize fuel g st md s) as [[[mv|]| |] s1] eqn:Ho; try discriminate.
      + destruct (optimize_stack _ _ _ _ _ _ _ Ho) as [E1 E2].
        destruct (IH _ _ _ _ H) as [E3 E4]. split; congruence.
      + inversion H; subst. eapply optimize_stack; eauto.
  Qed.
  Theorem boxed_stack : forall fuel gs st md s r s',
    boxed fuel gs st md s = (ROk r, s') -> same_stack s s'.
  Proof. intros. eapply boxed_loop_stack; eauto. Qed.

  Lemma boxed_loop_optimal : forall st md A gs, Forall goal_ok gs ->
    (forall g, In g gs -> exists mo, optimal (norm_goal g) A mo) ->
    forall acc s, s_asserts model s = A ->
    exists N res s', (forall fuel, (N <= fuel)%nat ->
        boxed_loop fuel gs st md acc s = (ROk (Some (rev acc ++ res)), s'))
      /\ Forall2 (boxed_entry_ok A) gs res.
  Proof.
    intros st md A. induction gs as [|g gs IH]; intros Hok Hatt acc s HA.
    - exists 0%nat, [], s. split; [|constructor]. intros fuel _. cbn. now rewrite app_nil_r.
    - inversion Hok as [|? ? Hg Hgs]; subst.
      destruct (optimize_optimal g st md s Hg (Hatt g (or_introl eq_refl))) as (N1 & m & s1 & Hrun1 & Hopt & [Hs1 Hs2]).
      destruct (IH Hgs (fun g' Hg' => Hatt g' (or_intror Hg')) ((g, (m, tval (g_term g) m)) :: acc) s1 Hs1)
        as (N2 & res & s2 & Hrun2 & Hres).
      exists (Nat.max N1 N2), ((g, (m, tval (g_term g) m)) :: res), s2. split.
      + intros fuel Hf. cbn [Optimizer.boxed_loop]. rewrite (Hrun1 fuel) by lia.
        rewrite (Hrun2 fuel) by lia. cbn. now rewrite <- app_assoc.
      + constructor; auto. unfold boxed_entry_ok. cbn. auto.
  Qed.
  Theorem boxed_optimal : forall gs st md s, Forall goal_ok gs ->
    (forall g, In g gs -> exists mo, optimal (norm_goal g) (s_asserts model s) mo) ->
    exists N res s', (forall fuel, (N <= fuel)%nat -> boxed fuel gs st md s = (ROk (Some res), s'))
      /\ Forall2 (boxed_entry_ok (s_asserts model s)) gs res /\ same_stack s s'.
  Proof.
    intros gs st md s Hok Hatt.
    destruct (boxed_loop_optimal st md _ gs Hok Hatt [] s eq_refl) as (N & res & s' & Hrun & Hres).
    exists N, res, s'. split; [exact Hrun|]. split; [exact Hres|].
    eapply boxed_stack. apply (Hrun N). lia.
  Qed.
  Theorem boxed_unsat : forall g gs st md s, goal_ok g ->
    (forall m, ~ sat_all m (s_asserts model s)) ->
    exists s', (forall fuel, (1 <= fuel)%nat -> boxed fuel (g :: gs) st md s = (ROk None, s')) /\ same_stack s s'.
  Proof.
    intros g gs st md s Hok Hun. destruct (optimize_unsat g st md s Hok Hun) as (s' & Hrun & Hst).
    exists s'. split; auto. intros fuel Hf. unfold Optimizer.boxed. cbn. rewrite (Hrun fuel Hf). reflexivity.
  Qed.

  (* ========================================================== lexicographic *)
  Notation lex_opt := (lex_opt model tval solve).
  Notation lex_loop := (lex_loop model tval solve).
  Notation lexicographic := (lexicographic model tval solve).

  Lemma same_stack_trans : forall a b c, same_stack a b -> same_stack b c -> same_stack a c.
  Proof. unfold same_stack. intros a b c [] []. split; congruence. Qed.
  Lemma pop_same : forall s s1, same_stack s s1 -> same_stack (pop s) (pop s1).
  Proof. unfold same_stack, Optimizer.pop. intros s s1 [Ha Hb]. rewrite Ha, Hb. destruct (s_bt model s); cbn; auto. Qed.
  Lemma pop_adds_push : forall l s, same_stack s (pop (adds l (push s))).
  Proof.
    intros l s. unfold same_stack, Optimizer.pop. rewrite adds_bt, adds_asserts. cbn.
    rewrite firstn_app_exact. auto.
  Qed.

  Lemma lex_opt_stack : forall fuel g st md cd s r s1,
    lex_opt fuel g st md cd s = (ROk r, s1) -> same_stack s s1.
  Proof.
    intros fuel g st md cd s r s1 H. unfold Optimizer.lex_opt in H. destruct md.
    - eapply optimize__stack; eauto.
    - destruct (optimize fuel g st Incr (adds cd (push s))) as [r0 s0] eqn:Ho.
      inversion H; subst. apply optimize_stack in Ho.
      eapply same_stack_trans; [apply (pop_adds_push cd s)|]. apply pop_same. exact Ho.
  Qed.

  Lemma lex_loop_stack : forall fuel gs st md cd last rt s r s',
    lex_loop fuel gs st md cd last rt s = (ROk r, s') -> same_stack (pop s) s'.
  Proof.
    intros fuel gs st md. induction gs as [|g gs IH]; intros cd last rt s r s' H; cbn in H.
    - destruct last; inversion H; subst. split; reflexivity.
    - destruct (lex_opt fuel g st md cd s) as [[[[m v]|]| |] s1] eqn:Ho; try discriminate.
      + apply lex_opt_stack in Ho. apply IH in H.
        eapply same_stack_trans; [apply pop_same; exact Ho | exact H].
      + apply lex_opt_stack in Ho. inversion H; subst. apply pop_same. exact Ho.
  Qed.

  (* every outcome (a solution or 'no solution') pops the level pushed by _setup *)
  Theorem lex_stack_restored : forall fuel gs st md s r s',
    lexicographic fuel gs st md s = (ROk r, s') -> same_stack s s'.
  Proof.
    intros fuel gs st md s r s' H. unfold Optimizer.lexicographic in H.
    destruct (existsb g_maxsmt gs); [discriminate|].
    apply lex_loop_stack in H. eapply same_stack_trans; [|exact H].
    apply (pop_adds_push [] s).
  Qed.

  (* the exact lexicographic optimum: optimal for the first goal, and among the models with
     that value optimal for the second, ... *)
  Fixpoint lex_optimal (gs : list goal) (Fc : list atom) (m : model) : Prop :=
    match gs with
    | [] => sat_all m Fc
    | g :: r => optimal g Fc m /\ lex_optimal r (Fc ++ [eq_atom g (tval (g_term g) m)]) m
    end.
  Lemma lex_optimal_sat : forall gs Fc m, lex_optimal gs Fc m -> sat_all m Fc.
  Proof. intros [|g r] Fc m H; cbn in H; [exact H | exact (proj1 (proj1 H))]. Qed.

  Lemma norm_goal_id : forall g, g_maxsmt g = false -> norm_goal g = g.
  Proof. intros g H. unfold norm_goal. now rewrite H. Qed.

  Lemma lex_opt_optimal : forall g st md cd s, goal_ok g -> g_maxsmt g = false ->
    (exists mo, optimal g (s_asserts model s ++ cd) mo) ->
    exists N m s1, (forall fuel, (N <= fuel)%nat ->
        lex_opt fuel g st md cd s = (ROk (Some (m, tval (g_term g) m)), s1))
      /\ optimal g (s_asserts model s ++ cd) m /\ same_stack s s1.
  Proof.
    intros g st md cd s Hok Hms Hmo. destruct md.
    - destruct (optimize__optimal g st SUA cd s Hok) as (N & m & s1 & H1 & H2 & H3).
      { rewrite norm_goal_id by auto. exact Hmo. }
      rewrite norm_goal_id in H2 by auto. exists N, m, s1. auto.
    - destruct (optimize_optimal g st Incr (adds cd (push s)) Hok) as (N & m & s1 & H1 & H2 & H3).
      { rewrite norm_goal_id by auto. rewrite adds_asserts. exact Hmo. }
      rewrite norm_goal_id in H2 by auto. rewrite adds_asserts in H2. cbn in H2.
      exists N, m, (pop s1). split.
      + intros fuel Hf. unfold Optimizer.lex_opt. rewrite (H1 fuel Hf). reflexivity.
      + split; [exact H2|]. eapply same_stack_trans; [apply (pop_adds_push cd s)|]. apply pop_same. exact H3.
  Qed.

  Lemma eq_atom_holds : forall g v m, holds m (eq_atom g v) = true <-> tval (g_term g) m = v.
  Proof. intros. unfold eq_atom. cbn. unfold holds_c. cbn. apply Z.eqb_eq. Qed.
  Lemma V_ext : forall g m m', tval (g_term g) m = tval (g_term g) m' -> V g m = V g m'.
  Proof. intros g m m' H. unfold model_value. now rewrite H. Qed.

  Lemma lex_loop_optimal : forall st md A gs,
    Forall goal_ok gs -> Forall (fun g => g_maxsmt g = false) gs ->
    (forall g cd, In g gs -> (exists m, sat_all m (A ++ cd)) -> exists mo, optimal g (A ++ cd) mo) ->
    forall cd last rt s, s_asserts model s = A ->
    (exists m, sat_all m (A ++ cd)) ->
    (gs = [] -> exists m, last = Some m /\ sat_all m (A ++ cd)) ->
    exists N m s', (forall fuel, (N <= fuel)%nat ->
        lex_loop fuel gs st md cd last rt s =
        (ROk (Some (m, rev rt ++ map (fun g => tval (g_term g) m) gs)), s'))
      /\ lex_optimal gs (A ++ cd) m.
  Proof.
    intros st md A. induction gs as [|g gs IH]; intros Hok Hms Hatt cd last rt s HA Hfeas Hlast.
    - destruct (Hlast eq_refl) as (m & -> & Hm). exists 0%nat, m, (pop s). split; [|exact Hm].
      intros fuel _. cbn. now rewrite app_nil_r.
    - inversion Hok as [|? ? Hg Hgs]; subst. inversion Hms as [|? ? Hm1 Hm2]; subst.
      destruct (lex_opt_optimal g st md cd s Hg Hm1 (Hatt g cd (or_introl eq_refl) Hfeas))
        as (N1 & m1 & s1 & Hrun1 & Hopt1 & [Hs1 _]).
      set (v1 := tval (g_term g) m1) in *.
      assert (Hm1sat : sat_all m1 (s_asserts model s ++ (cd ++ [eq_atom g v1]))).
      { rewrite app_assoc. apply sat_all_app. split; [exact (proj1 Hopt1)|].
        apply sat_all_one. apply eq_atom_holds. reflexivity. }
      destruct (IH Hgs Hm2 (fun g' cd' Hg' => Hatt g' cd' (or_intror Hg')) (cd ++ [eq_atom g v1]) (Some m1) (v1 :: rt) s1 Hs1)
        as (N2 & m & s2 & Hrun2 & Hopt2).
      { exists m1. exact Hm1sat. }
      { intros _. exists m1. split; [reflexivity | exact Hm1sat]. }
      pose proof (lex_optimal_sat _ _ _ Hopt2) as Hmsat. rewrite app_assoc in Hmsat.
      apply sat_all_app in Hmsat. destruct Hmsat as [Hmsat Hmeq].
      apply sat_all_one in Hmeq. apply eq_atom_holds in Hmeq.
      exists (Nat.max N1 N2), m, s2. split.
      + intros fuel Hf. cbn [Optimizer.lex_loop]. rewrite (Hrun1 fuel) by lia.
        rewrite (Hrun2 fuel) by lia. cbn. rewrite <- app_assoc. cbn. rewrite Hmeq. reflexivity.
      + cbn. split.
        * split; [exact Hmsat|]. intros m' Hm'. rewrite (V_ext g m m1 Hmeq). exact (proj2 Hopt1 m' Hm').
        * rewrite Hmeq. rewrite <- app_assoc. exact Hopt2.
  Qed.

  Theorem lex_optimal_thm : forall gs st md s, gs <> [] ->
    Forall goal_ok gs -> Forall (fun g => g_maxsmt g = false) gs ->
    (forall g cd, In g gs -> (exists m, sat_all m (s_asserts model s ++ cd)) ->
                  exists mo, optimal g (s_asserts model s ++ cd) mo) ->
    (exists m, sat_all m (s_asserts model s)) ->
    exists N m s', (forall fuel, (N <= fuel)%nat ->
        lexicographic fuel gs st md s = (ROk (Some (m, map (fun g => tval (g_term g) m) gs)), s'))
      /\ lex_optimal gs (s_asserts model s) m /\ same_stack s s'.
  Proof.
    intros gs st md s Hne Hok Hms Hatt Hfeas.
    destruct (lex_loop_optimal st md (s_asserts model s) gs Hok Hms Hatt [] None [] (push s) eq_refl)
      as (N & m & s' & Hrun & Hopt).
    { now rewrite app_nil_r. }
    { intros E. contradiction. }
    rewrite app_nil_r in Hopt.
    assert (Hrun' : forall fuel, (N <= fuel)%nat ->
              lexicographic fuel gs st md s = (ROk (Some (m, map (fun g => tval (g_term g) m) gs)), s')).
    { intros fuel Hf. unfold Optimizer.lexicographic.
      assert (E : existsb g_maxsmt gs = false).
      { clear -Hms. induction Hms as [|g l Hg Hl IH]; cbn; auto. now rewrite Hg, IH. }
      rewrite E. exact (Hrun fuel Hf). }
    exists N, m, s'. split; [exact Hrun'|]. split; [exact Hopt|].
    eapply lex_stack_restored. apply (Hrun' N). lia.
  Qed.

  (* 'no solution' exactly when unsat, for the lexicographic driver *)
  Theorem lex_unsat : forall g gs st md s, goal_ok g -> existsb g_maxsmt (g :: gs) = false ->
    (forall m, ~ sat_all m (s_asserts model s)) ->
    exists s', (forall fuel, (1 <= fuel)%nat -> lexicographic fuel (g :: gs) st md s = (ROk None, s'))
               /\ same_stack s s'.
  Proof.
    intros g gs st md s Hok Hms Hun.
    assert (Hlo : exists s1, forall fuel, (1 <= fuel)%nat -> lex_opt fuel g st md [] (push s) = (ROk None, s1)).
    { destruct md.
      - destruct (optimize__unsat g st SUA [] (push s) Hok) as (s1 & Hrun & _).
        { rewrite scope_nil. exact Hun. }
        exists s1. exact Hrun.
      - destruct (optimize_unsat g st Incr (adds [] (push (push s))) Hok) as (s1 & Hrun & _).
        { exact Hun. }
        exists (pop s1). intros fuel Hf. unfold Optimizer.lex_opt. rewrite (Hrun fuel Hf). reflexivity. }
    destruct Hlo as (s1 & Hrun).
    assert (Hrun' : forall fuel, (1 <= fuel)%nat -> lexicographic fuel (g :: gs) st md s = (ROk None, pop s1)).
    { intros fuel Hf. unfold Optimizer.lexicographic. rewrite Hms. cbn [Optimizer.lex_loop].
      rewrite (Hrun fuel Hf). reflexivity. }
    exists (pop s1). split; [exact Hrun'|]. eapply lex_stack_restored. apply (Hrun' 1%nat). lia.
  Qed.

  (* ================================================================= Pareto *)
  Notation pareto_check := (pareto_check model solve).
  Notation pareto_inner := (pareto_inner model tval solve).
  Notation pareto_outer := (pareto_outer model tval solve).
  Notation pareto := (pareto model tval solve).

  Lemma pareto_check_stack : forall md cd gs vals s r s1,
    pareto_check md cd gs vals s = (r, s1) ->
    s_bt model s1 = s_bt model s /\ exists ex, s_asserts model s1 = s_asserts model s ++ ex.
  Proof.
    intros md cd gs vals s r s1 H. unfold Optimizer.pareto_check, Optimizer.do_solve in H. destruct md.
    - inversion H; subst; cbn. split; auto. exists []. now rewrite app_nil_r.
    - inversion H; subst; cbn. rewrite adds_bt, adds_asserts. split; eauto.
  Qed.
  Lemma pareto_inner_stack : forall fuel md cd gs last s r s1,
    pareto_inner fuel md cd gs last s = (ROk r, s1) ->
    s_bt model s1 = s_bt model s /\ exists ex, s_asserts model s1 = s_asserts model s ++ ex.
  Proof.
    induction fuel as [|f IH]; intros md cd gs last s r s1 H; cbn in H; [discriminate|].
    destruct (pareto_check md cd gs (option_map (raw_vals model tval gs) last) s) as [r0 s0] eqn:Hc.
    apply pareto_check_stack in Hc. destruct Hc as [Hb [ex Ha]].
    destruct r0.
    - apply IH in H. destruct H as [Hb' [ex' Ha']]. split; [congruence|].
      exists (ex ++ ex'). rewrite Ha', Ha. now rewrite app_assoc.
    - inversion H; subst. eauto.
  Qed.
  Lemma pop_spec : forall s p r, s_bt model s = p :: r ->
    s_asserts model (pop s) = firstn p (s_asserts model s) /\ s_bt model (pop s) = r.
  Proof. intros s p r H. unfold Optimizer.pop. rewrite H. cbn. auto. Qed.
  Lemma pareto_outer_stack : forall A bt0 fuel md cd gs acc s blocks r s',
    s_asserts model s = A ++ blocks -> s_bt model s = length A :: bt0 ->
    pareto_outer fuel md cd gs acc s = (ROk r, s') ->
    s_asserts model s' = A /\ s_bt model s' = bt0.
  Proof.
    intros A bt0. induction fuel as [|f IH]; intros md cd gs acc s blocks r s' Ha Hb H; [discriminate|].
    cbn [Optimizer.pareto_outer] in H.
    destruct (pareto_inner (S f) md cd gs None (push s)) as [[[m|]| |] s1] eqn:Hi; try discriminate.
    - apply pareto_inner_stack in Hi. destruct Hi as [Hb1 [ex Ha1]]. cbn in Hb1, Ha1.
      assert (Hp : s_asserts model (pop s1) = A ++ blocks /\ s_bt model (pop s1) = length A :: bt0).
      { unfold Optimizer.pop. rewrite Hb1, Ha1. cbn. rewrite firstn_app_exact. auto. }
      destruct Hp as [Hpa Hpb]. destruct md.
      + eapply IH; eauto.
      + eapply (IH _ _ _ _ _ (blocks ++ [_])); [| |exact H]; cbn.
        * rewrite Hpa. now rewrite app_assoc.
        * exact Hpb.
    - apply pareto_inner_stack in Hi. destruct Hi as [Hb1 [ex Ha1]]. cbn in Hb1, Ha1.
      inversion H; subst.
      destruct (pop_spec s1 _ _ Hb1) as [Hq1 Hq2]. rewrite Ha1, firstn_app_exact in Hq1. rewrite Hb in Hq2.
      destruct (pop_spec (pop s1) _ _ Hq2) as [Hq3 Hq4]. rewrite Hq1, Ha, firstn_app_exact in Hq3. auto.
  Qed.
  Theorem pareto_stack : forall fuel gs md s r s',
    pareto fuel gs md s = (ROk r, s') -> same_stack s s'.
  Proof.
    intros fuel gs md s r s' H. unfold Optimizer.pareto in H.
    destruct (existsb g_maxsmt gs); [discriminate|]. destruct gs as [|g gs]; [discriminate|].
    eapply (pareto_outer_stack (s_asserts model s) (s_bt model s) _ _ _ _ _ _ []); [| |exact H]; cbn; auto.
    now rewrite app_nil_r.
  Qed.

  (* ------------------------------------------------ Pareto front (partial correctness) *)
  Definition sbetter (g : goal) (m b : model) : Prop := if g_max g then V g b < V g m else V g m < V g b.
  Definition wbetter (g : goal) (m b : model) : Prop := better_eq g (V g m) (V g b).
  (* m dominates b: at least as good on every goal, strictly better on one *)
  Definition dominates (gs : list goal) (m b : model) : Prop :=
    (forall g, In g gs -> wbetter g m b) /\ exists g, In g gs /\ sbetter g m b.
  Definition pareto_opt (gs : list goal) (A : list atom) (m : model) : Prop :=
    sat_all m A /\ forall m', sat_all m' A -> ~ dominates gs m' m.
  Definition beats_all (gs : list goal) (m : model) (ps : list model) : Prop :=
    forall p, In p ps -> exists g, In g gs /\ sbetter g m p.

  Notation holds_c := (holds_c model tval).
  Notation raw_vals := (raw_vals model tval).

  Lemma pareto_ns_holds : forall g m b,
    holds_c m (pareto_ns g (tval (g_term g) b)) = true <-> wbetter g m b.
  Proof.
    intros g m b. unfold pareto_ns, ns_atom, comparation, wbetter, better_eq, model_value, Optimizer.holds_c.
    destruct (g_ty g) as [|w]; destruct (g_max g); destruct (g_signed g);
      cbn [c_op c_view c_term c_k apply_view cmp_holds]; apply Z.leb_le.
  Qed.
  Lemma pareto_strict_holds : forall g m b,
    holds_c m (pareto_strict g (tval (g_term g) b)) = true <-> sbetter g m b.
  Proof.
    intros g m b. unfold pareto_strict, strict_atom, comparation, sbetter, model_value, Optimizer.holds_c.
    destruct (g_ty g) as [|w]; destruct (g_max g); destruct (g_signed g);
      cbn [c_op c_view c_term c_k apply_view cmp_holds]; apply Z.ltb_lt.
  Qed.
  Lemma zipw_raw : forall (f : goal -> Z -> catom) gs b,
    zipw f gs (raw_vals gs b) = map (fun g => f g (tval (g_term g) b)) gs.
  Proof.
    intros f gs b. unfold zipw, Optimizer.raw_vals. induction gs as [|g gs IH]; cbn; [reflexivity|].
    now rewrite IH.
  Qed.
  Lemma mk_or_holds : forall m l, holds m (mk_or l) = existsb (holds_c m) l.
  Proof. intros m [|c [|d r]]; cbn; auto. now rewrite orb_false_r. Qed.
  Lemma block_holds : forall gs m b,
    holds m (mk_or (zipw pareto_strict gs (raw_vals gs b))) = true <-> exists g, In g gs /\ sbetter g m b.
  Proof.
    intros gs m b. rewrite mk_or_holds, zipw_raw, existsb_exists. split.
    - intros [c [Hc1 Hc2]]. apply in_map_iff in Hc1. destruct Hc1 as [g [<- Hg]].
      exists g. split; auto. apply pareto_strict_holds; auto.
    - intros [g [Hg Hs]]. exists (pareto_strict g (tval (g_term g) b)). split.
      + apply in_map_iff. exists g. auto.
      + apply pareto_strict_holds; auto.
  Qed.
  Lemma k_holds : forall gs m b, sat_all m (pareto_k gs (Some (raw_vals gs b))) <-> dominates gs m b.
  Proof.
    intros gs m b. unfold pareto_k, dominates. rewrite sat_all_app, sat_all_one, block_holds, zipw_raw.
    split; intros [H1 H2]; split; auto.
    - intros g Hg. apply pareto_ns_holds. apply (H1 (ACmp (pareto_ns g (tval (g_term g) b)))).
      apply in_map. apply in_map_iff. exists g. auto.
    - intros a Ha. apply in_map_iff in Ha. destruct Ha as [c [<- Hc]].
      apply in_map_iff in Hc. destruct Hc as [g [<- Hg]]. cbn. apply pareto_ns_holds. auto.
  Qed.

  Lemma sbetter_w_trans : forall g a b c, wbetter g a b -> sbetter g b c -> sbetter g a c.
  Proof. unfold wbetter, sbetter, better_eq. intros g a b c. destruct (g_max g); lia. Qed.
  Lemma wbetter_trans : forall g a b c, wbetter g a b -> wbetter g b c -> wbetter g a c.
  Proof. unfold wbetter, better_eq. intros g a b c. destruct (g_max g); lia. Qed.
  Lemma sbetter_trans_w : forall g a b c, sbetter g a b -> wbetter g b c -> sbetter g a c.
  Proof. unfold wbetter, sbetter, better_eq. intros g a b c. destruct (g_max g); lia. Qed.
  Lemma dominates_trans : forall gs a b c, dominates gs a b -> dominates gs b c -> dominates gs a c.
  Proof.
    intros gs a b c [H1 [g [Hg Hs]]] [H3 _]. split.
    - intros g' Hg'. eapply wbetter_trans; eauto.
    - exists g. split; auto. eapply sbetter_trans_w; eauto.
  Qed.
  Lemma sb_or_wb : forall g m p, sbetter g m p \/ wbetter g p m.
  Proof. unfold wbetter, sbetter, better_eq. intros g m p. destruct (g_max g); lia. Qed.
  Lemma beats_or_covered : forall gs m p,
    (exists g, In g gs /\ sbetter g m p) \/ (forall g, In g gs -> wbetter g p m).
  Proof.
    induction gs as [|g gs IH]; intros m p.
    - right. intros g [].
    - destruct (sb_or_wb g m p) as [H|H].
      + left. exists g. split; [left|]; auto.
      + destruct (IH m p) as [[g' [Hg' Hs]]|Hall].
        * left. exists g'. split; [right|]; auto.
        * right. intros g' [<-|Hg']; auto.
  Qed.
  Lemma beats_all_or_covered : forall gs m ps,
    beats_all gs m ps \/ exists p, In p ps /\ forall g, In g gs -> wbetter g p m.
  Proof.
    induction ps as [|p ps IH].
    - left. intros p [].
    - destruct (beats_or_covered gs m p) as [H|H].
      + destruct IH as [Hall|[q [Hq Hc]]].
        * left. intros q [<-|Hq]; auto.
        * right. exists q. split; [right|]; auto.
      + right. exists p. split; [left|]; auto.
  Qed.

  (* one check of the inner loop *)
  Lemma pareto_check_spec : forall md cd gs vals s S0 ks r s0,
    s_asserts model s = S0 ++ ks -> pareto_check md cd gs vals s = (r, s0) ->
    let k := pareto_k gs vals in
    s_asserts model s0 = S0 ++ (match md with SUA => ks | Incr => ks ++ k end) /\
    (forall m, r = Some m -> sat_all m (S0 ++ eff_extra md cd) /\ sat_all m k) /\
    (r = None -> forall m, sat_all m (S0 ++ eff_extra md cd) -> sat_all m ks -> sat_all m k -> False).
  Proof.
    intros md cd gs vals s S0 ks r s0 Ha H k. unfold Optimizer.pareto_check, Optimizer.do_solve in H.
    fold k in H. destruct md; inversion H; subst r s0; clear H; cbn [eff_extra s_asserts].
    - split; [exact Ha|]. split.
      + intros m H1. apply solve_sound in H1. rewrite Ha in H1.
        rewrite !sat_all_app in H1. rewrite sat_all_app. tauto.
      + intros H1 m HR Hks Hk. apply (solve_complete _ H1 m). rewrite Ha.
        rewrite sat_all_app in HR. rewrite !sat_all_app. tauto.
    - rewrite adds_asserts, Ha, <- app_assoc. split; [reflexivity|]. split.
      + intros m H1. apply solve_sound in H1.
        rewrite !sat_all_app in H1. rewrite sat_all_app. split; [split; [tauto | apply sat_all_nil] | tauto].
      + intros H1 m HR Hks Hk. apply (solve_complete _ H1 m).
        rewrite sat_all_app in HR. rewrite !sat_all_app.
        split; [split; [tauto | split; tauto] | apply sat_all_nil].
  Qed.

  (* the inner loop ends in a model that nothing in its region dominates *)
  Lemma pareto_inner_spec : forall md cd gs S0 fuel last s ks r s1,
    s_asserts model s = S0 ++ ks ->
    match last with
    | None => ks = []
    | Some b => sat_all b (S0 ++ eff_extra md cd) /\
                (forall m, sat_all m (S0 ++ eff_extra md cd) -> dominates gs m b -> sat_all m ks)
    end ->
    pareto_inner fuel md cd gs last s = (ROk r, s1) ->
    match r with
    | Some b => sat_all b (S0 ++ eff_extra md cd) /\
                forall m, sat_all m (S0 ++ eff_extra md cd) -> ~ dominates gs m b
    | None => forall m, ~ sat_all m (S0 ++ eff_extra md cd)
    end.
  Proof.
    intros md cd gs S0. induction fuel as [|f IH]; intros last s ks r s1 Ha Hinv H; [discriminate|].
    cbn [Optimizer.pareto_inner] in H.
    destruct (pareto_check md cd gs (option_map (raw_vals gs) last) s) as [r0 s0] eqn:Hc.
    destruct (pareto_check_spec _ _ _ _ _ _ _ _ _ Ha Hc) as (Ha0 & Hsat & Hunsat).
    destruct r0 as [m0|].
    - destruct (Hsat m0 eq_refl) as [HR Hk]. eapply IH; [exact Ha0| |exact H]. cbn beta iota.
      split; [exact HR|]. intros m' HR' Hdom.
      destruct last as [b|]; cbn [option_map] in *.
      + destruct Hinv as [Hb Hks]. apply k_holds in Hk.
        assert (Hdb : dominates gs m' b) by (eapply dominates_trans; eauto).
        destruct md; [apply Hks; auto|]. apply sat_all_app. split; [apply Hks; auto | apply k_holds; auto].
      + subst ks. destruct md; cbn; apply sat_all_nil.
    - injection H as Hl Hs. subst r s1. destruct last as [b|]; cbn [option_map] in *.
      + destruct Hinv as [Hb Hks]. split; [exact Hb|]. intros m HR Hdom.
        apply (Hunsat eq_refl m HR); [apply Hks; auto | apply k_holds; auto].
      + subst ks. intros m HR. apply (Hunsat eq_refl m HR); apply sat_all_nil.
  Qed.

  Fixpoint front_distinct (gs : list goal) (acc : list (model * list Z)) : Prop :=
    match acc with
    | [] => True
    | e :: r => beats_all gs (fst e) (map fst r) /\ front_distinct gs r
    end.

  Lemma pareto_outer_spec : forall A gs md fuel cd acc s front s',
    (forall m, sat_all m (s_asserts model s ++ eff_extra md cd) <->
               sat_all m A /\ beats_all gs m (map fst acc)) ->
    (forall e, In e acc -> pareto_opt gs A (fst e) /\ snd e = raw_vals gs (fst e)) ->
    front_distinct gs acc ->
    pareto_outer fuel md cd gs acc s = (ROk front, s') ->
    exists accf, front = rev accf /\
      (forall e, In e accf -> pareto_opt gs A (fst e) /\ snd e = raw_vals gs (fst e)) /\
      front_distinct gs accf /\
      (forall m, sat_all m A -> ~ beats_all gs m (map fst accf)).
  Proof.
    intros A gs md. induction fuel as [|f IH]; intros cd acc s front s' Hq Hacc Hdis H; [discriminate|].
    cbn [Optimizer.pareto_outer] in H.
    destruct (pareto_inner (S f) md cd gs None (push s)) as [[[b|]| |] s1] eqn:Hi; try discriminate.
    - pose proof (pareto_inner_spec md cd gs (s_asserts model s) (S f) None (push s) [] _ _
                    ltac:(cbn; now rewrite app_nil_r) eq_refl Hi) as [HbR Hmin].
      apply pareto_inner_stack in Hi. destruct Hi as [Hb1 [ex Ha1]]. cbn in Hb1, Ha1.
      destruct (pop_spec s1 _ _ Hb1) as [Hpa _]. rewrite Ha1, firstn_app_exact in Hpa.
      pose proof (proj1 (Hq b) HbR) as [HbA Hbeats].
      assert (Hopt : pareto_opt gs A b).
      { split; [exact HbA|]. intros m' Hm' Hdom. apply (Hmin m'); [|exact Hdom].
        apply Hq. split; [exact Hm'|]. intros p Hp. destruct (Hbeats p Hp) as [g [Hg Hs]].
        exists g. split; auto. eapply sbetter_w_trans; [apply (proj1 Hdom g Hg) | exact Hs]. }
      set (blk := mk_or (zipw pareto_strict gs (raw_vals gs b))) in *.
      assert (Hacc' : forall e, In e ((b, raw_vals gs b) :: acc) ->
                                pareto_opt gs A (fst e) /\ snd e = raw_vals gs (fst e)).
      { intros e [<-|He]; [cbn; auto | auto]. }
      assert (Hdis' : front_distinct gs ((b, raw_vals gs b) :: acc)) by (cbn; auto).
      assert (Hbeat' : forall m, beats_all gs m (map fst ((b, raw_vals gs b) :: acc)) <->
                                 (beats_all gs m (map fst acc) /\ holds m blk = true)).
      { intros m. unfold blk. rewrite block_holds. cbn [map fst]. unfold beats_all. split.
        - intros Hall. split; [intros p Hp; apply Hall; right; auto | apply Hall; left; auto].
        - intros [H1 H2] p [<-|Hp]; auto. }
      destruct md.
      + eapply (IH (cd ++ [blk])); [| exact Hacc' | exact Hdis' | exact H].
        intros m. cbn [eff_extra]. rewrite Hpa, app_assoc, sat_all_app, sat_all_one, Hbeat'.
        specialize (Hq m). cbn [eff_extra] in Hq. tauto.
      + eapply (IH cd); [| exact Hacc' | exact Hdis' | exact H].
        intros m. cbn [eff_extra s_asserts Optimizer.add]. rewrite Hpa, app_nil_r, sat_all_app, sat_all_one, Hbeat'.
        specialize (Hq m). cbn [eff_extra] in Hq. rewrite app_nil_r in Hq. tauto.
    - pose proof (pareto_inner_spec md cd gs (s_asserts model s) (S f) None (push s) [] _ _
                    ltac:(cbn; now rewrite app_nil_r) eq_refl Hi) as Hun.
      inversion H; subst. exists acc. split; [reflexivity|]. split; [exact Hacc|]. split; [exact Hdis|].
      intros m Hm Hb. apply (Hun m). apply Hq. auto.
  Qed.

  Definition pvec (gs : list goal) (m : model) : list Z := map (fun g => V g m) gs.

  Lemma front_distinct_nodup : forall gs acc, front_distinct gs acc ->
    NoDup (map (fun e => pvec gs (fst e)) acc).
  Proof.
    intros gs. induction acc as [|e r IH]; intros H; cbn; [constructor|].
    destruct H as [Hb Hr]. constructor; [|auto].
    intros Hin. apply in_map_iff in Hin. destruct Hin as [e' [Heq He']].
    destruct (Hb (fst e') (in_map fst _ _ He')) as [g [Hg Hs]].
    assert (E : V g (fst e') = V g (fst e)).
    { unfold pvec in Heq. clear -Heq Hg. induction gs as [|g0 gs IHg]; [contradiction|].
      cbn in Heq. inversion Heq. destruct Hg as [<-|Hg]; auto. }
    unfold sbetter in Hs. destruct (g_max g); lia.
  Qed.

  (* pareto_optimize run to exhaustion: IF the loops end (enough fuel), the yielded list is
     exactly the Pareto front: every entry is a model of the assertions that no model dominates,
     every Pareto-optimal model has its objective vector in the list, no vector occurs twice *)
  Theorem pareto_front_partial : forall fuel gs md s front s',
    pareto fuel gs md s = (ROk front, s') ->
    (forall e, In e front -> pareto_opt gs (s_asserts model s) (fst e) /\ snd e = raw_vals gs (fst e)) /\
    (forall m, pareto_opt gs (s_asserts model s) m ->
               exists e, In e front /\ pvec gs (fst e) = pvec gs m) /\
    NoDup (map (fun e => pvec gs (fst e)) front) /\
    same_stack s s'.
  Proof.
    intros fuel gs md s front s' H. pose proof (pareto_stack _ _ _ _ _ _ H) as Hst.
    unfold Optimizer.pareto in H.
    destruct (existsb g_maxsmt gs); [discriminate|]. destruct gs as [|g0 gs0]; [discriminate|].
    set (gs := g0 :: gs0) in *.
    destruct (pareto_outer_spec (s_asserts model s) gs md fuel [] [] (push s) front s') as (accf & -> & Hall & Hdis & Hcov); auto.
    { intros m. cbn [s_asserts Optimizer.push]. rewrite eff_extra_nil, app_nil_r. split; [|tauto].
      intros Hm. split; auto. intros p []. }
    { intros e []. }
    { exact I. }
    split; [intros e He; apply Hall; apply in_rev; exact He|]. split; [|split; [|exact Hst]].
    - intros m [HmA Hmopt]. destruct (beats_all_or_covered gs m (map fst accf)) as [Hb|[p [Hp Hc]]].
      + exfalso. exact (Hcov m HmA Hb).
      + apply in_map_iff in Hp. destruct Hp as [e [<- He]]. exists e. split; [rewrite <- in_rev; exact He|].
        destruct (Hall e He) as [[HeA _] _].
        unfold pvec. apply map_ext_in. intros g Hg.
        pose proof (Hc g Hg) as Hcg. destruct (sb_or_wb g (fst e) m) as [Hs|Hw].
        * exfalso. apply (Hmopt (fst e) HeA). split; [exact Hc | exists g; auto].
        * unfold wbetter, better_eq in *. destruct (g_max g); lia.
    - rewrite map_rev. apply NoDup_rev. apply front_distinct_nodup. exact Hdis.
  Qed.
End Proofs.

(* ===================================================================== witnesses *)
(* A two-element universe with an exhaustive oracle: the hypotheses of the theorems above are
   satisfiable by non-trivial states. *)
Module Witness.
  Definition mdl := bool.
  Definition bh (i : nat) (m : mdl) : bool := true.
  Definition tv (t : nat) (m : mdl) : Z := if m then 1 else 0.
  Definition hd (m : mdl) : atom -> bool := holds mdl bh tv m.
  Definition sv (q : list atom) : option mdl :=
    if forallb (hd false) q then Some false else if forallb (hd true) q then Some true else None.

  Lemma sv_sound : forall q m, sv q = Some m -> sat_all mdl bh tv m q.
  Proof.
    unfold sv, sat_all. intros q m H a Ha.
    destruct (forallb (hd false) q) eqn:E1.
    - inversion H; subst. rewrite forallb_forall in E1. exact (E1 a Ha).
    - destruct (forallb (hd true) q) eqn:E2; [|discriminate].
      inversion H; subst. rewrite forallb_forall in E2. exact (E2 a Ha).
  Qed.
  Lemma sv_complete : forall q, sv q = None -> forall m, ~ sat_all mdl bh tv m q.
  Proof.
    unfold sv, sat_all. intros q H m Hm.
    destruct (forallb (hd false) q) eqn:E1; [discriminate|].
    destruct (forallb (hd true) q) eqn:E2; [discriminate|].
    assert (E : forallb (hd m) q = true) by (apply forallb_forall; exact Hm).
    destruct m; congruence.
  Qed.

  Definition g_int_max := mkG 0 TInt false true false.
  Definition g_bv_min := mkG 0 (TBV 1) true false false.
  Definition s0 : solver mdl := mkS mdl [ABase 0] [3%nat] [].

  (* the hypotheses of optimize_optimal / lex_optimal_partial hold in a non-trivial state *)
  Example hyps_int : goal_ok mdl tv g_int_max /\ exists mo, optimal mdl bh tv (norm_goal g_int_max) (s_asserts mdl s0) mo.
  Proof.
    split; [exact I|]. exists true. split.
    - intros a [<-|[]]. reflexivity.
    - intros m' _. unfold better_eq. cbn. destruct m'; cbn; lia.
  Qed.
  Example hyps_bv : goal_ok mdl tv g_bv_min /\ exists mo, optimal mdl bh tv (norm_goal g_bv_min) (s_asserts mdl s0) mo.
  Proof.
    split.
    - split; [lia|]. intros m. destruct m; cbn; lia.
    - exists true. split.
      + intros a [<-|[]]. reflexivity.
      + intros m' _. unfold better_eq. cbn. destruct m'; cbn; lia.
  Qed.
  Example optimize_runs :
    fst (optimize mdl tv sv 10 g_bv_min Binary Incr s0) = ROk (Some (true, 1)).
  Proof. vm_compute. reflexivity. Qed.

  (* the premise of pareto_front_partial (the run ends) holds in a non-trivial state: two goals
     pulling in opposite directions, both elements of the universe are on the front *)
  Example pareto_runs :
    fst (pareto mdl tv sv 10 [g_int_max; mkG 0 TInt false false false] Incr s0) =
    ROk [(false, [0; 0]); (true, [1; 1])].
  Proof. vm_compute. reflexivity. Qed.

  (* a successful lexicographic run: solution found, stack and backtrack points as before *)
  Example lex_runs :
    exists s', lexicographic mdl tv sv 10 [g_int_max] Linear SUA s0 = (ROk (Some (true, [1])), s') /\
               s_asserts mdl s' = [ABase 0] /\ s_bt mdl s' = [3%nat].
  Proof. eexists. split; [vm_compute; reflexivity|]. split; reflexivity. Qed.
End Witness.

(* ============================================ packaged statements (used by props/C18.v) *)
Definition oracle_ok (model : Type) (base_holds : nat -> model -> bool) (tval : nat -> model -> Z)
           (solve : list atom -> option model) : Prop :=
  (forall q m, solve q = Some m -> sat_all model base_holds tval m q) /\
  (forall q, solve q = None -> forall m, ~ sat_all model base_holds tval m q).

Section Packaged.
  Variable model : Type.
  Variable base_holds : nat -> model -> bool.
  Variable tval : nat -> model -> Z.
  Variable solve : list atom -> option model.
  Hypothesis Horacle : oracle_ok model base_holds tval solve.
  Let Hs := proj1 Horacle.
  Let Hc := proj2 Horacle.

  Definition p_optimize_optimal := optimize_optimal model base_holds tval solve Hs Hc.
  Definition p_optimize_fuel_bound := optimize_fuel_bound model base_holds tval solve Hs Hc.
  Definition p_optimize_unsat := optimize_unsat model base_holds tval solve Hs.
  Definition p_optimize_none_unsat := optimize_none_unsat model base_holds tval solve Hc.
  Definition p_maxsmt_optimal := maxsmt_optimal model base_holds tval solve Hs Hc.
  Definition p_boxed_optimal := boxed_optimal model base_holds tval solve Hs Hc.
  Definition p_boxed_unsat := boxed_unsat model base_holds tval solve Hs.
  Definition p_lex_optimal := lex_optimal_thm model base_holds tval solve Hs Hc.
  Definition p_lex_unsat := lex_unsat model base_holds tval solve Hs.
  Definition p_pareto_front_partial := pareto_front_partial model base_holds tval solve Hs Hc.
End Packaged.

(* =============================== Max / Min encodings used by MinMaxGoal / MaxMinGoal *)
(* _MaxWrap(le, terms) (resp. _MinWrap) evaluates to an element of the list that is greatest
   (resp. least) in the order that `le` compares: f = identity for Int and BVULE, the two's
   complement reading for BVSLE. *)
Lemma wrap_fuel_spec : forall (pick : Z -> Z -> Z) (P : Z -> Z -> Prop),
  (forall a, P a a) -> (forall a b c, P a b -> P b c -> P a c) ->
  (forall a b, (pick a b = a \/ pick a b = b) /\ P a (pick a b) /\ P b (pick a b)) ->
  forall n l, (length l <= n)%nat -> l <> [] ->
  exists v, wrap_fuel n pick l = Some v /\ In v l /\ forall x, In x l -> P x v.
Proof.
  intros pick P Prefl Ptrans Hpick. induction n as [|n IH]; intros l Hlen Hne.
  - destruct l; [contradiction | cbn in Hlen; lia].
  - destruct l as [|a [|b [|c r]]]; [contradiction | | |].
    + exists a. cbn. split; auto. split; auto. intros x [<-|[]]. apply Prefl.
    + exists (pick a b). destruct (Hpick a b) as (Hor & Ha & Hb). cbn. split; auto. split.
      * destruct Hor as [->| ->]; auto.
      * intros x [<-|[<-|[]]]; auto.
    + set (l := a :: b :: c :: r) in *. set (h := Nat.div (length l) 2).
      assert (Hh : (1 <= h < length l)%nat).
      { unfold h. assert (3 <= length l)%nat by (cbn; lia).
        split; [apply Nat.div_le_lower_bound; lia | apply Nat.div_lt; lia]. }
      assert (Hsplit : l = firstn h l ++ skipn h l) by (symmetry; apply firstn_skipn).
      destruct (IH (firstn h l)) as (x & Hx1 & Hx2 & Hx3).
      { rewrite firstn_length. lia. }
      { intros E. apply (f_equal (@length Z)) in E. rewrite firstn_length in E. cbn [length] in E. lia. }
      destruct (IH (skipn h l)) as (y & Hy1 & Hy2 & Hy3).
      { rewrite skipn_length. lia. }
      { intros E. apply (f_equal (@length Z)) in E. rewrite skipn_length in E. cbn [length] in E. lia. }
      exists (pick x y). destruct (Hpick x y) as (Hor & Hpx & Hpy).
      split; [| split].
      * change (wrap_fuel (S n) pick l) with
          (match wrap_fuel n pick (firstn h l), wrap_fuel n pick (skipn h l) with
           | Some x, Some y => Some (pick x y) | _, _ => None end).
        rewrite Hx1, Hy1. reflexivity.
      * rewrite Hsplit. apply in_or_app. destruct Hor as [->| ->]; auto.
      * intros z Hz. rewrite Hsplit in Hz. apply in_app_or in Hz. destruct Hz as [Hz|Hz].
        -- eapply Ptrans; [apply Hx3; exact Hz | exact Hpx].
        -- eapply Ptrans; [apply Hy3; exact Hz | exact Hpy].
Qed.

Theorem max_wrap_is_max : forall (f : Z -> Z) l, l <> [] ->
  exists v, wrap_fuel (length l) (max_pick (fun a b => f a <=? f b)) l = Some v /\ In v l /\
            forall x, In x l -> f x <= f v.
Proof.
  intros f l Hne.
  apply (wrap_fuel_spec (max_pick (fun a b => f a <=? f b)) (fun x v => f x <= f v)); auto; try lia.
  intros a b. unfold max_pick. destruct (f a <=? f b) eqn:E; [apply Z.leb_le in E | apply Z.leb_gt in E]; lia.
Qed.
Theorem min_wrap_is_min : forall (f : Z -> Z) l, l <> [] ->
  exists v, wrap_fuel (length l) (min_pick (fun a b => f a <=? f b)) l = Some v /\ In v l /\
            forall x, In x l -> f v <= f x.
Proof.
  intros f l Hne.
  apply (wrap_fuel_spec (min_pick (fun a b => f a <=? f b)) (fun x v => f v <= f x)); auto; try lia.
  intros a b. unfold min_pick. destruct (f a <=? f b) eqn:E; [apply Z.leb_le in E | apply Z.leb_gt in E]; lia.
Qed.
