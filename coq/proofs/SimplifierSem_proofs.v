(* C01, semantic clause: the model of the simplifier (models/Simplifier.v) preserves the type
   and the value of a term, against the specification core/Sem.v, for every order oracle.
   Staged: [okt] is the fragment predicate of the operators proved so far.
   The per-rule lemmas are in SimplifierSemBase_proofs.v, SimplifierSemArr_proofs.v and
   SimplifierSemStr_proofs.v. *)
From Coq Require Import List ZArith Bool String Reals Lia Lra Permutation.
From Coq Require Import ClassicalDescription FunctionalExtensionality.
From PySMT.core Require Import Syntax SyntaxLemmas PyPrims PyPrimsLemmas Types Sem.
From PySMT.models Require Import TypeChecker Oracles Ctors Simplifier.
From PySMT.proofs Require Import Sets_proofs TypeChecker_proofs Coincidence Simplifier_proofs.
From PySMT.proofs Require Export SimplifierSemBase_proofs SimplifierSemArr_proofs SimplifierSemStr_proofs.
Import ListNotations.
Open Scope bool_scope.

(* ================================================================== one node, stage 1 *)
Lemma tys_eqb_length a b : tys_eqb a b = true -> List.length a = List.length b.
Proof. revert b. induction a as [|x r IH]; intros [|y s]; cbn; try discriminate; auto. intros H. apply andb_true_iff in H. f_equal. apply IH. tauto. Qed.
Lemma tcs_length : forall l tys, tcs l = Some tys -> List.length tys = List.length l.
Proof. intros l tys H. apply tcs_Forall2 in H. symmetry. induction H; cbn; auto. Qed.

Definition div_ok (I : interp) (o : op) (args : list term) : Prop :=
  match o, args with ODiv, [a; b] => ~ is_zero_val (eval I b) | _, _ => True end.
Lemma res_weaken I r ty v (P : Prop) : res_ok I r ty v -> okt r = true /\ tc r = Some ty /\ (P -> eval I r = v).
Proof. intros (A & B & C). auto. Qed.
Lemma bv_res_ok I w r x t : bv_res I w r x -> eval I t = VBV w x -> res_ok I r (TBV w) (eval I t).
Proof. intros [[O Tc] Ev] Et. rewrite Et. repeat split; auto. Qed.
Lemma nterm_res I t r a : wfi I -> arith t -> nterm t r -> nterm t a -> rv I r = rv I a -> res_ok I r t (eval I a).
Proof. intros Hwf Ht [O Tc] Na E. repeat split; auto. apply (nterm_eval_eq I t); auto. split; auto. Qed.

Lemma rule_sound1 I ora o args ty r : wfi I ->
  okt (T o args) = true -> tc (T o args) = Some ty -> rule ora o args = Some r ->
  okt r = true /\ tc r = Some ty /\ (div_ok I o args -> eval I r = eval I (T o args)).
Proof.
  intros Hwf Hok Htc E.
  pose proof (okt_args _ _ Hok) as Fa. pose proof (okt_node _ _ Hok) as Hn.
  destruct (tc_inv _ _ _ Htc) as (tys & Ht & Hr). pose proof (tcs_Forall2 _ _ Ht) as F2.
  assert (Hid : res_ok I (T o args) ty (eval I (T o args))) by (repeat split; auto).
  assert (Hnd : match o with ODiv => False | _ => True end -> res_ok I r ty (eval I (T o args))); [intros Hnodiv|].
  {
  destruct o; cbn [ok_node] in Hn; try discriminate Hn; cbn [rule] in E; unfold un, bin, tern in E.
  - (* forall *)
    destruct args as [|b [|? ?]]; try discriminate. inversion E; subst.
    assert (ty = TBool /\ tc b = Some TBool) as [-> Hb].
    { inversion F2 as [|? tb ? ? Hb F2']; subst. inversion F2'; subst. cbn in Hr. destruct tb; try discriminate. inversion Hr. auto. }
    now apply r_quant_forall_sound.
  - (* exists *)
    destruct args as [|b [|? ?]]; try discriminate. inversion E; subst.
    assert (ty = TBool /\ tc b = Some TBool) as [-> Hb].
    { inversion F2 as [|? tb ? ? Hb F2']; subst. inversion F2'; subst. cbn in Hr. destruct tb; try discriminate. inversion Hr. auto. }
    now apply r_quant_exists_sound.
  - (* and *)
    inversion E; subst. cbn in Hr. apply all_bool_inv in Hr. destruct Hr as [-> _].
    pose proof (bterm_args OAnd args (or_introl eq_refl) (conj Hok Htc)) as F.
    destruct (r_and_sound I Hwf ora args F) as [B1 B2].
    rewrite (bterm_eval I Hwf _ (conj Hok Htc)). apply res_ok_bool; auto. now rewrite B2, bv_and.
  - (* or *)
    inversion E; subst. cbn in Hr. apply all_bool_inv in Hr. destruct Hr as [-> _].
    pose proof (bterm_args OOr args (or_intror (or_introl eq_refl)) (conj Hok Htc)) as F.
    destruct (r_or_sound I Hwf ora args F) as [B1 B2].
    rewrite (bterm_eval I Hwf _ (conj Hok Htc)). apply res_ok_bool; auto. now rewrite B2, bv_or.
  - (* not *)
    destruct args as [|a [|? ?]]; try discriminate. inversion E; subst.
    cbn in Hr. apply all_bool_inv in Hr. destruct Hr as [-> _].
    pose proof (bterm_args ONot [a] (or_intror (or_intror (or_introl eq_refl))) (conj Hok Htc)) as F. inversion F; subst.
    destruct (r_not_sound I a H1) as [B1 B2].
    rewrite (bterm_eval I Hwf _ (conj Hok Htc)). apply res_ok_bool; auto.
  - (* implies *)
    destruct args as [|a [|b [|? ?]]]; try discriminate. inversion E; subst.
    cbn in Hr. apply all_bool_inv in Hr. destruct Hr as [-> _].
    pose proof (bterm_args OImplies [a; b] (or_intror (or_intror (or_intror (or_introl eq_refl)))) (conj Hok Htc)) as F.
    inversion F as [|? ? Ha F']; subst. inversion F' as [|? ? Hb ?]; subst.
    destruct (r_implies_sound I a b Ha Hb) as [B1 B2].
    rewrite (bterm_eval I Hwf _ (conj Hok Htc)). apply res_ok_bool; auto.
  - (* iff *)
    destruct args as [|a [|b [|? ?]]]; try discriminate. inversion E; subst.
    cbn in Hr. apply all_bool_inv in Hr. destruct Hr as [-> _].
    pose proof (bterm_args OIff [a; b] (or_intror (or_intror (or_intror (or_intror eq_refl)))) (conj Hok Htc)) as F.
    inversion F as [|? ? Ha F']; subst. inversion F' as [|? ? Hb ?]; subst.
    destruct (r_iff_sound I a b Ha Hb) as [B1 B2].
    rewrite (bterm_eval I Hwf _ (conj Hok Htc)). apply res_ok_bool; auto.
  - (* symbol *) inversion E; subst. exact Hid.
  - (* function *)
    destruct t; try discriminate. apply andb_true_iff in Hn. destruct Hn as [_ Hne].
    unfold mk_function in E. destruct args as [|a0 rest]; [discriminate|].
    cbn in Hr. destruct (tys_eqb tys ps) eqn:Et; [|discriminate].
    apply tys_eqb_length in Et. rewrite (tcs_length _ _ Ht) in Et. rewrite <- Et, Nat.eqb_refl in E.
    inversion E; subst. exact Hid.
  - inversion E; subst. exact Hid.
  - inversion E; subst. exact Hid.
  - inversion E; subst. exact Hid.
  - inversion E; subst. exact Hid.
  - (* plus *)
    apply arith_rule_inv in Hr. destruct Hr as [Har _].
    destruct (nterm_args OPlus ty args (or_introl eq_refl) (conj Hok Htc)) as [_ F].
    assert (Hne : args <> []) by (destruct args; [discriminate | congruence]).
    destruct (r_plus_sound I Hwf ty Har args r Hne F E) as [Nr Rr].
    apply (nterm_res I ty); auto; [split; auto|]. rewrite Rr. symmetry. now apply (rv_plus I ty).
  - (* minus *)
    apply arith_rule_inv in Hr. destruct Hr as [Har _].
    destruct (nterm_args OMinus ty args (or_intror (or_intror (or_introl eq_refl))) (conj Hok Htc)) as [_ F].
    destruct args as [|a [|b [|? ?]]]; try discriminate. inversion F as [|? ? Na F']; subst. inversion F' as [|? ? Nb ?]; subst.
    destruct (r_minus_sound I Hwf ty Har a b r Na Nb E) as [Nr Rr].
    apply (nterm_res I ty); auto; [split; auto|]. rewrite Rr. symmetry. now apply (rv_minus I Hwf ty).
  - (* times *)
    apply arith_rule_inv in Hr. destruct Hr as [Har _].
    destruct (nterm_args OTimes ty args (or_intror (or_introl eq_refl)) (conj Hok Htc)) as [_ F].
    assert (Hne : args <> []) by (destruct args; [discriminate | congruence]).
    destruct (r_times_sound I Hwf ora ty Har args r Hne F E) as [Nr Rr].
    apply (nterm_res I ty); auto; [split; auto|]. rewrite Rr. symmetry. now apply (rv_times I ty).
  - (* le *)
    destruct args as [|a [|b [|? ?]]]; try discriminate.
    destruct (rel_args OLe a b ty (or_introl eq_refl) Hok Htc) as [-> (u & Hu & Na & Nb)].
    destruct (r_le_sound I Hwf u Hu a b r Na Nb E) as [B1 B2].
    rewrite (bterm_eval I Hwf _ (conj Hok Htc)). apply res_ok_bool; auto. now rewrite B2, (bv_le I Hwf u).
  - (* lt *)
    destruct args as [|a [|b [|? ?]]]; try discriminate.
    destruct (rel_args OLt a b ty (or_intror eq_refl) Hok Htc) as [-> (u & Hu & Na & Nb)].
    destruct (r_lt_sound I Hwf u Hu a b r Na Nb E) as [B1 B2].
    rewrite (bterm_eval I Hwf _ (conj Hok Htc)). apply res_ok_bool; auto. now rewrite B2, (bv_lt I Hwf u).
  - (* equals *)
    destruct args as [|a [|b [|? ?]]]; try discriminate.
    inversion Fa as [|? ? Oa Fa']; subst. inversion Fa' as [|? ? Ob ?]; subst.
    destruct (is_array_value a || is_array_value b) eqn:Harr.
    + eapply r_equals_arr_sound; eauto.
    + apply orb_false_iff in Harr. destruct Harr. eapply r_equals_sound; eauto.
  - (* ite *)
    destruct args as [|c [|a [|b [|? ?]]]]; try discriminate. inversion E; subst.
    inversion Fa as [|? ? Oc Fa']; subst. inversion Fa' as [|? ? Oa Fa'']; subst. inversion Fa'' as [|? ? Ob ?]; subst.
    now apply r_ite_sound.
  - (* toreal *)
    destruct args as [|a [|? ?]]; try discriminate.
    pose proof (ttt_out _ _ _ _ Hr) as ->. apply type_to_type_inv in Hr. destruct Hr as [Hall _].
    inversion F2 as [|? ta ? ? Ha F2']; subst. inversion F2'; subst. inversion Hall; subst.
    inversion Fa as [|? ? Oa ?]; subst.
    destruct (r_toreal_sound I Hwf a r (conj Oa Ha) E) as [[O Tc] Ev]. repeat split; auto.
  - inversion E; subst. exact Hid.
  - (* bv operators *)
    apply andb_true_iff in Hn. destruct Hn as [Hw Hk]. apply Z.ltb_lt in Hw.
    assert (Hres : forall x, bv_res I w r x -> eval I (T (OBV k w) args) = VBV w x -> ty = TBV w -> res_ok I r ty (eval I (T (OBV k w) args))).
    { intros x [[O Tc] Ev] Ee ->. rewrite Ee. repeat split; auto. }
    destruct k; try discriminate Hk; cbn [rule] in E.
    + destruct (bv_args_generic BNot w args ty Logic.I Hok Htc) as [Ety F]. destruct args as [|a [|? ?]]; try discriminate. inversion F as [|? ? Na _]; subst.
      eapply Hres; [exact (r_bv_not_sound I Hwf w a r Hw Na E) | now rewrite (bvz_bvun I Hwf _ w a Na) | reflexivity].
    + destruct (bv_args_generic BAnd w args ty Logic.I Hok Htc) as [Ety F]. destruct args as [|a [|b [|? ?]]]; try discriminate.
      inversion F as [|? ? Na F']; subst. inversion F' as [|? ? Nb _]; subst.
      eapply Hres; [exact (r_bv_and_sound I Hwf w a b r Hw Na Nb E) | now rewrite (bvz_bvop I Hwf _ w a b Na Nb) | reflexivity].
    + destruct (bv_args_generic BOr w args ty Logic.I Hok Htc) as [Ety F]. destruct args as [|a [|b [|? ?]]]; try discriminate.
      inversion F as [|? ? Na F']; subst. inversion F' as [|? ? Nb _]; subst.
      eapply Hres; [exact (r_bv_or_sound I Hwf w a b r Hw Na Nb E) | now rewrite (bvz_bvop I Hwf _ w a b Na Nb) | reflexivity].
    + destruct (bv_args_generic BXor w args ty Logic.I Hok Htc) as [Ety F]. destruct args as [|a [|b [|? ?]]]; try discriminate.
      inversion F as [|? ? Na F']; subst. inversion F' as [|? ? Nb _]; subst.
      eapply Hres; [exact (r_bv_xor_sound I Hwf w a b r Hw Na Nb E) | now rewrite (bvz_bvop I Hwf _ w a b Na Nb) | reflexivity].
    + (* concat *)
      destruct args as [|a [|b [|? ?]]]; try discriminate.
      destruct (bv_args_pair _ a b ty Hok Htc) as (ta & tb & Oa & Ob & Ta & Tb & Hr2).
      cbn in Hr2. destruct ta as [| | | |wa| | |]; try discriminate. destruct tb as [| | | |wb| | |]; try discriminate.
      destruct (Z.eqb_spec (wa + wb) w) as [Ew|]; [|discriminate]. inversion Hr2; subst ty.
      eapply Hres; [exact (r_bv_concat_sound I Hwf wa wb w a b r Hw (eq_sym Ew) (conj Oa Ta) (conj Ob Tb) E) | | reflexivity].
      rewrite eval_plain by reflexivity. cbn [map op_sem].
      destruct (bvterm_eval I Hwf wa a (conj Oa Ta)) as [-> _]. destruct (bvterm_eval I Hwf wb b (conj Ob Tb)) as [-> _]. cbn. now rewrite Ew.
    + destruct (bv_args_generic BNeg w args ty Logic.I Hok Htc) as [Ety F]. destruct args as [|a [|? ?]]; try discriminate. inversion F as [|? ? Na _]; subst.
      eapply Hres; [exact (r_bv_neg_sound I Hwf w a r Hw Na E) | now rewrite (bvz_bvun I Hwf _ w a Na) | reflexivity].
    + destruct (bv_args_generic BAdd w args ty Logic.I Hok Htc) as [Ety F]. destruct args as [|a [|b [|? ?]]]; try discriminate.
      inversion F as [|? ? Na F']; subst. inversion F' as [|? ? Nb _]; subst.
      eapply Hres; [exact (r_bv_add_sound I Hwf w a b r Hw Na Nb E) | now rewrite (bvz_bvop I Hwf _ w a b Na Nb) | reflexivity].
    + destruct (bv_args_generic BSub w args ty Logic.I Hok Htc) as [Ety F]. destruct args as [|a [|b [|? ?]]]; try discriminate.
      inversion F as [|? ? Na F']; subst. inversion F' as [|? ? Nb _]; subst.
      eapply Hres; [exact (r_bv_sub_sound I Hwf w a b r Hw Na Nb E) | now rewrite (bvz_bvop I Hwf _ w a b Na Nb) | reflexivity].
    + destruct (bv_args_generic BMul w args ty Logic.I Hok Htc) as [Ety F]. destruct args as [|a [|b [|? ?]]]; try discriminate.
      inversion F as [|? ? Na F']; subst. inversion F' as [|? ? Nb _]; subst.
      eapply Hres; [exact (r_bv_mul_sound I Hwf w a b r Hw Na Nb E) | now rewrite (bvz_bvop I Hwf _ w a b Na Nb) | reflexivity].
    + destruct (bv_args_generic BUdiv w args ty Logic.I Hok Htc) as [Ety F]. destruct args as [|a [|b [|? ?]]]; try discriminate.
      inversion F as [|? ? Na F']; subst. inversion F' as [|? ? Nb _]; subst.
      eapply Hres; [exact (r_bv_udiv_sound I Hwf w a b r Hw Na Nb E) | now rewrite (bvz_bvop I Hwf _ w a b Na Nb) | reflexivity].
    + destruct (bv_args_generic BUrem w args ty Logic.I Hok Htc) as [Ety F]. destruct args as [|a [|b [|? ?]]]; try discriminate.
      inversion F as [|? ? Na F']; subst. inversion F' as [|? ? Nb _]; subst.
      eapply Hres; [exact (r_bv_urem_sound I Hwf w a b r Hw Na Nb E) | now rewrite (bvz_bvop I Hwf _ w a b Na Nb) | reflexivity].
    + destruct (bv_args_generic BLshl w args ty Logic.I Hok Htc) as [Ety F]. destruct args as [|a [|b [|? ?]]]; try discriminate.
      inversion F as [|? ? Na F']; subst. inversion F' as [|? ? Nb _]; subst.
      eapply Hres; [exact (r_bv_lshl_sound I Hwf w a b r Hw Na Nb E) | now rewrite (bvz_bvop I Hwf _ w a b Na Nb) | reflexivity].
    + destruct (bv_args_generic BLshr w args ty Logic.I Hok Htc) as [Ety F]. destruct args as [|a [|b [|? ?]]]; try discriminate.
      inversion F as [|? ? Na F']; subst. inversion F' as [|? ? Nb _]; subst.
      eapply Hres; [exact (r_bv_lshr_sound I Hwf w a b r Hw Na Nb E) | now rewrite (bvz_bvop I Hwf _ w a b Na Nb) | reflexivity].
    + (* comp *)
      apply andb_true_iff in Hk. destruct Hk as [_ Hw1]. apply Z.eqb_eq in Hw1. subst w.
      destruct args as [|a [|b [|? ?]]]; try discriminate. unfold bin in E.
      destruct (bv_args_pair _ a b ty Hok Htc) as (ta & tb & Oa & Ob & Ta & Tb & Hr2).
      cbn in Hr2. destruct (ty_eqb ta tb && is_bv ta) eqn:Et; [|discriminate]. inversion Hr2; subst ty.
      apply andb_true_iff in Et. destruct Et as [E1 E2]. apply ty_eqb_eq in E1. subst tb. destruct ta as [| | | |wa| | |]; try discriminate.
      eapply Hres; [exact (r_bv_comp_sound I Hwf wa a b r (conj Oa Ta) (conj Ob Tb) E) | | reflexivity].
      rewrite eval_plain by reflexivity. cbn [map op_sem].
      destruct (bvterm_eval I Hwf wa a (conj Oa Ta)) as [-> _]. destruct (bvterm_eval I Hwf wa b (conj Ob Tb)) as [-> _]. reflexivity.
    + destruct (bv_args_generic BSdiv w args ty Logic.I Hok Htc) as [Ety F]. destruct args as [|a [|b [|? ?]]]; try discriminate. unfold bin in E.
      inversion F as [|? ? Na F']; subst. inversion F' as [|? ? Nb _]; subst.
      eapply Hres; [exact (r_bv_sdiv_sound I Hwf w a b r Hw Na Nb E) | now rewrite (bvz_bvop I Hwf _ w a b Na Nb) | reflexivity].
    + destruct (bv_args_generic BSrem w args ty Logic.I Hok Htc) as [Ety F]. destruct args as [|a [|b [|? ?]]]; try discriminate. unfold bin in E.
      inversion F as [|? ? Na F']; subst. inversion F' as [|? ? Nb _]; subst.
      eapply Hres; [exact (r_bv_srem_sound I Hwf w a b r Hw Na Nb E) | now rewrite (bvz_bvop I Hwf _ w a b Na Nb) | reflexivity].
    + destruct (bv_args_generic BAshr w args ty Logic.I Hok Htc) as [Ety F]. destruct args as [|a [|b [|? ?]]]; try discriminate. unfold bin in E.
      inversion F as [|? ? Na F']; subst. inversion F' as [|? ? Nb _]; subst.
      eapply Hres; [exact (r_bv_ashr_sound I Hwf w a b r Hw Na Nb E) | now rewrite (bvz_bvop I Hwf _ w a b Na Nb) | reflexivity].
  - (* bv relations *)
    destruct args as [|a [|b [|? ?]]]; try discriminate.
    destruct (bv_args_pair _ a b ty Hok Htc) as (ta & tb & Oa & Ob & Ta & Tb & Hr2).
    pose proof (bv_to_bool_out _ _ Hr2) as ->. cbn in Hr2. destruct ta as [| | | |wa| | |]; try discriminate.
    destruct tb as [| | | |wb| | |]; try discriminate. cbn in Hr2. destruct (Z.eqb_spec wa wb) as [<-|]; [|discriminate].
    destruct (bvterm_eval I Hwf wa a (conj Oa Ta)) as [Ea _]. destruct (bvterm_eval I Hwf wa b (conj Ob Tb)) as [Eb _].
    destruct k; try discriminate Hn; cbn [rule] in E.
    + destruct (r_bv_ult_sound I Hwf wa a b r (conj Oa Ta) (conj Ob Tb) E) as [B1 B2].
      rewrite eval_plain by reflexivity. cbn [map op_sem]. rewrite Ea, Eb. cbn. apply res_ok_bool; auto.
    + destruct (r_bv_ule_sound I Hwf wa a b r (conj Oa Ta) (conj Ob Tb) E) as [B1 B2].
      rewrite eval_plain by reflexivity. cbn [map op_sem]. rewrite Ea, Eb. cbn. apply res_ok_bool; auto.
    + destruct (r_bv_slt_sound I Hwf wa a b r (conj Oa Ta) (conj Ob Tb) E) as [B1 B2].
      rewrite eval_plain by reflexivity. cbn [map op_sem]. rewrite Ea, Eb. cbn. apply res_ok_bool; auto.
    + destruct (r_bv_sle_sound I Hwf wa a b r (conj Oa Ta) (conj Ob Tb) E) as [B1 B2].
      rewrite eval_plain by reflexivity. cbn [map op_sem]. rewrite Ea, Eb. cbn. apply res_ok_bool; auto.
  - (* extract *)
    destruct args as [|a [|? ?]]; try discriminate.
    apply andb_true_iff in Hn. destruct Hn as [Hn Hse]. apply andb_true_iff in Hn. destruct Hn as [_ Hs0]. apply Z.leb_le in Hse, Hs0.
    inversion F2 as [|? ta ? ? Ha F2']; subst. inversion F2'; subst. inversion Fa as [|? ? Oa _]; subst.
    cbn in Hr. destruct ta as [| | | |wa| | |]; try discriminate.
    destruct (Z.geb_spec s wa); [discriminate|]. destruct (Z.geb_spec e wa); [discriminate|]. cbn [orb] in Hr.
    destruct (wa <? w)%Z; [discriminate|]. destruct (Z.eqb_spec w (e - s + 1)) as [->|]; [|discriminate]. cbn in Hr. inversion Hr; subst ty.
    eapply bv_res_ok; [exact (r_bv_extract_sound I Hwf wa s e a r (conj Oa Ha) Hs0 Hse ltac:(lia) E)|].
    rewrite eval_plain by reflexivity. cbn [map op_sem]. destruct (bvterm_eval I Hwf wa a (conj Oa Ha)) as [-> _]. reflexivity.
  - (* rol *)
    destruct args as [|a [|? ?]]; try discriminate.
    apply andb_true_iff in Hn. destruct Hn as [_ Hw]. apply Z.ltb_lt in Hw.
    inversion F2 as [|? ta ? ? Ha F2']; subst. inversion F2'; subst. inversion Fa as [|? ? Oa _]; subst.
    cbn in Hr. destruct (Z.ltb_spec w k); [discriminate|]. destruct (w <? 0)%Z; [discriminate|]. destruct (Z.ltb_spec k 0); [discriminate|]. cbn [orb] in Hr.
    destruct ta as [| | | |wa| | |]; try discriminate. destruct (Z.eqb_spec w wa) as [<-|]; [|discriminate]. inversion Hr; subst ty.
    eapply bv_res_ok; [exact (r_bv_rol_sound I Hwf w k a r Hw ltac:(lia) (conj Oa Ha) E)|].
    rewrite eval_plain by reflexivity. cbn [map op_sem]. destruct (bvterm_eval I Hwf w a (conj Oa Ha)) as [-> _]. reflexivity.
  - (* ror *)
    destruct args as [|a [|? ?]]; try discriminate.
    apply andb_true_iff in Hn. destruct Hn as [_ Hw]. apply Z.ltb_lt in Hw.
    inversion F2 as [|? ta ? ? Ha F2']; subst. inversion F2'; subst. inversion Fa as [|? ? Oa _]; subst.
    cbn in Hr. destruct (Z.ltb_spec w k); [discriminate|]. destruct (w <? 0)%Z; [discriminate|]. destruct (Z.ltb_spec k 0); [discriminate|]. cbn [orb] in Hr.
    destruct ta as [| | | |wa| | |]; try discriminate. destruct (Z.eqb_spec w wa) as [<-|]; [|discriminate]. inversion Hr; subst ty.
    eapply bv_res_ok; [exact (r_bv_ror_sound I Hwf w k a r Hw ltac:(lia) (conj Oa Ha) E)|].
    rewrite eval_plain by reflexivity. cbn [map op_sem]. destruct (bvterm_eval I Hwf w a (conj Oa Ha)) as [-> _]. reflexivity.
  - (* zext *)
    destruct args as [|a [|? ?]]; try discriminate.
    inversion F2 as [|? ta ? ? Ha F2']; subst. inversion F2'; subst. inversion Fa as [|? ? Oa _]; subst.
    cbn in Hr. destruct ta as [| | | |wa| | |]; try discriminate.
    destruct (Z.ltb_spec w wa); [discriminate|]. destruct (Z.ltb_spec w 0); [discriminate|]. cbn in Hr. inversion Hr; subst ty.
    apply Z.eqb_eq in Hn. rewrite (bv_width_ok a wa Oa Ha) in Hn.
    eapply bv_res_ok; [exact (r_bv_zext_sound I Hwf wa w k a r ltac:(lia) ltac:(lia) Hn (conj Oa Ha) E)|].
    rewrite eval_plain by reflexivity. cbn [map op_sem]. destruct (bvterm_eval I Hwf wa a (conj Oa Ha)) as [-> _]. reflexivity.
  - (* sext *)
    destruct args as [|a [|? ?]]; try discriminate.
    inversion F2 as [|? ta ? ? Ha F2']; subst. inversion F2'; subst. inversion Fa as [|? ? Oa _]; subst.
    cbn in Hr. destruct ta as [| | | |wa| | |]; try discriminate.
    destruct (Z.ltb_spec w wa); [discriminate|]. destruct (Z.ltb_spec w 0); [discriminate|]. cbn in Hr. inversion Hr; subst ty.
    apply Z.eqb_eq in Hn. rewrite (bv_width_ok a wa Oa Ha) in Hn.
    pose proof (bvterm_pos a wa Oa Ha) as Hwa.
    eapply bv_res_ok; [exact (r_bv_sext_sound I Hwf wa w k a r Hwa ltac:(lia) Hn (conj Oa Ha) E)|].
    rewrite eval_plain by reflexivity. cbn [map op_sem]. destruct (bvterm_eval I Hwf wa a (conj Oa Ha)) as [-> _]. reflexivity.
  - (* strings *) eapply r_str_sound; eauto.
  - (* select *)
    destruct args as [|a [|i [|? ?]]]; try discriminate.
    inversion Fa as [|? ? Oa Fa']; subst. inversion Fa' as [|? ? Oi ?]; subst.
    eapply r_select_sound; eauto.
  - (* store *)
    destruct args as [|a [|i [|v [|? ?]]]]; try discriminate.
    inversion Fa as [|? ? Oa Fa']; subst. inversion Fa' as [|? ? Oi Fa'']; subst. inversion Fa'' as [|? ? Ov ?]; subst.
    eapply r_store_sound; eauto.
  - (* array value *)
    destruct args as [|d rest]; [discriminate|]. unfold arr_node_ok in Hn. apply andb_true_iff in Hn. destruct Hn as [Hk _].
    eapply r_array_value_sound; eauto.
  - (* div *) contradiction.
  - (* pow *)
    destruct args as [|a [|e rest]]; try discriminate.
    destruct rest; [|destruct e as [[] [|]]; discriminate Hn].
    now apply r_pow_sound.
  - (* bv2nat *)
    destruct args as [|a [|? ?]]; try discriminate.
    inversion F2 as [|? ta ? ? Ha F2']; subst. inversion F2'; subst. inversion Fa as [|? ? Oa _]; subst.
    cbn in Hr. destruct ta as [| | | |wa| | |]; try discriminate. inversion Hr; subst ty.
    destruct (r_bv_tonatural_sound I Hwf wa a r (conj Oa Ha) E) as [[O Tc] Ev]. repeat split; auto.
    rewrite Ev. rewrite eval_plain by reflexivity. cbn [map op_sem].
    destruct (bvterm_eval I Hwf wa a (conj Oa Ha)) as [-> _]. reflexivity.
  }
  destruct o; try (apply res_weaken, Hnd; exact Logic.I).
  (* div *)
  clear Hnd. cbn [ok_node] in Hn. cbn [rule] in E. cbn [tc_rule] in Hr.
  apply arith_rule_inv in Hr. destruct Hr as [Har _].
  destruct (nterm_args ODiv ty args (or_intror (or_intror (or_intror eq_refl))) (conj Hok Htc)) as [_ F].
  destruct args as [|a [|b [|? ?]]]; try discriminate. inversion F as [|? ? Na F']; subst. inversion F' as [|? ? Nb ?]; subst.
  destruct (r_div_sound I Hwf ty Har a b r Na Nb E) as [[O Tc] Ev]. repeat split; auto.
Qed.

(* the node over the SIMPLIFIED children: for an array value only the part of the canonical form
   that the simplification of the children keeps (a value may have become the default) *)
Definition ok_node_w (o : op) (args : list term) : bool :=
  match o, args with OArrayValue it, d :: rest => arr_keys_ok it d rest | _, _ => ok_node o args end.
Lemma rule_sound1w I ora o args ty r : wfi I ->
  ok_node_w o args = true -> Forall (fun a => okt a = true) args -> tc (T o args) = Some ty -> rule ora o args = Some r ->
  okt r = true /\ tc r = Some ty /\ (div_ok I o args -> eval I r = eval I (T o args)).
Proof.
  intros Hwf Hn Fa Htc E.
  assert (Hgen : ok_node o args = true -> okt r = true /\ tc r = Some ty /\ (div_ok I o args -> eval I r = eval I (T o args))).
  { intros Hn'. apply (rule_sound1 I ora o args ty r Hwf); auto. now apply okt_intro. }
  destruct o; try (apply Hgen; exact Hn).
  destruct args as [|d rest]; [apply Hgen; exact Hn|]. cbn [ok_node_w] in Hn. cbn [rule] in E.
  destruct (r_array_value_sound I Hwf it d rest ty r Hn Fa Htc E) as (A & B & C). auto.
Qed.

(* ================================================================== division safety of the arguments *)
Definition strict_op (o : op) : bool :=
  match o with OIte | ODiv | OForall _ | OExists _ => false | _ => true end.
Lemma div_safe_args I o args : strict_op o = true -> div_safe I (T o args) -> Forall (div_safe I) args.
Proof.
  intros Ho H.
  assert (G : (fix all (l : list term) : Prop := match l with [] => True | x :: r => div_safe I x /\ all r end) args).
  { destruct o; try discriminate Ho; exact H. }
  clear H. induction args as [|x r IH]; constructor; destruct G; auto.
Qed.

(* ================================================================== the simplifier, stage 1 *)
Definition sound_at (ora : oracle) (t : term) : Prop :=
  forall I ty r, okt t = true -> tc t = Some ty -> wfi I -> simplify_opt ora t = Some r ->
    (okt r = true /\ tc r = Some ty) /\ (div_safe I t -> eval I r = eval I t).

Lemma Forall2_length_eq {A B} (R : A -> B -> Prop) l l' : Forall2 R l l' -> List.length l = List.length l'.
Proof. induction 1; cbn; auto. Qed.
Definition len_op (o : op) : bool := match o with OPow | OBVZext _ _ | OBVSext _ _ | OArrayValue _ => false | _ => true end.
Lemma ok_node_length o l l' : len_op o = true ->
  List.length l = List.length l' -> ok_node o l = ok_node o l'.
Proof. intros Ho H. destruct o; try discriminate Ho; cbn; try rewrite H; auto. Qed.
(* Zext / Sext: the payload is tied to the width of the operand, which simplification keeps *)
Lemma ok_node_ext o l l' : (exists w k, o = OBVZext w k \/ o = OBVSext w k) -> ok_node o l = true ->
  Forall2 (fun a a' => okt a' = true /\ tc a' = tc a) l l' -> Forall (fun a => okt a = true) l ->
  (exists ty, tc (T o l) = Some ty) -> ok_node o l' = true.
Proof.
  intros (w & k & Ho) Hn F2 Fa (ty & Htc).
  destruct (tc_inv _ _ _ Htc) as (tys & Ht & Hr). pose proof (tcs_Forall2 _ _ Ht) as FT.
  assert (G : match l with [a] => (w =? bv_width a + k)%Z | _ => false end = true) by (destruct Ho as [-> | ->]; exact Hn).
  destruct l as [|a [|? ?]]; try discriminate G.
  inversion F2 as [|? a' ? ? [Oa' Ta'] F2']; subst. inversion F2'; subst. inversion Fa as [|? ? Oa _]; subst.
  inversion FT as [|? ta ? ? Ha FT']; subst. inversion FT'; subst.
  assert (exists wa, ta = TBV wa) as (wa & ->).
  { destruct Ho as [-> | ->]; cbn in Hr; destruct ta; try discriminate; eauto. }
  rewrite (bv_width_ok a wa Oa Ha) in G. rewrite Ha in Ta'.
  destruct Ho as [-> | ->]; cbn; now rewrite (bv_width_ok a' wa Oa' Ta').
Qed.
(* Pow: the exponent is a constant, which simplification leaves alone *)
Lemma ok_node_pow ora l l' : ok_node OPow l = true ->
  Forall2 (fun a a' => simplify_opt ora a = Some a') l l' -> ok_node OPow l' = true.
Proof.
  intros Hn F2. destruct l as [|a [|e rest]]; try discriminate Hn.
  destruct rest; [|destruct e as [[] [|]]; discriminate Hn].
  inversion F2 as [|? a' ? ? Ha F2']; subst. inversion F2' as [|? e' ? ? He F2'']; subst. inversion F2''; subst.
  cbn in Hn. destruct e as [oe le]. destruct oe; try discriminate Hn; destruct le; try discriminate Hn;
    rewrite simplify_constant in He by exact Logic.I; inversion He; subst; exact Hn.
Qed.

(* array values: the indices are constants, which simplification leaves alone *)
Lemma keys_sorted_ext : forall l l' : list (term * term), map fst l = map fst l' -> keys_sorted l = keys_sorted l'.
Proof.
  induction l as [|p r IH]; intros [|p' r'] H; try discriminate; auto. cbn in H. injection H as H1 H2. cbn [keys_sorted].
  rewrite (IH r' H2). f_equal. rewrite H1. clear - H2. revert r' H2.
  induction r as [|q r IH]; intros [|q' r'] H; try discriminate; auto. cbn in H. injection H as H1 H2. cbn. now rewrite H1, (IH r' H2).
Qed.
Lemma pairs_keys_simplified ora : forall rest rest', Forall2 (fun a a' => simplify_opt ora a = Some a') rest rest' ->
  forallb (fun kv => key_const (fst kv)) (pairs_of rest) = true -> map fst (pairs_of rest') = map fst (pairs_of rest).
Proof.
  induction rest as [| x | x y r IH] using list_ind2; intros rest' F2 H.
  - inversion F2; subst. reflexivity.
  - inversion F2 as [|? ? ? ? _ F2']; subst. inversion F2'; subst. reflexivity.
  - inversion F2 as [|? x' ? ? Hx F2']; subst. inversion F2' as [|? y' ? ? Hy F2'']; subst.
    cbn in H. apply andb_true_iff in H. destruct H as [Hk H]. cbn. rewrite (IH _ F2'' H). f_equal.
    destruct x as [ox lx]. destruct ox; try discriminate Hk; destruct lx; try discriminate Hk;
      rewrite simplify_constant in Hx by exact Logic.I; now inversion Hx.
Qed.
Lemma ok_node_arr ora it l l' : ok_node (OArrayValue it) l = true ->
  Forall2 (fun a a' => simplify_opt ora a = Some a') l l' ->
  Forall2 (fun a a' => okt a' = true /\ tc a' = tc a) l l' -> ok_node_w (OArrayValue it) l' = true.
Proof.
  intros Hn F2 FT. destruct l as [|d rest]; [discriminate Hn|]. inversion F2 as [|? d' ? rest' Hd F2']; subst.
  inversion FT as [|? ? ? ? [_ Td] _]; subst. cbn [ok_node] in Hn. cbn [ok_node_w].
  unfold arr_node_ok in Hn. apply andb_true_iff in Hn. destruct Hn as [Hk _]. unfold arr_keys_ok in *.
  repeat (apply andb_true_iff in Hk; destruct Hk as [Hk ?]).
  pose proof (pairs_keys_simplified ora rest rest' F2' H0) as Ek.
  rewrite Hk, Td, H2. rewrite <- (Forall2_length_eq _ _ _ F2'), H1. cbn [andb].
  apply andb_true_iff. split.
  - rewrite forallb_forall in H0. apply forallb_forall. intros p Hp.
    assert (Hin : In (fst p) (map fst (pairs_of rest))) by (rewrite <- Ek; now apply in_map).
    apply in_map_iff in Hin. destruct Hin as (q & Eq & Hq). rewrite <- Eq. now apply H0.
  - now rewrite (keys_sorted_ext _ _ Ek).
Qed.
Lemma ok_node_w_of o l : ok_node o l = true -> ok_node_w o l = true.
Proof.
  intros H. destruct o; auto. destruct l as [|d rest]; auto. cbn in *. unfold arr_node_ok in H. apply andb_true_iff in H. tauto.
Qed.

Theorem simplify_sound_stages : forall ora t, sound_at ora t.
Proof.
  intros ora. induction t as [o args IH] using term_ind'. intros I ty r Hok Htc Hwf E.
  rewrite simplify_opt_unfold in E.
  destruct (map_opt (simplify_opt ora) args) as [args'|] eqn:Em; [|discriminate].
  pose proof (map_opt_Forall2 _ _ _ Em) as F2.
  pose proof (okt_args _ _ Hok) as Fa. pose proof (okt_node _ _ Hok) as Hn.
  destruct (tc_inv _ _ _ Htc) as (tys & Ht & Hr). pose proof (tcs_Forall2 _ _ Ht) as FT.
  (* the simplified arguments: fragment terms of the same sorts *)
  assert (HA : forall J, wfi J -> Forall2 (fun a a' => okt a' = true /\ tc a' = tc a /\ (div_safe J a -> eval J a' = eval J a)) args args').
  { intros J HJ. clear Em E Hr Hn Hok Htc. revert tys Ht FT.
    induction F2 as [|a a' l l' Ha Hl IHl]; intros tys Ht FT; constructor.
    - pose proof (Forall_inv IH) as IHa. pose proof (Forall_inv Fa) as Oa.
      inversion FT as [|? ta ? ? Hta ?]; subst.
      destruct (IHa J ta a' Oa Hta HJ Ha) as [[A1 A2] A3]. rewrite Hta. auto.
    - inversion FT as [|? ta ? tr Hta FT']; subst.
      apply (IHl (Forall_inv_tail IH) (Forall_inv_tail Fa) tr); auto. now apply Forall2_tcs. }
  assert (HAt : Forall2 (fun a a' => okt a' = true /\ tc a' = tc a) args args').
  { specialize (HA I Hwf). clear - HA. induction HA; constructor; tauto. }
  assert (Fa' : Forall (fun a => okt a = true) args').
  { clear - HAt. induction HAt; constructor; tauto. }
  assert (Hnw : ok_node_w o args' = true).
  { destruct (len_op o) eqn:Eo.
    - apply ok_node_w_of. rewrite <- (ok_node_length o args args'); auto. eapply Forall2_length_eq; eauto.
    - destruct o; try discriminate Eo.
      + apply ok_node_w_of. apply (ok_node_ext _ args args'); eauto.
      + apply ok_node_w_of. apply (ok_node_ext _ args args'); eauto.
      + eapply ok_node_arr; eauto.
      + apply ok_node_w_of. eapply ok_node_pow; eauto. }
  assert (Htc' : tc (T o args') = Some ty).
  { rewrite tc_tcs. replace (tcs args') with (tcs args); [now rewrite Ht|].
    specialize (HA I Hwf). clear - HA. induction HA as [|a a' l l' Ha Hl IHl]; cbn; auto.
    destruct Ha as (_ & -> & _). now rewrite IHl. }
  apply simp_rule_rule in E.
  destruct (rule_sound1w I ora o args' ty r Hwf Hnw Fa' Htc' E) as (R1 & R2 & R3).
  split; [split; assumption|]. intros Hds.
  (* congruence: the node over the simplified arguments has the value of the original node *)
  destruct (strict_op o) eqn:Hs.
  - rewrite R3 by (destruct o; try discriminate Hs; exact Logic.I).
    pose proof (div_safe_args I o args Hs Hds) as Fd.
    assert (Hmap : map (eval I) args' = map (eval I) args).
    { specialize (HA I Hwf). clear - HA Fd. induction HA as [|a a' l l' Ha Hl IHl]; cbn; auto.
      inversion Fd; subst. destruct Ha as (_ & _ & Ha). rewrite Ha, IHl; auto. }
    destruct o; try discriminate Hs; cbn [eval]; try (now rewrite Hmap); reflexivity.
  - destruct o; try discriminate Hs; cbn [ok_node] in Hn; try discriminate Hn; try rewrite (R3 Logic.I).
    + (* forall *)
      destruct args as [|b [|? ?]]; try discriminate. inversion F2 as [|? b' ? ? Hb F2']; subst. inversion F2'; subst.
      cbn [eval]. apply emi_bool. cbn in Hds.
      assert (G : forall xs, vals_ok xs vs -> eval (Sem.bind I vs xs) b' = eval (Sem.bind I vs xs) b).
      { intros xs Hx. pose proof (HA (Sem.bind I vs xs) (wf_bind' _ _ _ Hwf Hx)) as HAx.
        inversion HAx as [|? ? ? ? (_ & _ & Hb') ?]; subst. apply Hb'. now apply Hds. }
      split; intros H xs Hx; [rewrite <- G | rewrite G]; auto.
    + (* exists *)
      destruct args as [|b [|? ?]]; try discriminate. inversion F2 as [|? b' ? ? Hb F2']; subst. inversion F2'; subst.
      cbn [eval]. apply emi_bool. cbn in Hds.
      assert (G : forall xs, vals_ok xs vs -> eval (Sem.bind I vs xs) b' = eval (Sem.bind I vs xs) b).
      { intros xs Hx. pose proof (HA (Sem.bind I vs xs) (wf_bind' _ _ _ Hwf Hx)) as HAx.
        inversion HAx as [|? ? ? ? (_ & _ & Hb') ?]; subst. apply Hb'. now apply Hds. }
      split; intros (xs & Hx & H); exists xs; (split; [exact Hx|]); [rewrite <- G | rewrite G]; auto.
    + (* ite *)
      destruct args as [|c [|a [|b [|? ?]]]]; try discriminate.
      specialize (HA I Hwf).
      inversion HA as [|? c' ? ? (_ & _ & Hc) HA1]; subst. inversion HA1 as [|? a' ? ? (_ & _ & Ha) HA2]; subst.
      inversion HA2 as [|? b' ? ? (_ & _ & Hb) HA3]; subst. inversion HA3; subst.
      cbn in Hds. destruct Hds as [Dc Dab]. rewrite !eval_plain by reflexivity. cbn [map op_sem].
      rewrite (Hc Dc). destruct (vbool (eval I c)); auto.
    + (* div *)
      destruct args as [|a [|b [|? ?]]]; try discriminate.
      specialize (HA I Hwf).
      inversion HA as [|? a' ? ? (_ & _ & Ha) HA1]; subst. inversion HA1 as [|? b' ? ? (_ & _ & Hb) HA2]; subst. inversion HA2; subst.
      cbn in Hds. destruct Hds as (Da & Db & Hnz).
      rewrite R3 by (cbn; now rewrite (Hb Db)).
      rewrite !eval_plain by reflexivity. cbn [map op_sem]. now rewrite (Ha Da), (Hb Db).
Qed.

(* ================================================================== statements for props/C01.v *)
(* the fragment proved so far *)
Definition in_frag (t : term) : bool := okt t.

Theorem simplify_sound_partial : forall ora I t ty r,
  in_frag t = true -> tc t = Some ty -> wfi I -> div_safe I t -> simplify_opt ora t = Some r ->
  tc r = Some ty /\ eval I r = eval I t.
Proof.
  intros ora I t ty r Hf Htc Hwf Hds E.
  destruct (simplify_sound_stages ora t I ty r Hf Htc Hwf E) as [[_ H1] H2]. split; auto.
Qed.
(* the result stays in the fragment *)
Theorem simplify_frag_closed : forall ora t ty r,
  in_frag t = true -> tc t = Some ty -> simplify_opt ora t = Some r -> in_frag r = true.
Proof.
  intros ora t ty r Hf Htc E.
  destruct (simplify_sound_stages ora t I0 ty r Hf Htc wfi_I0 E) as [[H _] _]. exact H.
Qed.
(* under Sem.v's own well-formedness predicate *)
Corollary simplify_sound_partial_wf : forall ora I t ty r,
  in_frag t = true -> tc t = Some ty -> wf_interp I -> div_safe I t -> simplify_opt ora t = Some r ->
  tc r = Some ty /\ eval I r = eval I t.
Proof. intros. eapply simplify_sound_partial; eauto. now apply wf_interp_wfi. Qed.

(* the hypotheses are satisfiable and the theorem says something: a quantified, shared example *)
Definition ex_t : term :=
  let p := TSym "p" TBool in let q := TSym "q" TBool in
  T (OForall [("p"%string, TBool); ("x"%string, TInt)])
    [T OOr [T OAnd [p; T ONot [p]]; T OIff [q; TTrue]; T OEquals [TIntC 1; TIntC 2]]].
Example sound_example :
  in_frag ex_t = true /\ tc ex_t = Some TBool /\ wfi I0 /\ div_safe I0 ex_t /\
  simplify_opt no_oracle ex_t = Some (TSym "q" TBool).
Proof.
  split; [reflexivity|]. split; [reflexivity|]. split; [exact wfi_I0|]. split; [|reflexivity].
  intros xs _. cbn. tauto.
Qed.

Definition ex_a : term :=
  let x := TSym "x" TInt in let y := TSym "y" TInt in
  T OLe [T OPlus [T OTimes [x; TIntC (-2)]; TIntC 3; T OMinus [y; x]; TIntC 4];
         T ODiv [T OTimes [TIntC 6; TIntC 7]; TIntC (-5)]].
Example sound_example_arith :
  in_frag ex_a = true /\ tc ex_a = Some TBool /\ div_safe I0 ex_a /\
  simplify_opt no_oracle ex_a =
    Some (T OLe [T OMinus [T OPlus [TSym "y" TInt; TIntC 7]; T OPlus [TSym "x" TInt; T OTimes [TSym "x" TInt; TIntC 2]]]; TIntC (-8)]).
Proof.
  split; [reflexivity|]. split; [reflexivity|]. split; [|reflexivity].
  cbn. repeat split; auto. intros H. discriminate H.
Qed.

Definition ex_bv : term :=
  let x := TSym "x" (TBV 8) in
  T (OBVRel BUlt) [T (OBV BAdd 8) [x; TBVC 0 8];
                   T (OBV BAnd 8) [TBVC 255 8; T (OBV BMul 8) [TBVC 3 8; T (OBV BLshl 8) [TBVC 5 8; TBVC 2 8]]]].
Example sound_example_bv :
  in_frag ex_bv = true /\ tc ex_bv = Some TBool /\ div_safe I0 ex_bv /\
  simplify_opt no_oracle ex_bv = Some (T (OBVRel BUlt) [TSym "x" (TBV 8); TBVC 60 8]).
Proof. split; [reflexivity|]. split; [reflexivity|]. split; [|reflexivity]. cbn. tauto. Qed.

Definition ex_arr : term :=
  let x := TSym "x" TInt in
  let b := TSym "b" (TArr TInt TInt) in
  let a0 := T (OArrayValue TInt) [TIntC 0; TIntC 1; TIntC 5] in
  T OAnd [T OEquals [T OSelect [T OStore [a0; TIntC 2; T OPlus [x; TIntC 0]]; TIntC 2]; x];
          T ONot [T OEquals [a0; T OStore [T (OArrayValue TInt) [TIntC 0]; TIntC 1; TIntC 6]]];
          T OEquals [b; T OStore [T (OArrayValue TInt) [TIntC 0; TIntC 3; TIntC 7]; TIntC 3; TIntC 0]]].
Example sound_example_arr :
  in_frag ex_arr = true /\ tc ex_arr = Some TBool /\ div_safe I0 ex_arr /\
  simplify_opt no_oracle ex_arr =
    Some (T OEquals [TSym "b" (TArr TInt TInt); T (OArrayValue TInt) [TIntC 0]]).
Proof. split; [reflexivity|]. split; [reflexivity|]. split; [|reflexivity]. cbn. tauto. Qed.

Definition ex_str : term :=
  let s := TSym "s" TStr in
  T OAnd [T OEquals [T (OStr SLength) [T (OStr SConcat) [TStrC [97; 98]%Z; TStrC [99]%Z]]; TIntC 3%Z];
          T OEquals [T (OStr SIndexOf) [TStrC [97; 98; 99; 98]%Z; TStrC [98]%Z; TIntC 2%Z]; TIntC 3%Z];
          T OEquals [T (OStr SReplace) [TStrC [97; 98; 99]%Z; TStrC [98]%Z; TStrC []]; TStrC [97; 99]%Z];
          T OEquals [T (OStr SToInt) [T (OStr SFromInt) [TIntC 1234567890123456789012%Z]]; TIntC 1234567890123456789012%Z];
          T (OStr SPrefixOf) [T (OStr SSubstr) [TStrC [97; 98; 99]%Z; TIntC 1%Z; TIntC 5%Z]; s]].
Example sound_example_str :
  in_frag ex_str = true /\ tc ex_str = Some TBool /\ div_safe I0 ex_str /\
  simplify_opt no_oracle ex_str = Some (T (OStr SPrefixOf) [TStrC [98; 99]%Z; TSym "s" TStr]).
Proof. split; [reflexivity|]. split; [reflexivity|]. split; [|vm_compute; reflexivity]. cbn. tauto. Qed.

(* finite index sorts: the assigned indices cover Bool, the defaults are not seen *)
Definition ex_arr_fin : term :=
  let a := T (OArrayValue TBool) [TIntC 0; TBoolC false; TIntC 1] in
  let b := T (OArrayValue TBool) [TIntC 1; TBoolC true; TIntC 0] in
  T OAnd [T OEquals [a; b];
          T ONot [T OEquals [T (OArrayValue (TBV 2)) [TIntC 0; TBVC 0 2; TIntC 1]; T (OArrayValue (TBV 2)) [TIntC 1; TBVC 1 2; TIntC 0]]];
          T OEquals [T OSelect [T OStore [a; TBoolC true; TSym "x" TInt]; TBoolC true]; TSym "x" TInt]].
Example sound_example_arr_fin :
  in_frag ex_arr_fin = true /\ tc ex_arr_fin = Some TBool /\ div_safe I0 ex_arr_fin /\
  simplify_opt no_oracle ex_arr_fin = Some TTrue.
Proof. split; [reflexivity|]. split; [reflexivity|]. split; [|reflexivity]. cbn. tauto. Qed.

(* Real indices and Real elements *)
Definition ex_arr_real : term :=
  let a := T (OArrayValue TReal) [TRealC 0 1; TRealC 1 2; TRealC 3 4] in
  T OAnd [T OEquals [T OSelect [a; TRealC 1 2]; TRealC 3 4];
          T ONot [T OEquals [a; T OStore [T (OArrayValue TReal) [TRealC 0 1]; TRealC 1 3; TRealC 3 4]]];
          T OEquals [T OStore [a; TRealC 1 2; TRealC 0 1]; T (OArrayValue TReal) [TRealC 0 1]]].
Example sound_example_arr_real :
  in_frag ex_arr_real = true /\ tc ex_arr_real = Some TBool /\ div_safe I0 ex_arr_real /\
  simplify_opt no_oracle ex_arr_real = Some TTrue.
Proof. split; [reflexivity|]. split; [reflexivity|]. split; [|reflexivity]. cbn. tauto. Qed.

(* Pow with a negative integer constant exponent on a base that simplifies to a non-zero constant *)
(* Pow with a negative integer constant exponent on a base that simplifies to a non-zero constant *)
Definition ex_pow_neg : term :=
  let x := TSym "x" TInt in let r := TSym "r" TReal in
  T OAnd [T OEquals [T OPow [T OIte [TTrue; TIntC 2; x]; TIntC (-3)]; TRealC 1 8];
          T OEquals [T OPow [T OIte [TTrue; TRealC (-2) 3; r]; TRealC (-2) 1]; TRealC 9 4];
          T OLe [T OPow [r; TRealC (-1) 1]; T OPow [r; TRealC (-1) 1]]].
Example sound_example_pow_neg :
  in_frag ex_pow_neg = true /\ tc ex_pow_neg = Some TBool /\ div_safe I0 ex_pow_neg /\
  simplify_opt no_oracle ex_pow_neg =
    Some (T OLe [T OPow [TSym "r" TReal; TRealC (-1) 1]; T OPow [TSym "r" TReal; TRealC (-1) 1]]).
Proof. split; [reflexivity|]. split; [reflexivity|]. split; [|reflexivity]. cbn. tauto. Qed.
